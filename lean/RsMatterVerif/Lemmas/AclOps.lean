import RsMatterVerif.Props.C05
import RsMatterVerif.Model.AclOps
/-!
# Lemmas for C05, second part: every production mutator of the configuration (`Model/AclOps.lean`)
preserves the invariants under which `C05.allow_iff_granted` holds.
-/
namespace Acl
open C05

/-! ## invariants of one fabric -/

/-- every entry carries the fabric's own index, and group ids are distinct -/
def XFabOk (f : Fabric) : Prop :=
  (∀ e ∈ f.acl, e.fabIdx = some f.fabIdx) ∧ (f.groups.map (fun x => x.groupId)).Nodup

/-- stored privileges are the five privileges of the cluster -/
def XFabCanon (f : Fabric) : Prop := ∀ e ∈ f.acl, ∃ p : Priv, e.privilege = p.bits

/-- what a mutator of the ACL does, abstractly: index and group table stay, and every entry is an
old one or a freshly stamped one satisfying `new` -/
def AclStep (f f' : Fabric) (new : Entry → Prop) : Prop :=
  f'.fabIdx = f.fabIdx ∧ f'.groups = f.groups ∧
    ∀ x ∈ f'.acl, x ∈ f.acl ∨ ∃ e, new e ∧ x = { e with fabIdx := some f.fabIdx }

theorem AclStep.ok {f f' : Fabric} {new : Entry → Prop} (h : AclStep f f' new) (hf : XFabOk f) : XFabOk f' := by
  obtain ⟨h1, h2, h3⟩ := h
  refine ⟨?_, by rw [h2]; exact hf.2⟩
  intro x hx
  rw [h1]
  rcases h3 x hx with h | ⟨e, _, rfl⟩
  · exact hf.1 x h
  · rfl

theorem AclStep.canon {f f' : Fabric} {new : Entry → Prop} (h : AclStep f f' new)
    (hn : ∀ e, new e → ∃ p : Priv, e.privilege = p.bits) (hf : XFabCanon f) : XFabCanon f' := by
  obtain ⟨_, _, h3⟩ := h
  intro x hx
  rcases h3 x hx with h | ⟨e, he, rfl⟩
  · exact hf x h
  · exact hn e he

theorem AclStep.trans {f f1 f2 : Fabric} {new : Entry → Prop} (h1 : AclStep f f1 new) (h2 : AclStep f1 f2 new) :
    AclStep f f2 new := by
  obtain ⟨a1, a2, a3⟩ := h1
  obtain ⟨b1, b2, b3⟩ := h2
  refine ⟨b1.trans a1, b2.trans a2, ?_⟩
  intro x hx
  rcases b3 x hx with h | ⟨e, he, rfl⟩
  · exact a3 x h
  · exact Or.inr ⟨e, he, by rw [a1]⟩

theorem AclStep.mono {f f' : Fabric} {new new' : Entry → Prop} (h : AclStep f f' new)
    (hm : ∀ e, new e → new' e) : AclStep f f' new' := by
  obtain ⟨a1, a2, a3⟩ := h
  refine ⟨a1, a2, ?_⟩
  intro x hx
  rcases a3 x hx with h | ⟨e, he, rfl⟩
  · exact Or.inl h
  · exact Or.inr ⟨e, hm e he, rfl⟩

theorem aclAdd_step {f f' : Fabric} {e : Entry} {n : Nat} (h : f.xAclAdd e = .ok (f', n)) :
    AclStep f f' (fun x => x = e) := by
  unfold Fabric.xAclAdd at h
  split at h
  · cases h
  · split at h
    · injection h with h; injection h with h1 h2; subst h1
      refine ⟨rfl, rfl, ?_⟩
      intro x hx
      rcases List.mem_append.mp hx with hx | hx
      · exact Or.inl hx
      · simp only [List.mem_singleton] at hx; exact Or.inr ⟨e, rfl, hx⟩
    · cases h

theorem aclAddInit_step {f f' : Fabric} {init : Except CfgErr Entry} {n : Nat}
    (h : f.xAclAddInit init = .ok (f', n)) : AclStep f f' (fun x => init = .ok x) := by
  unfold Fabric.xAclAddInit at h
  split at h
  · cases init with
    | error err => cases h
    | ok e =>
      injection h with h; injection h with h1 h2; subst h1
      refine ⟨rfl, rfl, ?_⟩
      intro x hx
      rcases List.mem_append.mp hx with hx | hx
      · exact Or.inl hx
      · simp only [List.mem_singleton] at hx; exact Or.inr ⟨e, rfl, hx⟩
  · cases h

theorem aclUpdate_step {f f' : Fabric} {idx : Nat} {e : Entry} (h : f.xAclUpdate idx e = .ok f') :
    AclStep f f' (fun x => x = e) := by
  unfold Fabric.xAclUpdate at h
  split at h
  · cases h
  · injection h with h; subst h
    refine ⟨rfl, rfl, ?_⟩
    intro x hx
    rcases List.mem_or_eq_of_mem_set hx with hx | hx
    · exact Or.inl hx
    · exact Or.inr ⟨e, rfl, hx⟩

theorem aclUpdateInit_step {f f' : Fabric} {idx : Nat} {init : Except CfgErr Entry}
    (h : f.xAclUpdateInit idx init = .ok f') : AclStep f f' (fun x => init = .ok x) := by
  unfold Fabric.xAclUpdateInit at h
  split at h
  · cases h
  · cases init with
    | error err => cases h
    | ok e =>
      injection h with h; subst h
      refine ⟨rfl, rfl, ?_⟩
      intro x hx
      rcases List.mem_or_eq_of_mem_set hx with hx | hx
      · exact Or.inl hx
      · exact Or.inr ⟨e, rfl, hx⟩

theorem aclRemove_step {f f' : Fabric} {idx : Nat} (h : f.xAclRemove idx = .ok f') (new : Entry → Prop) :
    AclStep f f' new := by
  unfold Fabric.xAclRemove at h
  split at h
  · cases h
  · injection h with h; subst h
    exact ⟨rfl, rfl, fun x hx => Or.inl (List.mem_of_mem_eraseIdx hx)⟩

theorem aclRemoveAll_step (f : Fabric) (new : Entry → Prop) : AclStep f f.aclRemoveAll new :=
  ⟨rfl, rfl, fun x hx => by simp [Fabric.aclRemoveAll] at hx⟩

/-! ## `AclEntry::init_with` -/

theorem privOfEnum_canonical {v b : Nat} (h : privOfEnum v = some b) : ∃ p : Priv, b = p.bits := by
  unfold privOfEnum at h
  split at h
  · injection h with h; exact ⟨.view, h.symm⟩
  · split at h
    · injection h with h; exact ⟨.proxyView, h.symm⟩
    · split at h
      · injection h with h; exact ⟨.operate, h.symm⟩
      · split at h
        · injection h with h; exact ⟨.manage, h.symm⟩
        · split at h
          · injection h with h; exact ⟨.administer, h.symm⟩
          · cases h

/-- what `init_with` accepts: the privilege is one of the five, the mode is not PASE, a Group entry
is not Administer, and the entry is stamped with the index given -/
theorem initWith_ok {fab : Nat} {s : EntryIn} {e : Entry} (h : initWith fab s = .ok e) :
    (∃ p : Priv, e.privilege = p.bits) ∧ e.authMode ≠ AuthMode.pase ∧ e.fabIdx = some fab ∧
      ¬ (e.authMode = AuthMode.group ∧ e.privilege = PRIV_ADMIN) := by
  unfold initWith at h
  split at h
  · rename_i mode priv subjects targets hm hp hs ht
    split at h
    · cases h
    · split at h
      · cases h
      · rename_i hx hpa
        split at h
        · cases h
        · split at h
          · cases h
          · injection h with h; subst h
            simp only [Bool.or_eq_true, beq_iff_eq, Bool.and_eq_true, not_or, not_and] at hpa
            obtain ⟨v, hv, hpv⟩ := Option.bind_eq_some_iff.mp hp
            refine ⟨privOfEnum_canonical hpv, hpa.1, rfl, ?_⟩
            rintro ⟨hg, hadm⟩
            have h5 : s.privilege ≠ some 5 := by
              intro h5; exact hpa.2 hg (by simp [h5])
            apply h5
            rw [hv]
            simp only at hadm
            -- the only wire value giving Administer is 5
            unfold privOfEnum at hpv
            split at hpv
            · injection hpv with hpv; rw [← hpv] at hadm; exact absurd hadm (by decide)
            · split at hpv
              · injection hpv with hpv; rw [← hpv] at hadm; exact absurd hadm (by decide)
              · split at hpv
                · injection hpv with hpv; rw [← hpv] at hadm; exact absurd hadm (by decide)
                · split at hpv
                  · injection hpv with hpv; rw [← hpv] at hadm; exact absurd hadm (by decide)
                  · split at hpv
                    · rename_i h5'; rw [h5']
                    · cases hpv
  · cases h

theorem entryInit_canonical {ini : EntryInit} (hc : match ini with | .raw e => ∃ p : Priv, e.privilege = p.bits | _ => True)
    {e : Entry} (h : ini.run = .ok e) : ∃ p : Priv, e.privilege = p.bits := by
  cases ini with
  | raw e0 => simp only [EntryInit.run] at h; injection h with h; subst h; exact hc
  | fails err => cases h
  | wire fab s => exact (initWith_ok h).1

/-! ## `AclHandler::set_acl` -/

/-- the entries the handler writes come out of `init_with` for the fabric's own index -/
def FromWire (fab : Nat) (e : Entry) : Prop := ∃ s, initWith fab s = .ok e

theorem replaceFill_step {f f' : Fabric} {l : List EntryIn} (h : replaceFill f l = some f') :
    AclStep f f' (FromWire f.fabIdx) := by
  induction l generalizing f with
  | nil =>
    simp only [replaceFill] at h; injection h with h; subst h
    exact ⟨rfl, rfl, fun x hx => Or.inl hx⟩
  | cons s rest ih =>
    simp only [replaceFill] at h
    cases ha : f.xAclAddInit (initWith f.fabIdx s) with
    | error err => simp [ha] at h
    | ok r =>
      obtain ⟨f1, n⟩ := r
      simp only [ha] at h
      have s1 := (aclAddInit_step ha).mono (new' := FromWire f.fabIdx) (fun e he => ⟨s, he⟩)
      have s2 := ih h
      rw [s1.1] at s2
      exact s1.trans s2

theorem handlerSetAcl_step {f f' : Fabric} {w : AclWrite} (h : handlerSetAcl f w = some (.ok f')) :
    AclStep f f' (FromWire f.fabIdx) := by
  cases w with
  | replace l =>
    simp only [handlerSetAcl] at h
    split at h
    · cases h
    · cases hr : replaceFill f.aclRemoveAll l with
      | none => simp [hr] at h
      | some f1 =>
        simp only [hr, Option.map_some, Option.some.injEq, Except.ok.injEq] at h
        subst h
        exact (aclRemoveAll_step f _).trans (replaceFill_step hr)
  | add s =>
    simp only [handlerSetAcl] at h
    split at h
    · cases h
    · rename_i f1 n ha
      injection h with h; injection h with h; subst h
      exact (aclAddInit_step ha).mono (fun e he => ⟨s, he⟩)
  | update idx s =>
    simp only [handlerSetAcl] at h
    injection h with h
    exact (aclUpdateInit_step h).mono (fun e he => ⟨s, he⟩)
  | remove idx =>
    simp only [handlerSetAcl] at h
    injection h with h
    exact aclRemove_step h _

/-- the `unwrap!`s of the second pass of `Replace` cannot fail: a list that passed the validation is
within the capacity and every element initialises -/
theorem replaceFill_validated (f : Fabric) (l : List EntryIn) (n : Nat)
    (hv : validateReplace f.fabIdx n l = .ok ()) (hlen : f.acl.length = n) :
    ∃ f', replaceFill f l = some f' := by
  induction l generalizing f n with
  | nil => exact ⟨f, rfl⟩
  | cons s rest ih =>
    simp only [validateReplace] at hv
    split at hv
    · cases hv
    · rename_i hcap
      cases hi : initWith f.fabIdx s with
      | error err => simp [hi] at hv
      | ok e =>
        simp only [hi] at hv
        have hlt : f.acl.length < Consts.maxAclEntriesPerFabric := by omega
        simp only [replaceFill, Fabric.xAclAddInit, hi, hlt, if_true]
        exact ih _ (n + 1) hv (by simp [hlen])

theorem handlerSetAcl_no_panic (f : Fabric) (w : AclWrite) : handlerSetAcl f w ≠ none := by
  cases w with
  | replace l =>
    simp only [handlerSetAcl]
    cases hv : validateReplace f.fabIdx 0 l with
    | error err => simp
    | ok u =>
      cases u
      obtain ⟨f', hf'⟩ := replaceFill_validated f.aclRemoveAll l 0 hv rfl
      simp [hf']
  | add s => simp only [handlerSetAcl]; split <;> simp
  | update idx s => simp [handlerSetAcl]
  | remove idx => simp [handlerSetAcl]

/-! ## `Groups` -/

theorem updFirst_ids (gs : List GroupMapping) (gid : Nat) (u : GroupMapping → GroupMapping)
    (hu : ∀ x, (u x).groupId = x.groupId) :
    (xGroupsUpdFirst gs gid u).map (fun x => x.groupId) = gs.map (fun x => x.groupId) := by
  induction gs with
  | nil => rfl
  | cons x xs ih =>
    unfold xGroupsUpdFirst
    split
    · simp [hu]
    · simp [ih]

theorem find_none_ids {gs : List GroupMapping} {gid : Nat} (h : xGroupsFind gs gid = none) :
    gid ∉ gs.map (fun x => x.groupId) := by
  unfold xGroupsFind at h
  rw [List.find?_eq_none] at h
  intro hm
  obtain ⟨x, hx, hxe⟩ := List.mem_map.mp hm
  have := h x hx
  simp [hxe] at this

theorem nodup_push {gs : List GroupMapping} {x : GroupMapping}
    (hd : (gs.map (fun x => x.groupId)).Nodup) (hn : x.groupId ∉ gs.map (fun x => x.groupId)) :
    ((gs ++ [x]).map (fun x => x.groupId)).Nodup := by
  rw [List.map_append, List.nodup_append]
  refine ⟨hd, by simp, ?_⟩
  intro a ha b hb
  simp only [List.map_cons, List.map_nil, List.mem_singleton] at hb
  rw [hb]; intro hab; rw [hab] at ha; exact hn ha

theorem nodup_updFirst {gs : List GroupMapping} {gid : Nat} {u : GroupMapping → GroupMapping}
    (hu : ∀ x, (u x).groupId = x.groupId) (hd : (gs.map (fun x => x.groupId)).Nodup) :
    ((xGroupsUpdFirst gs gid u).map (fun x => x.groupId)).Nodup := by
  rw [updFirst_ids _ _ _ hu]; exact hd

theorem xGroupsAdd_ids {gs : List GroupMapping} (ep gid : Nat) (hd : (gs.map (fun x => x.groupId)).Nodup) :
    ((xGroupsAdd gs ep gid).1.map (fun x => x.groupId)).Nodup := by
  unfold xGroupsAdd
  cases hf : xGroupsFind gs gid with
  | some x =>
    simp only
    split
    · exact hd
    · split
      · dsimp only
        refine nodup_updFirst ?_ hd
        intro _; rfl
      · exact hd
  | none =>
    simp only
    have hn := find_none_ids hf
    split
    · split
      · exact nodup_push hd hn
      · exact nodup_push hd hn
    · exact hd

theorem xGroupsRemove_ids {gs : List GroupMapping} (ep : Nat) (gid : Option Nat)
    (hd : (gs.map (fun x => x.groupId)).Nodup) :
    ((xGroupsRemove gs ep gid).1.map (fun x => x.groupId)).Nodup := by
  unfold xGroupsRemove
  simp only
  refine List.Nodup.sublist (List.Sublist.map _ List.filter_sublist) ?_
  rw [List.map_map]
  have : ((fun x : GroupMapping => x.groupId) ∘ fun x =>
      if removeSkips gid x = true then x
      else { x with endpoints := x.endpoints.filter (fun e => e != ep) })
      = fun x => x.groupId := by
    funext x; simp only [Function.comp]; split <;> rfl
  rw [this]; exact hd

theorem xGroupsJoin_ids {gs : List GroupMapping} (gid : Nat) (eps : List Nat) (replace : Bool)
    (hd : (gs.map (fun x => x.groupId)).Nodup) :
    ((xGroupsJoin gs gid eps replace).1.map (fun x => x.groupId)).Nodup := by
  unfold xGroupsJoin
  cases hf : xGroupsFind gs gid with
  | some x =>
    dsimp only
    refine nodup_updFirst ?_ hd
    intro _; rfl
  | none =>
    dsimp only
    by_cases hlen : gs.length < Consts.maxGroupsPerFabric
    · simp only [hlen, if_true]
      refine nodup_updFirst ?_ (nodup_push hd (find_none_ids hf))
      intro _; rfl
    · simp only [hlen, if_false]
      exact hd

theorem xGroupsCastRemove_ids {gs : List GroupMapping} (gid : Nat) (hd : (gs.map (fun x => x.groupId)).Nodup) :
    ((xGroupsCastRemove gs gid).1.map (fun x => x.groupId)).Nodup := by
  unfold xGroupsCastRemove
  exact List.Nodup.sublist (List.Sublist.map _ List.filter_sublist) hd

theorem xGroupsSetHasAux_ids {gs : List GroupMapping} (gid : Nat) (v : Bool) (hd : (gs.map (fun x => x.groupId)).Nodup) :
    ((xGroupsSetHasAux gs gid v).1.map (fun x => x.groupId)).Nodup := by
  unfold xGroupsSetHasAux
  split
  · exact hd
  · dsimp only
    refine nodup_updFirst ?_ hd
    intro _; rfl

/-! ## the configuration: fabric table + stored fabric records -/

/-- The invariant of the whole configuration. Table: distinct fabric indices, every fabric `XFabOk`.
Store: one record per key, the record under key `k` is a fabric with index `k`
(`FabricPersist::store` keys by `fabric.fab_idx()`), itself `XFabOk`. -/
structure CfgInv (c : Cfg) : Prop where
  distinct : (c.fabrics.map (fun f => f.fabIdx)).Nodup
  fabOk : ∀ f ∈ c.fabrics, XFabOk f
  keys : (c.store.map (fun kv => kv.1)).Nodup
  storeOk : ∀ kv ∈ c.store, kv.2.fabIdx = kv.1 ∧ XFabOk kv.2

structure CfgCanon (c : Cfg) : Prop where
  fabrics : ∀ f ∈ c.fabrics, XFabCanon f
  store : ∀ kv ∈ c.store, XFabCanon kv.2

theorem xGet_some {s : List Fabric} {i : Nat} {f : Fabric} (h : xGet s i = some f) :
    f ∈ s ∧ f.fabIdx = i := by
  unfold xGet at h
  have h1 := List.mem_of_find?_eq_some h
  have h2 := List.find?_some h
  simp at h2
  exact ⟨h1, h2⟩

theorem xGet_none {s : List Fabric} {i : Nat} (h : xGet s i = none) : ∀ f ∈ s, f.fabIdx ≠ i := by
  unfold xGet at h
  rw [List.find?_eq_none] at h
  intro f hf
  simpa using h f hf

theorem xSet_idx (s : List Fabric) (i : Nat) (f' : Fabric) (h : f'.fabIdx = i) :
    (xSet s i f').map (fun f => f.fabIdx) = s.map (fun f => f.fabIdx) := by
  induction s with
  | nil => rfl
  | cons x xs ih =>
    unfold xSet
    by_cases hx : x.fabIdx = i
    · have : (x.fabIdx == i) = true := by simp [hx]
      simp only [this, if_true, List.map_cons]
      rw [h, hx]
    · have : (x.fabIdx == i) = false := by simp [hx]
      simp only [this, Bool.false_eq_true, if_false, List.map_cons, ih]

theorem mem_xSet {s : List Fabric} {i : Nat} {f' x : Fabric} (h : x ∈ xSet s i f') : x ∈ s ∨ x = f' := by
  induction s with
  | nil => cases h
  | cons y ys ih =>
    unfold xSet at h
    split at h
    · rcases List.mem_cons.mp h with rfl | h
      · exact Or.inr rfl
      · exact Or.inl (List.mem_cons_of_mem _ h)
    · rcases List.mem_cons.mp h with rfl | h
      · exact Or.inl (by simp)
      · rcases ih h with h | h
        · exact Or.inl (List.mem_cons_of_mem _ h)
        · exact Or.inr h

theorem CfgInv.setFabric {c : Cfg} (h : CfgInv c) {i : Nat} {f' : Fabric} (hi : f'.fabIdx = i)
    (hok : XFabOk f') : CfgInv { c with fabrics := xSet c.fabrics i f' } := by
  refine ⟨?_, ?_, h.keys, h.storeOk⟩
  · show ((xSet c.fabrics i f').map _).Nodup
    rw [xSet_idx _ _ _ hi]; exact h.distinct
  · intro x hx
    rcases mem_xSet hx with hx | rfl
    · exact h.fabOk x hx
    · exact hok

theorem CfgCanon.setFabric {c : Cfg} (h : CfgCanon c) {i : Nat} {f' : Fabric}
    (hok : XFabCanon f') : CfgCanon { c with fabrics := xSet c.fabrics i f' } := by
  refine ⟨?_, h.store⟩
  intro x hx
  rcases mem_xSet hx with hx | rfl
  · exact h.fabrics x hx
  · exact hok

theorem inv_onFabric {c : Cfg} {i : Nat} {op : Fabric → Except CfgErr (Fabric × Res)} (h : CfgInv c)
    (hop : ∀ f f' r, XFabOk f → op f = .ok (f', r) → f'.fabIdx = f.fabIdx ∧ XFabOk f') :
    CfgInv (c.onFabric i op).1 := by
  unfold Cfg.onFabric
  cases hg : xGet c.fabrics i with
  | none => exact h
  | some f =>
    obtain ⟨hf, hi⟩ := xGet_some hg
    dsimp only
    cases ho : op f with
    | error e => exact h
    | ok r =>
      obtain ⟨f', r⟩ := r
      obtain ⟨a, b⟩ := hop f f' r (h.fabOk f hf) ho
      exact h.setFabric (a.trans hi) b

theorem canon_onFabric {c : Cfg} {i : Nat} {op : Fabric → Except CfgErr (Fabric × Res)} (h : CfgCanon c)
    (hop : ∀ f f' r, XFabCanon f → op f = .ok (f', r) → XFabCanon f') :
    CfgCanon (c.onFabric i op).1 := by
  unfold Cfg.onFabric
  cases hg : xGet c.fabrics i with
  | none => exact h
  | some f =>
    obtain ⟨hf, hi⟩ := xGet_some hg
    dsimp only
    cases ho : op f with
    | error e => exact h
    | ok r =>
      obtain ⟨f', r⟩ := r
      exact h.setFabric (hop f f' r (h.fabrics f hf) ho)

theorem inv_onGroups {c : Cfg} {i : Nat} {op : List GroupMapping → List GroupMapping × Res} (h : CfgInv c)
    (hop : ∀ gs, (gs.map (fun x => x.groupId)).Nodup → ((op gs).1.map (fun x => x.groupId)).Nodup) :
    CfgInv (c.onGroups i op).1 := by
  unfold Cfg.onGroups
  cases hg : xGet c.fabrics i with
  | none => exact h
  | some f =>
    obtain ⟨hf, hi⟩ := xGet_some hg
    exact h.setFabric hi ⟨(h.fabOk f hf).1, hop _ (h.fabOk f hf).2⟩

theorem canon_onGroups {c : Cfg} {i : Nat} {op : List GroupMapping → List GroupMapping × Res} (h : CfgCanon c) :
    CfgCanon (c.onGroups i op).1 := by
  unfold Cfg.onGroups
  cases hg : xGet c.fabrics i with
  | none => exact h
  | some f =>
    obtain ⟨hf, hi⟩ := xGet_some hg
    exact h.setFabric (h.fabrics f hf)

theorem except_map_ok {α β : Type} {x : Except CfgErr α} {g : α → β} {b : β} (h : x.map g = .ok b) :
    ∃ a, x = .ok a ∧ g a = b := by
  cases x with
  | error e => cases h
  | ok a => exact ⟨a, rfl, by injection h⟩

/-! ### fabrics added, removed -/

theorem initialAcl_ok (i : Nat) (admin : Option Nat) :
    (∀ e ∈ initialAcl i admin, e.fabIdx = some i) ∧ (∀ e ∈ initialAcl i admin, ∃ p : Priv, e.privilege = p.bits) := by
  cases admin with
  | none => simp [initialAcl]
  | some s =>
    simp only [initialAcl, List.mem_singleton]
    exact ⟨fun e he => by rw [he], fun e he => ⟨.administer, by rw [he]; rfl⟩⟩

theorem inv_fabAdd {c : Cfg} (admin : Option Nat) (h : CfgInv c) : CfgInv (c.fabAdd admin).1 := by
  unfold Cfg.fabAdd
  cases hn : nextFabIdx c.fabrics with
  | none => exact h
  | some i =>
    simp only
    split
    · have hfresh := nextFabIdx_fresh hn
      refine ⟨?_, ?_, h.keys, h.storeOk⟩
      · show ((c.fabrics ++ [_]).map _).Nodup
        rw [List.map_append, List.nodup_append]
        refine ⟨h.distinct, by simp, ?_⟩
        intro a ha b hb
        simp only [List.map_cons, List.map_nil, List.mem_singleton] at hb
        obtain ⟨f, hf, rfl⟩ := List.mem_map.mp ha
        rw [hb]
        exact hfresh f hf
      · intro f hf
        rcases List.mem_append.mp hf with hf | hf
        · exact h.fabOk f hf
        · simp only [List.mem_singleton] at hf; subst hf
          exact ⟨(initialAcl_ok i admin).1, by simp⟩
    · exact h

theorem canon_fabAdd {c : Cfg} (admin : Option Nat) (h : CfgCanon c) : CfgCanon (c.fabAdd admin).1 := by
  unfold Cfg.fabAdd
  cases hn : nextFabIdx c.fabrics with
  | none => exact h
  | some i =>
    simp only
    split
    · refine ⟨?_, h.store⟩
      intro f hf
      rcases List.mem_append.mp hf with hf | hf
      · exact h.fabrics f hf
      · simp only [List.mem_singleton] at hf; subst hf
        exact (initialAcl_ok i admin).2
    · exact h

theorem inv_filter {c : Cfg} (p : Fabric → Bool) (h : CfgInv c) : CfgInv { c with fabrics := c.fabrics.filter p } :=
  ⟨List.Nodup.sublist (List.Sublist.map _ List.filter_sublist) h.distinct,
    fun f hf => h.fabOk f (List.mem_filter.mp hf).1, h.keys, h.storeOk⟩

theorem canon_filter {c : Cfg} (p : Fabric → Bool) (h : CfgCanon c) : CfgCanon { c with fabrics := c.fabrics.filter p } :=
  ⟨fun f hf => h.fabrics f (List.mem_filter.mp hf).1, h.store⟩

theorem inv_fabRemove {c : Cfg} (i : Nat) (h : CfgInv c) : CfgInv (c.fabRemove i).1 := by
  unfold Cfg.fabRemove
  split
  · exact h
  · exact inv_filter _ h

theorem canon_fabRemove {c : Cfg} (i : Nat) (h : CfgCanon c) : CfgCanon (c.fabRemove i).1 := by
  unfold Cfg.fabRemove
  split
  · exact h
  · exact canon_filter _ h

/-! ### the store -/

theorem privToEnum_canonical {b v : Nat} (h : (privToEnum b).bind privOfEnum = some v) : ∃ p : Priv, v = p.bits := by
  obtain ⟨w, _, hw⟩ := Option.bind_eq_some_iff.mp h
  exact privOfEnum_canonical hw

theorem entry_persisted {e e' : Entry} (h : e.persisted = some e') :
    e'.fabIdx = e.fabIdx ∧ ∃ p : Priv, e'.privilege = p.bits := by
  unfold Entry.persisted at h
  split at h
  · rename_i p hp
    injection h with h; subst h
    exact ⟨rfl, privToEnum_canonical hp⟩
  · cases h

theorem fabric_persisted {f f' : Fabric} (h : f.persisted = some f') :
    f'.fabIdx = f.fabIdx ∧ (XFabOk f → XFabOk f') ∧ XFabCanon f' := by
  unfold Fabric.persisted at h
  split at h
  · injection h with h; subst h
    refine ⟨rfl, ?_, ?_⟩
    · rintro ⟨h1, h2⟩
      refine ⟨?_, h2⟩
      intro e he
      obtain ⟨e0, he0, hp⟩ := List.mem_filterMap.mp he
      rw [(entry_persisted hp).1]; exact h1 e0 he0
    · intro e he
      obtain ⟨e0, _, hp⟩ := List.mem_filterMap.mp he
      exact (entry_persisted hp).2
  · cases h

theorem store_get {s : FabStore} {k : Nat} {f : Fabric} (h : s.get k = some f) : (k, f) ∈ s := by
  unfold FabStore.get at h
  obtain ⟨kv, hkv, rfl⟩ := Option.map_eq_some_iff.mp h
  have h1 := List.mem_of_find?_eq_some hkv
  have h2 := List.find?_some hkv
  simp at h2
  rw [← h2]; exact h1

theorem store_erase_keys {s : FabStore} (k : Nat) (hd : (s.map (fun kv => kv.1)).Nodup) :
    ((s.erase k).map (fun kv => kv.1)).Nodup ∧ k ∉ (s.erase k).map (fun kv => kv.1) := by
  unfold FabStore.erase
  refine ⟨List.Nodup.sublist (List.Sublist.map _ List.filter_sublist) hd, ?_⟩
  intro hm
  obtain ⟨kv, hkv, hk⟩ := List.mem_map.mp hm
  have := (List.mem_filter.mp hkv).2
  simp [hk] at this

theorem inv_persistStore {c : Cfg} (i : Nat) (h : CfgInv c) : CfgInv (c.persistStore i).1 := by
  unfold Cfg.persistStore
  cases hg : xGet c.fabrics i with
  | none => exact h
  | some f =>
    obtain ⟨hf, hi⟩ := xGet_some hg
    dsimp only
    cases hp : f.persisted with
    | none => exact h
    | some f' =>
      dsimp only
      obtain ⟨p1, p2, _⟩ := fabric_persisted hp
      obtain ⟨e1, e2⟩ := store_erase_keys f.fabIdx h.keys
      refine ⟨h.distinct, h.fabOk, ?_, ?_⟩
      · show ((c.store.erase f.fabIdx ++ [(f.fabIdx, f')]).map _).Nodup
        rw [List.map_append, List.nodup_append]
        refine ⟨e1, by simp, ?_⟩
        intro a ha b hb
        simp only [List.map_cons, List.map_nil, List.mem_singleton] at hb
        rw [hb]; intro hab; rw [hab] at ha; exact e2 ha
      · intro kv hkv
        rcases List.mem_append.mp hkv with hkv | hkv
        · exact h.storeOk kv (List.mem_filter.mp hkv).1
        · simp only [List.mem_singleton] at hkv; subst hkv
          exact ⟨p1, p2 (h.fabOk f hf)⟩

theorem canon_persistStore {c : Cfg} (i : Nat) (h : CfgCanon c) : CfgCanon (c.persistStore i).1 := by
  unfold Cfg.persistStore
  cases hg : xGet c.fabrics i with
  | none => exact h
  | some f =>
    dsimp only
    cases hp : f.persisted with
    | none => exact h
    | some f' =>
      dsimp only
      refine ⟨h.fabrics, ?_⟩
      intro kv hkv
      rcases List.mem_append.mp hkv with hkv | hkv
      · exact h.store kv (List.mem_filter.mp hkv).1
      · simp only [List.mem_singleton] at hkv; subst hkv
        exact (fabric_persisted hp).2.2

theorem inv_persistRemove {c : Cfg} (i : Nat) (h : CfgInv c) : CfgInv (c.persistRemove i).1 :=
  ⟨h.distinct, h.fabOk, (store_erase_keys i h.keys).1, fun kv hkv => h.storeOk kv (List.mem_filter.mp hkv).1⟩

theorem canon_persistRemove {c : Cfg} (i : Nat) (h : CfgCanon c) : CfgCanon (c.persistRemove i).1 :=
  ⟨h.fabrics, fun kv hkv => h.store kv (List.mem_filter.mp hkv).1⟩

theorem addLoad_cases (fabrics : List Fabric) (store : FabStore) (k : Nat) :
    (store.get k = none ∧ addLoad fabrics store k = .ok fabrics) ∨
    (∃ f, store.get k = some f ∧ addLoad fabrics store k = .ok (fabrics ++ [f])) ∨
    (∃ e, addLoad fabrics store k = .error e) := by
  unfold addLoad
  cases hg : store.get k with
  | none => exact Or.inl ⟨rfl, rfl⟩
  | some f =>
    dsimp only
    by_cases hlen : fabrics.length < Consts.maxFabrics
    · simp only [hlen, if_true]; exact Or.inr (Or.inl ⟨f, rfl, rfl⟩)
    · simp only [hlen, if_false]; exact Or.inr (Or.inr ⟨_, rfl⟩)

/-- a table all of whose fabrics are fine and whose indices are distinct and avoid the keys still to
be loaded stays so through the loading loop -/
theorem loadLoop_inv {store : FabStore} (hs : ∀ kv ∈ store, kv.2.fabIdx = kv.1 ∧ XFabOk kv.2)
    (ks : List Nat) (acc : List Fabric) (hks : ks.Nodup)
    (hd : (acc.map (fun f => f.fabIdx)).Nodup) (hok : ∀ f ∈ acc, XFabOk f)
    (havoid : ∀ f ∈ acc, f.fabIdx ∉ ks) :
    ((loadLoop store ks acc).1.map (fun f => f.fabIdx)).Nodup ∧ ∀ f ∈ (loadLoop store ks acc).1, XFabOk f := by
  induction ks generalizing acc with
  | nil => exact ⟨hd, hok⟩
  | cons k rest ih =>
    have hk := List.nodup_cons.mp hks
    rcases addLoad_cases acc store k with ⟨_, h⟩ | ⟨f, hg, h⟩ | ⟨e, h⟩
    · simp only [loadLoop, h]
      exact ih acc hk.2 hd hok (fun f hf hm => havoid f hf (List.mem_cons_of_mem _ hm))
    · simp only [loadLoop, h]
      obtain ⟨s1, s2⟩ := hs _ (store_get hg)
      simp only at s1
      refine ih (acc ++ [f]) hk.2 ?_ ?_ ?_
      · rw [List.map_append, List.nodup_append]
        refine ⟨hd, by simp, ?_⟩
        intro a ha b hb
        simp only [List.map_cons, List.map_nil, List.mem_singleton] at hb
        obtain ⟨g, hgm, rfl⟩ := List.mem_map.mp ha
        rw [hb, s1]; intro hgk
        exact havoid g hgm (by rw [hgk]; simp)
      · intro g hgm
        rcases List.mem_append.mp hgm with hgm | hgm
        · exact hok g hgm
        · simp only [List.mem_singleton] at hgm; subst hgm; exact s2
      · intro g hgm
        rcases List.mem_append.mp hgm with hgm | hgm
        · intro hm; exact havoid g hgm (List.mem_cons_of_mem _ hm)
        · simp only [List.mem_singleton] at hgm; subst hgm; rw [s1]; exact hk.1
    · simp only [loadLoop, h]
      exact ⟨hd, hok⟩

theorem loadLoop_canon {store : FabStore} (hs : ∀ kv ∈ store, XFabCanon kv.2)
    (ks : List Nat) (acc : List Fabric) (hok : ∀ f ∈ acc, XFabCanon f) :
    ∀ f ∈ (loadLoop store ks acc).1, XFabCanon f := by
  induction ks generalizing acc with
  | nil => exact hok
  | cons k rest ih =>
    rcases addLoad_cases acc store k with ⟨_, h⟩ | ⟨f, hg, h⟩ | ⟨e, h⟩
    · simp only [loadLoop, h]; exact ih acc hok
    · simp only [loadLoop, h]
      refine ih (acc ++ [f]) ?_
      intro g hgm
      rcases List.mem_append.mp hgm with hgm | hgm
      · exact hok g hgm
      · simp only [List.mem_singleton] at hgm; subst hgm; exact hs _ (store_get hg)
    · simp only [loadLoop, h]; exact hok

theorem inv_loadPersist {c : Cfg} (h : CfgInv c) : CfgInv c.loadPersist.1 := by
  unfold Cfg.loadPersist
  have := loadLoop_inv h.storeOk (List.range' 1 255) [] (List.nodup_range' ..) (by simp) (by simp) (by simp)
  exact ⟨this.1, this.2, h.keys, h.storeOk⟩

theorem canon_loadPersist {c : Cfg} (h : CfgCanon c) : CfgCanon c.loadPersist.1 :=
  ⟨loadLoop_canon h.store _ [] (by simp), h.store⟩

theorem dropFabric_inv {c : Cfg} (i : Nat) (h : CfgInv c) :
    CfgInv { c with fabrics := dropFabric c.fabrics i } ∧ ∀ f ∈ dropFabric c.fabrics i, f.fabIdx ≠ i := by
  unfold dropFabric
  cases hg : xGet c.fabrics i with
  | none => exact ⟨h, xGet_none hg⟩
  | some f =>
    refine ⟨inv_filter _ h, ?_⟩
    intro g hgm
    simpa using (List.mem_filter.mp hgm).2

theorem dropFabric_canon {c : Cfg} (i : Nat) (h : CfgCanon c) :
    CfgCanon { c with fabrics := dropFabric c.fabrics i } := by
  unfold dropFabric
  cases hg : xGet c.fabrics i with
  | none => exact h
  | some f => exact canon_filter _ h

theorem inv_reload {c : Cfg} (i : Nat) (h : CfgInv c) : CfgInv (c.reload i).1 := by
  unfold Cfg.reload
  obtain ⟨hi1, hne⟩ := dropFabric_inv i h
  rcases addLoad_cases (dropFabric c.fabrics i) c.store i with ⟨_, ha⟩ | ⟨f, hg, ha⟩ | ⟨e, ha⟩
  · simp only [ha]; exact hi1
  · simp only [ha]
    obtain ⟨s1, s2⟩ := h.storeOk _ (store_get hg)
    simp only at s1
    refine ⟨?_, ?_, h.keys, h.storeOk⟩
    · show ((dropFabric c.fabrics i ++ [f]).map _).Nodup
      rw [List.map_append, List.nodup_append]
      refine ⟨hi1.distinct, by simp, ?_⟩
      intro a ha b hb
      simp only [List.map_cons, List.map_nil, List.mem_singleton] at hb
      obtain ⟨g, hgm, rfl⟩ := List.mem_map.mp ha
      rw [hb, s1]; exact hne g hgm
    · intro g hgm
      rcases List.mem_append.mp hgm with hgm | hgm
      · exact hi1.fabOk g hgm
      · simp only [List.mem_singleton] at hgm; subst hgm; exact s2
  · simp only [ha]; exact hi1

theorem canon_reload {c : Cfg} (i : Nat) (h : CfgCanon c) : CfgCanon (c.reload i).1 := by
  unfold Cfg.reload
  have h1 := dropFabric_canon i h
  rcases addLoad_cases (dropFabric c.fabrics i) c.store i with ⟨_, ha⟩ | ⟨f, hg, ha⟩ | ⟨e, ha⟩
  · simp only [ha]; exact h1
  · simp only [ha]
    refine ⟨?_, h.store⟩
    intro g hgm
    rcases List.mem_append.mp hgm with hgm | hgm
    · exact h1.fabrics g hgm
    · simp only [List.mem_singleton] at hgm; subst hgm; exact h.store _ (store_get hg)
  · simp only [ha]; exact h1

end Acl
