import RsMatterVerif.Model.Case
/-!
# The CASE resumption cache (`rs-matter/src/sc/case/resumption.rs`, `ResumableSessions`)

Bounded list, oldest record at the head, newest at the tail.  `respResume` / `initSigma1` of
`Model/Case.lean` look records up exactly as `find_by_resumption_id` / `find_by_peer` do
(first match in list order).  `cap` is `MAX_RESUMPTION_RECORDS` (feature dependent, so a
parameter; the harness reports the real value).
-/
namespace Case

abbrev Cache := List ResRec

/-- `find_by_resumption_id` -/
def Cache.findByRid (c : Cache) (rid : Term) : Option ResRec := c.find? fun r => r.rid == rid

/-- `find_by_peer` -/
def Cache.findByPeer (c : Cache) (fab peer : Nat) : Option ResRec :=
  c.find? fun r => r.fabIdx == fab && r.peerNode == peer

/-- `remove_by_peer` -/
def Cache.removeByPeer (c : Cache) (fab peer : Nat) : Cache :=
  c.filter fun r => !(r.fabIdx == fab && r.peerNode == peer)

/-- `if self.records.is_full() { self.records.remove(0) }` -/
def Cache.makeRoom (cap : Nat) (c : Cache) : Cache := if c.length ≥ cap then c.drop 1 else c

/-- `insert_or_update`: drop the record of the same `(fabric, peer)`, evict the oldest one when
full, push at the tail; a no-op for capacity 0 -/
def Cache.insertOrUpdate (cap : Nat) (c : Cache) (r : ResRec) : Cache :=
  if cap = 0 then c else (c.removeByPeer r.fabIdx r.peerNode).makeRoom cap ++ [r]

/-- `remove_for_fabric` (called by the RemoveFabric command handler, `noc.rs`) -/
def Cache.removeForFabric (c : Cache) (fab : Nat) : Cache := c.filter fun r => r.fabIdx != fab

/-- `store_persist`: the blob is the TLV array of the records, in order (the encoding round trip
is C16's subject) -/
def Cache.store (c : Cache) : List ResRec := c

/-- `load_persist`: no blob ⇒ empty; a blob that does not parse — here: more records than the
capacity (`Vec::<_, N>::from_tlv` fails) — is dropped and the cache stays empty -/
def Cache.load (cap : Nat) (blob : Option (List ResRec)) : Cache :=
  match blob with
  | none => []
  | some l => if l.length ≤ cap then l else []

end Case
