import Driver.C17U
/-! C17 driver, second batch of codecs (QR payload, BTP, check-in, BDX) and the unproved formats. -/
namespace Driver.C17More
open Codec Driver.C17U

def step (_kind : String) (_op : List String) (_out : String) : Option String := none

end Driver.C17More
