import RsMatterVerif.Lemmas.Dedup
namespace C04
open Dedup

/-- ghost-instrumented group sender state: `P` is the unbounded position of the maximum
(`s.max = P % 2³²`), `acc` the unbounded positions accepted so far. -/
structure G where
  s : RxState
  P : Nat
  acc : List Nat

def stepG (g : G) (c : Nat) : G × Bool :=
  let r := postRecvRoll g.s c
  if r.2 then
    let fwd := (c + U32 - g.s.max) % U32
    if c ≠ g.s.max ∧ fwd ≤ I32MAX then
      ({ s := r.1, P := g.P + fwd, acc := (g.P + fwd) :: g.acc }, true)
    else
      ({ s := r.1, P := g.P, acc := (g.P - (g.s.max + U32 - c) % U32) :: g.acc }, true)
  else ({ g with s := r.1 }, false)

structure GInv (g : G) (P0 : Nat) : Prop where
  synced : g.s.synced = true
  maxEq : g.s.max = g.P % U32
  p0 : 16 ≤ P0
  range : ∀ a ∈ g.acc, P0 ≤ a ∧ a ≤ g.P
  maxIn : g.P ∈ g.acc
  nodup : g.acc.Nodup
  bits : ∀ i, i < 16 →
    (g.s.bitmap.testBit i = true ↔ ((g.P - (i + 1)) ∈ g.acc ∨ g.P - (i + 1) < P0))

theorem U32_eq : U32 = 4294967296 := rfl
theorem I32MAX_eq : I32MAX = 2147483647 := rfl

theorem roll_eq (s : RxState) (h : s.synced = true) : postRecvRoll s s.max = (s, false) := by
  simp [postRecvRoll, h]
theorem roll_fwd (s : RxState) (c : Nat) (h : s.synced = true) (hne : c ≠ s.max)
    (hf : (c + U32 - s.max) % U32 ≤ I32MAX) :
    postRecvRoll s c = (forward s c ((c + U32 - s.max) % U32), true) := by
  simp [postRecvRoll, h, hne, hf]
theorem roll_win (s : RxState) (c : Nat) (h : s.synced = true) (hne : c ≠ s.max)
    (hf : ¬ (c + U32 - s.max) % U32 ≤ I32MAX) (hb : (s.max + U32 - c) % U32 ≤ L) :
    postRecvRoll s c = inWindow s ((s.max + U32 - c) % U32) := by
  simp [postRecvRoll, h, hne, hf, hb]
theorem roll_old (s : RxState) (c : Nat) (h : s.synced = true) (hne : c ≠ s.max)
    (hf : ¬ (c + U32 - s.max) % U32 ≤ I32MAX) (hb : ¬ (s.max + U32 - c) % U32 ≤ L) :
    postRecvRoll s c = (s, false) := by
  simp [postRecvRoll, h, hne, hf, hb]

theorem ginv_init (first : Nat) (hf : first < U32) :
    GInv { s := RxState.new first, P := first + U32, acc := [first + U32] } (first + U32) := by
  refine ⟨rfl, ?_, ?_, ?_, by simp, by simp, ?_⟩
  · simp only [RxState.new, U32_eq] at *; omega
  · rw [U32_eq]; omega
  · intro a ha; simp at ha; subst ha; simp
  · intro i hi
    simp only [RxState.new, List.mem_singleton]
    constructor
    · intro _; right; rw [U32_eq]; omega
    · intro _
      have : (0xffff : Nat) = 2 ^ 16 - 1 := by decide
      rw [this, Nat.testBit_two_pow_sub_one]; simp [hi]

theorem ginv_step (g : G) (P0 c : Nat) (hc : c < U32) (h : GInv g P0) :
    GInv (stepG g c).1 P0 ∧
    ((stepG g c).2 = true → ∃ p, (stepG g c).1.acc = p :: g.acc ∧ p % U32 = c) ∧
    ((stepG g c).2 = false → (stepG g c).1.acc = g.acc) := by
  have hs := h.synced
  have hm := h.maxEq
  have hp0 := h.p0
  have hPge : P0 ≤ g.P := (h.range _ h.maxIn).1
  unfold stepG
  by_cases hne : c = g.s.max
  · subst hne
    rw [roll_eq _ hs]
    simp only [Bool.false_eq_true, ↓reduceIte]
    exact ⟨h, by simp, by simp⟩
  · by_cases hf : (c + U32 - g.s.max) % U32 ≤ I32MAX
    · -- forward
      rw [roll_fwd _ _ hs hne hf]
      simp only [↓reduceIte, hne, hf, ne_eq, not_false_eq_true, and_self]
      have hd1 : 1 ≤ (c + U32 - g.s.max) % U32 := by
        rw [U32_eq] at *; omega
      refine ⟨?_, fun _ => ⟨_, rfl, by rw [U32_eq] at *; omega⟩, by simp⟩
      generalize hd : (c + U32 - g.s.max) % U32 = d at *
      have hnew : ∀ a ∈ g.acc, a < g.P + d := fun a ha => by have := (h.range a ha).2; omega
      unfold forward
      rw [L_eq]
      by_cases hd16 : d ≤ 16
      · rw [if_pos hd16]
        refine ⟨hs, ?_, hp0, ?_, by simp, ?_, ?_⟩
        · simp only; rw [U32_eq] at *; omega
        · intro a ha
          simp only [List.mem_cons] at ha
          rcases ha with ha | ha
          · subst ha; simp only; omega
          · have := h.range a ha; simp only; omega
        · simp only [List.nodup_cons]
          exact ⟨fun hin => by have := hnew _ hin; omega, h.nodup⟩
        · intro i hi
          simp only [tb_shift _ _ _ hi, Bool.or_eq_true, Bool.and_eq_true, decide_eq_true_eq,
            List.mem_cons]
          constructor
          · rintro (⟨hge, hb⟩ | heq)
            · have := (h.bits (i - d) (by omega)).1 hb
              have h2 : g.P + d - (i + 1) = g.P - (i - d + 1) := by omega
              rw [h2]
              rcases this with t | t
              · left; right; exact t
              · right; exact t
            · left; right
              have h2 : g.P + d - (i + 1) = g.P := by omega
              rw [h2]; exact h.maxIn
          · rintro ((heq | hin) | hlt)
            · omega
            · by_cases hlt : i + 1 < d
              · have := (h.range _ hin).2; omega
              · by_cases he : i + 1 = d
                · right; omega
                · left
                  refine ⟨by omega, ?_⟩
                  apply (h.bits (i - d) (by omega)).2
                  left
                  have h2 : g.P - (i - d + 1) = g.P + d - (i + 1) := by omega
                  rw [h2]; exact hin
            · -- position before the trust-first message
              by_cases hlt2 : i + 1 < d
              · omega
              · by_cases he : i + 1 = d
                · right; omega
                · left
                  refine ⟨by omega, ?_⟩
                  apply (h.bits (i - d) (by omega)).2
                  right; omega
      · rw [if_neg hd16]
        refine ⟨hs, ?_, hp0, ?_, by simp, ?_, ?_⟩
        · simp only; rw [U32_eq] at *; omega
        · intro a ha
          simp only [List.mem_cons] at ha
          rcases ha with ha | ha
          · subst ha; simp only; omega
          · have := h.range a ha; simp only; omega
        · simp only [List.nodup_cons]
          exact ⟨fun hin => by have := hnew _ hin; omega, h.nodup⟩
        · intro i hi
          simp only [Nat.zero_testBit, Bool.false_eq_true, false_iff, List.mem_cons, not_or]
          refine ⟨⟨by omega, fun hin => ?_⟩, by omega⟩
          have := (h.range _ hin).2; omega
    · by_cases hb : (g.s.max + U32 - c) % U32 ≤ L
      · -- behind, inside the window
        rw [roll_win _ _ hs hne hf hb]
        generalize hbk : (g.s.max + U32 - c) % U32 = k at *
        rw [L_eq] at hb
        have hk1 : 1 ≤ k := by rw [U32_eq] at *; omega
        unfold inWindow
        have hbit := h.bits (k - 1) (by omega)
        have hval : g.P - (k - 1 + 1) = g.P - k := by omega
        rw [hval] at hbit
        by_cases ht : g.s.bitmap.testBit (k - 1) = true
        · rw [if_pos ht]
          simp only [Bool.false_eq_true, ↓reduceIte]
          exact ⟨h, by simp, by simp⟩
        · rw [if_neg ht]
          have hnin : g.P - k ∉ g.acc := fun hin => ht (hbit.2 (Or.inl hin))
          have hge : P0 ≤ g.P - k := by
            have : ¬ g.P - k < P0 := fun hh => ht (hbit.2 (Or.inr hh))
            omega
          have hnf : ¬ (c ≠ g.s.max ∧ (c + U32 - g.s.max) % U32 ≤ I32MAX) := fun hh => hf hh.2
          simp only [↓reduceIte, hnf]
          refine ⟨?_, fun _ => ⟨_, rfl, by rw [U32_eq] at *; omega⟩, by simp⟩
          refine ⟨hs, hm, hp0, ?_, ?_, ?_, ?_⟩
          · intro a ha
            simp only [List.mem_cons] at ha
            rcases ha with ha | ha
            · subst ha; simp only; omega
            · exact h.range a ha
          · simp only [List.mem_cons]; right; exact h.maxIn
          · simp only [List.nodup_cons]; exact ⟨hnin, h.nodup⟩
          · intro i hi
            simp only [tb_ins, Bool.or_eq_true, decide_eq_true_eq, List.mem_cons]
            constructor
            · rintro (hb' | heq)
              · rcases (h.bits i hi).1 hb' with t | t
                · left; right; exact t
                · right; exact t
              · left; left; omega
            · rintro ((heq | hin) | hlt)
              · right; omega
              · left; exact (h.bits i hi).2 (Or.inl hin)
              · left; exact (h.bits i hi).2 (Or.inr hlt)
      · rw [roll_old _ _ hs hne hf hb]
        simp only [Bool.false_eq_true, ↓reduceIte]
        exact ⟨h, by simp, by simp⟩

/-- run a tracked group sender over a history; `w` collects the accepted wire values -/
def runG : G → List Nat → List Nat → G × List Nat
  | g, w, [] => (g, w)
  | g, w, c :: cs =>
    let r := stepG g c
    runG r.1 (if r.2 then c :: w else w) cs

theorem runG_inv (cs : List Nat) : ∀ (g : G) (w : List Nat) (P0 : Nat), (∀ c ∈ cs, c < U32) →
    GInv g P0 → w = g.acc.map (· % U32) →
    GInv (runG g w cs).1 P0 ∧ (runG g w cs).2 = (runG g w cs).1.acc.map (· % U32) := by
  induction cs with
  | nil => intro g w P0 _ h hw; exact ⟨h, hw⟩
  | cons c cs ih =>
    intro g w P0 hc h hw
    have hstep := ginv_step g P0 c (hc c (by simp)) h
    simp only [runG]
    apply ih _ _ P0 (fun x hx => hc x (by simp [hx])) hstep.1
    cases hv : (stepG g c).2 with
    | true =>
      obtain ⟨p, hp1, hp2⟩ := hstep.2.1 hv
      simp only [↓reduceIte, hp1, List.map_cons, hp2, hw]
    | false =>
      simp only [Bool.false_eq_true, ↓reduceIte, hstep.2.2 hv, hw]

theorem nodup_map_mod (l : List Nat) (lo hi : Nat) (h : ∀ a ∈ l, lo ≤ a ∧ a ≤ hi)
    (hr : hi - lo < U32) (hn : l.Nodup) : (l.map (· % U32)).Nodup := by
  induction l with
  | nil => simp
  | cons a l ih =>
    simp only [List.nodup_cons] at hn
    simp only [List.map_cons, List.nodup_cons, List.mem_map, not_exists, not_and]
    refine ⟨?_, ih (fun x hx => h x (by simp [hx])) hn.2⟩
    intro b hb heq
    have h1 := h a (by simp)
    have h2 := h b (by simp [hb])
    have : a = b := by rw [U32_eq] at *; omega
    exact hn.1 (this ▸ hb)
end C04
