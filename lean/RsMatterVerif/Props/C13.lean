import RsMatterVerif.Lemmas.SubsRings
/-!
# C13 — a subscriber eventually learns every change it subscribed to

Theorems over `Model/Subs.lean` (the repaired `im/subscriptions.rs`).

* (1) `cov_preserved`, `cov_run`: the coverage invariant `Subs.Cov` (+ well-formedness `Subs.WF`)
  holds initially and is preserved by every operation — a change a live subscriber (in the table
  **or in flight**) has not seen stays covered by a pending entry with an id at least as large.
* (2) `owed_in_report`, `owed_is_pending`, `pending_is_reportable`, `report_progress`,
  `wake_not_late`: an owed change is in the report filter, makes the subscription reportable as
  soon as the minimum interval allows, a report is then begun, and the reporter's wake-up is not
  later than that instant.
* (3) `retry_keeps_content`, `retry_same_filter`, `keep_commits_snapshot`.
* (4) `min_interval_respected`, `retry_gate_respected`, `liveness_due`, `liveness_before_max`,
  `wake_before_max`, `failing_sub_expires_by_max`, `retry_preserves_expiry`,
  `expiry_sweep_removes`, `backoff_capped`.
* (5) `change_table_capacity`, `change_id_monotone`, `sub_id_fresh`, `table_capacity`.
* (6) `event_pending_iff`, `events_not_pending_after_keep` (one-value unfoldings; the statements about
  histories are in the events section).
* counter-examples for the two defects of the unrepaired code: `purgeOld_breaks_cov`,
  `reportCompleteOld_drops_wrong_sub`.
* delivery: **`C13_full`** (bounded form, every history, no fairness, not implied by expiry): any report
  begun at or after a change for a subscription that has not seen it snapshots a covering watermark,
  selects the change throughout its flight, ends the debt on `keep`, keeps it on `retry`, and ends `unsent`
  only if nothing was owed (`UnsentOk` is a hypothesis) — proved: `C13_full_holds`; false for the
  unrepaired purge: `C13_full_fails_for_purgeOld`. Progress without a starvation assumption:
  `report_begins_at_call`, `delivered_by_kept_report`. The former eventuality under `Subs.Fair` is
  `C13_weak` (`C13_weak_holds`, `eventually_ended_or_delivered_weak`) — implied by `Fair` + expiry alone
  (`fair_schedule_sweeps_every_subscription`); `report_begins_if_passes_end` (under `Subs.Idle`).
* timing on runs: `min_interval_on_runs`, `liveness_on_runs`, `expiry_on_runs`.
* events: `watermark_is_last_pushed_number`, `no_event_skipped`, `subscribed_event_in_next_report`.
* totalisations: `report_assert_cannot_fire`, `add_u32_agrees`, `sub_ids_unique_u32`.
* one reporting cycle: `C13_eventual_partial`.
* persisted subscriptions: `persist_mirrors_table`, `restart_resumes`, `restart_resumes_all`,
  `resumed_reports_everything`; `resumed_never_expired_before_fix` + `retry_keeps_unprimed`: why the
  fairness clause `primes` of `C13_weak` is needed (finding `C13-resumed-never-expires`).
-/
namespace C13
open Subs

/-! ## (1) coverage invariant -/

theorem inv_init (hz n : Nat) : WF (State.new hz n) ∧ Cov (State.new hz n) :=
  ⟨wf_init hz n, cov_init hz n⟩

/-- every operation preserves well-formedness and coverage (change ids do not wrap) -/
theorem cov_preserved {s : State} (op : Op) (h : WF s) (hc : Cov s)
    (hw : s.changed.nextId + 1 < U64) : WF (s.step op) ∧ Cov (s.step op) :=
  inv_step op h hc hw

example : ∃ s : State, WF s ∧ Cov s ∧ s.changed.nextId + 1 < U64 :=
  ⟨State.new 1000000 2, wf_init _ _, cov_init _ _, by decide⟩

/-- an operation raises the change-id counter by at most one -/
theorem nextId_step_le {s : State} (op : Op) (h : WF s) (hw : s.changed.nextId + 1 < U64) :
    (s.step op).changed.nextId ≤ s.changed.nextId + 1 := by
  cases op with
  | change p =>
    have := (recordRaw_spec s.changed p h.idsBelow h.cap hw).1
    simp only [State.step, State.change]; omega
  | add now fab peer mn mx ev =>
    simp only [State.step, State.add]; split <;> simp
  | report now ev =>
    simp only [State.step]
    rcases report_shape (s := s) (now := now) (ev := ev) with h1 | ⟨i, sub, _, h1⟩
    · rw [h1]; omega
    · rw [h1]; simp [reportTo]
  | fin id f =>
    simp only [State.step]
    rcases fin_shape (s := s) (id := id) (f := f) with h1 | ⟨c, _, sub', _, hsh, _⟩
    · rw [h1]; omega
    · rcases hsh with ⟨r, cx, h1⟩ | ⟨r, cx, h1⟩ <;> rw [h1] <;> simp [rcKeep, rcDrop]
  | remove p =>
    simp only [State.step]
    obtain ⟨cx, h1⟩ := remove_shape s p
    rw [h1]; simp [rmTo]
  | purge =>
    simp only [State.step, State.purge]
    repeat' split
    all_goals simp
  | persist => simp [State.step, State.persist]
  | restart now ev =>
    simp only [State.step]
    rw [restart_changed]
    have := h.nextPos
    simp [Changed.new]

/-- the invariant holds along every finite history (fewer than 2^64 changes) -/
theorem cov_run (ops : List Op) : ∀ (s : State), WF s → Cov s →
    s.changed.nextId + ops.length < U64 → WF (s.run ops) ∧ Cov (s.run ops) := by
  induction ops with
  | nil => intro s h hc _; exact ⟨h, hc⟩
  | cons op ops ih =>
    intro s h hc hw
    simp only [List.length_cons] at hw
    have hs := inv_step op h hc (by omega)
    have hn := nextId_step_le op h (by omega)
    exact ih (s.step op) hs.1 hs.2 (by omega)

/-- every history from the empty table -/
theorem cov_always (hz n : Nat) (ops : List Op) (hlen : ops.length + 1 < U64) :
    Cov ((State.new hz n).run ops) :=
  (cov_run ops _ (wf_init hz n) (cov_init hz n) (by simp [State.new, Changed.new]; omega)).2

/-! ## (2) an owed change is reported -/

/-- **No change is lost**: while a report context of a (primed) subscription is alive, every change
recorded after the subscription's watermark is selected by `should_report_attr`, for every concrete
attribute the change touches. -/
theorem owed_in_report {s : State} (hc : Cov s) {c : Ctx} (hcm : c ∈ s.ctxs) {i : Nat} {p : Entry}
    (hlog : (i, p) ∈ s.log) (hlt : c.sub.seenAttr < i) {ep cl attr : Nat}
    (hm : p.matchesPath ep cl attr = true) : s.shouldReportAttr c ep cl attr = true := by
  unfold State.shouldReportAttr
  split
  · rfl
  · have hl : c.sub ∈ s.live := by
      simp only [State.live, List.mem_append, List.mem_map]; right; exact ⟨c, hcm, rfl⟩
    obtain ⟨e, he, h1, h2⟩ := hc c.sub hl (i, p) hlog hlt
    unfold containsSince
    rw [List.any_eq_true]
    refine ⟨e, he, ?_⟩
    simp only [Bool.and_eq_true, decide_eq_true_eq]
    exact ⟨by simp only at h2; omega, matchesPath_of_covers h1 hm⟩

/-- an owed change keeps a subscription in the table pending -/
theorem owed_is_pending {s : State} (hc : Cov s) {x : Sub} (hx : x ∈ s.subs) {i : Nat} {p : Entry}
    (hlog : (i, p) ∈ s.log) (hlt : x.seenAttr < i) (ev : Nat) :
    x.pending s.changed.entries ev = true := by
  obtain ⟨e, he, _, h2⟩ := hc x (by simp [State.live, hx]) (i, p) hlog hlt
  unfold Sub.pending anySince
  rw [Bool.or_eq_true]; left
  rw [List.any_eq_true]
  exact ⟨e, he, by simp only [decide_eq_true_eq]; simp only at h2; omega⟩

/-- pending ⇒ reportable as soon as the minimum interval (and the retry gate) allow -/
theorem pending_is_reportable (hz : Nat) (x : Sub) (now : Nat) (es : List Entry) (ev : Nat)
    (hp : x.pending es ev = true) (ha : x.reportAllowedAt hz ≤ now) :
    x.isReportable hz now es ev = true := by
  simp [Sub.isReportable, hp, ha]

/-- if some subscription in the table is reportable, `report` begins a report -/
theorem report_progress {s : State} {now ev : Nat}
    (h : ∃ x ∈ s.subs, x.isReportable s.hz now s.changed.entries ev = true) :
    (s.report now ev).2 ≠ none := by
  obtain ⟨x, hx, hr⟩ := h
  unfold State.report findReportable
  cases hf : s.subs.findIdx? (fun x => x.isReportable s.hz now s.changed.entries ev) with
  | none =>
    have := List.findIdx?_eq_none_iff.mp hf x hx
    simp [hr] at this
  | some i =>
    simp only
    have hi : i < s.subs.length := (List.findIdx?_eq_some_iff_findIdx_eq.mp hf).1
    rw [List.getElem?_eq_getElem hi]
    simp

/-- the report that is begun is for a subscription of the table that is reportable -/
theorem reported_is_reportable {s : State} {now ev id : Nat} (h : (s.report now ev).2 = some id) :
    ∃ x ∈ s.subs, x.id = id ∧ x.isReportable s.hz now s.changed.entries ev = true := by
  unfold State.report findReportable at h
  cases hf : s.subs.findIdx? (fun x => x.isReportable s.hz now s.changed.entries ev) with
  | none => rw [hf] at h; simp at h
  | some i =>
    rw [hf] at h
    simp only at h
    cases hs : s.subs[i]? with
    | none => rw [hs] at h; simp at h
    | some sub =>
      rw [hs] at h; simp at h
      refine ⟨sub, List.mem_of_getElem? hs, h, ?_⟩
      have := List.findIdx?_eq_some_iff_getElem.mp hf
      obtain ⟨hi, hp, _⟩ := this
      have : s.subs[i] = sub := by
        rw [List.getElem?_eq_getElem hi] at hs; simpa using hs
      rw [← this]; exact hp

/-- the reporter's wake-up instant is not later than the instant a pending subscription may report -/
theorem wake_not_late {s : State} {x : Sub} (hx : x ∈ s.subs) (ev : Nat)
    (hp : x.pending s.changed.entries ev = true) : s.nextReportAt ev ≤ x.reportAllowedAt s.hz := by
  unfold State.nextReportAt
  have hmem : x.nextReportAt s.hz s.changed.entries ev ∈
      s.subs.map (fun x => x.nextReportAt s.hz s.changed.entries ev) := List.mem_map.mpr ⟨x, hx, rfl⟩
  cases hm : minList (s.subs.map (fun x => x.nextReportAt s.hz s.changed.entries ev)) with
  | none => rw [minList_none hm] at hmem; simp at hmem
  | some m =>
    simp only
    have := minList_le hm _ hmem
    simp only [Sub.nextReportAt, hp, if_true] at this
    exact this

/-! ## (3) a failed report is retried with the same content -/

/-- `set_keep_retry` commits the watermarks and the last-success instant unchanged -/
theorem retry_keeps_content (hz : Nat) (c : Ctx) :
    (c.setKeepRetry hz).commit.seenAttr = c.sub.seenAttr ∧
    (c.setKeepRetry hz).commit.seenEv = c.sub.seenEv ∧
    (c.setKeepRetry hz).commit.reportedAt = c.sub.reportedAt ∧
    (c.setKeepRetry hz).commit.id = c.sub.id ∧
    (c.setKeepRetry hz).commit.minInt = c.sub.minInt ∧
    (c.setKeepRetry hz).commit.maxInt = c.sub.maxInt ∧
    (c.setKeepRetry hz).commit.fail = min (c.sub.fail + 1) 255 := by
  simp [Ctx.setKeepRetry, Ctx.commit]

/-- the report filter depends only on the watermark and the priming marker, so the retried report
selects (at least) what the failed one selected: together with `owed_in_report` (which holds in every
later state) nothing that was owed is considered sent -/
theorem retry_same_filter (s : State) (c c' : Ctx) (h1 : c'.sub.seenAttr = c.sub.seenAttr)
    (h2 : c'.sub.reportedAt = c.sub.reportedAt) (ep cl attr : Nat) :
    s.shouldReportAttr c' ep cl attr = s.shouldReportAttr c ep cl attr := by
  simp [State.shouldReportAttr, h1, h2]

/-- `set_keep` commits the snapshot taken when the report began -/
theorem keep_commits_snapshot (c : Ctx) :
    c.commit.seenAttr = c.nextAttr ∧ c.commit.seenEv = c.nextEv ∧
    c.commit.reportedAt = c.nextReportedAt := by
  simp [Ctx.commit]

/-- `set_keep_unsent` (an empty report that was not sent): the watermarks advance, but the last-success
instant, the retry state and therefore the liveness point, the minimum-interval gate and the expiry
stay where they were — a stream of changes to attributes the subscriber did not select cannot
postpone its liveness report (finding `C13-unsent-empty-report-restarts-liveness-clock`) -/
theorem unsent_keeps_clock (hz : Nat) (c : Ctx) :
    c.setKeepUnsent.commit.seenAttr = c.nextAttr ∧ c.setKeepUnsent.commit.seenEv = c.nextEv ∧
    c.setKeepUnsent.commit.reportedAt = c.sub.reportedAt ∧
    c.setKeepUnsent.commit.retryAt = c.sub.retryAt ∧ c.setKeepUnsent.commit.fail = c.sub.fail ∧
    c.setKeepUnsent.commit.reportDueAt hz = c.sub.reportDueAt hz ∧
    c.setKeepUnsent.commit.reportAllowedAt hz = c.sub.reportAllowedAt hz ∧
    (∀ now, c.setKeepUnsent.commit.isExpired hz now = c.sub.isExpired hz now) := by
  refine ⟨rfl, rfl, rfl, rfl, rfl, rfl, rfl, fun _ => rfl⟩

/-- … whereas committing it like a delivered report (`set_keep`, the code before the repair) moves the
liveness point to half a maximum interval after *this* empty report -/
theorem keep_on_empty_postponed_liveness :
    ∃ c : Ctx, c.sub.reportDueAt 1000000 = 30000000 ∧ c.commit.reportDueAt 1000000 = 59000000 :=
  ⟨{ sub := { id := 1, fab := 1, peer := 1, minInt := 1, maxInt := 60, reportedAt := 0, retryAt := 0,
              fail := 0, seenAttr := 0, seenEv := 0 },
     nextAttr := 1, nextEv := 0, nextReportedAt := 29000000, nextRetryAt := 0, nextFail := 0 },
   by decide, by decide⟩

/-! ### `set_keep_unsent` is only for a report that is empty

`set_keep_unsent` commits the watermarks captured when the report began although nothing was sent.
That is sound exactly when the report was empty. It is the caller (`process_subscriptions`) that
decides: `RespondOutcome::Empty` must mean "the filter selected nothing and no event was pending",
never "nothing could be sent". -/

/-- the caller's obligation is enough: if the filter of a live context selects no attribute at all,
then no recorded change above its watermark touches any attribute — nothing is owed, and ending it
with `unsent` discharges no debt (contrapositive of `owed_in_report`) -/
theorem unsent_only_when_nothing_owed {s : State} (hc : Cov s) {c : Ctx} (hcm : c ∈ s.ctxs)
    (hempty : ∀ ep cl attr, s.shouldReportAttr c ep cl attr = false)
    {i : Nat} {p : Entry} (hlog : (i, p) ∈ s.log) (hlt : c.sub.seenAttr < i) (ep cl attr : Nat) :
    p.matchesPath ep cl attr = false := by
  cases hm : p.matchesPath ep cl attr with
  | false => rfl
  | true =>
    have := owed_in_report hc hcm hlog hlt hm
    rw [hempty] at this; cases this

/-- a schedule uses `unsent` as the reporter may: only for a context whose filter selects nothing -/
def UnsentOk (hz n : Nat) (sched : Nat → Op) : Prop :=
  ∀ k id, sched k = .fin id .unsent → ∀ c ∈ (stateAt hz n sched k).ctxs, c.sub.id = id →
    ∀ ep cl attr, (stateAt hz n sched k).shouldReportAttr c ep cl attr = false

/-- along such a schedule an `unsent` ending never discharges a debt: whenever a context ends
`unsent`, every recorded change above its subscription's watermark touches no attribute at all -/
theorem unsent_discharges_nothing {hz n : Nat} {sched : Nat → Op} (hok : UnsentOk hz n sched)
    (hw : ∀ k, (stateAt hz n sched k).changed.nextId + 1 < U64) {k id : Nat}
    (hs : sched k = .fin id .unsent) {c : Ctx} (hcm : c ∈ (stateAt hz n sched k).ctxs)
    (hid : c.sub.id = id) {i : Nat} {p : Entry} (hlog : (i, p) ∈ (stateAt hz n sched k).log)
    (hlt : c.sub.seenAttr < i) (ep cl attr : Nat) : p.matchesPath ep cl attr = false :=
  unsent_only_when_nothing_owed (inv_stateAt hz n sched hw k).2.1 hcm (hok k id hs c hcm hid) hlog hlt
    ep cl attr

/-! ## (4) timing -/

/-- no report before the minimum interval after the last delivered one -/
theorem min_interval_respected (hz : Nat) (x : Sub) (now : Nat) (es : List Entry) (ev : Nat)
    (hprimed : x.reportedAt ≠ IMAX) (hno : x.reportedAt + x.minInt * hz ≤ IMAX)
    (hr : x.isReportable hz now es ev = true) : x.reportedAt + x.minInt * hz ≤ now := by
  simp only [Sub.isReportable, Bool.and_eq_true, decide_eq_true_eq] at hr
  have h1 := hr.1
  have h2 : x.reportedAt + x.minInt * hz ≤ x.reportAllowedAt hz := by
    unfold Sub.reportAllowedAt
    simp only [hprimed, if_false, checkedAdd, hno, if_true]
    exact Nat.le_max_left _ _
  omega

example : ∃ x : Sub, x.reportedAt ≠ IMAX ∧ x.reportedAt + x.minInt * 1000000 ≤ IMAX ∧
    x.isReportable 1000000 5000000 [] 1 = true :=
  ⟨{ id := 1, fab := 1, peer := 1, minInt := 1, maxInt := 60, reportedAt := 0, retryAt := 0, fail := 0,
     seenAttr := 0, seenEv := 0 }, by decide, by decide, by rfl⟩

/-- no report before the retry back-off has elapsed -/
theorem retry_gate_respected (hz : Nat) (x : Sub) (now : Nat) (es : List Entry) (ev : Nat)
    (hr : x.isReportable hz now es ev = true) : x.retryAt ≤ now := by
  simp only [Sub.isReportable, Bool.and_eq_true, decide_eq_true_eq] at hr
  have h1 := hr.1
  have h2 : x.retryAt ≤ x.reportAllowedAt hz := by
    unfold Sub.reportAllowedAt
    exact Nat.le_max_right _ _
  omega

/-- the liveness point: half of the maximum interval after the last delivered report the
subscription is reportable even with nothing pending (as soon as min interval / retry gate allow) -/
theorem liveness_due (hz : Nat) (x : Sub) (now : Nat) (es : List Entry) (ev : Nat)
    (hno : x.reportedAt + (x.maxInt - x.maxInt / 2) * hz ≤ IMAX)
    (ha : x.reportAllowedAt hz ≤ now)
    (hd : x.reportedAt + (x.maxInt - x.maxInt / 2) * hz ≤ now) :
    x.isReportable hz now es ev = true := by
  have : x.reportDueAt hz ≤ now := by
    unfold Sub.reportDueAt
    split
    · omega
    · simp only [checkedAdd, hno, if_true]; exact hd
  simp [Sub.isReportable, ha, this]

/-- the liveness point lies before the maximum interval elapses (strictly for `max_int ≥ 2`) -/
theorem liveness_before_max (hz maxInt : Nat) :
    (maxInt - maxInt / 2) * hz ≤ maxInt * hz ∧
    (2 ≤ maxInt → 0 < hz → (maxInt - maxInt / 2) * hz < maxInt * hz) := by
  constructor
  · exact Nat.mul_le_mul_right _ (Nat.sub_le _ _)
  · intro h2 hz0
    exact Nat.mul_lt_mul_of_pos_right (by omega) hz0

/-- the reporter wakes for a primed subscription no later than the maximum interval after its
last delivered report, unless the minimum interval / retry gate is later still -/
theorem wake_before_max {s : State} {x : Sub} (hx : x ∈ s.subs) (ev : Nat)
    (hno : x.reportedAt + x.maxInt * s.hz ≤ IMAX) :
    s.nextReportAt ev ≤ max (x.reportAllowedAt s.hz) (x.reportedAt + x.maxInt * s.hz) := by
  unfold State.nextReportAt
  have hmem : x.nextReportAt s.hz s.changed.entries ev ∈
      s.subs.map (fun x => x.nextReportAt s.hz s.changed.entries ev) := List.mem_map.mpr ⟨x, hx, rfl⟩
  cases hm : minList (s.subs.map (fun x => x.nextReportAt s.hz s.changed.entries ev)) with
  | none => rw [minList_none hm] at hmem; simp at hmem
  | some m =>
    simp only
    have h1 := minList_le hm _ hmem
    have hmono := (liveness_before_max s.hz x.maxInt).1
    have hdue : x.reportDueAt s.hz ≤ x.reportedAt + x.maxInt * s.hz := by
      unfold Sub.reportDueAt
      split
      · omega
      · have hno' : x.reportedAt + (x.maxInt - x.maxInt / 2) * s.hz ≤ IMAX := by omega
        simp only [checkedAdd, hno', if_true]; omega
    unfold Sub.nextReportAt at h1
    split at h1 <;> omega

/-- one maximum interval after its last delivered report a subscription is expired -/
theorem failing_sub_expires_by_max (hz : Nat) (x : Sub) (now : Nat) (hnow : now ≤ IMAX)
    (hp : x.reportedAt ≠ IMAX) (h : x.reportedAt + x.maxInt * hz ≤ now) : x.isExpired hz now = true := by
  have : x.reportedAt + x.maxInt * hz ≤ IMAX := by omega
  simp [Sub.isExpired, checkedAdd, this, h, hp]

/-- a subscription resumed after a restart that has not been primed since is expired one maximum
interval after the resume instant (its last success was not later than that) -/
theorem resumed_expires_by_max (hz : Nat) (x : Sub) (now : Nat) (hnow : now ≤ IMAX)
    (hu : x.reportedAt = IMAX) (h : x.resumedAt + x.maxInt * hz ≤ now) : x.isExpired hz now = true := by
  have : x.resumedAt + x.maxInt * hz ≤ IMAX := by omega
  simp [Sub.isExpired, checkedAdd, this, h, hu]

example : ∃ x : Sub, x.reportedAt ≠ IMAX ∧ x.reportedAt + x.maxInt * 1000000 ≤ 70000000 :=
  ⟨{ id := 1, fab := 1, peer := 1, minInt := 1, maxInt := 60, reportedAt := 0, retryAt := 0, fail := 0,
     seenAttr := 0, seenEv := 0 }, by decide, by decide⟩

example : ∃ x : Sub, x.reportedAt = IMAX ∧ x.resumedAt + x.maxInt * 1000000 ≤ 70000000 :=
  ⟨{ id := 1, fab := 1, peer := 1, minInt := 1, maxInt := 60, reportedAt := IMAX, retryAt := 0, fail := 0,
     seenAttr := 0, seenEv := 0, resumedAt := 5000000 }, by decide, by decide⟩

/-- failed attempts do not postpone the expiry: `set_keep_retry` leaves `reported_at` and
`max_int` alone, so `is_expired` answers the same before and after any number of retries -/
theorem retry_preserves_expiry (hz : Nat) (c : Ctx) (now : Nat) :
    (c.setKeepRetry hz).commit.isExpired hz now = c.sub.isExpired hz now := by
  rfl

/-- the expiry sweep of the reporter loop leaves no expired subscription in the table -/
theorem expiry_sweep_removes (s : State) (now : Nat) :
    ∀ x ∈ (s.remove (fun x => x.isExpired s.hz now)).1.subs, x.isExpired s.hz now = false := by
  obtain ⟨cx, h1⟩ := remove_shape s (fun x => x.isExpired s.hz now)
  rw [h1]
  intro x hx
  exact removeLoop_all _ (s.subs.length + 1) s.subs s.count (by omega) x hx

/-- the expiry sweep also reaches the subscription that is being reported on: it is marked and -/
theorem sweep_cancels_in_flight (s : State) (p : Sub → Bool) (r : Sub) (hr : s.reporting = some r)
    (hp : p r = true) : (s.remove p).1.cancelled = true ∧ (s.remove p).1.reporting = some r := by
  unfold State.remove
  simp only [hr]
  cases hc : s.cancelled <;> simp [hp]

/-- … dropped when its report context ends, whatever the ending (keep, retry or drop) -/
theorem cancelled_report_ends (s : State) (sub r : Sub) (keep : Bool) (hr : s.reporting = some r)
    (hid : r.id = sub.id) (hc : s.cancelled = true) :
    (s.reportComplete sub keep).subs = s.subs ∧ (s.reportComplete sub keep).count = s.count - 1 ∧
    (s.reportComplete sub keep).reporting = none ∧ (s.reportComplete sub keep).cancelled = false := by
  unfold State.reportComplete
  simp [hr, hid, hc]

/-- the retry back-off never exceeds the maximum interval (or the base delay) -/
theorem backoff_capped (fail maxInt : Nat) :
    retryBackoffSecs fail maxInt ≤ max maxInt Consts.retryBaseSecs := by
  unfold retryBackoffSecs
  exact Nat.min_le_right _ _

/-- a not yet primed subscription is reportable as soon as its retry gate allows -/
theorem unprimed_is_due (hz : Nat) (x : Sub) (now : Nat) (es : List Entry) (ev : Nat)
    (hu : x.reportedAt = IMAX) (hg : x.retryAt ≤ now) : x.isReportable hz now es ev = true := by
  simp [Sub.isReportable, Sub.reportAllowedAt, Sub.reportDueAt, hu, hg]

/-! ## (5) capacity and id monotonicity -/

theorem change_table_capacity {s : State} (h : WF s) : s.changed.entries.length ≤ Consts.maxChangedAttrs :=
  h.cap

theorem change_id_monotone {s : State} (p : Entry) (h : WF s) (hw : s.changed.nextId + 1 < U64) :
    (s.change p).changed.nextId = s.changed.nextId + 1 ∧
    (s.change p).log.head? = some (s.changed.nextId, p) := by
  refine ⟨(recordRaw_spec s.changed p h.idsBelow h.cap hw).1, ?_⟩
  simp [State.change]

/-- an accepted subscription gets the next id; ids are never reused -/
theorem sub_id_fresh (s : State) (now fab peer mn mx ev id : Nat)
    (h : (s.add now fab peer mn mx ev).2 = some id) :
    id = s.nextSubId ∧ (s.add now fab peer mn mx ev).1.nextSubId = s.nextSubId + 1 := by
  unfold State.add at h ⊢
  split at h
  · simp at h
  · rename_i hc
    simp only [hc, if_false]
    simp at h
    exact ⟨h.symm, trivial⟩

theorem removeLoop_length (p : Sub → Bool) : ∀ (fuel : Nat) (subs : List Sub) (count : Nat),
    (removeLoop p fuel subs count).1.length ≤ subs.length := by
  intro fuel
  induction fuel with
  | zero => intro subs count; simp [removeLoop]
  | succ fuel ih =>
    intro subs count
    simp only [removeLoop]
    cases hf : subs.findIdx? p with
    | none => simp
    | some i =>
      simp only
      have hi : i < subs.length := (List.findIdx?_eq_some_iff_findIdx_eq.mp hf).1
      have hl := length_swapRemove hi
      have := ih (swapRemove subs i) (count - 1)
      omega

/-- the subscription count (table + in flight) never exceeds `N` -/
theorem table_capacity {s : State} (op : Op) (hw : WF s) (h : s.count ≤ s.n) :
    (s.step op).count ≤ (s.step op).n := by
  cases op with
  | change p => simpa [State.step, State.change] using h
  | add now fab peer mn mx ev =>
    simp only [State.step, State.add]
    split
    · exact h
    · simp only; omega
  | report now ev =>
    simp only [State.step]
    rcases report_shape (s := s) (now := now) (ev := ev) with h1 | ⟨i, sub, _, h1⟩
    · rw [h1]; exact h
    · rw [h1]; simpa [reportTo] using h
  | fin id f =>
    simp only [State.step]
    rcases fin_shape (s := s) (id := id) (f := f) with h1 | ⟨c, _, sub', _, hsh, _⟩
    · rw [h1]; exact h
    · rcases hsh with ⟨r, cx, h1⟩ | ⟨r, cx, h1⟩ <;> rw [h1] <;> simp [rcKeep, rcDrop] <;> omega
  | remove p =>
    simp only [State.step]
    obtain ⟨cx, h1⟩ := remove_shape s p
    rw [h1]
    have := (removeLoop_spec p (s.subs.length + 1) s.subs s.count (by have := hw.count; omega)).2
    have hl := removeLoop_length p (s.subs.length + 1) s.subs s.count
    simp only [rmTo]
    omega
  | purge =>
    simp only [State.step, State.purge]
    repeat' split
    all_goals simpa using h
  | persist => simpa [State.step, State.persist] using h
  | restart now ev =>
    simp only [State.step]
    rw [restart_eq]
    exact resumeAll_capacity now ev _ _ (by simp [State.fresh, State.new])

/-! ## (6) events -/

/-- with no attribute change pending, a subscription is pending exactly when the event watermark
has moved past what it has seen -/
theorem event_pending_iff (x : Sub) (ev : Nat) : x.pending [] ev = true ↔ x.seenEv < ev := by
  simp [Sub.pending, anySince]

/-- a delivered report consumes the events up to the watermark captured at its begin; later events
(a larger watermark) are pending again -/
theorem events_not_pending_after_keep (c : Ctx) (ev : Nat) :
    c.commit.pending [] ev = true ↔ c.nextEv < ev := by
  simp only [Sub.pending, anySince, Ctx.commit, List.any_nil, Bool.false_or]
  exact decide_eq_true_iff

/-! ## The two defects of the unrepaired code, as counter-examples on the model -/

def P (e c a : Nat) : Entry := { ep := e, cl := c, attr := a, id := 0 }

/-- the priming of subscriber 1 is in flight (outside the table) when a change is recorded -/
def witness : State := ((State.new 1000000 1).add 0 1 10 1 60 0).1.change (P 1 2 3)

/-- subscriber 1 while it is priming -/
def sub1 : Sub :=
  { id := 1, fab := 1, peer := 10, minInt := 1, maxInt := 60, reportedAt := IMAX, retryAt := 0, fail := 0, seenAttr := 0, seenEv := 0 }
/-- subscriber 1 after its priming was acknowledged at instant 0 -/
def sub1' : Sub :=
  { id := 1, fab := 1, peer := 10, minInt := 1, maxInt := 60, reportedAt := 0, retryAt := 0, fail := 0, seenAttr := 0, seenEv := 0 }
/-- the priming context of subscriber 2 in `witness2` -/
def ctx2 : Ctx :=
  { sub := { id := 2, fab := 1, peer := 10, minInt := 1, maxInt := 60, reportedAt := IMAX, retryAt := 0, fail := 0, seenAttr := 1, seenEv := 0 }, nextAttr := 1, nextEv := 0, nextReportedAt := 6000000, nextRetryAt := 0, nextFail := 0 }

theorem witness_ok : WF witness ∧ Cov witness := by
  have h0 := inv_init 1000000 1
  have h1 := inv_step (.add 0 1 10 1 60 0) h0.1 h0.2 (by decide)
  exact inv_step (.change (P 1 2 3)) h1.1 h1.2 (by decide)

/-- **Defect 1** (before `fix: do not purge pending attribute changes while a subscription is outside
the table`): the old purge breaks the coverage invariant on the witness — the change is dropped
while the only subscriber is priming, and is then never reported. -/
theorem purgeOld_breaks_cov : WF witness ∧ Cov witness ∧ ¬ Cov witness.purgeOld := by
  refine ⟨witness_ok.1, witness_ok.2, ?_⟩
  intro h
  have hlive : sub1 ∈ witness.purgeOld.live := by decide
  obtain ⟨e, he, _⟩ := h _ hlive (1, P 1 2 3) (by decide) (by decide)
  have : witness.purgeOld.changed.entries = [] := by rfl
  rw [this] at he
  simp at he

/-- … and what the subscriber sees: after its priming is acknowledged nothing is pending for it, no
report is ever begun for the change; with the repaired purge the change is reported. -/
theorem purgeOld_loses_change :
    ((witness.purgeOld.fin 1 .keep).1.report 5000000 0).2 = none ∧
    ((witness.purge.fin 1 .keep).1.report 5000000 0).2 = some 1 := by
  constructor <;> rfl

/-- subscriber 1 is being reported on and is cancelled by a removal (a new subscribe request of its
peer); the priming context of subscriber 2 completes first -/
def witness2 : State :=
  let s1 := ((State.new 1000000 2).add 0 1 10 1 60 0).1
  let s2 := (s1.fin 1 .keep).1.change (P 1 2 3)
  let s3 := (s2.report 5000000 0).1
  let s4 := (s3.remove (fun x => x.peer == 10)).1
  (s4.add 6000000 1 10 1 60 0).1

/-- **Defect 2** (before `fix: a priming context must not consume the in-flight report slot or its
cancellation`): with the old `report_complete` the freshly primed subscription 2 is dropped and the
cancelled subscription 1 comes back; the repaired one keeps 2 and drops 1. -/
theorem reportCompleteOld_drops_wrong_sub :
    ctx2 ∈ witness2.ctxs ∧
    (witness2.reportCompleteOld ctx2.commit true).subs.map (·.id) = [] ∧
    (witness2.reportCompleteOld ctx2.commit true).cancelled = false ∧
    (((witness2.fin 2 .keep).1.fin 1 .keep).1.subs.map (·.id)) = [2] := by
  refine ⟨by decide, by rfl, by rfl, by rfl⟩

/-- **and it is necessary**: ending a report `unsent` while a selected change is owed (what a reporter
does that answers "no buffer to build the report in" with `RespondOutcome::Empty`) makes the table
consider the change reported — the subscription stays, its watermark has moved past the change, no
later report selects it: the change is lost although nothing was ever sent. -/
theorem unsent_while_owed_loses_change :
    let s0 := (witness.purge.fin 1 .keep).1            -- subscription 1 primed, owes change 1 of 1.2.3
    let s1 := (s0.report 5000000 0).1                  -- the reporter begins its report
    let s2 := (s1.fin 1 .unsent).1                     -- … and ends it `unsent`
    (∃ c ∈ s1.ctxs, c.sub.id = 1 ∧ s1.shouldReportAttr c 1 2 3 = true) ∧
    s2.subs.map (·.id) = [1] ∧ (∀ x ∈ s2.subs, x.seenAttr = 1) ∧
    (s2.report 9000000 0).2 = none ∧
    (∀ c ∈ ((s2.report 40000000 0).1).ctxs, (s2.report 40000000 0).1.shouldReportAttr c 1 2 3 = false) := by
  refine ⟨by decide, by decide, by decide, by decide, by decide⟩

/-! ## Delivery

`stateAt`, `Owes`, `Fair`, the identity invariant `UID` and the tracking argument are in
`Lemmas/SubsLive.lean`; `BeginsAt`, `NoRestart` and the window lemmas in `Lemmas/SubsDeliver.lean`. -/

/-- **Full statement (bounded form, no fairness, not implied by expiry).** Along **every** schedule of
table operations without change-id wrap in which the reporter ends a report `unsent` only when its
filter selects nothing (`UnsentOk`): let change `(i, p)` be recorded by step `k`, and let **any** report
begin at a step `j ≥ k` (no restart in between) for a subscription that has not seen the change
(`c.sub.seenAttr < i`), its context `c` staying alive through step `m`. Then
1. the watermark the report will commit covers the change (`i ≤ c.nextAttr`);
2. at **every** instant of the flight the report's filter `should_report_attr` selects every attribute
   the change touches — whatever else happened in between (other subscribers primed, acknowledged,
   `purge_reported_changes`, coalescing, promotion to wildcards);
3. if the context ends at `m` with `keep` (the report was acknowledged), the subscription does not owe
   the change afterwards;
4. if it ends with `retry` and the subscription is still alive, it is back in the table with the same
   watermark and last-success instant — it still owes the change, and the next report that begins for
   it is covered by this statement again (so the **first kept report begun at or after the change
   carries it**);
5. if it ends `unsent`, the change touches no attribute at all (nothing was owed).
When such a report begins is `owed_report_begins_at_call` (progress). The statement is **false for the
code before the repair of `purge_reported_changes`**: `C13_full_fails_for_purgeOld`. -/
def C13_full : Prop :=
  ∀ (hz n : Nat) (sched : Nat → Op),
    (∀ k, (stateAt hz n sched k).changed.nextId + 1 < U64) → UnsentOk hz n sched →
    ∀ (k j m : Nat) (c : Ctx) (i : Nat) (p : Entry), (i, p) ∈ (stateAt hz n sched k).log →
      k ≤ j → j < m → NoRestart sched k (m + 1) → BeginsAt hz n sched j c → c.sub.seenAttr < i →
      (∀ t, j < t → t ≤ m → c ∈ (stateAt hz n sched t).ctxs) →
      i ≤ c.nextAttr ∧
      (∀ t, j < t → t ≤ m → ∀ ep cl attr, p.matchesPath ep cl attr = true →
        (stateAt hz n sched t).shouldReportAttr c ep cl attr = true) ∧
      (sched m = .fin c.sub.id .keep →
        ¬ Owes (stateAt hz n sched (m + 1)) (stateAt hz n sched k).epoch c.sub.id i) ∧
      (sched m = .fin c.sub.id .retry →
        Owes (stateAt hz n sched (m + 1)) (stateAt hz n sched k).epoch c.sub.id i →
        ∃ x ∈ (stateAt hz n sched (m + 1)).subs, x.id = c.sub.id ∧ x.seenAttr = c.sub.seenAttr ∧
          x.seenEv = c.sub.seenEv ∧ x.reportedAt = c.sub.reportedAt ∧ x.maxInt = c.sub.maxInt ∧
          x.minInt = c.sub.minInt) ∧
      (sched m = .fin c.sub.id .unsent → ∀ ep cl attr, p.matchesPath ep cl attr = false)

theorem C13_full_holds : C13_full := by
  intro hz n sched hw hok k j m c i p hlog hkj hjm hnr hb hlt hfl
  have hcm : c ∈ (stateAt hz n sched m).ctxs := hfl m hjm (Nat.le_refl _)
  refine ⟨begin_snapshot_covers hw hlog hkj (hnr.mono (Nat.le_refl _) (by omega)) hb, ?_, ?_, ?_, ?_⟩
  · intro t hjt htm ep cl attr hm
    exact owed_selected_while_alive hw hlog (by omega) (hnr.mono (Nat.le_refl _) (by omega)) (hfl t hjt htm) hlt hm
  · intro hs
    exact keep_ends_debt hw hcm hs
      (begin_snapshot_covers hw hlog hkj (hnr.mono (Nat.le_refl _) (by omega)) hb)
  · intro hs ho
    exact retry_returns_same hw hcm hs ho
  · intro hs ep cl attr
    exact unsent_discharges_nothing hok hw hs hcm rfl
      (log_mono_le (by omega) (hnr.mono (Nat.le_refl _) (by omega)) hlog) hlt ep cl attr

/-- **When a change is recorded every live subscription owes it** (its watermark is below the id the
change gets) and every context alive at that moment — a priming, a report begun earlier — has a
snapshot below it: such a context cannot discharge the debt, whatever its ending. -/
theorem change_is_owed_by_every_live_subscription {s : State} (hwf : WF s) (p : Entry) :
    (s.changed.nextId, p) ∈ (s.change p).log ∧
    (∀ x ∈ (s.change p).live, x.seenAttr < s.changed.nextId) ∧
    (∀ c ∈ (s.change p).ctxs, c.nextAttr < s.changed.nextId) :=
  recorded_change_is_owed hwf p

/-- **The debt lasts until a report that covers it is committed** (`Subs.owes_until_covering_commit`): a
subscription that owes change `i` at step `k` still owes it at every later step of the boot, unless a
context of it with a snapshot `≥ i` — by `C13_full` (1): a report **begun after the change** — has ended
with `keep` or `unsent` in between. Failed reports, acknowledged reports begun before the change, the
reports / purges / removals concerning others do not end it. With `C13_full` this closes the account of
one change: owed from the moment it is recorded, carried by every report begun from then on, discharged
by the first of them that is acknowledged (or by the end of the subscription). -/
theorem debt_lasts_until_covering_report_is_committed {hz n : Nat} {sched : Nat → Op}
    (hw : ∀ k, (stateAt hz n sched k).changed.nextId + 1 < U64) {k t id i : Nat} (hkt : k ≤ t)
    (hid : id < (stateAt hz n sched k).nextSubId)
    (h0 : ∀ x ∈ (stateAt hz n sched k).live, x.id = id → x.seenAttr < i)
    (hnr : NoRestart sched k t)
    (hfin : ∀ u, k ≤ u → u < t → ∀ f c, sched u = .fin id f → c ∈ (stateAt hz n sched u).ctxs →
      c.sub.id = id → f = .retry ∨ f = .drop ∨ c.nextAttr < i) :
    ∀ x ∈ (stateAt hz n sched t).live, x.id = id → x.seenAttr < i := by
  have := owes_until_covering_commit hw hid h0 (t - k) (by rwa [show k + (t - k) = t by omega])
    (fun u h1 h2 => hfin u h1 (by omega))
  rw [show k + (t - k) = t by omega] at this
  exact this.1

/-! ### the statement is false for the code before the repair of `purge_reported_changes` -/

/-- the step function of the unrepaired table: `purge` is `purge_reported_changes` as it was -/
def stepOld (s : State) : Op → State
  | .purge => s.purgeOld
  | op => s.step op

def stateAtOld (hz n : Nat) (sched : Nat → Op) : Nat → State
  | 0 => State.new hz n
  | k + 1 => stepOld (stateAtOld hz n sched k) (sched k)

/-- subscriber 1 is priming when the change is recorded; the purge runs; the priming is acknowledged;
half a maximum interval later the liveness report begins and is acknowledged -/
def oldSched : Nat → Op
  | 0 => .add 0 1 10 1 60 0
  | 1 => .change (P 1 2 3)
  | 2 => .purge
  | 3 => .fin 1 .keep
  | 4 => .report 40000000 0
  | 5 => .fin 1 .keep
  | _ => .persist

/-- the context of the liveness report of `oldSched` -/
def oldCtx : Ctx :=
  { sub := sub1', nextAttr := 1, nextEv := 0, nextReportedAt := 40000000, nextRetryAt := 0, nextFail := 0 }

/-- **`C13_full` fails for the old `purge_reported_changes`** — every hypothesis of `C13_full` holds on
the history `oldSched` of the unrepaired table (change 1 of attribute 1.2.3 is in the log at step 2, the
report of subscription 1 begins at step 4 ≥ 2, the subscription has not seen the change, the context
lives through step 5 where it ends with `keep`, no `unsent`, no restart, no wrap), **yet the report's
filter does not select attribute 1.2.3** (clause 2 is false) — the report is acknowledged, the watermark
moves past the change (the weak statement `eventually_ended_or_delivered_weak` is satisfied), the
subscriber never gets it. On the repaired table the same history selects it. -/
theorem C13_full_fails_for_purgeOld :
    (1, P 1 2 3) ∈ (stateAtOld 1000000 1 oldSched 2).log ∧
    oldSched 4 = .report 40000000 0 ∧
    oldCtx ∉ (stateAtOld 1000000 1 oldSched 4).ctxs ∧ oldCtx ∈ (stateAtOld 1000000 1 oldSched 5).ctxs ∧
    oldCtx.sub.seenAttr < 1 ∧ (P 1 2 3).matchesPath 1 2 3 = true ∧ oldSched 5 = .fin oldCtx.sub.id .keep ∧
    (stateAtOld 1000000 1 oldSched 5).shouldReportAttr oldCtx 1 2 3 = false ∧
    (∀ x ∈ (stateAtOld 1000000 1 oldSched 6).live, x.id = 1 → 1 ≤ x.seenAttr) ∧
    oldCtx ∈ (stateAt 1000000 1 oldSched 5).ctxs ∧
    (stateAt 1000000 1 oldSched 5).shouldReportAttr oldCtx 1 2 3 = true := by
  refine ⟨by decide, rfl, by decide, by decide, by decide, by decide, rfl, by decide, by decide, by decide,
    by decide⟩

/-! ### the weak eventuality (kept under an honest name) -/

/-- **Weak statement** (the former `C13_full`): along every fair schedule a subscription that owes a
recorded change does not owe it for ever. **This follows from `Fair` and expiry alone** — `Fair.sweeps`
with `Fair.horizon` force an expiry sweep at the end of the clock that removes every subscription
(`fair_schedule_sweeps_every_subscription`), so the disjunct "the subscription has ended" is eventually
true in every fair schedule whatever `report` / `purge` / `fin` do; the statement also holds for the
unrepaired `purge_reported_changes`, and "does not owe" is reached by an `unsent` ending as well
(`unsent_while_owed_loses_change`). It says nothing about delivery; `C13_full` does. -/
def C13_weak : Prop :=
  ∀ (hz n : Nat) (sched : Nat → Op), Fair hz n sched →
    (∀ k, (stateAt hz n sched k).changed.nextId + 1 < U64) →
    ∀ k id i p, (i, p) ∈ (stateAt hz n sched k).log →
      Owes (stateAt hz n sched k) (stateAt hz n sched k).epoch id i →
      ∃ k', k ≤ k' ∧ ¬ Owes (stateAt hz n sched k') (stateAt hz n sched k).epoch id i

theorem C13_weak_holds : C13_weak :=
  fun _ _ _ hf hw k id i p hlog _ => eventually_not_owes hf hw k id i p hlog

/-- why `C13_weak` is weak: `Fair` alone (nothing about reports) empties the table of every
subscription that has an expiry base, again and again -/
theorem fair_schedule_sweeps_every_subscription {hz n : Nat} {sched : Nat → Op} (hf : Fair hz n sched)
    (k : Nat) : ∃ k', k ≤ k' ∧ ∀ x ∈ (stateAt hz n sched (k' + 1)).subs, x.expiryBase = IMAX := by
  obtain ⟨k', now, p, hk, hnow, hs, hp, _⟩ := hf.sweeps k (IMAX - 1) (by decide)
  refine ⟨k', hk, ?_⟩
  intro x hx
  have hx' : x ∈ ((stateAt hz n sched k').step (sched k')).subs := hx
  rw [hs] at hx'
  simp only [State.step] at hx'
  obtain ⟨cx, h1⟩ := remove_shape (stateAt hz n sched k') p
  rw [h1] at hx'
  simp only [rmTo] at hx'
  have hno := removeLoop_all p _ (stateAt hz n sched k').subs (stateAt hz n sched k').count (by omega) x hx'
  apply Classical.byContradiction
  intro hne
  obtain ⟨rem, hperm⟩ := removeLoop_perm p ((stateAt hz n sched k').subs.length + 1)
    (stateAt hz n sched k').subs (stateAt hz n sched k').count
  have hmem : x ∈ (stateAt hz n sched k').subs := hperm.subset (List.mem_append_right _ hx')
  have hlive : x ∈ (stateAt hz n sched k').live := by simp [State.live, hmem]
  have hh := hf.horizon k' x hlive hne
  have hexp := expired_of (x := x) (hz := hz) (now := now) rfl rfl hh (by omega)
  rw [hp x hexp] at hno
  cases hno

/-- what "does not owe any more" means: the device restarted, or the subscription has ended, or its
acknowledged watermark has reached the change -/
theorem not_owes_iff {s : State} (hu : UID s) (ep id i : Nat) :
    ¬ Owes s ep id i ↔
      s.epoch ≠ ep ∨ (∀ x ∈ s.live, x.id ≠ id) ∨ (∃ x ∈ s.live, x.id = id ∧ i ≤ x.seenAttr) := by
  constructor
  · intro h
    by_cases he : s.epoch = ep
    · right
      by_cases hx : ∃ x ∈ s.live, x.id = id
      · right
        obtain ⟨x, hxl, hxid⟩ := hx
        refine ⟨x, hxl, hxid, ?_⟩
        apply Nat.le_of_not_lt
        intro hlt
        exact h ⟨he, x, hxl, hxid, hlt⟩
      · left
        intro x hxl hxid
        exact hx ⟨x, hxl, hxid⟩
    · left; exact he
  · rintro (h | h | ⟨x, hxl, hxid, hge⟩) ⟨he, y, hyl, hyid, hlt⟩
    · exact h he
    · exact h y hyl hyid
    · have := uid_eq hu hxl hyl (hxid.trans hyid.symm)
      subst this
      omega

/-- the weak statement spelled out: along a fair schedule, after finitely many steps the device has
restarted, **or the subscription has ended** (which `Fair` forces sooner or later by itself, see
`C13_weak`), or the subscription's committed watermark is ≥ the change id (by a `keep` — or by an
`unsent` — ending). Not a delivery statement. -/
theorem eventually_ended_or_delivered_weak {hz n : Nat} {sched : Nat → Op} (hf : Fair hz n sched)
    (hw : ∀ k, (stateAt hz n sched k).changed.nextId + 1 < U64)
    (k id i : Nat) (p : Entry) (hlog : (i, p) ∈ (stateAt hz n sched k).log) :
    ∃ k', k ≤ k' ∧
      ((stateAt hz n sched k').epoch ≠ (stateAt hz n sched k).epoch ∨
       (∀ x ∈ (stateAt hz n sched k').live, x.id ≠ id) ∨
       (∃ x ∈ (stateAt hz n sched k').live, x.id = id ∧ i ≤ x.seenAttr)) := by
  obtain ⟨k', hk, h⟩ := eventually_not_owes hf hw k id i p hlog
  exact ⟨k', hk, (not_owes_iff (inv_stateAt hz n sched hw k').2.2 _ id i).mp h⟩

/-- a failed report changes neither the watermark nor the last-success instant nor the identity of the
subscription: the retried report is for the same debt (this is the `retry` case of `Subs.track_step`) -/
theorem retry_keeps_debt (hz : Nat) (c : Ctx) (i : Nat) (h : c.sub.seenAttr < i) :
    (finSub hz c .retry).seenAttr < i ∧ (finSub hz c .retry).id = c.sub.id ∧
    (finSub hz c .retry).reportedAt = c.sub.reportedAt := by
  simp [finSub, Ctx.commit, Ctx.setKeepRetry, h]

/-- **Where the fairness clause `primes` is needed, and only there**: a subscription that has neither
a last success nor a resume instant (it was just added, its priming is in progress) is never expired,
and a `set_keep_retry` (which `subscribe()` never calls on a priming context) would keep it so. -/
theorem priming_never_expires (hz : Nat) (x : Sub) (now : Nat) (hu : x.expiryBase = IMAX)
    (hm : 0 < x.maxInt * hz) : x.isExpired hz now = false := by
  have : ¬ (IMAX + x.maxInt * hz ≤ IMAX) := by omega
  unfold Sub.expiryBase at hu
  simp [Sub.isExpired, checkedAdd, hu, this]

theorem retry_keeps_expiry_base (hz : Nat) (c : Ctx) :
    (finSub hz c .retry).expiryBase = c.sub.expiryBase := by
  rfl

/-- before the repair `fix: a resumed subscription expires one maximum interval after the restart`
`is_expired` measured from `reported_at` only: a resumed subscription (`reported_at = Instant::MAX`)
was never expired, and a failed report leaves it un-primed — with its subscriber gone for good it was
retried, and persisted again, for ever (finding `C13-resumed-never-expires`) -/
def isExpiredOld (hz : Nat) (s : Sub) (now : Nat) : Bool :=
  match checkedAdd s.reportedAt (s.maxInt * hz) with
  | some e => decide (e ≤ now)
  | none => false

theorem resumed_never_expired_before_fix (hz : Nat) (x : Sub) (now : Nat) (hu : x.reportedAt = IMAX)
    (hm : 0 < x.maxInt * hz) : isExpiredOld hz x now = false := by
  have : ¬ (IMAX + x.maxInt * hz ≤ IMAX) := by omega
  simp [isExpiredOld, checkedAdd, hu, this]

theorem retry_keeps_unprimed (hz : Nat) (c : Ctx) (hu : c.sub.reportedAt = IMAX) :
    (finSub hz c .retry).reportedAt = IMAX := by
  simp [finSub, Ctx.commit, Ctx.setKeepRetry, hu]

example : ∃ x : Sub, x.reportedAt = IMAX ∧ 0 < x.maxInt * 1000000 :=
  ⟨{ id := 1, fab := 1, peer := 1, minInt := 1, maxInt := 60, reportedAt := IMAX, retryAt := 0, fail := 0,
     seenAttr := 0, seenEv := 0 }, rfl, by decide⟩

/-! ### Restart with persisted subscriptions -/

/-- `persist_all` mirrors the table: a subscription that is outside the table at that moment (being
primed or reported on) is not written -/
theorem persist_mirrors_table (s : State) : s.persist.kv = (s.subs.take s.n).map Sub.toRec := rfl

/-- after a restart every subscription of the table is not primed (so it is reportable as soon as
its retry gate allows: `unprimed_is_due`, and its next report selects every attribute:
`State.shouldReportAttr` is `true`), nothing is in flight, the change table is empty and the
invariants hold again -/
theorem restart_resumes (s : State) (now ev : Nat) :
    (∀ x ∈ (s.restart now ev).subs, x.reportedAt = IMAX ∧ x.retryAt = 0 ∧ x.resumedAt = now) ∧
    (s.restart now ev).ctxs = [] ∧ (s.restart now ev).changed = Changed.new ∧
    (s.restart now ev).log = [] ∧ (s.restart now ev).epoch = s.epoch + 1 ∧
    WF (s.restart now ev) ∧ Cov (s.restart now ev) ∧ UID (s.restart now ev) := by
  refine ⟨?_, ?_, restart_changed s now ev, ?_, restart_epoch s now ev, (inv_restart s now ev).1,
    (inv_restart s now ev).2, uid_restart s now ev⟩
  · intro x hx
    rw [restart_eq] at hx
    have := resumeAll_subs now ev (s.kv.take s.n) s.fresh (by simp [State.fresh, State.new]) x hx
    exact ⟨this.1, this.2.1, this.2.2.2⟩
  · rw [restart_eq, (resumeAll_changed now ev _ _).2.1]; rfl
  · rw [restart_eq, (resumeAll_changed now ev _ _).2.2.1]; rfl

/-- the records are resumed in slot order, with their intervals **and under their ids** (the id is
what the subscriber knows the subscription by), when the records carry distinct ids -/
theorem restart_resumes_all (s : State) (now ev : Nat)
    (hnd : ((s.kv.take s.n).map (·.id)).Nodup) (hsome : ∀ r ∈ s.kv.take s.n, r.id ≠ none) :
    (s.restart now ev).subs.map Sub.toRec = s.kv.take s.n := by
  rw [restart_eq, resumeAll_map now ev _ _ (by simp [State.fresh, State.new]; exact Nat.min_le_left _ _) hnd]
  · simp [State.fresh, State.new]
  · intro r hr
    cases hid : r.id with
    | none => exact absurd hid (hsome r hr)
    | some j => exact ⟨j, rfl, by simp [State.fresh, State.new]⟩

theorem nodup_map_some : ∀ {l : List Nat}, l.Nodup → (l.map some).Nodup := by
  intro l
  induction l with
  | nil => intro _; simp
  | cons a l ih =>
    intro h
    simp only [List.nodup_cons, List.map_cons] at h ⊢
    refine ⟨?_, ih h.2⟩
    intro hm
    obtain ⟨b, hb, he⟩ := List.mem_map.mp hm
    have : b = a := by simpa using he
    subst this
    exact h.1 hb

/-- what `persist_all` writes has distinct ids (identity invariant of the table) -/
theorem persist_recs_distinct {s : State} (hu : UID s) :
    ((s.persist.kv.take s.n).map (·.id)).Nodup ∧ ∀ r ∈ s.persist.kv.take s.n, r.id ≠ none := by
  have hk : s.persist.kv.take s.n = (s.subs.take s.n).map Sub.toRec := by
    simp only [State.persist]
    rw [← List.map_take, List.take_take, Nat.min_self]
  rw [hk]
  constructor
  · rw [List.map_map]
    have h1 : (s.subs.map (·.id)).Nodup := by
      have := hu.nodup
      simp only [State.live, List.map_append] at this
      exact (List.nodup_append.mp this).1
    have h2 : ((s.subs.take s.n).map (·.id)).Nodup :=
      List.Nodup.sublist ((List.take_sublist _ _).map _) h1
    have : (fun x : Sub => (Sub.toRec x).id) = some ∘ (fun x : Sub => x.id) := rfl
    show (List.map (fun x : Sub => (Sub.toRec x).id) (s.subs.take s.n)).Nodup
    rw [this, ← List.map_map]
    exact nodup_map_some h2
  · intro r hr
    obtain ⟨x, _, rfl⟩ := List.mem_map.mp hr
    simp [Sub.toRec]

/-- **persist, restart**: the subscriptions of the table come back in table order with their peers,
intervals and ids (before `fix: a resumed subscription keeps its id` they came back under fresh ids
1, 2, … in slot order — finding `C13-resumed-subscription-ids-reassigned`) -/
theorem persist_restart_roundtrip {s : State} (hu : UID s) (now ev : Nat) :
    (s.persist.restart now ev).subs.map Sub.toRec = (s.subs.take s.n).map Sub.toRec := by
  obtain ⟨h1, h2⟩ := persist_recs_distinct hu
  have hn : s.persist.n = s.n := rfl
  rw [restart_resumes_all s.persist now ev (by rw [hn]; exact h1) (by rw [hn]; exact h2), hn]
  simp only [State.persist]
  rw [← List.map_take, List.take_take, Nat.min_self]

/-- a resumed subscription reports immediately and its report is a full priming report -/
theorem resumed_reports_everything (s : State) (now ev t : Nat) (x : Sub)
    (hx : x ∈ (s.restart now ev).subs) (es : List Entry) (ev' : Nat) :
    x.isReportable (s.restart now ev).hz t es ev' = true ∧
    ∀ c : Ctx, c.sub = x → ∀ ep cl attr, (s.restart now ev).shouldReportAttr c ep cl attr = true := by
  obtain ⟨h1, h2, _⟩ := (restart_resumes s now ev).1 x hx
  refine ⟨unprimed_is_due _ x t es ev' h1 (by omega), ?_⟩
  intro c hc ep cl attr
  simp [State.shouldReportAttr, hc, h1]

/-- **If the reporter's passes end, an owing subscription has been picked up.** `Idle` ("again and
again, at later and later instants, a `report` call finds nothing reportable") is a **no-starvation
assumption** about the load — it can fail (`starvation_cycle`) — and with `T = report_allowed_at x` it
says almost directly that no owing `x` sits in the table then: this theorem is essentially its
contrapositive plus `leaves_table` (a subscription leaves the table only by a report of its own, a
removal, a restart). The statement that needs no such assumption is `owed_report_begins_at_call`:
at every reporter call after the gate at which `x` is first in line, `x`'s report begins. -/
theorem report_begins_if_passes_end {hz n : Nat} {sched : Nat → Op} (hidle : Idle hz n sched)
    (hw : ∀ k, (stateAt hz n sched k).changed.nextId + 1 < U64) (k : Nat)
    {x : Sub} (hx : x ∈ (stateAt hz n sched k).subs) {i : Nat} {p : Entry}
    (hlog : (i, p) ∈ (stateAt hz n sched k).log) (hlt : x.seenAttr < i)
    (hgate : x.reportAllowedAt hz < IMAX)
    (hnr : ∀ j, k ≤ j → ∀ now ev, sched j ≠ .restart now ev) :
    ∃ j, k ≤ j ∧ x ∈ (stateAt hz n sched j).subs ∧ x ∉ (stateAt hz n sched (j + 1)).subs ∧
      ((∃ now ev, sched j = .report now ev ∧ ∃ c ∈ (stateAt hz n sched (j + 1)).ctxs,
          c.sub = x ∧ i ≤ c.nextAttr) ∨
       (∃ pr, sched j = .remove pr ∧ pr x = true)) := by
  obtain ⟨k', now, ev, hk', hnow, hs, hnone⟩ := hidle k (x.reportAllowedAt hz) hgate
  have hlg : ∀ d, (i, p) ∈ (stateAt hz n sched (k + d)).log := by
    intro d
    induction d with
    | zero => exact hlog
    | succ d ih =>
      exact log_mono_step (sched (k + d)) (epoch_step _ _ (hnr (k + d) (by omega))) ih
  have key : ∃ j, k ≤ j ∧ x ∈ (stateAt hz n sched j).subs ∧ x ∉ (stateAt hz n sched (j + 1)).subs := by
    apply Classical.byContradiction
    intro hno
    have hstay : ∀ d, x ∈ (stateAt hz n sched (k + d)).subs := by
      intro d
      induction d with
      | zero => exact hx
      | succ d ih =>
        apply Classical.byContradiction
        intro h
        exact hno ⟨k + d, by omega, ih, h⟩
    have hxk' : x ∈ (stateAt hz n sched k').subs := by
      have := hstay (k' - k); rwa [show k + (k' - k) = k' by omega] at this
    have hlk' : (i, p) ∈ (stateAt hz n sched k').log := by
      have := hlg (k' - k); rwa [show k + (k' - k) = k' by omega] at this
    obtain ⟨_, hcov, _⟩ := inv_stateAt hz n sched hw k'
    have hpend := owed_is_pending hcov hxk' hlk' hlt ev
    have hrep := pending_is_reportable (stateAt hz n sched k').hz x now _ ev hpend
      (by rw [hz_stateAt]; exact hnow)
    exact report_progress ⟨x, hxk', hrep⟩ hnone
  obtain ⟨j, hj, hin, hout⟩ := key
  refine ⟨j, hj, hin, hout, ?_⟩
  have hout' : x ∉ ((stateAt hz n sched j).step (sched j)).subs := hout
  rcases leaves_table (sched j) hin hout' with ⟨nw, e, hop, c, hc, hcx, hcn⟩ | ⟨pr, hop, hpr⟩ | ⟨nw, e, hop⟩
  · left
    refine ⟨nw, e, hop, c, hc, hcx, ?_⟩
    obtain ⟨hwf, _, _⟩ := inv_stateAt hz n sched hw j
    have h3 := watermark_eq hwf.nextPos hwf.nextLt
    have h4 := hwf.logBelow (i, p) (by have := hlg (j - k); rwa [show k + (j - k) = j by omega] at this)
    simp only at h4
    omega
  · right; exact ⟨pr, hop, hpr⟩
  · exact absurd hop (hnr j hj nw e)

/-! ### The hypotheses of `C13_full` are satisfiable -/

/-- a fair schedule: a subscriber is primed, a change is recorded, reported and acknowledged; from
then on only the reporter's expiry sweep runs (at the last instant of the clock) -/
def fairSched : Nat → Op
  | 0 => .add 0 1 10 1 60 0
  | 1 => .fin 1 .keep
  | 2 => .change (P 1 2 3)
  | 3 => .report 5000000 0
  | 4 => .fin 1 .keep
  | _ => .remove (fun x => x.isExpired 1000000 (IMAX - 1))

abbrev fS (k : Nat) : State := stateAt 1000000 1 fairSched k

theorem fS_const : ∀ j, fS (6 + j) = fS 6 := by
  intro j
  induction j with
  | zero => rfl
  | succ j ih =>
    show (fS (6 + j)).step (fairSched (6 + j)) = fS 6
    rw [ih]
    have : fairSched (6 + j) = .remove (fun x => x.isExpired 1000000 (IMAX - 1)) := by
      unfold fairSched
      split <;> first | rfl | omega
    rw [this]
    rfl


theorem fairSched_ge (k : Nat) (h : 5 ≤ k) :
    fairSched k = .remove (fun x => x.isExpired 1000000 (IMAX - 1)) := by
  unfold fairSched
  split <;> first | rfl | omega

theorem fS_ge (k : Nat) (h : 6 ≤ k) : fS k = fS 6 := by
  have := fS_const (k - 6)
  rwa [show 6 + (k - 6) = k by omega] at this

theorem fair_primed (k : Nat) (h : 2 ≤ k) : ∀ x ∈ (fS k).live, x.expiryBase ≠ IMAX := by
  match k, h with
  | 2, _ => decide
  | 3, _ => decide
  | 4, _ => decide
  | 5, _ => decide
  | k + 6, _ => rw [fS_ge (k + 6) (by omega)]; decide

theorem fair_horizon (k : Nat) : ∀ x ∈ (fS k).live, x.expiryBase + x.maxInt * 1000000 < IMAX ∨ x.expiryBase = IMAX := by
  match k with
  | 0 => decide
  | 1 => decide
  | 2 => decide
  | 3 => decide
  | 4 => decide
  | 5 => decide
  | k + 6 => rw [fS_ge (k + 6) (by omega)]; decide

theorem fair_example : Fair 1000000 1 fairSched := by
  refine ⟨?_, ?_, ?_, ?_, ?_⟩
  · -- one reporter
    intro k now ev h
    match k, h with
    | 0, h => cases h
    | 1, h => cases h
    | 2, h => cases h
    | 3, _ => rfl
    | 4, h => cases h
    | k + 5, h => rw [fairSched_ge (k + 5) (by omega)] at h; cases h
  · -- the sweep runs for ever, at the last instant of the clock
    intro k T hT
    refine ⟨k + 6, IMAX - 1, _, by omega, by omega, fairSched_ge (k + 6) (by omega), fun x h => h, ?_⟩
    show (fS (k + 6)).reporting = none
    rw [fS_ge (k + 6) (by omega)]; rfl
  · -- the two contexts complete
    intro k c hc
    match k, hc with
    | 0, hc => simp [stateAt, State.new] at hc
    | 1, hc =>
      have hm : (fS 1).ctxs.map (fun c : Ctx => c.sub.id) = [1] := by decide
      have h1 : c.sub.id = 1 := by
        have h2 : c.sub.id ∈ (fS 1).ctxs.map (fun c : Ctx => c.sub.id) := List.mem_map_of_mem hc
        rw [hm] at h2; simpa using h2
      exact ⟨1, .keep, Nat.le_refl _, by rw [h1]; rfl⟩
    | 2, hc => have : (fS 2).ctxs = [] := by decide
               rw [this] at hc; cases hc
    | 3, hc => have : (fS 3).ctxs = [] := by decide
               rw [this] at hc; cases hc
    | 4, hc =>
      have hm : (fS 4).ctxs.map (fun c : Ctx => c.sub.id) = [1] := by decide
      have h1 : c.sub.id = 1 := by
        have h2 : c.sub.id ∈ (fS 4).ctxs.map (fun c : Ctx => c.sub.id) := List.mem_map_of_mem hc
        rw [hm] at h2; simpa using h2
      exact ⟨4, .keep, Nat.le_refl _, by rw [h1]; rfl⟩
    | 5, hc => have : (fS 5).ctxs = [] := by decide
               rw [this] at hc; cases hc
    | k + 6, hc =>
      have h6 : (fS 6).ctxs = [] := by decide
      have : (fS (k + 6)).ctxs = [] := by rw [fS_ge (k + 6) (by omega)]; exact h6
      rw [this] at hc; cases hc
  · -- the priming of subscription 1 completes at step 1
    intro k x hx hu
    match k, hx with
    | 0, hx => simp [stateAt, State.new, State.live] at hx
    | 1, _ => exact ⟨2, by omega, Or.inr (fun y hy _ => fair_primed 2 (by omega) y hy)⟩
    | 2, hx => exact absurd hu (fair_primed 2 (by omega) x hx)
    | 3, hx => exact absurd hu (fair_primed 3 (by omega) x hx)
    | 4, hx => exact absurd hu (fair_primed 4 (by omega) x hx)
    | k + 5, hx => exact absurd hu (fair_primed (k + 5) (by omega) x hx)
  · intro k x hx hne
    rcases fair_horizon k x hx with h | h
    · exact h
    · exact absurd h hne


theorem fair_nowrap : ∀ k, (fS k).changed.nextId + 1 < U64 := by
  intro k
  match k with
  | 0 => decide
  | 1 => decide
  | 2 => decide
  | 3 => decide
  | 4 => decide
  | 5 => decide
  | k + 6 => rw [fS_ge (k + 6) (by omega)]; decide

/-- a fair schedule without wrap on which a subscription owes a recorded change (after step 2) and
has it acknowledged (after step 4) -/
example : ∃ (hz n : Nat) (sched : Nat → Op), Fair hz n sched ∧
    (∀ k, (stateAt hz n sched k).changed.nextId + 1 < U64) ∧
    ∃ k id i p, (i, p) ∈ (stateAt hz n sched k).log ∧
      Owes (stateAt hz n sched k) (stateAt hz n sched k).epoch id i ∧
      ¬ Owes (stateAt hz n sched (k + 2)) (stateAt hz n sched k).epoch id i := by
  refine ⟨1000000, 1, fairSched, fair_example, fair_nowrap, 3, 1, 1, P 1 2 3, by decide, ?_, ?_⟩
  · exact ⟨rfl, sub1', by decide, rfl, by decide⟩
  · rintro ⟨_, x, hx, hid, hlt⟩
    have h : ∀ x ∈ (fS 5).live, ¬ (x.id = 1 ∧ x.seenAttr < 1) := by decide
    exact h x hx ⟨hid, hlt⟩


/-- the context of the report that begins at step 3 of `fairSched` -/
def fairCtx : Ctx :=
  { sub := sub1', nextAttr := 1, nextEv := 0, nextReportedAt := 5000000, nextRetryAt := 0, nextFail := 0 }

theorem fairSched_no_unsent (k id : Nat) : fairSched k ≠ .fin id .unsent := by
  unfold fairSched
  split <;> simp

theorem fairSched_no_restart (a b : Nat) : NoRestart fairSched a b := by
  intro t _ _ now ev h
  unfold fairSched at h
  split at h <;> cases h

/-- **the hypotheses of `C13_full` are satisfiable** (and its conclusions are seen at work): on
`fairSched` change 1 is in the log at step 3, the report of subscription 1 begins at step 3, lives
through step 4 and ends there with `keep` -/
example : ∃ (hz n : Nat) (sched : Nat → Op) (k j m : Nat) (c : Ctx) (i : Nat) (p : Entry),
    (∀ k, (stateAt hz n sched k).changed.nextId + 1 < U64) ∧ UnsentOk hz n sched ∧
    (i, p) ∈ (stateAt hz n sched k).log ∧ k ≤ j ∧ j < m ∧ NoRestart sched k (m + 1) ∧
    BeginsAt hz n sched j c ∧ c.sub.seenAttr < i ∧
    (∀ t, j < t → t ≤ m → c ∈ (stateAt hz n sched t).ctxs) ∧ sched m = .fin c.sub.id .keep ∧
    (stateAt hz n sched m).shouldReportAttr c 1 2 3 = true :=
  ⟨1000000, 1, fairSched, 3, 3, 4, fairCtx, 1, P 1 2 3, fair_nowrap,
    fun k id hs => absurd hs (fairSched_no_unsent k id), by decide, by omega, by omega,
    fairSched_no_restart _ _, ⟨5000000, 0, rfl, by decide, by decide⟩, by decide,
    fun t h1 h2 => by
      have : t = 4 := by omega
      subst this; decide,
    rfl, by decide⟩

/-- the hypotheses of `debt_lasts_until_covering_report_is_committed` are satisfiable: on `fairSched`, subscription 1 owes change 1 from step 3 to step 4 (its
covering report is committed at step 4) -/
example : (∀ x ∈ (stateAt 1000000 1 fairSched 3).live, x.id = 1 → x.seenAttr < 1) ∧
    (∀ x ∈ (stateAt 1000000 1 fairSched 4).live, x.id = 1 → x.seenAttr < 1) ∧
    1 < (stateAt 1000000 1 fairSched 3).nextSubId := by
  refine ⟨by decide, by decide, by decide⟩

/-- like `fairSched`, then one expiry sweep and reporter passes that find nothing for ever -/
def idleSched : Nat → Op
  | 0 => .add 0 1 10 1 60 0
  | 1 => .fin 1 .keep
  | 2 => .change (P 1 2 3)
  | 3 => .report 5000000 0
  | 4 => .fin 1 .keep
  | 5 => .remove (fun x => x.isExpired 1000000 (IMAX - 1))
  | _ => .report (IMAX - 1) 0

abbrev iS (k : Nat) : State := stateAt 1000000 1 idleSched k

theorem idleSched_ge (k : Nat) (h : 6 ≤ k) : idleSched k = .report (IMAX - 1) 0 := by
  unfold idleSched
  split <;> first | rfl | omega

theorem iS_ge (k : Nat) (h : 6 ≤ k) : iS k = iS 6 := by
  have : ∀ j, iS (6 + j) = iS 6 := by
    intro j
    induction j with
    | zero => rfl
    | succ j ih =>
      show (iS (6 + j)).step (idleSched (6 + j)) = iS 6
      rw [ih, idleSched_ge (6 + j) (by omega)]
      rfl
  have := this (k - 6)
  rwa [show 6 + (k - 6) = k by omega] at this

theorem idle_example : Idle 1000000 1 idleSched := by
  intro k T hT
  refine ⟨k + 6, IMAX - 1, 0, by omega, by omega, idleSched_ge (k + 6) (by omega), ?_⟩
  show ((iS (k + 6)).report (IMAX - 1) 0).2 = none
  rw [iS_ge (k + 6) (by omega)]
  rfl

/-- the hypotheses of `report_begins_if_passes_end` are satisfiable: after step 2 subscription 1 sits in
the table and owes change 1 -/
example : ∃ (hz n : Nat) (sched : Nat → Op) (k : Nat) (x : Sub) (i : Nat) (p : Entry),
    Idle hz n sched ∧ (∀ k, (stateAt hz n sched k).changed.nextId + 1 < U64) ∧
    x ∈ (stateAt hz n sched k).subs ∧ (i, p) ∈ (stateAt hz n sched k).log ∧ x.seenAttr < i ∧
    x.reportAllowedAt hz < IMAX ∧ (∀ j, k ≤ j → ∀ now ev, sched j ≠ .restart now ev) := by
  refine ⟨1000000, 1, idleSched, 3, sub1', 1, P 1 2 3, idle_example, ?_, by decide, by decide, by decide,
    by decide, ?_⟩
  · intro k
    match k with
    | 0 => decide
    | 1 => decide
    | 2 => decide
    | 3 => decide
    | 4 => decide
    | 5 => decide
    | k + 6 => show (iS (k + 6)).changed.nextId + 1 < U64; rw [iS_ge (k + 6) (by omega)]; decide
  · intro j _ now ev h
    unfold idleSched at h
    split at h <;> cases h


/-! ### (b) Progress without a starvation assumption -/

/-- **Progress, per reporter call** (`Subs.owed_report_begins_at_call`): an owing subscription `x` of the
table gets its report begun at **any** reporter call `report(now, ev)` with
`now ≥ report_allowed_at x = max(reported_at + min_interval, retry gate)` at which no subscription ahead
of it in the table is reportable; the context snapshots a watermark `≥ i` and its begin instant is
`now`. With `wake_not_late` (the reporter's timer is not later than the gate) the delay beyond
`max(t, reported_at + min_interval)` is the reporter's scheduling latency plus the reports of the
subscriptions ahead of `x`. No fairness, no `Idle`. -/
theorem report_begins_at_call {hz n : Nat} {sched : Nat → Op}
    (hw : ∀ k, (stateAt hz n sched k).changed.nextId + 1 < U64) {k j : Nat} {x : Sub} {i : Nat} {p : Entry}
    (hlog : (i, p) ∈ (stateAt hz n sched k).log) (hkj : k ≤ j) (hnr : NoRestart sched k j)
    (hx : x ∈ (stateAt hz n sched j).subs) (hlt : x.seenAttr < i) {now ev : Nat}
    (hs : sched j = .report now ev) (hgate : x.reportAllowedAt hz ≤ now)
    (hfirst : FirstInLine hz (stateAt hz n sched j).subs x now (stateAt hz n sched j).changed.entries ev) :
    ∃ c, BeginsAt hz n sched j c ∧ c.sub = x ∧ i ≤ c.nextAttr ∧ c.nextReportedAt = now :=
  owed_report_begins_at_call hw hlog hkj hnr hx hlt hs hgate hfirst

/-- the hypotheses are satisfiable: on `fairSched`, subscription 1 (the only one) at the call of step 3 -/
example : ∃ (hz n : Nat) (sched : Nat → Op) (k j : Nat) (x : Sub) (i : Nat) (p : Entry) (now ev : Nat),
    (∀ k, (stateAt hz n sched k).changed.nextId + 1 < U64) ∧ (i, p) ∈ (stateAt hz n sched k).log ∧ k ≤ j ∧
    NoRestart sched k j ∧ x ∈ (stateAt hz n sched j).subs ∧ x.seenAttr < i ∧ sched j = .report now ev ∧
    x.reportAllowedAt hz ≤ now ∧
    FirstInLine hz (stateAt hz n sched j).subs x now (stateAt hz n sched j).changed.entries ev :=
  ⟨1000000, 1, fairSched, 3, 3, sub1', 1, P 1 2 3, 5000000, 0, fair_nowrap, by decide, by omega,
    fairSched_no_restart _ _, by decide, by decide, rfl, by decide,
    by
      have : (stateAt 1000000 1 fairSched 3).subs = [sub1'] := by decide
      rw [this]; exact firstInLine_sole _ _ _ _ _⟩

/-- **Delivery in a bounded window** (composition of (b), `C13_full` and the transport assumption of an
established subscriber — "the report that begins is completed with `keep`"): if `x` owes `(i, p)`, the
reporter calls `report` at step `j` with the gate open and `x` first in line, and the context created
there ends at step `m` with `keep`, then from `j + 1` to `m` the report's filter selects every attribute
`p` touches and after step `m` the subscription does not owe the change. -/
theorem delivered_by_kept_report {hz n : Nat} {sched : Nat → Op}
    (hw : ∀ k, (stateAt hz n sched k).changed.nextId + 1 < U64) (hok : UnsentOk hz n sched)
    {k j m : Nat} {x : Sub} {i : Nat} {p : Entry}
    (hlog : (i, p) ∈ (stateAt hz n sched k).log) (hkj : k ≤ j) (hjm : j < m)
    (hnr : NoRestart sched k (m + 1))
    (hx : x ∈ (stateAt hz n sched j).subs) (hlt : x.seenAttr < i) {now ev : Nat}
    (hs : sched j = .report now ev) (hgate : x.reportAllowedAt hz ≤ now)
    (hfirst : FirstInLine hz (stateAt hz n sched j).subs x now (stateAt hz n sched j).changed.entries ev)
    (hend : sched m = .fin x.id .keep)
    (halive : ∀ c, BeginsAt hz n sched j c → c.sub = x → ∀ t, j < t → t ≤ m → c ∈ (stateAt hz n sched t).ctxs) :
    ∃ c, BeginsAt hz n sched j c ∧ c.sub = x ∧ c.nextReportedAt = now ∧
      (∀ t, j < t → t ≤ m → ∀ ep cl attr, p.matchesPath ep cl attr = true →
        (stateAt hz n sched t).shouldReportAttr c ep cl attr = true) ∧
      ¬ Owes (stateAt hz n sched (m + 1)) (stateAt hz n sched k).epoch x.id i := by
  obtain ⟨c, hb, hcx, _, hnow⟩ :=
    owed_report_begins_at_call hw hlog hkj (hnr.mono (Nat.le_refl _) (by omega)) hx hlt hs hgate hfirst
  obtain ⟨_, h2, h3, _, _⟩ := C13_full_holds hz n sched hw hok k j m c i p hlog hkj hjm hnr hb
    (by rw [hcx]; exact hlt) (halive c hb hcx)
  refine ⟨c, hb, hcx, hnow, h2, ?_⟩
  have := h3 (by rw [hcx]; exact hend)
  rwa [hcx] at this

/-- the hypotheses of `delivered_by_kept_report` are satisfiable: `fairSched`, call at step 3, `keep` at
step 4 -/
example : ∃ (hz n : Nat) (sched : Nat → Op) (k j m : Nat) (x : Sub) (i : Nat) (p : Entry) (now ev : Nat),
    (∀ k, (stateAt hz n sched k).changed.nextId + 1 < U64) ∧ UnsentOk hz n sched ∧
    (i, p) ∈ (stateAt hz n sched k).log ∧ k ≤ j ∧ j < m ∧ NoRestart sched k (m + 1) ∧
    x ∈ (stateAt hz n sched j).subs ∧ x.seenAttr < i ∧ sched j = .report now ev ∧
    x.reportAllowedAt hz ≤ now ∧
    FirstInLine hz (stateAt hz n sched j).subs x now (stateAt hz n sched j).changed.entries ev ∧
    sched m = .fin x.id .keep ∧
    (∀ c, BeginsAt hz n sched j c → c.sub = x → ∀ t, j < t → t ≤ m → c ∈ (stateAt hz n sched t).ctxs) :=
  ⟨1000000, 1, fairSched, 3, 3, 4, sub1', 1, P 1 2 3, 5000000, 0, fair_nowrap,
    fun k id hs => absurd hs (fairSched_no_unsent k id), by decide, by omega, by omega,
    fairSched_no_restart _ _, by decide, by decide, rfl, by decide,
    by
      have : (stateAt 1000000 1 fairSched 3).subs = [sub1'] := by decide
      rw [this]; exact firstInLine_sole _ _ _ _ _,
    rfl,
    fun c hb hcx t h1 h2 => by
      have ht : t = 4 := by omega
      subst ht
      have hc : c = fairCtx := by
        cases c with
        | mk sub na ne nr nrt nf =>
          obtain ⟨_, _, _, _, hmem⟩ := hb
          have : (stateAt 1000000 1 fairSched (3 + 1)).ctxs = [fairCtx] := by decide
          rw [this] at hmem
          exact List.mem_singleton.mp hmem
      rw [hc]; decide⟩

/-! ### Timing, on runs (for every history, not for one value) -/

/-- **"Reports are not sent more often than the minimum interval" — on runs**
(`Subs.min_interval_between_report_begins`): after an acknowledged report of a subscription that began
at the instant `a`, the next report of that subscription — whenever and after however many failed or
unsent attempts — begins at an instant `b ≥ a + min_interval`. -/
theorem min_interval_on_runs {hz n : Nat} {sched : Nat → Op}
    (hw : ∀ k, (stateAt hz n sched k).changed.nextId + 1 < U64) {m1 j2 : Nat} {c1 c2 : Ctx}
    (hc1 : c1 ∈ (stateAt hz n sched m1).ctxs) (hs1 : sched m1 = .fin c1.sub.id .keep) (hlt : m1 < j2)
    (hnr : NoRestart sched (m1 + 1) j2)
    (hnk : ∀ t, m1 < t → t < j2 → sched t ≠ .fin c1.sub.id .keep)
    (hb : BeginsAt hz n sched j2 c2) (hid : c2.sub.id = c1.sub.id)
    (hprimed : c1.nextReportedAt ≠ IMAX) (hno : c1.nextReportedAt + c1.sub.minInt * hz ≤ IMAX) :
    c1.nextReportedAt + c1.sub.minInt * hz ≤ c2.nextReportedAt :=
  min_interval_between_report_begins hw hc1 hs1 hlt hnr hnk hb hid hprimed hno

/-- **"The subscription ends no later than one maximum interval after the last success" — on runs**
(`Subs.unacknowledged_expires_by_max`): after an acknowledged report begun at `R`, with no acknowledged
report since, any expiry sweep of the reporter at an instant `≥ R + max_interval` leaves no such
subscription in the table and cancels its in-flight report, whatever happened in between. (That such a
sweep runs is the reporter's business: it sweeps at the begin of every pass and its timer is not later
than `max(report_allowed_at, R + max_interval)`, `wake_before_max`.) -/
theorem expiry_on_runs {hz n : Nat} {sched : Nat → Op}
    (hw : ∀ k, (stateAt hz n sched k).changed.nextId + 1 < U64) {m1 t : Nat} {c1 : Ctx}
    (hc1 : c1 ∈ (stateAt hz n sched m1).ctxs) (hs1 : sched m1 = .fin c1.sub.id .keep) (hlt : m1 < t)
    (hnr : NoRestart sched (m1 + 1) t)
    (hnk : ∀ u, m1 < u → u < t → sched u ≠ .fin c1.sub.id .keep)
    {pr : Sub → Bool} {now : Nat} (hs : sched t = .remove pr)
    (hp : ∀ x : Sub, x.isExpired hz now = true → pr x = true)
    (hprimed : c1.nextReportedAt ≠ IMAX) (hnow : c1.nextReportedAt + c1.sub.maxInt * hz ≤ now)
    (hle : now ≤ IMAX) :
    (∀ x ∈ (stateAt hz n sched (t + 1)).subs, x.id ≠ c1.sub.id) ∧
    (∀ r, (stateAt hz n sched t).reporting = some r → r.id = c1.sub.id →
      (stateAt hz n sched (t + 1)).cancelled = true ∧ (stateAt hz n sched (t + 1)).reporting = some r) :=
  unacknowledged_expires_by_max hw hc1 hs1 hlt hnr hnk hs hp hprimed hnow hle

/-- **"A liveness report goes out before the maximum interval elapses" — on runs**: after an
acknowledged report begun at `R` (none since), at any reporter call at an instant
`now ≥ max(report_allowed_at, R + (max − max/2))` at which the subscription is in the table and first in
line, its report begins — with nothing pending at all. `R + (max − max/2) ≤ R + max`
(`liveness_before_max`). -/
theorem liveness_on_runs {hz n : Nat} {sched : Nat → Op}
    (hw : ∀ k, (stateAt hz n sched k).changed.nextId + 1 < U64) {m1 j2 : Nat} {c1 : Ctx} {x : Sub}
    (hc1 : c1 ∈ (stateAt hz n sched m1).ctxs) (hs1 : sched m1 = .fin c1.sub.id .keep) (hlt : m1 < j2)
    (hnr : NoRestart sched (m1 + 1) j2)
    (hnk : ∀ t, m1 < t → t < j2 → sched t ≠ .fin c1.sub.id .keep)
    (hx : x ∈ (stateAt hz n sched j2).subs) (hid : x.id = c1.sub.id) {now ev : Nat}
    (hs : sched j2 = .report now ev) (hgate : x.reportAllowedAt hz ≤ now)
    (hno : c1.nextReportedAt + (c1.sub.maxInt - c1.sub.maxInt / 2) * hz ≤ IMAX)
    (hdue : c1.nextReportedAt + (c1.sub.maxInt - c1.sub.maxInt / 2) * hz ≤ now)
    (hfirst : FirstInLine hz (stateAt hz n sched j2).subs x now (stateAt hz n sched j2).changed.entries ev) :
    ∃ c, BeginsAt hz n sched j2 c ∧ c.sub = x ∧ c.nextReportedAt = now := by
  obtain ⟨k1, k2⟩ := keptIs_after_keep hw hc1 hs1
  have hrun := keptIs_run hw k2 k1 (j2 - (m1 + 1)) (by rwa [show m1 + 1 + (j2 - (m1 + 1)) = j2 by omega])
    (fun t h1 h2 => hnk t (by omega) (by omega))
  rw [show m1 + 1 + (j2 - (m1 + 1)) = j2 by omega] at hrun
  obtain ⟨a1, _, a3⟩ := hrun.1 x (mem_live.mpr (Or.inl hx)) hid
  have hrep : x.isReportable (stateAt hz n sched j2).hz now (stateAt hz n sched j2).changed.entries ev = true := by
    rw [hz_stateAt]
    exact liveness_due hz x now _ ev (by rw [a1, a3]; exact hno) hgate (by rw [a1, a3]; exact hdue)
  have hfl' : FirstInLine (stateAt hz n sched j2).hz (stateAt hz n sched j2).subs x now
      (stateAt hz n sched j2).changed.entries ev := by rw [hz_stateAt]; exact hfirst
  obtain ⟨_, hmem⟩ := report_serves_first hfl' hrep
  have hu := (inv_stateAt hz n sched hw j2).2.2
  refine ⟨{ sub := x, nextAttr := (stateAt hz n sched j2).changed.watermark, nextEv := ev, nextReportedAt := now,
            nextRetryAt := 0, nextFail := 0 }, ⟨now, ev, hs, ?_, ?_⟩, rfl, rfl⟩
  · intro hc
    exact uid_table_ctx hu hx hc rfl
  · show _ ∈ ((stateAt hz n sched j2).step (sched j2)).ctxs
    rw [hs]; exact hmem

/-- two kept reports of one subscriber, the second one a liveness report half a maximum interval later
(the hypotheses of `min_interval_on_runs` / `liveness_on_runs` are satisfiable) -/
def twoReports : Nat → Op
  | 0 => .add 0 1 10 1 60 0
  | 1 => .fin 1 .keep
  | 2 => .change (P 1 2 3)
  | 3 => .report 5000000 0
  | 4 => .fin 1 .keep
  | 5 => .report 35000000 0
  | 6 => .fin 1 .keep
  | 7 => .remove (fun x => x.isExpired 1000000 95000000)
  | _ => .persist

def ctxA : Ctx :=
  { sub := sub1', nextAttr := 1, nextEv := 0, nextReportedAt := 5000000, nextRetryAt := 0, nextFail := 0 }
def ctxB : Ctx :=
  { sub := { sub1' with seenAttr := 1, reportedAt := 5000000 }, nextAttr := 1, nextEv := 0,
    nextReportedAt := 35000000, nextRetryAt := 0, nextFail := 0 }

theorem twoReports_nowrap : ∀ k, (stateAt 1000000 1 twoReports k).changed.nextId + 1 < U64 := by
  have hc : ∀ j, stateAt 1000000 1 twoReports (8 + j) = (stateAt 1000000 1 twoReports 8) := by
    intro j
    induction j with
    | zero => rfl
    | succ j ih =>
      show (stateAt 1000000 1 twoReports (8 + j)).step (twoReports (8 + j)) = _
      rw [ih]
      have : twoReports (8 + j) = .persist := by
        unfold twoReports
        split <;> first | rfl | omega
      rw [this]; rfl
  intro k
  match k with
  | 0 => decide
  | 1 => decide
  | 2 => decide
  | 3 => decide
  | 4 => decide
  | 5 => decide
  | 6 => decide
  | 7 => decide
  | k + 8 => rw [show k + 8 = 8 + k by omega, hc k]; decide

theorem twoReports_no_restart (a b : Nat) : NoRestart twoReports a b := by
  intro t _ _ now ev h
  unfold twoReports at h
  split at h <;> cases h

example : ∃ (hz n : Nat) (sched : Nat → Op) (m1 j2 : Nat) (c1 c2 : Ctx),
    (∀ k, (stateAt hz n sched k).changed.nextId + 1 < U64) ∧ c1 ∈ (stateAt hz n sched m1).ctxs ∧
    sched m1 = .fin c1.sub.id .keep ∧ m1 < j2 ∧ NoRestart sched (m1 + 1) j2 ∧
    (∀ t, m1 < t → t < j2 → sched t ≠ .fin c1.sub.id .keep) ∧ BeginsAt hz n sched j2 c2 ∧
    c2.sub.id = c1.sub.id ∧ c1.nextReportedAt ≠ IMAX ∧ c1.nextReportedAt + c1.sub.minInt * hz ≤ IMAX ∧
    c1.nextReportedAt + c1.sub.minInt * hz ≤ c2.nextReportedAt :=
  ⟨1000000, 1, twoReports, 4, 5, ctxA, ctxB, twoReports_nowrap, by decide, rfl, by omega,
    twoReports_no_restart _ _, fun t h1 h2 => by omega, ⟨35000000, 0, rfl, by decide, by decide⟩, rfl,
    by decide, by decide, by decide⟩

/-- the hypotheses of `liveness_on_runs` are satisfiable: on `twoReports` the call of step 5 comes at 35 s
= the begin of the last acknowledged report (5 s) + half the maximum interval (30 s), nothing is pending -/
example : ∃ (hz n : Nat) (sched : Nat → Op) (m1 j2 : Nat) (c1 : Ctx) (x : Sub) (now ev : Nat),
    c1 ∈ (stateAt hz n sched m1).ctxs ∧ sched m1 = .fin c1.sub.id .keep ∧ m1 < j2 ∧
    NoRestart sched (m1 + 1) j2 ∧ (∀ t, m1 < t → t < j2 → sched t ≠ .fin c1.sub.id .keep) ∧
    x ∈ (stateAt hz n sched j2).subs ∧ x.id = c1.sub.id ∧ sched j2 = .report now ev ∧
    x.reportAllowedAt hz ≤ now ∧
    c1.nextReportedAt + (c1.sub.maxInt - c1.sub.maxInt / 2) * hz ≤ IMAX ∧
    c1.nextReportedAt + (c1.sub.maxInt - c1.sub.maxInt / 2) * hz ≤ now ∧
    x.pending (stateAt hz n sched j2).changed.entries ev = false ∧
    FirstInLine hz (stateAt hz n sched j2).subs x now (stateAt hz n sched j2).changed.entries ev :=
  ⟨1000000, 1, twoReports, 4, 5, ctxA, ctxB.sub, 35000000, 0, by decide, rfl, by omega,
    twoReports_no_restart _ _, fun t h1 h2 => by omega, by decide, rfl, rfl, by decide, by decide, by decide,
    by decide,
    by
      have : (stateAt 1000000 1 twoReports 5).subs = [ctxB.sub] := by decide
      rw [this]; exact firstInLine_sole _ _ _ _ _⟩

/-- the hypotheses of `expiry_on_runs` are satisfiable: the sweep of step 7 runs at 95 s, the last kept
report of subscription 1 began at 35 s, its maximum interval is 60 s -/
example : ∃ (hz n : Nat) (sched : Nat → Op) (m1 t : Nat) (c1 : Ctx) (pr : Sub → Bool) (now : Nat),
    c1 ∈ (stateAt hz n sched m1).ctxs ∧ sched m1 = .fin c1.sub.id .keep ∧ m1 < t ∧
    NoRestart sched (m1 + 1) t ∧ (∀ u, m1 < u → u < t → sched u ≠ .fin c1.sub.id .keep) ∧
    sched t = .remove pr ∧ (∀ x : Sub, x.isExpired hz now = true → pr x = true) ∧
    c1.nextReportedAt ≠ IMAX ∧ c1.nextReportedAt + c1.sub.maxInt * hz ≤ now ∧ now ≤ IMAX ∧
    (stateAt hz n sched t).subs.map (·.id) = [1] ∧ (stateAt hz n sched (t + 1)).subs = [] :=
  ⟨1000000, 1, twoReports, 6, 7, ctxB, _, 95000000, by decide, rfl, by omega, twoReports_no_restart _ _,
    fun u h1 h2 => by omega, rfl, fun _ h => h, by decide, by decide, by decide, by decide, by decide⟩

/-! ### Events: the watermark is the largest pushed event number (`Lemmas/SubsEvents.lean`) -/

/-- **`Events::push` and the watermark**: `push` assigns the number after the watermark and the
watermark then equals the number just assigned — the snapshot a report takes (`EvTied`) is the largest
event number pushed so far. -/
theorem watermark_is_last_pushed_number (q : EvQ) (h1 : 1 ≤ q.next) (h2 : q.next + 1 < U64) :
    q.push.1 = q.watermark + 1 ∧ q.push.2.watermark = q.push.1 :=
  ⟨(push_number q h1 h2).1, (push_number q h1 h2).2.1⟩

/-- **No event is skipped** (`Subs.later_event_is_unseen`): along every history whose table operations are
handed the queue's watermark (`EvTied`: what `im.rs` does), an event pushed after step `k` has a number
above everything a subscription live at step `k` has seen or is about to commit. -/
theorem no_event_skipped {hz n : Nat} {sched : Nat → Op} {evq : Nat → EvQ} (hm : EvMono evq)
    (ht : EvTied sched evq) (k e : Nat) (he : (evq k).watermark < e) :
    (∀ x ∈ (stateAt hz n sched k).subs, x.seenEv < e) ∧
    (∀ c ∈ (stateAt hz n sched k).ctxs, c.sub.seenEv < e ∧ c.nextEv < e) :=
  later_event_is_unseen hm ht k e he

/-- **"Every subscribed event that occurs … is reported" — the table's part, on runs**
(`Subs.event_in_next_report`): an event pushed with number `e` that a live subscription has not seen is
considered by the event reader of the next report that begins for that subscription
(`max_seen < e ≤ next_max_seen`), failed attempts in between notwithstanding; an acknowledgement of that
report moves the subscription's event watermark to `≥ e`; and until then the subscription is pending
(`event_makes_pending`), hence reportable as soon as its gate opens. Which of the numbered events the
subscription's event paths select, and whether the requester may read them, is C06's `report_events`. -/
theorem subscribed_event_in_next_report {hz n : Nat} {sched : Nat → Op} {evq : Nat → EvQ}
    (hw : ∀ k, (stateAt hz n sched k).changed.nextId + 1 < U64) (hm : EvMono evq) (ht : EvTied sched evq)
    {k j e : Nat} {x : Sub} (hx : x ∈ (stateAt hz n sched k).live) (hp : Pushed evq k e)
    (hlt : x.seenEv < e) (hkj : k ≤ j) (hnr : NoRestart sched k j)
    (hnk : ∀ t, k ≤ t → t < j → sched t ≠ .fin x.id .keep ∧ sched t ≠ .fin x.id .unsent)
    {c : Ctx} (hb : BeginsAt hz n sched j c) (hid : c.sub.id = x.id) :
    c.eventInRange e = true ∧ e ≤ (finSub hz c .keep).seenEv ∧
    (finSub hz c .retry).seenEv = c.sub.seenEv :=
  ⟨(event_in_next_report hw hm ht hx hp hlt hkj hnr hnk hb hid).1,
   (event_in_next_report hw hm ht hx hp hlt hkj hnr hnk hb hid).2, (event_range_commit hz c).2.1⟩

/-- a history with events: the subscriber is primed, two events are pushed (numbers 1 and 2), the report
begins with the watermark 2 and is acknowledged -/
def evSched : Nat → Op
  | 0 => .add 0 1 10 1 60 0
  | 1 => .fin 1 .keep
  | 2 => .report 5000000 2
  | 3 => .fin 1 .keep
  | _ => .persist

/-- the queue of `evSched`: two events are pushed between step 1 and step 2 -/
def evQs (k : Nat) : EvQ := if k ≤ 1 then { next := 1 } else { next := 3 }

theorem evSched_tied : EvTied evSched evQs := by
  intro k ev h
  match k, h with
  | 0, h => simp [evSched, Op.evParam] at h; subst h; decide
  | 1, h => simp [evSched, Op.evParam] at h
  | 2, h => simp [evSched, Op.evParam] at h; subst h; decide
  | 3, h => simp [evSched, Op.evParam] at h
  | k + 4, h =>
    have : evSched (k + 4) = .persist := by
      unfold evSched
      split <;> first | rfl | omega
    rw [this] at h; simp [Op.evParam] at h

theorem evQs_mono : EvMono evQs := by
  refine ⟨fun k => ?_, fun k => ?_, fun k => ?_⟩
  · unfold evQs; split <;> decide
  · unfold evQs; split <;> decide
  · unfold evQs
    by_cases h1 : k ≤ 1
    · by_cases h2 : k + 1 ≤ 1 <;> simp [h1, h2]
    · have h2 : ¬ (k + 1 ≤ 1) := by omega
      simp [h1, h2]

/-- the hypotheses of `subscribed_event_in_next_report` are satisfiable, and event 2 is in the range of
the report that begins at step 2 -/
example : EvMono evQs ∧ EvTied evSched evQs ∧ Pushed evQs 2 2 ∧
    (∃ x ∈ (stateAt 1000000 1 evSched 2).live, x.id = 1 ∧ x.seenEv < 2) ∧
    (∃ c, BeginsAt 1000000 1 evSched 2 c ∧ c.sub.id = 1 ∧ c.eventInRange 2 = true ∧ c.eventInRange 1 = true) :=
  ⟨evQs_mono, evSched_tied, ⟨by decide, by decide⟩, ⟨sub1', by decide, rfl, by decide⟩,
    ⟨{ sub := sub1', nextAttr := 0, nextEv := 2, nextReportedAt := 5000000, nextRetryAt := 0, nextFail := 0 },
      ⟨5000000, 2, rfl, by decide, by decide⟩, rfl, by decide, by decide⟩⟩

/-! ### Events: the CONTENT of a report — the event rings and the reader's running watermark

The table hands the reader a number range; what the report carries is decided by the queue's rings
(`Chunk.Queue`, the transliteration of `im/events.rs` shared with C14 and tied to the real queue ring by ring in
C13's `evs` stream) and by `EventReader::process_read`, which keeps a running watermark and skips every event at
or below it (`Subs.readEvents`). -/

/-- **the code's iteration order (critical, info, debug ring) yields increasing event numbers**, for every ring
size and every history of pushes (any priority / length, failing closures, events longer than a ring), resets
and epoch loads from the empty queue, until the 64-bit event number wraps. A refinement fact about
`EventsIter` that the next theorem needs; FALSE for the order debug → info → critical
(`newest_first_not_increasing`). -/
theorem iter_numbers_increasing (n : Nat) (ops : List Chunk.QOp) :
    ∃ q, (Chunk.Queue.new n).run ops = some q ∧
      (q.wrapped = false → (q.iter.map (·.num)).Pairwise (· < ·)) := by
  obtain ⟨q, h⟩ := Subs.reached_total n ops
  exact ⟨q, h, fun hw => Subs.iter_numbers_increasing ⟨ops, h⟩ hw⟩

/-- **the running-watermark reader skips nothing that is retained** (property sentence: "every subscribed event
… is eventually reported" — per report: the specification `Subs.OwedReport`): after ANY history of the queue
the events a report carries for a subscription with the committed event watermark `seen` and the snapshot
`next` are exactly the selected events still held by one of the three rings with `seen < number ≤ next`, each
once, in increasing order. Events evicted from the last ring are gone: lost legitimately. -/
theorem reader_skips_nothing_retained (n : Nat) (ops : List Chunk.QOp) (sel : Chunk.QEv → Bool) (seen next : Nat) :
    ∃ q, (Chunk.Queue.new n).run ops = some q ∧
      (q.wrapped = false →
        OwedReport sel seen next (q.crit ++ q.info ++ q.debug) (readEvents sel next seen q.iter)) := by
  obtain ⟨q, h⟩ := Subs.reached_total n ops
  exact ⟨q, h, fun hw => Subs.reader_skips_nothing_retained ⟨ops, h⟩ hw sel seen next⟩

/-- **a subscribed event that is still retained is IN the next report** — `subscribed_event_in_next_report`
(the range, from the table's history) composed with the reader over the rings: an event pushed with number `e`
that the live subscription `x` has not seen, selected by its paths and still held by a ring of the queue `q` when
the report that begins at step `j` is built, is carried by that report; the report's events are in increasing
order. -/
theorem retained_subscribed_event_in_next_report {hz n : Nat} {sched : Nat → Op} {evq : Nat → EvQ}
    (hw : ∀ k, (stateAt hz n sched k).changed.nextId + 1 < U64) (hm : EvMono evq) (ht : EvTied sched evq)
    {k j e : Nat} {x : Sub} (hx : x ∈ (stateAt hz n sched k).live) (hp : Pushed evq k e)
    (hlt : x.seenEv < e) (hkj : k ≤ j) (hnr : NoRestart sched k j)
    (hnk : ∀ t, k ≤ t → t < j → sched t ≠ .fin x.id .keep ∧ sched t ≠ .fin x.id .unsent)
    {c : Ctx} (hb : BeginsAt hz n sched j c) (hid : c.sub.id = x.id)
    {rn : Nat} {q : Chunk.Queue} (hq : Subs.Reached rn q) (hqw : q.wrapped = false)
    (sel : Chunk.QEv → Bool) {ev : Chunk.QEv} (hret : ev ∈ q.crit ++ q.info ++ q.debug) (hnum : ev.num = e)
    (hsel : sel ev = true) :
    e ∈ c.reportEvents sel q ∧ (c.reportEvents sel q).Pairwise (· < ·) := by
  have hr := (subscribed_event_in_next_report hw hm ht hx hp hlt hkj hnr hnk hb hid).1
  simp only [Ctx.eventInRange, Bool.and_eq_true, decide_eq_true_eq] at hr
  have ho := Subs.report_carries_owed_events hq hqw c sel
  exact ⟨(ho.2 e).mpr ⟨ev, hret, hnum, hsel, hr.1, hr.2⟩, ho.1⟩

/-- the ring queue of `evSched`: the two events pushed between step 1 and step 2 (27 bytes each, 256-byte rings) -/
def evRing : Chunk.Queue := ((Chunk.Queue.new 256).run [.push 1 27 none, .push 1 27 none]).getD (Chunk.Queue.new 256)

/-- non-vacuity of `retained_subscribed_event_in_next_report` on `evSched`: event 2 is retained and selected; the
report that begins at step 2 carries `[1, 2]` -/
example : Subs.Reached 256 evRing ∧ evRing.wrapped = false ∧
    (∃ ev ∈ evRing.crit ++ evRing.info ++ evRing.debug, ev.num = 2) ∧
    (∃ c, BeginsAt 1000000 1 evSched 2 c ∧ c.sub.id = 1 ∧ c.reportEvents (fun _ => true) evRing = [1, 2]) :=
  ⟨⟨[.push 1 27 none, .push 1 27 none], by decide⟩, by decide, ⟨⟨2, 1, 27⟩, by decide, rfl⟩,
    ⟨{ sub := sub1', nextAttr := 0, nextEv := 2, nextReportedAt := 5000000, nextRetryAt := 0, nextFail := 0 },
      ⟨5000000, 2, rfl, by decide, by decide⟩, rfl, by decide⟩⟩

/-- **what the seeded change "iterate debug → info → critical" breaks**: after the burst of 12 info events into
256-byte rings (3 of them promoted to the info ring) that order is not increasing, the reader delivers 4..12 and
skips the retained events 1, 2, 3 — `OwedReport` fails; with the code's order the report is `[1, …, 12]`. -/
theorem newest_first_loses_retained_events :
    ∃ (n : Nat) (q : Chunk.Queue), Subs.Reached n q ∧ q.wrapped = false ∧
      readEvents (fun _ => true) 12 0 (iterNewestFirst q) = [4, 5, 6, 7, 8, 9, 10, 11, 12] ∧
      readEvents (fun _ => true) 12 0 q.iter = [1, 2, 3, 4, 5, 6, 7, 8, 9, 10, 11, 12] ∧
      ¬ OwedReport (fun _ => true) 0 12 (q.crit ++ q.info ++ q.debug)
          (readEvents (fun _ => true) 12 0 (iterNewestFirst q)) :=
  Subs.newest_first_loses_retained_events

/-- the ring model numbers its events as the numbering model `EvQ` of the event theorems above does -/
theorem rings_number_like_evq (q : Chunk.Queue) (hq : Chunk.Queue.QInv q) (hn : q.next ≤ Chunk.Queue.u64Max)
    (prio len : Nat) (abort : Option Nat) :
    Subs.evqOf (q.push prio len abort).1 = (Subs.evqOf q).push.2 ∧
    ∀ num, (q.push prio len abort).2 = .ok num → num = (Subs.evqOf q).push.1 :=
  Subs.rings_number_like_evq q hq hn prio len abort

/-! ### Totalisations of the model: the `reporting` slot assertion and the `u32` subscription ids -/

/-- **`debug_assert!(self.reporting.is_none())` (`SubscriptionsInner::report`) cannot fire** when the
reporter is one sequential task (`SeqReporter`: it calls `report` again only after the context of its
previous report was dropped): at every `report` call the slot is empty. The model overwrites the slot
(it is total), so histories that violate `SeqReporter` are histories in which a debug build panics; the
clause `Fair.seq` of the older theorems is this conclusion. Invariants behind it, for **every** history:
the slot is occupied only while the context of that report is alive (`repCtx_stateAt`), and the end of
that context empties it (`fin_clears_reporting`). -/
theorem report_assert_cannot_fire {hz n : Nat} {sched : Nat → Op}
    (hw : ∀ k, (stateAt hz n sched k).changed.nextId + 1 < U64) (hseq : SeqReporter hz n sched)
    (j now ev : Nat) (hs : sched j = .report now ev) : (stateAt hz n sched j).reporting = none :=
  reporting_none_at_report hw hseq j now ev hs

example : SeqReporter 1000000 1 fairSched := by
  intro j now ev hs j' now' ev' id hlt hs' _
  have h3 : ∀ t now ev, fairSched t = .report now ev → t = 3 := by
    intro t now ev h
    unfold fairSched at h
    split at h <;> first | rfl | cases h
  have hj := h3 j now ev hs
  have hj' := h3 j' now' ev' hs'
  omega

/-- **subscription ids are `u32`** (`self.next_subscription_id += 1`): the model computes in `Nat`; the
`u32` code (wrapping in a release build, a panic in a debug build) computes the same as long as the
counter has not reached `2^32 - 1` -/
theorem add_u32_agrees (s : State) (now fab peer mn mx ev : Nat) (h : s.nextSubId + 1 < U32) :
    s.addU32 now fab peer mn mx ev = s.add now fab peer mn mx ev := by
  unfold State.addU32 State.add
  rw [Nat.mod_eq_of_lt h]

/-- fewer than `2^32 - 1` subscription ids are assigned in one history (an **assumption** of every
whole-history theorem of this file: beyond it the ids of the `u32` code repeat and `UID` is lost) -/
def NoSubIdWrap (hz n : Nat) (sched : Nat → Op) : Prop :=
  ∀ k, (stateAt hz n sched k).nextSubId + 1 < U32

/-- … and under that assumption the ids of the live subscriptions are distinct `u32` values -/
theorem sub_ids_unique_u32 {hz n : Nat} {sched : Nat → Op}
    (hw : ∀ k, (stateAt hz n sched k).changed.nextId + 1 < U64) (hs : NoSubIdWrap hz n sched) (k : Nat) :
    ((stateAt hz n sched k).live.map (·.id)).Nodup ∧ ∀ x ∈ (stateAt hz n sched k).live, x.id < U32 := by
  obtain ⟨_, _, hu⟩ := inv_stateAt hz n sched hw k
  exact ⟨hu.nodup, fun x hx => by have := hu.below x hx; have := hs k; omega⟩

/-- the `u32` arithmetic at its edge: the id after `2^32 - 1` is `0` again (why `NoSubIdWrap` is needed) -/
example : ((({ State.new 1000000 2 with nextSubId := U32 - 1 } : State).addU32 0 1 1 1 60 0).1).nextSubId = 0 := by
  decide

/-! ### Why `Idle` is a hypothesis: a reporter pass need not end -/

/-- three primed subscriptions with `min_int = 0` -/
def starve0 : State :=
  let s := State.new 1000000 3
  let s := ((s.add 0 1 10 0 60 0).1.fin 1 .keep).1
  let s := ((s.add 0 1 11 0 60 0).1.fin 2 .keep).1
  ((s.add 0 1 12 0 60 0).1.fin 3 .keep).1

/-- two reports of one reporter pass (`now` is fixed during a pass); a change arrives while each of
them is in flight -/
def starveCycle (s : State) : State × List (Option Nat) :=
  let s := s.change (P 1 2 3)
  let r1 := s.report 1000 0
  let s := ((r1.1.change (P 1 2 3)).fin (r1.2.getD 0) .keep).1
  let r2 := s.report 1000 0
  let s := ((r2.1.change (P 1 2 3)).fin (r2.2.getD 0) .keep).1
  (s, [r1.2, r2.2])

/-- **Observation (starvation under continuous load).** `find_reportable` takes the first reportable
subscription of the table, an acknowledged one is pushed to the end and `swap_remove` moves the last
one to the front: with two `min_int = 0` subscribers and a change arriving during every report the
pass alternates between subscriptions 1 and 3 and the table order is the same after every cycle —
subscription 2 (reportable all the time) is not reported on, and the expiry sweep, which only runs
at the begin of a pass, does not run either.  Any pause in the changes ends the pass. -/
theorem starvation_cycle :
    (starveCycle starve0).2 = [some 1, some 3] ∧
    (starveCycle (starveCycle starve0).1).2 = [some 1, some 3] ∧
    (starveCycle (starveCycle (starveCycle starve0).1).1).2 = [some 1, some 3] ∧
    (starveCycle (starveCycle (starveCycle starve0).1).1).1.subs.map (·.id) = starve0.subs.map (·.id) ∧
    (∀ x ∈ (starveCycle starve0).1.subs, x.id = 2 → x.seenAttr = 0) := by
  refine ⟨by decide, by decide, by decide, by decide, by decide⟩

/-- **One reporting cycle** (no fairness needed): in every reachable
state, for a subscription `x` of the table that owes change `(i, p)`:
* it is pending, hence reportable once `report_allowed_at ≤ now`, a report is then begun and the
  reporter does not sleep past that instant;
* if the report that is begun is `x`'s, its context selects every attribute touched by `p`
  (and keeps doing so in every later state while it is in flight, by `owed_in_report`), and the
  watermark it will commit on acknowledgement is at least `i`;
* if it fails instead (`retry`), `x` comes back with the same watermark, i.e. it still owes `(i, p)`
  and `(i, p)` is still covered. -/
theorem C13_eventual_partial (hz n : Nat) (sched : Nat → Op)
    (hw : ∀ k, (stateAt hz n sched k).changed.nextId + 1 < U64) (k : Nat)
    {x : Sub} (hx : x ∈ (stateAt hz n sched k).subs) {i : Nat} {p : Entry}
    (hlog : (i, p) ∈ (stateAt hz n sched k).log) (hlt : x.seenAttr < i) (now ev : Nat)
    (ha : x.reportAllowedAt (stateAt hz n sched k).hz ≤ now) :
    let s := stateAt hz n sched k
    (s.report now ev).2 ≠ none ∧
    s.nextReportAt ev ≤ x.reportAllowedAt s.hz ∧
    (∀ c ∈ (s.report now ev).1.ctxs, c.sub = x →
      (∀ ep cl attr, p.matchesPath ep cl attr = true → (s.report now ev).1.shouldReportAttr c ep cl attr = true) ∧
      (c ∉ s.ctxs → i ≤ c.commit.seenAttr) ∧
      (c.setKeepRetry s.hz).commit.seenAttr = x.seenAttr) := by
  intro s
  obtain ⟨hwf, hcov, _⟩ := inv_stateAt hz n sched hw k
  have hpend := owed_is_pending hcov hx hlog hlt ev
  refine ⟨report_progress ⟨x, hx, pending_is_reportable _ x now _ ev hpend ha⟩,
    wake_not_late hx ev hpend, ?_⟩
  intro c hc hcx
  have hcov' : Cov (s.report now ev).1 := cov_report now ev hcov
  have hlog' : (i, p) ∈ (s.report now ev).1.log := by
    rcases report_shape (s := s) (now := now) (ev := ev) with h1 | ⟨j, sub, _, h1⟩
    · rw [h1]; exact hlog
    · rw [h1]; exact hlog
  refine ⟨?_, ?_, ?_⟩
  · intro ep cl attr hm
    exact owed_in_report hcov' hc hlog' (by rw [hcx]; exact hlt) hm
  · intro hnew
    rcases report_shape (s := s) (now := now) (ev := ev) with h1 | ⟨j, sub, _, h1⟩
    · rw [h1] at hc; exact absurd hc hnew
    · rw [h1] at hc
      simp only [reportTo, List.mem_append, List.mem_singleton] at hc
      rcases hc with hc | hc
      · exact absurd hc hnew
      · subst hc
        show i ≤ (stateAt hz n sched k).changed.watermark
        have h3 := watermark_eq hwf.nextPos hwf.nextLt
        have h4 := hwf.logBelow (i, p) hlog
        simp only at h4
        omega
  · rw [← hcx]; simp [Ctx.setKeepRetry, Ctx.commit]

example : ∃ (s : State) (x : Sub) (i : Nat) (p : Entry), WF s ∧ Cov s ∧ x ∈ s.subs ∧ (i, p) ∈ s.log ∧
    x.seenAttr < i :=
  ⟨(witness.purge.fin 1 .keep).1, sub1', 1, P 1 2 3,
    (inv_step (.fin 1 .keep) (inv_step .purge witness_ok.1 witness_ok.2 (by decide)).1
      (inv_step .purge witness_ok.1 witness_ok.2 (by decide)).2 (by decide)).1,
    (inv_step (.fin 1 .keep) (inv_step .purge witness_ok.1 witness_ok.2 (by decide)).1
      (inv_step .purge witness_ok.1 witness_ok.2 (by decide)).2 (by decide)).2,
    by decide, by decide, by decide⟩

end C13
