import RsMatterVerif.Model.CaseNet
import RsMatterVerif.Model.CaseCache
import Driver.C19
import Driver.Util
/-! Driver for C01: replays two-node CASE handshakes on the symbolic model (`Model/Case`) and
evaluates the property's clauses on the sessions the REAL nodes ended up with (oracle). -/
namespace Driver.C01
open Cert Case

structure St where
  ctl : Option Fabric := none
  dev : Option Fabric := none
  /-- the node id the controller addresses (the device's at the time of `hs`) -/
  peer : Nat := 0
  /-- second fabric (index 2 on both nodes) and the device's node id on it -/
  ctl2 : Option Fabric := none
  dev2 : Option Fabric := none
  peer2 : Nat := 0
  cacheI : List ResRec := []
  cacheR : List ResRec := []
  /-- fresh-value counter (ephemeral keys, randoms, session / resumption ids) -/
  n : Nat := 0
  /-- the caches the IMPLEMENTATION reported after the previous operation -/
  implCc : String := "-"
  implDc : String := "-"
  /-- largest byte-string name the implementation has used so far -/
  maxName : Option Nat := none
deriving Inhabited

def mkFabric (idx : Nat) (root noc : Cert) (icac : Option Cert) (opKey : Option Nat) : Fabric :=
  { idx := idx, fabricId := (fabricIdOf noc.subject).getD 0, root := root, ipk := .atom 77,
    nodeId := (nodeIdOf noc.subject).getD 0, noc := noc, icac := icac, opKey := opKey.getD noc.pubKey }

def junk (k : Nat) : Term := .atom (900000 + k)

/-- a bit flip inside top-level field `tag` of message `name`: the field becomes a value nobody
computed; a field that is not present is left alone (the harness finds nothing to flip) -/
def mutField (name : String) (tag : Nat) (m : Msg) : Msg :=
  match name, m with
  | "s1", .sigma1 r s d e res =>
    match tag with
    | 1 => .sigma1 (junk 1) s d e res
    | 2 => .sigma1 r (junk 2) d e res
    | 3 => .sigma1 r s (junk 3) e res
    | 4 => .sigma1 r s d (junk 4) res
    | 6 => .sigma1 r s d e (res.map fun p => (junk 6, p.2))
    | 7 => .sigma1 r s d e (res.map fun p => (p.1, junk 7))
    | _ => m
  | "s2", .sigma2 r s e c =>
    match tag with
    | 1 => .sigma2 (junk 1) s e c
    | 2 => .sigma2 r (junk 2) e c
    | 3 => .sigma2 r s (junk 3) c
    | 4 => .sigma2 r s e (junk 4)
    | _ => m
  | "s3", .sigma3 _ => if tag = 1 then .sigma3 (junk 1) else m
  | "r2", .sigma2Resume r mc s =>
    match tag with
    | 1 => .sigma2Resume (junk 1) mc s
    | 2 => .sigma2Resume r (junk 2) s
    | 3 => .sigma2Resume r mc (junk 3)
    | _ => m
  | "st", .status _ => if tag = 99 then .status true else m
  | _, _ => m

structure Outcome where
  ctl : Option Session := none
  dev : Option Session := none
  /-- which answer the responder gave to Sigma1: `r` Sigma2_Resume, `f` Sigma2, `-` none -/
  via : String := "-"
deriving Inhabited

def fmtSess : Option Session → String
  | none => "none"
  | some s =>
    let cats := if s.cats.isEmpty then "-" else ".".intercalate (s.cats.map toString)
    s!"sess(fab={s.fabIdx},peer={s.peerNode},cats={cats},local={s.localNode})"

def fmtOutcome (o : Outcome) : String :=
  let keys := match o.ctl, o.dev with
    | some a, some b => if a.i2r = b.i2r ∧ a.r2i = b.r2i then "agree" else "differ"
    | _, _ => "na"
  s!"ctl={fmtSess o.ctl} dev={fmtSess o.dev} keys={keys} via={o.via}"

/-- capacity of the resumption cache used for the two-node runs (never reached there; the `cache`
stream uses the real value the harness reports) -/
def capDefault : Nat := 15

def nameOf : Msg → String
  | .sigma1 .. => "s1"
  | .sigma2 .. => "s2"
  | .sigma3 _ => "s3"
  | .sigma2Resume .. => "r2"
  | .status _ => "st"
  | .junk _ => "jk"

/-- one handshake between the two nodes on a perfect network, composed from the SAME step
functions `stepResp` / `stepInit` the network theorem is about (`Model/CaseNet.lean`);
`muts` = (message, field) pairs hit by a change on the first transmission -/
def runHs (t : Time) (st : St) (cf : Fabric) (dfs : List Fabric) (peer : Nat)
    (muts : List (String × Nat)) (edit : Msg → Msg := id) (gap : Option String := none) :
    Outcome × St × Bool :=
  let n := st.n
  let st := { st with n := n + 10 }
  let cfg : HsCfg :=
    { t := t, fabricsR := dfs, cacheR := st.cacheR, fI := cf, cacheI := st.cacheI, peer := peer,
      ephI := n + 1, ephR := n + 2, rndI := .atom (10000 + n), sidI := .atom (20000 + n),
      rndR := .atom (50000 + n), ridR := .atom (30000 + n), sidR := .atom (40000 + n) }
  -- `gap`: the device's fabric 1 is removed while the responder waits inside `send_with`
  let dfsGone := dfs.filter (fun f => f.idx != 1)
  let cfgGone : HsCfg := { cfg with fabricsR := dfsGone }
  let app (m : Msg) : Msg :=
    muts.foldl (fun acc (nm, tag) => if nm = nameOf m then mutField nm tag acc else acc) m
  let i0 := IState.sent1 cfg.init0
  let m1 := edit (app cfg.init0.s1)
  let (r1a, o1a) := stepResp cfg .idle m1
  -- `gap=r2`: `Sigma2_Resume` went out (the MIC check does not look at the fabric table), then the
  -- removal lands before `try_handle_sigma1_resume` looks the record's fabric up
  let gapR2 : Bool := gap == some "r2" && (match o1a with | .sigma2Resume .. :: _ => true | _ => false)
  let (r1, o1) := if gapR2 then stepResp cfgGone .idle m1 else (r1a, o1a)
  let (i1, p1) := match o1 with
    | m :: _ => stepInit cfg i0 (app m)
    | [] => (i0, [])
  -- `gap=s2`: Sigma2 went out, the removal lands before `handle_casesigma3` re-reads the fabric by index
  let gapS2 : Bool := gap == some "s2" && (match r1 with | .sent2 _ => true | _ => false)
  let (r2, o2) := match p1 with
    | m :: _ =>
      match gapS2, r1 with
      | true, .sent2 ctx =>
        match respSigma3At cfg.t dfsGone ctx (app m) with
        | some p => (RState.done (some p), [Msg.status true])
        | none => (RState.done none, [Msg.status false])
      | _, _ => stepResp cfg r1 (app m)
    | [] => (r1, [])
  let (i2, _) := match o2 with
    | m :: _ => stepInit cfg i1 (app m)
    | [] => (i1, [])
  let via := match o1 with
    | .sigma2Resume .. :: _ => "r"
    | .sigma2 .. :: _ => "f"
    | _ => "-"
  let cI := match i2.result with
    | some (_, rI) => Cache.insertOrUpdate capDefault st.cacheI rI
    | none => st.cacheI
  let cR := match r2.result with
    | some (_, rR) => Cache.insertOrUpdate capDefault st.cacheR rR
    | none => st.cacheR
  ({ ctl := i2.result.map (·.1), dev := r2.result.map (·.1), via := via },
   { st with cacheI := cI, cacheR := cR }, gapR2 || gapS2)

/-! ## oracle: the clauses of the property on what the implementation reports -/

/-- parse `sess(fab=1,peer=200,cats=1.2,local=100)` -/
def parseSess (s : String) : Option (Nat × Nat × List Nat × Nat) :=
  if ¬ s.startsWith "sess(" then none else
  let inner := ((s.drop 5).toString.dropEnd 1).toString
  let kvs := inner.splitOn ","
  let get (k : String) : Option String :=
    kvs.findSome? fun e => if e.startsWith (k ++ "=") then some (e.drop (k.length + 1)).toString else none
  match (get "fab").bind String.toNat?, (get "peer").bind String.toNat?, get "cats",
        (get "local").bind String.toNat? with
  | some f, some p, some c, some l =>
    some (f, p, if c = "-" then [] else (c.splitOn ".").filterMap String.toNat?, l)
  | _, _, _, _ => none

def field (out key : String) : String :=
  ((words out).findSome? fun w =>
    if w.startsWith (key ++ "=") then some (w.drop (key.length + 1)).toString else none).getD ""

/-- a live session on `me` (holding fabric `mine`) must be with a peer whose chain is valid for
that fabric, and be bound to that chain's node id and CATs -/
def checkSide (side : String) (t : Time) (mine peer : Fabric) (s : String) : Option String :=
  if s = "none" then none
  else if s.contains '+' then some s!"{side}: more than one new session: {s}"
  else
    match parseSess s with
    | none => some s!"{side}: unparsable session {s}"
    | some (fab, p, cats, loc) =>
      if peer.opKey ≠ peer.noc.pubKey then
        some s!"{side} holds a session with a peer that does not hold the private key of its NOC: {s}"
      else if ¬ decide (CaseValid t mine.view peer.noc peer.icac) then
        some s!"{side} holds a session although the peer's chain is not valid for the addressed fabric: {s}"
      else if fab ≠ mine.idx then some s!"{side}: session on another fabric index: {s}"
      else if some p ≠ nodeIdOf peer.noc.subject then
        some s!"{side}: session bound to a node id that is not the certificate's: {s}"
      else if cats ≠ catsOf peer.noc.subject then
        some s!"{side}: session bound to other CATs than the certificate's: {s}"
      else if loc ≠ mine.nodeId then some s!"{side}: wrong local node id: {s}"
      else none

def oracle (t : Time) (cf : Fabric) (ctlOf devOf : Nat → Option Fabric) (anyDev : Bool) (out : String) :
    Option String :=
  if out.startsWith "panic" then some "panic in the code under test" else
  let c := field out "ctl"
  let d := field out "dev"
  if ¬ anyDev then
    -- the device holds no fabric at all
    if c ≠ "none" ∨ d ≠ "none" then some s!"a session although the device has no fabric: {out}" else none
  else
    let fabOf (s : String) : Nat := ((parseSess s).map (·.1)).getD 0
    -- the controller's session lives on one of ITS fabrics and is with the device's node on that fabric
    let oc : Option String :=
      if c = "none" ∨ c.contains '+' then checkSide "controller" t cf cf c
      else match ctlOf (fabOf c), devOf (fabOf c) with
        | some mine, some peer => checkSide "controller" t mine peer c
        | _, _ => some s!"controller: session on a fabric one of the nodes does not hold: {c}"
    -- the device's session lives on one of ITS fabrics; the peer is the controller as it acted in this handshake
    let od : Option String :=
      if d = "none" ∨ d.contains '+' then checkSide "device" t cf cf d
      else match devOf (fabOf d) with
        | some mine => checkSide "device" t mine cf d
        | none => some s!"device: session on a fabric index it does not hold: {d}"
    match oc with
    | some w => some w
    | none =>
      match od with
      | some w => some w
      | none =>
        if c ≠ "none" ∧ d ≠ "none" ∧ field out "keys" ≠ "agree" then
          some s!"both ends hold a session but not the same directional keys: {out}"
        else none

/-! ### the resumption caches as the implementation reports them -/

structure CRec where
  fab : Nat
  peer : Nat
  cats : List Nat
  rid : Nat
  sec : Nat
deriving DecidableEq, Inhabited

def parseCRec (s : String) : Option CRec :=
  match s.splitOn ":" with
  | [f, p, c, r, k] =>
    match f.toNat?, p.toNat?, r.toNat?, k.toNat? with
    | some f, some p, some r, some k =>
      some { fab := f, peer := p, cats := if c = "-" then [] else (c.splitOn ".").filterMap String.toNat?,
             rid := r, sec := k }
    | _, _, _, _ => none
  | _ => none

def parseCache (s : String) : Option (List CRec) :=
  if s = "-" ∨ s = "" then some [] else (s.splitOn "+").mapM parseCRec

def shapeOf (c : List CRec) : List (Nat × Nat × List Nat) := c.map fun r => (r.fab, r.peer, r.cats)

def modelShape (c : List ResRec) : List (Nat × Nat × List Nat) := c.map fun r => (r.fabIdx, r.peerNode, r.cats)

/-- first-occurrence numbering of a list (equality pattern) -/
def pattern {α} [DecidableEq α] (l : List α) : List Nat :=
  let rec go (seen : List α) : List α → List Nat
    | [] => []
    | x :: xs =>
      match seen.idxOf? x with
      | some i => i :: go seen xs
      | none => seen.length :: go (seen ++ [x]) xs
  go [] l

/-- clauses about resumption on the implementation's own report.
`pre*` = caches before the operation, `post*` after -/
def oracleResume (st : St) (out : String) (preC preD postC postD : List CRec) : Option String :=
  let via := field out "via"
  let c := field out "ctl"
  let d := field out "dev"
  let rid? := (field out "rid").toNat?
  -- a resumed responder session takes exactly the identity of the record with the received id
  let o1 : Option String :=
    if via = "r" ∧ d ≠ "none" then
      match parseSess d, rid? with
      | some (fab, p, cats, _), some rid =>
        match preD.find? (fun r => r.rid == rid) with
        | none => some s!"device resumed a session but held no record with the resumption id it received: {out}"
        | some r =>
          if (r.fab, r.peer, r.cats) ≠ (fab, p, cats) then
            some s!"device: resumed session identity differs from the record's: {out}"
          else none
      | _, _ => some s!"device resumed a session without a resumption id in Sigma1: {out}"
    else none
  let o2 : Option String :=
    if via = "r" ∧ c ≠ "none" then
      match parseSess c with
      | some (fab, p, cats, _) =>
        match preC.find? (fun r => r.fab == fab && r.peer == p) with
        | none => some s!"controller resumed a session but held no record for that peer: {out}"
        | some r => if r.cats ≠ cats then some s!"controller: resumed session CATs differ from the record's: {out}" else none
      | none => none
    else none
  -- ids that are new in a cache are fresh: never seen before in this case
  let newIds := ((postC ++ postD).filter fun r => !((preC ++ preD).any fun q => q.rid == r.rid)).map (·.rid)
  let o3 : Option String :=
    match st.maxName with
    | some mx => if newIds.any (fun i => i ≤ mx) then some s!"a new resumption id is not fresh: {out}" else none
    | none => none
  -- both ends resumed: same new id, the old secret
  let o4 : Option String :=
    if via = "r" ∧ c ≠ "none" ∧ d ≠ "none" then
      match parseSess c, parseSess d with
      | some (fc, pc, _, lc), some (fd, pd, _, _) =>
        match postC.find? (fun r => r.fab == fc && r.peer == pc), postD.find? (fun r => r.fab == fd && r.peer == pd),
              preC.find? (fun r => r.fab == fc && r.peer == pc) with
        | some a, some b, some a0 =>
          if pd ≠ lc then none
          else if a.rid ≠ b.rid then some s!"after a resumption the two caches hold different resumption ids: {out}"
          else if a.sec ≠ b.sec ∨ a.sec ≠ a0.sec then some s!"a resumption changed the shared secret of the record: {out}"
          else if a.rid = a0.rid then some s!"a resumption did not rotate the resumption id: {out}"
          else none
        | _, _, _ => some s!"after a resumption a cache lacks the record: {out}"
      | _, _ => none
    else none
  o1 <|> o2 <|> o3 <|> o4

/-- the implementation's cache as model records: byte strings become atoms named after them, so
that exactly the reported equalities hold -/
def translate (cs : List CRec) : List ResRec :=
  cs.map fun r => { fabIdx := r.fab, peerNode := r.peer, cats := r.cats, rid := .atom (800000 + r.rid),
                    secret := .atom (810000 + r.sec) }

def maxNameOf (mx : Option Nat) (cs : List CRec) : Option Nat :=
  cs.foldl (fun acc r =>
    let m := max r.rid r.sec
    match acc with
    | some a => some (max a m)
    | none => some m) mx

/-! ### the `cache` stream: the real `ResumableSessions` against `Model/CaseCache.lean` -/

def showRec (r : ResRec) : String :=
  let n (t : Term) : Nat := match t with | .atom k => k | _ => 0
  s!"{r.fabIdx}:{r.peerNode}:{r.cats.headD 0}:{n r.rid}:{n r.secret}"

def nums (s : String) : List Nat := (s.splitOn ".").filterMap String.toNat?

/-- runs the op string on the model; `impl` = the implementation's answer tokens (needed for the
capacity and for how much of a truncated blob it still parsed) -/
def runCacheOps (ops : List String) (impl : List String) : String × Option String :=
  let cap := ((impl.head?.map fun s => (s.drop 3).toString).bind String.toNat?).getD capDefault
  let rec go (ops : List String) (impl : List String) (c : Cache) (acc : List String) (ora : Option String) :
      List String × Cache × Option String :=
    match ops with
    | [] => (acc, c, ora)
    | op :: rest =>
      let v := nums (op.drop 1).toString
      let g (i : Nat) : Nat := v.getD i 0
      match op.front with
      | 'i' =>
        let r : ResRec := { fabIdx := max (g 0) 1, peerNode := g 1, cats := [g 2], rid := .atom (g 3), secret := .atom (g 4) }
        go rest impl (c.insertOrUpdate cap r) acc ora
      | 'r' => go rest (impl.drop 1) c (acc ++ [((c.findByRid (.atom (g 0))).map showRec).getD "none"]) ora
      | 'p' => go rest (impl.drop 1) c (acc ++ [((c.findByPeer (max (g 0) 1) (g 1)).map showRec).getD "none"]) ora
      | 'f' => go rest impl (c.removeForFabric (max (g 0) 1)) acc ora
      | 'x' => go rest impl (c.removeByPeer (max (g 0) 1) (g 1)) acc ora
      | 's' =>
        let c' := Cache.load cap (some c.store)
        go rest (impl.drop 1) c' (acc ++ [s!"loaded{c'.length}kv1"]) ora
      | 't' =>
        -- a truncated blob: whatever the implementation still loads must be a prefix of what was stored
        let tok := impl.headD ""
        let k := (((tok.drop 6).toString.splitOn "kv").headD "").toNat?.getD 0
        let ora' := if k ≤ c.length then ora else some s!"loaded more records ({k}) than were stored ({c.length})"
        go rest (impl.drop 1) (c.take k) (acc ++ [tok]) ora'
      | _ => go rest (impl.drop 1) c (acc ++ ["bad"]) ora
  let (acc, c, ora) := go ops (impl.drop 1) [] [s!"cap{cap}"] none
  let content := if c.isEmpty then "-" else "+".intercalate (c.map showRec)
  (s!"{" ".intercalate acc} | {content}", ora)

def parseMut (s : String) : Option (String × String × Nat) :=
  match s.splitOn ":" with
  | m :: k :: rest => some (m, k, ((rest.head?).bind String.toNat?).getD 0)
  | _ => none

/-- the changes of a mutation the model can follow: a bit flip in a field and a value from a
handshake of other nodes both put a value nobody computed into the field -/
def predictableMuts (mu : Option (String × String × Nat)) : Option (List (String × Nat)) :=
  match mu with
  | none => some []
  | some (m, "f", a) => some [(m, a)]
  | some (m, "y", a) => some [(m, a)]
  | some (m, "Y", _) => some [(m, 6), (m, 7)]
  -- a forged success report in the place of a status report
  | some ("st", "S", _) => some [("st", 99)]
  -- one VALID value in the place of another: handled by `validSubst`
  | some (_, "d", _) => some []
  | some (_, "q", _) => some []
  | some (_, "e", _) => some []
  | _ => none

def step (st : St) (line : String) : St × String :=
  let (op, out) := splitArrow line
  let toks := words op
  match toks with
  | "case" :: _ => ({}, "case")
  | "cache" :: spec :: _ =>
    let implToks := words ((out.splitOn " | ").headD "")
    let (want, ora) := runCacheOps ((spec.splitOn ";").filter (· ≠ "")) implToks
    match ora with
    | some w => (st, s!"ORA {w}")
    | none => if want = out then (st, "ok") else (st, s!"DIS {want}")
  | "foreign" :: _ => if out = "foreign resumed" then (st, "ok") else (st, "DIS foreign resumed")
  | "fab2" :: rest =>
    let rec? (k : String) : Option Cert := (Driver.C19.kv k rest).bind Driver.C19.parseRec
    let orec (k : String) : Option Cert :=
      match Driver.C19.kv k rest with
      | some "-" => none
      | some v => Driver.C19.parseRec v
      | none => none
    if out.startsWith "fabric:" then (st, "ok") else
    match rec? "root", rec? "cnoc", rec? "dnoc" with
    | some root, some cnoc, some dnoc =>
      let key (k : String) : Option Nat := (Driver.C19.kv k rest).bind String.toNat?
      let f2 (f : Fabric) : Fabric := { f with ipk := .atom 78 }
      let st' := { st with ctl2 := some (f2 (mkFabric 2 root cnoc (orec "cicac") (key "ckey"))),
                           dev2 := some (f2 (mkFabric 2 root dnoc (orec "dicac") (key "dkey"))),
                           peer2 := (nodeIdOf dnoc.subject).getD 0 }
      if out = "joined cidx=2 didx=2" then (st', "ok") else (st', "DIS joined cidx=2 didx=2")
    | _, _, _ => (st, "BAD fab2")
  | "rmfab" :: _ =>
    let dc := (parseCache (field out "dc")).getD []
    let st' := { st with dev := none, cacheR := Cache.removeForFabric st.cacheR 1, implDc := field out "dc" }
    if ¬ out.startsWith "removed" then (st', "DIS removed")
    else if dc.any (fun r => r.fab == 1) then
      (st', s!"ORA the device removed fabric 1 but still holds a resumption record of it: {out}")
    else if shapeOf dc ≠ modelShape st'.cacheR then (st', s!"DIS removed dc-shape differs")
    else (st', "ok")
  | "addfab" :: rest =>
    let rec? (k : String) : Option Cert := (Driver.C19.kv k rest).bind Driver.C19.parseRec
    let orec (k : String) : Option Cert :=
      match Driver.C19.kv k rest with
      | some "-" => none
      | some v => Driver.C19.parseRec v
      | none => none
    if out.startsWith "fabric:" then (st, "ok") else
    match rec? "root", rec? "dnoc" with
    | some root, some dnoc =>
      let key := (Driver.C19.kv "dkey" rest).bind String.toNat?
      let st' := { st with dev := some (mkFabric 1 root dnoc (orec "dicac") key), implDc := field out "dc" }
      if out.startsWith "added idx=1" then (st', "ok") else (st', "DIS added idx=1")
    | _, _ => (st, "BAD addfab")
  | kind :: rest =>
    if out.startsWith "fabric:" ∨ out = "nostate" ∨ out = "bad" then (st, "ok") else
    let st : St :=
      if kind = "hs" then
        let rec? (k : String) : Option Cert := (Driver.C19.kv k rest).bind Driver.C19.parseRec
        let orec (k : String) : Option Cert :=
          match Driver.C19.kv k rest with
          | some "-" => none
          | some v => Driver.C19.parseRec v
          | none => none
        match rec? "root", rec? "cnoc", rec? "dnoc" with
        | some root, some cnoc, some dnoc =>
          let droot := (rec? "droot").getD root
          let key (k : String) : Option Nat := (Driver.C19.kv k rest).bind String.toNat?
          -- a dishonest peer keeps the identity it was installed with and presents other credentials
          let present (f : Fabric) (pn : Option Cert) (pi : Option Cert) (k : Option Nat) : Fabric :=
            match pn with
            | some n => { f with noc := n, icac := pi, opKey := k.getD n.pubKey }
            | none => f
          { ctl := some (present (mkFabric 1 root cnoc (orec "cicac") (key "ckey")) (rec? "cpnoc") (orec "cpicac") (key "ckey")),
            dev := some (present (mkFabric 1 droot dnoc (orec "dicac") (key "dkey")) (rec? "dpnoc") (orec "dpicac") (key "dkey")),
            peer := (nodeIdOf dnoc.subject).getD 0, n := 0 }
        | _, _, _ => {}
      else st
    let fab := ((Driver.C19.kv "fab" rest).bind String.toNat?).getD 1
    let ctlOf (k : Nat) : Option Fabric := if k = 1 then st.ctl else if k = 2 then st.ctl2 else none
    let devOf (k : Nat) : Option Fabric := if k = 1 then st.dev else if k = 2 then st.dev2 else none
    let peerOf (k : Nat) : Nat := if k = 2 then st.peer2 else st.peer
    match ctlOf fab, Driver.C19.parseTime (field out "t") with
    | some cf, some t =>
      let mu := (Driver.C19.kv "mut" rest).bind parseMut
      let sched := Driver.C19.kv "sched" rest
      let raced := (words out).contains "raced"
      let gapped := (words out).contains "gapped"
      let gap := Driver.C19.kv "gap" rest
      let ora := oracle t cf ctlOf devOf (st.dev.isSome || st.dev2.isSome) out
      let preC := (parseCache st.implCc).getD []
      let preD := (parseCache st.implDc).getD []
      let postC := (parseCache (field out "cc")).getD []
      let postD := (parseCache (field out "dc")).getD []
      let ora := ora <|> oracleResume st out preC preD postC postD
      -- a VALID value of another fabric / record put in the place of the own one
      let validSubst (m : Msg) : Msg :=
        match mu, m with
        | some ("s1", k, a), .sigma1 r sd d e res =>
          let other := if k = "q" then (if fab = 2 then 1 else 2) else a
          let d' := if k = "q" then d else
            match ctlOf other with
            | some f => destId f.ipk r f.root.pubKey f.fabricId (peerOf other)
            | none => d
          let res' := if k = "d" then res else
            match st.cacheR.find? (fun x => x.fabIdx == other), res with
            | some x, some (_, mc) => some (x.rid, mc)
            | _, _ => res
          if k = "d" ∨ k = "q" ∨ k = "e" then .sigma1 r sd d' e res' else m
        | _, _ => m
      -- model prediction: unmutated runs and single-field changes on a perfect network
      let pm := if sched.isNone ∧ ¬ raced then predictableMuts mu else none
      let predictable : Bool := pm.isSome
      let (o, st', gapT) := runHs t st cf ([st.dev, st.dev2].filterMap id) (peerOf fab) (pm.getD []) validSubst gap
      -- the RemoveFabric state changes ran on the device during this handshake
      let st' := if raced then { st' with dev := none } else st'
      let st' := if gapped then { st' with dev := none, cacheR := Cache.removeForFabric st'.cacheR 1 } else st'
      let raced := raced || gapped
      let ora := ora <|> (if raced ∧ field out "dev" ≠ "none" then
          some s!"the device holds a session of a fabric that was removed while the handshake was in flight: {out}" else none)
      let ora := ora <|> (if raced ∧ ((parseCache (field out "dc")).getD []).any (fun r => r.fab == 1) then
          some s!"a resumption record of a fabric removed during the handshake is (back) in the device's cache: {out}" else none)
      -- `gap=i`: the same state changes ran on the CONTROLLER (initiator) while it awaited the acknowledgement of
      -- SigmaFinished: its cache must not hold a record of the removed fabric afterwards (C07: no resumption record
      -- refers to a removed fabric), nor its session table a session of it
      let igapped := (words out).contains "igapped"
      let ora := ora <|> (if igapped ∧ ((parseCache (field out "cc")).getD []).any (fun r => r.fab == fab) then
          some s!"a resumption record of a fabric removed during the handshake is (back) in the controller's cache: {out}" else none)
      let ora := ora <|> (if igapped ∧ field out "ctl" ≠ "none" then
          some s!"the controller holds a session of a fabric that was removed while the handshake was in flight: {out}" else none)
      -- `st'` = the model's state after the run (compared below when the run is predictable);
      -- afterwards the model continues from the caches the implementation reports (named byte
      -- strings become atoms), so that it can follow runs it could not predict
      let stNext := { st' with implCc := field out "cc", implDc := field out "dc",
                               maxName := maxNameOf (maxNameOf st.maxName postC) postD }
      let resync (s : St) : St := { s with cacheI := translate postC, cacheR := translate postD }
      match ora with
      | some w => (resync stNext, s!"ORA {w}")
      | none =>
        if predictable then
          let want := fmtOutcome o ++ (if gapT then " gapped" else "")
          let got := s!"ctl={field out "ctl"} dev={field out "dev"} keys={field out "keys"} via={field out "via"}" ++
            (if gapped then " gapped" else "")
          if want ≠ got then (resync stNext, s!"DIS {want}")
          else if shapeOf postC ≠ modelShape stNext.cacheI ∨ shapeOf postD ≠ modelShape stNext.cacheR then
            (resync stNext, s!"DIS cache shapes cc={modelShape stNext.cacheI} dc={modelShape stNext.cacheR}")
          else if pattern ((postC ++ postD).map (·.rid)) ≠ pattern ((stNext.cacheI ++ stNext.cacheR).map (·.rid)) ∨
              pattern ((postC ++ postD).map (·.sec)) ≠ pattern ((stNext.cacheI ++ stNext.cacheR).map (·.secret)) then
            (resync stNext, "DIS resumption-id / shared-secret equalities between the caches differ")
          else (resync stNext, "ok")
        else (resync stNext, "ok")
    | _, _ => (st, "BAD setup")
  | _ => (st, "BAD op")

def run : IO UInt32 := Driver.runLoop ({} : St) step

end Driver.C01
