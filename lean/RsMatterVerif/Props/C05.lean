import RsMatterVerif.Lemmas.Acl
/-!
# C05 — access is granted exactly when the Matter access-control algorithm grants it

`Acl.allow` etc. are the transliterated code (`Model/Acl.lean`, first half); `Acl.Granted`,
`Acl.Reaches` are the specification written from the property text (second half of that file).
Hypotheses used below:
* `WF fabrics` — distinct fabric indices, every entry stamped with its fabric's index, distinct group
  ids per fabric; `wf_*` show that the configuration operations of the API preserve it;
* `CanonicalPrivs fabrics` — stored privileges are the five privileges of the cluster
  (what `From<AccessControlEntryPrivilegeEnum>` produces);
* `ReadOrWrite req` — the operation is `READ` or `WRITE` (what `check_attr_access`,
  `check_cmd_access`, `check_event_access` pass).
-/
namespace C05
open Acl

/-- **C05, main theorem.** For every well-formed configuration and every read / write request,
the access decision of the code is exactly the specification. -/
theorem allow_iff_granted (fabrics : List Fabric) (req : AccessReq)
    (hwf : WF fabrics) (hc : CanonicalPrivs fabrics) (hop : ReadOrWrite req) :
    allow fabrics req = true ↔ Granted fabrics req := by
  unfold allow fabricsAllow allowGroupcastAuxiliary Granted
  by_cases hp : req.accessor.authMode = some AuthMode.pase
  · simp [hp]
  · have hp' : (req.accessor.authMode == some AuthMode.pase) = false := by simp [hp]
    rw [hp']
    simp only [Bool.false_eq_true, if_false, hp, false_or]
    by_cases h0 : req.accessor.fabIdx = 0
    · simp [h0]
    · have h0' : (req.accessor.fabIdx == 0) = false := by simp [h0]
      rw [h0']
      simp only [Bool.false_eq_true, if_false]
      cases hg : fabricsGet fabrics req.accessor.fabIdx with
      | none =>
        have hn := fabricsGet_none hg
        simp only [Bool.or_eq_true]
        constructor
        · intro h
          rcases h with h | h
          · cases h
          · split at h
            · cases h
            · split at h <;> cases h
        · rintro ⟨f, hf, hi, _⟩; exact absurd hi (hn f hf)
      | some f =>
        obtain ⟨hf, hi⟩ := fabricsGet_some_mem hg
        have hfa := fabricAllow_iff f req (hwf.stamped f hf) hi (hc f hf) hop
        have haux := auxGranted_iff f req hop
        constructor
        · intro h
          refine ⟨f, hf, hi, h0, ?_⟩
          rcases (Bool.or_eq_true _ _).mp h with h | h
          · exact Or.inl (hfa.mp h)
          · right
            apply haux.mp
            by_cases ha : req.accessor.auxAclEnabled = true
            · by_cases hm : req.accessor.authMode = some AuthMode.group
              · simp [ha, hm] at h; exact ⟨ha, hm, h⟩
              · simp [ha, hm] at h
            · simp [ha] at h
        · rintro ⟨f', hf', hi', _, h⟩
          have : f' = f := nodup_idx_unique hwf.distinct hf' hf (hi'.trans hi.symm)
          subst this
          rcases h with h | h
          · simp [hfa.mpr h]
          · obtain ⟨ha, hm, hg⟩ := haux.mpr h
            simp [ha, hm, hg]

/-! ## the executable specification used by the driver -/

theorem privOkB_iff (pb : Nat) (o : AccessDesc) : privOkB pb o = true ↔ PrivOk pb o := by
  unfold privOkB PrivOk
  cases h1 : o.targetPerms with
  | none => simp
  | some decl =>
    cases h2 : opOfBits o.operation with
    | none => simp
    | some op =>
      cases h3 : privOfBits pb with
      | none => simp
      | some p =>
        cases h4 : requiredPriv decl op with
        | none => simp [h4]
        | some q => simp [h4]

theorem auxRootExcludedB_iff (e : Entry) (req : AccessReq) :
    auxRootExcludedB e req = true ↔ AuxRootExcluded e req := by
  unfold auxRootExcludedB AuxRootExcluded
  cases h : e.targets with
  | none => simp [and_assoc]
  | some ts => cases ts <;> simp [and_assoc]

theorem entryGrantsB_iff (e : Entry) (req : AccessReq) : entryGrantsB e req = true ↔ EntryGrants e req := by
  unfold entryGrantsB EntryGrants
  simp only [Bool.and_eq_true, decide_eq_true_iff, subjectsOkB_iff, targetsOkB_iff, privOkB_iff,
    Bool.not_eq_true', ← Bool.not_eq_true, auxRootExcludedB_iff, and_assoc]

theorem auxGrantsB_iff (f : Fabric) (req : AccessReq) : auxGrantsB f req = true ↔ AuxGrants f req := by
  unfold auxGrantsB AuxGrants
  simp only [Bool.and_eq_true, decide_eq_true_iff, List.any_eq_true, subjectMatchB_iff, privOkB_iff, and_assoc]
  refine and_congr Iff.rfl (and_congr Iff.rfl ?_)
  constructor
  · rintro ⟨g, hg, h1, h2, h3, h4⟩
    refine ⟨g, hg, h1, ?_, h3, h4⟩
    cases hep : req.object.path.endpoint with
    | none => simp [hep] at h2
    | some ep => simp [hep] at h2; exact ⟨ep, rfl, h2⟩
  · rintro ⟨g, hg, h1, ⟨ep, hep, h2⟩, h3, h4⟩
    refine ⟨g, hg, h1, ?_, h3, h4⟩
    simp [hep, h2]

/-- the executable specification the driver evaluates is the specification -/
theorem grantedB_iff (fabrics : List Fabric) (req : AccessReq) :
    grantedB fabrics req = true ↔ Granted fabrics req := by
  unfold grantedB Granted
  simp only [Bool.or_eq_true, Bool.and_eq_true, decide_eq_true_iff, List.any_eq_true, entryGrantsB_iff,
    auxGrantsB_iff, and_assoc]

theorem reachesB_iff (fabrics : List Fabric) (a : Accessor) (ep : Nat) :
    reachesB fabrics a ep = true ↔ Reaches fabrics a ep := by
  unfold reachesB Reaches
  simp only [Bool.or_eq_true, Bool.and_eq_true, decide_eq_true_iff, List.any_eq_true,
    List.contains_eq_mem, and_assoc]


/-! ## `Access::is_ok` and the privilege lattice -/

/-- `Access::is_ok(decl, op, p)` holds exactly when the declaration offers the operation and the
entry's privilege includes the least privilege the declaration names for it. -/
theorem is_ok_iff_level (decl : Nat) (op : Op) (p : Priv) :
    isOk decl op.bits p.bits = true ↔
      declOffers decl op = true ∧ ∃ q, requiredPriv decl op = some q ∧ p.includes q = true := by
  rw [isOk_eq_spec]
  unfold privSpecB
  cases h : requiredPriv decl op with
  | none => simp
  | some q => simp

theorem requiredPriv_ne_proxyView (decl : Nat) (op : Op) : requiredPriv decl op ≠ some Priv.proxyView := by
  unfold requiredPriv
  cases op <;> simp only <;> (repeat' split) <;> simp

/-- an entry carrying ProxyView authorises no read and no write of any element -/
theorem proxy_view_grants_nothing (decl : Nat) (op : Op) :
    isOk decl op.bits Priv.proxyView.bits = false := by
  rw [Bool.eq_false_iff]
  intro h
  obtain ⟨_, q, hq, hi⟩ := (is_ok_iff_level decl op Priv.proxyView).mp h
  cases q <;> first | exact absurd hq (requiredPriv_ne_proxyView decl op) | cases hi

/-! ## fabric separation -/

/-- An entry stamped with another fabric's index matches no accessor (no hypotheses). -/
theorem other_fabric_never_grants (e : Entry) (req : AccessReq) (aux : Bool)
    (h : e.fabIdx ≠ some req.accessor.fabIdx) : entryAllow e req aux = false := by
  unfold entryAllow matchAccessor
  split
  · rfl
  · cases hf : e.fabIdx with
    | none => simp
    | some i =>
      have : i ≠ req.accessor.fabIdx := fun hh => h (by rw [hf, hh])
      simp [this]

/-- The decision depends only on the fabric with the accessor's index: whatever other fabrics
exist, whatever their entries say, the specification gives the same answer. -/
theorem granted_depends_only_on_own_fabric (fabrics fabrics' : List Fabric) (req : AccessReq)
    (h : ∀ f, f.fabIdx = req.accessor.fabIdx → (f ∈ fabrics ↔ f ∈ fabrics')) :
    Granted fabrics req ↔ Granted fabrics' req := by
  unfold Granted
  refine or_congr Iff.rfl ?_
  constructor
  · rintro ⟨f, hf, hi, r⟩; exact ⟨f, (h f hi).mp hf, hi, r⟩
  · rintro ⟨f, hf, hi, r⟩; exact ⟨f, (h f hi).mpr hf, hi, r⟩

theorem allow_depends_only_on_own_fabric (fabrics fabrics' : List Fabric) (req : AccessReq)
    (hwf : WF fabrics) (hc : CanonicalPrivs fabrics) (hwf' : WF fabrics') (hc' : CanonicalPrivs fabrics')
    (hop : ReadOrWrite req)
    (h : ∀ f, f.fabIdx = req.accessor.fabIdx → (f ∈ fabrics ↔ f ∈ fabrics')) :
    allow fabrics req = allow fabrics' req := by
  have := granted_depends_only_on_own_fabric fabrics fabrics' req h
  rw [← allow_iff_granted fabrics req hwf hc hop, ← allow_iff_granted fabrics' req hwf' hc' hop] at this
  cases h1 : allow fabrics req <;> cases h2 : allow fabrics' req <;> simp_all

/-- an accessor whose fabric does not exist is denied (unless it is the PASE commissioner) -/
theorem missing_fabric_denied (fabrics : List Fabric) (req : AccessReq)
    (hm : ∀ f ∈ fabrics, f.fabIdx ≠ req.accessor.fabIdx)
    (hp : req.accessor.authMode ≠ some AuthMode.pase) : allow fabrics req = false := by
  have hg : fabricsGet fabrics req.accessor.fabIdx = none := by
    unfold fabricsGet
    rw [List.find?_eq_none]
    intro f hf; simpa using hm f hf
  unfold allow fabricsAllow allowGroupcastAuxiliary
  simp only [hg]
  have : (req.accessor.authMode == some AuthMode.pase) = false := by simp [hp]
  simp [this]

/-- fabric index 0 (no fabric) is denied unless the accessor is the PASE commissioner -/
theorem fabric_zero_denied_unless_pase (fabrics : List Fabric) (req : AccessReq)
    (h0 : req.accessor.fabIdx = 0) :
    allow fabrics req = true ↔ req.accessor.authMode = some AuthMode.pase := by
  unfold allow fabricsAllow allowGroupcastAuxiliary
  by_cases hp : req.accessor.authMode = some AuthMode.pase
  · simp [hp]
  · have : (req.accessor.authMode == some AuthMode.pase) = false := by simp [hp]
    simp [this, h0, hp]

/-- the PASE commissioner is always granted -/
theorem pase_always_granted (fabrics : List Fabric) (req : AccessReq)
    (hp : req.accessor.authMode = some AuthMode.pase) : allow fabrics req = true := by
  unfold allow fabricsAllow; simp [hp]

/-! ## null = empty -/

theorem empty_eq_null_subjects (e : Entry) (req : AccessReq) (aux : Bool) :
    entryAllow { e with subjects := some [] } req aux = entryAllow { e with subjects := none } req aux := by
  unfold entryAllow matchAccessor subjectsAllow matchAccessDesc targetsWildcard targetsAllow
  simp

theorem empty_eq_null_targets (e : Entry) (req : AccessReq) (aux : Bool) :
    entryAllow { e with targets := some [] } req aux = entryAllow { e with targets := none } req aux := by
  unfold entryAllow matchAccessor subjectsAllow matchAccessDesc targetsWildcard targetsAllow
  simp


/-! ## the privilege lattice: raising an entry's privilege never loses access -/

theorem privOfBits_bits (p : Priv) : privOfBits p.bits = some p := by cases p <;> decide

theorem includes_trans {a b c : Priv} (h1 : a.includes b = true) (h2 : b.includes c = true) :
    a.includes c = true := by
  cases a <;> cases b <;> cases c <;> simp_all [Priv.includes]

theorem includes_refl (p : Priv) : p.includes p = true := by cases p <;> rfl

/-- Administer includes every privilege an element can require -/
theorem administer_includes (q : Priv) (hq : q ≠ .proxyView) : Priv.administer.includes q = true := by
  cases q <;> simp_all [Priv.includes]

/-- an entry whose privilege is raised along the lattice (`p'` includes `p`) still satisfies the
privilege clause of the specification -/
theorem privOk_mono (p p' : Priv) (o : AccessDesc) (hinc : p'.includes p = true)
    (h : PrivOk p.bits o) : PrivOk p'.bits o := by
  obtain ⟨decl, op, p0, q, h1, h2, h3, h4, h5, h6⟩ := h
  rw [privOfBits_bits] at h3
  injection h3 with h3
  subst h3
  exact ⟨decl, op, p', q, h1, h2, privOfBits_bits p', h4, h5, includes_trans hinc h6⟩

/-- **Raising the privilege of an entry never loses access** (specification): whatever the entry
granted with privilege `p` it grants with any `p'` that includes `p` — in particular an Administer
entry grants whatever the same entry would grant with Manage, Operate or View. -/
theorem entry_privilege_monotone_spec (e : Entry) (req : AccessReq) (p p' : Priv)
    (hp : e.privilege = p.bits) (hinc : p'.includes p = true) (h : EntryGrants e req) :
    EntryGrants { e with privilege := p'.bits } req := by
  obtain ⟨hm, hs, ht, hpo, hx⟩ := h
  rw [hp] at hpo
  exact ⟨hm, hs, ht, privOk_mono p p' _ hinc hpo, hx⟩

/-- … and so does the code: with the entry's privilege raised the fabric still allows the request -/
theorem entry_privilege_monotone (f : Fabric) (req : AccessReq) (e : Entry) (p p' : Priv)
    (hst : ∀ x ∈ f.acl, x.fabIdx = some f.fabIdx) (hidx : f.fabIdx = req.accessor.fabIdx)
    (hc : ∀ x ∈ f.acl, ∃ q : Priv, x.privilege = q.bits) (hop : ReadOrWrite req)
    (he : e ∈ f.acl) (hp : e.privilege = p.bits) (hinc : p'.includes p = true)
    (h : entryAllow e req req.accessor.auxAclEnabled = true) :
    fabricAllow { f with acl := f.acl.map (fun x => if x = e then { e with privilege := p'.bits } else x) } req
      req.accessor.auxAclEnabled = true := by
  have hg : EntryGrants e req := by
    have h1 : ∀ x ∈ ({ f with acl := [e] } : Fabric).acl, x.fabIdx = some ({ f with acl := [e] } : Fabric).fabIdx := by
      intro x hx
      have : x = e := by simpa using hx
      rw [this]; exact hst e he
    have h2 : ∀ x ∈ ({ f with acl := [e] } : Fabric).acl, ∃ q : Priv, x.privilege = q.bits := by
      intro x hx
      have : x = e := by simpa using hx
      rw [this]; exact hc e he
    obtain ⟨x, hx, hxg⟩ := (fabricAllow_iff { f with acl := [e] } req h1 hidx h2 hop).mp (by simp [fabricAllow, h])
    have : x = e := by simpa using hx
    rw [this] at hxg
    exact hxg
  have h1 : ∀ x ∈ ({ f with acl := f.acl.map (fun x => if x = e then { e with privilege := p'.bits } else x) } : Fabric).acl,
      x.fabIdx = some f.fabIdx := by
    intro x hx
    simp only [List.mem_map] at hx
    obtain ⟨y, hy, rfl⟩ := hx
    split
    · exact hst e he
    · exact hst y hy
  have h2 : ∀ x ∈ ({ f with acl := f.acl.map (fun x => if x = e then { e with privilege := p'.bits } else x) } : Fabric).acl,
      ∃ q : Priv, x.privilege = q.bits := by
    intro x hx
    simp only [List.mem_map] at hx
    obtain ⟨y, hy, rfl⟩ := hx
    split
    · exact ⟨p', rfl⟩
    · exact hc y hy
  refine (fabricAllow_iff _ req h1 hidx h2 hop).mpr
    ⟨{ e with privilege := p'.bits }, ?_, entry_privilege_monotone_spec e req p p' hp hinc hg⟩
  simp only [List.mem_map]
  exact ⟨e, he, by simp⟩

/-- hypotheses of the monotonicity theorems are satisfiable: Manage includes Operate, and an entry
with a canonical privilege exists in every configuration built through the API -/
example : Priv.manage.includes .operate = true ∧ Priv.administer.includes .manage = true ∧
    Priv.view.includes .operate = false ∧ Priv.proxyView.includes .view = false := by decide

/-! ## CAT version monotonicity -/

/-- the accessor with tag `v` replaced by `v'` -/
def withTag (a : Accessor) (v v' : Nat) : Accessor :=
  { a with subjects := a.subjects.map (fun x => if x = v then v' else x) }

theorem subjectMatch_mono (a : Accessor) (v v' s : Nat)
    (hv : IsCat v) (hv' : IsCat v') (hid : catId v = catId v') (hver : catVersion v ≤ catVersion v')
    (h : SubjectMatch a s) : SubjectMatch (withTag a v v') s := by
  obtain ⟨x, hx, hx0, hm⟩ := h
  have hv'0 : v' ≠ 0 := by
    intro h0; rw [h0] at hv'; exact hv'.2 (by decide)
  by_cases hxv : x = v
  · subst hxv
    refine ⟨v', ?_, hv'0, ?_⟩
    · unfold withTag; simp only [List.mem_map]; exact ⟨x, hx, by simp⟩
    · rcases hm with rfl | ⟨_, hs, hi, hle⟩
      · by_cases he : v' = x
        · exact Or.inl he
        · exact Or.inr ⟨hv', hv, hid.symm, hver⟩
      · exact Or.inr ⟨hv', hs, hid ▸ hi, Nat.le_trans hle hver⟩
  · refine ⟨x, ?_, hx0, hm⟩
    unfold withTag; simp only [List.mem_map]; exact ⟨x, hx, by simp [hxv]⟩

/-- Raising the version of one of the accessor's tags (same identifier) never loses access:
whatever the specification granted before is still granted. -/
theorem cat_version_monotone_spec (fabrics : List Fabric) (req : AccessReq) (v v' : Nat)
    (hv : IsCat v) (hv' : IsCat v') (hid : catId v = catId v') (hver : catVersion v ≤ catVersion v')
    (h : Granted fabrics req) :
    Granted fabrics { req with accessor := withTag req.accessor v v' } := by
  rcases h with h | ⟨f, hf, hi, h0, h⟩
  · exact Or.inl h
  · refine Or.inr ⟨f, hf, hi, h0, ?_⟩
    rcases h with ⟨e, he, hm, hs, ht, hp, hx⟩ | ⟨ha, hm, g, hg, h1, h2, h3, h4⟩
    · refine Or.inl ⟨e, he, hm, ?_, ht, hp, hx⟩
      rcases hs with hs | hs | ⟨ss, hss, s, hsm, hs⟩
      · exact Or.inl hs
      · exact Or.inr (Or.inl hs)
      · exact Or.inr (Or.inr ⟨ss, hss, s, hsm, subjectMatch_mono _ v v' s hv hv' hid hver hs⟩)
    · exact Or.inr ⟨ha, hm, g, hg, h1, h2, subjectMatch_mono _ v v' _ hv hv' hid hver h3, h4⟩

theorem cat_version_monotone (fabrics : List Fabric) (req : AccessReq) (v v' : Nat)
    (hwf : WF fabrics) (hc : CanonicalPrivs fabrics) (hop : ReadOrWrite req)
    (hv : IsCat v) (hv' : IsCat v') (hid : catId v = catId v') (hver : catVersion v ≤ catVersion v')
    (h : allow fabrics req = true) :
    allow fabrics { req with accessor := withTag req.accessor v v' } = true := by
  have hg := (allow_iff_granted fabrics req hwf hc hop).mp h
  exact (allow_iff_granted fabrics { req with accessor := withTag req.accessor v v' } hwf hc hop).mpr
    (cat_version_monotone_spec fabrics req v v' hv hv' hid hver hg)

/-- a lower version than the entry asks for does not match that entry's tag -/
theorem cat_lower_version_no_match (v s : Nat) (hne : v ≠ s) (hlt : catVersion v < catVersion s) :
    slotMatches v s = false := by
  rw [Bool.eq_false_iff, Ne, slotMatches_iff]
  rintro ⟨_, h | ⟨_, _, _, hle⟩⟩
  · exact hne h
  · omega

/-! ## group accessors -/

theorem groupsGet_some_mem {gs : List GroupMapping} {i : Nat} {g : GroupMapping}
    (h : groupsGet gs i = some g) : g ∈ gs ∧ g.groupId = i := by
  unfold groupsGet at h
  have h1 := List.mem_of_find?_eq_some h
  have h2 := List.find?_some h
  simp at h2
  exact ⟨h1, h2⟩

theorem nodup_gid_unique {gs : List GroupMapping} (hd : (gs.map (·.groupId)).Nodup)
    {f g : GroupMapping} (hf : f ∈ gs) (hg : g ∈ gs) (h : f.groupId = g.groupId) : f = g := by
  induction gs with
  | nil => cases hf
  | cons x xs ih =>
    simp only [List.map_cons, List.nodup_cons, List.mem_map, not_exists, not_and] at hd
    rcases List.mem_cons.mp hf with rfl | hf'
    · rcases List.mem_cons.mp hg with rfl | hg'
      · rfl
      · exact absurd h.symm (hd.1 g hg')
    · rcases List.mem_cons.mp hg with rfl | hg'
      · exact absurd h (hd.1 f hf')
      · exact ih hd.2 hf' hg'

/-- "group accessors reach only endpoints that are members of their group" — and, for well-formed
tables, exactly those. -/
theorem group_reaches_only_member_endpoints (fabrics : List Fabric) (a : Accessor) (ep : Nat)
    (hwf : WF fabrics) : isEndpointAccessible fabrics a ep = true ↔ Reaches fabrics a ep := by
  unfold isEndpointAccessible Reaches
  by_cases hm : a.authMode = some AuthMode.group
  · have : (a.authMode != some AuthMode.group) = false := by simp [hm]
    rw [this]
    simp only [Bool.false_eq_true, if_false, hm, ne_eq, not_true_eq_false, false_or]
    by_cases h0 : a.fabIdx = 0
    · simp [h0]
    · have h0' : (a.fabIdx == 0) = false := by simp [h0]
      simp only [h0', Bool.false_eq_true, if_false]
      cases hg : fabricsGet fabrics a.fabIdx with
      | none =>
        have hn := fabricsGet_none hg
        constructor
        · intro h; cases h
        · rintro ⟨f, hf, hi, _⟩; exact absurd hi (hn f hf)
      | some f =>
        obtain ⟨hf, hi⟩ := fabricsGet_some_mem hg
        simp only
        cases hgg : groupsGet f.groups (a.subjects.headD 0 % 65536) with
        | none =>
          constructor
          · intro h; cases h
          · rintro ⟨f', hf', hi', _, g, hg', hgid, _⟩
            have : f' = f := nodup_idx_unique hwf.distinct hf' hf (hi'.trans hi.symm)
            subst this
            unfold groupsGet at hgg
            rw [List.find?_eq_none] at hgg
            have := hgg g hg'
            simp [hgid] at this
        | some g =>
          obtain ⟨hgm, hgid⟩ := groupsGet_some_mem hgg
          simp only [List.contains_eq_mem, decide_eq_true_iff]
          constructor
          · intro h; exact ⟨f, hf, hi, h0, g, hgm, hgid, h⟩
          · rintro ⟨f', hf', hi', _, g', hg', hgid', hep⟩
            have : f' = f := nodup_idx_unique hwf.distinct hf' hf (hi'.trans hi.symm)
            subst this
            have : g' = g := nodup_gid_unique (hwf.groupsDistinct f' hf) hg' hgm (hgid'.trans hgid.symm)
            subst this
            exact hep
  · have : (a.authMode != some AuthMode.group) = true := by simp [hm]
    simp [this, hm]

/-- the "only" direction needs no well-formedness at all -/
theorem group_reach_implies_member (fabrics : List Fabric) (a : Accessor) (ep : Nat)
    (hm : a.authMode = some AuthMode.group) (h : isEndpointAccessible fabrics a ep = true) :
    ∃ f ∈ fabrics, f.fabIdx = a.fabIdx ∧ ∃ g ∈ f.groups,
      g.groupId = (a.subjects.headD 0) % 65536 ∧ ep ∈ g.endpoints := by
  unfold isEndpointAccessible at h
  have : (a.authMode != some AuthMode.group) = false := by simp [hm]
  simp only [this, Bool.false_eq_true, if_false] at h
  split at h
  · cases h
  · cases hg : fabricsGet fabrics a.fabIdx with
    | none => simp [hg] at h
    | some f =>
      obtain ⟨hf, hi⟩ := fabricsGet_some_mem hg
      simp only [hg] at h
      cases hgg : groupsGet f.groups (a.subjects.headD 0 % 65536) with
      | none => rw [hgg] at h; cases h
      | some g =>
        obtain ⟨hgm, hgid⟩ := groupsGet_some_mem hgg
        rw [hgg] at h
        simp only [List.contains_eq_mem, decide_eq_true_iff] at h
        exact ⟨f, hf, hi, g, hgm, hgid, h⟩


/-! ## the configuration operations preserve well-formedness -/

theorem wf_nil : WF [] := ⟨by simp, by simp, by simp⟩

theorem foldl_max_ge (l : List Nat) (a : Nat) : a ≤ l.foldl max a ∧ ∀ x ∈ l, x ≤ l.foldl max a := by
  induction l generalizing a with
  | nil => simp
  | cons y ys ih =>
    simp only [List.foldl_cons, List.mem_cons]
    obtain ⟨h1, h2⟩ := ih (max a y)
    refine ⟨by omega, ?_⟩
    rintro x (rfl | hx)
    · omega
    · exact h2 x hx

theorem nextFabIdx_fresh {fabrics : List Fabric} {i : Nat} (h : nextFabIdx fabrics = some i) :
    ∀ f ∈ fabrics, f.fabIdx ≠ i := by
  unfold nextFabIdx at h
  simp only at h
  split at h
  · injection h with h
    intro f hf
    have := (foldl_max_ge (fabrics.map (·.fabIdx)) 0).2 f.fabIdx (List.mem_map.mpr ⟨f, hf, rfl⟩)
    omega
  · have := List.find?_some h
    simp only [List.all_eq_true, bne_iff_ne, ne_eq] at this
    exact this

theorem wf_fabricsAdd {fabrics fabrics' : List Fabric} {i : Nat} (hwf : WF fabrics)
    (h : fabricsAdd fabrics = some (fabrics', i)) : WF fabrics' := by
  unfold fabricsAdd at h
  cases hn : nextFabIdx fabrics with
  | none => simp [hn] at h
  | some j =>
    simp only [hn] at h
    split at h
    · injection h with h
      injection h with h1 h2
      subst h1
      have hfresh := nextFabIdx_fresh hn
      refine ⟨?_, ?_, ?_⟩
      · rw [List.map_append, List.nodup_append]
        refine ⟨hwf.distinct, by simp, ?_⟩
        intro a ha b hb
        simp only [List.map_cons, List.map_nil, List.mem_singleton] at hb
        obtain ⟨f, hf, rfl⟩ := List.mem_map.mp ha
        rw [hb]; exact hfresh f hf
      · intro f hf
        rcases List.mem_append.mp hf with hf | hf
        · exact hwf.stamped f hf
        · simp only [List.mem_singleton] at hf; subst hf; simp
      · intro f hf
        rcases List.mem_append.mp hf with hf | hf
        · exact hwf.groupsDistinct f hf
        · simp only [List.mem_singleton] at hf; subst hf; simp
    · cases h

theorem wf_fabricsRemove {fabrics fabrics' : List Fabric} {i : Nat} (hwf : WF fabrics)
    (h : fabricsRemove fabrics i = some fabrics') : WF fabrics' := by
  unfold fabricsRemove at h
  split at h
  · cases h
  · injection h with h
    subst h
    refine ⟨?_, ?_, ?_⟩
    · exact List.Nodup.sublist (List.Sublist.map _ List.filter_sublist) hwf.distinct
    · intro f hf; exact hwf.stamped f (List.mem_filter.mp hf).1
    · intro f hf; exact hwf.groupsDistinct f (List.mem_filter.mp hf).1

theorem fabricsUpdate_map (fabrics : List Fabric) (i : Nat) (g : Fabric → Fabric)
    (hg : ∀ f ∈ fabrics, f.fabIdx = i → (g f).fabIdx = i) :
    (fabricsUpdate fabrics i g).map (·.fabIdx) = fabrics.map (·.fabIdx) := by
  induction fabrics with
  | nil => rfl
  | cons x xs ih =>
    unfold fabricsUpdate
    by_cases hx : x.fabIdx = i
    · have : (x.fabIdx == i) = true := by simp [hx]
      simp only [this, if_true, List.map_cons]
      rw [hg x (by simp) hx, hx]
    · have : (x.fabIdx == i) = false := by simp [hx]
      simp only [this, Bool.false_eq_true, if_false, List.map_cons]
      rw [ih (fun f hf => hg f (List.mem_cons_of_mem _ hf))]

theorem mem_fabricsUpdate {fabrics : List Fabric} {i : Nat} {g : Fabric → Fabric} {f' : Fabric}
    (h : f' ∈ fabricsUpdate fabrics i g) : f' ∈ fabrics ∨ ∃ f ∈ fabrics, f.fabIdx = i ∧ f' = g f := by
  induction fabrics with
  | nil => cases h
  | cons x xs ih =>
    unfold fabricsUpdate at h
    by_cases hx : x.fabIdx = i
    · have : (x.fabIdx == i) = true := by simp [hx]
      simp only [this, if_true, List.mem_cons] at h
      rcases h with rfl | h
      · exact Or.inr ⟨x, by simp, hx, rfl⟩
      · exact Or.inl (List.mem_cons_of_mem _ h)
    · have : (x.fabIdx == i) = false := by simp [hx]
      simp only [this, Bool.false_eq_true, if_false, List.mem_cons] at h
      rcases h with rfl | h
      · exact Or.inl (by simp)
      · rcases ih h with h | ⟨f, hf, hi, he⟩
        · exact Or.inl (List.mem_cons_of_mem _ h)
        · exact Or.inr ⟨f, List.mem_cons_of_mem _ hf, hi, he⟩

/-- replacing the fabric with index `i` by a well-formed fabric with the same index -/
theorem wf_fabricsUpdate_const {fabrics : List Fabric} {i : Nat} {f' : Fabric} (hwf : WF fabrics)
    (hi : f'.fabIdx = i) (hst : ∀ e ∈ f'.acl, e.fabIdx = some f'.fabIdx)
    (hgd : (f'.groups.map (·.groupId)).Nodup) : WF (fabricsUpdate fabrics i (fun _ => f')) := by
  refine ⟨?_, ?_, ?_⟩
  · rw [fabricsUpdate_map fabrics i _ (fun _ _ _ => hi)]; exact hwf.distinct
  · intro f hf
    rcases mem_fabricsUpdate hf with h | ⟨_, _, _, rfl⟩
    · exact hwf.stamped f h
    · exact hst
  · intro f hf
    rcases mem_fabricsUpdate hf with h | ⟨_, _, _, rfl⟩
    · exact hwf.groupsDistinct f h
    · exact hgd

theorem aclAdd_some {f f' : Fabric} {e : Entry} {i : Nat} (h : f.aclAdd e = some (f', i)) :
    f'.fabIdx = f.fabIdx ∧ f'.groups = f.groups ∧ f'.acl = f.acl ++ [{ e with fabIdx := some f.fabIdx }] := by
  unfold Fabric.aclAdd at h
  split at h
  · cases h
  · split at h
    · injection h with h; injection h with h1 h2
      subst h1; exact ⟨rfl, rfl, rfl⟩
    · cases h

theorem wf_fabricsAclAdd {fabrics fabrics' : List Fabric} {fab n : Nat} {e : Entry} (hwf : WF fabrics)
    (h : fabricsAclAdd fabrics fab e = some (fabrics', n)) : WF fabrics' := by
  unfold fabricsAclAdd at h
  cases hg : fabricsGet fabrics fab with
  | none => simp [hg] at h
  | some f =>
    obtain ⟨hf, hi⟩ := fabricsGet_some_mem hg
    simp only [hg] at h
    cases ha : f.aclAdd e with
    | none => simp [ha] at h
    | some r =>
      obtain ⟨f', i⟩ := r
      simp only [ha] at h
      injection h with h; injection h with h1 h2
      subst h1
      obtain ⟨a1, a2, a3⟩ := aclAdd_some ha
      apply wf_fabricsUpdate_const hwf (a1.trans hi)
      · intro e' he'
        rw [a3] at he'
        rcases List.mem_append.mp he' with he' | he'
        · rw [a1]; exact hwf.stamped f hf e' he'
        · simp only [List.mem_singleton] at he'; subst he'; rw [a1]
      · rw [a2]; exact hwf.groupsDistinct f hf

/-- entries added through `acl_add` keep the privileges canonical if the new one is -/
theorem canonical_fabricsAclAdd {fabrics fabrics' : List Fabric} {fab n : Nat} {e : Entry}
    (hc : CanonicalPrivs fabrics) (hp : ∃ p : Priv, e.privilege = p.bits)
    (h : fabricsAclAdd fabrics fab e = some (fabrics', n)) : CanonicalPrivs fabrics' := by
  unfold fabricsAclAdd at h
  cases hg : fabricsGet fabrics fab with
  | none => simp [hg] at h
  | some f =>
    obtain ⟨hf, hi⟩ := fabricsGet_some_mem hg
    simp only [hg] at h
    cases ha : f.aclAdd e with
    | none => simp [ha] at h
    | some r =>
      obtain ⟨f', i⟩ := r
      simp only [ha] at h
      injection h with h; injection h with h1 h2
      subst h1
      obtain ⟨a1, a2, a3⟩ := aclAdd_some ha
      intro f'' hf'' e' he'
      rcases mem_fabricsUpdate hf'' with h | ⟨_, _, _, rfl⟩
      · exact hc f'' h e' he'
      · rw [a3] at he'
        rcases List.mem_append.mp he' with he' | he'
        · exact hc f hf e' he'
        · simp only [List.mem_singleton] at he'; subst he'; exact hp


/-! ## no deny rule: adding an entry never revokes access -/

theorem fabricsUpdate_keeps (fabrics : List Fabric) (i : Nat) (g : Fabric → Fabric) :
    ∀ f ∈ fabrics, f ∈ fabricsUpdate fabrics i g ∨ (f.fabIdx = i ∧ g f ∈ fabricsUpdate fabrics i g) := by
  induction fabrics with
  | nil => intro f hf; cases hf
  | cons x xs ih =>
    intro f hf
    unfold fabricsUpdate
    by_cases hx : x.fabIdx = i
    · have : (x.fabIdx == i) = true := by simp [hx]
      simp only [this, if_true, List.mem_cons]
      rcases List.mem_cons.mp hf with rfl | h
      · exact Or.inr ⟨hx, Or.inl rfl⟩
      · exact Or.inl (Or.inr h)
    · have : (x.fabIdx == i) = false := by simp [hx]
      simp only [this, Bool.false_eq_true, if_false, List.mem_cons]
      rcases List.mem_cons.mp hf with rfl | h
      · exact Or.inl (Or.inl rfl)
      · rcases ih f h with h | ⟨h1, h2⟩
        · exact Or.inl (Or.inr h)
        · exact Or.inr ⟨h1, Or.inr h2⟩

/-- The specification has no deny rule: what was granted stays granted after an entry is added. -/
theorem granted_after_acl_add {fabrics fabrics' : List Fabric} {fab n : Nat} {e : Entry}
    (req : AccessReq) (hwf : WF fabrics) (h : fabricsAclAdd fabrics fab e = some (fabrics', n))
    (hg : Granted fabrics req) : Granted fabrics' req := by
  unfold fabricsAclAdd at h
  cases hget : fabricsGet fabrics fab with
  | none => simp [hget] at h
  | some f0 =>
    simp only [hget] at h
    cases ha : f0.aclAdd e with
    | none => simp [ha] at h
    | some r =>
      obtain ⟨f', i⟩ := r
      simp only [ha] at h
      injection h with h; injection h with h1 h2
      subst h1
      obtain ⟨a1, a2, a3⟩ := aclAdd_some ha
      obtain ⟨hf0, hi0⟩ := fabricsGet_some_mem hget
      rcases hg with hp | ⟨f, hf, hi, hz, hgr⟩
      · exact Or.inl hp
      · right
        rcases fabricsUpdate_keeps fabrics fab (fun _ => f') f hf with hk | ⟨hfi, hk⟩
        · exact ⟨f, hk, hi, hz, hgr⟩
        · have hff : f = f0 := nodup_idx_unique hwf.distinct hf hf0 (hfi.trans hi0.symm)
          subst hff
          refine ⟨f', hk, a1.trans hi, hz, ?_⟩
          rcases hgr with ⟨e', he', hge⟩ | hax
          · exact Or.inl ⟨e', by rw [a3]; exact List.mem_append_left _ he', hge⟩
          · right
            unfold AuxGrants at hax ⊢
            rw [a2]; exact hax

/-- **Adding an ACL entry never revokes access (model)**: the decision procedure of the code has no
deny rule - for every well-formed configuration and every read / write request, a request that was
allowed is still allowed after `acl_add` of any (canonical) entry to any fabric. -/
theorem acl_add_never_revokes {fabrics fabrics' : List Fabric} {fab n : Nat} {e : Entry}
    (req : AccessReq) (hwf : WF fabrics) (hc : CanonicalPrivs fabrics)
    (hp : ∃ p : Priv, e.privilege = p.bits) (hop : ReadOrWrite req)
    (h : fabricsAclAdd fabrics fab e = some (fabrics', n))
    (ha : allow fabrics req = true) : allow fabrics' req = true :=
  (allow_iff_granted fabrics' req (wf_fabricsAclAdd hwf h) (canonical_fabricsAclAdd hc hp h) hop).mpr
    (granted_after_acl_add req hwf h ((allow_iff_granted fabrics req hwf hc hop).mp ha))

theorem groupsAddUpd_map {gs gs' : List GroupMapping} {ep gid : Nat}
    (h : groupsAddUpd gs ep gid = some gs') : gs'.map (·.groupId) = gs.map (·.groupId) := by
  induction gs generalizing gs' with
  | nil => unfold groupsAddUpd at h; injection h with h; subst h; rfl
  | cons x xs ih =>
    unfold groupsAddUpd at h
    split at h
    · split at h
      · injection h with h; subst h; rfl
      · split at h
        · injection h with h; subst h; rfl
        · cases h
    · cases hr : groupsAddUpd xs ep gid with
      | none => simp [hr] at h
      | some r =>
        simp only [hr, Option.map_some, Option.some.injEq] at h
        subst h
        simp [ih hr]

theorem groupsAdd_nodup {gs gs' : List GroupMapping} {ep gid : Nat}
    (hd : (gs.map (·.groupId)).Nodup) (h : groupsAdd gs ep gid = some gs') :
    (gs'.map (·.groupId)).Nodup := by
  unfold groupsAdd at h
  cases hf : gs.find? (fun e => e.groupId == gid) with
  | some g =>
    simp only [hf] at h
    rw [groupsAddUpd_map h]; exact hd
  | none =>
    simp only [hf] at h
    split at h
    · split at h
      · injection h with h; subst h
        rw [List.map_append, List.nodup_append]
        refine ⟨hd, by simp, ?_⟩
        intro a ha b hb
        simp only [List.map_cons, List.map_nil, List.mem_singleton] at hb
        obtain ⟨g, hg, rfl⟩ := List.mem_map.mp ha
        rw [List.find?_eq_none] at hf
        have := hf g hg
        rw [hb]; simpa using this
      · cases h
    · cases h

theorem groupsSetHasAux_map (gs : List GroupMapping) (gid : Nat) (v : Bool) :
    (groupsSetHasAux gs gid v).1.map (·.groupId) = gs.map (·.groupId) := by
  induction gs with
  | nil => rfl
  | cons x xs ih =>
    unfold groupsSetHasAux
    split
    · rfl
    · simp [ih]

theorem wf_fabricsGroupAdd {fabrics fabrics' : List Fabric} {fab ep gid : Nat} (hwf : WF fabrics)
    (h : fabricsGroupAdd fabrics fab ep gid = some fabrics') : WF fabrics' := by
  unfold fabricsGroupAdd at h
  cases hg : fabricsGet fabrics fab with
  | none => simp [hg] at h
  | some f =>
    obtain ⟨hf, hi⟩ := fabricsGet_some_mem hg
    simp only [hg] at h
    cases ha : groupsAdd f.groups ep gid with
    | none => simp [ha] at h
    | some gs =>
      simp only [ha] at h
      injection h with h; subst h
      exact wf_fabricsUpdate_const hwf hi (hwf.stamped f hf) (groupsAdd_nodup (hwf.groupsDistinct f hf) ha)

theorem wf_fabricsSetHasAux {fabrics fabrics' : List Fabric} {fab gid : Nat} {v ch : Bool} (hwf : WF fabrics)
    (h : fabricsSetHasAux fabrics fab gid v = some (fabrics', ch)) : WF fabrics' := by
  unfold fabricsSetHasAux at h
  cases hg : fabricsGet fabrics fab with
  | none => simp [hg] at h
  | some f =>
    obtain ⟨hf, hi⟩ := fabricsGet_some_mem hg
    simp only [hg] at h
    have hm := groupsSetHasAux_map f.groups gid v
    cases hr : groupsSetHasAux f.groups gid v with
    | mk gs c =>
      rw [hr] at h hm
      cases c with
      | none => simp at h
      | some c =>
        simp only [Option.some.injEq, Prod.mk.injEq] at h
        obtain ⟨h1, _⟩ := h
        subst h1
        refine wf_fabricsUpdate_const hwf hi (hwf.stamped f hf) ?_
        simp only at hm ⊢
        rw [hm]; exact hwf.groupsDistinct f hf


/-! ## non-vacuity: the hypotheses are satisfiable, both answers occur, and each hypothesis matters -/

/-- tag identifier 1, version `v` -/
def tag1 (v : Nat) : Nat := Consts.nocCatSubjectPrefix ||| (1 <<< 16 ||| v)

/-- fabric 1: Administer for holders of tag 1 version ≥ 2 on everything; Operate for group 7 on
endpoint 1; fabric 2: View for node 5 on cluster 6. Group 7 of fabric 1 has endpoint 1. -/
def cfg : List Fabric :=
  [ { fabIdx := 1,
      acl := [ { privilege := PRIV_ADMIN, authMode := .case, subjects := some [tag1 2], targets := none, fabIdx := some 1 },
               { privilege := PRIV_OPERATE, authMode := .group, subjects := some [7],
                 targets := some [{ endpoint := some 1, cluster := none, deviceType := none }], fabIdx := some 1 } ],
      groups := [ { groupId := 7, endpoints := [1], hasAuxAcl := some true } ] },
    { fabIdx := 2,
      acl := [ { privilege := PRIV_VIEW, authMode := .case, subjects := some [5],
                 targets := some [{ endpoint := none, cluster := some 6, deviceType := none }], fabIdx := some 2 } ],
      groups := [] } ]

def mkReq (fab : Nat) (mode : Option AuthMode) (subjects : List Nat) (ep cl op perms : Nat) : AccessReq :=
  { accessor := { fabIdx := fab, auxAclEnabled := false, subjects := subjects, authMode := mode },
    object := { path := { endpoint := some ep, cluster := some cl, leaf := some 0 }, targetPerms := some perms,
                operation := op, deviceTypes := [] } }

theorem cfg_wf : WF cfg := ⟨by decide, by decide, by decide⟩
theorem cfg_canonical : CanonicalPrivs cfg := by
  intro f hf e he
  simp only [cfg, List.mem_cons, List.not_mem_nil, or_false] at hf
  rcases hf with rfl | rfl <;> simp only [List.mem_cons, List.not_mem_nil, or_false] at he
  · rcases he with rfl | rfl
    · exact ⟨.administer, rfl⟩
    · exact ⟨.operate, rfl⟩
  · subst he; exact ⟨.view, rfl⟩

/-- a write of an `RWVA` attribute (needs Administer) by a holder of tag 1 version 3: granted … -/
example : allow cfg (mkReq 1 (some .case) [9, tag1 3, 0, 0] 0 40 WRITE 57) = true := by decide
/-- … and so says the specification, through the theorem -/
example : Granted cfg (mkReq 1 (some .case) [9, tag1 3, 0, 0] 0 40 WRITE 57) :=
  (allow_iff_granted cfg _ cfg_wf cfg_canonical ⟨.write, rfl⟩).mp (by decide)
/-- version 1 < 2: denied -/
example : allow cfg (mkReq 1 (some .case) [9, tag1 1, 0, 0] 0 40 WRITE 57) = false := by decide
/-- the same accessor on fabric 2 (other fabric's entry does not help): denied -/
example : allow cfg (mkReq 2 (some .case) [9, tag1 3, 0, 0] 0 40 WRITE 57) = false := by decide
/-- node 5 of fabric 2 reads an `RV` attribute of cluster 6: granted; writes `RWVM`: denied -/
example : allow cfg (mkReq 2 (some .case) [5, 0, 0, 0] 3 6 READ 17) = true := by decide
example : allow cfg (mkReq 2 (some .case) [5, 0, 0, 0] 3 6 WRITE 53) = false := by decide
/-- missing fabric 3, fabric 0: denied; PASE: granted -/
example : allow cfg (mkReq 3 (some .case) [5, 0, 0, 0] 3 6 READ 17) = false := by decide
example : allow cfg (mkReq 0 (some .case) [5, 0, 0, 0] 3 6 READ 17) = false := by decide
example : allow cfg (mkReq 0 (some .pase) [1, 0, 0, 0] 3 6 READ 17) = true := by decide
/-- hypotheses of `cat_version_monotone` are satisfiable -/
example : IsCat (tag1 1) ∧ IsCat (tag1 3) ∧ catId (tag1 1) = catId (tag1 3) ∧
    catVersion (tag1 1) ≤ catVersion (tag1 3) := by decide
/-- group 7 reaches endpoint 1 and not endpoint 2 -/
example : isEndpointAccessible cfg { fabIdx := 1, auxAclEnabled := false, subjects := [7, 0, 0, 0], authMode := some .group } 1 = true := by decide
example : isEndpointAccessible cfg { fabIdx := 1, auxAclEnabled := false, subjects := [7, 0, 0, 0], authMode := some .group } 2 = false := by decide
/-- `missing_fabric_denied`, `other_fabric_never_grants`: hypotheses satisfiable -/
example : ∀ f ∈ cfg, f.fabIdx ≠ (mkReq 3 (some .case) [5, 0, 0, 0] 3 6 READ 17).accessor.fabIdx := by decide

/-- `CanonicalPrivs` matters: an entry built through the Rust API with the bare `A` bit (no
privilege of the cluster) is accepted by the code for an `RWVA` read, which the specification, which
knows only the five privileges, does not grant. -/
def odd : List Fabric :=
  [ { fabIdx := 1, acl := [ { privilege := Consts.privA, authMode := .case, subjects := none, targets := none, fabIdx := some 1 } ], groups := [] } ]
example : allow odd (mkReq 1 (some .case) [5, 0, 0, 0] 0 6 READ 57) = true ∧
    grantedB odd (mkReq 1 (some .case) [5, 0, 0, 0] 0 6 READ 57) = false := by decide
/-- `ReadOrWrite` matters: the operation value `READ | WRITE` is not an operation of the property -/
example : allow cfg (mkReq 2 (some .case) [5, 0, 0, 0] 3 6 (READ ||| WRITE) 53) = true ∧
    grantedB cfg (mkReq 2 (some .case) [5, 0, 0, 0] 3 6 (READ ||| WRITE) 53) = false := by decide
/-- `WF.stamped` matters: an entry sitting in fabric 1's list but stamped 2 is ignored by the code -/
def unstamped : List Fabric :=
  [ { fabIdx := 1, acl := [ { privilege := PRIV_ADMIN, authMode := .case, subjects := none, targets := none, fabIdx := some 2 } ], groups := [] } ]
example : allow unstamped (mkReq 1 (some .case) [5, 0, 0, 0] 0 6 READ 17) = false ∧
    grantedB unstamped (mkReq 1 (some .case) [5, 0, 0, 0] 0 6 READ 17) = true := by decide

/-- `AUXILIARY` feature on: group 7 may invoke an Operate command on its endpoint 1 through the
synthesised entry even without a matching stored entry (cluster 99 endpoint 1 is covered by the
stored entry too, so use a configuration without it) -/
def cfgAux : List Fabric :=
  [ { fabIdx := 1, acl := [ { privilege := PRIV_OPERATE, authMode := .group, subjects := none, targets := none, fabIdx := some 1 } ],
      groups := [ { groupId := 7, endpoints := [0, 1], hasAuxAcl := some true } ] } ]
def auxReq (aux : Bool) (ep : Nat) : AccessReq :=
  { accessor := { fabIdx := 1, auxAclEnabled := aux, subjects := [7, 0, 0, 0], authMode := some .group },
    object := { path := { endpoint := some ep, cluster := some 6, leaf := some 0 }, targetPerms := some 46,
                operation := WRITE, deviceTypes := [] } }
/-- feature off: the wildcard Group entry covers the root endpoint; feature on: it does not, but the
group's auxiliary entry (root endpoint is a member) does; a non-member endpoint 2 is covered by
the wildcard entry only -/
example : allow cfgAux (auxReq false 0) = true ∧ allow cfgAux (auxReq true 0) = true ∧
    fabricsAllow cfgAux (auxReq true 0) true = false ∧ allow cfgAux (auxReq true 2) = true := by decide
example : Granted cfgAux (auxReq true 0) :=
  (allow_iff_granted cfgAux _ ⟨by decide, by decide, by decide⟩
    (by intro f hf e he
        simp only [cfgAux, List.mem_cons, List.not_mem_nil, or_false] at hf
        subst hf
        simp only [List.mem_cons, List.not_mem_nil, or_false] at he
        subst he; exact ⟨.operate, rfl⟩) ⟨.write, rfl⟩).mp (by decide)

/-! ## the PRODUCTION mutators preserve well-formedness

`acl_add_init` / `acl_update(_init)` / `acl_remove` / `acl_remove_all` (Access Control cluster
handler), `Groups::remove`, `groupcast_join` (also when it returns its error: the state has changed),
`groupcast_remove`, and `load_persist` of what `FabricPersist::store` wrote. -/

theorem wf_fabricsMutate {fabrics fabrics' : List Fabric} {fab : Nat} {g : Fabric → Option Fabric}
    (hwf : WF fabrics)
    (hg : ∀ f f', f ∈ fabrics → g f = some f' → f'.fabIdx = f.fabIdx ∧
      (∀ e ∈ f'.acl, e.fabIdx = some f'.fabIdx) ∧ (f'.groups.map (·.groupId)).Nodup)
    (h : fabricsMutate fabrics fab g = some fabrics') : WF fabrics' := by
  unfold fabricsMutate at h
  cases hget : fabricsGet fabrics fab with
  | none => simp [hget] at h
  | some f =>
    obtain ⟨hf, hi⟩ := fabricsGet_some_mem hget
    simp only [hget] at h
    cases hr : g f with
    | none => simp [hr] at h
    | some f' =>
      simp only [hr] at h
      injection h with h; subst h
      obtain ⟨a1, a2, a3⟩ := hg f f' hf hr
      exact wf_fabricsUpdate_const hwf (a1.trans hi) a2 a3

theorem mem_set_imp' {α : Type} (l : List α) (i : Nat) (x y : α) (h : y ∈ l.set i x) :
    y = x ∨ y ∈ l := by
  induction l generalizing i with
  | nil => simp at h
  | cons a as ih =>
    cases i with
    | zero =>
      simp only [List.set_cons_zero, List.mem_cons] at h
      rcases h with h | h
      · exact Or.inl h
      · exact Or.inr (List.mem_cons_of_mem _ h)
    | succ j =>
      simp only [List.set_cons_succ, List.mem_cons] at h
      rcases h with h | h
      · exact Or.inr (by simp [h])
      · rcases ih j h with h | h
        · exact Or.inl h
        · exact Or.inr (List.mem_cons_of_mem _ h)

theorem aclAddInit_some {f f' : Fabric} {e : Entry} {i : Nat} (h : f.aclAddInit e = some (f', i)) :
    f'.fabIdx = f.fabIdx ∧ f'.groups = f.groups ∧ f'.acl = f.acl ++ [{ e with fabIdx := some f.fabIdx }] := by
  unfold Fabric.aclAddInit at h
  split at h
  · injection h with h; injection h with h1 h2
    subst h1; exact ⟨rfl, rfl, rfl⟩
  · cases h

theorem wf_fabricsAclAddInit {fabrics fabrics' : List Fabric} {fab n : Nat} {e : Entry} (hwf : WF fabrics)
    (h : fabricsAclAddInit fabrics fab e = some (fabrics', n)) : WF fabrics' := by
  unfold fabricsAclAddInit at h
  cases hg : fabricsGet fabrics fab with
  | none => simp [hg] at h
  | some f =>
    obtain ⟨hf, hi⟩ := fabricsGet_some_mem hg
    simp only [hg] at h
    cases ha : f.aclAddInit e with
    | none => simp [ha] at h
    | some r =>
      obtain ⟨f', i⟩ := r
      simp only [ha] at h
      injection h with h; injection h with h1 h2
      subst h1
      obtain ⟨a1, a2, a3⟩ := aclAddInit_some ha
      apply wf_fabricsUpdate_const hwf (a1.trans hi)
      · intro e' he'
        rw [a3] at he'
        rcases List.mem_append.mp he' with he' | he'
        · rw [a1]; exact hwf.stamped f hf e' he'
        · simp only [List.mem_singleton] at he'; subst he'; rw [a1]
      · rw [a2]; exact hwf.groupsDistinct f hf

theorem wf_fabricsAclUpdate {fabrics fabrics' : List Fabric} {fab idx : Nat} {e : Entry} (hwf : WF fabrics)
    (h : fabricsAclUpdate fabrics fab idx e = some fabrics') : WF fabrics' := by
  refine wf_fabricsMutate hwf ?_ h
  intro f f' hf hr
  unfold Fabric.aclUpdate at hr
  split at hr
  · cases hr
  · injection hr with hr; subst hr
    refine ⟨rfl, ?_, hwf.groupsDistinct f hf⟩
    intro e' he'
    rcases mem_set_imp' _ _ _ _ he' with h1 | h1
    · subst h1; rfl
    · exact hwf.stamped f hf e' h1

theorem wf_fabricsAclRemove {fabrics fabrics' : List Fabric} {fab idx : Nat} (hwf : WF fabrics)
    (h : fabricsAclRemove fabrics fab idx = some fabrics') : WF fabrics' := by
  refine wf_fabricsMutate hwf ?_ h
  intro f f' hf hr
  unfold Fabric.aclRemove at hr
  split at hr
  · cases hr
  · injection hr with hr; subst hr
    exact ⟨rfl, fun e' he' => hwf.stamped f hf e' ((List.eraseIdx_sublist _ _).subset he'),
      hwf.groupsDistinct f hf⟩

theorem wf_fabricsAclRemoveAll {fabrics fabrics' : List Fabric} {fab : Nat} (hwf : WF fabrics)
    (h : fabricsAclRemoveAll fabrics fab = some fabrics') : WF fabrics' := by
  refine wf_fabricsMutate hwf ?_ h
  intro f f' hf hr
  injection hr with hr; subst hr
  exact ⟨rfl, fun e' he' => absurd he' (by simp [Fabric.aclRemoveAll]), hwf.groupsDistinct f hf⟩

/-- the canonical-privilege hypothesis of `allow_iff_granted` under the production mutators: kept by
an add / update with a canonical privilege (the IM path decodes the 5-value enum), and by removals -/
theorem canonical_fabricsUpdate_const {fabrics : List Fabric} {i : Nat} {f' : Fabric}
    (hc : CanonicalPrivs fabrics) (hp : ∀ e ∈ f'.acl, ∃ p : Priv, e.privilege = p.bits) :
    CanonicalPrivs (fabricsUpdate fabrics i (fun _ => f')) := by
  intro f'' hf'' e' he'
  rcases mem_fabricsUpdate hf'' with h | ⟨_, _, _, rfl⟩
  · exact hc f'' h e' he'
  · exact hp e' he'

theorem canonical_fabricsMutate {fabrics fabrics' : List Fabric} {fab : Nat} {g : Fabric → Option Fabric}
    (hc : CanonicalPrivs fabrics)
    (hg : ∀ f f', f ∈ fabrics → g f = some f' → ∀ e ∈ f'.acl, ∃ p : Priv, e.privilege = p.bits)
    (h : fabricsMutate fabrics fab g = some fabrics') : CanonicalPrivs fabrics' := by
  unfold fabricsMutate at h
  cases hget : fabricsGet fabrics fab with
  | none => simp [hget] at h
  | some f =>
    obtain ⟨hf, _⟩ := fabricsGet_some_mem hget
    simp only [hget] at h
    cases hr : g f with
    | none => simp [hr] at h
    | some f' =>
      simp only [hr] at h
      injection h with h; subst h
      exact canonical_fabricsUpdate_const hc (hg f f' hf hr)

theorem canonical_fabricsAclAddInit {fabrics fabrics' : List Fabric} {fab n : Nat} {e : Entry}
    (hc : CanonicalPrivs fabrics) (hp : ∃ p : Priv, e.privilege = p.bits)
    (h : fabricsAclAddInit fabrics fab e = some (fabrics', n)) : CanonicalPrivs fabrics' := by
  unfold fabricsAclAddInit at h
  cases hg : fabricsGet fabrics fab with
  | none => simp [hg] at h
  | some f =>
    obtain ⟨hf, _⟩ := fabricsGet_some_mem hg
    simp only [hg] at h
    cases ha : f.aclAddInit e with
    | none => simp [ha] at h
    | some r =>
      obtain ⟨f', i⟩ := r
      simp only [ha] at h
      injection h with h; injection h with h1 h2
      subst h1
      obtain ⟨_, _, a3⟩ := aclAddInit_some ha
      apply canonical_fabricsUpdate_const hc
      intro e' he'
      rw [a3] at he'
      rcases List.mem_append.mp he' with he' | he'
      · exact hc f hf e' he'
      · simp only [List.mem_singleton] at he'; subst he'; exact hp

theorem canonical_fabricsAclUpdate {fabrics fabrics' : List Fabric} {fab idx : Nat} {e : Entry}
    (hc : CanonicalPrivs fabrics) (hp : ∃ p : Priv, e.privilege = p.bits)
    (h : fabricsAclUpdate fabrics fab idx e = some fabrics') : CanonicalPrivs fabrics' := by
  refine canonical_fabricsMutate hc ?_ h
  intro f f' hf hr e' he'
  unfold Fabric.aclUpdate at hr
  split at hr
  · cases hr
  · injection hr with hr; subst hr
    rcases mem_set_imp' _ _ _ _ he' with h1 | h1
    · subst h1; exact hp
    · exact hc f hf e' h1

theorem canonical_fabricsAclRemove {fabrics fabrics' : List Fabric} {fab idx : Nat}
    (hc : CanonicalPrivs fabrics) (h : fabricsAclRemove fabrics fab idx = some fabrics') :
    CanonicalPrivs fabrics' := by
  refine canonical_fabricsMutate hc ?_ h
  intro f f' hf hr e' he'
  unfold Fabric.aclRemove at hr
  split at hr
  · cases hr
  · injection hr with hr; subst hr
    exact hc f hf e' ((List.eraseIdx_sublist _ _).subset he')

/-! ### group table -/

theorem groupsRemove_nodup (gs : List GroupMapping) (ep : Nat) (gid : Option Nat)
    (hd : (gs.map (·.groupId)).Nodup) : ((groupsRemove gs ep gid).1.map (·.groupId)).Nodup := by
  unfold groupsRemove
  simp only
  apply List.Nodup.sublist (List.Sublist.map _ List.filter_sublist)
  rw [List.map_map]
  have : ((fun e : GroupMapping => e.groupId) ∘ fun e : GroupMapping =>
      if groupHit gid e = true then { e with endpoints := e.endpoints.filter (· != ep) } else e)
      = fun e => e.groupId := by
    funext e
    simp only [Function.comp]
    split <;> rfl
  rw [this]; exact hd

theorem groupsUpdFirst_map (gs : List GroupMapping) (gid : Nat) (g : GroupMapping → GroupMapping)
    (hg : ∀ e, (g e).groupId = e.groupId) :
    (groupsUpdFirst gs gid g).map (·.groupId) = gs.map (·.groupId) := by
  induction gs with
  | nil => rfl
  | cons x xs ih =>
    unfold groupsUpdFirst
    split
    · simp [hg]
    · simp [ih]

/-- `groupcast_join` keeps the group ids distinct — whether it returns `Ok` or its error -/
theorem groupsGroupcastJoin_nodup (gs : List GroupMapping) (gid : Nat) (eps : List Nat) (replace : Bool)
    (hd : (gs.map (·.groupId)).Nodup) :
    ((groupsGroupcastJoin gs gid eps replace).1.map (·.groupId)).Nodup := by
  unfold groupsGroupcastJoin
  cases hf : gs.find? (fun e => e.groupId == gid) with
  | some e =>
    simp only
    have hm := groupsUpdFirst_map gs gid
      (fun e_1 : GroupMapping => { e_1 with
        endpoints := (joinEndpoints (if replace = true then [] else e.endpoints) eps).fst, managed := true })
      (fun _ => rfl)
    rw [hm]; exact hd
  | none =>
    simp only
    split
    · simp only [List.map_append, List.map_cons, List.map_nil]
      rw [List.nodup_append]
      refine ⟨hd, by simp, ?_⟩
      intro a ha b hb
      simp only [List.mem_singleton] at hb
      obtain ⟨g, hg, rfl⟩ := List.mem_map.mp ha
      rw [List.find?_eq_none] at hf
      have := hf g hg
      rw [hb]; simpa using this
    · exact hd

theorem groupsGroupcastRemove_nodup (gs : List GroupMapping) (gid : Nat)
    (hd : (gs.map (·.groupId)).Nodup) : ((groupsGroupcastRemove gs gid).map (·.groupId)).Nodup :=
  List.Nodup.sublist (List.Sublist.map _ List.filter_sublist) hd

/-- any mutation of one fabric's group table that keeps its group ids distinct keeps `WF`
(instances: `groupsRemove`, `groupsGroupcastJoin`, `groupsGroupcastRemove`) -/
theorem wf_fabricsGroupsMutate {fabrics fabrics' : List Fabric} {fab : Nat}
    {g : List GroupMapping → List GroupMapping} (hwf : WF fabrics)
    (hg : ∀ gs, (gs.map (·.groupId)).Nodup → ((g gs).map (·.groupId)).Nodup)
    (h : fabricsGroupsMutate fabrics fab g = some fabrics') : WF fabrics' := by
  refine wf_fabricsMutate hwf ?_ h
  intro f f' hf hr
  injection hr with hr; subst hr
  exact ⟨rfl, hwf.stamped f hf, hg _ (hwf.groupsDistinct f hf)⟩

theorem wf_fabricsGroupRemove {fabrics fabrics' : List Fabric} {fab ep : Nat} {gid : Option Nat}
    (hwf : WF fabrics)
    (h : fabricsGroupsMutate fabrics fab (fun gs => (groupsRemove gs ep gid).1) = some fabrics') :
    WF fabrics' :=
  wf_fabricsGroupsMutate hwf (fun gs hd => groupsRemove_nodup gs ep gid hd) h

theorem wf_fabricsGroupcastJoin {fabrics fabrics' : List Fabric} {fab gid : Nat} {eps : List Nat}
    {replace : Bool} (hwf : WF fabrics)
    (h : fabricsGroupsMutate fabrics fab (fun gs => (groupsGroupcastJoin gs gid eps replace).1) = some fabrics') :
    WF fabrics' :=
  wf_fabricsGroupsMutate hwf (fun gs hd => groupsGroupcastJoin_nodup gs gid eps replace hd) h

theorem wf_fabricsGroupcastRemove {fabrics fabrics' : List Fabric} {fab gid : Nat} (hwf : WF fabrics)
    (h : fabricsGroupsMutate fabrics fab (fun gs => groupsGroupcastRemove gs gid) = some fabrics') :
    WF fabrics' :=
  wf_fabricsGroupsMutate hwf (fun gs hd => groupsGroupcastRemove_nodup gs gid hd) h

/-! ### start-up -/

theorem nodup_filterMap_idx (blobs : Nat → Option Fabric) (hk : ∀ i f, blobs i = some f → f.fabIdx = i) :
    ∀ (l : List Nat), l.Nodup → ((l.filterMap blobs).map (·.fabIdx)).Nodup ∧
      ∀ f ∈ l.filterMap blobs, f.fabIdx ∈ l := by
  intro l
  induction l with
  | nil => intro _; simp
  | cons a as ih =>
    intro hn
    obtain ⟨hna, hnas⟩ := List.nodup_cons.mp hn
    obtain ⟨ih1, ih2⟩ := ih hnas
    cases hb : blobs a with
    | none =>
      simp only [List.filterMap_cons, hb]
      exact ⟨ih1, fun f hf => List.mem_cons_of_mem _ (ih2 f hf)⟩
    | some fa =>
      simp only [List.filterMap_cons, hb, List.map_cons, List.nodup_cons]
      have hfa := hk a fa hb
      refine ⟨⟨?_, ih1⟩, ?_⟩
      · intro hm
        obtain ⟨g, hg, hge⟩ := List.mem_map.mp hm
        have := ih2 g hg
        rw [hge, hfa] at this; exact hna this
      · intro f hf
        rcases List.mem_cons.mp hf with h1 | h1
        · subst h1; rw [hfa]; exact List.mem_cons_self ..
        · exact List.mem_cons_of_mem _ (ih2 f h1)

/-- **`load_persist` yields a well-formed table** from every storage in which the blob under key `i`
holds a fabric with index `i` whose entries are stamped with `i` and whose group ids are distinct —
which is what `FabricPersist::store` writes from a well-formed table (`wf_fabricsReload`). The
faithfulness of the TLV encoding itself is outside this model. -/
theorem wf_fabricsLoad (blobs : Nat → Option Fabric)
    (hk : ∀ i f, blobs i = some f → f.fabIdx = i ∧ (∀ e ∈ f.acl, e.fabIdx = some f.fabIdx) ∧
      (f.groups.map (·.groupId)).Nodup) : WF (fabricsLoad blobs) := by
  unfold fabricsLoad
  have hnd : (List.range' 1 255).Nodup := List.nodup_range'
  refine ⟨(nodup_filterMap_idx blobs (fun i f h => (hk i f h).1) _ hnd).1, ?_, ?_⟩
  · intro f hf
    obtain ⟨i, _, hi⟩ := List.mem_filterMap.mp hf
    exact (hk i f hi).2.1
  · intro f hf
    obtain ⟨i, _, hi⟩ := List.mem_filterMap.mp hf
    exact (hk i f hi).2.2

/-- store, restart, load: a well-formed table comes back well-formed -/
theorem wf_fabricsReload {fabrics : List Fabric} (hwf : WF fabrics) : WF (fabricsReload fabrics) := by
  apply wf_fabricsLoad
  intro i f h
  unfold fabricsBlobs at h
  have hm := List.mem_of_find?_eq_some h
  have hi := List.find?_some h
  simp only [beq_iff_eq] at hi
  exact ⟨hi, hwf.stamped f hm, hwf.groupsDistinct f hm⟩

/-- … and answers every access request as before (fabric indices 1..255, as `NonZeroU8` makes them):
the decision only looks the accessor's fabric up by index -/
theorem fabricsGet_reload {fabrics : List Fabric} (hwf : WF fabrics) (i : Nat) (h1 : 1 ≤ i) (h2 : i ≤ 255) :
    fabricsGet (fabricsReload fabrics) i = fabricsGet fabrics i := by
  have hwf' := wf_fabricsReload hwf
  cases hg : fabricsGet fabrics i with
  | none =>
    unfold fabricsGet at hg ⊢
    rw [List.find?_eq_none] at hg ⊢
    intro f hf
    unfold fabricsReload fabricsLoad at hf
    obtain ⟨j, _, hj⟩ := List.mem_filterMap.mp hf
    unfold fabricsBlobs at hj
    exact hg f (List.mem_of_find?_eq_some hj)
  | some f =>
    obtain ⟨hf, hi⟩ := fabricsGet_some_mem hg
    have hmem : f ∈ fabricsReload fabrics := by
      unfold fabricsReload fabricsLoad
      refine List.mem_filterMap.mpr ⟨i, ?_, ?_⟩
      · rw [List.mem_range'_1]; omega
      · exact hg
    -- in a table with distinct indices, the first fabric with index `i` is the only one
    unfold fabricsGet
    cases hr : (fabricsReload fabrics).find? (fun f => f.fabIdx == i) with
    | none =>
      rw [List.find?_eq_none] at hr
      have := hr f hmem; simp [hi] at this
    | some f' =>
      have hm' := List.mem_of_find?_eq_some hr
      have hi' := List.find?_some hr
      simp only [beq_iff_eq] at hi'
      -- `f'` comes from the blobs, i.e. is the first fabric with index `i` of `fabrics` = `f`
      unfold fabricsReload fabricsLoad at hm'
      obtain ⟨j, _, hj⟩ := List.mem_filterMap.mp hm'
      unfold fabricsBlobs at hj
      have hij := List.find?_some hj
      simp only [beq_iff_eq] at hij
      have : j = i := by rw [← hij, hi']
      subst this
      unfold fabricsGet at hg
      rw [hg] at hj
      exact congrArg some (Option.some.inj hj).symm

/-- non-vacuity: the production mutators on the example configuration, and a reload -/
def paseEntry : Entry :=
  { privilege := PRIV_ADMIN, authMode := AuthMode.pase, subjects := none, targets := none, fabIdx := none }
def viewEntry : Entry :=
  { privilege := PRIV_VIEW, authMode := AuthMode.case, subjects := none, targets := none, fabIdx := some 9 }
/-- `acl_add_init` does not reject a PASE entry (`acl_add` does) -/
example : (fabricsAclAddInit cfg 1 paseEntry).isSome ∧ (fabricsAclAdd cfg 1 paseEntry).isNone := by decide
example : (fabricsAclRemove cfg 1 0).isSome ∧ (fabricsAclUpdate cfg 2 0 viewEntry).isSome ∧
    (fabricsGroupsMutate cfg 1 (fun gs => (groupsGroupcastJoin gs 9 [1, 1, 2] false).1)).isSome := by decide
def g7 : GroupMapping := { groupId := 7, endpoints := [1], hasAuxAcl := none }
def g8 : GroupMapping := { groupId := 8, endpoints := [1], hasAuxAcl := some false, managed := true }
/-- `Groups::remove`: the legacy membership disappears with its last endpoint, the Groupcast-managed one stays -/
example : (groupsRemove [g7, g8] 1 none).1 = [{ g8 with endpoints := [] }] := by decide
example : (fabricsReload cfg).map (·.fabIdx) = [1, 2] := by decide

/-! ## removing an entry never grants access -/

/-- The specification grants through entries only: what is granted after an entry was removed was
granted before. -/
theorem granted_before_acl_remove {fabrics fabrics' : List Fabric} {fab idx : Nat}
    (req : AccessReq) (h : fabricsAclRemove fabrics fab idx = some fabrics')
    (hg : Granted fabrics' req) : Granted fabrics req := by
  unfold fabricsAclRemove fabricsMutate at h
  cases hget : fabricsGet fabrics fab with
  | none => simp [hget] at h
  | some f0 =>
    simp only [hget] at h
    obtain ⟨hf0, hi0⟩ := fabricsGet_some_mem hget
    cases hr : f0.aclRemove idx with
    | none => simp [hr] at h
    | some f' =>
      simp only [hr] at h
      injection h with h; subst h
      unfold Fabric.aclRemove at hr
      split at hr
      · cases hr
      · injection hr with hr; subst hr
        rcases hg with hp | ⟨f, hf, hi, hz, hgr⟩
        · exact Or.inl hp
        · right
          rcases mem_fabricsUpdate hf with hk | ⟨_, _, _, rfl⟩
          · exact ⟨f, hk, hi, hz, hgr⟩
          · refine ⟨f0, hf0, hi, hz, ?_⟩
            rcases hgr with ⟨e', he', hge⟩ | hax
            · exact Or.inl ⟨e', (List.eraseIdx_sublist _ _).subset he', hge⟩
            · right; unfold AuxGrants at hax ⊢; exact hax

/-- **Removing an ACL entry never grants access (model)**: for every well-formed configuration and
every read / write request, a request allowed after `acl_remove` was already allowed before it. -/
theorem acl_remove_never_grants {fabrics fabrics' : List Fabric} {fab idx : Nat}
    (req : AccessReq) (hwf : WF fabrics) (hc : CanonicalPrivs fabrics) (hop : ReadOrWrite req)
    (h : fabricsAclRemove fabrics fab idx = some fabrics')
    (ha : allow fabrics' req = true) : allow fabrics req = true :=
  (allow_iff_granted fabrics req hwf hc hop).mpr
    (granted_before_acl_remove req h
      ((allow_iff_granted fabrics' req (wf_fabricsAclRemove hwf h) (canonical_fabricsAclRemove hc h) hop).mp ha))

/-! ## removing all entries of a fabric revokes every CASE access on it -/

theorem fabricsUpdate_const_unique (c : Fabric) (i : Nat) (hc : c.fabIdx = i) :
    ∀ (fabrics : List Fabric), (fabrics.map (·.fabIdx)).Nodup →
      ∀ f ∈ fabricsUpdate fabrics i (fun _ => c), f.fabIdx = i → f = c := by
  intro fabrics
  induction fabrics with
  | nil => intro _ f hf; cases hf
  | cons x xs ih =>
    intro hnd f hf hfi
    simp only [List.map_cons, List.nodup_cons] at hnd
    unfold fabricsUpdate at hf
    by_cases hx : x.fabIdx = i
    · have : (x.fabIdx == i) = true := by simp [hx]
      simp only [this, if_true, List.mem_cons] at hf
      rcases hf with rfl | hf
      · rfl
      · exfalso; apply hnd.1; rw [hx, ← hfi]; exact List.mem_map_of_mem hf
    · have : (x.fabIdx == i) = false := by simp [hx]
      simp only [this, Bool.false_eq_true, if_false, List.mem_cons] at hf
      rcases hf with rfl | hf
      · exact absurd hfi hx
      · exact ih hnd.2 f hf hfi

/-- **`acl_remove_all` revokes every CASE access of that fabric (model)**: for every well-formed
configuration, after all entries of fabric `fab` were removed no read / write request of a CASE
accessor on that fabric is allowed, whatever the other fabrics hold. -/
theorem acl_remove_all_denies_case {fabrics fabrics' : List Fabric} {fab : Nat}
    (req : AccessReq) (hwf : WF fabrics) (hc : CanonicalPrivs fabrics) (hop : ReadOrWrite req)
    (h : fabricsAclRemoveAll fabrics fab = some fabrics')
    (hfab : req.accessor.fabIdx = fab) (hcase : req.accessor.authMode = some AuthMode.case) :
    allow fabrics' req = false := by
  have hwf' := wf_fabricsAclRemoveAll hwf h
  have hc' : CanonicalPrivs fabrics' := by
    refine canonical_fabricsMutate hc ?_ h
    intro f f' _ hr e' he'
    injection hr with hr; subst hr
    simp [Fabric.aclRemoveAll] at he'
  cases hal : allow fabrics' req with
  | false => rfl
  | true =>
    exfalso
    have hg := (allow_iff_granted fabrics' req hwf' hc' hop).mp hal
    unfold fabricsAclRemoveAll fabricsMutate at h
    cases hget : fabricsGet fabrics fab with
    | none => simp [hget] at h
    | some f0 =>
      simp only [hget] at h
      injection h with h; subst h
      obtain ⟨hf0, hi0⟩ := fabricsGet_some_mem hget
      rcases hg with hp | ⟨f, hf, hi, _, hgr⟩
      · rw [hcase] at hp; cases hp
      · have : f = f0.aclRemoveAll :=
          fabricsUpdate_const_unique f0.aclRemoveAll fab hi0 fabrics hwf.distinct f hf (hi.trans hfab)
        subst this
        rcases hgr with ⟨e, he, _⟩ | hax
        · simp [Fabric.aclRemoveAll] at he
        · have := hax.2.1; rw [hcase] at this; cases this

end C05
