import RsMatterVerif.Model.Pase
/-!
# C02 — PASE admits only a peer that knows the passcode, only while a window is open

Theorems over `Model/Pase` (symbolic SPAKE2+: the expected confirmation value is the free term
`Conf pw ctx pA pB`).
-/
namespace C02
open Pase

/-- close goals of the form `(nested if/match …).field = …` by splitting every branch -/
macro "splits" : tactic => `(tactic| repeat (first | rfl | split))

@[simp] theorem checkWindowTimeout_sessions (s : St) : (checkWindowTimeout s).sessions = s.sessions := by
  unfold checkWindowTimeout; splits
@[simp] theorem recordFailure_sessions (s : St) : (recordFailure s).sessions = s.sessions := by
  unfold recordFailure; simp only; splits
@[simp] theorem removeTask_sessions (s : St) (x : Nat) : (removeTask s x).sessions = s.sessions := rfl
@[simp] theorem setTask_sessions (s : St) (t : Task) : (setTask s t).sessions = s.sessions := rfl
@[simp] theorem failTask_sessions (s : St) (x : Nat) : (failTask s x).sessions = s.sessions := by
  simp [failTask]
@[simp] theorem updateSessionTimeout_sessions (s : St) (x : Nat) (n : Bool) :
    (updateSessionTimeout s x n).1.sessions = s.sessions := by
  unfold updateSessionTimeout
  simp only
  splits

@[simp] theorem checkWindowTimeout_tasks (s : St) : (checkWindowTimeout s).tasks = s.tasks := by
  unfold checkWindowTimeout; splits
@[simp] theorem recordFailure_tasks (s : St) : (recordFailure s).tasks = s.tasks := by
  unfold recordFailure; simp only; splits
@[simp] theorem updateSessionTimeout_tasks (s : St) (x : Nat) (n : Bool) :
    (updateSessionTimeout s x n).1.tasks = s.tasks := by
  unfold updateSessionTimeout; simp only; splits
theorem mem_removeTask {s : St} {x : Nat} {t : Task} (h : t ∈ (removeTask s x).tasks) : t ∈ s.tasks := by
  simp only [removeTask, List.mem_filter] at h; exact h.1
theorem mem_failTask {s : St} {x : Nat} {t : Task} (h : t ∈ (failTask s x).tasks) : t ∈ s.tasks := by
  simp only [failTask, recordFailure_tasks] at h; exact mem_removeTask h
theorem mem_setTask {s : St} {n t : Task} (h : t ∈ (setTask s n).tasks) : t = n ∨ t ∈ s.tasks := by
  simp only [setTask, List.mem_cons, List.mem_filter] at h
  rcases h with h | h
  · exact .inl h
  · exact .inr h.1

@[simp] theorem updateSessionTimeout_window (s : St) (x : Nat) (n : Bool) :
    (updateSessionTimeout s x n).1.window = s.window := by
  unfold updateSessionTimeout; simp only; splits

@[simp] theorem checkWindowTimeout_now (s : St) : (checkWindowTimeout s).now = s.now := by
  unfold checkWindowTimeout; splits
@[simp] theorem updateSessionTimeout_now (s : St) (x : Nat) (n : Bool) :
    (updateSessionTimeout s x n).1.now = s.now := by
  unfold updateSessionTimeout; simp only; splits

theorem checkWindowTimeout_open {s : St} {w : Window} (h : (checkWindowTimeout s).window = some w) :
    s.window = some w ∧ s.now ≤ w.expiry := by
  unfold checkWindowTimeout at h
  split at h
  · rename_i w' hw
    split at h
    · simp at h
    · rw [hw] at h; injection h with h; subst h; exact ⟨hw, by omega⟩
  · rename_i hw; rw [hw] at h; cases h

@[simp] theorem removeTask_window (s : St) (x : Nat) : (removeTask s x).window = s.window := rfl
@[simp] theorem setTask_window (s : St) (t : Task) : (setTask s t).window = s.window := rfl

/-! ### the session table does not touch what the property speaks about -/
@[simp] theorem removeSlot_sessions (s : St) (i : Nat) : (removeSlot s i).sessions = s.sessions := rfl
@[simp] theorem removeSlot_window (s : St) (i : Nat) : (removeSlot s i).window = s.window := rfl
@[simp] theorem removeSlot_tasks (s : St) (i : Nat) : (removeSlot s i).tasks = s.tasks := rfl
@[simp] theorem removeSlot_now (s : St) (i : Nat) : (removeSlot s i).now = s.now := rfl
@[simp] theorem removeSlot_marker (s : St) (i : Nat) : (removeSlot s i).marker = s.marker := rfl
@[simp] theorem removeSlot_fresh (s : St) (i : Nat) : (removeSlot s i).fresh = s.fresh := rfl

@[simp] theorem evictOne_sessions (s : St) (v : Option VClass) : (evictOne s v).sessions = s.sessions := by
  unfold evictOne; split <;> rfl
@[simp] theorem evictOne_window (s : St) (v : Option VClass) : (evictOne s v).window = s.window := by
  unfold evictOne; split <;> rfl
@[simp] theorem evictOne_tasks (s : St) (v : Option VClass) : (evictOne s v).tasks = s.tasks := by
  unfold evictOne; split <;> rfl
@[simp] theorem evictOne_now (s : St) (v : Option VClass) : (evictOne s v).now = s.now := by
  unfold evictOne; split <;> rfl
@[simp] theorem evictOne_marker (s : St) (v : Option VClass) : (evictOne s v).marker = s.marker := by
  unfold evictOne; split <;> rfl

/-- everything but the table -/
def SameCore (a b : St) : Prop :=
  a.sessions = b.sessions ∧ a.window = b.window ∧ a.tasks = b.tasks ∧ a.now = b.now ∧ a.marker = b.marker ∧
    a.fresh = b.fresh

theorem addSlot_core {s s' : St} {sl : Slot} (h : addSlot s sl = some s') : SameCore s' s := by
  unfold addSlot at h
  split at h
  · injection h with h; subst h; exact ⟨rfl, rfl, rfl, rfl, rfl, rfl⟩
  · cases h

theorem reserve_core {s s' : St} {x : Nat} {v : Option VClass} (h : reserve s x v = some s') : SameCore s' s := by
  unfold reserve at h
  split at h
  · rename_i s1 h1; injection h with h; subst h; exact addSlot_core h1
  · split at h
    · obtain ⟨a, b, c, d, e, f⟩ := addSlot_core h
      exact ⟨a, b, c, d, e, f⟩
    · cases h

/-- the failure counter of an open window stays below the revocation threshold -/
def WinInv (o : Option Window) : Prop := ∀ w, o = some w → w.failures < maxFailures

theorem winInv_none : WinInv none := fun _ h => by cases h

theorem winInv_check {s : St} (h : WinInv s.window) : WinInv (checkWindowTimeout s).window := by
  unfold checkWindowTimeout
  split
  · split
    · exact winInv_none
    · exact h
  · exact h

theorem recordFailure_window (s : St) :
    (recordFailure s).window =
      match s.window with
      | some w => if w.failures + 1 ≥ maxFailures then none else some { w with failures := w.failures + 1 }
      | none => none := by
  unfold recordFailure
  simp only
  split
  · rename_i w hw
    split
    · simp_all
    · simp_all
  · rename_i hw; simp_all

theorem winInv_record {s : St} : WinInv (recordFailure s).window := by
  rw [recordFailure_window]
  split
  · split
    · exact winInv_none
    · intro w hw; injection hw with hw; subst hw; simp only; omega
  · exact winInv_none

theorem winInv_fail {s : St} {x : Nat} : WinInv (failTask s x).window := winInv_record


/-! ### the responder's first step on a fresh exchange -/
theorem pbkdfNew_sessions (s : St) (x : Nat) (r : Req) (v : Option VClass) :
    (pbkdfNew s x r v).1.sessions = s.sessions := by
  unfold pbkdfNew
  split
  · simp
  · rename_i s1 h1
    have hc := (reserve_core h1).1
    simp only
    repeat' split
    all_goals simp [hc]

theorem mem_pbkdfNew {s : St} {x : Nat} {r : Req} {v : Option VClass} {t : Task}
    (h : t ∈ (pbkdfNew s x r v).1.tasks) : t ∈ s.tasks ∨ ∃ ctx, t.stage = .waitPake1 ctx := by
  unfold pbkdfNew at h
  split at h
  · left; simpa using h
  · rename_i s1 h1
    have hc := (reserve_core h1).2.2.1
    simp only at h
    split at h
    · left; simpa [hc] using h
    · split at h
      · left; simpa [hc] using h
      · split at h
        · rcases mem_setTask h with h | h
          · right; exact ⟨_, by rw [h]⟩
          · left; simpa [hc] using h
        · left; simpa [hc] using h

theorem pbkdfNew_winInv {s : St} (x : Nat) (r : Req) (v : Option VClass) (h : WinInv s.window) :
    WinInv (pbkdfNew s x r v).1.window := by
  unfold pbkdfNew
  split
  · exact winInv_record
  · rename_i s1 h1
    have hc := (reserve_core h1).2.1
    have h1w : WinInv s1.window := by rw [hc]; exact h
    simp only
    split
    · simp only [updateSessionTimeout_window]; exact h1w
    · split
      · rename_i hw; intro w hw2; simp only at hw2; rw [hw] at hw2; cases hw2
      · split
        · simp only [setTask_window]; apply winInv_check; simp only [updateSessionTimeout_window]; exact h1w
        · exact winInv_record

/-- the only way a session comes into existence: a Pake3 on a live handshake that holds the
in-progress marker, carrying exactly the confirmation value that handshake expects, while the
window whose verifier answered its Pake1 is still present and unexpired -/
theorem session_implies_proof (s : St) (op : Op) :
    (step s op).1.sessions = s.sessions ∨
    ∃ x exp wid t w, op = .pake3 x (.mac exp) ∧ findTask s x = some t ∧ t.stage = .waitPake3 exp wid ∧
      (updateSessionTimeout s x false).2 = none ∧
      s.window = some w ∧ w.id = wid ∧ s.now ≤ w.expiry ∧
      (step s op).1.sessions = s.sessions ++
        [{ exch := x, conf := exp, windowOpenAtCreation := true, sameWindowAtCreation := true }] := by
  cases op with
  | openWin pw secs => left; simp only [step]; splits
  | openEnh pw secs sl it d => left; simp only [step]; splits
  | revoke => left; rfl
  | tick ms => left; rfl
  | poll => left; simp [step]
  | pbkdf x r v =>
    left; simp only [step]
    split
    · repeat' (first | (simp; done) | split)
    · split
      · simp
      · rename_i s1 h1
        rw [pbkdfNew_sessions]; exact (addSlot_core h1).1
  | rxTimeout x => left; simp only [step]; repeat' (first | (simp; done) | split)
  | fill n p => left; rfl
  | unfill => left; rfl
  | pake1 x p => left; simp only [step]; repeat' (first | (simp; done) | split)
  | pake3 x c =>
    simp only [step]
    split
    · left; rfl
    · rename_i t ht
      split
      · left; simp
      · rename_i hnone
        split
        · left; simp
        · rename_i exp wid hstage
          by_cases hm : c = .malformed
          · left; simp [hm]
          · simp only [hm, if_false]
            cases hw : (checkWindowTimeout (updateSessionTimeout s x false).fst).window with
            | none => left; simp
            | some w =>
              simp only
              by_cases hid : w.id = wid
              · by_cases hc : c = .mac exp
                · right
                  obtain ⟨hw1, hw2⟩ := checkWindowTimeout_open hw
                  simp only [updateSessionTimeout_window, updateSessionTimeout_now] at hw1 hw2
                  have hopen : windowOpenNow (checkWindowTimeout (updateSessionTimeout s x false).fst) = true := by
                    simp [windowOpenNow, hw, hw2]
                  refine ⟨x, exp, wid, t, w, by rw [hc], ht, hstage, hnone, hw1, hid, hw2, ?_⟩
                  simp [hopen, hid, hc]
                · left; simp [hid, hc]
              · left; simp [hid]
  | other x => left; simp only [step]; repeat' (first | (simp; done) | split)
  | dead x => left; simp only [step]; repeat' (first | (simp; done) | split)

/-- **Full statement, first sentence of the property**: a session that a step adds was created while
a commissioning window was present and unexpired, and that window is the one the proof is for. -/
theorem session_only_in_open_window (s : St) (op : Op) (sess : Sess)
    (hnew : sess ∈ (step s op).1.sessions) (hold : sess ∉ s.sessions) :
    sess.windowOpenAtCreation = true ∧ sess.sameWindowAtCreation = true ∧
      ∃ w, s.window = some w ∧ s.now ≤ w.expiry := by
  rcases session_implies_proof s op with h | ⟨x, exp, wid, t, w, _, _, _, _, hw, _, hexp, h⟩
  · rw [h] at hnew; exact absurd hnew hold
  · rw [h] at hnew
    rcases List.mem_append.mp hnew with h' | h'
    · exact absurd h' hold
    · simp only [List.mem_singleton] at h'
      subst h'
      exact ⟨rfl, rfl, w, hw, hexp⟩

/-- wrong passcode, another transcript, another share, or bytes that are no confirmation value at
all: no session -/
theorem wrong_proof_never (s : St) (x : Nat) (c : CA)
    (h : ∀ t exp wid, findTask s x = some t → t.stage = .waitPake3 exp wid → c ≠ .mac exp) :
    (step s (.pake3 x c)).1.sessions = s.sessions := by
  rcases session_implies_proof s (.pake3 x c) with h1 | ⟨x', exp, wid, t, w, hop, ht, hst, _⟩
  · exact h1
  · injection hop with hx hc
    subst hx hc
    exact absurd rfl (h t exp wid ht hst)

theorem wrong_passcode_never (s : St) (x : Nat) (c : Conf)
    (h : ∀ t exp wid, findTask s x = some t → t.stage = .waitPake3 exp wid → c.pw ≠ exp.pw) :
    (step s (.pake3 x (.mac c))).1.sessions = s.sessions :=
  wrong_proof_never s x _ (fun t exp wid ht hs hc => h t exp wid ht hs (by injection hc with hc; rw [hc]))

/-- a confirmation value of another transcript (a replay from another handshake) is refused -/
theorem replayed_never (s : St) (x : Nat) (c : Conf)
    (h : ∀ t exp wid, findTask s x = some t → t.stage = .waitPake3 exp wid → c.ctx ≠ exp.ctx ∨ c.pB ≠ exp.pB) :
    (step s (.pake3 x (.mac c))).1.sessions = s.sessions :=
  wrong_proof_never s x _ (fun t exp wid ht hs hc => by
    injection hc with hc
    rcases h t exp wid ht hs with h' | h' <;> exact h' (by rw [hc]))

theorem mutated_never (s : St) (x n : Nat) : (step s (.pake3 x (.junk n))).1.sessions = s.sessions :=
  wrong_proof_never s x _ (fun _ _ _ _ _ hc => by cases hc)

/-- only Pake3 creates sessions; in particular a failure (any other outcome) leaves none behind -/
theorem failure_leaves_no_session (s : St) (op : Op) (h : (step s op).2 ≠ .statusSuccess) :
    (step s op).1.sessions = s.sessions := by
  rcases session_implies_proof s op with h1 | ⟨x, exp, wid, t, w, hop, ht, hst, hnone, hw, hid, hexp, _⟩
  · exact h1
  · exfalso
    apply h
    subst hop
    have hcw : (checkWindowTimeout (updateSessionTimeout s x false).fst).window = some w := by
      unfold checkWindowTimeout
      simp only [updateSessionTimeout_window, updateSessionTimeout_now, hw]
      split
      · omega
      · simp [hw]
    simp only [step, ht, hnone, hst, hcw, hid]
    simp
/-- **A handshake gets as far as expecting Pake3 only through a Pake1 carrying a valid prover share,
received while a window is present and unexpired; the value it will then accept is bound to that
window's passcode class, the handshake's own transcript and both shares.** -/
theorem waitPake3_only_by_valid_pake1 (s : St) (op : Op) (t : Task) (exp : Conf) (wid : Nat)
    (ht : t ∈ (step s op).1.tasks) (hst : t.stage = .waitPake3 exp wid) :
    t ∈ s.tasks ∨
    ∃ a ctx w t0, op = .pake1 t.exch (.valid a) ∧ findTask s t.exch = some t0 ∧ t0.stage = .waitPake1 ctx ∧
      s.window = some w ∧ s.now ≤ w.expiry ∧ exp.pw = w.pw ∧ exp.ctx = ctx ∧ exp.pA = a ∧ wid = w.id := by
  cases op with
  | openWin pw secs =>
    left; simp only [step] at ht
    split at ht
    · exact ht
    · split at ht <;> exact ht
  | revoke => left; exact ht
  | tick ms => left; exact ht
  | poll => left; simpa [step] using ht
  | openEnh pw secs sl it d =>
    left; simp only [step] at ht
    repeat' split at ht
    all_goals exact ht
  | pbkdf x r v =>
    left
    simp only [step] at ht
    split at ht
    · split at ht
      · simpa using mem_removeTask ht
      · simpa using mem_failTask ht
    · split at ht
      · simpa using ht
      · rename_i s1 h1
        rcases mem_pbkdfNew ht with h | ⟨ctx, h⟩
        · rw [(addSlot_core h1).2.2.1] at h; exact h
        · rw [h] at hst; cases hst
  | rxTimeout x =>
    left
    simp only [step] at ht
    split at ht
    · exact ht
    · split at ht
      · simpa using mem_failTask ht
      · exact ht
  | fill n p => left; exact ht
  | unfill => left; exact ht
  | pake1 x p =>
    simp only [step] at ht
    split at ht
    · left; exact ht
    · rename_i t0 ht0
      split at ht
      · left; simpa using mem_removeTask ht
      · split at ht
        · left; simpa using mem_failTask ht
        · rename_i ctx hctx
          split at ht
          · left; simpa using mem_failTask ht
          · split at ht
            · left; simpa using mem_removeTask ht
            · rename_i w hw
              split at ht
              · rename_i a _
                rcases mem_setTask ht with h | h
                · right
                  subst h
                  simp only at hst
                  injection hst with hst hwid
                  obtain ⟨hw1, hw2⟩ := checkWindowTimeout_open hw
                  refine ⟨a, ctx, w, t0, rfl, ht0, hctx, ?_, ?_, ?_, ?_, ?_, hwid.symm⟩
                  · simpa using hw1
                  · simpa using hw2
                  · rw [← hst]
                  · rw [← hst]
                  · rw [← hst]
                · left; simpa using h
              · left; simpa using mem_failTask ht
  | pake3 x c =>
    left
    simp only [step] at ht
    repeat' split at ht
    all_goals first
      | exact ht
      | (simpa using mem_removeTask ht)
      | (simpa using mem_failTask ht)
  | other x =>
    left
    simp only [step] at ht
    split at ht
    · exact ht
    · split at ht
      · simpa using mem_removeTask ht
      · simpa using mem_failTask ht
  | dead x =>
    left
    simp only [step] at ht
    split at ht
    · exact ht
    · simpa using mem_failTask ht
theorem step_winInv (s : St) (op : Op) (h : WinInv s.window) : WinInv (step s op).1.window := by
  have h0 : (0 : Nat) < maxFailures := by decide
  cases op with
  | openWin pw secs =>
    simp only [step]
    split
    · exact h
    · split
      · exact h
      · intro w hw; simp only at hw; injection hw with hw; subst hw; exact h0
  | openEnh pw secs sl it d =>
    simp only [step]
    split
    · exact h
    · split
      · exact h
      · split
        · exact h
        · intro w hw; simp only at hw; injection hw with hw; subst hw; exact h0
  | revoke => exact winInv_none
  | tick ms => exact h
  | poll => exact winInv_check h
  | pbkdf x r v =>
    simp only [step]
    split
    · repeat' split
      all_goals first
        | exact winInv_fail
        | (simp only [removeTask_window, updateSessionTimeout_window]; exact h)
    · split
      · simp only [evictOne_window]; exact h
      · rename_i s1 h1
        apply pbkdfNew_winInv
        rw [(addSlot_core h1).2.1]; exact h
  | rxTimeout x =>
    simp only [step]
    repeat' split
    all_goals first
      | exact h
      | exact winInv_fail
  | fill n p => exact h
  | unfill => exact h
  | pake1 x p =>
    simp only [step]
    repeat' split
    all_goals first
      | exact h
      | exact winInv_fail
      | exact winInv_record
      | (simp only [removeTask_window, setTask_window, updateSessionTimeout_window]; exact h)
      | (simp only [removeTask_window, setTask_window]; apply winInv_check; simp only [updateSessionTimeout_window]; exact h)
  | pake3 x c =>
    simp only [step]
    repeat' split
    all_goals first
      | exact h
      | exact winInv_fail
      | exact winInv_record
      | (simp only [removeTask_window, setTask_window, updateSessionTimeout_window]; exact h)
      | (simp only [removeTask_window, setTask_window]; apply winInv_check; simp only [updateSessionTimeout_window]; exact h)
  | other x =>
    simp only [step]
    repeat' split
    all_goals first
      | exact h
      | exact winInv_fail
      | exact winInv_record
      | (simp only [removeTask_window, setTask_window, updateSessionTimeout_window]; exact h)
      | (simp only [removeTask_window, setTask_window]; apply winInv_check; simp only [updateSessionTimeout_window]; exact h)
  | dead x =>
    simp only [step]
    repeat' split
    all_goals first
      | exact h
      | exact winInv_fail
      | exact winInv_record
      | (simp only [removeTask_window, setTask_window, updateSessionTimeout_window]; exact h)
      | (simp only [removeTask_window, setTask_window]; apply winInv_check; simp only [updateSessionTimeout_window]; exact h)

/-! ## whole histories -/

theorem run_winInv (s : St) (ops : List Op) (h : WinInv s.window) : WinInv (run s ops).window := by
  induction ops generalizing s with
  | nil => exact h
  | cons o os ih => exact ih _ (step_winInv s o h)

/-- **Revoked after `maxPakeFailures`**: in every reachable state an open window has counted fewer
failures than the threshold — the step that would reach it closes the window instead. -/
theorem revoked_after_max (ops : List Op) (w : Window) (h : (run {} ops).window = some w) :
    w.failures < maxFailures :=
  run_winInv {} ops winInv_none w h

/-- **Every failed proof is counted**: a Pake3 whose confirmation value is not the expected one (on
a live handshake that holds the in-progress marker) increments the window's counter, or revokes the
window when that reaches the threshold. -/
theorem failed_proof_counted (s : St) (x : Nat) (c : CA) (t : Task) (exp : Conf) (wid : Nat) (w : Window)
    (ht : findTask s x = some t) (hst : t.stage = .waitPake3 exp wid)
    (hm : (updateSessionTimeout s x false).2 = none) (hc : c ≠ .mac exp)
    (hw : s.window = some w) (hid : w.id = wid) (hexp : s.now ≤ w.expiry) :
    (step s (.pake3 x c)).1.window =
      if w.failures + 1 ≥ maxFailures then none else some { w with failures := w.failures + 1 } := by
  subst hid
  have hcw : checkWindowTimeout (updateSessionTimeout s x false).fst = (updateSessionTimeout s x false).fst := by
    unfold checkWindowTimeout
    simp only [updateSessionTimeout_window, updateSessionTimeout_now, hw]
    split
    · omega
    · rfl
  simp only [step, ht, hm, hst, hcw, updateSessionTimeout_window, hw]
  split
  · simp only [failTask, recordFailure_window, removeTask_window, updateSessionTimeout_window, hw]
  · simp only [hc, if_false, failTask, recordFailure_window, removeTask_window,
      updateSessionTimeout_window, hw, beq_self_eq_true, Bool.not_true, Bool.false_eq_true]

/-- **Advertised ⇔ window present** (`Matter::mdns_services` publishes the commissionable record
exactly when `Pase::comm_window()` is `Some`), and one poll after the expiry the record is gone. -/
theorem advertised_iff_open (s : St) : advertised s = true ↔ s.window.isSome = true := Iff.rfl

theorem poll_closes_expired (s : St) (w : Window) (h : (step s .poll).1.window = some w) :
    (step s .poll).1.now ≤ w.expiry := by
  simp only [step] at h ⊢
  obtain ⟨_, h2⟩ := checkWindowTimeout_open h
  simpa using h2

/-- what the property demands of every PASE session that exists -/
def SessOK (x : Sess) : Prop := x.windowOpenAtCreation = true ∧ x.sameWindowAtCreation = true

theorem step_sessOK (s : St) (op : Op) (h : ∀ x ∈ s.sessions, SessOK x) :
    ∀ x ∈ (step s op).1.sessions, SessOK x := by
  intro x hx
  by_cases hold : x ∈ s.sessions
  · exact h x hold
  · obtain ⟨h1, h2, _⟩ := session_only_in_open_window s op x hx hold
    exact ⟨h1, h2⟩

/-- **For every history**: each PASE session that exists was created while the commissioning
window of its own proof was open and unexpired. -/
theorem every_session_in_open_window (ops : List Op) :
    ∀ x ∈ (run {} ops).sessions, SessOK x := by
  suffices h : ∀ (s : St), (∀ x ∈ s.sessions, SessOK x) → ∀ x ∈ (run s ops).sessions, SessOK x from
    h {} (fun _ hx => by cases hx)
  induction ops with
  | nil => intro s h; exact h
  | cons o os ih => intro s h; exact ih _ (step_sessOK s o h)

/-- sessions are never removed or altered by the responder: the list only grows -/
theorem sessions_prefix (s : St) (op : Op) : ∃ l, (step s op).1.sessions = s.sessions ++ l := by
  rcases session_implies_proof s op with h | ⟨_, _, _, _, _, _, _, _, _, _, _, _, h⟩
  · exact ⟨[], by simp [h]⟩
  · exact ⟨_, h⟩
/-- the threshold of the code is the property's *twenty* (breaks if the constant is changed) -/
theorem threshold_is_twenty : maxFailures = 20 := by decide

/-! ## Non-vacuity and the finding's history on the (fixed) model -/
namespace Ex
/-- ids are drawn from `fresh`: window id 0, transcript 1, responder share 2 -/
def conf : Conf := { pw := 7, ctx := 1, pA := 5, pB := 2 }
def honest : List Op := [.openWin 7 180, .pbkdf 1 .good none, .pake1 1 (.valid 5), .pake3 1 (.mac conf)]

/-- the honest run ends with one session, created in the open window of its own proof -/
example : (run {} honest).sessions =
    [{ exch := 1, conf := conf, windowOpenAtCreation := true, sameWindowAtCreation := true }] := by decide

/-- hypotheses of `session_only_in_open_window` / `session_implies_proof` (right disjunct) are met by the
last step of the honest run -/
example : ∃ s sess, sess ∈ (step s (.pake3 1 (.mac conf))).1.sessions ∧ sess ∉ s.sessions :=
  ⟨run {} (honest.take 3), { exch := 1, conf := conf, windowOpenAtCreation := true, sameWindowAtCreation := true },
    by decide, by decide⟩

/-- **the finding's history**: window revoked between Pake1 and Pake3 — no session, the message is dropped -/
example : (run {} [.openWin 7 180, .pbkdf 1 .good none, .pake1 1 (.valid 5), .revoke, .pake3 1 (.mac conf)]).sessions = [] := by
  decide
/-- … window expired between Pake1 and Pake3 (no poll in between) -/
example : (run {} [.openWin 7 180, .tick 170000, .pbkdf 1 .good none, .pake1 1 (.valid 5), .tick 20000,
    .pake3 1 (.mac conf)]).sessions = [] := by decide
/-- … window replaced by another one between Pake1 and Pake3 -/
example : (run {} [.openWin 7 180, .pbkdf 1 .good none, .pake1 1 (.valid 5), .revoke, .openWin 8 180,
    .pake3 1 (.mac conf)]).sessions = [] := by decide

/-- `wrong_passcode_never`: its hypothesis is satisfiable (the handshake expects passcode class 7) -/
example : (step (run {} (honest.take 3)) (.pake3 1 (.mac { conf with pw := 8 }))).1.sessions = [] := by decide
/-- `failed_proof_counted`: hypotheses satisfiable, and the counter moves 0 → 1 -/
example : ((step (run {} (honest.take 3)) (.pake3 1 (.junk 0))).1.window.map (·.failures)) = some 1 := by decide
/-- `waitPake3_only_by_valid_pake1`: an invalid share ends the handshake (and is counted) -/
example : (run {} [.openWin 7 180, .pbkdf 1 .good none, .pake1 1 .identity]).tasks = [] := by decide
example : ((run {} [.openWin 7 180, .pbkdf 1 .good none, .pake1 1 .offCurve]).window.map (·.failures)) = some 1 := by decide
/-- a second initiator while one is in progress is told `Busy` and is not counted -/
example : (step (run {} (honest.take 2)) (.pbkdf 2 .good none)).2 = .statusBusy := by decide
end Ex

end C02
