import RsMatterVerif.Model.BtpLink
import RsMatterVerif.Model.BtpRing
import Driver.Util
/-!
Driver for C18.  Replays the scheduler / injection operations of the harness on `Model/BtpLink`
(two `End`s + two FIFO queues), compares every answer and the window fields with what the real
`Btp` objects answered, and evaluates the specification of the property on the *implementation's*
outputs:

* no operation may panic;
* a data segment that violates the protocol (`Spec.mustReject`, evaluated on a ghost view that is
  maintained from the wire bytes only, plus the segment size the implementation reports) must be refused;
* the messages fetched at an end are a prefix of the reassembly of the segments that end accepted
  (`Spec.Reasm`), byte-identical — nothing corrupted, duplicated or reordered;
* an end never has more unacknowledged segments in flight than the negotiated window;
* when an acknowledgement is pending and the deadline has passed, `is_ack_due` answers yes and the
  pump emits it (if the send window has room);
* the connection idle timeout (`Btp::timeout`) is compared with the model's `isTimedOut` and may fire
  only while a segment is awaiting an acknowledgement;
* kind `l` (two well-behaved ends): no operation fails, and the messages fetched at one end are a
  prefix of the messages accepted for sending at the other end.
-/
namespace Driver.C18
open Btp

def hexDigit (c : Char) : Nat :=
  if '0' ≤ c ∧ c ≤ '9' then c.toNat - '0'.toNat
  else if 'a' ≤ c ∧ c ≤ 'f' then c.toNat - 'a'.toNat + 10
  else 0

def unhex (s : String) : List Nat :=
  if s = "-" then [] else
  let rec go : List Char → List Nat → List Nat
    | a :: b :: r, acc => go r ((hexDigit a * 16 + hexDigit b) :: acc)
    | _, acc => acc.reverse
  go s.toList []

def hexNib (n : Nat) : Char := if n < 10 then Char.ofNat (48 + n) else Char.ofNat (87 + n)

def hex (bs : List Nat) : String :=
  if bs.isEmpty then "-" else
  String.ofList (bs.foldr (fun b acc => hexNib (b / 16 % 16) :: hexNib (b % 16) :: acc) [])

/-- ghost state of one end, maintained from the wire bytes and the implementation's verdicts only -/
structure Ghost where
  dead : Bool := false
  hasWindow : Bool := false
  view : Spec.View := { lastSeq := 255, window := 0, unackedRx := 0, lastSent := 255, outstanding := 0, remaining := 0, segSize := 0 }
  reasm : Spec.Reasm := {}
  submitted : List (List Nat) := []
  fetched : List (List Nat) := []
  /-- caps used for the fetched messages (truncation is the caller's choice) -/
  fetchedCaps : List Nat := []
  lastRxAt : Nat := 0
  initiator : Bool := false
  /-- the 14 window fields the implementation reported last for this end -/
  impl : List Nat := []

structure St where
  /-- kind `r`: the model of the ring buffer (`Model/BtpRing.lean`) and, independently, the
  specification: a bounded FIFO of bytes -/
  ring : Option Ring := none
  ringN : Nat := 0
  ringQ : List Nat := []
  link : Link := {}
  ga : Ghost := {}
  gb : Ghost := {}
  wellBehaved : Bool := true
  now : Nat := 0

def St.ghost (st : St) : Side → Ghost
  | .a => st.ga
  | .b => st.gb

def St.setGhost (st : St) (x : Side) (g : Ghost) : St :=
  match x with
  | .a => { st with ga := g }
  | .b => { st with gb := g }

def b2n (b : Bool) : Nat := if b then 1 else 0

def stStr (e : End) : String :=
  ",".intercalate ([e.s.mtu, e.s.windowSize, b2n e.s.handshakePending, b2n e.s.established,
    e.s.send.level, e.s.send.lastSent, e.s.recv.level, e.s.recv.ackLevel, e.s.recv.ackSeq,
    e.s.recv.remMsgLen, e.s.recv.msgCt, e.s.recv.buf.length, e.sdu.length, e.off].map toString)

def parseSide (s : String) : Option Side :=
  if s = "a" then some .a else if s = "b" then some .b else none

def optMtu (n : Nat) : Option Nat := if n = 0 then none else some n

/-- result part of an implementation output `<res> | <state>` -/
def resPart (out : String) : String :=
  match out.splitOn " | " with
  | r :: _ => r.trimAscii.toString
  | [] => out

/-- state part of an implementation output `<res> | f0,…,f13` -/
def implFields (out : String) : List Nat :=
  match out.splitOn " | " with
  | _ :: f :: _ => (f.trimAscii.toString.splitOn ",").map (fun x => x.toNat?.getD 0)
  | _ => []

/-- established with an exhausted send window, according to the implementation's own report -/
def exhausted (g : Ghost) : Bool :=
  g.impl.length == 14 && g.impl.getD 3 0 == 1 && g.impl.getD 4 1 == 0

/-- **deadlock**: both ends are established, both send windows are exhausted, nothing is in flight
in either direction and a message is waiting to be sent: no acknowledgement can ever be sent again,
the message handed to the transport can never come out at the other side -/
def deadlocked (ga gb : Ghost) (qab qba : List (List Nat)) : Bool :=
  exhausted ga && exhausted gb && qab.isEmpty && qba.isEmpty &&
    (ga.impl.getD 12 0 > 0 || gb.impl.getD 12 0 > 0)

/-- prefix check with per-message truncation caps -/
def prefixCapped : List (List Nat) → List Nat → List (List Nat) → Bool
  | [], _, _ => true
  | _ :: _, _, [] => false
  | x :: xs, c :: cs, y :: ys => x == y.take c && prefixCapped xs cs ys
  | x :: xs, [], y :: ys => x == y && prefixCapped xs [] ys

/-- ghost update + specification check for a segment handed to end `x`; `implOk` = the implementation accepted it -/
def onRx (g : Ghost) (seg : List Nat) (implOk : Bool) (now : Nat) : Ghost × Option String :=
  match decodeHdr seg with
  | .error _ => (g, none)     -- not even a header: the property demands only "no crash"
  | .ok (h, payload) =>
    if h.hs then
      -- handshake segments: on acceptance the ghost learns the window
      if implOk then
        if g.initiator then
          match decodeResp payload with
          | .ok r =>
            -- the handshake response is the responder's segment number 0: it takes one slot of the
            -- window and has to be acknowledged like every other segment (deadline from now on)
            ({ g with hasWindow := true, reasm := {}, fetched := [], fetchedCaps := [], lastRxAt := now,
                      view := { lastSeq := 0, window := r.windowSize, unackedRx := 1, lastSent := 255,
                                outstanding := 0, remaining := 0, segSize := 0 } }, none)
          | .error _ => (g, none)
        else
          -- responder: the negotiated window is learnt from the response it emits (`onTx`); until
          -- then the requested window is an upper bound (the oracle stays on the lenient side)
          let rw := match decodeReq payload with | .ok q => q.windowSize | .error _ => 0
          ({ g with hasWindow := false, reasm := {}, fetched := [], fetchedCaps := [],
                    view := { lastSeq := 255, window := rw, unackedRx := 0, lastSent := 255,
                              outstanding := 0, remaining := 0, segSize := 0 } }, none)
      else (g, none)
    else
      -- the negotiated segment size is the one the implementation reports (field 0 of its state)
      let must := g.impl.length == 14 &&
        Spec.mustReject { g.view with segSize := g.impl.getD 0 0 } h payload
      if implOk then
        let why := if must then some s!"accepted a protocol-violating segment (seq={h.seqNum} ack={h.getAck} beg={h.beg} cont={h.cont} fin={h.fin} mgmt={h.mgmt} len={h.msgLen} payload={payload.length} view={repr g.view})" else none
        let v := g.view
        let remBase := if h.beg then h.msgLen else v.remaining
        let v' : Spec.View := { v with
          lastSeq := h.seqNum, unackedRx := v.unackedRx + 1,
          outstanding := if h.ack then wrapSub v.lastSent h.ackNum else v.outstanding,
          remaining := if h.fin then 0 else remBase - payload.length }
        ({ g with view := v', reasm := g.reasm.feed h payload, lastRxAt := now }, why)
      else (g, none)

/-- an acknowledgement is pending (something accepted since our last acknowledgement, and no
complete message waiting to be fetched) and its deadline has passed -/
def ackOverdue (g : Ghost) (now : Nat) : Bool :=
  g.hasWindow && g.view.unackedRx > 0 && g.fetched.length == g.reasm.done.length
    && g.lastRxAt + ackTimeoutSecs ≤ now

/-- ghost update + specification check for a segment emitted by end `x` -/
def onTx (g : Ghost) (seg : List Nat) (now : Nat) : Ghost × Option String :=
  match decodeHdr seg with
  | .error _ => (g, some "emitted an undecodable segment")
  | .ok (h, payload) =>
    if h.hs then
      if g.initiator then (g, none)
      else
        match decodeResp payload with
        | .ok r =>
          ({ g with hasWindow := true,
                    view := { g.view with window := r.windowSize, lastSent := 0, outstanding := 1 } }, none)
        | .error _ => (g, some "emitted a malformed handshake response")
    else
      let v := g.view
      let v' : Spec.View := { v with lastSent := h.seqNum, outstanding := v.outstanding + 1,
                                      unackedRx := if h.ack then 0 else v.unackedRx }
      let why :=
        if h.seqNum ≠ (v.lastSent + 1) % 256 then some s!"emitted sequence number {h.seqNum} after {v.lastSent}"
        else if v'.outstanding > v.window then some s!"{v'.outstanding} unacknowledged segments in flight, window {v.window}"
        else if !h.ack && ackOverdue g now then some "an acknowledgement is overdue, but the segment emitted does not carry it"
        else none
      ({ g with view := v' }, why)

def failStr : Fail → String
  | .panic _ => "panic"
  | f => s!"err {f.name}"

def verdict (ora : Option String) (model impl : String) : String :=
  match ora with
  | some why => s!"ORA {why}"
  | none => if model = impl then "ok" else s!"DIS {model}"

def obsStr (o : RingObs) : String :=
  s!"{hex o.out} {o.len} {o.free} {b2n o.full} {b2n o.empty}"

def parseRingOp : List String → Option RingOp
  | ["rpush", hx] => some (.push (unhex hx))
  | ["rpop", k] => some (.pop (k.toNat?.getD 0))
  | ["rpushb", b] => some (.pushByte (b.toNat?.getD 0 % 256))
  | ["rpopb"] => some .popByte
  | ["rclear"] => some .clear
  | _ => none

def step (st : St) (line : String) : St × String :=
  let (op, out) := splitArrow line
  match words op with
  | ["case", _, "r", ns] =>
    let n := ns.toNat?.getD 1
    ({ ring := some (Ring.new n), ringN := n, ringQ := [] }, "case")
  | "rpush" :: _ | "rpop" :: _ | "rpushb" :: _ | "rpopb" :: _ | "rclear" :: _ =>
    match st.ring, parseRingOp (words op) with
    | some r, some rop =>
      -- the checked model: a panic / endless loop of the model is an answer of its own
      let (r', mo) : Ring × String := match r.step rop with
        | .ok (r', o) => (r', obsStr o)
        | .error (.panic _) => (r, "panic")
        | .error .hang => (r, "hang")
      -- specification: the bounded byte FIFO, evaluated on the implementation's own output
      let (q', so) := qStep st.ringN st.ringQ rop
      let ora := if out = "panic" then some "panic"
        else if out ≠ obsStr so then some s!"ring buffer: the implementation answered '{out}', a byte queue of capacity {st.ringN} answers '{obsStr so}'"
        else none
      ({ st with ring := some r', ringQ := q' }, verdict ora mo out)
    | _, _ => (st, "BAD ring op")
  | "case" :: _ :: kind :: ia :: ib :: ga :: gb :: ra :: rb :: _ =>
    let n (s : String) := s.toNat?.getD 0
    let ea : End := { s := Session.fresh (n ia = 1) (n ra = 1), gattMtu := optMtu (n ga) }
    let eb : End := { s := Session.fresh (n ib = 1) (n rb = 1), gattMtu := optMtu (n gb) }
    ({ link := { a := ea, b := eb }, ga := { initiator := n ia = 1 }, gb := { initiator := n ib = 1 },
       wellBehaved := kind = "l", now := 0 }, "case")
  | ["tick", ns] =>
    let n := ns.toNat?.getD 0
    ({ st with link := { st.link with now := st.link.now + n }, now := st.now + n }, if out = "ok" then "ok" else "DIS ok")
  | ["hsw", xs, ws] =>
    match parseSide xs with
    | none => (st, "BAD side")
    | some x =>
      match st.link.inq x with
      | [0x65, 0x6c, v0, v1, v2, v3, m0, m1, _] :: rest =>
        ({ st with link := st.link.setInq x ([0x65, 0x6c, v0, v1, v2, v3, m0, m1, ws.toNat?.getD 1 % 256] :: rest) },
         if out = "ok" then "ok" else "DIS ok")
      | _ => (st, if out = "skip" then "ok" else "DIS skip")
  | cmd :: xs :: args =>
    match parseSide xs with
    | none => (st, "BAD side")
    | some x =>
      let g0 := st.ghost x
      let g := if (implFields out).length == 14 then { g0 with impl := implFields out } else g0
      if g.dead then (st, if out = "dead" then "ok" else "DIS dead") else
      let res := resPart out
      let e := st.link.get x
      let implPanic := res = "panic"
      let markDead (st : St) : St := if implPanic then st.setGhost x { st.ghost x with dead := true } else st
      let wb (why : Option String) (isErr : Bool) : Option String :=
        match why with
        | some w => some w
        | none =>
          if implPanic then some "panic"
          else if st.wellBehaved && isErr then some s!"operation failed between two well-behaved ends: {res}"
          else none
      match cmd, args with
      | "send", [hx] =>
        let m := unhex hx
        let (l', mo) : Link × String :=
          match e.send m with
          | .error f => (st.link, s!"{failStr f} | {stStr e}")
          | .ok (e', ok) => (st.link.set x e', s!"{if ok then "ok" else "busy"} | {stStr e'}")
        let g' := if res = "ok" then { g with submitted := g.submitted ++ [m] } else g
        let ora := if implPanic then some "panic" else none
        (markDead ({ st with link := l' }.setGhost x g'), verdict ora mo out)
      | "poll", [] =>
        let (l', mo) : Link × String :=
          match st.link.step (.poll x) with
          | .error f => (st.link, s!"{failStr f} | {stStr e}")
          | .ok (l', .tx seg) => (l', s!"tx {hex seg} | {stStr (l'.get x)}")
          | .ok (l', _) => (l', s!"none | {stStr (l'.get x)}")
        -- the queue content follows the implementation (it is what travels)
        let implSeg : Option (List Nat) := match words res with | ["tx", hx] => some (unhex hx) | _ => none
        let l'' := match implSeg with
          | some seg => l'.setInq x.other (st.link.inq x.other ++ [seg])
          | none => l'.setInq x.other (st.link.inq x.other)
        let (g', why) : Ghost × Option String := match implSeg with
          | some seg => onTx g seg st.now
          | none =>
            if res = "none" && ackOverdue g st.now && g.view.outstanding < g.view.window then
              (g, some "an acknowledgement is overdue and the send window has room, but nothing was sent")
            else if res = "none" && st.wellBehaved &&
                deadlocked g (st.ghost x.other) (st.link.inq .b) (st.link.inq .a) then
              (g, some "deadlock: both send windows are exhausted with nothing in flight and a message waiting - no acknowledgement can ever be sent")
            else (g, none)
        let ora := wb why (res.startsWith "err")
        (markDead ({ st with link := l'' }.setGhost x g'), verdict ora mo out)
      | "dlv", [] =>
        match st.link.inq x with
        | [] => (st, if res = "empty" then "ok" else "DIS empty")
        | seg :: rest =>
          let (l', mo) : Link × String :=
            match e.processIncoming seg st.link.now with
            | .error f => (st.link.setInq x rest, s!"{failStr f} | {stStr e}")
            | .ok e' => ((st.link.set x e').setInq x rest, s!"ok | {stStr e'}")
          let (g', why) := onRx g seg (res = "ok") st.now
          let ora := wb why (res.startsWith "err")
          (markDead ({ st with link := l' }.setGhost x g'), verdict ora mo out)
      | "inj", [hx] =>
        let seg := unhex hx
        let (l', mo) : Link × String :=
          match e.processIncoming seg st.link.now with
          | .error f => (st.link, s!"{failStr f} | {stStr e}")
          | .ok e' => (st.link.set x e', s!"ok | {stStr e'}")
        if st.wellBehaved then (st, "BAD injection into a well-behaved link") else
        let (g', why) := onRx g seg (res = "ok") st.now
        let ora := wb why false
        (markDead ({ st with link := l' }.setGhost x g'), verdict ora mo out)
      | "fetch", [cs] =>
        let cap := cs.toNat?.getD 0
        let (l', mo) : Link × String :=
          match e.recv cap with
          | .error f => (st.link, s!"{failStr f} | {stStr e}")
          | .ok (e', some m) => (st.link.set x e', s!"msg {hex m} | {stStr e'}")
          | .ok (e', none) => (st.link.set x e', s!"none | {stStr e'}")
        let (g', why) : Ghost × Option String :=
          match words res with
          | ["msg", hx] =>
            let m := unhex hx
            let g' := { g with fetched := g.fetched ++ [m], fetchedCaps := g.fetchedCaps ++ [cap] }
            let peer := st.ghost x.other
            if !prefixCapped g'.fetched g'.fetchedCaps g'.reasm.done then
              (g', some s!"fetched message #{g'.fetched.length} is not the reassembly of the accepted segments (got {m.length} bytes)")
            else if st.wellBehaved && !prefixCapped g'.fetched g'.fetchedCaps peer.submitted then
              (g', some s!"fetched message #{g'.fetched.length} differs from the message submitted at the other end (cut to the caller's buffer of {cap} bytes)")
            else (g', none)
          | _ => (g, none)
        let ora := wb why (res.startsWith "err")
        (markDead ({ st with link := l' }.setGhost x g'), verdict ora mo out)
      | "due", [] =>
        let d := e.s.isAckDue st.link.now ackTimeoutSecs
        let mo := if d then "1" else "0"
        let why := if ackOverdue g st.now && res = "0" then some "acknowledgement pending past the deadline but is_ack_due = false" else none
        (st, verdict (wb why false) mo out)
      | "tmo", [] =>
        -- `Btp::timeout()`: the connection idle timeout (`Session::is_timed_out`, 30 s)
        let d := e.timeout st.link.now
        let mo := if d then "1" else "0"
        -- specification: the session may only be declared dead while one of our segments is
        -- still awaiting an acknowledgement
        let why := if res = "1" && g.hasWindow && g.view.outstanding == 0 then
            some "the idle timeout fired although no segment is awaiting an acknowledgement" else none
        (st, verdict (wb why false) mo out)
      | _, _ => (st, "BAD op")
  | _ => (st, "BAD line")

def run : IO UInt32 := Driver.runLoop ({} : St) step

end Driver.C18
