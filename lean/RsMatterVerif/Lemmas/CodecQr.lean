import RsMatterVerif.Model.Codec.QrPayload
import RsMatterVerif.Lemmas.CodecBase38
import RsMatterVerif.Lemmas.CodecBuf
/-! # Lemmas about the QR onboarding payload (`Model/Codec/QrPayload.lean`)
Bit reader = bit field of the little-endian number; chunked bit packer = base-38 of the bytes; round trip. -/
namespace Codec.QrPayload
open Codec

/-! ### bytes as a little-endian number -/

theorem fromLe_append (a b : List Nat) : fromLe (a ++ b) = fromLe a + 256 ^ a.length * fromLe b := by
  induction a with
  | nil => simp [fromLe]
  | cons x r ih => simp only [List.cons_append, fromLe, ih, List.length_cons, Nat.pow_succ]; grind

theorem fromLe_lt : ∀ (l : List Nat), (∀ b ∈ l, b < 256) → fromLe l < 256 ^ l.length
  | [], _ => by simp [fromLe]
  | b :: r, h => by
    have hb := h b (by simp)
    have ih := fromLe_lt r (fun x hx => h x (by simp [hx]))
    simp only [fromLe, List.length_cons, Nat.pow_succ]
    have : 256 * (fromLe r + 1) ≤ 256 * 256 ^ r.length := Nat.mul_le_mul_left _ ih
    grind

/-- bit `j` of a byte string: the byte is in range and its bit is the bit of the number -/
theorem bitAt : ∀ (data : List Nat) (j : Nat), (∀ b ∈ data, b < 256) → j < data.length * 8 →
    ∃ byte, data[j / 8]? = some byte ∧ byte / 2 ^ (j % 8) % 2 = fromLe data / 2 ^ j % 2
  | [], j, _, hj => by simp at hj
  | b :: r, j, h, hj => by
    have hb := h b (by simp)
    by_cases h8 : j < 8
    · refine ⟨b, by simp [Nat.div_eq_of_lt h8], ?_⟩
      have hm : j % 8 = j := Nat.mod_eq_of_lt h8
      rw [hm]
      simp only [fromLe]
      have : j = 0 ∨ j = 1 ∨ j = 2 ∨ j = 3 ∨ j = 4 ∨ j = 5 ∨ j = 6 ∨ j = 7 := by omega
      rcases this with rfl | rfl | rfl | rfl | rfl | rfl | rfl | rfl <;> simp <;> omega
    · have hj' : j - 8 < r.length * 8 := by simp at hj; omega
      obtain ⟨byte, hbyte, hbit⟩ := bitAt r (j - 8) (fun x hx => h x (by simp [hx])) hj'
      refine ⟨byte, ?_, ?_⟩
      · have : j / 8 = (j - 8) / 8 + 1 := by omega
        rw [this]; simpa using hbyte
      · have e1 : j % 8 = (j - 8) % 8 := by omega
        rw [e1, hbit]
        simp only [fromLe]
        have e2 : 2 ^ j = 256 * 2 ^ (j - 8) := by
          have : j = 8 + (j - 8) := by omega
          conv => lhs; rw [this, Nat.pow_add]
        rw [e2, ← Nat.div_div_eq_div_mul]
        have e3 : (b + 256 * fromLe r) / 256 = fromLe r := by omega
        rw [e3]

/-- the read loop computes the bit field of the little-endian number -/
theorem readLoop (data : List Nat) (pos : Nat) (hd : ∀ b ∈ data, b < 256) :
    ∀ len, pos + len ≤ data.length * 8 →
    (List.range len).foldlM (readStep data pos) 0 = .ok (fromLe data / 2 ^ pos % 2 ^ len) := by
  intro len
  induction len with
  | zero => intro _; simp [Nat.mod_one, pure, Except.pure]
  | succ n ih =>
    intro hl
    rw [List.range_succ, List.foldlM_append, ih (by omega)]
    obtain ⟨byte, hbyte, hbit⟩ := bitAt data (pos + n) hd (by omega)
    simp only [bind, Except.bind, List.foldlM_cons, List.foldlM_nil, readStep, hbyte, hbit, pure, Except.pure]
    congr 1
    rw [Nat.mod_pow_succ, Nat.div_div_eq_div_mul, ← Nat.pow_add]

theorem readBits_eq (data : List Nat) (pos len : Nat) (hd : ∀ b ∈ data, b < 256) (hl : pos + len ≤ data.length * 8) :
    readBits data pos len = .ok (fromLe data / 2 ^ pos % 2 ^ len) := by
  unfold readBits
  have : ¬ (pos + len > data.length * 8) := by omega
  simp only [this, if_false]
  exact readLoop data pos hd len hl

/-- reading never panics, whatever the bytes -/
theorem readBits_np (data : List Nat) (pos len : Nat) : NoPanic (readBits data pos len) := by
  unfold readBits
  split
  · exact NoPanic.err (by decide)
  · rename_i hl
    have hl' : pos + len ≤ data.length * 8 := by omega
    -- every index met by the loop is in range
    suffices h : ∀ (n : Nat) (v0 : Nat), n ≤ len →
        ∃ v, (List.range n).foldlM (readStep data pos) v0 = .ok v by
      obtain ⟨v, hv⟩ := h len 0 (Nat.le_refl _)
      rw [hv]; exact NoPanic.ok _
    intro n
    induction n with
    | zero => intro v0 _; exact ⟨v0, rfl⟩
    | succ k ih =>
      intro v0 hk
      obtain ⟨v, hv⟩ := ih v0 (by omega)
      rw [List.range_succ, List.foldlM_append, hv]
      have hidx : (pos + k) / 8 < data.length := by omega
      simp only [bind, Except.bind, List.foldlM_cons, List.foldlM_nil, readStep, List.getElem?_eq_getElem hidx]
      exact ⟨_, rfl⟩

end Codec.QrPayload

namespace Codec.QrPayload
open Codec

theorem leBytes_succ3 (v n : Nat) :
    Base38.leBytes v (n + 3) = v % 256 :: (v / 256 % 256) :: (v / 65536 % 256) :: Base38.leBytes (v / 16777216) n := by
  have e1 : v / 256 / 256 = v / 65536 := by omega
  have e2 : v / 256 / 256 / 256 = v / 16777216 := by omega
  simp only [Base38.leBytes, e1]
  rw [← e2, e1]

theorem leBytes_lt : ∀ (n v : Nat), ∀ b ∈ Base38.leBytes v n, b < 256
  | 0, _, b, h => by simp [Base38.leBytes] at h
  | n + 1, v, b, h => by
    simp only [Base38.leBytes, List.mem_cons] at h
    rcases h with rfl | h
    · omega
    · exact leBytes_lt n _ b h

theorem leBytes_length : ∀ (n v : Nat), (Base38.leBytes v n).length = n
  | 0, _ => rfl
  | n + 1, v => by simp [Base38.leBytes, leBytes_length n]

/-- **the chunked bit packer + `encode_bits` is the base-38 encoding of the stream's bytes** -/
theorem packEncode_eq : ∀ (n fuel v : Nat), 8 * n < fuel →
    packEncode fuel (v, 8 * n) = Base38.encode (Base38.leBytes v n)
  | 0, fuel, v, hf => by
    obtain ⟨f, rfl⟩ : ∃ f, fuel = f + 1 := ⟨fuel - 1, by omega⟩
    simp [packEncode, Base38.leBytes, Base38.encode]
  | 1, fuel, v, hf => by
    obtain ⟨f, rfl⟩ : ∃ f, fuel = f + 1 := ⟨fuel - 1, by omega⟩
    obtain ⟨g, rfl⟩ : ∃ g, f = g + 1 := ⟨f - 1, by omega⟩
    simp [packEncode, Base38.leBytes, Base38.encode, Base38.encodeBits, bind, Except.bind, pure, Except.pure]
    cases Base38.encChunk (v % 256) 2 <;> simp
  | 2, fuel, v, hf => by
    obtain ⟨f, rfl⟩ : ∃ f, fuel = f + 1 := ⟨fuel - 1, by omega⟩
    obtain ⟨g, rfl⟩ : ∃ g, f = g + 1 := ⟨f - 1, by omega⟩
    have e : v % 256 + 256 * (v / 256 % 256) = v % 65536 := by omega
    simp [packEncode, Base38.leBytes, Base38.encode, Base38.encodeBits, bind, Except.bind, pure, Except.pure, e]
    cases Base38.encChunk (v % 65536) 4 <;> simp
  | n + 3, fuel, v, hf => by
    obtain ⟨f, rfl⟩ : ∃ f, fuel = f + 1 := ⟨fuel - 1, by omega⟩
    have hk : min 24 (8 * (n + 3)) = 24 := by omega
    have hn0 : ¬ (8 * (n + 3) = 0) := by omega
    have hrest : 8 * (n + 3) - 24 = 8 * n := by omega
    have e : v % 256 + 256 * (v / 256 % 256) + 65536 * (v / 65536 % 256) = v % 16777216 := by omega
    have ih := packEncode_eq n f (v / 16777216) (by omega)
    rw [leBytes_succ3]
    simp only [packEncode, hn0, if_false, hk, Base38.encodeBits, Base38.encode, e, hrest, ih]
    simp [bind, Except.bind, pure, Except.pure]

theorem emit_fold (tlv : List Nat) (h : ∀ b ∈ tlv, b < 256) : ∀ (s : Bits),
    tlv.foldl (fun s b => emit s b 8) s = (s.1 + 2 ^ s.2 * fromLe tlv, s.2 + 8 * tlv.length) := by
  induction tlv with
  | nil => intro s; simp [fromLe]
  | cons b r ih =>
    intro s
    have hb := h b (by simp)
    have e : b % 2 ^ 8 = b := by simp; omega
    rw [List.foldl_cons, ih (fun x hx => h x (by simp [hx]))]
    simp only [emit, e, fromLe, List.length_cons, Nat.pow_add]
    refine Prod.ext ?_ ?_ <;> simp <;> grind

/-- the fixed 88 bits as a number -/
def fixedNum (q : Qr) : Nat :=
  q.version + 8 * q.vid + 524288 * q.pid + 34359738368 * q.flow + 137438953472 * q.rendezvous +
  35184372088832 * q.disc + 144115188075855872 * q.pass

theorem allBits_eq (q : Qr) (hwf : WF q) :
    allBits q = (fixedNum q + 2 ^ 88 * fromLe q.tlv, 8 * (11 + q.tlv.length)) := by
  obtain ⟨h1, h2, h3, h4, h5, h6, h7, h8⟩ := hwf
  have e1 : q.version % 2 ^ 3 = q.version := Nat.mod_eq_of_lt (by simpa using h1)
  have e2 : q.vid % 2 ^ 16 = q.vid := Nat.mod_eq_of_lt (by simpa using h2)
  have e3 : q.pid % 2 ^ 16 = q.pid := Nat.mod_eq_of_lt (by simpa using h3)
  have e4 : q.flow % 2 ^ 2 = q.flow := Nat.mod_eq_of_lt (by simp; omega)
  have e5 : q.rendezvous % 2 ^ 8 = q.rendezvous := Nat.mod_eq_of_lt (by simp; omega)
  have e6 : q.disc % 2 ^ 12 = q.disc := Nat.mod_eq_of_lt (by simpa using h6)
  have e7 : q.pass % 2 ^ 27 = q.pass := Nat.mod_eq_of_lt (by simpa using h7)
  unfold allBits
  simp only [emit_fold q.tlv h8]
  simp only [emit, VERSION_BITS, VID_BITS, PID_BITS, FLOW_BITS, RENDEZVOUS_BITS,
    DISC_BITS, PASS_BITS, PADDING_BITS, Consts.c17QrVersionBits, Consts.c17QrVidBits, Consts.c17QrPidBits, Consts.c17QrFlowBits, Consts.c17QrRendezvousBits, Consts.c17QrDiscBits, Consts.c17QrPassBits, Consts.c17QrPaddingBits, e1, e2, e3, e4, e5, e6, e7, fixedNum]
  refine Prod.ext ?_ ?_ <;> simp <;> omega

end Codec.QrPayload

namespace Codec.QrPayload
open Codec

theorem fromLe_leBytes : ∀ (n v : Nat), fromLe (Base38.leBytes v n) = v % 256 ^ n
  | 0, v => by simp [Base38.leBytes, fromLe, Nat.mod_one]
  | n + 1, v => by
    simp only [Base38.leBytes, fromLe, fromLe_leBytes n]
    rw [Nat.pow_succ', Nat.mod_mul]

theorem leBytes_drop : ∀ (a b v : Nat), (Base38.leBytes v (a + b)).drop a = Base38.leBytes (v / 256 ^ a) b
  | 0, b, v => by simp
  | a + 1, b, v => by
    have : a + 1 + b = (a + b) + 1 := by omega
    rw [this]
    simp only [Base38.leBytes, List.drop_succ_cons, leBytes_drop a b]
    rw [Nat.pow_succ', Nat.div_div_eq_div_mul]

theorem leBytes_fromLe : ∀ (l : List Nat), (∀ b ∈ l, b < 256) → Base38.leBytes (fromLe l) l.length = l
  | [], _ => rfl
  | b :: r, h => by
    have hb := h b (by simp)
    have e1 : (b + 256 * fromLe r) % 256 = b := by omega
    have e2 : (b + 256 * fromLe r) / 256 = fromLe r := by omega
    simp only [fromLe, List.length_cons, Base38.leBytes, e1, e2, leBytes_fromLe r (fun x hx => h x (by simp [hx]))]

theorem fixedNum_lt (q : Qr) (hwf : WF q) : fixedNum q < 2 ^ 88 := by
  obtain ⟨h1, h2, h3, h4, h5, h6, h7, _⟩ := hwf
  simp only [fixedNum]; omega

theorem field_extract (a b c d e f g T : Nat) (h1 : a < 8) (h2 : b < 65536) (h3 : c < 65536) (h4 : d < 3)
    (h5 : e < 8) (h6 : f < 4096) (h7 : g < 134217728) :
    let N := a + 8 * b + 524288 * c + 34359738368 * d + 137438953472 * e + 35184372088832 * f +
      144115188075855872 * g + 309485009821345068724781056 * T
    N / 1 % 8 = a ∧ N / 8 % 65536 = b ∧ N / 524288 % 65536 = c ∧ N / 34359738368 % 4 = d ∧
    N / 137438953472 % 256 = e ∧ N / 35184372088832 % 4096 = f ∧ N / 144115188075855872 % 134217728 = g := by
  intro N
  refine ⟨?_, ?_, ?_, ?_, ?_, ?_, ?_⟩ <;> omega

/-- **QR payload: `parse (as_str q) = q`** for every payload within the field widths, with any optional-TLV
bytes, provided the scratch buffer holds the decoded bytes -/
theorem parse_encode (q : Qr) (hwf : WF q) (hver : q.version = 0) (cap : Nat) (hcap : 11 + q.tlv.length ≤ cap) :
    ∃ cs, encode q = .ok cs ∧ parse cs cap = .ok q := by
  have hF := fixedNum_lt q hwf
  obtain ⟨h1, h2, h3, h4, h5, h6, h7, h8⟩ := hwf
  have hfl : ¬ (q.flow > 2) := by omega
  have hver0 : ¬ (q.version ≠ 0) := by omega
  have hr : q.rendezvous % 8 = q.rendezvous := by omega
  have hT := fromLe_lt q.tlv h8
  generalize hTd : fromLe q.tlv = T at hT
  generalize hFd : fixedNum q = F at hF
  have hall := allBits_eq q ⟨h1, h2, h3, h4, h5, h6, h7, h8⟩
  rw [hTd, hFd] at hall
  let bytes := Base38.leBytes (F + 2 ^ 88 * T) (11 + q.tlv.length)
  have hblt : ∀ b ∈ bytes, b < 256 := leBytes_lt _ _
  have hblen : bytes.length = 11 + q.tlv.length := leBytes_length _ _
  obtain ⟨cs, hcs, hdec⟩ := Base38.decode_encode bytes hblt
  refine ⟨PREFIX ++ cs, ?_, ?_⟩
  · simp only [encode, hall]
    rw [packEncode_eq (11 + q.tlv.length) _ _ (by omega)]
    show (do let body ← Base38.encode bytes; pure (PREFIX ++ body)) = _
    rw [hcs]; rfl
  · have hN : fromLe bytes = F + 2 ^ 88 * T := by
      show fromLe (Base38.leBytes _ _) = _
      rw [fromLe_leBytes]
      apply Nat.mod_eq_of_lt
      have : (256 : Nat) ^ (11 + q.tlv.length) = 2 ^ 88 * 256 ^ q.tlv.length := by
        rw [Nat.pow_add]
      rw [this]
      have : 2 ^ 88 * (T + 1) ≤ 2 ^ 88 * 256 ^ q.tlv.length := Nat.mul_le_mul_left _ hT
      grind
    have hdrop : bytes.drop TOTAL_BYTES = q.tlv := by
      show (Base38.leBytes _ (11 + q.tlv.length)).drop 11 = _
      rw [leBytes_drop]
      have : (F + 2 ^ 88 * T) / 256 ^ 11 = T := by
        have : (256 : Nat) ^ 11 = 2 ^ 88 := by decide
        rw [this, Nat.add_mul_div_left _ _ (by decide), Nat.div_eq_of_lt hF]; simp
      rw [this, ← hTd, leBytes_fromLe q.tlv h8]
    have rd : ∀ pos len, pos + len ≤ 88 → readBits bytes pos len = .ok ((F + 2 ^ 88 * T) / 2 ^ pos % 2 ^ len) := by
      intro pos len hl
      rw [readBits_eq bytes pos len hblt (by rw [hblen]; omega), hN]
    have hsp : stripPrefix (PREFIX ++ cs) = some cs := rfl
    have hl1 : ¬ (bytes.length > cap) := by rw [hblen]; omega
    have htb : TOTAL_BYTES = 11 := by decide
    have hl2 : ¬ (bytes.length < TOTAL_BYTES) := by rw [hblen, htb]; omega
    obtain ⟨f1, f2, f3, f4, f5, f6, f7⟩ := field_extract q.version q.vid q.pid q.flow q.rendezvous q.disc q.pass T
      h1 h2 h3 h4 h5 h6 h7
    have g1 : (F + 2 ^ 88 * T) / 2 ^ 0 % 2 ^ 3 = q.version := by
      rw [← hFd]; simp only [fixedNum, Nat.reducePow]; exact f1
    have g2 : (F + 2 ^ 88 * T) / 2 ^ 3 % 2 ^ 16 = q.vid := by
      rw [← hFd]; simp only [fixedNum, Nat.reducePow]; exact f2
    have g3 : (F + 2 ^ 88 * T) / 2 ^ 19 % 2 ^ 16 = q.pid := by
      rw [← hFd]; simp only [fixedNum, Nat.reducePow]; exact f3
    have g4 : (F + 2 ^ 88 * T) / 2 ^ 35 % 2 ^ 2 = q.flow := by
      rw [← hFd]; simp only [fixedNum, Nat.reducePow]; exact f4
    have g5 : (F + 2 ^ 88 * T) / 2 ^ 37 % 2 ^ 8 = q.rendezvous := by
      rw [← hFd]; simp only [fixedNum, Nat.reducePow]; exact f5
    have g6 : (F + 2 ^ 88 * T) / 2 ^ 45 % 2 ^ 12 = q.disc := by
      rw [← hFd]; simp only [fixedNum, Nat.reducePow]; exact f6
    have g7 : (F + 2 ^ 88 * T) / 2 ^ 57 % 2 ^ 27 = q.pass := by
      rw [← hFd]; simp only [fixedNum, Nat.reducePow]; exact f7
    simp only [parse, hsp, hdec, bind, Except.bind, pure, Except.pure, hl1, hl2, if_false,
      rd 0 3 (by decide), rd 3 16 (by decide), rd 19 16 (by decide), rd 35 2 (by decide), rd 37 8 (by decide),
      rd 45 12 (by decide), rd 57 27 (by decide), rd 84 4 (by decide),
      VERSION_BITS, VID_BITS, PID_BITS, FLOW_BITS, RENDEZVOUS_BITS, DISC_BITS, PASS_BITS, PADDING_BITS, Consts.c17QrVersionBits, Consts.c17QrVidBits, Consts.c17QrPidBits, Consts.c17QrFlowBits, Consts.c17QrRendezvousBits, Consts.c17QrDiscBits, Consts.c17QrPassBits, Consts.c17QrPaddingBits, hdrop,
      g1, g2, g3, g4, g5, g6, g7, hfl, hr, hver0]

end Codec.QrPayload

namespace Codec.QrPayload
open Codec

/-- **QR payload: `parse` is total and never panics**, for every string and buffer size -/
theorem parse_np (s : List Nat) (cap : Nat) : NoPanic (parse s cap) := by
  unfold parse
  cases stripPrefix s with
  | none => exact NoPanic.err (by decide)
  | some body =>
    simp only [bind, Except.bind, pure, Except.pure]
    cases hd : Base38.decode body with
    | mk bytes err =>
      simp only
      split
      · exact NoPanic.err (by decide)
      · cases err with
        | some e =>
          have := Base38.decode_error body e (by rw [hd])
          subst this; exact NoPanic.err (by decide)
        | none =>
          simp only
          split
          · exact NoPanic.err (by decide)
          · refine NoPanic.bind (readBits_np _ _ _) (fun _ => ?_)
            refine NoPanic.ite (NoPanic.err (by decide)) ?_
            refine NoPanic.bind (readBits_np _ _ _) (fun _ => ?_)
            refine NoPanic.bind (readBits_np _ _ _) (fun _ => ?_)
            refine NoPanic.bind (readBits_np _ _ _) (fun _ => ?_)
            refine NoPanic.ite (NoPanic.err (by decide)) ?_
            refine NoPanic.bind (readBits_np _ _ _) (fun _ => ?_)
            refine NoPanic.bind (readBits_np _ _ _) (fun _ => ?_)
            refine NoPanic.bind (readBits_np _ _ _) (fun _ => ?_)
            refine NoPanic.bind (readBits_np _ _ _) (fun _ => ?_)
            exact NoPanic.pure _

/-- a text without the `MT:` prefix is refused -/
theorem parse_rejects_prefix (s : List Nat) (cap : Nat) (h : stripPrefix s = none) :
    parse s cap = .error .invalidData := by
  simp [parse, h, bind, Except.bind]

/-- a body containing a character outside the base-38 alphabet, or of an impossible length class, is refused:
`InvalidData`, or `BufferTooSmall` when the bytes decoded before the bad chunk already exceed the scratch buffer -/
theorem parse_rejects_bad_base38 (body : List Nat) (cap : Nat)
    (h : (∃ c ∈ body, c ∉ Base38.alphabet) ∨ body.length % 5 = 1 ∨ body.length % 5 = 3) :
    parse (PREFIX ++ body) cap = .error .invalidData ∨ parse (PREFIX ++ body) cap = .error .bufferTooSmall := by
  have hsp : stripPrefix (PREFIX ++ body) = some body := rfl
  have herr : (Base38.decode body).2 = some .invalidData := by
    rcases h with ⟨c, hc, hbad⟩ | hl
    · have hb : Base38.decChar c = .error .invalidData := by
        rcases Base38.decChar_cases c with ⟨d, _, _, ha⟩ | he
        · exact absurd (List.mem_of_getElem? ha) hbad
        · exact he
      exact Base38.decode_rejects_invalid_char body c hc hb
    · exact Base38.decode_rejects_bad_length body hl
  simp only [parse, hsp, bind, Except.bind, pure, Except.pure]
  cases hd : Base38.decode body with
  | mk bytes err =>
    rw [hd] at herr; simp only at herr; subst herr
    simp only
    split
    · exact Or.inr rfl
    · exact Or.inl rfl

/-- a body that decodes to fewer than 11 bytes is refused (`BufferTooSmall` only if the buffer is smaller still) -/
theorem parse_rejects_short (body bytes : List Nat) (cap : Nat) (hd : Base38.decode body = (bytes, none))
    (hl : bytes.length < 11) :
    parse (PREFIX ++ body) cap = .error .invalidData ∨ parse (PREFIX ++ body) cap = .error .bufferTooSmall := by
  have hsp : stripPrefix (PREFIX ++ body) = some body := rfl
  have htb : TOTAL_BYTES = 11 := by decide
  simp only [parse, hsp, bind, Except.bind, pure, Except.pure, hd]
  split
  · exact Or.inr rfl
  · simp [htb, hl]

/-- the undefined commissioning flow (value 3 of the 2-bit field) is refused -/
theorem parse_rejects_flow (body bytes : List Nat) (cap : Nat) (hd : Base38.decode body = (bytes, none))
    (hb : ∀ b ∈ bytes, b < 256) (hl : 11 ≤ bytes.length) (hcap : bytes.length ≤ cap)
    (hflow : fromLe bytes / 2 ^ 35 % 2 ^ 2 = 3) : parse (PREFIX ++ body) cap = .error .invalidData := by
  have hsp : stripPrefix (PREFIX ++ body) = some body := rfl
  have htb : TOTAL_BYTES = 11 := by decide
  have rd : ∀ pos len, pos + len ≤ 88 → readBits bytes pos len = .ok (fromLe bytes / 2 ^ pos % 2 ^ len) :=
    fun pos len h => readBits_eq bytes pos len hb (by omega)
  have hl1 : ¬ (bytes.length > cap) := by omega
  have hl2 : ¬ (bytes.length < TOTAL_BYTES) := by rw [htb]; omega
  simp [parse, hsp, hd, bind, Except.bind, pure, Except.pure, hl1, hl2,
    rd 0 3 (by decide), rd 3 16 (by decide), rd 19 16 (by decide), rd 35 2 (by decide),
    VERSION_BITS, VID_BITS, PID_BITS, FLOW_BITS, hflow, Consts.c17QrVersionBits, Consts.c17QrVidBits, Consts.c17QrPidBits, Consts.c17QrFlowBits, Consts.c17QrRendezvousBits, Consts.c17QrDiscBits, Consts.c17QrPassBits, Consts.c17QrPaddingBits]

/-- **a version field other than 0 (a future payload format) is refused** (fix `C17-qr-version-accepted`) -/
theorem parse_rejects_version (body bytes : List Nat) (cap : Nat) (hd : Base38.decode body = (bytes, none))
    (hb : ∀ b ∈ bytes, b < 256) (hl : 11 ≤ bytes.length) (hcap : bytes.length ≤ cap)
    (hver : fromLe bytes % 2 ^ 3 ≠ 0) : parse (PREFIX ++ body) cap = .error .invalidData := by
  have hsp : stripPrefix (PREFIX ++ body) = some body := rfl
  have htb : TOTAL_BYTES = 11 := by decide
  have rd : readBits bytes 0 3 = .ok (fromLe bytes / 2 ^ 0 % 2 ^ 3) := readBits_eq bytes 0 3 hb (by omega)
  have hl1 : ¬ (bytes.length > cap) := by omega
  have hl2 : ¬ (bytes.length < TOTAL_BYTES) := by rw [htb]; omega
  have hv : fromLe bytes % 8 ≠ 0 := by simpa using hver
  simp [parse, hsp, hd, bind, Except.bind, pure, Except.pure, hl1, hl2, rd, VERSION_BITS, Consts.c17QrVersionBits]
  intro h0
  exact absurd h0 hv

/-- whatever `parse` accepts has version 0 and a defined commissioning flow -/
theorem parse_ok_version_flow (s : List Nat) (cap : Nat) (q : Qr) (h : parse s cap = .ok q) :
    q.version = 0 ∧ q.flow ≤ 2 := by
  unfold parse at h
  cases hp : stripPrefix s with
  | none => rw [hp] at h; simp [bind, Except.bind] at h
  | some body =>
    rw [hp] at h
    simp only [bind, Except.bind, pure, Except.pure] at h
    cases hdec : Base38.decode body with
    | mk bytes err =>
      rw [hdec] at h
      simp only at h
      split at h
      · cases h
      · cases err with
        | some e => cases h
        | none =>
          simp only at h
          split at h
          · cases h
          · cases h1 : readBits bytes 0 VERSION_BITS with
            | error e => rw [h1] at h; cases h
            | ok version =>
              rw [h1] at h; simp only at h
              split at h
              · cases h
              · rename_i hv
                cases h2 : readBits bytes 3 VID_BITS with
                | error e => rw [h2] at h; cases h
                | ok vid =>
                  rw [h2] at h; simp only at h
                  cases h3 : readBits bytes 19 PID_BITS with
                  | error e => rw [h3] at h; cases h
                  | ok pid =>
                    rw [h3] at h; simp only at h
                    cases h4 : readBits bytes 35 FLOW_BITS with
                    | error e => rw [h4] at h; cases h
                    | ok flow =>
                      rw [h4] at h; simp only at h
                      split at h
                      · cases h
                      · rename_i hf
                        cases h5 : readBits bytes 37 RENDEZVOUS_BITS with
                        | error e => rw [h5] at h; cases h
                        | ok rdv =>
                          rw [h5] at h; simp only at h
                          cases h6 : readBits bytes 45 DISC_BITS with
                          | error e => rw [h6] at h; cases h
                          | ok disc =>
                            rw [h6] at h; simp only at h
                            cases h7 : readBits bytes 57 PASS_BITS with
                            | error e => rw [h7] at h; cases h
                            | ok pass =>
                              rw [h7] at h; simp only at h
                              cases h8 : readBits bytes 84 PADDING_BITS with
                              | error e => rw [h8] at h; cases h
                              | ok pad =>
                                rw [h8] at h; simp only at h
                                injection h with h
                                subst h
                                exact ⟨by simpa using hv, by simp only; omega⟩

end Codec.QrPayload
