import RsMatterVerif.Lemmas.AdminRefs
/-!
# Lemmas for C07 (ghost generations): nothing refers to a fabric of another incarnation

`Fabric.gen` is ghost state: fresh for every `AddNOC`.  A session / resumption record carries the
generation of the fabric it was made for.  `NoDangling` says that whatever is usable refers to a
fabric that exists WITH THAT GENERATION, so the re-use of a fabric index is covered by the invariant
itself.  It is an invariant together with `StoreSub` (a stored fabric blob is the stored copy of the
fabric the node has at that index), for every history without restart / factory reset - store faults
included.  Restarts need the stored resumption records to fit the stored fabrics (`RecOK`).
-/
namespace Admin

def fabGen (n : Node) (i : Nat) : Option Nat := (getFabric n i).map (·.gen)

/-- every non-expired secure session and every resumption record refers to a fabric that exists
WITH THE GENERATION it was made for -/
def NoDangling (n : Node) : Prop :=
  (∀ s ∈ n.sessions, s.expired = false → s.mode.fab ≠ 0 → fabGen n s.mode.fab = some s.gen) ∧
  (∀ r ∈ n.resum, fabGen n r.fab = some r.gen)

/-- a stored fabric blob is the stored copy of the fabric the node has at that index -/
def StoreSub (n : Node) : Prop :=
  ∀ i f', kvF n.kv i = some f' → ∃ f, getFabric n i = some f ∧ f.gen = f'.gen

def GenInv (n : Node) : Prop := NoDangling n ∧ StoreSub n

theorem fabGen_congr {n n' : Node} (h : n'.fabrics = n.fabrics) (i : Nat) : fabGen n' i = fabGen n i := by
  simp only [fabGen, getFabric, h]

/-- nothing the invariant looks at changes -/
theorem genInv_same {n n' : Node} (h1 : n'.fabrics = n.fabrics) (h2 : n'.sessions = n.sessions)
    (h3 : n'.resum = n.resum) (h4 : n'.kv.fabs = n.kv.fabs) (h : GenInv n) : GenInv n' := by
  unfold GenInv NoDangling StoreSub fabGen getFabric kvF at *
  simp only [h1, h2, h3, h4]
  exact h

/-- fewer references, same fabrics -/
theorem noDangling_sub {n n' : Node} (hf : ∀ i g, fabGen n i = some g → fabGen n' i = some g)
    (hs : ∀ s' ∈ n'.sessions, s'.expired = false → s'.mode.fab ≠ 0 →
        ∃ s ∈ n.sessions, s.expired = false ∧ s.mode.fab = s'.mode.fab ∧ s.gen = s'.gen)
    (hr : ∀ r' ∈ n'.resum, ∃ r ∈ n.resum, r.fab = r'.fab ∧ r.gen = r'.gen) (h : NoDangling n) : NoDangling n' := by
  refine ⟨fun s' hs' he hf0 => ?_, fun r' hr' => ?_⟩
  · obtain ⟨s, hsm, hse, hsf, hsg⟩ := hs s' hs' he hf0
    rw [← hsf, ← hsg]
    exact hf _ _ (h.1 s hsm hse (by rw [hsf]; exact hf0))
  · obtain ⟨r, hrm, hrf, hrg⟩ := hr r' hr'
    rw [← hrf, ← hrg]
    exact hf _ _ (h.2 r hrm)

theorem fabGen_setFabric (n : Node) (f f' : Fabric) (hidx : f'.idx = f.idx) (hgen : f'.gen = f.gen)
    (hget : getFabric n f.idx = some f) (i : Nat) : fabGen (setFabric n f') i = fabGen n i := by
  unfold fabGen
  rw [getFabric_setFabric, hidx]
  by_cases hi : i = f.idx
  · subst hi; simp [hget, hgen]
  · simp [hi]

theorem getFabric_setFabric_eq (n : Node) (f f' : Fabric) (hidx : f'.idx = f.idx)
    (hget : getFabric n f.idx = some f) (i : Nat) :
    getFabric (setFabric n f') i = if i = f.idx then some f' else getFabric n i := by
  rw [getFabric_setFabric, hidx]
  by_cases hi : i = f.idx
  · subst hi; simp [hget]
  · simp [hi]

/-- replacing a fabric record by one of the same index and generation (ACL / group / label write,
`UpdateNOC`) -/
theorem genInv_setFabric (n : Node) (f f' : Fabric) (hidx : f'.idx = f.idx) (hgen : f'.gen = f.gen)
    (hget : getFabric n f.idx = some f) (h : GenInv n) : GenInv (setFabric n f') := by
  have hfg := fabGen_setFabric n f f' hidx hgen hget
  refine ⟨⟨fun s hs he h0 => ?_, fun r hr => ?_⟩, fun i f'' hk => ?_⟩
  · rw [hfg]; exact h.1.1 s hs he h0
  · rw [hfg]; exact h.1.2 r hr
  · have hk' : kvF n.kv i = some f'' := hk
    obtain ⟨f0, hf0, hg0⟩ := h.2 i f'' hk'
    rw [getFabric_setFabric_eq n f f' hidx hget]
    by_cases hi : i = f.idx
    · subst hi
      rw [hget] at hf0
      injection hf0 with hf0
      subst hf0
      exact ⟨f', by simp, by rw [hgen]; exact hg0⟩
    · exact ⟨f0, by simp [hi, hf0], hg0⟩

/-- storing the record the node holds -/
theorem genInv_storeFabric (n : Node) (f : Fabric) (hget : getFabric n f.idx = some f) (h : GenInv n) :
    GenInv (storeFabric n f).1 := by
  have ⟨hfr, hst⟩ := storeFabric_spec n f
  rcases hr : storeFabric n f with ⟨n1, b⟩
  rw [hr] at hfr hst
  simp only at hfr hst
  rcases hst with ⟨_, hkv, _⟩ | ⟨_, hkv, _⟩
  · refine ⟨(genInv_same hfr.fabrics hfr.sessions hfr.resum ?_ (n := { n with kv := n1.kv }) (n' := n1) ?_).1, ?_⟩
    · rfl
    · exact ⟨h.1, by
        intro i f' hk
        have hk' : kvF n1.kv i = some f' := hk
        rw [hkv, kvF_putFabric] at hk'
        by_cases hi : i = f.idx
        · rw [if_pos hi] at hk'
          injection hk' with hk'
          subst hk'
          exact ⟨f, by rw [hi]; exact hget, rfl⟩
        · rw [if_neg hi] at hk'
          exact h.2 i f' hk'⟩
    · intro i f' hk
      rw [hkv, kvF_putFabric] at hk
      have hg : ∀ j, getFabric n1 j = getFabric n j := by intro j; simp only [getFabric, hfr.fabrics]
      rw [hg]
      by_cases hi : i = f.idx
      · rw [if_pos hi] at hk
        injection hk with hk
        subst hk
        exact ⟨f, by rw [hi]; exact hget, rfl⟩
      · rw [if_neg hi] at hk
        exact h.2 i f' hk
  · exact genInv_same hfr.fabrics hfr.sessions hfr.resum (by rw [hkv]) h

theorem genInv_storeNets (n : Node) (h : GenInv n) : GenInv (storeNets n).1 := by
  have ⟨hfr, hst⟩ := storeNets_spec n
  rcases hr : storeNets n with ⟨n1, b⟩
  rw [hr] at hfr hst
  simp only at hfr hst
  rcases hst with ⟨_, hkv, _⟩ | ⟨_, hkv, _⟩
  · exact genInv_same hfr.fabrics hfr.sessions hfr.resum (by rw [hkv]) h
  · exact genInv_same hfr.fabrics hfr.sessions hfr.resum (by rw [hkv]) h

/-- dropping the records of `idx` (whatever the store answers) -/
theorem genInv_purgeResum (n : Node) (idx : Nat) (h : GenInv n) :
    GenInv (purgeResum n idx).1 ∧ ∀ r ∈ (purgeResum n idx).1.resum, r.fab ≠ idx := by
  have ⟨p1, p2, _, _, _, _, p7, p8, _, _⟩ := purgeResum_spec n idx
  rcases hp : purgeResum n idx with ⟨n2, b⟩
  rw [hp] at p1 p2 p7 p8
  simp only at p1 p2 p7 p8
  refine ⟨⟨noDangling_sub (n := n) (fun i g hg => by rw [fabGen_congr p1]; exact hg) ?_ ?_ h.1, ?_⟩, ?_⟩
  · intro s' hs' he _; rw [p2] at hs'; exact ⟨s', hs', he, rfl, rfl⟩
  · intro r' hr'; rw [p7] at hr'; exact ⟨r', (List.mem_filter.mp hr').1, rfl, rfl⟩
  · intro i f' hk
    have hk' : kvF n.kv i = some f' := by simpa [kvF, p8] using hk
    obtain ⟨f, hf, hg⟩ := h.2 i f' hk'
    exact ⟨f, by simpa [getFabric, p1] using hf, hg⟩
  · intro r hr
    rw [p7] at hr
    simpa using (List.mem_filter.mp hr).2


/-! ### sessions that stay usable are the sessions that were there -/

theorem removePase_live_mem (l : List Sess) (exp : Option Nat) :
    ∀ s' ∈ removePase l exp, s'.expired = false → s' ∈ l := by
  intro s' hs' he
  unfold removePase at hs'
  rw [List.mem_map] at hs'
  obtain ⟨s0, hs0, rfl⟩ := hs'
  have hm := (List.mem_filter.mp hs0).1
  by_cases hc : some s0.id = exp ∧ s0.mode.isPase = true
  · simp [hc] at he
  · simp only [hc, if_false]; exact hm

theorem removeForFabric_live_mem (l : List Sess) (idx : Nat) (exp : Option Nat) :
    ∀ s' ∈ removeForFabric l idx exp, s'.expired = false → s' ∈ l ∧ s'.mode.fab ≠ idx := by
  intro s' hs' he
  unfold removeForFabric at hs'
  rw [List.mem_map] at hs'
  obtain ⟨s0, hs0, rfl⟩ := hs'
  have ⟨hm, hk⟩ := List.mem_filter.mp hs0
  by_cases hc : some s0.id = exp
  · simp [hc] at he
  · simp only [hc, if_false]
    refine ⟨hm, fun hfab => ?_⟩
    simp [hfab, hc] at hk

/-! ### rollback -/

/-- what the fabric part of `FailSafe::expire` leaves in the table: the stored copy (or nothing) at
the fail-safe's index, every other fabric as it was -/
theorem rollbackFabrics_struct (cfg : Cfg) (n : Node) (a : Armed) (fs : List Fabric)
    (h : rollbackFabrics cfg n a = .ok fs) :
    ∀ i, fs.find? (fun f => decide (f.idx = i)) =
      if a.fab ≠ 0 ∧ i = a.fab then kvF n.kv a.fab else getFabric n i := by
  unfold rollbackFabrics at h
  simp only [decide_not] at h
  intro i
  by_cases h0 : a.fab = 0
  · rw [if_pos h0] at h
    injection h with h; subst h
    simp [h0, getFabric]
  · rw [if_neg h0] at h
    cases hk : n.kv.fabs.find? (fun f => decide (f.idx = a.fab)) with
    | none =>
      simp only [hk] at h
      injection h with h; subst h
      rw [find_filter_neB]
      by_cases hia : i = a.fab
      · simp [hia, h0, kvF, hk]
      · simp [hia, getFabric]
    | some f =>
      simp only [hk] at h
      have hfidx : f.idx = a.fab := by simpa using List.find?_some hk
      split at h
      · injection h with h; subst h
        rw [find_append_single, find_filter_neB]
        by_cases hia : i = a.fab
        · subst hia
          simp [kvF, hk, hfidx, h0]
        · have hfi : ¬ f.idx = i := by omega
          simp only [hia, if_false, hfi, and_false, getFabric]
          cases n.fabrics.find? (fun g => decide (g.idx = i)) <;> rfl
      · simp at h

theorem removedOf_some (a : Armed) (fs : List Fabric) (idx : Nat) (h : removedOf a fs = some idx) :
    idx = a.fab ∧ a.fab ≠ 0 ∧ fs.find? (fun f => decide (f.idx = a.fab)) = none := by
  unfold removedOf at h
  split at h
  · rename_i hc
    injection h with h
    refine ⟨h.symm, hc.1, ?_⟩
    rw [List.find?_eq_none]
    intro f hf
    have := hc.2
    simp only [Bool.not_eq_true', List.any_eq_false] at this
    exact this f hf
  · cases h

theorem removedOf_none (a : Armed) (fs : List Fabric) (h : removedOf a fs = none) :
    a.fab = 0 ∨ (fs.find? (fun f => decide (f.idx = a.fab))).isSome = true := by
  unfold removedOf at h
  split at h
  · cases h
  · rename_i hc
    by_cases h0 : a.fab = 0
    · exact Or.inl h0
    · right
      have : (fs.any fun f => decide (f.idx = a.fab)) = true := by
        cases hb : (fs.any fun f => decide (f.idx = a.fab)) with
        | true => rfl
        | false => exact absurd ⟨h0, by simp [hb]⟩ hc
      rw [List.any_eq_true] at this
      obtain ⟨f, hf, hfi⟩ := this
      rw [List.find?_isSome]
      exact ⟨f, hf, hfi⟩

/-- **The rollback leaves nothing dangling** (whatever the store answers): a fabric that is put back
from the store is the stored copy of the SAME incarnation (`StoreSub`); a fabric that is dropped takes
its sessions and records with it -/
theorem expireAndPurge_genInv (cfg : Cfg) (n : Node) (a : Armed) (exp : Option Nat) (h : GenInv n) :
    GenInv (expireAndPurge cfg n a exp).1 := by
  unfold expireAndPurge
  cases hr : rollbackFabrics cfg n a with
  | error e =>
    have : expireArmed cfg n a exp = (n, some e, none) := by unfold expireArmed; simp [hr]
    simp only [this]; exact h
  | ok fs =>
    have hst := rollbackFabrics_struct cfg n a fs hr
    have ⟨f1, f2, f3, f4, f5⟩ := expireArmed_fields cfg n a exp fs hr
    have hkv : (expireArmed cfg n a exp).1.kv = n.kv := by unfold expireArmed; simp [hr]
    rcases hres : expireArmed cfg n a exp with ⟨n1, e, r⟩
    rw [hres] at f1 f2 f3 f4 f5 hkv
    simp only at f1 f2 f3 f4 f5 hkv
    subst f4
    have hget1 : ∀ i, getFabric n1 i = if a.fab ≠ 0 ∧ i = a.fab then kvF n.kv a.fab else getFabric n i := by
      intro i; simp only [getFabric, f1]; exact hst i
    -- the store still describes the node
    have hss : StoreSub n1 := by
      intro i f' hk
      rw [hkv] at hk
      rw [hget1]
      by_cases hc : a.fab ≠ 0 ∧ i = a.fab
      · rw [if_pos hc, ← hc.2]; exact ⟨f', hk, rfl⟩
      · rw [if_neg hc]; exact h.2 i f' hk
    -- generations of the fabrics that are there afterwards are the ones from before
    have hgen : ∀ i g, fabGen n1 i = some g → fabGen n i = some g := by
      intro i g hg
      unfold fabGen at hg ⊢
      rw [hget1] at hg
      by_cases hc : a.fab ≠ 0 ∧ i = a.fab
      · rw [if_pos hc] at hg
        cases hk : kvF n.kv a.fab with
        | none => rw [hk] at hg; cases hg
        | some f' =>
          rw [hk] at hg
          obtain ⟨f, hf, hfg⟩ := h.2 a.fab f' hk
          rw [hc.2, hf]
          simp only [Option.map_some] at hg ⊢
          rw [hfg]; exact hg
      · rw [if_neg hc] at hg; exact hg
    have hgen2 : ∀ i g, (a.fab = 0 ∨ i ≠ a.fab ∨ (kvF n.kv a.fab).isSome = true) → fabGen n i = some g → fabGen n1 i = some g := by
      intro i g hcase hg
      unfold fabGen at hg ⊢
      rw [hget1]
      by_cases hc : a.fab ≠ 0 ∧ i = a.fab
      · rw [if_pos hc]
        rcases hcase with h0 | hne | hsome
        · exact absurd h0 hc.1
        · exact absurd hc.2 hne
        · cases hk : kvF n.kv a.fab with
          | none => rw [hk] at hsome; cases hsome
          | some f' =>
            obtain ⟨f, hf, hfg⟩ := h.2 a.fab f' hk
            rw [hc.2, hf] at hg
            simp only [Option.map_some] at hg ⊢
            rw [← hfg]; exact hg
      · rw [if_neg hc]; exact hg
    cases hrem : removedOf a fs with
    | some idx =>
      have ⟨hidx, h0, hnone⟩ := removedOf_some a fs idx hrem
      subst hidx
      have hr5 : r = some a.fab := by rw [f5, hrem]
      subst hr5
      simp only []
      rw [hrem] at f2
      have ⟨p1, p2, _, _, _, _, p7, p8, _, _⟩ := purgeResum_spec n1 a.fab
      have hfin : GenInv (purgeResum n1 a.fab).1 := by
        refine ⟨⟨fun s' hs' he hf0 => ?_, fun r' hr' => ?_⟩, fun i f' hk => ?_⟩
        · rw [p2, f2] at hs'
          unfold rollbackSessions at hs'
          simp only [] at hs'
          have hs1 := removePase_live_mem _ exp s' hs' he
          have ⟨hs0, hne⟩ := removeForFabric_live_mem n.sessions a.fab _ s' hs1 he
          rw [fabGen_congr p1]
          exact hgen2 _ _ (Or.inr (Or.inl hne)) (h.1.1 s' hs0 he hf0)
        · rw [p7, f3] at hr'
          have ⟨hm, hne⟩ := List.mem_filter.mp hr'
          have hne' : r'.fab ≠ a.fab := by simpa using hne
          rw [fabGen_congr p1]
          exact hgen2 _ _ (Or.inr (Or.inl hne')) (h.1.2 r' hm)
        · have hk' : kvF n1.kv i = some f' := by simpa [kvF, p8] using hk
          obtain ⟨f, hf, hg⟩ := hss i f' hk'
          exact ⟨f, by simpa [getFabric, p1] using hf, hg⟩
      rcases hp : purgeResum n1 a.fab with ⟨n2, b⟩
      rw [hp] at hfin
      cases b <;> exact hfin
    | none =>
      have hr5 : r = none := by rw [f5, hrem]
      subst hr5
      simp only []
      rw [hrem] at f2
      have hcase : a.fab = 0 ∨ (kvF n.kv a.fab).isSome = true := by
        rcases removedOf_none a fs hrem with h0 | hs
        · exact Or.inl h0
        · by_cases h0 : a.fab = 0
          · exact Or.inl h0
          · right
            have := hst a.fab
            rw [if_pos ⟨h0, rfl⟩] at this
            rw [← this]; exact hs
      have hall : ∀ i g, fabGen n i = some g → fabGen n1 i = some g := by
        intro i g hg
        rcases hcase with h0 | hs
        · exact hgen2 i g (Or.inl h0) hg
        · exact hgen2 i g (Or.inr (Or.inr hs)) hg
      refine ⟨⟨fun s' hs' he hf0 => ?_, fun r' hr' => ?_⟩, hss⟩
      · rw [f2] at hs'
        unfold rollbackSessions at hs'
        have hs0 := removePase_live_mem _ exp s' hs' he
        exact hall _ _ (h.1.1 s' hs0 he hf0)
      · rw [f3] at hr'
        exact hall _ _ (h.1.2 r' hr')

theorem expire_genInv (cfg : Cfg) (n : Node) (exp : Option Nat) (h : GenInv n) : GenInv (expire cfg n exp).1 := by
  unfold expire
  cases n.fs with
  | none => exact h
  | some a => exact expireAndPurge_genInv cfg n a exp h

theorem windowTimeout_genInv (n : Node) (h : GenInv n) : GenInv (windowTimeout n) := by
  unfold windowTimeout
  split
  · split
    · exact genInv_same rfl rfl rfl rfl h
    · exact h
  · exact h

theorem checkTimeouts_genInv (cfg : Cfg) (n : Node) (sid : Option Nat) (h : GenInv n) :
    GenInv (checkTimeouts cfg n sid).1 := by
  unfold checkTimeouts
  cases hfs : n.fs with
  | none => exact windowTimeout_genInv n h
  | some a =>
    simp only []
    by_cases ht : n.now ≥ a.armedAt + a.timeout
    · simp only [ht, if_true]
      have h1 := expireAndPurge_genInv cfg n a (expSid n sid) h
      have heq : (expireAndPurgeLenient cfg n a (expSid n sid)).1 = (expireAndPurge cfg n a (expSid n sid)).1 := rfl
      cases he : (expireAndPurgeLenient cfg n a (expSid n sid)).2 with
      | some e => simp only []; rw [heq]; exact h1
      | none => simp only []; rw [heq]; exact windowTimeout_genInv _ h1
    · simp only [ht, if_false]; exact windowTimeout_genInv n h


/-! ### the commands -/

/-- the shape of every fabric-scoped write -/
theorem genInv_fabric_write (n : Node) (f f' : Fabric) (hidx : f'.idx = f.idx) (hgen : f'.gen = f.gen)
    (hget : getFabric n f.idx = some f) (h : GenInv n) :
    GenInv (if armedFor (setFabric n f') f.idx then ok (markDeferred (setFabric n f'))
      else match storeFabric (setFabric n f') f' with
        | (n, true) => ok n
        | (n, false) => (n, .err "NoSpace")).1 := by
  have h1 := genInv_setFabric n f f' hidx hgen hget h
  have hget1 : getFabric (setFabric n f') f'.idx = some f' := by
    rw [getFabric_setFabric_eq n f f' hidx hget, hidx]; simp
  split
  · have ⟨m1, m2, m3, m4, _⟩ := markDeferred_fields (setFabric n f')
    exact genInv_same (n' := markDeferred (setFabric n f')) m1 m2 m3 (by rw [m4]) h1
  · have := genInv_storeFabric (setFabric n f') f' hget1 h1
    rcases hst : storeFabric (setFabric n f') f' with ⟨n2, b⟩
    rw [hst] at this
    cases b <;> exact this

theorem sessOp_vvs_genInv (cfg : Cfg) (n : Node) (sid s : Nat) (mode : Mode) (h : GenInv n) :
    GenInv (sessOp cfg n sid mode (.vvs s)).1 := by
  simp only [sessOp]
  split
  · exact h
  · cases hg : getFabric n mode.fab with
    | none => exact h
    | some f =>
      have hidx := getFabric_idx hg
      simp only []
      split
      · exact h
      · have := genInv_storeFabric n f (by rw [hidx]; exact hg) h
        rcases hst : storeFabric n f with ⟨n2, b⟩
        rw [hst] at this
        cases b <;> exact this

theorem sessOp_write_genInv (cfg : Cfg) (n : Node) (sid : Nat) (mode : Mode) (op : Op) (h : GenInv n)
    (hop : (∃ s v, op = .acl s v) ∨ (∃ s v, op = .grp s v) ∨ (∃ s v, op = .label s v) ∨ (∃ s, op = .fwrite s)) :
    GenInv (sessOp cfg n sid mode op).1 := by
  rcases hop with ⟨s, v, rfl⟩ | ⟨s, v, rfl⟩ | ⟨s, v, rfl⟩ | ⟨s, rfl⟩
  · simp only [sessOp]
    split
    · exact h
    · cases hg : getFabric n mode.fab with
      | none => exact h
      | some f =>
        have hidx := getFabric_idx hg
        simp only []
        split
        · exact h
        · exact genInv_fabric_write n f { f with acl := f.acl ++ [v] } rfl rfl (by rw [hidx]; exact hg) h
  · simp only [sessOp]
    split
    · exact h
    · cases hg : getFabric n mode.fab with
      | none => exact h
      | some f =>
        have hidx := getFabric_idx hg
        simp only []
        split
        · exact h
        · exact genInv_fabric_write n f (if f.grp.contains v then f else { f with grp := f.grp ++ [v] })
            (by split <;> rfl) (by split <;> rfl) (by rw [hidx]; exact hg) h
  · simp only [sessOp]
    split
    · exact h
    · split
      · exact h
      · cases hg : getFabric n mode.fab with
        | none => exact h
        | some f =>
          have hidx := getFabric_idx hg
          exact genInv_fabric_write n f { f with label := v } rfl rfl (by rw [hidx]; exact hg) h
  · simp only [sessOp]
    split
    · exact h
    · cases hg : getFabric n mode.fab with
      | none => exact h
      | some f =>
        have hidx := getFabric_idx hg
        exact genInv_fabric_write n f f rfl rfl (by rw [hidx]; exact hg) h

theorem sessOp_simple_genInv (cfg : Cfg) (n : Node) (sid : Nat) (mode : Mode) (op : Op) (h : GenInv n)
    (hop : (∃ s, op = .openW s) ∨ (∃ s u, op = .csr s u) ∨ (∃ s c, op = .root s c) ∨
           (∃ s v, op = .net s v) ∨ (∃ s v, op = .rmnet s v) ∨ (∃ s v, op = .bcw s v)) :
    GenInv (sessOp cfg n sid mode op).1 := by
  rcases hop with ⟨s, rfl⟩ | ⟨s, u, rfl⟩ | ⟨s, c, rfl⟩ | ⟨s, v, rfl⟩ | ⟨s, v, rfl⟩ | ⟨s, v, rfl⟩
  · simp only [sessOp]
    split
    · exact windowTimeout_genInv n h
    · exact genInv_same rfl rfl rfl rfl (windowTimeout_genInv n h)
  all_goals
    simp only [sessOp]
    repeat' split
    all_goals first | exact h | exact genInv_same rfl rfl rfl rfl h

theorem sessOp_arm_genInv (cfg : Cfg) (n : Node) (sid s secs : Nat) (mode : Mode) (h : GenInv n) :
    GenInv (sessOp cfg n sid mode (.arm s secs)).1 := by
  simp only [sessOp]
  by_cases h0 : secs = 0
  · simp only [h0, if_true]
    have := expire_genInv cfg n (some sid) h
    rcases hr : expire cfg n (some sid) with ⟨n1, e⟩
    rw [hr] at this
    cases e <;> exact this
  · simp only [h0, if_false]
    repeat' split
    all_goals first | exact h | exact genInv_same rfl rfl rfl rfl h

theorem sessOp_revoke_genInv (cfg : Cfg) (n : Node) (sid s : Nat) (mode : Mode) (h : GenInv n) :
    GenInv (sessOp cfg n sid mode (.revoke s)).1 := by
  simp only [sessOp]
  have := expire_genInv cfg n (some sid) h
  rcases hr : expire cfg n (some sid) with ⟨n1, e⟩
  rw [hr] at this
  cases e with
  | some e => exact this
  | none => exact genInv_same rfl rfl rfl rfl this

theorem sessOp_updnoc_genInv (cfg : Cfg) (n : Node) (sid s node ser : Nat) (mode : Mode) (h : GenInv n) :
    GenInv (sessOp cfg n sid mode (.updnoc s node ser)).1 := by
  simp only [sessOp]
  split
  · exact h
  · split
    · exact h
    · split
      · exact h
      · split
        · exact h
        · cases hg : getFabric n mode.fab with
          | none => exact h
          | some f =>
            have hidx := getFabric_idx hg
            simp only [ok]
            have := genInv_setFabric n f { f with node := node, ser := ser } rfl rfl (by rw [hidx]; exact hg) h
            exact genInv_same rfl rfl rfl rfl this

theorem genInv_removeFabricKey (n : Node) (idx : Nat) (h : GenInv n) : GenInv (removeFabricKey n idx).1 := by
  have ⟨hfr, _, _, hst⟩ := removeFabricKey_spec n idx
  refine ⟨noDangling_sub (n := n) (fun i g hg => by rw [fabGen_congr hfr.fabrics]; exact hg) ?_ ?_ h.1, ?_⟩
  · intro s' hs' he _; rw [hfr.sessions] at hs'; exact ⟨s', hs', he, rfl, rfl⟩
  · intro r' hr'; rw [hfr.resum] at hr'; exact ⟨r', hr', rfl, rfl⟩
  · intro i f' hk
    have hk' : kvF n.kv i = some f' := by
      rcases hst with ⟨_, hkF, _⟩ | ⟨_, hkv, _⟩
      · rw [hkF] at hk
        by_cases hi : i = idx
        · rw [if_pos hi] at hk; cases hk
        · rw [if_neg hi] at hk; exact hk
      · rw [hkv] at hk; exact hk
    obtain ⟨f, hf, hg⟩ := h.2 i f' hk'
    exact ⟨f, by simpa [getFabric, hfr.fabrics] using hf, hg⟩

theorem undoAdded_genInv (n : Node) (idx : Nat) (h : GenInv n) : GenInv (undoAdded n idx) := by
  unfold undoAdded
  split
  · exact genInv_removeFabricKey n idx h
  · exact h

theorem sessOp_complete_genInv (cfg : Cfg) (n : Node) (sid s : Nat) (mode : Mode) (h : GenInv n) :
    GenInv (sessOp cfg n sid mode (.complete s)).1 := by
  simp only [sessOp]
  split
  · exact h
  · split
    · exact h
    · cases hg : getFabric n mode.fab with
      | none => exact h
      | some f =>
        have hidx := getFabric_idx hg
        simp only []
        have h1 := genInv_storeFabric n f (by rw [hidx]; exact hg) h
        rcases hst : storeFabric n f with ⟨n1, b⟩
        rw [hst] at h1
        simp only at h1
        cases b with
        | false => exact h1
        | true =>
          simp only []
          have h3 := genInv_storeNets { n1 with managed := true } (genInv_same rfl rfl rfl rfl h1)
          rcases hsn : storeNets { n1 with managed := true } with ⟨n4, b4⟩
          rw [hsn] at h3
          simp only at h3
          cases b4 with
          | false => exact undoAdded_genInv _ f.idx (genInv_same rfl rfl rfl rfl h3)
          | true =>
            simp only [ok]
            refine ⟨noDangling_sub (n := n4) (fun i g hg' => hg') ?_ (fun r' hr' => ⟨r', hr', rfl, rfl⟩) h3.1, h3.2⟩
            intro s' hs' he _
            exact ⟨s', removePase_live_mem n4.sessions none s' hs' he, he, rfl, rfl⟩

theorem sessOp_rmfab_genInv (cfg : Cfg) (n : Node) (sid s idx : Nat) (mode : Mode) (h : GenInv n) :
    GenInv (sessOp cfg n sid mode (.rmfab s idx)).1 := by
  unfold sessOp
  by_cases h0 : idx = 0
  · simp only [h0, if_true]; exact h
  · simp only [h0, if_false]
    by_cases hh : hasFabric n idx = true
    · simp only [hh, if_true]
      have ⟨h2, hpr⟩ := genInv_purgeResum n idx h
      rcases hp : purgeResum n idx with ⟨n2, b⟩
      rw [hp] at h2 hpr
      simp only at h2 hpr
      cases b with
      | false => exact h2
      | true =>
        simp only []
        have ⟨hfr, _, _, hst⟩ := removeFabricKey_spec n2 idx
        rcases hrk : removeFabricKey n2 idx with ⟨n3, b3⟩
        rw [hrk] at hfr hst
        simp only at hfr hst
        rcases hst with ⟨hb, hkvF, _⟩ | ⟨hb, hkv, _⟩
        · subst hb
          simp only [ok]
          have hget3 : ∀ i, getFabric n3 i = getFabric n2 i := by intro i; simp only [getFabric, hfr.fabrics]
          have hfind : ∀ i, List.find? (fun f => decide (f.idx = i)) (List.filter (fun f => decide (f.idx ≠ idx)) n3.fabrics) =
              if i = idx then none else getFabric n2 i := by
            intro i
            rw [find_filter_ne]
            by_cases hi : i = idx
            · simp [hi]
            · simp only [hi, if_false]; exact hget3 i
          refine ⟨⟨fun s' hs' he hf0 => ?_, fun r' hr' => ?_⟩, fun i f' hk => ?_⟩
          · have ⟨hs0, hne⟩ := removeForFabric_live_mem n3.sessions idx _ s' hs' he
            unfold fabGen getFabric
            simp only []
            rw [hfind, if_neg hne]
            rw [hfr.sessions] at hs0
            exact h2.1.1 s' hs0 he hf0
          · have hr2 : r' ∈ n2.resum := by rw [← hfr.resum]; exact hr'
            unfold fabGen getFabric
            simp only []
            rw [hfind, if_neg (hpr r' hr2)]
            exact h2.1.2 r' hr2
          · have hk' : kvF n3.kv i = some f' := hk
            rw [hkvF] at hk'
            by_cases hi : i = idx
            · rw [if_pos hi] at hk'; cases hk'
            · rw [if_neg hi] at hk'
              unfold getFabric
              simp only []
              rw [hfind, if_neg hi]
              exact h2.2 i f' hk'
        · subst hb
          exact genInv_same hfr.fabrics hfr.sessions hfr.resum (by rw [hkv]) h2
    · simp only [hh, Bool.false_eq_true, if_false]; exact h

theorem getFabric_none_of_not_has {n : Node} {i : Nat} (h : hasFabric n i = false) : getFabric n i = none := by
  unfold hasFabric at h
  unfold getFabric
  rw [List.find?_eq_none]
  intro f hf
  have := (List.any_eq_false.mp h) f hf
  simpa using this

theorem storeResum_genInv (n : Node) (h : GenInv n) : GenInv (storeResum n).1 := by
  have ⟨hfr, hf, _⟩ := storeResum_spec n
  exact genInv_same hfr.fabrics hfr.sessions hfr.resum hf h

theorem addNoc_genInv (cfg : Cfg) (n : Node) (sid ca fid node subj ser : Nat) (mode : Mode) (h : GenInv n) :
    GenInv (addNoc cfg n sid mode ca fid node subj ser).1 := by
  simp only [addNoc]
  split
  · exact h
  · split
    · exact h
    · rename_i a _
      split
      · exact h
      · split
        · exact h
        · split
          · exact h
          · split
            · exact h
            · split
              · exact h
              · split
                · exact h
                · rename_i idx hidx
                  have hfresh := getFabric_none_of_not_has (newIdx_fresh n idx hidx)
                  split
                  · exact h
                  · -- the new fabric `f` at the fresh index `idx`
                    generalize hf : ({ idx := idx, gen := n.nextGen, ca := n.staged, fid := fid, node := node, ser := ser,
                                       acl := [subj], grp := [], label := 0 } : Fabric) = f
                    have hfi : f.idx = idx := by rw [← hf]
                    have happ : ∀ i, (n.fabrics ++ [f]).find? (fun g => decide (g.idx = i)) =
                        if i = idx then some f else getFabric n i := by
                      intro i
                      rw [find_append_single]
                      by_cases hi : i = idx
                      · subst hi
                        have : n.fabrics.find? (fun g => decide (g.idx = i)) = none := hfresh
                        simp [this, hfi]
                      · have : ¬ f.idx = i := by rw [hfi]; exact fun hh => hi hh.symm
                        simp only [hi, if_false, this, getFabric]
                        cases n.fabrics.find? (fun g => decide (g.idx = i)) <;> rfl
                    -- no stored blob at the fresh index
                    have hnoblob : kvF n.kv idx = none := by
                      cases hk : kvF n.kv idx with
                      | none => rfl
                      | some f' =>
                        obtain ⟨f0, hf0, _⟩ := h.2 idx f' hk
                        rw [hfresh] at hf0; cases hf0
                    -- nothing refers to the fresh index
                    have hsne : ∀ s' ∈ n.sessions, s'.expired = false → s'.mode.fab ≠ 0 → s'.mode.fab ≠ idx := by
                      intro s' hs' he h0 hfab
                      have := h.1.1 s' hs' he h0
                      rw [hfab] at this
                      unfold fabGen at this
                      rw [hfresh] at this; cases this
                    have hrne : ∀ r' ∈ n.resum, r'.fab ≠ idx := by
                      intro r' hr' hfab
                      have := h.1.2 r' hr'
                      rw [hfab] at this
                      unfold fabGen at this
                      rw [hfresh] at this; cases this
                    have hkeep : ∀ (m : Node), (∀ i, getFabric m i = if i = idx then some f else getFabric n i) →
                        ∀ i, i ≠ idx → fabGen m i = fabGen n i := by
                      intro m hm i hi
                      unfold fabGen; rw [hm, if_neg hi]
                    have hstore : ∀ (m : Node), (∀ i, i ≠ idx → getFabric m i = getFabric n i) → m.kv = n.kv → StoreSub m := by
                      intro m hm hkv i f' hk
                      rw [hkv] at hk
                      by_cases hi : i = idx
                      · rw [hi, hnoblob] at hk; cases hk
                      · rw [hm i hi]; exact h.2 i f' hk
                    split
                    · -- promoted PASE session
                      refine ⟨⟨fun s' hs' he hf0 => ?_, fun r' hr' => ?_⟩, hstore _ (fun i hi => ?_) rfl⟩
                      · simp only [List.mem_map] at hs'
                        obtain ⟨s0, hs0, rfl⟩ := hs'
                        by_cases hsid : s0.id = sid
                        · simp only [hsid, if_true, Mode.fab]
                          unfold fabGen getFabric
                          simp only []
                          rw [happ]; simp [← hf]
                        · simp only [hsid, if_false] at he hf0 ⊢
                          have hne := hsne s0 hs0 he hf0
                          unfold fabGen getFabric
                          simp only []
                          rw [happ, if_neg hne]
                          exact h.1.1 s0 hs0 he hf0
                      · have hne := hrne r' hr'
                        unfold fabGen getFabric
                        simp only []
                        rw [happ, if_neg hne]
                        exact h.1.2 r' hr'
                      · show List.find? _ (n.fabrics ++ [f]) = _
                        rw [happ, if_neg hi]
                    · -- scopeguard: the fabric is removed again
                      have hrem : ∀ i, List.find? (fun g => decide (g.idx = i))
                          (List.filter (fun g => decide (g.idx ≠ idx)) (n.fabrics ++ [f])) = getFabric n i := by
                        intro i
                        rw [find_filter_ne]
                        by_cases hi : i = idx
                        · rw [if_pos hi, hi, hfresh]
                        · rw [if_neg hi, happ, if_neg hi]
                      refine ⟨⟨fun s' hs' he hf0 => ?_, fun r' hr' => ?_⟩, hstore _ (fun i _ => hrem i) rfl⟩
                      · unfold fabGen getFabric; simp only []; rw [hrem]; exact h.1.1 s' hs' he hf0
                      · unfold fabGen getFabric; simp only []; rw [hrem]; exact h.1.2 r' hr'
                    · -- CASE session
                      refine ⟨⟨fun s' hs' he hf0 => ?_, fun r' hr' => ?_⟩, hstore _ (fun i hi => ?_) rfl⟩
                      · have hne := hsne s' hs' he hf0
                        unfold fabGen getFabric
                        simp only []
                        rw [happ, if_neg hne]
                        exact h.1.1 s' hs' he hf0
                      · have hne := hrne r' hr'
                        unfold fabGen getFabric
                        simp only []
                        rw [happ, if_neg hne]
                        exact h.1.2 r' hr'
                      · show List.find? _ (n.fabrics ++ [f]) = _
                        rw [happ, if_neg hi]

theorem sessOp_addnoc_genInv (cfg : Cfg) (n : Node) (sid s ca fid node subj ser : Nat) (mode : Mode) (h : GenInv n) :
    GenInv (sessOp cfg n sid mode (.addnoc s ca fid node subj ser)).1 :=
  sessOp_addnoc_lift (P := GenInv) cfg n sid s ca fid node subj ser mode
    (fun m hm => storeResum_genInv m hm) (fun m hm => addNoc_genInv cfg m sid ca fid node subj ser mode hm) h

theorem sessOp_genInv (cfg : Cfg) (n : Node) (sid : Nat) (mode : Mode) (op : Op) (h : GenInv n) :
    GenInv (sessOp cfg n sid mode op).1 := by
  cases op with
  | openW s => exact sessOp_simple_genInv cfg n sid mode _ h (Or.inl ⟨s, rfl⟩)
  | arm s secs => exact sessOp_arm_genInv cfg n sid s secs mode h
  | csr s upd => exact sessOp_simple_genInv cfg n sid mode _ h (Or.inr (Or.inl ⟨s, upd, rfl⟩))
  | root s ca => exact sessOp_simple_genInv cfg n sid mode _ h (Or.inr (Or.inr (Or.inl ⟨s, ca, rfl⟩)))
  | addnoc s ca fid node subj ser => exact sessOp_addnoc_genInv cfg n sid s ca fid node subj ser mode h
  | updnoc s node ser => exact sessOp_updnoc_genInv cfg n sid s node ser mode h
  | acl s v => exact sessOp_write_genInv cfg n sid mode _ h (Or.inl ⟨s, v, rfl⟩)
  | grp s v => exact sessOp_write_genInv cfg n sid mode _ h (Or.inr (Or.inl ⟨s, v, rfl⟩))
  | label s v => exact sessOp_write_genInv cfg n sid mode _ h (Or.inr (Or.inr (Or.inl ⟨s, v, rfl⟩)))
  | fwrite s => exact sessOp_write_genInv cfg n sid mode _ h (Or.inr (Or.inr (Or.inr ⟨s, rfl⟩)))
  | vvs s => exact sessOp_vvs_genInv cfg n sid s mode h
  | net s v => exact sessOp_simple_genInv cfg n sid mode _ h (Or.inr (Or.inr (Or.inr (Or.inl ⟨s, v, rfl⟩))))
  | rmnet s v => exact sessOp_simple_genInv cfg n sid mode _ h (Or.inr (Or.inr (Or.inr (Or.inr (Or.inl ⟨s, v, rfl⟩)))))
  | bcw s v => exact sessOp_simple_genInv cfg n sid mode _ h (Or.inr (Or.inr (Or.inr (Or.inr (Or.inr ⟨s, v, rfl⟩)))))
  | complete s => exact sessOp_complete_genInv cfg n sid s mode h
  | rmfab s idx => exact sessOp_rmfab_genInv cfg n sid s idx mode h
  | revoke s => exact sessOp_revoke_genInv cfg n sid s mode h
  | _ => exact h


/-! ### the whole step; restarts -/

def restartLike : Op → Bool
  | .restart | .crash _ | .corrupt | .coldreset | .fabrecover _ => true
  | _ => false

/-- a change of the `reserved` flags only -/
theorem genInv_flag_map {n : Node} (g : Sess → Sess)
    (hg : ∀ s, (g s).mode = s.mode ∧ (g s).expired = s.expired ∧ (g s).gen = s.gen)
    (h : GenInv n) : GenInv { n with sessions := n.sessions.map g } := by
  refine ⟨noDangling_sub (n := n) (fun i gg hgg => hgg) ?_ (fun r' hr' => ⟨r', hr', rfl, rfl⟩) h.1, h.2⟩
  intro s' hs' he _
  simp only [List.mem_map] at hs'
  obtain ⟨s0, hs0, rfl⟩ := hs'
  exact ⟨s0, hs0, by rw [← (hg s0).2.1]; exact he, by rw [(hg s0).1], (hg s0).2.2.symm⟩

theorem genInv_fresh (now g : Nat) : GenInv ({ now := now, nextGen := g } : Node) :=
  ⟨⟨fun s hs _ _ => absurd hs (by simp), fun r hr => absurd hr (by simp)⟩, fun i f' hk => by simp [kvF] at hk⟩

theorem addSess_genInv (cfg : Cfg) (n : Node) (mode : Mode) (peer gen : Nat) (h : GenInv n)
    (hm : mode.fab ≠ 0 → fabGen n mode.fab = some gen) : GenInv (addSess cfg n mode peer gen).1 := by
  unfold addSess
  simp only []
  split
  · refine ⟨⟨fun s' hs' he hf0 => ?_, fun r' hr' => h.1.2 r' hr'⟩, h.2⟩
    simp only [List.mem_append, List.mem_singleton] at hs'
    rcases hs' with hs' | rfl
    · exact h.1.1 s' hs' he hf0
    · exact hm hf0
  · exact genInv_same rfl rfl rfl rfl h

theorem addSess_fields (cfg : Cfg) (n : Node) (mode : Mode) (peer gen : Nat) :
    (addSess cfg n mode peer gen).1.fabrics = n.fabrics ∧ (addSess cfg n mode peer gen).1.resum = n.resum ∧
    (addSess cfg n mode peer gen).1.kv = n.kv ∧ (addSess cfg n mode peer gen).1.hist = n.hist ∧
    (addSess cfg n mode peer gen).1.failIn = n.failIn := by
  unfold addSess
  simp only []
  split <;> exact ⟨rfl, rfl, rfl, rfl, rfl⟩

/-- after a clean factory reset nothing refers to a fabric and no fabric blob is stored -/
theorem factoryReset_genInv (n : Node) (hc : ResetClean n) : GenInv (factoryReset n).1 := by
  have ⟨_, h2, h3, _⟩ := factoryReset_mem n
  have hk := (factoryReset_store n hc.1 hc.2).1
  refine ⟨⟨fun s hs _ hf0 => ?_, fun r hr => ?_⟩, fun i f' hf => ?_⟩
  · rw [h2, List.mem_filter] at hs
    exact absurd (by simpa using hs.2) hf0
  · rw [h3] at hr; cases hr
  · simp [kvF, hk] at hf

/-- **`GenInv` is an invariant of every operation** - whatever the store answers, whichever session
issues the command - except the restarts (below); a factory reset has to be clean (`ResetClean`: no
store fault hits it - one that does leaves fabric keys behind, see `C07.faulty_reset_witness`) -/
theorem step_genInv (cfg : Cfg) (n : Node) (op : Op) (h : GenInv n) (hop : op = .freset → ResetClean n)
    (hnr : restartLike op = false) : GenInv (step cfg n op).1 := by
  cases hso : isSessOp op with
  | some sid =>
    have h1 := checkTimeouts_genInv cfg n (some sid) h
    rcases step_sess cfg n op sid hso with e | e | ⟨s1, _, e⟩
    · rw [e]; exact h
    · rw [e]; exact h1
    · rw [e]; exact sessOp_genInv cfg _ sid s1.mode op h1
  | none =>
    cases op with
    | boot => simp only [step, isSessOp]; split <;> first | exact h | exact genInv_same rfl rfl rfl rfl h
    | pase =>
      simp only [step, isSessOp]
      split
      · exact h
      · have := addSess_genInv cfg n (.pase 0) 0 0 h (fun hne => absurd rfl hne)
        rcases hr : addSess cfg n (.pase 0) 0 0 with ⟨n1, o⟩
        rw [hr] at this
        cases o <;> exact this
    | caseEst fab node rid =>
      simp only [step, isSessOp]
      split
      · exact h
      · rename_i f hf
        have hfab : fabGen n fab = some f.gen := by
          split at hf
          · cases hf
          · unfold fabGen; rw [hf]; rfl
        have := addSess_genInv cfg n (.case fab) node f.gen h (fun _ => hfab)
        have ⟨hfe, _, _, _, _⟩ := addSess_fields cfg n (.case fab) node f.gen
        rcases hr : addSess cfg n (.case fab) node f.gen with ⟨n1, o⟩
        rw [hr] at this hfe
        simp only at hfe
        cases o with
        | none => exact this
        | some id =>
          refine ⟨⟨this.1.1, fun r' hr' => ?_⟩, this.2⟩
          rcases resumInsert_mem cfg n1.resum _ r' hr' with hm | rfl
          · exact this.1.2 r' hm
          · refine (fabGen_congr ?_ fab).trans hfab
            exact hfe
    | resume rid newRid =>
      simp only [step, isSessOp]
      split
      · exact h
      · rename_i r hr0
        split
        · exact h
        · have hrm : r ∈ n.resum := List.mem_of_find?_eq_some hr0
          have hfab : fabGen n r.fab = some r.gen := h.1.2 r hrm
          have := addSess_genInv cfg n (.case r.fab) r.peer r.gen h (fun _ => hfab)
          have ⟨hfe, _, _, _, _⟩ := addSess_fields cfg n (.case r.fab) r.peer r.gen
          rcases hr : addSess cfg n (.case r.fab) r.peer r.gen with ⟨n1, o⟩
          rw [hr] at this hfe
          simp only at hfe
          cases o with
          | none => exact this
          | some id =>
            refine ⟨⟨this.1.1, fun r' hr' => ?_⟩, this.2⟩
            rcases resumInsert_mem cfg n1.resum _ r' hr' with hm | rfl
            · exact this.1.2 r' hm
            · refine (fabGen_congr ?_ r.fab).trans hfab
              exact hfe
    | hs fab node rid =>
      simp only [step, isSessOp]
      split
      · exact h
      · rename_i f hf
        have hfab : fabGen n fab = some f.gen := by
          split at hf
          · cases hf
          · unfold fabGen; rw [hf]; rfl
        have := addSess_genInv cfg n (.case fab) node f.gen h (fun _ => hfab)
        have ⟨hfe, _, _, _, _⟩ := addSess_fields cfg n (.case fab) node f.gen
        rcases hr : addSess cfg n (.case fab) node f.gen with ⟨n1, o⟩
        rw [hr] at this hfe
        simp only at hfe
        cases o with
        | none => exact this
        | some id =>
          have h2 := genInv_flag_map (n := n1) (fun s => if s.id = id then { s with reserved := true } else s)
            (fun s => by split <;> exact ⟨rfl, rfl, rfl⟩) this
          refine ⟨⟨h2.1.1, fun r' hr' => ?_⟩, h2.2⟩
          rcases resumInsert_mem cfg n1.resum _ r' hr' with hm | rfl
          · exact this.1.2 r' hm
          · refine (fabGen_congr ?_ fab).trans hfab
            exact hfe
    | hsdone sid =>
      simp only [step, isSessOp]
      split
      · have h2 := genInv_flag_map (n := n) (fun s => if s.id = sid then { s with reserved := false } else s)
          (fun s => by split <;> exact ⟨rfl, rfl, rfl⟩) h
        exact genInv_same rfl rfl rfl rfl h2
      · exact h
    | nop => exact h
    | sdrop sid =>
      simp only [step, isSessOp]
      split
      · exact h
      · exact ⟨noDangling_sub (n := n) (fun i g hg => hg)
          (fun s' hs' he _ => ⟨s', (List.mem_filter.mp hs').1, he, rfl, rfl⟩)
          (fun r' hr' => ⟨r', hr', rfl, rfl⟩) h.1, h.2⟩
    | coldreset => simp [restartLike] at hnr
    | fabrecover i => simp [restartLike] at hnr
    | tick secs => exact genInv_same rfl rfl rfl rfl h
    | poll =>
      simp only [step, isSessOp]
      have := checkTimeouts_genInv cfg n none h
      rcases hr : checkTimeouts cfg n none with ⟨n1, e⟩
      rw [hr] at this
      cases e <;> exact this
    | flush =>
      simp only [step, isSessOp]
      have h1 := storeResum_genInv n h
      rcases hst : storeResum n with ⟨n1, b⟩
      rw [hst] at h1
      cases b <;> exact h1
    | restart => simp [restartLike] at hnr
    | crash k => simp [restartLike] at hnr
    | corrupt => simp [restartLike] at hnr
    | kvfail k => exact genInv_same rfl rfl rfl rfl h
    | freset => exact factoryReset_genInv n (hop rfl)
    | _ => simp [isSessOp] at hso

/-- the stored resumption records fit the stored fabrics: a record whose fabric index is stored was
made for that very incarnation -/
def RecOK (kv : KV) : Prop :=
  ∀ l, kv.resum = .recs l → ∀ r ∈ l, ∀ f', kvF kv r.fab = some f' → f'.gen = r.gen

/-- **A restart from a store whose records fit its fabrics leaves nothing dangling** -/
theorem restartFrom_genInv (n : Node) (kv : KV) (hist : List KV) (h : RecOK kv) :
    GenInv (restartFrom n kv hist) := by
  have hfab : (restartFrom n kv hist).fabrics = kv.fabs ∧ (restartFrom n kv hist).kv.fabs = kv.fabs ∧
      (restartFrom n kv hist).sessions = [] := by
    unfold restartFrom
    cases kv.resum <;> simp only [] <;> (try split) <;> exact ⟨triv, triv, triv⟩
  have hres : ∀ r ∈ (restartFrom n kv hist).resum, ∃ l, kv.resum = .recs l ∧ r ∈ l ∧
      (kv.fabs.any fun f => decide (f.idx = r.fab)) = true := by
    unfold restartFrom
    cases hk : kv.resum with
    | absent => simp only []; (try split) <;> (intro r hr; simp at hr)
    | garbage => simp only []; (try split) <;> (intro r hr; simp at hr)
    | recs l =>
      simp only []
      (try split) <;> (intro r hr; have := List.mem_filter.mp hr; exact ⟨l, rfl, this.1, by simpa using this.2⟩)
  refine ⟨⟨fun s hs _ _ => ?_, fun r hr => ?_⟩, fun i f' hk => ?_⟩
  · rw [hfab.2.2] at hs; cases hs
  · obtain ⟨l, hl, hrl, hany⟩ := hres r hr
    rw [List.any_eq_true] at hany
    obtain ⟨f0, hf0, hfi⟩ := hany
    have : ∃ f', kvF kv r.fab = some f' := by
      unfold kvF
      cases hfind : List.find? (fun f => decide (f.idx = r.fab)) kv.fabs with
      | some f' => exact ⟨f', rfl⟩
      | none =>
        rw [List.find?_eq_none] at hfind
        exact absurd hfi (hfind f0 hf0)
    obtain ⟨f', hf'⟩ := this
    unfold fabGen getFabric
    rw [hfab.1]
    have hf'' : List.find? (fun f => decide (f.idx = r.fab)) kv.fabs = some f' := hf'
    rw [hf'']
    simp only [Option.map_some]
    rw [h l hl r hrl f' hf']
  · refine ⟨f', ?_, rfl⟩
    unfold getFabric
    rw [hfab.1]
    have : kvF (restartFrom n kv hist).kv i = List.find? (fun f => decide (f.idx = i)) kv.fabs := by
      unfold kvF; rw [hfab.2.1]
    rw [← this]; exact hk

theorem genInv_init : GenInv ({} : Node) :=
  ⟨⟨fun s hs _ _ => absurd hs (by simp), fun r hr => absurd hr (by simp)⟩, fun i f' hk => by simp [kvF] at hk⟩

theorem run_genInv (cfg : Cfg) (ops : List Op) : ∀ (n : Node), GenInv n → ResetsClean cfg n ops →
    (∀ op ∈ ops, restartLike op = false) → GenInv (run cfg n ops) := by
  induction ops with
  | nil => intro n h _ _; exact h
  | cons op rest ih =>
    intro n h hno hnr
    exact ih _ (step_genInv cfg n op h hno.1 (hnr op List.mem_cons_self))
      hno.2 (fun o ho => hnr o (List.mem_cons_of_mem _ ho))

end Admin
