#!/bin/bash
# tools/confirm_seed.sh <worktree> <target-dir> <patch.diff> <demo.diff|demo.rs> "<demo test cmd args>" ["extra features"]
# Confirms in a scratch worktree: (a) with patch: existing rs-matter lib+integration tests pass; (b) demo fails with patch; (c) demo passes without.
set -u
wt="$1"; tgt="$2"; patch="$3"; demo="$4"; democmd="$5"; feats="${6:-}"
cd "$wt" || exit 2
git checkout -q -- . ; git clean -fdq
export CARGO_TARGET_DIR="$tgt" CARGO_NET_OFFLINE=true
apply_demo() {
  case "$demo" in
    *.diff) git apply "$demo" ;;
    *.rs) if grep -q "^// DEST:" "$demo"; then dest=$(grep "^// DEST:" "$demo" | head -1 | sed 's#// DEST: *##'); cat "$demo" >> "$dest"; else echo "demo.rs needs manual placement"; fi ;;
  esac
}
echo "### (a) existing tests with the patch"
git apply "$patch" || { echo "PATCH DOES NOT APPLY"; exit 2; }
flock /tmp/cargo-slot-${SLOT:-5} cargo test -p rs-matter --offline --no-fail-fast $feats 2>&1 | grep -E "^test result|FAILED|panicked|error(\[|:)" | sort | uniq -c | head -20
echo "### (b) demo with the patch (expect failure)"
apply_demo
flock /tmp/cargo-slot-${SLOT:-5} cargo test -p rs-matter --offline $feats $democmd 2>&1 | grep -E "^test result|^test .*(FAILED|ok)$|error(\[|:)" | head -20
echo "### (c) demo without the patch (expect pass)"
git apply -R "$patch"
flock /tmp/cargo-slot-${SLOT:-5} cargo test -p rs-matter --offline $feats $democmd 2>&1 | grep -E "^test result|^test .*(FAILED|ok)$|error(\[|:)" | head -20
git checkout -q -- . ; git clean -fdq
