import RsMatterVerif.Model.Tlv
/-! # C16 — property theorems (first group: the failing witnesses of the old arithmetic) -/
namespace C16
open Tlv

/-- the arithmetic of `TLVSequence::len` before the fix overflows on a 9-byte input -/
theorem old_len_overflows :
    Old.elemLen [0x13, 0xff, 0xff, 0xff, 0xff, 0xff, 0xff, 0xff, 0xff] = .panic .overflow := by decide

end C16
