import RsMatterVerif.Lemmas.CodecDerLinkX509
/-!
# `as_asn1` output under rs-matter's X.509 parser: refusals, extensions, validity, the composed TBS walk
(audit C17 concern 2b, second round)

* `Fails p l e` — the failing counterpart of `Run`: on every reader whose remaining input is `l`, `p` answers `e`.
* `x509New_tbs_refused` — `X509Cert::new` answers `InvalidData` on a bare TBSCertificate (what `as_asn1` emits).
* `cal_days`, `civil_day_bound`, `calOf_agree` — the writer's `civil_from_days` and the `der` crate's `DateTime::new`
  agree on every instant from the Matter epoch to the end of year 9999.
* `fails_extLoop`, `XExt.toX`, `ext_encRd`, `C17.cert_x509_exts_read`, `C17.cert_x509_exts_eku_refused` — the extension
  reader returns the values written for RCAC / ICAC-shaped lists and refuses the critical extended key usage of a NOC.
* `run_validity_asn1`, `C17.cert_x509_tbs_walk` — `Validity::decode` returns the two instants; one walk over the whole output.
-/
namespace Codec.DerRd

/-- on every reader whose remaining input is exactly `l`, the action `p` fails with `e` -/
def Fails {α : Type} (p : Dec α) (l : List Nat) (e : E) : Prop := ∀ r, NextX r l → p r = .error e

namespace Fails
variable {α β : Type}

theorem bind_left {p : Dec α} {f : α → Dec β} {l : List Nat} {e : E} (hp : Fails p l e) : Fails (p >>= f) l e := by
  intro r hr
  rw [Dec.bind_run, hp r hr]

theorem bind_right {p : Dec α} {f : α → Dec β} {l l1 : List Nat} {Q : α → Prop} {e : E}
    (hp : Run p l Q l1) (hf : ∀ a, Q a → Fails (f a) l1 e) : Fails (p >>= f) l e := by
  intro r hr
  obtain ⟨a, pre, hq, hl, hpr⟩ := hp r hr
  subst hl
  rw [Dec.bind_run, hpr]
  exact hf a hq _ hr.adv

theorem fail {l : List Nat} {e : E} : Fails (Dec.fail e : Dec α) l e := fun _ _ => rfl

theorem lift {x : Except E α} {l : List Nat} {e : E} (hx : x = .error e) : Fails (Dec.lift x) l e := by
  intro r _; subst hx; rfl

theorem congr {p q : Dec α} {l : List Nat} {e : E} (h : Fails q l e) (hpq : p = q) : Fails p l e := hpq ▸ h

theorem of_len {p : Dec α} {l : List Nat} {e : E} (h : l.length ≤ MAX_LEN → Fails p l e) : Fails p l e :=
  fun r hr => h hr.next.length_le r hr

end Fails

theorem fails_nested {α : Type} {p : Dec α} {v rest : List Nat} {e : E} {n : Nat} (hn : v.length = n)
    (hp : Fails p v e) : Fails (dNested n p) (v ++ rest) e := by
  intro r hr
  subst hn
  obtain ⟨hnew, _⟩ := Next.nested hr.next
  unfold dNested readNested
  rw [hnew]
  simp only [Bind.bind, Except.bind, hp _ hr.nested]

theorem fromDer_of_fails {α : Type} {p : Dec α} {bytes : List Nat} {e : E} (hp : Fails p bytes e)
    (hlen : bytes.length ≤ MAX_LEN) : fromDer bytes p = .error e := by
  unfold fromDer Rdr.new
  rw [lenNew_of_le hlen]
  simp only [Bind.bind, Except.bind, Pure.pure, Except.pure, hp _ (NextX.ofSlice hlen)]

theorem runNew_of_fails {α : Type} {p : Dec α} {bytes : List Nat} {e : E} (hp : Fails p bytes e)
    (hlen : bytes.length ≤ MAX_LEN) : runNew bytes p = .error e := by
  unfold runNew Rdr.new
  rw [lenNew_of_le hlen]
  simp only [Bind.bind, Except.bind, Pure.pure, Except.pure, hp _ (NextX.ofSlice hlen)]

/-- a reader standing before a TLV with another tag: `T::decode` of a fixed-tag type answers `TagUnexpected` -/
theorem fails_headerOf {tag t : Nat} {v rest : List Nat} (ht : tagOfByte t = .ok t) (hne : t ≠ tag) :
    Fails (dHeaderOf tag) (encTlv t v ++ rest) .tagUnexpected := by
  unfold dHeaderOf
  refine Fails.bind_right (run_header ht) (fun x hx => ?_)
  subst hx
  simp only [ne_eq, hne, not_false_eq_true, if_true]
  exact Fails.fail

/-- **`X509Cert::new` refuses a bare TBSCertificate**: a SEQUENCE whose first element is the `[0]` version (what
`as_asn1` writes) instead of the TBSCertificate SEQUENCE is `InvalidData` for every certificate type -/
theorem x509New_tbs_refused (k : CertKind) (x rest : List Nat)
    (hlen : (encTlv TAG_SEQUENCE (encTlv 0xA0 x ++ rest)).length ≤ MAX_LEN) :
    x509New k (encTlv TAG_SEQUENCE (encTlv 0xA0 x ++ rest)) = .error .invalidData := by
  have hf : Fails (dCertificate k ((encTlv TAG_SEQUENCE (encTlv 0xA0 x ++ rest)).length + 1))
      (encTlv TAG_SEQUENCE (encTlv 0xA0 x ++ rest)) .tagUnexpected := by
    unfold dCertificate
    refine Fails.congr (l := encTlv TAG_SEQUENCE (encTlv 0xA0 x ++ rest)) ?_ rfl
    have h0 : encTlv TAG_SEQUENCE (encTlv 0xA0 x ++ rest) = encTlv TAG_SEQUENCE (encTlv 0xA0 x ++ rest) ++ [] := by simp
    rw [h0]
    refine Fails.bind_right (run_headerOf tagOfByte_seq) (fun n hn => ?_)
    subst hn
    refine fails_nested rfl ?_
    refine Fails.bind_left ?_
    unfold dTbs
    exact Fails.bind_left (fails_headerOf tagOfByte_a0 (by decide))
  unfold x509New
  rw [fromDer_of_fails hf hlen]
  rfl

end Codec.DerRd

/-! ## calendar agreement: the writer's `civil_from_days` vs. `DateTime::new` of the `der` crate -/
namespace Codec.CertAsn1
open Codec Codec.Der

theorem jan1 (y : Nat) (hy : 1970 ≤ y) :
    (y - 1970) * 365 + (((y - 1) - 1968) / 4 - ((y - 1) - 1900) / 100 + ((y - 1) - 1600) / 400) + 719468
      = (y - 1) / 400 * 146097 + ((y - 1) % 400 * 365 + (y - 1) % 400 / 4 - (y - 1) % 400 / 100) + 306 := by
  omega

set_option maxRecDepth 10000 in
/-- leap days up to the end of year `y` = leap days up to the end of `y - 1` + (is `y` a leap year) -/
theorem leap_step (y : Nat) (hy : 1970 ≤ y) :
    ((y - 1968) / 4 - (y - 1900) / 100 + (y - 1600) / 400)
      = (((y - 1) - 1968) / 4 - ((y - 1) - 1900) / 100 + ((y - 1) - 1600) / 400) + DerRd.leapAdj (DerRd.isLeapYear y) 3 := by
  have a4 : (y - 1968) / 4 = ((y - 1) - 1968) / 4 + (if y % 4 = 0 then 1 else 0) := by split <;> omega
  have a100 : (y - 1900) / 100 = ((y - 1) - 1900) / 100 + (if y % 100 = 0 then 1 else 0) := by split <;> omega
  have a400 : (y - 1600) / 400 = ((y - 1) - 1600) / 400 + (if y % 400 = 0 then 1 else 0) := by split <;> omega
  have o1 : ((y - 1) - 1900) / 100 ≤ ((y - 1) - 1968) / 4 := by omega
  have o2 : (y - 1900) / 100 ≤ (y - 1968) / 4 := by omega
  rw [a4, a100, a400] at *
  generalize ((y - 1) - 1968) / 4 = A at *
  generalize ((y - 1) - 1900) / 100 = B at *
  generalize ((y - 1) - 1600) / 400 = C at *
  unfold DerRd.leapAdj
  by_cases hl : DerRd.isLeapYear y = true
  · have hl2 := (DerRd.isLeapYear_iff y).1 hl
    rw [hl]
    simp only [Bool.true_and, show decide (3 > 2) = true from rfl, if_true]
    split <;> split <;> split <;> omega
  · have hl2 : ¬ (y % 4 = 0 ∧ (y % 100 ≠ 0 ∨ y % 400 = 0)) := fun h => hl ((DerRd.isLeapYear_iff y).2 h)
    have hl3 : DerRd.isLeapYear y = false := by simpa using hl
    rw [hl3]
    simp only [Bool.false_and, Bool.false_eq_true, if_false]
    split <;> split <;> split <;> omega

set_option maxRecDepth 10000 in
/-- months January / February: day number via the previous March-based year -/
theorem cal_days_lo (y d yd : Nat) (hy : 1970 ≤ y) (hd : 1 ≤ d) :
    (y - 1970) * 365 + (((y - 1) - 1968) / 4 - ((y - 1) - 1900) / 100 + ((y - 1) - 1600) / 400) + (yd + (d - 1) + 0)
      = (y - 1) / 400 * 146097 + ((y - 1) % 400 * 365 + (y - 1) % 400 / 4 - (y - 1) % 400 / 100 + (yd + 306 + d - 1)) - 719468 := by
  have j1 := jan1 y hy
  generalize ((y - 1) - 1968) / 4 - ((y - 1) - 1900) / 100 + ((y - 1) - 1600) / 400 = A at *
  generalize (y - 1) / 400 * 146097 = B at *
  generalize (y - 1) % 400 * 365 + (y - 1) % 400 / 4 - (y - 1) % 400 / 100 = C at *
  omega

set_option maxRecDepth 10000 in
/-- months March … December -/
theorem cal_days_hi (y d k : Nat) (hy : 1970 ≤ y) (hd : 1 ≤ d) :
    (y - 1970) * 365 + (((y - 1) - 1968) / 4 - ((y - 1) - 1900) / 100 + ((y - 1) - 1600) / 400)
        + (59 + k + (d - 1) + DerRd.leapAdj (DerRd.isLeapYear y) 3)
      = y / 400 * 146097 + (y % 400 * 365 + y % 400 / 4 - y % 400 / 100 + (k + d - 1)) - 719468 := by
  have j2 := jan1 (y + 1) (by omega)
  simp only [Nat.add_sub_cancel] at j2
  have e1 : y + 1 - 1970 = y - 1970 + 1 := by omega
  rw [e1, leap_step y hy] at j2
  generalize ((y - 1) - 1968) / 4 - ((y - 1) - 1900) / 100 + ((y - 1) - 1600) / 400 = A at *
  generalize y / 400 * 146097 = B at *
  generalize y % 400 * 365 + y % 400 / 4 - y % 400 / 100 = C at *
  generalize DerRd.leapAdj (DerRd.isLeapYear y) 3 = L at *
  omega

theorem leapAdj_hi (l : Bool) (m : Nat) (h : 3 ≤ m) : DerRd.leapAdj l m = DerRd.leapAdj l 3 := by
  unfold DerRd.leapAdj
  have : decide (m > 2) = true := by simp; omega
  rw [this]; rfl

theorem leapAdj_lo (l : Bool) (m : Nat) (h : m ≤ 2) : DerRd.leapAdj l m = 0 := by
  unfold DerRd.leapAdj
  have : decide (m > 2) = false := by simp; omega
  rw [this]; simp

/-- **the two day counts agree**: `DateTime::new`'s count (years × 365 + leap days + days before the month + day) equals
Hinnant's `days_from_civil`, for every date from 1970 on -/
theorem cal_days (y m d : Nat) (hy : 1970 ≤ y) (hm1 : 1 ≤ m) (hm2 : m ≤ 12) (hd : 1 ≤ d) :
    (y - 1970) * 365 + (((y - 1) - 1968) / 4 - ((y - 1) - 1900) / 100 + ((y - 1) - 1600) / 400)
      + (DerRd.ydaysOf m + (d - 1) + DerRd.leapAdj (DerRd.isLeapYear y) m) = daysFromCivil y m d := by
  unfold daysFromCivil
  dsimp only
  by_cases hm : m ≤ 2
  · rw [if_pos hm, if_neg (show ¬ m > 2 by omega), leapAdj_lo _ _ hm]
    have hmc : m = 1 ∨ m = 2 := by omega
    rcases hmc with rfl | rfl
    · have := cal_days_lo y d 0 hy hd
      simpa [DerRd.ydaysOf] using this
    · have := cal_days_lo y d 31 hy hd
      simpa [DerRd.ydaysOf] using this
  · rw [if_neg hm, if_pos (show m > 2 by omega), leapAdj_hi _ _ (by omega)]
    have hmc : m = 3 ∨ m = 4 ∨ m = 5 ∨ m = 6 ∨ m = 7 ∨ m = 8 ∨ m = 9 ∨ m = 10 ∨ m = 11 ∨ m = 12 := by omega
    rcases hmc with rfl | rfl | rfl | rfl | rfl | rfl | rfl | rfl | rfl | rfl
    · simpa [DerRd.ydaysOf] using cal_days_hi y d 0 hy hd
    · simpa [DerRd.ydaysOf] using cal_days_hi y d 31 hy hd
    · simpa [DerRd.ydaysOf] using cal_days_hi y d 61 hy hd
    · simpa [DerRd.ydaysOf] using cal_days_hi y d 92 hy hd
    · simpa [DerRd.ydaysOf] using cal_days_hi y d 122 hy hd
    · simpa [DerRd.ydaysOf] using cal_days_hi y d 153 hy hd
    · simpa [DerRd.ydaysOf] using cal_days_hi y d 184 hy hd
    · simpa [DerRd.ydaysOf] using cal_days_hi y d 214 hy hd
    · simpa [DerRd.ydaysOf] using cal_days_hi y d 245 hy hd
    · simpa [DerRd.ydaysOf] using cal_days_hi y d 275 hy hd

set_option maxRecDepth 10000 in
/-- the year of the era found by `civil_from_days` is the right one: the next year starts after `doe` -/
theorem yoe_next (doe yoe : Nat) (h : doe < 146097) (hyoe : yoe = (doe - doe / 1460 + doe / 36524 - doe / 146096) / 365) :
    yoe = 399 ∨ doe < 365 * (yoe + 1) + (yoe + 1) / 4 - (yoe + 1) / 100 := by
  have h1 : doe / 36524 = 0 ∨ doe / 36524 = 1 ∨ doe / 36524 = 2 ∨ doe / 36524 = 3 ∨ doe / 36524 = 4 := by omega
  have h2 : doe / 146096 = 0 ∨ doe / 146096 = 1 := by omega
  have hy : yoe ≤ 400 := by omega
  have h3 : (yoe + 1) / 100 = 0 ∨ (yoe + 1) / 100 = 1 ∨ (yoe + 1) / 100 = 2 ∨ (yoe + 1) / 100 = 3 ∨ (yoe + 1) / 100 = 4 := by omega
  rcases h1 with h1 | h1 | h1 | h1 | h1 <;> rcases h2 with h2 | h2 <;> rcases h3 with h3 | h3 | h3 | h3 | h3 <;> omega

set_option maxRecDepth 10000 in
theorem civil_day_core (days z era doe yoe doy mp : Nat) (hz : z = days + 719468) (hera : era = z / 146097)
    (hdoe : doe = z % 146097) (hyoe : yoe = (doe - doe / 1460 + doe / 36524 - doe / 146096) / 365)
    (hdoy : doy = doe - (365 * yoe + yoe / 4 - yoe / 100)) (hmp : mp = (5 * doy + 2) / 153) :
    doy - (153 * mp + 2) / 5 + 1 ≤ DerRd.daysIn
      (DerRd.isLeapYear (if (if mp < 10 then mp + 3 else mp - 9) ≤ 2 then yoe + era * 400 + 1 else yoe + era * 400))
      (if mp < 10 then mp + 3 else mp - 9) := by
  have hd : doe < 146097 := by omega
  obtain ⟨y1, y2, y3⟩ := yoe_facts doe yoe hd hyoe
  obtain ⟨m1, m2, m3⟩ := mp_facts doy mp (by omega) hmp
  have hn := yoe_next doe yoe hd hyoe
  by_cases h11 : mp = 11
  · subst h11
    have e1 : (if (11 : Nat) < 10 then 11 + 3 else 11 - 9) = 2 := by decide
    rw [e1]
    simp only [DerRd.daysIn, Nat.le_refl, if_true]
    by_cases hl : DerRd.isLeapYear (yoe + era * 400 + 1) = true
    · rw [if_pos hl]; omega
    · have hl2 : ¬ ((yoe + era * 400 + 1) % 4 = 0 ∧ ((yoe + era * 400 + 1) % 100 ≠ 0 ∨ (yoe + era * 400 + 1) % 400 = 0)) :=
        fun h => hl ((DerRd.isLeapYear_iff _).2 h)
      rw [if_neg hl]
      have s4 : (yoe + 1) / 4 = yoe / 4 + (if (yoe + 1) % 4 = 0 then 1 else 0) := by split <;> omega
      have s100 : (yoe + 1) / 100 = yoe / 100 + (if (yoe + 1) % 100 = 0 then 1 else 0) := by split <;> omega
      have r4 : (yoe + era * 400 + 1) % 4 = (yoe + 1) % 4 := by omega
      have r100 : (yoe + era * 400 + 1) % 100 = (yoe + 1) % 100 := by omega
      have r400 : (yoe + era * 400 + 1) % 400 = (yoe + 1) % 400 := by omega
      have o1 : yoe / 100 ≤ yoe / 4 := by omega
      rw [r4, r100, r400] at hl2
      rw [s4, s100] at hn
      clear hyoe hdoe hz hera r4 r100 r400 s4 s100 hmp m1
      generalize yoe / 4 = q4 at *
      generalize yoe / 100 = q100 at *
      rcases hn with hn | hn
      · subst hn; omega
      · split at hn <;> split at hn <;> omega
  · have hmc : mp = 0 ∨ mp = 1 ∨ mp = 2 ∨ mp = 3 ∨ mp = 4 ∨ mp = 5 ∨ mp = 6 ∨ mp = 7 ∨ mp = 8 ∨ mp = 9 ∨ mp = 10 := by omega
    rcases hmc with h | h | h | h | h | h | h | h | h | h | h <;> subst h <;> simp [DerRd.daysIn] <;> omega

theorem civil_day_bound (days : Nat) :
    (civilFromDays days).2.2 ≤ DerRd.daysIn (DerRd.isLeapYear (civilFromDays days).1) (civilFromDays days).2.1 :=
  civil_day_core days _ _ _ _ _ _ rfl rfl rfl rfl rfl rfl

/-- the calendar fields the writer computes for a Unix time, as the X.509 model's `Cal` -/
def calOf (t : Nat) : DerRd.Cal :=
  { year := (civilOfUnix t).year, month := (civilOfUnix t).month, day := (civilOfUnix t).day,
    hour := (civilOfUnix t).hour, minute := (civilOfUnix t).minute, second := (civilOfUnix t).second }

set_option maxRecDepth 10000 in
/-- **calendar agreement**: for every instant from the Matter epoch to 9999-12-31T23:59:59Z the date the writer's
`civil_from_days` computes is a valid date of the X.509 model, and `DateTime::new`'s second count of it is the instant -/
theorem calOf_agree (t : Nat) (h1 : MATTER_EPOCH_SECS ≤ t) (h2 : t ≤ MAX_UNIX) : (calOf t).Valid ∧ (calOf t).secs = t := by
  have hE : MATTER_EPOCH_SECS = 946684800 := rfl
  have hM : MAX_UNIX = 253402300799 := rfl
  obtain ⟨r1, r2, r3, r4, r5⟩ := civil_roundtrip (t / 86400)
  have hy1 := year_lower _ _ _ r2 r3 r4 r5 (by rw [r1]; omega)
  have hy2 := year_upper _ _ _ r2 r3 r4 r5 (by rw [r1]; omega)
  have hb := civil_day_bound (t / 86400)
  unfold calOf civilOfUnix
  dsimp only
  generalize hc : civilFromDays (t / 86400) = c at *
  obtain ⟨y, m, d⟩ := c
  simp only at r1 r2 r3 r4 r5 hy1 hy2 hb ⊢
  refine ⟨?_, ?_⟩
  · unfold DerRd.Cal.Valid
    dsimp only
    exact ⟨by omega, hy2, r2, r3, r4, hb, by omega, by omega, by omega⟩
  have hcd := cal_days y m d (by omega) r2 r3 r4
  unfold DerRd.Cal.secs DerRd.dateTimeSecs
  dsimp only
  rw [hcd, r1]
  omega

end Codec.CertAsn1

/-! ## `Validity::decode` on the output of `as_asn1`, and the composed walk -/
namespace Codec.CertAsn1
open Codec Codec.Der

set_option maxRecDepth 10000 in
/-- the UTCTime / GeneralizedTime the writer emits is the X.509 model's encoding of the same calendar date -/
theorem timeNode_encTime (e : Nat) (n : Node) (h : MATTER_EPOCH_SECS + e ≤ MAX_UNIX) (hn : timeNode e = some n) :
    n.encRd = DerRd.encTime (calOf (MATTER_EPOCH_SECS + e)) := by
  have hM : MAX_UNIX = 253402300799 := rfl
  obtain ⟨hv, _⟩ := calOf_agree (MATTER_EPOCH_SECS + e) (by omega) h
  unfold timeNode timeStr at hn
  dsimp only at hn
  rw [if_neg (by omega)] at hn
  unfold DerRd.encTime
  unfold DerRd.Cal.Valid at hv
  have hy : (calOf (MATTER_EPOCH_SECS + e)).year = (civilOfUnix (MATTER_EPOCH_SECS + e)).year := rfl
  by_cases hg : (civilOfUnix (MATTER_EPOCH_SECS + e)).year ≥ 2050
  · rw [if_pos hg] at hn
    simp only [Option.map_some, Option.some.injEq] at hn
    subst hn
    rw [if_neg (by rw [hy]; omega)]
    simp only [Node.encRd, DerRd.TAG_GENERALIZED_TIME, calOf, Der.dec4, Der.dec2, DerRd.dec2, Der.digit, List.cons_append,
      List.nil_append]
    have h9 : (civilOfUnix (MATTER_EPOCH_SECS + e)).year ≤ 9999 := hv.2.1
    generalize (civilOfUnix (MATTER_EPOCH_SECS + e)).year = Y at *
    congr 1
    simp only [List.cons.injEq, and_true, true_and]
    omega
  · rw [if_neg hg] at hn
    simp only [Option.map_some, Option.some.injEq] at hn
    subst hn
    rw [if_pos (by rw [hy]; omega)]
    simp only [Node.encRd, DerRd.TAG_UTC_TIME, calOf, Der.dec2, DerRd.dec2, Der.digit, List.cons_append, List.nil_append]

/-- **`Validity::decode` on the validity `as_asn1` wrote** returns two `DateTime`s whose second counts are the two
instants of the TLV certificate (Matter epoch + value; `not-after = 0` is written, as the code does, as
9999-12-31T23:59:59Z = `DOESNT_EXPIRE`) -/
theorem run_validity_asn1 (nbv nav : Nat) (nb na : Node) (h1 : MATTER_EPOCH_SECS + nbv ≤ MAX_UNIX)
    (h2 : MATTER_EPOCH_SECS + nav ≤ MAX_UNIX) (hnb : timeNode nbv = some nb) (hna : timeNode nav = some na) (rest : List Nat) :
    DerRd.Run DerRd.dValidity (validityBytes nb na ++ rest)
      (fun y => y.1.secs = MATTER_EPOCH_SECS + nbv ∧ y.2.secs = MATTER_EPOCH_SECS + nav ∧
        y = ((calOf (MATTER_EPOCH_SECS + nbv)).dt, (calOf (MATTER_EPOCH_SECS + nav)).dt)) rest := by
  obtain ⟨v1, s1⟩ := calOf_agree (MATTER_EPOCH_SECS + nbv) (by omega) h1
  obtain ⟨v2, s2⟩ := calOf_agree (MATTER_EPOCH_SECS + nav) (by omega) h2
  unfold validityBytes
  rw [timeNode_encTime nbv nb h1 hnb, timeNode_encTime nav na h2 hna]
  refine (DerRd.run_validity v1 v2).weaken (fun y hy => ?_)
  subst hy
  exact ⟨s1, s2, rfl⟩

end Codec.CertAsn1

namespace Codec.DerRd

/-- the walk of `TbsCertificate::decode_value` (`dTbs`) without the attestation profile: SEQUENCE header, nested reader,
`dTbsHead` (version, serial, signature algorithm, issuer), `Validity::decode`, `dTbsMid` (subject, SubjectPublicKeyInfo); the
`[3]` extensions element is taken as an `AnyRef` (its interpretation is `ParsedExtensionFields::parse`, see below) -/
def dTbsWalk (fuel : Nat) : Dec ((List Nat × (Nat × List Nat) × List Nat × (List Nat × DnAttrs)) × (DateTime × DateTime) ×
    ((List Nat × DnAttrs) × (Option (Nat × List Nat) × BitStr)) × (Nat × List Nat)) := do
  let len ← dHeaderOf TAG_SEQUENCE
  dNested len (do
    let h ← dTbsHead fuel
    let v ← dValidity
    let m ← dTbsMid fuel
    let x ← dAny
    pure (h, v, m, x))

end Codec.DerRd

namespace C17
open Codec Codec.Der Codec.CertAsn1

/-- **One walk over the whole `as_asn1` output with the field readers of rs-matter's X.509 parser** (audit C17, 2b).
For every certificate within the declared bounds with an uncompressed P-256 key, `T::from_der`-style reading of the bytes
`as_asn1` writes (`SliceReader::new`, the walk, `finish`) succeeds and returns: version 3, the serial, ecdsa-with-SHA256, the
issuer and subject RDNSequences (= X.509 encoding of the attribute lists `xi`, `xs`; no VID / PID), **the two validity
instants** (`secs` = Matter epoch + the TLV value; `not-after = 0` ↦ 9999-12-31T23:59:59Z as the code writes it), curve
P-256, the public key, and the `[3]` element holding the extensions. -/
theorem cert_x509_tbs_walk (f : Fields) (h : f.Legal) (hpl : f.pubkey.length = 65) (hph : f.pubkey.head? = some 4) :
    ∃ n xi xs, certNode f = some n ∧ mapO Attr.toX f.issuer = some xi ∧ mapO Attr.toX f.subject = some xs ∧
      ∀ buf : List Nat, n.need ≤ buf.length → buf.length < 65536 →
        asAsn1 f.lazy buf = .ok n.enc ∧
        ∀ fuel, f.issuer.length < fuel + 2 → f.subject.length < fuel + 2 →
          ∃ a, DerRd.fromDer n.enc (DerRd.dTbsWalk (fuel + 2)) = .ok a ∧
            a.1 = ([2], (DerRd.TAG_INTEGER, f.serial), DerRd.OID_ECDSA_WITH_SHA256,
              (DerRd.encRdns xi, { vid := none, pid := none })) ∧
            a.2.1.1.secs = MATTER_EPOCH_SECS + f.notBefore ∧
            a.2.1.2.secs = MATTER_EPOCH_SECS + (if f.notAfter = 0 then DOESNT_EXPIRE else f.notAfter) ∧
            a.2.2.1.1 = (DerRd.encRdns xs, { vid := none, pid := none }) ∧
            a.2.2.1.2.1 = some (DerRd.TAG_OID, DerRd.OID_PRIME256V1) ∧ a.2.2.1.2.2.bytes = f.pubkey ∧
            a.2.2.1.2.2.unused = 0 ∧
            a.2.2.2 = (0xA3, DerRd.encTlv 0x30 (Node.encRdL (f.exts.map extNode))) := by
  obtain ⟨n, hn⟩ := certNode_some f h
  have hE : MATTER_EPOCH_SECS = 946684800 := rfl
  have hM : MAX_UNIX = 253402300799 := rfl
  have hD : DOESNT_EXPIRE = 252455615999 := rfl
  have hnb := h.nb
  have hna := h.na
  refine ⟨n, ?_⟩
  obtain ⟨_, _, _, issuer, nb, na, subject, h2, h3, h4, h5, _⟩ := certNode_parts f n hn
  obtain ⟨xi, i1, _, i3, i4, i5⟩ := dn_encRd f.issuer issuer h.wf.1 h2
  obtain ⟨xs, s1, _, s3, s4, s5⟩ := dn_encRd f.subject subject h.wf.2.1 h5
  refine ⟨xi, xs, hn, i1, s1, fun buf hfit hsmall => ?_⟩
  have hl := lenOk_of_need n (by omega)
  refine ⟨asAsn1_ok f n buf hn h.wf hl hfit, fun fuel hfi hfs => ?_⟩
  obtain ⟨xi2, xs2, nb2, na2, a1, a2, a3, a4, _, _, _, _, _, _, a5⟩ := asn1_tbs_layout f n hn h.wf hl
  rw [i1] at a1; rw [s1] at a2; rw [h3] at a3; rw [h4] at a4
  cases a1; cases a2; cases a3; cases a4
  have hmax : n.enc.length ≤ DerRd.MAX_LEN := by
    have := need_ge n
    have : DerRd.MAX_LEN = 268435455 := rfl
    omega
  have hrun : DerRd.Run (DerRd.dTbsWalk (fuel + 2)) n.enc
      (fun a => a.1 = ([2], (DerRd.TAG_INTEGER, f.serial), DerRd.OID_ECDSA_WITH_SHA256,
              (DerRd.encRdns xi, { vid := none, pid := none })) ∧
            a.2.1.1.secs = MATTER_EPOCH_SECS + f.notBefore ∧
            a.2.1.2.secs = MATTER_EPOCH_SECS + (if f.notAfter = 0 then DOESNT_EXPIRE else f.notAfter) ∧
            a.2.2.1.1 = (DerRd.encRdns xs, { vid := none, pid := none }) ∧
            a.2.2.1.2.1 = some (DerRd.TAG_OID, DerRd.OID_PRIME256V1) ∧ a.2.2.1.2.2.bytes = f.pubkey ∧
            a.2.2.1.2.2.unused = 0 ∧
            a.2.2.2 = (0xA3, DerRd.encTlv 0x30 (Node.encRdL (f.exts.map extNode)))) [] := by
    rw [a5]
    unfold DerRd.dTbsWalk
    refine DerRd.Run.of_append_nil ?_
    refine DerRd.Run.bind (DerRd.run_headerOf DerRd.tagOfByte_seq) (fun len hlen => ?_)
    subst hlen
    refine DerRd.run_nested rfl ?_
    refine DerRd.Run.bind (DerRd.run_tbsHead i3 (i5 _) (by omega)) (fun hd hhd => ?_)
    refine DerRd.Run.bind (run_validity_asn1 f.notBefore _ nb na (by omega) (by split <;> omega) h3 h4 _) (fun v hv => ?_)
    refine DerRd.Run.bind (DerRd.run_tbsMid s3 (s5 _) (by omega) hpl hph) (fun m hm => ?_)
    have hx := DerRd.run_any (tag := 0xA3) (v := DerRd.encTlv 0x30 (Node.encRdL (f.exts.map extNode))) (rest := [])
      DerRd.tagOfByte_a3
    simp only [List.append_nil] at hx
    refine DerRd.Run.bind (by unfold extsBytes; exact hx) (fun x hx2 => ?_)
    exact DerRd.Run.pure ⟨hhd, hv.1, hv.2.1, hm.1, hm.2.1, hm.2.2.1, hm.2.2.2, hx2⟩
  obtain ⟨a, ha, hder⟩ := DerRd.fromDer_of_run hrun hmax
  exact ⟨a, hder, ha⟩

end C17

/-! ## the extension reader `ParsedExtensionFields::parse` on the output of `as_asn1` -/
namespace Codec.DerRd

/-- **`ParsedExtensionFields::parse` refuses an unknown critical extension**: after any list of extensions it can read, an
extension with `critical = TRUE` and an OID other than the four it knows makes the loop answer `Failed` -/
theorem fails_extLoop {fuel : Nat} {oid value tail : List Nat} (hoid : oidValid oid = true)
    (h1 : oid ≠ OID_BASIC_CONSTRAINTS) (h2 : oid ≠ OID_KEY_USAGE) (h3 : oid ≠ OID_SUBJECT_KEY_ID) (h4 : oid ≠ OID_AUTHORITY_KEY_ID) :
    ∀ (l : List Ext) (n : Nat) (acc : ExtFields), (∀ e ∈ l, e.WF) → l.length < n →
    Fails (extLoop (fuel + 1) n acc) (encExts l ++ (encExtension oid true value ++ tail)) .failed
  | [], n, acc, _, hn => by
    cases n with
    | zero => omega
    | succ n =>
      simp only [encExts, List.map_nil, List.flatten_nil, List.nil_append]
      refine Fails.of_len (fun hlen => ?_)
      unfold extLoop
      refine Fails.bind_right run_finished (fun b hb => ?_)
      subst hb
      have hne : (encExtension oid true value ++ tail).isEmpty = false := by simp [encExtension, encTlv]
      simp only [hne, Bool.false_eq_true, if_false]
      unfold encExtension
      refine Fails.bind_right (run_anyAt tagOfByte_seq) (fun x hx => ?_)
      obtain ⟨tag, ev, eoff⟩ := x
      simp only at hx
      obtain ⟨_, hev⟩ := hx
      subst hev
      simp only
      have hevlen : (encOid oid ++ (if true = true then encBool true else []) ++ encOctets value).length ≤ MAX_LEN := by
        have h1 := encTlv_length_ge TAG_SEQUENCE (encOid oid ++ (if true = true then encBool true else []) ++ encOctets value)
        simp only [encExtension, List.length_append] at hlen h1 ⊢
        omega
      have hhead := run_extHead (oid := oid) (value := value) (critical := true) hoid
      rw [← List.append_assoc] at hhead
      obtain ⟨y, hy, hrun⟩ := runNew_of_run hhead hevlen
      obtain ⟨o, critical, v, voff⟩ := y
      simp only at hy
      obtain ⟨rfl, rfl, rfl⟩ := hy
      refine Fails.bind_right (Run.lift hrun rfl) (fun z hz => ?_)
      subst hz
      simp only
      refine Fails.bind_left (Fails.lift ?_)
      unfold extApply
      simp [h1, h2, h3, h4]
  | e :: rest, n, acc, hwf, hn => by
    cases n with
    | zero => omega
    | succ n =>
      rw [encExts_cons, encExt_eq, List.append_assoc]
      refine Fails.of_len (fun hlen => ?_)
      unfold extLoop
      refine Fails.bind_right run_finished (fun b hb => ?_)
      subst hb
      have hne : (encExtension e.oid e.critical e.value ++ (encExts rest ++ (encExtension oid true value ++ tail))).isEmpty = false := by
        simp [encExtension, encTlv]
      simp only [hne, Bool.false_eq_true, if_false]
      unfold encExtension
      refine Fails.bind_right (run_anyAt tagOfByte_seq) (fun x hx => ?_)
      obtain ⟨tag, ev, eoff⟩ := x
      simp only at hx
      obtain ⟨_, hev⟩ := hx
      subst hev
      simp only
      have hwe := hwf e (by simp)
      have hevlen : (encOid e.oid ++ (if e.critical = true then encBool true else []) ++ encOctets e.value).length ≤ MAX_LEN := by
        have h1 := encTlv_length_ge TAG_SEQUENCE (encOid e.oid ++ (if e.critical = true then encBool true else []) ++ encOctets e.value)
        simp only [encExtension, List.length_append] at hlen h1 ⊢
        omega
      have hvlen : e.value.length ≤ MAX_LEN := by
        have h1 := encTlv_length_ge TAG_OCTET_STRING e.value
        simp only [List.length_append, encOctets] at hevlen
        omega
      have hhead := run_extHead (oid := e.oid) (value := e.value) (critical := e.critical) (Ext.oid_valid hwe)
      rw [← List.append_assoc] at hhead
      obtain ⟨y, hy, hrun⟩ := runNew_of_run hhead hevlen
      obtain ⟨o, critical, v, voff⟩ := y
      simp only at hy
      obtain ⟨rfl, rfl, rfl⟩ := hy
      refine Fails.bind_right (Run.lift hrun rfl) (fun z hz => ?_)
      subst hz
      simp only
      obtain ⟨acc', hacc', _⟩ := extApply_enc (fuel := fuel) (acc := acc) (e := e) (base := eoff + voff) hwe hvlen
      refine Fails.bind_right (Run.lift hacc' rfl) (fun z hz => ?_)
      subst hz
      exact fails_extLoop hoid h1 h2 h3 h4 rest n acc' (fun e' he' => hwf e' (by simp [he'])) (by simp only [List.length_cons] at hn; omega)

end Codec.DerRd

namespace Codec.CertAsn1
open Codec Codec.Der

/-- the X.509 extension (as the X.509 model's encoder `encExt` writes it) of a Matter extension that
`ParsedExtensionFields::parse` knows -/
def XExt.toX : XExt → Option DerRd.Ext
  | .basic isCa path => some (.basicConstraints true isCa path)
  | .keyUsage v =>
    match bitstrContent true (keyUsageBytes v) with
    | u :: bs => some (.keyUsage true u bs)
    | [] => none
  | .subjKeyId b => some (.subjectKeyId false b)
  | .authKeyId b => some (.authorityKeyId false b)
  | _ => none

theorem tz_lt : ∀ (k x : Nat), x ≠ 0 → x < 2 ^ k → tz k x < k
  | 0, x, h0, h => by simp at h; omega
  | k + 1, x, h0, h => by
    unfold tz
    split
    · omega
    · have := tz_lt k (x / 2) (by omega) (by rw [Nat.pow_succ] at h; omega)
      omega

theorem encU8_pathInt (p : Nat) : DerRd.encU8 p = DerRd.encTlv DerRd.TAG_INTEGER (pathInt p) := by
  unfold DerRd.encU8 pathInt
  split <;> rfl

theorem ext_encRd (e : XExt) (x : DerRd.Ext) (hw : e.WF) (hx : e.toX = some x) :
    (extNode e).encRd = DerRd.encExt x ∧ x.WF := by
  cases e with
  | basic isCa path =>
    simp only [XExt.toX, Option.some.injEq] at hx; subst hx
    refine ⟨?_, hw⟩
    cases isCa <;> cases path <;>
      simp [extNode, extNodeKnown, seq, Node.encRd, Node.encRdL, DerRd.encExt, DerRd.encExtension, DerRd.encBasicConstraints,
        DerRd.encPathLen, encU8_pathInt, DerRd.encOid, DerRd.encBool, DerRd.encOctets, DerRd.TAG_SEQUENCE, DerRd.TAG_OID,
        DerRd.TAG_BOOLEAN, DerRd.TAG_OCTET_STRING, DerRd.TAG_INTEGER, OID_BASIC_CONSTRAINTS, DerRd.OID_BASIC_CONSTRAINTS]
  | keyUsage v =>
    obtain ⟨k, u, hk, hc, _, hz, hnz⟩ := bitstrContent_true_spec (keyUsageBytes v)
    simp only [XExt.toX, hc, Option.some.injEq] at hx; subst hx
    refine ⟨?_, ?_, ?_⟩
    · simp [extNode, extNodeKnown, seq, Node.encRd, Node.encRdL, hc, DerRd.encExt, DerRd.encExtension, DerRd.encBitString,
        DerRd.encOid, DerRd.encBool, DerRd.encOctets, DerRd.TAG_SEQUENCE, DerRd.TAG_OID, DerRd.TAG_BOOLEAN,
        DerRd.TAG_OCTET_STRING, DerRd.TAG_BIT_STRING, OID_KEY_USAGE, DerRd.OID_KEY_USAGE]
    · by_cases h0 : 0 < k
      · obtain ⟨y, hy, hy0, hu⟩ := hnz h0
        have hy256 : y < 256 := by
          have hmem : y ∈ keyUsageBytes v := List.mem_of_getElem? hy
          simp only [keyUsageBytes, List.mem_cons, List.not_mem_nil, or_false] at hmem
          rcases hmem with rfl | rfl
          · exact (rev_facts _ (Nat.mod_lt _ (by decide))).1
          · exact (rev_facts _ (Nat.mod_lt _ (by decide))).1
        have := tz_lt 8 y hy0 (by simpa using hy256)
        omega
      · have := hz (by omega); omega
    · intro hu
      by_cases h0 : 0 < k
      · intro hnil
        have : ((keyUsageBytes v).take k).length = 0 := by rw [hnil]; rfl
        simp [keyUsageBytes] at this; omega
      · exact absurd (hz (by omega)) hu
  | subjKeyId b =>
    simp only [XExt.toX, Option.some.injEq] at hx; subst hx
    refine ⟨?_, trivial⟩
    simp [extNode, extNodeKnown, seq, Node.encRd, Node.encRdL, DerRd.encExt, DerRd.encExtension,
      DerRd.encOid, DerRd.encOctets, DerRd.TAG_SEQUENCE, DerRd.TAG_OID,
      DerRd.TAG_OCTET_STRING, OID_SUBJ_KEY_IDENTIFIER, DerRd.OID_SUBJECT_KEY_ID]
  | authKeyId b =>
    simp only [XExt.toX, Option.some.injEq] at hx; subst hx
    refine ⟨?_, trivial⟩
    simp [extNode, extNodeKnown, seq, Node.encRd, Node.encRdL, DerRd.encExt, DerRd.encExtension,
      DerRd.encOid, DerRd.encOctets, DerRd.TAG_SEQUENCE, DerRd.TAG_OID,
      DerRd.TAG_OCTET_STRING, OID_AUTH_KEY_ID, DerRd.OID_AUTHORITY_KEY_ID]
  | extKeyUsage l => simp [XExt.toX] at hx
  | future b => simp [XExt.toX] at hx

theorem exts_encRd (l : List XExt) (xs : List DerRd.Ext) (hw : ∀ e ∈ l, e.WF) (hx : mapO XExt.toX l = some xs) :
    Node.encRdL (l.map extNode) = DerRd.encExts xs ∧ (∀ x ∈ xs, x.WF) ∧ xs.length = l.length := by
  induction l generalizing xs with
  | nil => simp [mapO] at hx; subst hx; exact ⟨rfl, by simp, rfl⟩
  | cons e r ih =>
    obtain ⟨b, bs, h1, h2, rfl⟩ := mapO_some_cons _ _ _ _ hx
    obtain ⟨e1, e2⟩ := ext_encRd e b (hw e (by simp)) h1
    obtain ⟨r1, r2, r3⟩ := ih bs (fun c hc => hw c (by simp [hc])) h2
    refine ⟨by simp [Node.encRdL, e1, r1, DerRd.encExts_cons], ?_, by simp [r3]⟩
    intro c hc; rcases List.mem_cons.1 hc with rfl | hc; exact e2; exact r2 c hc
end Codec.CertAsn1

namespace Codec.DerRd

/-- `Dac/Pai/PaaExtensions::decode` without the profile checks: SEQUENCE, nested reader, `ParsedExtensionFields::parse` -/
def dExtFields (fuel : Nat) : Dec ExtFields := do
  let len ← dHeaderOf TAG_SEQUENCE
  dNested len (extLoop fuel fuel ExtFields.empty)

theorem fails_ctxExplicit {α : Type} {t : Nat} {inner : Dec α} {v rest : List Nat} {e : E}
    (ht : tagOfByte t = .ok t) (hc : isCtx t = true) (hk : isConstructed t = true) (hi : Fails inner v e) :
    Fails (ctxExplicit inner) (encTlv t v ++ rest) e := by
  unfold ctxExplicit
  refine Fails.bind_right (run_header ht) (fun x hx => ?_)
  subst hx
  simp only [hc, hk, Bool.and_self, if_true]
  exact fails_nested rfl hi

theorem fails_ctxWith_hit {α : Type} {n fuel t : Nat} {f : Dec α} {l : List Nat} {e : E}
    (hl : l.head? = some t) (ht : tagOfByte t = .ok t) (hc : isCtx t = true) (hn : tagNumber t = n)
    (hf : Fails f l e) : Fails (ctxWith n f (fuel + 1)) l e := by
  unfold ctxWith
  refine Fails.bind_right run_peek (fun o ho => ?_)
  subst ho
  rw [hl]
  simp only
  refine Fails.bind_right (Run.lift ht rfl) (fun t' ht' => ?_)
  subst ht'
  rw [if_neg (by simp [hc, hn]), if_pos hn]
  exact Fails.bind_left hf

end Codec.DerRd

namespace C17
open Codec Codec.Der Codec.CertAsn1

/-- **(iii) RCAC / ICAC-shaped extension lists are read back by `ParsedExtensionFields::parse`.** If every extension of the
certificate is one the X.509 parser knows (basic constraints, key usage, subject / authority key identifier — no
extended key usage, no future extension), the `[3]` element `as_asn1` writes is the X.509 model's own encoding of the list
`xs` (`XExt.toX`), and the parser's extension reader returns exactly the values written (`Ext.apply` folds: criticality,
cA, path length, the key-usage bits of the BIT STRING, the two key identifiers). -/
theorem cert_x509_exts_read (l : List XExt) (xs : List DerRd.Ext) (hw : ∀ e ∈ l, e.WF) (hx : mapO XExt.toX l = some xs)
    (fuel : Nat) (hf : l.length < fuel + 1) :
    extsBytes l = DerRd.encTlv 0xA3 (DerRd.encTlv DerRd.TAG_SEQUENCE (DerRd.encExts xs)) ∧
    DerRd.Run (DerRd.ctxWith 3 (DerRd.ctxExplicit (DerRd.dExtFields (fuel + 1))) (fuel + 1)) (extsBytes l)
      (fun o => ∃ e, o = some e ∧
        e.view = xs.foldl DerRd.Ext.apply { bc := none, ku := none, skid := none, akid := none }) [] := by
  obtain ⟨h1, h2, h3⟩ := exts_encRd l xs hw hx
  have hb : extsBytes l = DerRd.encTlv 0xA3 (DerRd.encTlv DerRd.TAG_SEQUENCE (DerRd.encExts xs)) := by
    simp [extsBytes, h1, DerRd.TAG_SEQUENCE]
  refine ⟨hb, ?_⟩
  rw [hb]
  have hin : DerRd.Run (DerRd.dExtFields (fuel + 1)) (DerRd.encTlv DerRd.TAG_SEQUENCE (DerRd.encExts xs))
      (fun e => e.view = xs.foldl DerRd.Ext.apply { bc := none, ku := none, skid := none, akid := none }) [] := by
    unfold DerRd.dExtFields
    refine DerRd.Run.of_append_nil ?_
    refine DerRd.Run.bind (DerRd.run_headerOf DerRd.tagOfByte_seq) (fun n hn => ?_)
    subst hn
    refine DerRd.run_nested rfl ?_
    exact DerRd.run_extLoop (fuel := fuel) xs (fuel + 1) DerRd.ExtFields.empty h2 (by omega)
  have hexp := DerRd.Run.of_append_nil (DerRd.run_ctxExplicit (rest := []) DerRd.tagOfByte_a3 (by decide) (by decide) hin)
  exact DerRd.run_ctxWith_hit (t := 0xA3) (by simp [DerRd.encTlv]) DerRd.tagOfByte_a3 (by decide) (by decide) hexp

/-- **(ii) the extension reader refuses every certificate with the (critical) extended-key-usage extension** — i.e. every
Matter NOC: after any readable extensions, `ParsedExtensionFields::parse` meets extnID 2.5.29.37 with `critical = TRUE`,
which is none of the four it knows, and answers `Failed`. -/
theorem cert_x509_exts_eku_refused (pre post : List XExt) (eku : List Nat) (xs : List DerRd.Ext)
    (hw : ∀ e ∈ pre, e.WF) (hx : mapO XExt.toX pre = some xs) (fuel : Nat) (hf : pre.length < fuel + 1) :
    DerRd.Fails (DerRd.ctxWith 3 (DerRd.ctxExplicit (DerRd.dExtFields (fuel + 1))) (fuel + 1))
      (extsBytes (pre ++ .extKeyUsage eku :: post)) .failed := by
  obtain ⟨h1, h2, h3⟩ := exts_encRd pre xs hw hx
  have hb : extsBytes (pre ++ .extKeyUsage eku :: post) = DerRd.encTlv 0xA3 (DerRd.encTlv DerRd.TAG_SEQUENCE
      (DerRd.encExts xs ++ (DerRd.encExtension OID_EXT_KEY_USAGE true
        (DerRd.encTlv 0x30 (Node.encRdL (eku.flatMap ekuNode))) ++ Node.encRdL (post.map extNode)))) := by
    simp [extsBytes, List.map_append, Node.encRdL_append, Node.encRdL, h1, DerRd.TAG_SEQUENCE, extNode, extNodeKnown, seq,
      Node.encRd, DerRd.encExtension, DerRd.encOid, DerRd.encBool, DerRd.encOctets, DerRd.TAG_OID, DerRd.TAG_BOOLEAN,
      DerRd.TAG_OCTET_STRING]
  rw [hb]
  have hin : DerRd.Fails (DerRd.dExtFields (fuel + 1)) (DerRd.encTlv DerRd.TAG_SEQUENCE
      (DerRd.encExts xs ++ (DerRd.encExtension OID_EXT_KEY_USAGE true
        (DerRd.encTlv 0x30 (Node.encRdL (eku.flatMap ekuNode))) ++ Node.encRdL (post.map extNode)))) .failed := by
    unfold DerRd.dExtFields
    have h0 : ∀ x : List Nat, x = x ++ [] := by simp
    rw [h0 (DerRd.encTlv _ _)]
    refine DerRd.Fails.bind_right (DerRd.run_headerOf DerRd.tagOfByte_seq) (fun n hn => ?_)
    subst hn
    refine DerRd.fails_nested rfl ?_
    exact DerRd.fails_extLoop (by decide) (by decide) (by decide) (by decide) (by decide) xs (fuel + 1)
      DerRd.ExtFields.empty h2 (by omega)
  have h0 : ∀ x : List Nat, x = x ++ [] := by simp
  rw [h0 (DerRd.encTlv 0xA3 _)]
  refine DerRd.fails_ctxWith_hit (t := 0xA3) (by simp [DerRd.encTlv]) DerRd.tagOfByte_a3 (by decide) (by decide) ?_
  exact DerRd.fails_ctxExplicit DerRd.tagOfByte_a3 (by decide) (by decide) hin

/-- non-vacuity: the extension list of an RCAC / ICAC (`certSampleX509` without its extended key usage) -/
example : mapO XExt.toX [.basic true (some 0), .keyUsage 0x60, .subjKeyId [1, 2], .authKeyId [3]] =
    some [.basicConstraints true true (some 0), .keyUsage true 1 [0x06], .subjectKeyId false [1, 2],
          .authorityKeyId false [3]] := by decide
/-- … and the NOC shape of `certSampleX509` itself: the extensions before its extended key usage are readable -/
example : certSampleX509.exts = [.basic true (some 0), .keyUsage 0x60] ++ .extKeyUsage [2, 1] :: [.subjKeyId [1, 2], .authKeyId [3]] ∧
    (mapO XExt.toX [.basic true (some 0), .keyUsage 0x60]).isSome = true := by decide

end C17

namespace C17
open Codec Codec.Der Codec.CertAsn1

/-- **(i) `X509Cert::new` refuses the output of `as_asn1`, for every certificate type and every certificate within the
declared bounds**: the bytes are a bare TBSCertificate (first element `[0]` version), the parser expects
`Certificate ::= SEQUENCE { tbsCertificate SEQUENCE …, signatureAlgorithm, signature }` — `InvalidData`. -/
theorem cert_x509_new_refused (f : Fields) (h : f.Legal) (k : DerRd.CertKind) :
    ∃ n, certNode f = some n ∧ ∀ buf : List Nat, n.need ≤ buf.length → buf.length < 65536 →
      asAsn1 f.lazy buf = .ok n.enc ∧ DerRd.x509New k n.enc = .error .invalidData := by
  obtain ⟨n, hn⟩ := certNode_some f h
  refine ⟨n, hn, fun buf hfit hsmall => ?_⟩
  have hl := lenOk_of_need n (by omega)
  refine ⟨asAsn1_ok f n buf hn h.wf hl hfit, ?_⟩
  obtain ⟨xi, xs, nb, na, _, _, _, _, _, _, _, _, _, _, a5⟩ := asn1_tbs_layout f n hn h.wf hl
  have hmax : n.enc.length ≤ DerRd.MAX_LEN := by
    have := need_ge n
    have : DerRd.MAX_LEN = 268435455 := rfl
    omega
  rw [a5] at hmax ⊢
  exact DerRd.x509New_tbs_refused k _ _ hmax
example : certSampleX509.Legal := certSampleX509_legal

end C17
