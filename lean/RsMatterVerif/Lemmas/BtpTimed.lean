import RsMatterVerif.Lemmas.BtpFair
/-!
# Time: the acknowledgement deadline (run level) and the connection idle timeout

* `Session.ackable`: an acknowledgement is pending and can be put on the wire right now
  (`pending_ack().is_some()`, the send window has a free slot, no handshake response is pending).
* `poll_ackable`: what one `process_outgoing` does in such a state.
* `AckMon` / `ackRun`: the run of the link with two ghost clocks for one end `y` (when `y` was last
  polled; since when an acknowledgement has been sendable without interruption) and the run-level
  invariant `ack_inv` behind `C18.ack_within_deadline`.
-/
namespace Btp

/-- an acknowledgement is pending (`RecvWindow::pending_ack`: something accepted and not yet
acknowledged, and no complete message waiting to be fetched) and can be sent right now: the send
window has a free slot and the pump is not busy with the handshake response -/
def Session.ackable (s : Session) : Bool :=
  !s.handshakePending && s.recv.pendingAck.isSome && decide (1 ≤ s.send.level)

theorem ackable_iff {s : Session} : s.ackable = true ↔
    s.handshakePending = false ∧ s.recv.pendingAck.isSome = true ∧ 1 ≤ s.send.level := by
  unfold Session.ackable
  simp [Bool.and_eq_true, and_assoc]

theorem pendingAck_eq {r : RecvWindow} (h : r.pendingAck.isSome = true) : r.pendingAck = some r.ackSeq := by
  unfold RecvWindow.pendingAck at h ⊢
  split
  · rfl
  · rename_i hc; simp [hc] at h

theorem ackable_notFull {s : Session} (h : s.ackable = true) : s.send.isFull s.recv = false := by
  obtain ⟨_, h2, h3⟩ := ackable_iff.mp h
  unfold SendWindow.isFull
  have : s.send.level ≠ 0 := by omega
  simp [this, h2]

/-- every segment built by `prep_tx_data` carries the pending acknowledgement -/
theorem buildSegment_ack {s : Session} {data : List Nat} {off : Nat} {h : Hdr} {p : List Nat}
    (hok : s.buildSegment data off = .ok (h, p)) : h.getAck = s.recv.pendingAck := by
  have hb : s.baseHdr.getAck = s.recv.pendingAck := by
    unfold Session.baseHdr Hdr.getAck
    cases hp : s.recv.pendingAck with
    | none => simp
    | some a => simp
  unfold Session.buildSegment at hok
  by_cases hne : (!data.isEmpty) = true
  · simp only [hne, if_true] at hok
    by_cases hgt : off > data.length
    · simp only [hgt, if_true] at hok; cases hok
    · simp only [hgt, if_false] at hok
      obtain ⟨H, hH⟩ : ∃ H : Hdr, H = (if off = 0 then { s.baseHdr with beg := true, msgLen := data.length % 65536 }
          else { s.baseHdr with cont := true }) := ⟨_, rfl⟩
      rw [← hH] at hok
      have hHa : H.getAck = s.baseHdr.getAck := by
        rw [hH]; split <;> rfl
      cases hc : csub s.mtu H.len "prep_tx_data: mtu - hdr.len()" with
      | error f => rw [hc] at hok; cases hok
      | ok mp =>
        rw [hc] at hok
        simp only at hok
        have hh := (Prod.mk.inj (Except.ok.inj hok)).1
        rw [← hh, ← hb, ← hHa]
        split <;> rfl
  · simp only [hne, Bool.false_eq_true, if_false] at hok
    have hh := (Prod.mk.inj (Except.ok.inj hok)).1
    rw [← hh]; exact hb

/-- an emission of `prep_tx_data` in an ackable state: the segment carries the acknowledgement and
the receive window counts everything as acknowledged -/
theorem prepTxData_ackable {s : Session} (ha : s.ackable = true) {data : List Nat} {off now : Nat}
    {s' : Session} {seg : List Nat} {off' : Nat} (hok : s.prepTxData data off now = .ok (s', seg, off')) :
    seg ≠ [] ∧ s'.recv.ackLevel = 0 ∧ ∃ (h : Hdr) (p : List Nat), seg = h.encode ++ p ∧ h.getAck = some s.recv.ackSeq := by
  obtain ⟨_, hp, _⟩ := ackable_iff.mp ha
  rcases prepTxData_inv hok with ⟨hs0, _, _⟩ | ⟨h, p, hb, hsg, _⟩
  · exfalso
    subst hs0
    have := prepTxData_nil_full hok
    rw [ackable_notFull ha] at this; cases this
  · have hne : seg ≠ [] := by
      intro h0
      have := (encode_length_le h).2
      rw [h0] at hsg
      have : (h.encode ++ p).length = 0 := by rw [← hsg]; rfl
      simp only [List.length_append] at this; omega
    refine ⟨hne, (prepTxData_emits hok hne).2.2.2.2 hp, h, p, hsg, ?_⟩
    rw [buildSegment_ack hb, pendingAck_eq hp]

/-- **One `process_outgoing` in an ackable state**: either nothing is emitted, the end is unchanged
and the acknowledgement is not due yet (`is_ack_due = false`); or a segment is emitted - the queued
message's next segment or a stand-alone acknowledgement - that carries the acknowledgement number
`ack_seq`, after which the receive window counts everything as acknowledged. -/
theorem poll_ackable {e : End} (ha : e.s.ackable = true) {now : Nat} {e' : End} {seg : List Nat}
    (hok : e.processOutgoing now = .ok (e', seg)) :
    (seg = [] ∧ e' = e ∧ e.s.isAckDue now ackTimeoutSecs = false) ∨
    (seg ≠ [] ∧ e'.s.recv.ackLevel = 0 ∧ ∃ (h : Hdr) (p : List Nat), seg = h.encode ++ p ∧ h.getAck = some e.s.recv.ackSeq) := by
  obtain ⟨hnp, hp, hl⟩ := ackable_iff.mp ha
  unfold End.processOutgoing at hok
  rw [prepTxHandshake_idle hnp] at hok
  simp only [List.length_nil, Nat.lt_irrefl, if_false] at hok
  have he1 : ({ e with s := e.s } : End) = e := rfl
  rw [he1] at hok
  unfold End.dataStep at hok
  by_cases hd : (!e.sdu.isEmpty && e.s.established) = true
  · simp only [hd, if_true] at hok
    cases h2 : e.s.prepTxData e.sdu e.off now with
    | error f => rw [h2] at hok; cases hok
    | ok r =>
      rw [h2] at hok
      obtain ⟨s2, sg, off2⟩ := r
      obtain ⟨hne, hal, hh⟩ := prepTxData_ackable ha h2
      have hlen : sg.length > 0 := by
        cases sg with
        | nil => exact absurd rfl hne
        | cons _ _ => simp
      simp only [hlen, if_true] at hok
      right
      by_cases hend : off2 = e.sdu.length
      · simp only [hend, if_true, hlen] at hok
        have hh2 := Prod.mk.inj (Except.ok.inj hok)
        rw [← hh2.1, ← hh2.2]; exact ⟨hne, hal, hh⟩
      · simp only [hend, if_false, hlen, if_true] at hok
        have hh2 := Prod.mk.inj (Except.ok.inj hok)
        rw [← hh2.1, ← hh2.2]; exact ⟨hne, hal, hh⟩
  · simp only [hd, Bool.false_eq_true, if_false, List.length_nil, Nat.lt_irrefl] at hok
    unfold End.ackStep at hok
    by_cases hdue : e.s.isAckDue now ackTimeoutSecs = true
    · simp only [hdue, if_true] at hok
      cases h3 : e.s.prepTxData [] 0 now with
      | error f => rw [h3] at hok; cases hok
      | ok r =>
        rw [h3] at hok
        obtain ⟨s3, sg, off3⟩ := r
        obtain ⟨hne, hal, hh⟩ := prepTxData_ackable ha h3
        have hh2 := Prod.mk.inj (Except.ok.inj hok)
        right
        rw [← hh2.1, ← hh2.2]; exact ⟨hne, hal, hh⟩
    · simp only [hdue, Bool.false_eq_true, if_false] at hok
      have hh2 := Prod.mk.inj (Except.ok.inj hok)
      left
      exact ⟨hh2.2.symm, hh2.1.symm, by simpa using hdue⟩

/-! ## What one operation of the monitored end does to the `End` -/

/-- an accepted segment stamps the receive window with the current instant (data; handshake response
at the initiator), or (handshake request at the responder) starts the session with nothing to acknowledge -/
theorem rx_stamps {e e' : End} {data : List Nat} {now : Nat} (hok : e.processIncoming data now = .ok e') :
    e'.s.recv.receivedAt = some now ∨ e'.s.recv.ackLevel = 0 := by
  unfold End.processIncoming at hok
  cases h : e.s.processRx e.gattMtu data now with
  | error f => rw [h] at hok; cases hok
  | ok s' =>
    rw [h] at hok
    have := Except.ok.inj hok
    rw [← this]
    show s'.recv.receivedAt = some now ∨ s'.recv.ackLevel = 0
    unfold Session.processRx at h
    cases hd : decodeHdr data with
    | error f => rw [hd] at h; cases h
    | ok hp =>
      rw [hd] at h
      obtain ⟨hh, p⟩ := hp
      simp only at h
      unfold Session.processRxSeg at h
      by_cases hhs : hh.hs = true
      · simp only [hhs, if_true] at h
        by_cases hi : e.s.initiator = true
        · simp only [hi, if_true] at h
          unfold Session.processRxHandshakeResp at h
          split at h
          · cases h
          · split at h
            · cases h
            · split at h
              · cases h
              · have := Except.ok.inj h; rw [← this]
                left; simp only [Session.setup, hi, if_true]
        · simp only [hi, Bool.false_eq_true, if_false] at h
          unfold Session.processRxHandshakeReq at h
          split at h
          · cases h
          · split at h
            · cases h
            · dsimp only at h
              split at h
              · cases h
              · split at h
                · cases h
                · split at h
                  · cases h
                  · have := Except.ok.inj h; rw [← this]
                    right; simp only [Session.setup, hi, Bool.false_eq_true, if_false]
      · left
        simp only [hhs, Bool.false_eq_true, if_false] at h
        exact (accepted_stamps h).1

theorem monStep_send {m m' : Mon} {d : List Nat} {o : Out} (h : m.step (.send d) = .ok (m', o)) :
    m'.e.s = m.e.s := by
  simp only [Mon.step] at h
  cases hs : m.e.send d with
  | error f => rw [hs] at h; cases h
  | ok r =>
    rw [hs] at h
    obtain ⟨e, ok⟩ := r
    have hh := Prod.mk.inj (Except.ok.inj h); rw [← hh.1]
    exact endSend_frame hs

theorem monStep_poll {m m' : Mon} {now : Nat} {o : Out} (h : m.step (.poll now) = .ok (m', o)) :
    ∃ seg, m.e.processOutgoing now = .ok (m'.e, seg) := by
  simp only [Mon.step] at h
  cases hs : m.e.processOutgoing now with
  | error f => rw [hs] at h; cases h
  | ok r =>
    rw [hs] at h
    obtain ⟨e, seg⟩ := r
    have hh := Prod.mk.inj (Except.ok.inj h); rw [← hh.1]
    exact ⟨seg, rfl⟩

theorem monStep_rx {m m' : Mon} {d : List Nat} {now : Nat} {o : Out} (h : m.step (.rx d now) = .ok (m', o)) :
    m.e.processIncoming d now = .ok m'.e := by
  simp only [Mon.step] at h
  cases hs : m.e.processIncoming d now with
  | error f => rw [hs] at h; cases h
  | ok e =>
    rw [hs] at h
    have hh := Prod.mk.inj (Except.ok.inj h); rw [← hh.1]

theorem monStep_fetch {m m' : Mon} {cap : Nat} {o : Out} (h : m.step (.fetch cap) = .ok (m', o)) :
    ∃ mm, m.e.recv cap = .ok (m'.e, mm) := by
  simp only [Mon.step] at h
  cases hs : m.e.recv cap with
  | error f => rw [hs] at h; cases h
  | ok r =>
    rw [hs] at h
    obtain ⟨e, mm⟩ := r
    cases mm with
    | none => have hh := Prod.mk.inj (Except.ok.inj h); rw [← hh.1]; exact ⟨none, rfl⟩
    | some b => have hh := Prod.mk.inj (Except.ok.inj h); rw [← hh.1]; exact ⟨some b, rfl⟩

/-- what one scheduler operation does to end `y` and to the clock -/
inductive StepAt (l l' : LMon) (y : Side) : Op → Prop
  | same (op : Op) (h : l'.get y = l.get y) (hn : l.now ≤ l'.now) (hp : op ≠ .poll y) : StepAt l l' y op
  | send (d : List Nat) (h : (l'.get y).e.s = (l.get y).e.s) (hn : l'.now = l.now) : StepAt l l' y (.send y d)
  | poll (seg : List Nat) (h : (l.get y).e.processOutgoing l.now = .ok ((l'.get y).e, seg)) (hn : l'.now = l.now) :
      StepAt l l' y (.poll y)
  | rx (seg : List Nat) (h : (l.get y).e.processIncoming seg l.now = .ok (l'.get y).e) (hn : l'.now = l.now) :
      StepAt l l' y (.deliver y)
  | fetch (cap : Nat) (mm : Option (List Nat)) (h : (l.get y).e.recv cap = .ok ((l'.get y).e, mm))
      (hn : l'.now = l.now) : StepAt l l' y (.fetch y cap)

theorem get_set_ne (l : LMon) {x y : Side} (h : x ≠ y) (m : Mon) : (l.set x m).get y = l.get y := by
  cases x <;> cases y <;> first | rfl | exact absurd rfl h

theorem stepAt {l l' : LMon} {op : Op} {o : Out} (h : l.step op = .ok (l', o)) (y : Side) : StepAt l l' y op := by
  cases op with
  | send x d =>
    simp only [LMon.step] at h
    cases hs : (l.get x).step (.send d) with
    | error f => rw [hs] at h; cases h
    | ok r =>
      rw [hs] at h
      obtain ⟨m', o'⟩ := r
      have hh := Prod.mk.inj (Except.ok.inj h); rw [← hh.1]
      by_cases hx : x = y
      · subst hx
        exact .send d (by rw [get_set_same]; exact monStep_send hs) (now_set _ _ _)
      · exact .same _ (get_set_ne l hx m') (by rw [now_set]; exact Nat.le_refl _) (by simp)
  | poll x =>
    simp only [LMon.step] at h
    cases hs : (l.get x).step (.poll l.now) with
    | error f => rw [hs] at h; cases h
    | ok r =>
      rw [hs] at h
      obtain ⟨m', o'⟩ := r
      obtain ⟨seg, hseg⟩ := monStep_poll hs
      have key : l'.get y = (l.set x m').get y ∧ l'.now = l.now := by
        cases o' <;> simp only at h <;>
          (have hh := Prod.mk.inj (Except.ok.inj h); rw [← hh.1]; simp)
      by_cases hx : x = y
      · subst hx
        refine .poll seg ?_ key.2
        rw [key.1, get_set_same]; exact hseg
      · exact .same _ (by rw [key.1]; exact get_set_ne l hx m') (by rw [key.2]; exact Nat.le_refl _)
          (by intro hc; exact hx (Op.poll.inj hc))
  | deliver x =>
    simp only [LMon.step] at h
    cases hq : l.inq x with
    | nil =>
      rw [hq] at h
      have hh := Prod.mk.inj (Except.ok.inj h); rw [← hh.1]
      exact .same _ rfl (Nat.le_refl _) (by simp)
    | cons seg rest =>
      rw [hq] at h
      simp only at h
      cases hs : (l.get x).step (.rx seg l.now) with
      | error f => rw [hs] at h; cases h
      | ok r =>
        rw [hs] at h
        obtain ⟨m', o'⟩ := r
        have hh := Prod.mk.inj (Except.ok.inj h); rw [← hh.1]
        by_cases hx : x = y
        · subst hx
          exact .rx seg (by rw [get_setInq, get_set_same]; exact monStep_rx hs) (by simp)
        · exact .same _ (by rw [get_setInq]; exact get_set_ne l hx m') (by simp) (by simp)
  | tick n =>
    simp only [LMon.step] at h
    have hh := Prod.mk.inj (Except.ok.inj h); rw [← hh.1]
    exact .same _ (by cases y <;> rfl) (Nat.le_add_right _ _) (by simp)
  | fetch x cap =>
    simp only [LMon.step] at h
    cases hs : (l.get x).step (.fetch cap) with
    | error f => rw [hs] at h; cases h
    | ok r =>
      rw [hs] at h
      obtain ⟨m', o'⟩ := r
      have hh := Prod.mk.inj (Except.ok.inj h); rw [← hh.1]
      by_cases hx : x = y
      · subst hx
        obtain ⟨mm, hmm⟩ := monStep_fetch hs
        exact .fetch cap mm (by rw [get_set_same]; exact hmm) (now_set _ _ _)
      · exact .same _ (get_set_ne l hx m') (by rw [now_set]; exact Nat.le_refl _) (by simp)

/-! ## The acknowledgement deadline along a run -/

/-- the monitored link with two ghost clocks for the end `y` under observation -/
structure AckMon where
  l : LMon
  /-- model time of the last `poll y` (of the start of the observation if there was none) -/
  polledAt : Nat
  /-- since when an acknowledgement has been sendable at `y` (`Session.ackable`) without interruption -/
  since : Option Nat

def AckMon.init (l : LMon) (y : Side) : AckMon :=
  { l := l, polledAt := l.now, since := if (l.get y).e.s.ackable then some l.now else none }

/-- one scheduler operation (a failing operation changes nothing, as in `runLink`) -/
def AckMon.step (y : Side) (m : AckMon) (op : Op) : AckMon :=
  match m.l.step op with
  | .error _ => m
  | .ok (l', _) =>
    { l := l',
      polledAt := if op = .poll y then m.l.now else m.polledAt,
      since := if (l'.get y).e.s.ackable then (if (m.l.get y).e.s.ackable then m.since else some l'.now)
               else none }

def ackRun (y : Side) (m : AckMon) : List Op → AckMon
  | [] => m
  | op :: ops => ackRun y (m.step y op) ops

/-- **the invariant**: whenever an acknowledgement is sendable at `y`, then at the time `y` was last
polled either the acknowledgement timer had not yet fired (`polledAt < received_at + 15`) or the
acknowledgement was not yet sendable (`polledAt ≤ since`) -/
structure AckInv (y : Side) (m : AckMon) : Prop where
  pol : m.polledAt ≤ m.l.now
  ok : (m.l.get y).e.s.ackable = true →
    ∃ u, m.since = some u ∧ u ≤ m.l.now ∧
      ∀ t, (m.l.get y).e.s.recv.receivedAt = some t → (m.polledAt < t + ackTimeoutSecs ∨ m.polledAt ≤ u)

theorem ackInv_init (l : LMon) (y : Side) : AckInv y (AckMon.init l y) := by
  refine ⟨Nat.le_refl _, fun ha => ⟨l.now, ?_, Nat.le_refl _, fun t _ => .inr (Nat.le_refl _)⟩⟩
  show (if (l.get y).e.s.ackable then some l.now else none) = some l.now
  have ha' : (l.get y).e.s.ackable = true := ha
  rw [ha']; rfl

theorem ackable_level {s : Session} (h : s.ackable = true) : 0 < s.recv.ackLevel := by
  obtain ⟨_, hp, _⟩ := ackable_iff.mp h
  unfold RecvWindow.pendingAck at hp
  split at hp
  · rename_i hc; simp at hc; exact hc.1
  · cases hp

theorem ackInv_step {y : Side} {m : AckMon} (hi : AckInv y m) (op : Op) : AckInv y (m.step y op) := by
  unfold AckMon.step
  cases hstep : m.l.step op with
  | error f => exact hi
  | ok r =>
    obtain ⟨l', o⟩ := r
    simp only
    have hsa := stepAt hstep y
    cases hsa with
    | same op hget hn hp =>
      refine ⟨?_, ?_⟩
      · simp only [hp, if_false]; exact Nat.le_trans hi.pol hn
      · simp only [hp, if_false, hget]
        intro ha
        obtain ⟨u, hu, hle, hall⟩ := hi.ok ha
        simp only [ha, if_true]
        exact ⟨u, hu, Nat.le_trans hle hn, hall⟩
    | send d hs hn =>
      have hp : Op.send y d ≠ .poll y := by simp
      refine ⟨?_, ?_⟩
      · simp only [hp, if_false]; rw [hn]; exact hi.pol
      · simp only [hp, if_false, hs]
        intro ha
        obtain ⟨u, hu, hle, hall⟩ := hi.ok ha
        simp only [ha, if_true]
        exact ⟨u, hu, by rw [hn]; exact hle, hall⟩
    | poll seg hpo hn =>
      refine ⟨?_, ?_⟩
      · simp only [if_true]; rw [hn]; exact Nat.le_refl _
      · simp only [if_true]
        intro ha'
        simp only [ha', if_true]
        by_cases ha : (m.l.get y).e.s.ackable = true
        · rcases poll_ackable ha hpo with ⟨_, he, hnd⟩ | ⟨_, hal, _⟩
          · -- nothing emitted, end unchanged, not due
            obtain ⟨u, hu, hle, _⟩ := hi.ok ha
            simp only [ha, if_true]
            refine ⟨u, hu, by rw [hn]; exact hle, ?_⟩
            intro t ht
            left
            rw [he] at ht
            unfold Session.isAckDue at hnd
            obtain ⟨_, hp, _⟩ := ackable_iff.mp ha
            simp only [hp, Bool.true_and, ht, Bool.or_eq_false_iff, decide_eq_false_iff_not] at hnd
            omega
          · -- emitted: no longer ackable
            have := ackable_level ha'
            omega
        · simp only [ha, Bool.false_eq_true, if_false]
          exact ⟨l'.now, rfl, Nat.le_refl _, fun t _ => .inr (by rw [hn]; exact Nat.le_refl _)⟩
    | rx seg hrx hn =>
      have hp : Op.deliver y ≠ .poll y := by simp
      refine ⟨?_, ?_⟩
      · simp only [hp, if_false]; rw [hn]; exact hi.pol
      · simp only [hp, if_false]
        intro ha'
        simp only [ha', if_true]
        have hst : (l'.get y).e.s.recv.receivedAt = some m.l.now := by
          rcases rx_stamps hrx with h1 | h1
          · exact h1
          · have := ackable_level ha'; omega
        have hfresh : ∀ t, (l'.get y).e.s.recv.receivedAt = some t → m.polledAt < t + ackTimeoutSecs := by
          intro t ht
          rw [hst] at ht
          have := Option.some.inj ht
          have := hi.pol
          simp only [ackTimeoutSecs_eq]; omega
        by_cases ha : (m.l.get y).e.s.ackable = true
        · obtain ⟨u, hu, hle, _⟩ := hi.ok ha
          simp only [ha, if_true]
          exact ⟨u, hu, by rw [hn]; exact hle, fun t ht => .inl (hfresh t ht)⟩
        · simp only [ha, Bool.false_eq_true, if_false]
          exact ⟨l'.now, rfl, Nat.le_refl _, fun t ht => .inl (hfresh t ht)⟩
    | fetch cap mm hf hn =>
      have hp : Op.fetch y cap ≠ .poll y := by simp
      have hrec := (endRecv_frame2 hf).2.2.2.2.2.2.2.2.2.2
      refine ⟨?_, ?_⟩
      · simp only [hp, if_false]; rw [hn]; exact hi.pol
      · simp only [hp, if_false]
        intro ha'
        simp only [ha', if_true]
        by_cases ha : (m.l.get y).e.s.ackable = true
        · obtain ⟨u, hu, hle, hall⟩ := hi.ok ha
          simp only [ha, if_true]
          exact ⟨u, hu, by rw [hn]; exact hle, fun t ht => hall t (by rw [← hrec]; exact ht)⟩
        · simp only [ha, Bool.false_eq_true, if_false]
          exact ⟨l'.now, rfl, Nat.le_refl _, fun t _ => .inr (by rw [hn]; exact hi.pol)⟩

theorem ackInv_run {y : Side} (ops : List Op) : ∀ {m : AckMon}, AckInv y m → AckInv y (ackRun y m ops) := by
  induction ops with
  | nil => intro m h; exact h
  | cons op ops ih => intro m h; exact ih (ackInv_step h op)

/-! ## The complete effect of one scheduler operation on the link -/

inductive Stepped (l l' : LMon) : Op → Prop
  | send (x : Side) (d : List Nat) (hx : (l'.get x).e.s = (l.get x).e.s) (ho : l'.get x.other = l.get x.other)
      (hq : ∀ z, l'.inq z = l.inq z) (hn : l'.now = l.now) : Stepped l l' (.send x d)
  | poll (x : Side) (e' : End) (seg : List Nat) (hp : (l.get x).e.processOutgoing l.now = .ok (e', seg))
      (hx : (l'.get x).e = e') (ho : l'.get x.other = l.get x.other) (hq1 : l'.inq x = l.inq x)
      (hq2 : l'.inq x.other = if seg = [] then l.inq x.other else l.inq x.other ++ [seg])
      (hn : l'.now = l.now) : Stepped l l' (.poll x)
  | deliverNil (x : Side) (hq : l.inq x = []) (he : l' = l) : Stepped l l' (.deliver x)
  | deliver (x : Side) (seg : List Nat) (rest : List (List Nat)) (e' : End) (hq : l.inq x = seg :: rest)
      (hp : (l.get x).e.processIncoming seg l.now = .ok e') (hx : (l'.get x).e = e')
      (ho : l'.get x.other = l.get x.other) (hq1 : l'.inq x = rest) (hq2 : l'.inq x.other = l.inq x.other)
      (hn : l'.now = l.now) : Stepped l l' (.deliver x)
  | tick (n : Nat) (he : l' = { l with now := l.now + n }) : Stepped l l' (.tick n)
  | fetch (x : Side) (cap : Nat) (e' : End) (mm : Option (List Nat)) (hp : (l.get x).e.recv cap = .ok (e', mm))
      (hx : (l'.get x).e = e') (ho : l'.get x.other = l.get x.other) (hq : ∀ z, l'.inq z = l.inq z)
      (hn : l'.now = l.now) : Stepped l l' (.fetch x cap)

theorem stepped {l l' : LMon} {op : Op} {o : Out} (h : l.step op = .ok (l', o)) : Stepped l l' op := by
  cases op with
  | send x d =>
    simp only [LMon.step] at h
    cases hs : (l.get x).step (.send d) with
    | error f => rw [hs] at h; cases h
    | ok r =>
      rw [hs] at h
      obtain ⟨m', o'⟩ := r
      have hh := Prod.mk.inj (Except.ok.inj h); rw [← hh.1]
      exact .send x d (by rw [get_set_same]; exact monStep_send hs) (get_set_other _ _ _)
        (fun z => inq_set _ _ _ _) (now_set _ _ _)
  | poll x =>
    simp only [LMon.step] at h
    cases hs : (l.get x).step (.poll l.now) with
    | error f => rw [hs] at h; cases h
    | ok r =>
      rw [hs] at h
      obtain ⟨m', o'⟩ := r
      simp only [Mon.step] at hs
      cases hpo : (l.get x).e.processOutgoing l.now with
      | error f => rw [hpo] at hs; cases hs
      | ok r2 =>
        rw [hpo] at hs
        obtain ⟨e2, seg⟩ := r2
        simp only at hs
        have hh2 := Prod.mk.inj (Except.ok.inj hs)
        by_cases hlen : seg.length > 0
        · have hne : seg ≠ [] := by intro h0; rw [h0] at hlen; simp at hlen
          simp only [hlen, if_true] at hh2
          rw [← hh2.2] at h
          simp only at h
          have hh := Prod.mk.inj (Except.ok.inj h); rw [← hh.1]
          refine .poll x e2 seg hpo ?_ ?_ ?_ ?_ ?_
          · rw [get_setInq, get_set_same, ← hh2.1]
          · rw [get_setInq, get_set_other]
          · rw [inq_setInq_other, inq_set]
          · rw [inq_setInq_same, inq_set]; simp [hne]
          · rw [now_setInq, now_set]
        · have he : seg = [] := by
            cases seg with
            | nil => rfl
            | cons a b => simp at hlen
          simp only [hlen, if_false] at hh2
          rw [← hh2.2] at h
          simp only at h
          have hh := Prod.mk.inj (Except.ok.inj h); rw [← hh.1]
          refine .poll x e2 seg hpo ?_ ?_ ?_ ?_ ?_
          · rw [get_set_same, ← hh2.1]
          · rw [get_set_other]
          · rw [inq_set]
          · rw [inq_set]; simp [he]
          · rw [now_set]
  | deliver x =>
    simp only [LMon.step] at h
    cases hq : l.inq x with
    | nil =>
      rw [hq] at h
      have hh := Prod.mk.inj (Except.ok.inj h)
      exact .deliverNil x hq hh.1.symm
    | cons seg rest =>
      rw [hq] at h
      simp only at h
      cases hs : (l.get x).step (.rx seg l.now) with
      | error f => rw [hs] at h; cases h
      | ok r =>
        rw [hs] at h
        obtain ⟨m', o'⟩ := r
        have hh := Prod.mk.inj (Except.ok.inj h); rw [← hh.1]
        refine .deliver x seg rest m'.e hq (monStep_rx hs) ?_ ?_ ?_ ?_ ?_
        · rw [get_setInq, get_set_same]
        · rw [get_setInq, get_set_other]
        · rw [inq_setInq_same]
        · rw [inq_setInq_other', inq_set]
        · rw [now_setInq, now_set]
  | tick n =>
    simp only [LMon.step] at h
    have hh := Prod.mk.inj (Except.ok.inj h)
    exact .tick n hh.1.symm
  | fetch x cap =>
    simp only [LMon.step] at h
    cases hs : (l.get x).step (.fetch cap) with
    | error f => rw [hs] at h; cases h
    | ok r =>
      rw [hs] at h
      obtain ⟨m', o'⟩ := r
      have hh := Prod.mk.inj (Except.ok.inj h); rw [← hh.1]
      obtain ⟨mm, hmm⟩ := monStep_fetch hs
      exact .fetch x cap m'.e mm hmm (by rw [get_set_same]) (get_set_other _ _ _)
        (fun z => inq_set _ _ _ _) (now_set _ _ _)

/-! ## The connection idle timeout between two synchronised ends -/

@[simp] theorem connIdleTimeoutSecs_eq : connIdleTimeoutSecs = 30 := rfl

/-- effect of an accepted data / ack segment on the time stamps and the send window -/
theorem rx_data_effect {e e' : End} {seg : List Nat} {now : Nat}
    (hno : ∃ h p, decodeHdr seg = .ok (h, p) ∧ h.hs = false)
    (hok : e.processIncoming seg now = .ok e') :
    e'.s.recv.receivedAt = some now ∧ e'.s.recv.ackLevel = e.s.recv.ackLevel + 1 ∧
    ((ackOf seg = none ∧ e'.s.send = e.s.send) ∨
     (e'.s.send.level = e.s.send.windowSize ∧ e'.s.send.sentAt = none) ∨
     (e'.s.send.sentAt = some now ∧ ∃ a, ackOf seg = some a ∧ e.s.send.lastSent ≠ a ∧
        e'.s.send.level = e.s.send.windowSize - wrapSub e.s.send.lastSent a)) := by
  obtain ⟨h, p, hdec, hhs⟩ := hno
  unfold End.processIncoming at hok
  cases hr : e.s.processRx e.gattMtu seg now with
  | error f => rw [hr] at hok; cases hok
  | ok s' =>
    rw [hr] at hok
    have he := Except.ok.inj hok
    rw [← he]
    show s'.recv.receivedAt = some now ∧ s'.recv.ackLevel = e.s.recv.ackLevel + 1 ∧ _
    unfold Session.processRx at hr
    rw [hdec] at hr
    simp only at hr
    unfold Session.processRxSeg at hr
    simp only [hhs, Bool.false_eq_true, if_false] at hr
    obtain ⟨a1, a2, _⟩ := accepted_stamps hr
    refine ⟨a1, a2, ?_⟩
    show (ackOf seg = none ∧ s'.send = e.s.send) ∨ (s'.send.level = e.s.send.windowSize ∧ s'.send.sentAt = none) ∨
      (s'.send.sentAt = some now ∧ ∃ a, ackOf seg = some a ∧ e.s.send.lastSent ≠ a ∧
        s'.send.level = e.s.send.windowSize - wrapSub e.s.send.lastSent a)
    unfold Session.processRxData at hr
    split at hr
    · cases hr
    · split at hr
      · cases hr
      · split at hr
        · cases hr
        · rename_i w hw
          have := Except.ok.inj hr
          rw [← this]
          show (ackOf seg = none ∧ w = e.s.send) ∨ (w.level = e.s.send.windowSize ∧ w.sentAt = none) ∨
            (w.sentAt = some now ∧ ∃ a, ackOf seg = some a ∧ e.s.send.lastSent ≠ a ∧
              w.level = e.s.send.windowSize - wrapSub e.s.send.lastSent a)
          unfold SendWindow.acceptIncoming at hw
          split at hw
          · rename_i hga
            left
            refine ⟨?_, (Except.ok.inj hw).symm⟩
            simp only [ackOf, hdec, hhs, Bool.false_eq_true, if_false, hga]
          · rename_i a hga
            have hao : ackOf seg = some a := by
              simp only [ackOf, hdec, hhs, Bool.false_eq_true, if_false, hga]
            split at hw
            · right; left
              have := Except.ok.inj hw; rw [← this]; exact ⟨rfl, rfl⟩
            · rename_i hne
              cases hc : csub e.s.send.windowSize (wrapSub e.s.send.lastSent a)
                  "send window: window_size - unacknowledged" with
              | error f => rw [hc] at hw; cases hw
              | ok lv =>
                rw [hc] at hw
                right; right
                have := Except.ok.inj hw; rw [← this]
                refine ⟨rfl, a, hao, hne, ?_⟩
                unfold csub at hc
                split at hc
                · exact (Except.ok.inj hc).symm
                · cases hc

/-- **time-stamp invariant of the direction `x → x.other`** (on top of `Sync`) -/
structure TDir (W : Nat) (l : LMon) (x : Side) : Prop where
  /-- while something is unacknowledged the idle timer runs ... -/
  j1 : (l.get x).e.s.send.level < W → (l.get x).e.s.send.sentAt.isSome = true
  /-- ... and only then -/
  j1c : (l.get x).e.s.send.sentAt.isSome = true → (l.get x).e.s.send.level < W
  t0 : ∀ r, (l.get x).e.s.recv.receivedAt = some r → r ≤ l.now
  /-- segments in flight were sent at this very instant (time advances only when the queues are empty) -/
  t1 : l.inq x.other ≠ [] → ∀ s, (l.get x).e.s.send.sentAt = some s → s = l.now
  /-- the peer's acknowledgement timer started no later than our idle timer -/
  t2 : 0 < (l.get x.other).e.s.recv.ackLevel → ∀ r s, (l.get x.other).e.s.recv.receivedAt = some r →
    (l.get x).e.s.send.sentAt = some s → r ≤ s
  /-- **the idle timer has not expired** -/
  main : ∀ s, (l.get x).e.s.send.sentAt = some s → l.now ≤ s + connIdleTimeoutSecs

/-- what `TDir` looks at -/
structure SameTimes (l l' : LMon) : Prop where
  snd : ∀ z, (l'.get z).e.s.send = (l.get z).e.s.send
  rat : ∀ z, (l'.get z).e.s.recv.receivedAt = (l.get z).e.s.recv.receivedAt
  alv : ∀ z, (l'.get z).e.s.recv.ackLevel = (l.get z).e.s.recv.ackLevel
  inq : ∀ z, l'.inq z = l.inq z

theorem tdir_congr {W : Nat} {l l' : LMon} (h : SameTimes l l') (hn : l.now ≤ l'.now)
    (hq : l'.now = l.now ∨ ∀ z, l.inq z = []) (x : Side)
    (hmain : ∀ s, (l.get x).e.s.send.sentAt = some s → l'.now ≤ s + connIdleTimeoutSecs)
    (ht : TDir W l x) : TDir W l' x := by
  refine ⟨?_, ?_, ?_, ?_, ?_, ?_⟩
  · rw [h.snd]; exact ht.j1
  · rw [h.snd]; exact ht.j1c
  · intro r hr; rw [h.rat] at hr; exact Nat.le_trans (ht.t0 r hr) hn
  · rw [h.inq, h.snd]
    intro hne s hs
    rcases hq with hq | hq
    · rw [hq]; exact ht.t1 hne s hs
    · exact absurd (hq _) hne
  · rw [h.alv, h.rat, h.snd]; exact ht.t2
  · rw [h.snd]; exact hmain

/-- the network and both ends have caught up: nothing travels, nothing waits to be fetched, and
neither pump has anything to emit at the current instant -/
def Quiescent (l : LMon) : Prop :=
  l.qab = [] ∧ l.qba = [] ∧ ∀ x, (l.get x).e.s.recv.msgCt = 0 ∧ ∃ e', (l.get x).e.processOutgoing l.now = .ok (e', [])

theorem Quiescent.inq {l : LMon} (h : Quiescent l) (z : Side) : l.inq z = [] := by
  cases z
  · exact h.2.1
  · exact h.1

theorem noAck_nil : NoAck [] := fun _ h => absurd h List.not_mem_nil

/-- **The tick step**: in a quiescent synchronised state (window ≥ 2) every running idle timer has
at least 15 s left: the peer holds all our unacknowledged segments for acknowledgement
(`Tight`: nothing travels, so `window − level = ack_level` of the peer), its acknowledgement is
pending and its 15 s timer, which started no later than our idle timer, has not fired. -/
theorem tick_main {W M : Nat} {l : LMon} (hs : Sync W M l) (hw : 2 ≤ W) (hq : Quiescent l) (x : Side)
    (ht : TDir W l x) (s : Nat) (hsent : (l.get x).e.s.send.sentAt = some s) :
    l.now + 15 ≤ s + connIdleTimeoutSecs := by
  have d := hs.dir x
  have d2 := hs.dir x.other
  simp only [other_other] at d2
  rw [hq.inq, hq.inq] at d d2
  have htight := d.tight
  simp only [Tight, lastAck, List.length_nil, Nat.sub_zero] at htight
  have hlt := ht.j1c (by rw [hsent]; rfl)
  have hal' : 0 < (l.get x.other).e.s.recv.ackLevel := by omega
  obtain ⟨hmc, ey, hpoll⟩ := hq.2.2 x.other
  have hpa := pendingAck_some hal' hmc
  have hnp := (hs.st x.other).pend
  by_cases hly : 1 ≤ (l.get x.other).e.s.send.level
  · -- the peer could send its acknowledgement, and does not: its timer has not fired
    have hab : (l.get x.other).e.s.ackable = true :=
      ackable_iff.mpr ⟨hnp, by rw [hpa]; rfl, hly⟩
    rcases poll_ackable hab hpoll with ⟨_, _, hnd⟩ | ⟨hne, _⟩
    · obtain ⟨r, hr⟩ := Option.isSome_iff_exists.mp (d.stamp hal')
      have hrs := ht.t2 hal' r s hr hsent
      unfold Session.isAckDue at hnd
      simp only [hpa, Option.isSome_some, Bool.true_and, hr, Bool.or_eq_false_iff,
        decide_eq_false_iff_not, ackTimeoutSecs_eq] at hnd
      simp only [connIdleTimeoutSecs_eq]
      have hnd2 : ¬ (r + 15 ≤ l.now) := of_decide_eq_false hnd.2
      omega
    · exact absurd rfl hne
  · -- the peer's send window is exhausted: then we owe it an acknowledgement that is due at once
    exfalso
    have hly0 : (l.get x.other).e.s.send.level = 0 := by omega
    have ht2 := d2.tight
    simp only [Tight, lastAck, List.length_nil, Nat.sub_zero] at ht2
    have hsum := d2.sum
    obtain ⟨hmcx, ex, hpollx⟩ := hq.2.2 x
    have halx : 0 < (l.get x).e.s.recv.ackLevel := by omega
    have hpax := pendingAck_some halx hmcx
    by_cases hlx : 1 ≤ (l.get x).e.s.send.level
    · have habx : (l.get x).e.s.ackable = true :=
        ackable_iff.mpr ⟨(hs.st x).pend, by rw [hpax]; rfl, hlx⟩
      rcases poll_ackable habx hpollx with ⟨_, _, hnd⟩ | ⟨hne, _⟩
      · unfold Session.isAckDue at hnd
        simp only [hpax, Option.isSome_some, Bool.true_and, Bool.or_eq_false_iff,
          decide_eq_false_iff_not] at hnd
        omega
      · exact absurd rfl hne
    · apply hs.nodead
      rw [dead_iff l x]
      refine ⟨by omega, hly0, ?_, ?_⟩ <;> (rw [hq.inq]; exact noAck_nil)

theorem sameTimes_mk {l l' : LMon} (x : Side) (h1 : (l'.get x).e.s.send = (l.get x).e.s.send)
    (h2 : (l'.get x).e.s.recv.receivedAt = (l.get x).e.s.recv.receivedAt)
    (h3 : (l'.get x).e.s.recv.ackLevel = (l.get x).e.s.recv.ackLevel)
    (ho : l'.get x.other = l.get x.other) (hq : ∀ z, l'.inq z = l.inq z) : SameTimes l l' := by
  refine ⟨?_, ?_, ?_, hq⟩ <;> intro z <;> rcases side_cases z x with rfl | rfl
  · exact h1
  · rw [ho]
  · exact h2
  · rw [ho]
  · exact h3
  · rw [ho]

theorem afterTx_times (s : Session) (now : Nat) :
    (s.afterTx now).send.sentAt = some now ∧ (s.afterTx now).recv.receivedAt = s.recv.receivedAt ∧
    ((s.afterTx now).recv.ackLevel = s.recv.ackLevel ∨ (s.afterTx now).recv.ackLevel = 0) ∧
    (s.recv.ackLevel = 0 → (s.afterTx now).recv.ackLevel = 0) := by
  unfold Session.afterTx
  refine ⟨rfl, ?_, ?_, ?_⟩
  · simp only; split <;> rfl
  · simp only; split
    · right; rfl
    · left; rfl
  · intro h; simp only; split
    · rfl
    · exact h

theorem pendingAck_none_of_zero {r : RecvWindow} (h : r.ackLevel = 0) : r.pendingAck = none := by
  unfold RecvWindow.pendingAck; simp [h]

/-- **The step theorem of the time-stamp invariant**: every scheduler operation preserves it,
provided the clock advances only in quiescent states and by at most 15 s at a time. -/
theorem tdir_step {W M : Nat} {l l' : LMon} (hl : LInv l) (hs : Sync W M l) (hw : 2 ≤ W)
    (ht : ∀ x, TDir W l x) {op : Op} {o : Out} (hstep : l.step op = .ok (l', o))
    (htick : ∀ n, op = .tick n → n ≤ 15 ∧ Quiescent l) : ∀ x, TDir W l' x := by
  have keep : SameTimes l l' → l'.now = l.now → ∀ x, TDir W l' x := fun h hn x =>
    tdir_congr h (by rw [hn]; exact Nat.le_refl _) (.inl hn) x (fun s hs => by rw [hn]; exact (ht x).main s hs) (ht x)
  cases stepped hstep with
  | send z d hx ho hq hn =>
    exact keep (sameTimes_mk z (by rw [hx]) (by rw [hx]) (by rw [hx]) ho hq) hn
  | deliverNil z hq he => subst he; exact ht
  | fetch z cap e' mm hp hx ho hq hn =>
    obtain ⟨f1, _, _, _, _, f6, _, _, _, _, f11⟩ := endRecv_frame2 hp
    exact keep (sameTimes_mk z (by rw [hx]; exact f1) (by rw [hx]; exact f11) (by rw [hx]; exact f6) ho hq) hn
  | tick n he =>
    obtain ⟨hn15, hq⟩ := htick n rfl
    subst he
    have hst : SameTimes l { l with now := l.now + n } := by
      refine ⟨?_, ?_, ?_, ?_⟩ <;> intro z <;> cases z <;> rfl
    intro x
    refine tdir_congr hst (Nat.le_add_right _ _) (.inr hq.inq) x (fun s hsent => ?_) (ht x)
    have h := tick_main hs hw hq x (ht x) s hsent
    show l.now + n ≤ _; omega
  | poll z e' seg hp hx ho hq1 hq2 hn =>
    obtain ⟨hm, _⟩ := hl.get z
    rcases endOutgoing_sync hm.e (hs.st z).pend (hs.ses z).1 (hs.st z).tx l.now with ⟨h0, _⟩ | ⟨h, p, e2, h1, hlv1, hok, hga, he2, _, _⟩
    · rw [h0] at hp
      have hh := Prod.mk.inj (Except.ok.inj hp)
      have hq2' : l'.inq z.other = l.inq z.other := by rw [hq2, ← hh.2]; rfl
      refine keep (sameTimes_mk z (by rw [hx, ← hh.1]) (by rw [hx, ← hh.1]) (by rw [hx, ← hh.1]) ho ?_) hn
      intro y; rcases side_cases y z with rfl | rfl
      · exact hq1
      · exact hq2'
    · rw [h1] at hp
      have hh := Prod.mk.inj (Except.ok.inj hp)
      have hs' : (l'.get z).e.s = (l.get z).e.s.afterTx l.now := by rw [hx, ← hh.1]; exact he2
      obtain ⟨a1, a2, a3, a4⟩ := afterTx_times (l.get z).e.s l.now
      have hlvW : (l.get z).e.s.send.level ≤ W := (hs.dir z).lvl
      intro x
      rcases side_cases x z with rfl | rfl
      · -- the direction of the sender
        refine ⟨?_, ?_, ?_, ?_, ?_, ?_⟩
        · intro _; rw [hs', a1]; rfl
        · intro _; rw [hs', afterTx_level]; omega
        · intro r hr; rw [hs', a2] at hr; rw [hn]; exact (ht x).t0 r hr
        · intro _ s hsent; rw [hs', a1] at hsent; rw [hn]; exact (Option.some.inj hsent).symm
        · rw [ho]
          intro _ r s hr hsent
          rw [hs', a1] at hsent
          have := (ht x.other).t0 r hr
          have := Option.some.inj hsent
          omega
        · intro s hsent
          rw [hs', a1] at hsent
          rw [hn]
          have := Option.some.inj hsent
          omega
      · -- the direction of the peer (its acknowledgements may have gone out)
        have hoo : l'.get z.other.other = l'.get z := by rw [other_other]
        have hoq : l'.inq z.other.other = l.inq z.other.other := by rw [other_other]; exact hq1
        refine ⟨?_, ?_, ?_, ?_, ?_, ?_⟩
        · rw [ho]; exact (ht z.other).j1
        · rw [ho]; exact (ht z.other).j1c
        · rw [ho, hn]; exact (ht z.other).t0
        · rw [ho, hoq, hn]; exact (ht z.other).t1
        · rw [ho, hoo, hs', a2]
          intro hal
          rcases a3 with a3 | a3
          · rw [a3] at hal
            have := (ht z.other).t2
            rw [other_other] at this
            exact this hal
          · rw [a3] at hal; cases hal
        · rw [ho, hn]; exact (ht z.other).main
  | deliver z seg rest e' hq hp hx ho hq1 hq2 hn =>
    have hnoq := (hs.st z.other).noHs
    rw [other_other, hq] at hnoq
    have hno := hnoq seg (by simp)
    obtain ⟨r1, r2, r3⟩ := rx_data_effect hno hp
    have hws : (l.get z).e.s.send.windowSize = W := by
      have := (hl.get z).1.e.s.sendWs; rw [this]; exact (hs.ses z).2.1
    -- an acknowledgement that is not for our last segment leaves something unacknowledged
    have hpart : ∀ a, ackOf seg = some a → (l.get z).e.s.send.lastSent ≠ a →
        W - wrapSub (l.get z).e.s.send.lastSent a < W := by
      intro a ha hne
      have hb : Bytes seg := hl.inq z seg (by rw [hq]; simp)
      obtain ⟨h, p, hdec, hhs⟩ := hno
      have c := decodeHdr_clean seg hb
      rw [hdec] at c
      simp only [Clean] at c
      have ha256 : a < 256 := by
        simp only [ackOf, hdec, hhs, Bool.false_eq_true, if_false, Hdr.getAck] at ha
        split at ha
        · have := Option.some.inj ha; rw [← this]; exact c.1.ack
        · cases ha
      have hl256 := (hl.get z).1.e.s.lastLt
      have hW1 := hs.par.w1
      unfold wrapSub
      omega
    intro x
    rcases side_cases x z with rfl | rfl
    · -- the direction of the receiver's own send window (an acknowledgement may have arrived)
      refine ⟨?_, ?_, ?_, ?_, ?_, ?_⟩
      · rw [hx]
        rcases r3 with ⟨_, r3⟩ | ⟨r3, _⟩ | ⟨r3, _⟩
        · rw [r3]; exact (ht x).j1
        · intro hlt; rw [r3, hws] at hlt; omega
        · intro _; rw [r3]; rfl
      · rw [hx]
        rcases r3 with ⟨_, r3⟩ | ⟨_, r3⟩ | ⟨_, a, ha, hne, hlv⟩
        · rw [r3]; exact (ht x).j1c
        · intro hsome; rw [r3] at hsome; cases hsome
        · intro _; rw [hlv, hws]; exact hpart a ha hne
      · intro r hr; rw [hx, r1] at hr; rw [hn]
        have := Option.some.inj hr; omega
      · rw [hq2, hx, hn]
        intro hne s hsent
        rcases r3 with ⟨_, r3⟩ | ⟨_, r3⟩ | ⟨r3, _⟩
        · rw [r3] at hsent; exact (ht x).t1 hne s hsent
        · rw [r3] at hsent; cases hsent
        · rw [r3] at hsent; exact (Option.some.inj hsent).symm
      · rw [ho, hx]
        intro hal r s hr hsent
        rcases r3 with ⟨_, r3⟩ | ⟨_, r3⟩ | ⟨r3, _⟩
        · rw [r3] at hsent; exact (ht x).t2 hal r s hr hsent
        · rw [r3] at hsent; cases hsent
        · rw [r3] at hsent
          have := (ht x.other).t0 r hr
          have := Option.some.inj hsent
          omega
      · rw [hx, hn]
        intro s hsent
        rcases r3 with ⟨_, r3⟩ | ⟨_, r3⟩ | ⟨r3, _⟩
        · rw [r3] at hsent; exact (ht x).main s hsent
        · rw [r3] at hsent; cases hsent
        · rw [r3] at hsent
          have := Option.some.inj hsent
          omega
    · -- the direction of the sender of the segment
      have hoo : l'.get z.other.other = l'.get z := by rw [other_other]
      have hne : l.inq z.other.other ≠ [] := by rw [other_other, hq]; simp
      refine ⟨?_, ?_, ?_, ?_, ?_, ?_⟩
      · rw [ho]; exact (ht z.other).j1
      · rw [ho]; exact (ht z.other).j1c
      · rw [ho, hn]; exact (ht z.other).t0
      · rw [ho, hn]
        intro _ s hsent
        exact (ht z.other).t1 hne s hsent
      · rw [ho, hoo, hx, r1]
        intro _ r s hr hsent
        have h1 := (ht z.other).t1 hne s hsent
        have := Option.some.inj hr
        omega
      · rw [ho, hn]; exact (ht z.other).main

/-- the schedule lets the clock advance only in quiescent states, and by at most 15 s at a time:
delivery, fetching and the pumps are fast compared with the 15 s / 30 s timers -/
def TimelyFrom : LMon → List Op → Prop
  | _, [] => True
  | l, op :: ops => (∀ n, op = .tick n → n ≤ 15 ∧ Quiescent l) ∧ TimelyFrom (l.step1 op) ops

/-- representation invariant + cross-end invariant + time-stamp invariant -/
structure Timed (W M : Nat) (l : LMon) : Prop where
  linv : LInv l
  sync : Sync W M l
  td : ∀ x, TDir W l x

theorem timed_step1 {W M : Nat} {l : LMon} (h : Timed W M l) (hw : 2 ≤ W) {op : Op} (hop : WfOp op)
    (htick : ∀ n, op = .tick n → n ≤ 15 ∧ Quiescent l) : Timed W M (l.step1 op) := by
  obtain ⟨hl', hs'⟩ := sync_step1 h.linv h.sync hop
  refine ⟨hl', hs', ?_⟩
  cases hstep : l.step op with
  | error f => rw [step1_err hstep]; exact h.td
  | ok r =>
    obtain ⟨l', o⟩ := r
    rw [step1_ok hstep]
    exact tdir_step h.linv h.sync hw h.td hstep htick

/-- **The idle timeout does not fire.** -/
theorem timeout_never {W M : Nat} {l : LMon} (h : Timed W M l) (x : Side) :
    (l.get x).e.s.isTimedOut l.now connIdleTimeoutSecs = false := by
  unfold Session.isTimedOut
  cases hs : (l.get x).e.s.send.sentAt with
  | none => rfl
  | some t =>
    have := (h.td x).main t hs
    simp only [decide_eq_false_iff_not]
    omega

/-! ## The link with the idle timeout as an operation -/

/-- scheduler operations of the link with the connection idle timeout -/
inductive TOp where
  | op (o : Op)
  /-- the timeout task of end `x` runs (`Btp::wait_timeout`: `Btp::timeout()` is polled every 2 s) -/
  | timeout (x : Side)
deriving Repr, DecidableEq, Inhabited

/-- the operations of the transport (GATT glue); `send` / `fetch` are the application's, `tick` the clock's -/
def Op.isTransport : Op → Bool
  | .poll _ => true
  | .deliver _ => true
  | _ => false

/-- the monitored link + "the session has been ended by the idle timeout" -/
structure TMon where
  l : LMon
  closed : Bool := false

def TMon.step (t : TMon) : TOp → TMon
  | .op o => if t.closed && o.isTransport then t else { t with l := t.l.step1 o }
  | .timeout x => if (t.l.get x).e.timeout t.l.now then { t with closed := true } else t

def runT (t : TMon) : List TOp → TMon
  | [] => t
  | o :: os => runT (t.step o) os

/-- the operations of the underlying link that a timed run really executes -/
def executed (t : TMon) : List TOp → List Op
  | [] => []
  | .op o :: os => if t.closed && o.isTransport then executed t os else o :: executed (t.step (.op o)) os
  | .timeout x :: os => executed (t.step (.timeout x)) os

/-- a timeout check that does not fire is invisible to the link: it is replaced by `tick 0` -/
def TOp.proj : TOp → Op
  | .op o => o
  | .timeout _ => .tick 0


/-- Boolean form of `Quiescent` (for `decide` on sample schedules) -/
def quiescentB (l : LMon) : Bool :=
  l.qab.isEmpty && l.qba.isEmpty &&
    [Side.a, Side.b].all (fun x => (l.get x).e.s.recv.msgCt == 0 &&
      (match (l.get x).e.processOutgoing l.now with
       | .ok (_, seg) => seg.isEmpty
       | .error _ => false))

theorem quiescent_of_B {l : LMon} (h : quiescentB l = true) : Quiescent l := by
  simp only [quiescentB, Bool.and_eq_true, List.all_cons, List.all_nil, Bool.and_true,
    List.isEmpty_iff, beq_iff_eq] at h
  obtain ⟨⟨h1, h2⟩, ⟨ha1, ha2⟩, hb1, hb2⟩ := h
  refine ⟨h1, h2, fun x => ?_⟩
  cases x
  · refine ⟨ha1, ?_⟩
    split at ha2
    · rename_i e seg heq
      rw [List.isEmpty_iff] at ha2
      exact ⟨e, by rw [heq, ha2]⟩
    · cases ha2
  · refine ⟨hb1, ?_⟩
    split at hb2
    · rename_i e seg heq
      rw [List.isEmpty_iff] at hb2
      exact ⟨e, by rw [heq, hb2]⟩
    · cases hb2

/-- Boolean form of `TimelyFrom` -/
def timelyB : LMon → List Op → Bool
  | _, [] => true
  | l, op :: ops =>
    (match op with
     | .tick n => decide (n ≤ 15) && quiescentB l
     | _ => true) && timelyB (l.step1 op) ops

theorem timely_of_B : ∀ (ops : List Op) (l : LMon), timelyB l ops = true → TimelyFrom l ops := by
  intro ops
  induction ops with
  | nil => intro l _; trivial
  | cons op ops ih =>
    intro l h
    simp only [timelyB, Bool.and_eq_true] at h
    refine ⟨?_, ih _ h.2⟩
    intro n hn
    subst hn
    have h1 := h.1
    simp only [Bool.and_eq_true, decide_eq_true_eq] at h1
    exact ⟨h1.1, quiescent_of_B h1.2⟩

/-! ## The link right after an instantaneous handshake (every GATT MTU / negotiation mode) -/

def hsB (rb : Bool) (ga gb : Option Nat) : Session :=
  { (Session.fresh false rb).setup 4 (negMtu ga gb rb) (negWin ga gb rb) 0 with
    send := { windowSize := negWin ga gb rb, level := negWin ga gb rb - 1, lastSent := 0, sentAt := some 0 },
    handshakePending := false }

def fresh2 (ra rb : Bool) (ga gb : Option Nat) : LMon :=
  { a := { e := { s := Session.fresh true ra, gattMtu := ga } }, b := { e := { s := Session.fresh false rb, gattMtu := gb } } }
def hs1 (ra rb : Bool) (ga gb : Option Nat) : LMon :=
  { a := { e := { s := initSent ra, gattMtu := ga } }, b := { e := { s := Session.fresh false rb, gattMtu := gb } },
    qab := [reqBytes ga] }
def hs2 (ra rb : Bool) (ga gb : Option Nat) : LMon :=
  { a := { e := { s := initSent ra, gattMtu := ga } },
    b := { e := { s := (Session.fresh false rb).setup 4 (negMtu ga gb rb) (negWin ga gb rb) 0, gattMtu := gb } } }
def hs3 (ra rb : Bool) (ga gb : Option Nat) : LMon :=
  { a := { e := { s := initSent ra, gattMtu := ga } }, b := { e := { s := hsB rb ga gb, gattMtu := gb } },
    qba := [respBytes (negMtu ga gb rb) (negWin ga gb rb)] }
/-- the link right after an instantaneous handshake between two fresh ends -/
def hsDone (ra rb : Bool) (ga gb : Option Nat) : LMon :=
  { a := { e := { s := (initSent ra).setup 4 (negMtu ga gb rb) (negWin ga gb rb) 0, gattMtu := ga } },
    b := { e := { s := hsB rb ga gb, gattMtu := gb } } }

theorem hs_step1 (ra rb : Bool) (ga gb : Option Nat) :
    (fresh2 ra rb ga gb).step (.poll .a) = .ok (hs1 ra rb ga gb, .tx (reqBytes ga)) := by
  have hout : (fresh2 ra rb ga gb).a.e.processOutgoing 0 = .ok ({ s := initSent ra, gattMtu := ga }, reqBytes ga) := by
    unfold End.processOutgoing
    simp only [fresh2, prepTxHandshake_init, reqBytes, hsLen, if_true]
  have hlen : (reqBytes ga).length > 0 := hsLen _
  simp only [LMon.step, LMon.get, Mon.step]
  rw [show (fresh2 ra rb ga gb).now = 0 from rfl, hout]
  simp only [hlen, if_true]
  simp only [reqBytes, feedSeg_hs]
  rfl

theorem hs_step2 (ra rb : Bool) (ga gb : Option Nat) :
    (hs1 ra rb ga gb).step (.deliver .b) = .ok (hs2 ra rb ga gb, .delivered) := by
  have hin : (hs1 ra rb ga gb).b.e.processIncoming (reqBytes ga) 0 =
      .ok { s := (Session.fresh false rb).setup 4 (negMtu ga gb rb) (negWin ga gb rb) 0, gattMtu := gb } := by
    unfold End.processIncoming
    simp only [hs1, processRx_req]
  simp only [LMon.step, LMon.inq, LMon.get, Mon.step]
  rw [show (hs1 ra rb ga gb).qab = [reqBytes ga] from rfl]
  simp only
  rw [show (hs1 ra rb ga gb).now = 0 from rfl, hin]
  simp only [reqBytes, ghostRx_hs]
  rfl

theorem hs_step3 (ra rb : Bool) (ga gb : Option Nat) :
    (hs2 ra rb ga gb).step (.poll .b) = .ok (hs3 ra rb ga gb, .tx (respBytes (negMtu ga gb rb) (negWin ga gb rb))) := by
  have hpar := negPar ga gb rb
  have hout : (hs2 ra rb ga gb).b.e.processOutgoing 0 = .ok ({ s := hsB rb ga gb, gattMtu := gb }, respBytes (negMtu ga gb rb) (negWin ga gb rb)) := by
    have h1 := prepTxHandshake_resp rb gb (negMtu ga gb rb) (negWin ga gb rb) 0 hpar.w1
    unfold End.processOutgoing
    simp only [hs2]
    rw [h1]
    simp only [respBytes, hsLen, if_true]
    rfl
  have hlen : (respBytes (negMtu ga gb rb) (negWin ga gb rb)).length > 0 := hsLen _
  simp only [LMon.step, LMon.get, Mon.step]
  rw [show (hs2 ra rb ga gb).now = 0 from rfl, hout]
  simp only [hlen, if_true]
  simp only [respBytes, feedSeg_hs]
  rfl

theorem hs_step4 (ra rb : Bool) (ga gb : Option Nat) :
    (hs3 ra rb ga gb).step (.deliver .a) = .ok (hsDone ra rb ga gb, .delivered) := by
  have hpar := negPar ga gb rb
  have hin : (hs3 ra rb ga gb).a.e.processIncoming (respBytes (negMtu ga gb rb) (negWin ga gb rb)) 0 =
      .ok { s := (initSent ra).setup 4 (negMtu ga gb rb) (negWin ga gb rb) 0, gattMtu := ga } := by
    unfold End.processIncoming
    simp only [hs3, processRx_resp ra _ _ _ _ hpar]
  simp only [LMon.step, LMon.inq, LMon.get, Mon.step]
  rw [show (hs3 ra rb ga gb).qba = [respBytes (negMtu ga gb rb) (negWin ga gb rb)] from rfl]
  simp only
  rw [show (hs3 ra rb ga gb).now = 0 from rfl, hin]
  simp only [respBytes, ghostRx_hs]
  rfl


end Btp
