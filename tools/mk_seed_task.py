#!/usr/bin/env python3
"""tools/mk_seed_task.py <Cxx> <suffix> <slot> [focus text]: scratch worktree /tmp/seed/<Cxx><suffix> at /repo HEAD + TASK.md
(contains only the property text and instructions; nothing from /verif)."""
import json, os, subprocess, sys
pid, suf, slot = sys.argv[1], sys.argv[2], sys.argv[3]
focus = sys.argv[4] if len(sys.argv) > 4 else ""
props = {json.loads(l)['id']: json.loads(l) for l in open('/verif/properties.jsonl') if l.strip()}
p = props[pid]
d = f'/tmp/seed/{pid}{suf}'
subprocess.run(['git', '-C', '/repo', 'worktree', 'remove', '--force', d], capture_output=True)
subprocess.run(['git', '-C', '/repo', 'worktree', 'add', '-q', '--detach', d, 'HEAD'], check=True)
task = f"""# Task

You are testing how well a semantic property of the Rust project rs-matter (a Matter smart-home protocol stack) is protected against regressions. You have your own scratch git worktree of the repository at {d}. Work ONLY there: do not look at or touch /verif, /repo or any other directory. No network; cargo always with --offline; use CARGO_TARGET_DIR={d}-target. IMPORTANT: the machine is shared and compiling rs-matter needs 6-7 GB of RAM: prefix EVERY cargo invocation with `flock /tmp/cargo-slot-{slot}`, and if a build dies with SIGKILL or "No space left" just wait a minute and rerun it.

## The property ({pid}): {p['title']}

{p['statement']}

It quantifies over: {p['quantifier']['text']}

Code it is anchored in: {', '.join(p['anchors']['files'])}

## What to produce

ONE realistic change to the rs-matter sources (the kind of bug a refactoring, optimisation or "simplification" could plausibly introduce; do not touch test code or anything named `verif_*` / guarded by the `verif` cargo feature) that BREAKS this property while the crate still compiles and the existing test suite still passes. {focus}

The change must need something specific to manifest: a particular interleaving, a fault or restart at a particular point, a multi-step sequence of operations, an unusual input or boundary value, or two cooperating sites that each look fine alone. It must NOT be something ordinary use would expose at once.

Check that the existing tests still pass with your change: run `flock /tmp/cargo-slot-{slot} cargo test -p rs-matter --offline --features groups,case-resumption,persistent-subscriptions` (library unit tests + all integration tests; takes several minutes the first time). If some tests fail, refine the change until they all pass. (A test failing with "Address already in use" is a port clash with other jobs on this machine: rerun it.)

Also write a demonstration: a small Rust test (a new file under rs-matter/tests/ or a `#[cfg(test)]` module appended to the touched source file) that FAILS with your change and PASSES without it. Verify both directions yourself.

## Deliverables, in {d}-out/

* `patch.diff`: `git diff` of the source change only, applicable with `git apply` on the original tree;
* `demo.diff`: `git diff` that adds the demonstration only (applicable on the original tree and on top of patch.diff); first line of the added test code must be a comment with the exact cargo command that runs it, in the form `// RUN: cargo test -p rs-matter --offline --features groups,case-resumption,persistent-subscriptions <args>`;
* `notes.md`: which clause of the property it breaks, what exactly is needed to manifest it, what you ran and the results.

Leave the worktree with the change NOT applied (`git checkout -- .`, remove untracked files) and DELETE the target directory {d}-target when you finish (disk is scarce). Keep your final answer short: one paragraph describing the change and the manifest condition.
"""
open(f'{d}-TASK.md', 'w').write(task)
print(d)
