import RsMatterVerif.Props.C01
import RsMatterVerif.Model.CaseNet
/-!
# C01 — the handshake over an adversarial network (`Model/CaseNet.lean`)

Theorems over the model's run function with the adversary's schedule as a list of network
operations, proved by induction over the schedule.

* reference = the untouched run computed by `Net.run` on `honestOps` (`refI`, `refR`;
  `honest_run_full`, `honest_run_resume` give it in general, not on samples);
* `net_single_mutation_full` (outcome `OutcomeFull`: no session / the untouched run's session / for the
  initiator, when the untouched run fails at the responder, the half-open session `HalfOpen` after a
  forged success report), `net_single_mutation_full_strict` (untouched run succeeds ⇒ the clause as the
  property states it), `net_no_forgery_full` (no attacker-made message ⇒ the clause as stated),
  `half_open_authenticated`, `net_full_session_keys_secret`, `net_full_keys_agree`;
* `net_single_mutation_resume` (`OutcomeRes`), `net_resume_keys_agree`; `C01_network`.

Limits (stated in the docstrings, `props/C01.json` and `docs/C01.md`): ONE exchange per end; at most
ONE attacker-made message per schedule (an attacker that plays a whole handshake as initiator needs
two — that case is covered per step only: `responder_session_implies_auth`, `sigma3_unforgeable`);
attacker knowledge = this exchange's wire + the IPK + its own secrets, keys and certificates (terms
of earlier handshakes under the same resumption secret are not derivable); the certificate
hypothesis `hcert` quantifies over chains the attacker can present (leaf AND intermediate in `A.C`).
-/
namespace C01
open Cert Case

/-! ## One invariant for everything the attacker can derive -/

/-- secrets of handshakes between honest ephemeral keys (`H`): the ECDH result and every key
derived from it -/
def isSecH (H : List Nat) : Term → Bool
  | .shared x y => decide (x ∈ H) && decide (y ∈ H)
  | .kdf (.shared x y) _ _ => decide (x ∈ H) && decide (y ∈ H)
  | _ => false

/-- `G`: honest secrets are never exposed; every ciphertext / MIC under an honest secret is one of
the honest ones in `E` (and is not looked into); every signature is under a key of `S`, every
certificate one of `C`. -/
def G (H : List Nat) (S : Nat → Prop) (C : Cert → Prop) (E : List Term) : Term → Prop
  | .atom _ => True
  | .epk _ => True
  | .shared x y => ¬ (x ∈ H ∧ y ∈ H)
  | .badShared _ t => G H S C E t
  | .pair u v => G H S C E u ∧ G H S C E v
  | .hash u => G H S C E u
  | .kdf s x y => G H S C E s ∧ G H S C E x ∧ G H S C E y
  | .mac k m => G H S C E k ∧ G H S C E m
  | .sign k m => S k ∧ G H S C E m
  | .mic k n => (isSecH H k = true ∧ Term.mic k n ∈ E) ∨ (G H S C E k ∧ G H S C E n)
  | .enc k n p => (isSecH H k = true ∧ Term.enc k n p ∈ E) ∨ (G H S C E k ∧ G H S C E n ∧ G H S C E p)
  | .cert c => C c
  | .none => True
  | .part _ t => G H S C E t

theorem G_not_sec {H S C E} {k : Term} (h : G H S C E k) : isSecH H k = false := by
  cases k <;> simp [isSecH]
  · rename_i x y; simp only [G] at h; intro hx; exact fun hy => h ⟨hx, hy⟩
  · rename_i s x y
    cases s <;> simp
    rename_i u v
    simp only [G] at h
    intro hu; exact fun hv => h.1 ⟨hu, hv⟩

theorem G_ecdh {H S C E} (z : Nat) (t : Term) (hz : z ∉ H) (ht : G H S C E t) :
    G H S C E (ecdh z t) := by
  unfold ecdh
  split
  · split
    · simp only [G]; exact fun h => hz h.1
    · simp only [G]; exact fun h => hz h.2
  · exact ht

theorem G_mono {H S C} {E E' : List Term} (hE : ∀ x ∈ E, x ∈ E') :
    ∀ t, G H S C E t → G H S C E' t := by
  intro t
  induction t with
  | atom _ => exact id
  | epk _ => exact id
  | shared _ _ => exact id
  | badShared _ _ ih => exact ih
  | pair _ _ ih1 ih2 => exact fun h => ⟨ih1 h.1, ih2 h.2⟩
  | hash _ ih => exact ih
  | kdf _ _ _ ih1 ih2 ih3 => exact fun h => ⟨ih1 h.1, ih2 h.2.1, ih3 h.2.2⟩
  | mac _ _ ih1 ih2 => exact fun h => ⟨ih1 h.1, ih2 h.2⟩
  | sign _ _ ih => exact fun h => ⟨h.1, ih h.2⟩
  | mic _ _ ih1 ih2 =>
    intro h
    rcases h with h | h
    · exact Or.inl ⟨h.1, hE _ h.2⟩
    · exact Or.inr ⟨ih1 h.1, ih2 h.2⟩
  | enc _ _ _ ih1 ih2 ih3 =>
    intro h
    rcases h with h | h
    · exact Or.inl ⟨h.1, hE _ h.2⟩
    · exact Or.inr ⟨ih1 h.1, ih2 h.2.1, ih3 h.2.2⟩
  | cert _ => exact id
  | none => exact id
  | part _ _ ih => exact ih

theorem derivable_G (H : List Nat) (S : Nat → Prop) (C : Cert → Prop) (E K : List Term)
    (hK : ∀ t ∈ K, G H S C E t) : ∀ t, Derivable H S C K t → G H S C E t := by
  intro t h
  induction h with
  | known hm => exact hK _ hm
  | atom n => trivial
  | none => trivial
  | cert hc => exact hc
  | epk n => trivial
  | ownEcdh hz _ ih => exact G_ecdh _ _ hz ih
  | pair _ _ ih1 ih2 => exact ⟨ih1, ih2⟩
  | fst _ ih => exact ih.1
  | snd _ ih => exact ih.2
  | hash _ ih => exact ih
  | kdf _ _ _ ih1 ih2 ih3 => exact ⟨ih1, ih2, ih3⟩
  | mac _ _ ih1 ih2 => exact ⟨ih1, ih2⟩
  | sign hs _ ih => exact ⟨hs, ih⟩
  | mic _ _ ih1 ih2 => exact Or.inr ⟨ih1, ih2⟩
  | enc _ _ _ ih1 ih2 ih3 => exact Or.inr ⟨ih1, ih2, ih3⟩
  | dec _ _ ih1 ih2 =>
    rcases ih1 with h1 | h1
    · rw [G_not_sec ih2] at h1; cases h1.1
    · exact h1.2.2
  | part _ ih => exact ih


/-! ## The attacker and the admissible schedules -/

structure Attacker where
  /-- ephemeral secrets the attacker does NOT know -/
  H : List Nat
  /-- long-term keys it can sign with -/
  S : Nat → Prop
  /-- certificates it can present -/
  C : Cert → Prop

def encOf : Msg → List Term
  | .sigma1 _ _ _ _ (some (_, mic1)) => [mic1]
  | .sigma2 _ _ _ c => [c]
  | .sigma3 c => [c]
  | .sigma2Resume _ mic2 _ => [mic2]
  | _ => []

/-- the honest ciphertexts / MICs on the wire -/
def wireE (wire : List Msg) : List Term := wire.flatMap encOf

/-- what the attacker can build in state `n`: anything derivable from the wire and the IPK -/
def Forgeable (A : Attacker) (cfg : HsCfg) (n : Net) (m : Msg) : Prop :=
  Derivable A.H A.S A.C (n.wire.map Msg.toTerm ++ [cfg.fI.ipk]) m.toTerm

/-- `Sched A cfg n k ops`: starting in `n`, every message the schedule delivers is on the wire at
that moment (so: any loss, duplication, delay, reordering, reflection, replay), except at most `k`
deliveries of a message of the attacker's own making -/
inductive Sched (A : Attacker) (cfg : HsCfg) : Net → Nat → List NetOp → Prop
  | nil (n k) : Sched A cfg n k []
  | relay (n k op ops) : op.msg ∈ n.wire → Sched A cfg (n.step cfg op) k ops →
      Sched A cfg n k (op :: ops)
  | forge (n k op ops) : Forgeable A cfg n op.msg → Sched A cfg (n.step cfg op) k ops →
      Sched A cfg n (k + 1) (op :: ops)

theorem wireE_mono {w : List Msg} {out : List Msg} : ∀ x ∈ wireE w, x ∈ wireE (w ++ out) := by
  intro x hx
  simp only [wireE, List.flatMap_append, List.mem_append]
  exact Or.inl hx

theorem relay_forgeable (A : Attacker) (cfg : HsCfg) (n : Net) (m : Msg) (h : m ∈ n.wire) :
    Forgeable A cfg n m :=
  .known (List.mem_append_left _ (List.mem_map_of_mem h))

/-- if every wire message satisfies `G`, so does everything forgeable -/
theorem forgeable_G (A : Attacker) (cfg : HsCfg) (n : Net) (ipk : Nat) (hipk : cfg.fI.ipk = .atom ipk)
    (hw : ∀ w ∈ n.wire, G A.H A.S A.C (wireE n.wire) w.toTerm) (m : Msg) (h : Forgeable A cfg n m) :
    G A.H A.S A.C (wireE n.wire) m.toTerm := by
  apply derivable_G A.H A.S A.C (wireE n.wire) _ _ _ h
  intro t ht
  simp only [List.mem_append, List.mem_map, List.mem_cons, List.not_mem_nil, or_false] at ht
  rcases ht with ⟨w, hw1, rfl⟩ | rfl
  · exact hw w hw1
  · rw [hipk]; trivial

/-! ## What an end accepts from the attacker is an honest ciphertext / MIC -/

theorem isSecH_kdf {H : List Nat} {x y : Nat} (hx : x ∈ H) (hy : y ∈ H) (s i : Term) :
    isSecH H (.kdf (.shared x y) s i) = true := by simp [isSecH, hx, hy]

theorem not_G_kdf {H S C E} {x y : Nat} (hx : x ∈ H) (hy : y ∈ H) (s i : Term) :
    ¬ G H S C E (.kdf (.shared x y) s i) := by
  intro h; simp only [G] at h; exact h.1 ⟨hx, hy⟩

/-- responder, resumption: whenever `try_handle_sigma1_resume` does not fall through (it resumes,
or aborts after `Sigma2_Resume` went out), the `Resume1MIC` it accepted is an honest one -/
theorem respResumeStep_G {H S C E} (fabrics : List Fabric) (cache : List ResRec) (m : Msg) (newRid sid : Term)
    (hc : ∀ r ∈ cache, ∃ x y, r.secret = .shared x y ∧ x ∈ H ∧ y ∈ H)
    (h : respResumeStep fabrics cache m newRid sid ≠ .fallThrough) (hg : G H S C E m.toTerm) :
    ∃ rec iRnd iSid dest iEph, cache.find? (fun r => r.rid == rec.rid) = some rec ∧
      m = .sigma1 iRnd iSid dest iEph
        (some (rec.rid, Term.mic (resumeKey rec.secret iRnd rec.rid infoS1RK) nonceR1)) ∧
      Term.mic (resumeKey rec.secret iRnd rec.rid infoS1RK) nonceR1 ∈ E ∧
      ((∃ fb cx, fabrics.find? (fun f => f.idx == rec.fabIdx) = some fb ∧
          respResumeStep fabrics cache m newRid sid = .sent cx) ∨
       (fabrics.find? (fun f => f.idx == rec.fabIdx) = none ∧
          respResumeStep fabrics cache m newRid sid =
            .aborted (.sigma2Resume newRid (Term.mic (resumeKey rec.secret iRnd newRid infoS2RK) nonceR2) sid))) := by
  obtain ⟨rec, iRnd, iSid, dest, iEph, hfind, hm, hcase⟩ := respResumeStep_accepts fabrics cache m newRid sid h
  have hrec : rec ∈ cache := List.mem_of_find?_eq_some hfind
  refine ⟨rec, iRnd, iSid, dest, iEph, hfind, hm, ?_, hcase⟩
  obtain ⟨x, y, hsec, hx, hy⟩ := hc rec hrec
  rw [hm] at hg
  simp only [Msg.toTerm, resumeTerm, G] at hg
  rcases hg.2.2.2.2.2.2 with h1 | h1
  · exact h1.2
  · exfalso
    have := h1.1
    rw [resumeKey, hsec] at this
    exact not_G_kdf hx hy _ _ this

theorem respResume_G {H S C E} (fabrics : List Fabric) (cache : List ResRec) (m : Msg) (newRid sid : Term)
    (cx : RespResumeCtx)
    (hc : ∀ r ∈ cache, ∃ x y, r.secret = .shared x y ∧ x ∈ H ∧ y ∈ H)
    (h : respResume fabrics cache m newRid sid = some cx) (hg : G H S C E m.toTerm) :
    ∃ rec ∈ cache, ∃ iRnd iSid dest iEph,
      m = .sigma1 iRnd iSid dest iEph
        (some (rec.rid, Term.mic (resumeKey rec.secret iRnd rec.rid infoS1RK) nonceR1)) ∧
      Term.mic (resumeKey rec.secret iRnd rec.rid infoS1RK) nonceR1 ∈ E := by
  obtain ⟨rec, iRnd, iSid, dest, iEph, hfind, hm, hmem, _⟩ := respResumeStep_G fabrics cache m newRid sid hc
    (by rw [(respResumeStep_sent_iff _ _ _ _ _ cx).2 h]; intro h'; cases h') hg
  exact ⟨rec, List.mem_of_find?_eq_some hfind, iRnd, iSid, dest, iEph, hm, hmem⟩

/-- responder, Sigma3 -/
theorem respSigma3_G {H S C E} (t : Time) (ctx : RespCtx) (m : Msg) (p : Session × ResRec)
    {x y : Nat} (hsec : ctx.secret = .shared x y) (hx : x ∈ H) (hy : y ∈ H)
    (h : respSigma3 t ctx m = some p) (hg : G H S C E m.toTerm) :
    ∃ pl, m = .sigma3 (.enc (s3k ctx.secret ctx.fabric.ipk ctx.s1 ctx.s2) nonceS3 pl) ∧
      Term.enc (s3k ctx.secret ctx.fabric.ipk ctx.s1 ctx.s2) nonceS3 pl ∈ E := by
  obtain ⟨s, r⟩ := p
  obtain ⟨noc, icac, sig, hm, _⟩ := responder_session_implies_auth t ctx m s r h
  refine ⟨_, hm, ?_⟩
  rw [hm] at hg
  simp only [Msg.toTerm, G] at hg
  rcases hg.2 with h1 | h1
  · exact h1.2
  · exfalso
    have := h1.1
    rw [s3k, hsec] at this
    exact not_G_kdf hx hy _ _ this

/-- an intermediate certificate inside an attacker-made plaintext is one the attacker can present -/
theorem G_optCert {H S C E} {o : Option Cert} (h : G H S C E (optCert o)) : ∀ i ∈ o, C i := by
  intro i hi
  cases o with
  | none => cases hi
  | some c => cases hi; exact h

/-- initiator, Sigma2: either the ciphertext is an honest one, or the attacker made it — then
it carries a certificate of `C` for the addressed node id and a signature under its key -/
theorem initSigma2_G {H S C E} (t : Time) (c : InitCtx) (m : Msg) (c3 : InitCtx3)
    (hcert : ∀ noc ic, C noc → (∀ i ∈ ic, C i) → CaseValid t c.fabric.view noc ic →
      nodeIdOf noc.subject = some c.peerNode → ¬ S noc.pubKey)
    (h : initSigma2 t c m = some c3) (hg : G H S C E m.toTerm) :
    ∃ rRnd rSid rEph pl, m = .sigma2 rRnd rSid rEph
        (.enc (s2k (ecdh c.eph rEph) c.fabric.ipk rRnd rEph c.s1) nonceS2 pl) ∧
      Term.enc (s2k (ecdh c.eph rEph) c.fabric.ipk rRnd rEph c.s1) nonceS2 pl ∈ E := by
  obtain ⟨rRnd, rSid, rEph, noc, icac, sig, rid, hm, hv, hn, hsig, _⟩ :=
    initiator_sigma2_implies_auth t c m c3 h
  refine ⟨rRnd, rSid, rEph, _, hm, ?_⟩
  rw [hm] at hg
  simp only [Msg.toTerm, G] at hg
  rcases hg.2.2.2.2 with h1 | h1
  · exact h1.2
  · exfalso
    have h3 := h1.2.2
    simp only [tbe2, G] at h3
    have hs := h3.2.2.1
    rw [hsig] at hs
    exact hcert noc icac h3.1 (G_optCert h3.2.1) hv hn hs.1

/-- initiator, resumption: the `Resume2MIC` it accepted is an honest one -/
theorem initSigma2Resume_G {H S C E} (c : InitCtx) (m : Msg) (p : Session × ResRec)
    (hc : ∀ r, c.cached = some r → ∃ x y, r.secret = .shared x y ∧ x ∈ H ∧ y ∈ H)
    (h : initSigma2Resume c m = some p) (hg : G H S C E m.toTerm) :
    ∃ rec newRid rSid, c.cached = some rec ∧
      m = .sigma2Resume newRid (Term.mic (resumeKey rec.secret c.rnd newRid infoS2RK) nonceR2) rSid ∧
      Term.mic (resumeKey rec.secret c.rnd newRid infoS2RK) nonceR2 ∈ E := by
  obtain ⟨s, r⟩ := p
  obtain ⟨rec, newRid, rSid, hcd, hm, _⟩ := initiator_resume_implies_mic c m s r h
  refine ⟨rec, newRid, rSid, hcd, hm, ?_⟩
  obtain ⟨x, y, hsec, hx, hy⟩ := hc rec hcd
  rw [hm] at hg
  simp only [Msg.toTerm, G] at hg
  rcases hg.2.2.1 with h1 | h1
  · exact h1.2
  · exfalso
    have := h1.1
    rw [resumeKey, hsec] at this
    exact not_G_kdf hx hy _ _ this

/-! ## Full handshake: setting, honest run -/

structure FullSetting (A : Attacker) (cfg : HsCfg) where
  rI : Nat
  sI : Nat
  rR : Nat
  idR : Nat
  sR : Nat
  ipk : Nat
  hrndI : cfg.rndI = .atom rI
  hsidI : cfg.sidI = .atom sI
  hrndR : cfg.rndR = .atom rR
  hridR : cfg.ridR = .atom idR
  hsidR : cfg.sidR = .atom sR
  hipk : cfg.fI.ipk = .atom ipk
  /-- the attacker knows neither ephemeral secret of this handshake -/
  hephI : cfg.ephI ∈ A.H
  hephR : cfg.ephR ∈ A.H
  /-- nor the shared secret of any record in the responder's resumption cache -/
  hcacheR : ∀ r ∈ cfg.cacheR, ∃ x y, r.secret = .shared x y ∧ x ∈ A.H ∧ y ∈ A.H
  /-- the initiator has no record for this peer: it runs the full handshake -/
  hfull : cfg.init0.cached = none
  /-- no chain the attacker can PRESENT (leaf and intermediate, if any, both among its certificates
  `A.C`) that is valid for the initiator's fabric and names the addressed node id certifies a key the
  attacker can sign with.  Derivable from the provenance of its certificates: `hcert_of_provenance`
  (`Props/C01.lean`); inhabited for an insider that can present any self-made record: `exFullSetting` -/
  hcert : ∀ c ic, A.C c → (∀ i ∈ ic, A.C i) → CaseValid cfg.t cfg.fI.view c ic →
    nodeIdOf c.subject = some cfg.peer → ¬ A.S c.pubKey

/-- the responder's context in the untouched run (if it answers Sigma1 at all) -/
def hCtx (cfg : HsCfg) : Option RespCtx :=
  match respSigma1 cfg.fabricsR cfg.init0.s1 cfg.ephR cfg.rndR cfg.ridR cfg.sidR with
  | .sent ctx => some ctx
  | .refused => none

/-- the initiator after the responder's own Sigma2 -/
def hC3 (cfg : HsCfg) : Option InitCtx3 :=
  (hCtx cfg).bind fun ctx => initSigma2 cfg.t cfg.init0 ctx.s2

/-- what the responder / initiator end with in the untouched run -/
def hResR (cfg : HsCfg) : Result :=
  match hCtx cfg, hC3 cfg with
  | some ctx, some c3 => respSigma3 cfg.t ctx c3.s3
  | _, _ => none

def hResI (cfg : HsCfg) : Result := (hC3 cfg).bind fun c3 => initFinish c3 (.status true)

theorem hCtx_some {cfg : HsCfg} {ctx : RespCtx} :
    hCtx cfg = some ctx ↔
      respSigma1 cfg.fabricsR cfg.init0.s1 cfg.ephR cfg.rndR cfg.ridR cfg.sidR = .sent ctx := by
  unfold hCtx
  split
  · rename_i c h; rw [h]; simp
  · rename_i h; rw [h]; simp

/-- shape of Sigma1 in the full-handshake setting -/
theorem s1_shape {A : Attacker} {cfg : HsCfg} (hs : FullSetting A cfg) :
    cfg.init0.s1 = .sigma1 cfg.rndI cfg.sidI
      (destId cfg.fI.ipk cfg.rndI cfg.fI.root.pubKey cfg.fI.fabricId cfg.peer) (.epk cfg.ephI) none := by
  have h := hs.hfull
  simp only [HsCfg.init0, initSigma1] at h ⊢
  rw [h]; rfl

theorem init0_fields (cfg : HsCfg) : cfg.init0.eph = cfg.ephI ∧ cfg.init0.fabric = cfg.fI ∧
    cfg.init0.peerNode = cfg.peer ∧ cfg.init0.rnd = cfg.rndI := ⟨rfl, rfl, rfl, rfl⟩

/-- the honest responder's Sigma2 in the full-handshake setting -/
theorem ctx0_shape {A : Attacker} {cfg : HsCfg} (hs : FullSetting A cfg) {ctx : RespCtx}
    (h : hCtx cfg = some ctx) :
    ctx.secret = .shared (min cfg.ephR cfg.ephI) (max cfg.ephR cfg.ephI) ∧ ctx.s1 = cfg.init0.s1 ∧
    ctx.eph = cfg.ephR ∧ ctx.peerEph = .epk cfg.ephI ∧
    ctx.s2 = .sigma2 cfg.rndR cfg.sidR (.epk cfg.ephR)
      (.enc (s2k ctx.secret ctx.fabric.ipk cfg.rndR (.epk cfg.ephR) cfg.init0.s1) nonceS2
        (tbe2 ctx.fabric.noc ctx.fabric.icac
          (Term.sign ctx.fabric.opKey (tbs ctx.fabric.noc ctx.fabric.icac (.epk cfg.ephR) (.epk cfg.ephI)))
          cfg.ridR)) := by
  have hR := hCtx_some.1 h
  obtain ⟨iR, iS, d, iE, res, hm, _, _, _, hs1, hpe, heph, hsec, _⟩ :=
    respSigma1_selects_fabric _ _ _ _ _ _ ctx hR
  obtain ⟨iEph, hpe2, hsec2, _, hs2⟩ := respSigma1_s2 _ _ _ _ _ _ ctx hR
  rw [s1_shape hs] at hm
  simp only [Msg.sigma1.injEq] at hm
  have hiE : iE = .epk cfg.ephI := hm.2.2.2.1.symm
  have hiEph : iEph = .epk cfg.ephI := by rw [← hpe2, hpe, hiE]
  refine ⟨?_, hs1, heph, by rw [hpe, hiE], ?_⟩
  · rw [hsec, hiE, ecdh_epk]
  · rw [hs2, hiEph]

theorem c30_shape {A : Attacker} {cfg : HsCfg} (hs : FullSetting A cfg) {c3 : InitCtx3}
    (h : hC3 cfg = some c3) :
    ∃ ctx pl, hCtx cfg = some ctx ∧ initSigma2 cfg.t cfg.init0 ctx.s2 = some c3 ∧
      c3.s3 = .sigma3 (.enc (s3k ctx.secret ctx.fabric.ipk ctx.s1 ctx.s2) nonceS3 pl) := by
  unfold hC3 at h
  cases hc : hCtx cfg with
  | none => rw [hc] at h; cases h
  | some ctx =>
    have hc0 := hc
    rw [hc] at h
    simp only [Option.bind_some] at h
    obtain ⟨hm1, hsec, hipk, _⟩ := initiator_accepts_honest_sigma2 _ _ _ _ _ _ ctx _ _ c3 (hCtx_some.1 hc) h
    obtain ⟨rRnd, rSid, rEph, noc, icac, sig, rid, hm, _, _, _, hc3, hs2, _, hsec3, _, _, hs3⟩ :=
      initiator_sigma2_implies_auth _ _ _ c3 h
    refine ⟨ctx, tbe3 cfg.init0.fabric.noc cfg.init0.fabric.icac (Term.sign cfg.init0.fabric.opKey
      (tbs cfg.init0.fabric.noc cfg.init0.fabric.icac (Term.epk cfg.init0.eph) rEph)), rfl, h, ?_⟩
    rw [hs3, ← hsec3, hsec, ← hipk, (ctx0_shape hs hc0).2.1]

theorem isSec_ctx0 {A : Attacker} {cfg : HsCfg} (hs : FullSetting A cfg) :
    min cfg.ephR cfg.ephI ∈ A.H ∧ max cfg.ephR cfg.ephI ∈ A.H := by
  have h1 := hs.hephI
  have h2 := hs.hephR
  constructor
  · rcases Nat.le_total cfg.ephR cfg.ephI with h | h
    · rw [Nat.min_eq_left h]; exact h2
    · rw [Nat.min_eq_right h]; exact h1
  · rcases Nat.le_total cfg.ephR cfg.ephI with h | h
    · rw [Nat.max_eq_right h]; exact h1
    · rw [Nat.max_eq_left h]; exact h2

/-- the messages of the untouched run (the only ones an honest end sends as long as the attacker
has not deviated) -/
def cleanMsgs (cfg : HsCfg) : List Msg :=
  [cfg.init0.s1, .status false, .status true] ++ (hCtx cfg).toList.map (·.s2) ++
    (hC3 cfg).toList.map (·.s3)

theorem mem_cleanMsgs {cfg : HsCfg} {w : Msg} : w ∈ cleanMsgs cfg ↔
    w = cfg.init0.s1 ∨ w = .status false ∨ w = .status true ∨
    (∃ ctx, hCtx cfg = some ctx ∧ w = ctx.s2) ∨ (∃ c3, hC3 cfg = some c3 ∧ w = c3.s3) := by
  unfold cleanMsgs
  cases hCtx cfg <;> cases hC3 cfg <;> simp

theorem mem_wireE {wire : List Msg} {w : Msg} {e : Term} (hw : w ∈ wire) (he : e ∈ encOf w) :
    e ∈ wireE wire := List.mem_flatMap.2 ⟨w, hw, he⟩

theorem clean_wire_G {A : Attacker} {cfg : HsCfg} (hs : FullSetting A cfg) (wire : List Msg)
    (hw : ∀ w ∈ wire, w ∈ cleanMsgs cfg) :
    ∀ w ∈ wire, G A.H A.S A.C (wireE wire) w.toTerm := by
  intro w hwm
  rcases mem_cleanMsgs.1 (hw w hwm) with h | h | h | ⟨ctx, hc, h⟩ | ⟨c3, hc, h⟩
  · rw [h, s1_shape hs, hs.hrndI, hs.hsidI, hs.hipk]
    simp [Msg.toTerm, resumeTerm, destId, G]
  · rw [h]; simp [Msg.toTerm, G]
  · rw [h]; simp [Msg.toTerm, G]
  · obtain ⟨hsec, _, _, _, hs2⟩ := ctx0_shape hs hc
    have hmem : w ∈ wire := hwm
    rw [h, hs2] at hmem
    rw [h, hs2, hs.hrndR, hs.hsidR]
    rw [hs.hrndR, hs.hsidR] at hmem
    simp only [Msg.toTerm, G, true_and]
    refine Or.inl ⟨?_, mem_wireE hmem (by simp [encOf])⟩
    rw [s2k, hsec]; exact isSecH_kdf (isSec_ctx0 hs).1 (isSec_ctx0 hs).2 _ _
  · obtain ⟨ctx, pl, hcx, _, hs3⟩ := c30_shape hs hc
    obtain ⟨hsec, _⟩ := ctx0_shape hs hcx
    have hmem : w ∈ wire := hwm
    rw [h, hs3] at hmem
    rw [h, hs3]
    simp only [Msg.toTerm, G, true_and]
    refine Or.inl ⟨?_, mem_wireE hmem (by simp [encOf])⟩
    rw [s3k, hsec]; exact isSecH_kdf (isSec_ctx0 hs).1 (isSec_ctx0 hs).2 _ _

/-- in an undeviated state, a Sigma3 the responder accepts from the attacker is the initiator's
own, and the initiator has sent it -/
theorem clean_resp_accept {A : Attacker} {cfg : HsCfg} (hs : FullSetting A cfg) (wire : List Msg)
    (hw : ∀ w ∈ wire, w ∈ cleanMsgs cfg) {ctx : RespCtx} (hc : hCtx cfg = some ctx) (m : Msg)
    (p : Session × ResRec) (h : respSigma3 cfg.t ctx m = some p)
    (hg : G A.H A.S A.C (wireE wire) m.toTerm) :
    ∃ c3, hC3 cfg = some c3 ∧ m = c3.s3 ∧ m ∈ wire ∧ hResR cfg = some p := by
  obtain ⟨hsec, hs1, _, _, hs2⟩ := ctx0_shape hs hc
  obtain ⟨pl, hm, hmem⟩ := respSigma3_G cfg.t ctx m p hsec (isSec_ctx0 hs).1 (isSec_ctx0 hs).2 h hg
  obtain ⟨w, hww, hwe⟩ := List.mem_flatMap.1 hmem
  rcases mem_cleanMsgs.1 (hw w hww) with hq | hq | hq | ⟨ctx', hc', hq⟩ | ⟨c3, hc3, hq⟩
  · rw [hq, s1_shape hs] at hwe; simp [encOf] at hwe
  · rw [hq] at hwe; simp [encOf] at hwe
  · rw [hq] at hwe; simp [encOf] at hwe
  · rw [hc] at hc'; cases hc'
    rw [hq, hs2] at hwe
    simp [encOf, s3k, s2k, infoS2K, infoS3K] at hwe
  · obtain ⟨ctx', pl', hcx, _, hs3⟩ := c30_shape hs hc3
    rw [hc] at hcx; cases hcx
    rw [hq, hs3] at hwe
    simp only [encOf, List.mem_cons, List.not_mem_nil, or_false] at hwe
    have hm' : m = c3.s3 := by rw [hm, hs3, hwe]
    refine ⟨c3, hc3, hm', by rw [hm', ← hq]; exact hww, ?_⟩
    unfold hResR
    rw [hc, hc3]
    simp only
    rw [← hm']
    exact h

/-- in an undeviated state, a Sigma2 the initiator accepts from the attacker is the responder's
own up to the session id, and the responder has sent it -/
theorem clean_init_accept {A : Attacker} {cfg : HsCfg} (hs : FullSetting A cfg) (wire : List Msg)
    (hw : ∀ w ∈ wire, w ∈ cleanMsgs cfg) (m : Msg) (c3 : InitCtx3)
    (h : initSigma2 cfg.t cfg.init0 m = some c3)
    (hg : G A.H A.S A.C (wireE wire) m.toTerm) :
    ∃ ctx rSid e, hCtx cfg = some ctx ∧ ctx.s2 ∈ wire ∧
      ctx.s2 = .sigma2 cfg.rndR cfg.sidR (.epk cfg.ephR) e ∧
      m = .sigma2 cfg.rndR rSid (.epk cfg.ephR) e := by
  obtain ⟨rRnd, rSid, rEph, pl, hm, hmem⟩ :=
    initSigma2_G cfg.t cfg.init0 m c3 hs.hcert h hg
  obtain ⟨w, hww, hwe⟩ := List.mem_flatMap.1 hmem
  rcases mem_cleanMsgs.1 (hw w hww) with hq | hq | hq | ⟨ctx, hc, hq⟩ | ⟨c3', hc3, hq⟩
  · rw [hq, s1_shape hs] at hwe; simp [encOf] at hwe
  · rw [hq] at hwe; simp [encOf] at hwe
  · rw [hq] at hwe; simp [encOf] at hwe
  · obtain ⟨_, _, _, _, hs2⟩ := ctx0_shape hs hc
    have hwe' := hwe
    rw [hq, hs2] at hwe'
    simp only [encOf, List.mem_cons, List.not_mem_nil, or_false, Term.enc.injEq, s2k,
      Term.kdf.injEq, Term.pair.injEq] at hwe'
    obtain ⟨⟨_, ⟨_, hrnd, hreph, _⟩, _⟩, _, _⟩ := hwe'
    rw [hq, hs2] at hwe
    simp only [encOf, List.mem_cons, List.not_mem_nil, or_false] at hwe
    refine ⟨ctx, rSid, _, hc, by rw [← hq]; exact hww, hs2, ?_⟩
    rw [hm, hwe, hrnd, hreph]
  · obtain ⟨ctx', pl', _, _, hs3⟩ := c30_shape hs hc3
    rw [hq, hs3] at hwe
    simp [encOf, s3k, s2k, infoS2K, infoS3K] at hwe

/-! ## Deviated states: the attacker has spent its forgery; nothing on the wire is accepted -/

/-- the forged Sigma1 reached the responder: it works on a context no initiator shares -/
def DevS1 (cfg : HsCfg) (i : IState) (r : RState) (wire : List Msg) : Prop :=
  ∃ m1 ctxX, m1 ≠ cfg.init0.s1 ∧
    respSigma1 cfg.fabricsR m1 cfg.ephR cfg.rndR cfg.ridR cfg.sidR = .sent ctxX ∧
    (r = .sent2 ctxX ∨ r = .done none) ∧ (i = .sent1 cfg.init0 ∨ i = .done none) ∧
    ∀ w ∈ wire, w = cfg.init0.s1 ∨ w = ctxX.s2 ∨ w = .status false

/-- the forged Sigma2 (the responder's own with another session id) reached the initiator -/
def DevS2 (cfg : HsCfg) (i : IState) (r : RState) (wire : List Msg) : Prop :=
  ∃ ctx mX c3X, hCtx cfg = some ctx ∧ mX ≠ ctx.s2 ∧ initSigma2 cfg.t cfg.init0 mX = some c3X ∧
    (i = .sent3 c3X ∨ i = .done none) ∧ (r = .sent2 ctx ∨ r = .done none) ∧
    ∀ w ∈ wire, w = cfg.init0.s1 ∨ w = ctx.s2 ∨ w = c3X.s3 ∨ w = .status false

theorem sent_s2_shape {fabrics : List Fabric} {m : Msg} {eph : Nat} {rnd rid sid : Term} {ctx : RespCtx}
    (h : respSigma1 fabrics m eph rnd rid sid = .sent ctx) : ∃ a b c d, ctx.s2 = .sigma2 a b c d := by
  obtain ⟨_, _, _, _, hs2⟩ := respSigma1_s2 _ _ _ _ _ _ ctx h
  exact ⟨_, _, _, _, hs2⟩

theorem s3_shape {t : Time} {c : InitCtx} {m : Msg} {c3 : InitCtx3} (h : initSigma2 t c m = some c3) :
    ∃ e, c3.s3 = .sigma3 e := by
  obtain ⟨_, _, _, _, _, _, _, _, _, _, _, _, _, _, _, _, _, hs3⟩ := initiator_sigma2_implies_auth t c m c3 h
  exact ⟨_, hs3⟩

theorem s1_is_sigma1 (cfg : HsCfg) : ∃ a b c d e, cfg.init0.s1 = .sigma1 a b c d e :=
  ⟨_, _, _, _, _, rfl⟩

theorem initSigma2Resume_not_s2r (c : InitCtx) (m : Msg) (h : ∀ a b d, m ≠ .sigma2Resume a b d) :
    initSigma2Resume c m = none := by
  unfold initSigma2Resume
  split
  · rename_i a b d _ _; exact absurd rfl (h a b d)
  · rfl

theorem devS1_resp {cfg : HsCfg} {i : IState} {r : RState}
    {wire : List Msg} (hd : DevS1 cfg i r wire) (m : Msg) (hm : m ∈ wire) :
    DevS1 cfg i (stepResp cfg r m).1 (wire ++ (stepResp cfg r m).2) := by
  obtain ⟨m1, ctxX, hne, hX, hr, hi, hw⟩ := hd
  obtain ⟨a, b, c, d, hs2⟩ := sent_s2_shape hX
  obtain ⟨a1, b1, c1, d1, e1, hs1⟩ := s1_is_sigma1 cfg
  have hrej : respSigma3 cfg.t ctxX m = none := by
    rcases hw m hm with h | h | h
    · rw [h, hs1]; rfl
    · rw [h, hs2]; rfl
    · rw [h]; rfl
  refine ⟨m1, ctxX, hne, hX, ?_, hi, ?_⟩
  · rcases hr with h | h
    · rw [h]; simp [stepResp, hrej]
    · rw [h]; simp [stepResp]
  · intro w hww
    rcases List.mem_append.1 hww with h | h
    · exact hw w h
    · rcases hr with h' | h'
      · rw [h'] at h; simp [stepResp, hrej] at h; exact Or.inr (Or.inr h)
      · rw [h'] at h; simp [stepResp] at h

theorem devS1_init {cfg : HsCfg} {i : IState} {r : RState}
    {wire : List Msg} (hd : DevS1 cfg i r wire) (m : Msg) (hm : m ∈ wire) :
    DevS1 cfg (stepInit cfg i m).1 r (wire ++ (stepInit cfg i m).2) := by
  obtain ⟨m1, ctxX, hne, hX, hr, hi, hw⟩ := hd
  obtain ⟨a, b, c, d, hs2⟩ := sent_s2_shape hX
  obtain ⟨a1, b1, c1, d1, e1, hs1⟩ := s1_is_sigma1 cfg
  have hrej2 : initSigma2 cfg.t cfg.init0 m = none := by
    rcases hw m hm with h | h | h
    · rw [h, hs1]; rfl
    · rw [h]; exact tamper_sigma1_no_session _ _ _ _ _ _ ctxX _ _ hX hne
    · rw [h]; rfl
  have hrejr : initSigma2Resume cfg.init0 m = none := by
    apply initSigma2Resume_not_s2r
    intro a' b' d' hc
    rcases hw m hm with h | h | h
    · rw [h, hs1] at hc; cases hc
    · rw [h, hs2] at hc; cases hc
    · rw [h] at hc; cases hc
  refine ⟨m1, ctxX, hne, hX, hr, ?_, ?_⟩
  · rcases hi with h | h
    · rw [h]; simp [stepInit, hrej2, hrejr]
    · rw [h]; simp [stepInit]
  · intro w hww
    rcases List.mem_append.1 hww with h | h
    · exact hw w h
    · rcases hi with h' | h'
      · rw [h'] at h; simp [stepInit, hrej2, hrejr] at h; exact Or.inr (Or.inr h)
      · rw [h'] at h; simp [stepInit] at h

theorem devS2_resp {A : Attacker} {cfg : HsCfg} (hs : FullSetting A cfg) {i : IState} {r : RState}
    {wire : List Msg} (hd : DevS2 cfg i r wire) (m : Msg) (hm : m ∈ wire) :
    DevS2 cfg i (stepResp cfg r m).1 (wire ++ (stepResp cfg r m).2) := by
  obtain ⟨ctx, mX, c3X, hc, hne, hX, hi, hr, hw⟩ := hd
  obtain ⟨_, hs1, _, _, hs2⟩ := ctx0_shape hs hc
  have hrej : respSigma3 cfg.t ctx m = none := by
    rcases hw m hm with h | h | h | h
    · rw [h, s1_shape hs]; rfl
    · rw [h, hs2]; rfl
    · rw [h]; exact tamper_sigma12_no_session cfg.t cfg.t ctx cfg.init0 mX c3X hX (Or.inr (Ne.symm hne))
    · rw [h]; rfl
  refine ⟨ctx, mX, c3X, hc, hne, hX, hi, ?_, ?_⟩
  · rcases hr with h | h
    · rw [h]; simp [stepResp, hrej]
    · rw [h]; simp [stepResp]
  · intro w hww
    rcases List.mem_append.1 hww with h | h
    · exact hw w h
    · rcases hr with h' | h'
      · rw [h'] at h; simp [stepResp, hrej] at h; exact Or.inr (Or.inr (Or.inr h))
      · rw [h'] at h; simp [stepResp] at h

theorem devS2_init {A : Attacker} {cfg : HsCfg} (hs : FullSetting A cfg) {i : IState} {r : RState}
    {wire : List Msg} (hd : DevS2 cfg i r wire) (m : Msg) (hm : m ∈ wire) :
    DevS2 cfg (stepInit cfg i m).1 r (wire ++ (stepInit cfg i m).2) := by
  obtain ⟨ctx, mX, c3X, hc, hne, hX, hi, hr, hw⟩ := hd
  obtain ⟨_, hs1, _, _, hs2⟩ := ctx0_shape hs hc
  obtain ⟨e, hs3⟩ := s3_shape hX
  have hrej : initFinish c3X m = none := by
    rcases hw m hm with h | h | h | h
    · rw [h, s1_shape hs]; rfl
    · rw [h, hs2]; rfl
    · rw [h, hs3]; rfl
    · rw [h]; rfl
  refine ⟨ctx, mX, c3X, hc, hne, hX, ?_, hr, ?_⟩
  · rcases hi with h | h
    · rw [h]; simp [stepInit, hrej]
    · rw [h]; simp [stepInit]
  · intro w hww
    rcases List.mem_append.1 hww with h | h
    · exact hw w h
    · rcases hi with h' | h'
      · rw [h'] at h; simp [stepInit, hrej] at h
      · rw [h'] at h; simp [stepInit] at h

/-! ## Undeviated states -/

structure Clean (cfg : HsCfg) (i : IState) (r : RState) (wire : List Msg) : Prop where
  wire_ok : ∀ w ∈ wire, w ∈ cleanMsgs cfg
  i_ok : i = .sent1 cfg.init0 ∨ (∃ c3, hC3 cfg = some c3 ∧ i = .sent3 c3) ∨ i = .done none ∨
    i = .done (hResI cfg)
  r_ok : r = .idle ∨ (∃ ctx, hCtx cfg = some ctx ∧ r = .sent2 ctx) ∨ r = .done none ∨
    r = .done (hResR cfg)
  /-- as long as the initiator has not sent Sigma3, there is none on the wire, no success report,
  and the responder has not completed -/
  early : i = .sent1 cfg.init0 → (∀ e, Msg.sigma3 e ∉ wire) ∧ Msg.status true ∉ wire ∧
    (r = .idle ∨ (∃ ctx, hCtx cfg = some ctx ∧ r = .sent2 ctx) ∨ r = .done none)
  /-- as long as the responder has not been handed anything, nobody has made progress -/
  idle : r = .idle → (∀ w ∈ wire, w = cfg.init0.s1 ∨ w = .status false) ∧
    (i = .sent1 cfg.init0 ∨ i = .done none)
  /-- a success report is on the wire only if the responder of the untouched run completes -/
  st_ok : Msg.status true ∈ wire → (hResR cfg).isSome = true

theorem st_ok_append {cfg : HsCfg} {wire : List Msg} {m : Msg}
    (h : Msg.status true ∈ wire → (hResR cfg).isSome = true) (hm : m ≠ .status true) :
    Msg.status true ∈ wire ++ [m] → (hResR cfg).isSome = true := by
  intro hw
  rcases List.mem_append.1 hw with h' | h'
  · exact h h'
  · simp only [List.mem_cons, List.not_mem_nil, or_false] at h'
    exact absurd h'.symm hm

theorem clean_resp {A : Attacker} {cfg : HsCfg} (hs : FullSetting A cfg) {i : IState} {r : RState}
    {wire : List Msg} (hc : Clean cfg i r wire) (m : Msg)
    (hg : G A.H A.S A.C (wireE wire) m.toTerm) :
    Clean cfg i (stepResp cfg r m).1 (wire ++ (stepResp cfg r m).2) ∨
      (m ∉ wire ∧ DevS1 cfg i (stepResp cfg r m).1 (wire ++ (stepResp cfg r m).2)) := by
  rcases hc.r_ok with hr | ⟨ctx, hcx, hr⟩ | hr | hr
  · -- idle
    obtain ⟨hwi, hii⟩ := hc.idle hr
    have hres : respResumeStep cfg.fabricsR cfg.cacheR m cfg.ridR cfg.sidR = .fallThrough := by
      apply Classical.byContradiction
      intro hrr
      obtain ⟨rec, _, _, _, _, _, _, hmem, _⟩ := respResumeStep_G _ _ _ _ _ hs.hcacheR hrr hg
      obtain ⟨w, hww, hwe⟩ := List.mem_flatMap.1 hmem
      rcases hwi w hww with h | h
      · rw [h, s1_shape hs] at hwe; simp [encOf] at hwe
      · rw [h] at hwe; simp [encOf] at hwe
    cases hr1 : respSigma1 cfg.fabricsR m cfg.ephR cfg.rndR cfg.ridR cfg.sidR with
    | sent ctx =>
      have hstep : stepResp cfg r m = (.sent2 ctx, [ctx.s2]) := by rw [hr]; simp [stepResp, hres, hr1]
      rw [hstep]
      obtain ⟨a, b, c, d, hs2⟩ := sent_s2_shape hr1
      by_cases hm : m = cfg.init0.s1
      · left
        have hcx : hCtx cfg = some ctx := hCtx_some.2 (hm ▸ hr1)
        refine ⟨?_, hc.i_ok, Or.inr (Or.inl ⟨ctx, hcx, rfl⟩), ?_, ?_,
          st_ok_append hc.st_ok (by rw [hs2]; simp)⟩
        · intro w hw
          rcases List.mem_append.1 hw with h | h
          · exact hc.wire_ok w h
          · simp only [List.mem_cons, List.not_mem_nil, or_false] at h
            exact mem_cleanMsgs.2 (Or.inr (Or.inr (Or.inr (Or.inl ⟨ctx, hcx, h⟩))))
        · intro hi
          obtain ⟨h1, h2, _⟩ := hc.early hi
          refine ⟨?_, ?_, Or.inr (Or.inl ⟨ctx, hcx, rfl⟩)⟩
          · intro e he
            rcases List.mem_append.1 he with h | h
            · exact h1 e h
            · simp [hs2] at h
          · intro he
            rcases List.mem_append.1 he with h | h
            · exact h2 h
            · simp [hs2] at h
        · intro h; cases h
      · right
        refine ⟨?_, m, ctx, hm, hr1, Or.inl rfl, hii, ?_⟩
        · intro hw
          rcases hwi m hw with h | h
          · exact hm h
          · rw [h] at hr1; simp [respSigma1] at hr1
        · intro w hw
          rcases List.mem_append.1 hw with h | h
          · rcases hwi w h with h' | h'
            · exact Or.inl h'
            · exact Or.inr (Or.inr h')
          · simp only [List.mem_cons, List.not_mem_nil, or_false] at h
            exact Or.inr (Or.inl h)
    | refused =>
      have hstep : stepResp cfg r m = (.done none, [.status false]) := by
        rw [hr]; simp [stepResp, hres, hr1]
      rw [hstep]
      left
      refine ⟨?_, hc.i_ok, Or.inr (Or.inr (Or.inl rfl)), ?_, ?_, st_ok_append hc.st_ok (by simp)⟩
      · intro w hw
        rcases List.mem_append.1 hw with h | h
        · exact hc.wire_ok w h
        · simp only [List.mem_cons, List.not_mem_nil, or_false] at h
          exact mem_cleanMsgs.2 (Or.inr (Or.inl h))
      · intro hi
        obtain ⟨h1, h2, _⟩ := hc.early hi
        refine ⟨?_, ?_, Or.inr (Or.inr rfl)⟩
        · intro e he
          rcases List.mem_append.1 he with h | h
          · exact h1 e h
          · simp at h
        · intro he
          rcases List.mem_append.1 he with h | h
          · exact h2 h
          · simp at h
      · intro h; cases h
  · -- Sigma2 sent
    cases hr3 : respSigma3 cfg.t ctx m with
    | some p =>
      have hstep : stepResp cfg r m = (.done (some p), [.status true]) := by
        rw [hr]; simp [stepResp, hr3]
      rw [hstep]
      obtain ⟨c3, hc3, hm3, hmw, hres⟩ := clean_resp_accept hs wire hc.wire_ok hcx m p hr3 hg
      obtain ⟨_, _, _, h30, _⟩ := c30_shape hs hc3
      obtain ⟨e, he⟩ := s3_shape h30
      left
      refine ⟨?_, hc.i_ok, Or.inr (Or.inr (Or.inr (by rw [hres]))), ?_, ?_, fun _ => by rw [hres]; rfl⟩
      · intro w hw
        rcases List.mem_append.1 hw with h | h
        · exact hc.wire_ok w h
        · simp only [List.mem_cons, List.not_mem_nil, or_false] at h
          exact mem_cleanMsgs.2 (Or.inr (Or.inr (Or.inl h)))
      · intro hi
        exfalso
        rw [hm3, he] at hmw
        exact (hc.early hi).1 e hmw
      · intro h; cases h
    | none =>
      have hstep : stepResp cfg r m = (.done none, [.status false]) := by
        rw [hr]; simp [stepResp, hr3]
      rw [hstep]
      left
      refine ⟨?_, hc.i_ok, Or.inr (Or.inr (Or.inl rfl)), ?_, ?_, st_ok_append hc.st_ok (by simp)⟩
      · intro w hw
        rcases List.mem_append.1 hw with h | h
        · exact hc.wire_ok w h
        · simp only [List.mem_cons, List.not_mem_nil, or_false] at h
          exact mem_cleanMsgs.2 (Or.inr (Or.inl h))
      · intro hi
        obtain ⟨h1, h2, _⟩ := hc.early hi
        refine ⟨?_, ?_, Or.inr (Or.inr rfl)⟩
        · intro e he
          rcases List.mem_append.1 he with h | h
          · exact h1 e h
          · simp at h
        · intro he
          rcases List.mem_append.1 he with h | h
          · exact h2 h
          · simp at h
      · intro h; cases h
  · left
    have hstep : stepResp cfg r m = (r, []) := by rw [hr]; simp [stepResp]
    rw [hstep, List.append_nil]; exact hc
  · left
    have hstep : stepResp cfg r m = (r, []) := by rw [hr]; simp [stepResp]
    rw [hstep, List.append_nil]; exact hc

theorem initFinish_cases (c3 : InitCtx3) (m : Msg) :
    initFinish c3 m = none ∨ initFinish c3 m = initFinish c3 (.status true) := by
  unfold initFinish
  split
  · right; rfl
  · left; rfl

theorem clean_init {A : Attacker} {cfg : HsCfg} (hs : FullSetting A cfg) {i : IState} {r : RState}
    {wire : List Msg} (hc : Clean cfg i r wire) (m : Msg)
    (hg : G A.H A.S A.C (wireE wire) m.toTerm) :
    Clean cfg (stepInit cfg i m).1 r (wire ++ (stepInit cfg i m).2) ∨
      (m ∉ wire ∧ DevS2 cfg (stepInit cfg i m).1 r (wire ++ (stepInit cfg i m).2)) := by
  rcases hc.i_ok with hi | ⟨c3, hc3, hi⟩ | hi | hi
  · -- Sigma1 sent
    have hrejr : initSigma2Resume cfg.init0 m = none := by
      unfold initSigma2Resume
      rw [hs.hfull]
      split <;> simp_all
    obtain ⟨he1, he2, her⟩ := hc.early hi
    cases h2 : initSigma2 cfg.t cfg.init0 m with
    | some c3 =>
      have hstep : stepInit cfg i m = (.sent3 c3, [c3.s3]) := by rw [hi]; simp [stepInit, hrejr, h2]
      rw [hstep]
      obtain ⟨ctx, rSid, e, hcx, hsw, hs2, hm⟩ := clean_init_accept hs wire hc.wire_ok m c3 h2 hg
      obtain ⟨e3, he3⟩ := s3_shape h2
      have hnotidle : r ≠ .idle := by
        intro hr
        rcases (hc.idle hr).1 _ hsw with h | h
        · rw [hs2, s1_shape hs] at h; cases h
        · rw [hs2] at h; cases h
      by_cases hmm : m = ctx.s2
      · left
        have hc3 : hC3 cfg = some c3 := by
          unfold hC3; rw [hcx]; simp only [Option.bind_some]; rw [← hmm]; exact h2
        refine ⟨?_, Or.inr (Or.inl ⟨c3, hc3, rfl⟩), hc.r_ok, ?_, ?_,
          st_ok_append hc.st_ok (by rw [he3]; simp)⟩
        · intro w hw
          rcases List.mem_append.1 hw with h | h
          · exact hc.wire_ok w h
          · simp only [List.mem_cons, List.not_mem_nil, or_false] at h
            exact mem_cleanMsgs.2 (Or.inr (Or.inr (Or.inr (Or.inr ⟨c3, hc3, h⟩))))
        · intro h; cases h
        · intro hr; exact absurd hr hnotidle
      · right
        refine ⟨?_, ctx, m, c3, hcx, hmm, h2, Or.inl rfl, ?_, ?_⟩
        · intro hw
          rcases mem_cleanMsgs.1 (hc.wire_ok m hw) with h | h | h | ⟨ctx', hc', h⟩ | ⟨c3', hc3', h⟩
          · rw [hm, s1_shape hs] at h; cases h
          · rw [hm] at h; cases h
          · rw [hm] at h; cases h
          · rw [hcx] at hc'; cases hc'; exact hmm h
          · obtain ⟨_, _, _, h30, _⟩ := c30_shape hs hc3'
            obtain ⟨e', he'⟩ := s3_shape h30
            rw [hm, he'] at h; cases h
        · rcases her with h | ⟨ctx', hc', h⟩ | h
          · exact absurd h hnotidle
          · rw [hcx] at hc'; cases hc'; exact Or.inl h
          · exact Or.inr h
        · intro w hw
          rcases List.mem_append.1 hw with h | h
          · rcases mem_cleanMsgs.1 (hc.wire_ok w h) with h' | h' | h' | ⟨ctx', hc', h'⟩ | ⟨c3', hc3', h'⟩
            · exact Or.inl h'
            · exact Or.inr (Or.inr (Or.inr h'))
            · rw [h'] at h; exact absurd h he2
            · rw [hcx] at hc'; cases hc'; exact Or.inr (Or.inl h')
            · obtain ⟨_, _, _, h30, _⟩ := c30_shape hs hc3'
              obtain ⟨e', he'⟩ := s3_shape h30
              rw [h', he'] at h; exact absurd h (he1 e')
          · simp only [List.mem_cons, List.not_mem_nil, or_false] at h
            exact Or.inr (Or.inr (Or.inl h))
    | none =>
      have hstep : stepInit cfg i m = (.done none, [.status false]) := by
        rw [hi]; simp [stepInit, hrejr, h2]
      rw [hstep]
      left
      refine ⟨?_, Or.inr (Or.inr (Or.inl rfl)), hc.r_ok, ?_, ?_, st_ok_append hc.st_ok (by simp)⟩
      · intro w hw
        rcases List.mem_append.1 hw with h | h
        · exact hc.wire_ok w h
        · simp only [List.mem_cons, List.not_mem_nil, or_false] at h
          exact mem_cleanMsgs.2 (Or.inr (Or.inl h))
      · intro h; cases h
      · intro hr
        refine ⟨?_, Or.inr rfl⟩
        intro w hw
        rcases List.mem_append.1 hw with h | h
        · exact (hc.idle hr).1 w h
        · simp only [List.mem_cons, List.not_mem_nil, or_false] at h
          exact Or.inr h
  · -- Sigma3 sent
    have hstep : stepInit cfg i m = (.done (initFinish c3 m), []) := by rw [hi]; simp [stepInit]
    rw [hstep, List.append_nil]
    left
    have hfin : initFinish c3 (.status true) = hResI cfg := by
      unfold hResI; rw [hc3]; rfl
    refine ⟨hc.wire_ok, ?_, hc.r_ok, ?_, ?_, hc.st_ok⟩
    · rcases initFinish_cases c3 m with h | h
      · rw [h]; exact Or.inr (Or.inr (Or.inl rfl))
      · rw [h, hfin]; exact Or.inr (Or.inr (Or.inr rfl))
    · intro h; cases h
    · intro hr
      rcases (hc.idle hr).2 with h | h
      · rw [hi] at h; cases h
      · rw [hi] at h; cases h
  · left
    have hstep : stepInit cfg i m = (i, []) := by rw [hi]; simp [stepInit]
    rw [hstep, List.append_nil]; exact hc
  · left
    have hstep : stepInit cfg i m = (i, []) := by rw [hi]; simp [stepInit]
    rw [hstep, List.append_nil]; exact hc

/-! ## The network theorem (full handshake) -/

/-- the invariant of the induction over the schedule: undeviated, or (forgery spent) deviated -/
def InvFull (cfg : HsCfg) (n : Net) (k : Nat) : Prop :=
  Clean cfg n.i n.r n.wire ∨
    (k = 0 ∧ (DevS1 cfg n.i n.r n.wire ∨ DevS2 cfg n.i n.r n.wire))

theorem step_toResp (cfg : HsCfg) (n : Net) (m : Msg) :
    n.step cfg (.toResp m) = n ∨
    ((n.step cfg (.toResp m)).i = n.i ∧ (n.step cfg (.toResp m)).r = (stepResp cfg n.r m).1 ∧
      (n.step cfg (.toResp m)).wire = n.wire ++ (stepResp cfg n.r m).2) := by
  unfold Net.step
  by_cases h : m ∈ n.seenR
  · left; simp [h]
  · right; simp [h]

theorem step_toInit (cfg : HsCfg) (n : Net) (m : Msg) :
    n.step cfg (.toInit m) = n ∨
    ((n.step cfg (.toInit m)).r = n.r ∧ (n.step cfg (.toInit m)).i = (stepInit cfg n.i m).1 ∧
      (n.step cfg (.toInit m)).wire = n.wire ++ (stepInit cfg n.i m).2) := by
  unfold Net.step
  by_cases h : m ∈ n.seenI
  · left; simp [h]
  · right; simp [h]

theorem invFull_mono {cfg : HsCfg} {n : Net} (h : InvFull cfg n 1) : InvFull cfg n 0 := by
  rcases h with h | h
  · exact Or.inl h
  · exact absurd h.1 (by decide)

/-- one delivery: a relayed message keeps the invariant at the same budget, a forged one at
budget 0 -/
theorem invFull_step {A : Attacker} {cfg : HsCfg} (hs : FullSetting A cfg) (n : Net) (k : Nat)
    (op : NetOp) (hinv : InvFull cfg n k) :
    (op.msg ∈ n.wire → InvFull cfg (n.step cfg op) k) ∧
    (Forgeable A cfg n op.msg → k = 1 → InvFull cfg (n.step cfg op) 0) := by
  rcases hinv with hc | ⟨hk, hd⟩
  · -- undeviated: relayed and forged messages alike satisfy `G`
    have hG : ∀ m, Forgeable A cfg n m → G A.H A.S A.C (wireE n.wire) m.toTerm :=
      fun m hf => forgeable_G A cfg n hs.ipk hs.hipk (clean_wire_G hs n.wire hc.wire_ok) m hf
    have key : ∀ m, Forgeable A cfg n m →
        (m ∈ n.wire → ∀ op, op.msg = m → Clean cfg (n.step cfg op).i (n.step cfg op).r (n.step cfg op).wire) ∧
        (∀ op, op.msg = m → InvFull cfg (n.step cfg op) 0) := by
      intro m hf
      have hg := hG m hf
      have hR := clean_resp hs hc m hg
      have hI := clean_init hs hc m hg
      refine ⟨?_, ?_⟩
      · intro hw op hop
        cases op with
        | toResp m' =>
          cases hop
          rcases step_toResp cfg n m' with h | ⟨h1, h2, h3⟩
          · rw [h]; exact hc
          · rw [h1, h2, h3]
            rcases hR with h | h
            · exact h
            · exact absurd hw h.1
        | toInit m' =>
          cases hop
          rcases step_toInit cfg n m' with h | ⟨h1, h2, h3⟩
          · rw [h]; exact hc
          · rw [h1, h2, h3]
            rcases hI with h | h
            · exact h
            · exact absurd hw h.1
      · intro op hop
        cases op with
        | toResp m' =>
          cases hop
          rcases step_toResp cfg n m' with h | ⟨h1, h2, h3⟩
          · rw [h]; exact Or.inl hc
          · unfold InvFull
            rw [h1, h2, h3]
            rcases hR with h | h
            · exact Or.inl h
            · exact Or.inr ⟨rfl, Or.inl h.2⟩
        | toInit m' =>
          cases hop
          rcases step_toInit cfg n m' with h | ⟨h1, h2, h3⟩
          · rw [h]; exact Or.inl hc
          · unfold InvFull
            rw [h1, h2, h3]
            rcases hI with h | h
            · exact Or.inl h
            · exact Or.inr ⟨rfl, Or.inr h.2⟩
    refine ⟨?_, ?_⟩
    · intro hw
      exact Or.inl ((key op.msg (relay_forgeable A cfg n _ hw)).1 hw op rfl)
    · intro hf _
      exact (key op.msg hf).2 op rfl
  · -- deviated: budget is 0, only relayed messages
    refine ⟨?_, ?_⟩
    · intro hw
      subst hk
      cases op with
      | toResp m =>
        rcases step_toResp cfg n m with h | ⟨h1, h2, h3⟩
        · rw [h]; exact Or.inr ⟨rfl, hd⟩
        · unfold InvFull
          rw [h1, h2, h3]
          rcases hd with h | h
          · exact Or.inr ⟨rfl, Or.inl (devS1_resp h m hw)⟩
          · exact Or.inr ⟨rfl, Or.inr (devS2_resp hs h m hw)⟩
      | toInit m =>
        rcases step_toInit cfg n m with h | ⟨h1, h2, h3⟩
        · rw [h]; exact Or.inr ⟨rfl, hd⟩
        · unfold InvFull
          rw [h1, h2, h3]
          rcases hd with h | h
          · exact Or.inr ⟨rfl, Or.inl (devS1_init h m hw)⟩
          · exact Or.inr ⟨rfl, Or.inr (devS2_init hs h m hw)⟩
    · intro _ hk1; rw [hk] at hk1; cases hk1

/-! ### The untouched run, computed by the run function -/

/-- what each end holds after the UNTOUCHED run: the model's run function on the in-order schedule
`honestOps` (every message delivered once, in order) -/
def refI (cfg : HsCfg) : Result := ((Net.start cfg).run cfg (honestOps cfg)).i.result
def refR (cfg : HsCfg) : Result := ((Net.start cfg).run cfg (honestOps cfg)).r.result

theorem initSigma2Resume_noRec (c : InitCtx) (m : Msg) (h : c.cached = none) :
    initSigma2Resume c m = none := by
  unfold initSigma2Resume
  rw [h]
  split <;> simp_all

/-- **the untouched run, in general** (every configuration of `FullSetting`, not a sample): the
responder ends with `hResR` — what it makes of the initiator's own Sigma3 —, and the initiator with
`hResI` exactly when the responder completes (it then sends the success report), else with nothing
(the responder's failure report, or its own refusal of Sigma2, ends the attempt) -/
theorem honest_run_full {A : Attacker} {cfg : HsCfg} (hs : FullSetting A cfg) :
    refR cfg = hResR cfg ∧ refI cfg = if (hResR cfg).isSome then hResI cfg else none := by
  have hs1 := s1_shape hs
  have hnr : ∀ m, initSigma2Resume cfg.init0 m = none := fun m => initSigma2Resume_noRec _ m hs.hfull
  have hrr : respResumeStep cfg.fabricsR cfg.cacheR cfg.init0.s1 cfg.ridR cfg.sidR = .fallThrough := by
    rw [hs1]; rfl
  have hne : ∀ b, Msg.status b ≠ cfg.init0.s1 := by intro b; rw [hs1]; simp
  unfold refR refI
  cases hc : hCtx cfg with
  | none =>
    have hr1 : respSigma1 cfg.fabricsR cfg.init0.s1 cfg.ephR cfg.rndR cfg.ridR cfg.sidR = .refused := by
      cases h : respSigma1 cfg.fabricsR cfg.init0.s1 cfg.ephR cfg.rndR cfg.ridR cfg.sidR with
      | refused => rfl
      | sent ctx => rw [hCtx_some.2 h] at hc; cases hc
    have hR : hResR cfg = none := by unfold hResR; rw [hc]
    rw [hR]
    simp [honestOps, Net.run, Net.step, Net.start, stepResp, stepInit, hrr, hr1, hnr, initSigma2,
      IState.result, RState.result, hne]
  | some ctx =>
    have hr1 := hCtx_some.1 hc
    obtain ⟨a, b, c, d, hs2⟩ := sent_s2_shape hr1
    have hne2 : ∀ b, Msg.status b ≠ ctx.s2 := by intro b; rw [hs2]; simp
    cases hc3 : hC3 cfg with
    | none =>
      have h2 : initSigma2 cfg.t cfg.init0 ctx.s2 = none := by
        unfold hC3 at hc3; rw [hc] at hc3; simpa using hc3
      have hR : hResR cfg = none := by unfold hResR; rw [hc, hc3]
      rw [hR]
      simp [honestOps, Net.run, Net.step, Net.start, stepResp, stepInit, hrr, hr1, hnr, h2,
        IState.result, RState.result, hne, hne2, respSigma3]
    | some c3 =>
      have h2 : initSigma2 cfg.t cfg.init0 ctx.s2 = some c3 := by
        unfold hC3 at hc3; rw [hc] at hc3; simpa using hc3
      obtain ⟨e, hs3⟩ := s3_shape h2
      have hne3 : c3.s3 ≠ cfg.init0.s1 := by rw [hs3, hs1]; simp
      have hR : hResR cfg = respSigma3 cfg.t ctx c3.s3 := by unfold hResR; rw [hc, hc3]
      have hI : hResI cfg = initFinish c3 (.status true) := by unfold hResI; rw [hc3]; rfl
      rw [hR, hI]
      cases h3 : respSigma3 cfg.t ctx c3.s3 with
      | none =>
        simp [honestOps, Net.run, Net.step, Net.start, stepResp, stepInit, hrr, hr1, hnr, h2, h3,
          IState.result, RState.result, hne2, hne3, initFinish]
      | some p =>
        simp [honestOps, Net.run, Net.step, Net.start, stepResp, stepInit, hrr, hr1, hnr, h2, h3,
          IState.result, RState.result, hne2, hne3]

/-- **The half-open initiator session.**  The final status report of CASE travels on the
unsecured exchange and is not authenticated (`CaseInitiator::perform` step 8 reads the general /
protocol code and nothing else).  An attacker can therefore spend its one message on a forged
SUCCESS report.  If the untouched run succeeds, this gives the initiator nothing new (`hResI` is then
its session of the untouched run).  If in the untouched run the responder REFUSES the initiator's
Sigma3 (the initiator's own chain is not valid for the responder, …), the untouched run leaves both
ends without a session, whereas the forged report leaves the initiator with `hResI`: the session it
computes from the responder's own, authenticated Sigma2 — bound to the responder's certificate, keyed
from the ECDH secret of the two honest ephemeral keys (`half_open_authenticated`,
`net_full_session_keys_secret`: no attacker can derive these keys) — which the responder does not
hold.  It is unusable (nobody answers under these keys), not mis-bound; the clause "either no session
or the same session as the untouched run" is nevertheless FALSE for it, so it is an explicit third
case of the outcome.  `HalfOpen cfg res`: `res` is such a session. -/
def HalfOpen (cfg : HsCfg) (res : Result) : Prop :=
  refR cfg = none ∧ refI cfg = none ∧ res = hResI cfg ∧ res.isSome = true

/-- each end: no session, or the session (and cache record) of the untouched run — or, for the
initiator only, the half-open session -/
def OutcomeFull (cfg : HsCfg) (n : Net) : Prop :=
  (n.i.result = none ∨ n.i.result = refI cfg ∨ HalfOpen cfg n.i.result) ∧
  (n.r.result = none ∨ n.r.result = refR cfg)

/-- the outcome as the property text has it: no session, or the session of the untouched run -/
def OutcomeStrict (cfg : HsCfg) (n : Net) : Prop :=
  (n.i.result = none ∨ n.i.result = refI cfg) ∧ (n.r.result = none ∨ n.r.result = refR cfg)

/-- what the invariant gives, against the defined terms `hResI` / `hResR` -/
theorem invFull_outcome0 {cfg : HsCfg} {n : Net} {k : Nat} (h : InvFull cfg n k) :
    (n.i.result = none ∨ n.i.result = hResI cfg) ∧ (n.r.result = none ∨ n.r.result = hResR cfg) := by
  rcases h with hc | ⟨_, hd | hd⟩
  · constructor
    · rcases hc.i_ok with h | ⟨_, _, h⟩ | h | h <;> rw [h] <;> simp [IState.result]
    · rcases hc.r_ok with h | ⟨_, _, h⟩ | h | h <;> rw [h] <;> simp [RState.result]
  · obtain ⟨_, _, _, _, hr, hi, _⟩ := hd
    constructor
    · rcases hi with h | h <;> rw [h] <;> simp [IState.result]
    · rcases hr with h | h <;> rw [h] <;> simp [RState.result]
  · obtain ⟨_, _, _, _, _, _, hi, hr, _⟩ := hd
    constructor
    · rcases hi with h | h <;> rw [h] <;> simp [IState.result]
    · rcases hr with h | h <;> rw [h] <;> simp [RState.result]

theorem invFull_outcome {A : Attacker} {cfg : HsCfg} (hs : FullSetting A cfg) {n : Net} {k : Nat}
    (h : InvFull cfg n k) : OutcomeFull cfg n := by
  obtain ⟨h1, h2⟩ := invFull_outcome0 h
  obtain ⟨eR, eI⟩ := honest_run_full hs
  refine ⟨?_, by rw [eR]; exact h2⟩
  rcases h1 with h1 | h1
  · exact Or.inl h1
  · cases hR : hResR cfg with
    | some p =>
      right; left
      rw [eI, hR]; exact h1
    | none =>
      cases hI : hResI cfg with
      | none => left; rw [h1, hI]
      | some q =>
        right; right
        refine ⟨by rw [eR, hR], by rw [eI, hR]; rfl, h1, by rw [h1, hI]; rfl⟩

/-- the invariant survives every admissible schedule -/
theorem invFull_run {A : Attacker} {cfg : HsCfg} (hs : FullSetting A cfg) :
    ∀ (n : Net) (k : Nat) (ops : List NetOp), Sched A cfg n k ops → k ≤ 1 → InvFull cfg n k →
      ∃ k', InvFull cfg (n.run cfg ops) k' := by
  intro n k ops hsched
  induction hsched with
  | nil n k => intro _ hinv; exact ⟨k, hinv⟩
  | relay n k op ops hw _ ih =>
    intro hk hinv
    exact ih hk ((invFull_step hs n k op hinv).1 hw)
  | forge n k op ops hf _ ih =>
    intro hk hinv
    have hk0 : k = 0 := by omega
    subst hk0
    exact ih (by omega) ((invFull_step hs n 1 op hinv).2 hf rfl)

theorem clean_start {A : Attacker} {cfg : HsCfg} (hs : FullSetting A cfg) :
    Clean cfg (Net.start cfg).i (Net.start cfg).r (Net.start cfg).wire := by
  refine ⟨?_, Or.inl rfl, Or.inl rfl, ?_, ?_, ?_⟩
  rotate_right
  · intro he
    simp only [Net.start, List.mem_cons, List.not_mem_nil, or_false] at he
    rw [s1_shape hs] at he; cases he
  · intro w hw
    simp only [Net.start, List.mem_cons, List.not_mem_nil, or_false] at hw
    exact mem_cleanMsgs.2 (Or.inl hw)
  · intro _
    refine ⟨?_, ?_, Or.inl rfl⟩
    · intro e he
      simp only [Net.start, List.mem_cons, List.not_mem_nil, or_false] at he
      rw [s1_shape hs] at he; cases he
    · intro he
      simp only [Net.start, List.mem_cons, List.not_mem_nil, or_false] at he
      rw [s1_shape hs] at he; cases he
  · intro _
    refine ⟨?_, Or.inl rfl⟩
    intro w hw
    simp only [Net.start, List.mem_cons, List.not_mem_nil, or_false] at hw
    exact Or.inl hw

theorem net_full_inv {A : Attacker} {cfg : HsCfg} (hs : FullSetting A cfg)
    (ops : List NetOp) (hsched : Sched A cfg (Net.start cfg) 1 ops) :
    ∃ k', InvFull cfg ((Net.start cfg).run cfg ops) k' :=
  invFull_run hs _ 1 ops hsched (Nat.le_refl 1) (Or.inl (clean_start hs))

/-- **C01, network form (full handshake)**.  Against the Dolev-Yao attacker `A` — who sees the
wire, knows the IPK, has its own ephemeral secrets, signing keys `A.S` and certificates `A.C` —
for EVERY schedule of the handshake packets (any loss, duplication, delay, reordering, reflection
or replay of what the two honest ends have sent IN THIS EXCHANGE) in which the attacker additionally
delivers, at any point and to either end, at most ONE message of its own making (any message it can
derive at that moment from this exchange's wire and the IPK: this covers every single-field /
single-bit / message-level mutation, truncation, substitution of Sigma1, Sigma2, Sigma3 and the
final status report):
* the responder finishes with no session or with exactly the session (identity, keys, session ids)
  and cache record it has after the untouched run (`refR`: `Net.run` on `honestOps`);
* the initiator finishes with no session, or with exactly its session of the untouched run (`refI`),
  or — only if the untouched run fails at the responder — with the half-open session `HalfOpen`
  (see there; `net_single_mutation_full_strict`: impossible when the untouched run succeeds;
  `net_no_forgery_full`: impossible without an attacker-made message). -/
theorem net_single_mutation_full {A : Attacker} {cfg : HsCfg} (hs : FullSetting A cfg)
    (ops : List NetOp) (hsched : Sched A cfg (Net.start cfg) 1 ops) :
    OutcomeFull cfg ((Net.start cfg).run cfg ops) := by
  obtain ⟨k', h⟩ := net_full_inv hs ops hsched
  exact invFull_outcome hs h

/-- **the property's tamper clause as stated**, for every configuration in which the untouched run
succeeds (the responder ends with a session): each end ends with no session or exactly the session
of the untouched run -/
theorem net_single_mutation_full_strict {A : Attacker} {cfg : HsCfg} (hs : FullSetting A cfg)
    (hok : (refR cfg).isSome = true)
    (ops : List NetOp) (hsched : Sched A cfg (Net.start cfg) 1 ops) :
    OutcomeStrict cfg ((Net.start cfg).run cfg ops) := by
  obtain ⟨h1, h2⟩ := net_single_mutation_full hs ops hsched
  refine ⟨?_, h2⟩
  rcases h1 with h | h | h
  · exact Or.inl h
  · exact Or.inr h
  · rw [h.1] at hok; cases hok

/-- the half-open session is bound to an authenticated peer: it is what the initiator computes
from the Sigma2 that the honest responder sent in answer to the initiator's own Sigma1 — chain valid
for the initiator's fabric naming the addressed node id, TBS signature under the certified key over
both ephemeral keys of THIS handshake — and its shared secret is the ECDH of the two honest
ephemeral keys -/
theorem half_open_authenticated {A : Attacker} {cfg : HsCfg} (hs : FullSetting A cfg) (s : Session)
    (r : ResRec) (h : HalfOpen cfg (some (s, r))) :
    ∃ ctx c3, hCtx cfg = some ctx ∧ initSigma2 cfg.t cfg.init0 ctx.s2 = some c3 ∧
      initFinish c3 (.status true) = some (s, r) ∧
      s.fabIdx = cfg.fI.idx ∧ s.peerNode = cfg.peer ∧
      CaseValid cfg.t cfg.fI.view ctx.fabric.noc ctx.fabric.icac ∧
      nodeIdOf ctx.fabric.noc.subject = some cfg.peer ∧ s.cats = catsOf ctx.fabric.noc.subject ∧
      s.sharedSecret = .shared (min cfg.ephR cfg.ephI) (max cfg.ephR cfg.ephI) ∧
      respSigma3 cfg.t ctx c3.s3 = none := by
  obtain ⟨hR, _, hres, _⟩ := h
  cases hc3 : hC3 cfg with
  | none => unfold hResI at hres; rw [hc3] at hres; cases hres
  | some c3 =>
    obtain ⟨ctx, _, hcx, h2, _⟩ := c30_shape hs hc3
    have hfin : initFinish c3 (.status true) = some (s, r) := by
      unfold hResI at hres; rw [hc3] at hres; exact hres.symm
    obtain ⟨hsec, _, _, _, hs2⟩ := ctx0_shape hs hcx
    obtain ⟨_, hsec3, _, _⟩ := initiator_accepts_honest_sigma2 _ _ _ _ _ _ ctx _ _ c3 (hCtx_some.1 hcx) h2
    obtain ⟨rRnd, rSid, rEph, noc, icac, sig, rid, hm, hv, hn, _, hcc, _, hcats, _⟩ :=
      initiator_sigma2_implies_auth _ _ _ c3 h2
    rw [hs2] at hm
    simp only [Msg.sigma2.injEq, Term.enc.injEq, tbe2, Term.pair.injEq, Term.cert.injEq] at hm
    obtain ⟨_, _, _, _, _, hnoc, hic, _⟩ := hm
    have hicac : ctx.fabric.icac = icac := by
      cases h1 : ctx.fabric.icac <;> cases h2' : icac <;> simp [h1, h2', optCert] at hic
      · rfl
      · rw [hic]
    have hR' : respSigma3 cfg.t ctx c3.s3 = none := by
      rw [(honest_run_full hs).1] at hR
      unfold hResR at hR; rw [hcx, hc3] at hR; exact hR
    unfold initFinish at hfin
    simp only [Option.some.injEq, Prod.mk.injEq] at hfin
    obtain ⟨hs', _⟩ := hfin
    refine ⟨ctx, c3, hcx, h2, ?_, ?_, ?_, ?_, ?_, ?_, ?_, hR'⟩
    · unfold initFinish; simp only [Option.some.injEq, Prod.mk.injEq]; exact ⟨hs', by assumption⟩
    · rw [← hs', hcc]; rfl
    · rw [← hs', hcc]; rfl
    · rw [hnoc, hicac]; exact hv
    · rw [hnoc]; exact hn
    · rw [← hs', hnoc]; exact hcats
    · rw [← hs']; show c3.secret = _; rw [hsec3, hsec]

/-- … and whenever both ends hold a session, they hold the same directional keys (and the same
shared secret; the responder's is bound to the initiator's own NOC) -/
theorem net_full_keys_agree {A : Attacker} {cfg : HsCfg} (hs : FullSetting A cfg)
    (ops : List NetOp) (hsched : Sched A cfg (Net.start cfg) 1 ops) (sI sR : Session) (rI rR : ResRec)
    (hI : ((Net.start cfg).run cfg ops).i.result = some (sI, rI))
    (hR : ((Net.start cfg).run cfg ops).r.result = some (sR, rR)) :
    sR.i2r = sI.i2r ∧ sR.r2i = sI.r2i ∧ sR.sharedSecret = sI.sharedSecret ∧
    nodeIdOf cfg.fI.noc.subject = some sR.peerNode ∧ sR.cats = catsOf cfg.fI.noc.subject := by
  obtain ⟨k', hinv⟩ := net_full_inv hs ops hsched
  obtain ⟨h1, h2⟩ := invFull_outcome0 hinv
  rw [hI] at h1; rw [hR] at h2
  have hi : hResI cfg = some (sI, rI) := by rcases h1 with h | h; cases h; exact h.symm
  have hr : hResR cfg = some (sR, rR) := by rcases h2 with h | h; cases h; exact h.symm
  unfold hResI at hi
  cases hc3 : hC3 cfg with
  | none => rw [hc3] at hi; cases hi
  | some c3 =>
    rw [hc3] at hi
    simp only [Option.bind_some] at hi
    obtain ⟨ctx, _, hcx, h30, _⟩ := c30_shape hs hc3
    unfold hResR at hr
    rw [hcx, hc3] at hr
    simp only at hr
    have := keys_agree cfg.t cfg.t ctx cfg.init0 ctx.s2 c3 sR sI rR rI h30 hr hi
    exact ⟨this.2.2.1, this.2.2.2.1, this.2.2.2.2.1, this.2.2.2.2.2.1, this.2.2.2.2.2.2⟩

/-! ### Without an attacker-made message the clause holds as stated -/

/-- "no half-open session": if the initiator holds `hResI`, the responder of the untouched run completes -/
def NoHalf (cfg : HsCfg) (i : IState) : Prop :=
  i = .done (hResI cfg) → (hResI cfg).isSome = true → (hResR cfg).isSome = true

theorem noHalf_step {A : Attacker} {cfg : HsCfg} (hs : FullSetting A cfg) (n : Net) (op : NetOp)
    (hc : Clean cfg n.i n.r n.wire) (hn : NoHalf cfg n.i) (hw : op.msg ∈ n.wire) :
    NoHalf cfg (n.step cfg op).i := by
  cases op with
  | toResp m =>
    rcases step_toResp cfg n m with h | ⟨h1, _, _⟩
    · rw [h]; exact hn
    · rw [h1]; exact hn
  | toInit m =>
    rcases step_toInit cfg n m with h | ⟨_, h2, _⟩
    · rw [h]; exact hn
    · rw [h2]
      intro heq hsome
      have hnone : hResI cfg ≠ none := by intro h; rw [h] at hsome; cases hsome
      rcases hc.i_ok with hi | ⟨c3, hc3, hi⟩ | hi | hi
      · rw [hi] at heq
        simp only [stepInit, initSigma2Resume_noRec _ m hs.hfull] at heq
        cases h2' : initSigma2 cfg.t cfg.init0 m with
        | some c3 => rw [h2'] at heq; cases heq
        | none =>
          rw [h2'] at heq
          simp only [IState.done.injEq] at heq
          exact absurd heq.symm hnone
      · rw [hi] at heq
        simp only [stepInit, IState.done.injEq] at heq
        by_cases hm : m = .status true
        · subst hm; exact hc.st_ok hw
        · rw [tamper_status_no_session c3 m hm] at heq
          exact absurd heq.symm hnone
      · rw [hi] at heq
        simp only [stepInit, IState.done.injEq] at heq
        exact absurd heq.symm hnone
      · exact hn hi hsome

theorem relay_only_full {A : Attacker} {cfg : HsCfg} (hs : FullSetting A cfg) :
    ∀ (n : Net) (k : Nat) (ops : List NetOp), Sched A cfg n k ops → k = 0 →
      Clean cfg n.i n.r n.wire → NoHalf cfg n.i →
      Clean cfg (n.run cfg ops).i (n.run cfg ops).r (n.run cfg ops).wire ∧ NoHalf cfg (n.run cfg ops).i := by
  intro n k ops hsched
  induction hsched with
  | nil n k => intro _ hc hn; exact ⟨hc, hn⟩
  | relay n k op ops hw _ ih =>
    intro hk hc hn
    have hinv : InvFull cfg (n.step cfg op) 1 := (invFull_step hs n 1 op (Or.inl hc)).1 hw
    have hc' : Clean cfg (n.step cfg op).i (n.step cfg op).r (n.step cfg op).wire := by
      rcases hinv with h | h
      · exact h
      · exact absurd h.1 (by decide)
    exact ih hk hc' (noHalf_step hs n op hc hn hw)
  | forge n k op ops _ _ _ => intro hk; omega

/-- **without an attacker-made message** (any loss, duplication, delay, reordering, reflection or
replay of the exchange's own messages) the tamper clause holds as stated, whether or not the
untouched run succeeds -/
theorem net_no_forgery_full {A : Attacker} {cfg : HsCfg} (hs : FullSetting A cfg)
    (ops : List NetOp) (hsched : Sched A cfg (Net.start cfg) 0 ops) :
    OutcomeStrict cfg ((Net.start cfg).run cfg ops) := by
  have hstart : NoHalf cfg (Net.start cfg).i := by intro h; cases h
  obtain ⟨hc, hn⟩ := relay_only_full hs _ 0 ops hsched rfl (clean_start hs) hstart
  obtain ⟨h1, h2⟩ := invFull_outcome0 (k := 0) (Or.inl hc)
  obtain ⟨eR, eI⟩ := honest_run_full hs
  refine ⟨?_, by rw [eR]; exact h2⟩
  rcases hc.i_ok with h | ⟨_, _, h⟩ | h | h
  · left; rw [h]; rfl
  · left; rw [h]; rfl
  · left; rw [h]; rfl
  · cases hI : hResI cfg with
    | none => left; rw [h, hI]; rfl
    | some q =>
      right
      have := hn h (by rw [hI]; rfl)
      rw [eI, this, h]; rfl

/-! ### Secrecy of the session keys -/

/-- everything the attacker derives from the wire of an undeviated state satisfies `G` -/
theorem derivable_wire_G {A : Attacker} {cfg : HsCfg} (hs : FullSetting A cfg) {i : IState} {r : RState}
    {wire : List Msg} (hc : Clean cfg i r wire) (t : Term)
    (hD : Derivable A.H A.S A.C (wire.map Msg.toTerm ++ [cfg.fI.ipk]) t) :
    G A.H A.S A.C (wireE wire) t := by
  apply derivable_G A.H A.S A.C (wireE wire) _ _ _ hD
  intro t ht
  simp only [List.mem_append, List.mem_map, List.mem_cons, List.not_mem_nil, or_false] at ht
  rcases ht with ⟨w, hw1, rfl⟩ | rfl
  · exact clean_wire_G hs wire hc.wire_ok w hw1
  · rw [hs.hipk]; trivial

theorem not_G_sec {H S C E} {x y : Nat} (hx : x ∈ H) (hy : y ∈ H) : ¬ G H S C E (.shared x y) := by
  intro h; simp only [G] at h; exact h ⟨hx, hy⟩

/-- **the keys of every session either end holds are secret**: for every schedule with at most one
attacker-made message, whatever session an end finishes with — the untouched run's or the half-open
one —, the attacker cannot derive its directional keys or its shared secret from everything sent in
the exchange and the IPK -/
theorem net_full_session_keys_secret {A : Attacker} {cfg : HsCfg} (hs : FullSetting A cfg)
    (ops : List NetOp) (hsched : Sched A cfg (Net.start cfg) 1 ops) (s : Session) (r : ResRec)
    (h : ((Net.start cfg).run cfg ops).i.result = some (s, r) ∨
      ((Net.start cfg).run cfg ops).r.result = some (s, r))
    (x : Term) (hx : x = s.i2r ∨ x = s.r2i ∨ x = s.sharedSecret) :
    ¬ Derivable A.H A.S A.C
      (((Net.start cfg).run cfg ops).wire.map Msg.toTerm ++ [cfg.fI.ipk]) x := by
  obtain ⟨k', hinv⟩ := net_full_inv hs ops hsched
  obtain ⟨h1, h2⟩ := invFull_outcome0 hinv
  -- a session exists, so the state is undeviated
  have hc : Clean cfg ((Net.start cfg).run cfg ops).i ((Net.start cfg).run cfg ops).r
      ((Net.start cfg).run cfg ops).wire := by
    rcases hinv with hc | ⟨_, hd | hd⟩
    · exact hc
    · obtain ⟨_, _, _, _, hr, hi, _⟩ := hd
      exfalso
      rcases h with h | h
      · rcases hi with e | e <;> rw [e] at h <;> cases h
      · rcases hr with e | e <;> rw [e] at h <;> cases h
    · obtain ⟨_, _, _, _, _, _, hi, hr, _⟩ := hd
      exfalso
      rcases h with h | h
      · rcases hi with e | e <;> rw [e] at h <;> cases h
      · rcases hr with e | e <;> rw [e] at h <;> cases h
  intro hD
  have hg := derivable_wire_G hs hc x hD
  have hsecH := isSec_ctx0 hs
  -- the session is `hResI` or `hResR`: keyed from the honest ECDH secret
  have hkeys : ∃ a b c d e f, s.i2r = .part a (.kdf (.shared (min cfg.ephR cfg.ephI) (max cfg.ephR cfg.ephI)) b c) ∧
      s.r2i = .part d (.kdf (.shared (min cfg.ephR cfg.ephI) (max cfg.ephR cfg.ephI)) e f) ∧
      s.sharedSecret = .shared (min cfg.ephR cfg.ephI) (max cfg.ephR cfg.ephI) := by
    rcases h with h | h
    · rw [h] at h1
      have hi : hResI cfg = some (s, r) := by rcases h1 with e | e; cases e; exact e.symm
      cases hc3 : hC3 cfg with
      | none => unfold hResI at hi; rw [hc3] at hi; cases hi
      | some c3 =>
        obtain ⟨ctx, _, hcx, h30, _⟩ := c30_shape hs hc3
        obtain ⟨hsec, _⟩ := ctx0_shape hs hcx
        obtain ⟨_, hsec3, _, _⟩ := initiator_accepts_honest_sigma2 _ _ _ _ _ _ ctx _ _ c3 (hCtx_some.1 hcx) h30
        unfold hResI at hi; rw [hc3] at hi
        simp only [Option.bind_some, initFinish, Option.some.injEq, Prod.mk.injEq] at hi
        obtain ⟨hs', _⟩ := hi
        rw [← hs']
        exact ⟨_, _, _, _, _, _, by rw [hsec3, hsec]; rfl, by rw [hsec3, hsec]; rfl, by rw [hsec3, hsec]⟩
    · rw [h] at h2
      have hr : hResR cfg = some (s, r) := by rcases h2 with e | e; cases e; exact e.symm
      unfold hResR at hr
      cases hcx : hCtx cfg with
      | none => rw [hcx] at hr; cases hr
      | some ctx =>
        cases hc3 : hC3 cfg with
        | none => rw [hcx, hc3] at hr; cases hr
        | some c3 =>
          rw [hcx, hc3] at hr
          simp only at hr
          obtain ⟨hsec, _⟩ := ctx0_shape hs hcx
          obtain ⟨_, _, _, _, _, _, _, _, _, _, hi2r, hr2i, hss, _⟩ :=
            responder_session_implies_auth _ _ _ _ _ hr
          rw [hi2r, hr2i, hss]
          exact ⟨_, _, _, _, _, _, by rw [hsec]; rfl, by rw [hsec]; rfl, hsec⟩
  obtain ⟨a, b, c, d, e, f, e1, e2, e3⟩ := hkeys
  rcases hx with hx | hx | hx
  · rw [hx, e1] at hg; simp only [G] at hg; exact hg.1 hsecH
  · rw [hx, e2] at hg; simp only [G] at hg; exact hg.1 hsecH
  · rw [hx, e3] at hg; simp only [G] at hg; exact hg hsecH

/-! ## Resumed handshake -/

/-- a session up to the peer's session id: resumption authenticates (shared secret, initiator
random, resumption id) only — the session ids travel unauthenticated, as in the Matter
specification; a session with a wrong peer session id is unusable, not misbound -/
def modSid (s : Session) : Session := { s with peerSid := .none }

def Result.modSid : Result → Result := Option.map fun p => (C01.modSid p.1, p.2)

structure ResumeSetting (A : Attacker) (cfg : HsCfg) where
  rI : Nat
  sI : Nat
  rR : Nat
  idR : Nat
  sR : Nat
  ipk : Nat
  ridOld : Nat
  hrndI : cfg.rndI = .atom rI
  hsidI : cfg.sidI = .atom sI
  hrndR : cfg.rndR = .atom rR
  hridR : cfg.ridR = .atom idR
  hsidR : cfg.sidR = .atom sR
  hipk : cfg.fI.ipk = .atom ipk
  hephI : cfg.ephI ∈ A.H
  hephR : cfg.ephR ∈ A.H
  /-- the initiator holds a record for the peer … -/
  recI : ResRec
  hcached : cfg.init0.cached = some recI
  hrid : recI.rid = .atom ridOld
  /-- … whose shared secret (like those of the responder's records) the attacker does not know -/
  x : Nat
  y : Nat
  hsecI : recI.secret = .shared x y
  hx : x ∈ A.H
  hy : y ∈ A.H
  hcacheR : ∀ r ∈ cfg.cacheR, ∃ x y, r.secret = .shared x y ∧ x ∈ A.H ∧ y ∈ A.H
  /-- as in `FullSetting` (presentable chains only) -/
  hcert : ∀ c ic, A.C c → (∀ i ∈ ic, A.C i) → CaseValid cfg.t cfg.fI.view c ic →
    nodeIdOf c.subject = some cfg.peer → ¬ A.S c.pubKey
  /-- the responder resumes in the untouched run -/
  cx0 : RespResumeCtx
  hcx0 : respResume cfg.fabricsR cfg.cacheR cfg.init0.s1 cfg.ridR cfg.sidR = some cx0

def mic1 {A : Attacker} {cfg : HsCfg} (hs : ResumeSetting A cfg) : Term :=
  Term.mic (resumeKey hs.recI.secret cfg.rndI hs.recI.rid infoS1RK) nonceR1

theorem s1r_shape {A : Attacker} {cfg : HsCfg} (hs : ResumeSetting A cfg) :
    cfg.init0.s1 = .sigma1 cfg.rndI cfg.sidI
      (destId cfg.fI.ipk cfg.rndI cfg.fI.root.pubKey cfg.fI.fabricId cfg.peer) (.epk cfg.ephI)
      (some (hs.recI.rid, mic1 hs)) := by
  have h := hs.hcached
  simp only [HsCfg.init0, initSigma1] at h ⊢
  rw [h]; rfl

/-- the responder's `Sigma2_Resume` of the untouched run -/
theorem cx0_shape {A : Attacker} {cfg : HsCfg} (hs : ResumeSetting A cfg) :
    ∃ rec ∈ cfg.cacheR, rec.rid = hs.recI.rid ∧ rec.secret = hs.recI.secret ∧ hs.cx0.record = rec ∧
      hs.cx0.newRid = cfg.ridR ∧
      hs.cx0.s2r = .sigma2Resume cfg.ridR
        (Term.mic (resumeKey rec.secret cfg.rndI cfg.ridR infoS2RK) nonceR2) cfg.sidR := by
  obtain ⟨rec, hrec, iRnd, iSid, dest, iEph, hm, hr, hn, hs2r, _⟩ :=
    respResume_some _ _ _ _ _ hs.cx0 hs.hcx0
  rw [s1r_shape hs] at hm
  simp only [Msg.sigma1.injEq, Option.some.injEq, Prod.mk.injEq, mic1, Term.mic.injEq, resumeKey,
    Term.kdf.injEq, Term.pair.injEq] at hm
  obtain ⟨hrnd, _, _, _, hrid, ⟨hsec, _, _⟩, _⟩ := hm
  refine ⟨rec, hrec, hrid.symm, hsec.symm, hr, hn, ?_⟩
  rw [hs2r, ← hrnd]

/-- a responder context that differs from the untouched run's at most in the peer session id -/
def CxOK {A : Attacker} {cfg : HsCfg} (hs : ResumeSetting A cfg) (cx : RespResumeCtx) : Prop :=
  cx.s2r = hs.cx0.s2r ∧ cx.record = hs.cx0.record ∧ cx.newRid = hs.cx0.newRid ∧
    modSid cx.session = modSid hs.cx0.session

/-- `Resume1MIC` covers the initiator random and the resumption id only -/
theorem respResume_modSid (fabrics : List Fabric) (cache : List ResRec) (r s d e s' d' e' rid mic : Term)
    (nr sid : Term) (cx : RespResumeCtx)
    (h : respResume fabrics cache (.sigma1 r s d e (some (rid, mic))) nr sid = some cx) :
    ∃ cx', respResume fabrics cache (.sigma1 r s' d' e' (some (rid, mic))) nr sid = some cx' ∧
      cx'.s2r = cx.s2r ∧ cx'.record = cx.record ∧ cx'.newRid = cx.newRid ∧
      modSid cx'.session = modSid cx.session := by
  rw [respResume_eq] at h ⊢
  unfold respResumeSucc at h ⊢
  simp only at h ⊢
  split at h
  · cases h
  · rename_i rec hrec
    split at h
    · cases h
    · rename_i hmic
      split at h
      · cases h
      · rename_i f hf
        simp only [Option.some.injEq] at h
        subst h
        simp [hmic, modSid]

theorem clean_wire_G_resume {A : Attacker} {cfg : HsCfg} (hs : ResumeSetting A cfg) (wire : List Msg)
    (hw : ∀ w ∈ wire, w = cfg.init0.s1 ∨ w = .status false ∨ w = .status true ∨ w = hs.cx0.s2r) :
    ∀ w ∈ wire, G A.H A.S A.C (wireE wire) w.toTerm := by
  intro w hwm
  rcases hw w hwm with h | h | h | h
  · have hmem : w ∈ wire := hwm
    rw [h, s1r_shape hs] at hmem
    rw [h, s1r_shape hs, hs.hrndI, hs.hsidI, hs.hipk, hs.hrid]
    rw [hs.hrndI, hs.hsidI, hs.hipk, hs.hrid] at hmem
    simp only [Msg.toTerm, resumeTerm, destId, G, true_and, and_true]
    refine Or.inl ⟨?_, mem_wireE hmem (by simp [encOf, mic1])⟩
    simp only [resumeKey, hs.hsecI]
    exact isSecH_kdf hs.hx hs.hy _ _
  · rw [h]; simp [Msg.toTerm, G]
  · rw [h]; simp [Msg.toTerm, G]
  · obtain ⟨rec, hrec, _, _, _, _, hs2r⟩ := cx0_shape hs
    obtain ⟨x, y, hsec, hx, hy⟩ := hs.hcacheR rec hrec
    have hmem : w ∈ wire := hwm
    rw [h, hs2r] at hmem
    rw [h, hs2r, hs.hridR, hs.hsidR]
    rw [hs.hridR, hs.hsidR] at hmem
    simp only [Msg.toTerm, G, true_and, and_true]
    refine Or.inl ⟨?_, mem_wireE hmem (by simp [encOf])⟩
    simp only [resumeKey, hsec]
    exact isSecH_kdf hx hy _ _

def sameButSid (m m' : Msg) : Prop :=
  ∃ a b s s', m = .sigma2Resume a b s ∧ m' = .sigma2Resume a b s'

structure CleanRes {A : Attacker} {cfg : HsCfg} (hs : ResumeSetting A cfg) (i : IState) (r : RState)
    (wire : List Msg) : Prop where
  wire_ok : ∀ w ∈ wire, w = cfg.init0.s1 ∨ w = .status false ∨ w = .status true ∨ w = hs.cx0.s2r
  i_ok : i = .sent1 cfg.init0 ∨ i = .done none ∨
    ∃ m' p, sameButSid m' hs.cx0.s2r ∧ initSigma2Resume cfg.init0 m' = some p ∧ i = .done (some p)
  r_ok : r = .idle ∨ (∃ cx, CxOK hs cx ∧ r = .sent2r cx) ∨ r = .done none ∨
    ∃ cx, CxOK hs cx ∧ r = .done (respResumeFinish cx (.status true))
  idle : r = .idle → (∀ w ∈ wire, w = cfg.init0.s1 ∨ w = .status false) ∧
    (i = .sent1 cfg.init0 ∨ i = .done none)

theorem respResumeFinish_cases (cx : RespResumeCtx) (m : Msg) :
    respResumeFinish cx m = none ∨ respResumeFinish cx m = respResumeFinish cx (.status true) := by
  unfold respResumeFinish
  split
  · right; rfl
  · left; rfl

theorem cleanRes_resp {A : Attacker} {cfg : HsCfg} (hs : ResumeSetting A cfg) {i : IState} {r : RState}
    {wire : List Msg} (hc : CleanRes hs i r wire) (m : Msg)
    (hg : G A.H A.S A.C (wireE wire) m.toTerm) :
    CleanRes hs i (stepResp cfg r m).1 (wire ++ (stepResp cfg r m).2) ∨
      (m ∉ wire ∧ DevS1 cfg i (stepResp cfg r m).1 (wire ++ (stepResp cfg r m).2)) := by
  rcases hc.r_ok with hr | ⟨cx, hcx, hr⟩ | hr | ⟨cx, hcx, hr⟩
  · obtain ⟨hwi, hii⟩ := hc.idle hr
    -- the responder cannot abort after `Sigma2_Resume`: the only `Resume1MIC` it accepts here is the
    -- initiator's, which selects the record of the untouched run, whose fabric is in the table
    have hnab : ∀ s2r, respResumeStep cfg.fabricsR cfg.cacheR m cfg.ridR cfg.sidR ≠ .aborted s2r := by
      intro s2r hab
      have hne : respResumeStep cfg.fabricsR cfg.cacheR m cfg.ridR cfg.sidR ≠ .fallThrough := by
        rw [hab]; intro h; cases h
      obtain ⟨rec, iRnd, iSid, dest, iEph, hfind, hm, hmem, hcase⟩ :=
        respResumeStep_G _ _ _ _ _ hs.hcacheR hne hg
      have hfn : cfg.fabricsR.find? (fun f => f.idx == rec.fabIdx) = none := by
        rcases hcase with ⟨fb, cx, _, hs'⟩ | ⟨h, _⟩
        · rw [hab] at hs'; cases hs'
        · exact h
      obtain ⟨w, hww, hwe⟩ := List.mem_flatMap.1 hmem
      have hmic : Term.mic (resumeKey rec.secret iRnd rec.rid infoS1RK) nonceR1 = mic1 hs := by
        rcases hwi w hww with h | h
        · rw [h, s1r_shape hs] at hwe; simpa [encOf] using hwe
        · rw [h] at hwe; simp [encOf] at hwe
      simp only [mic1, Term.mic.injEq, resumeKey, Term.kdf.injEq, Term.pair.injEq] at hmic
      obtain ⟨⟨_, ⟨_, hrid⟩, _⟩, _⟩ := hmic
      -- the untouched Sigma1 selects a record with the same id, whose fabric exists
      have h0 : respResumeStep cfg.fabricsR cfg.cacheR cfg.init0.s1 cfg.ridR cfg.sidR ≠ .fallThrough := by
        rw [(respResumeStep_sent_iff _ _ _ _ _ _).2 hs.hcx0]; intro h; cases h
      obtain ⟨rec0, iRnd0, iSid0, dest0, iEph0, hfind0, hm0, hcase0⟩ := respResumeStep_accepts _ _ _ _ _ h0
      rw [s1r_shape hs] at hm0
      simp only [Msg.sigma1.injEq, Option.some.injEq, Prod.mk.injEq] at hm0
      have hrid0 : hs.recI.rid = rec0.rid := hm0.2.2.2.2.1
      rw [hrid, hrid0, hfind0] at hfind
      cases hfind
      rcases hcase0 with ⟨fb, _, hfb, _⟩ | ⟨_, hab0⟩
      · rw [hfn] at hfb; cases hfb
      · rw [(respResumeStep_sent_iff _ _ _ _ _ _).2 hs.hcx0] at hab0; cases hab0
    cases hrr : respResume cfg.fabricsR cfg.cacheR m cfg.ridR cfg.sidR with
    | some cx =>
      have hstep : stepResp cfg r m = (.sent2r cx, [cx.s2r]) := by
        rw [hr]; simp [stepResp, (respResumeStep_sent_iff _ _ _ _ _ _).2 hrr]
      rw [hstep]
      left
      -- the MIC it accepted is the one of the initiator's Sigma1
      obtain ⟨rec, _, iRnd, iSid, dest, iEph, hm, hmem⟩ := respResume_G _ _ _ _ _ cx hs.hcacheR hrr hg
      obtain ⟨w, hww, hwe⟩ := List.mem_flatMap.1 hmem
      have hmic : Term.mic (resumeKey rec.secret iRnd rec.rid infoS1RK) nonceR1 = mic1 hs := by
        rcases hwi w hww with h | h
        · rw [h, s1r_shape hs] at hwe; simpa [encOf] using hwe
        · rw [h] at hwe; simp [encOf] at hwe
      have hmic' := hmic
      simp only [mic1, Term.mic.injEq, resumeKey, Term.kdf.injEq, Term.pair.injEq] at hmic'
      obtain ⟨⟨_, ⟨hrnd, hrid⟩, _⟩, _⟩ := hmic'
      rw [hmic, hrnd, hrid] at hm
      have h0 := hs.hcx0
      rw [s1r_shape hs] at h0
      obtain ⟨cx', hcx', e1, e2, e3, e4⟩ :=
        respResume_modSid _ _ _ _ _ _ iSid dest iEph _ _ _ _ _ h0
      rw [← hm, hrr] at hcx'
      cases hcx'
      have hok : CxOK hs cx := ⟨e1, e2, e3, e4⟩
      refine ⟨?_, hc.i_ok, Or.inr (Or.inl ⟨cx, hok, rfl⟩), ?_⟩
      · intro w hw
        rcases List.mem_append.1 hw with h | h
        · exact hc.wire_ok w h
        · simp only [List.mem_cons, List.not_mem_nil, or_false] at h
          rw [h, e1]; exact Or.inr (Or.inr (Or.inr rfl))
      · intro h; cases h
    | none =>
      have hft : respResumeStep cfg.fabricsR cfg.cacheR m cfg.ridR cfg.sidR = .fallThrough := by
        cases hst : respResumeStep cfg.fabricsR cfg.cacheR m cfg.ridR cfg.sidR with
        | fallThrough => rfl
        | sent cx => rw [(respResumeStep_sent_iff _ _ _ _ _ _).1 hst] at hrr; cases hrr
        | aborted s2r => exact absurd hst (hnab s2r)
      cases hr1 : respSigma1 cfg.fabricsR m cfg.ephR cfg.rndR cfg.ridR cfg.sidR with
      | sent ctx =>
        have hstep : stepResp cfg r m = (.sent2 ctx, [ctx.s2]) := by rw [hr]; simp [stepResp, hft, hr1]
        rw [hstep]
        right
        have hm : m ≠ cfg.init0.s1 := by
          intro h; rw [h, hs.hcx0] at hrr; cases hrr
        refine ⟨?_, m, ctx, hm, hr1, Or.inl rfl, hii, ?_⟩
        · intro hw
          rcases hwi m hw with h | h
          · exact hm h
          · rw [h] at hr1; simp [respSigma1] at hr1
        · intro w hw
          rcases List.mem_append.1 hw with h | h
          · rcases hwi w h with h' | h'
            · exact Or.inl h'
            · exact Or.inr (Or.inr h')
          · simp only [List.mem_cons, List.not_mem_nil, or_false] at h
            exact Or.inr (Or.inl h)
      | refused =>
        have hstep : stepResp cfg r m = (.done none, [.status false]) := by
          rw [hr]; simp [stepResp, hft, hr1]
        rw [hstep]
        left
        refine ⟨?_, hc.i_ok, Or.inr (Or.inr (Or.inl rfl)), ?_⟩
        · intro w hw
          rcases List.mem_append.1 hw with h | h
          · exact hc.wire_ok w h
          · simp only [List.mem_cons, List.not_mem_nil, or_false] at h
            exact Or.inr (Or.inl h)
        · intro h; cases h
  · have hstep : stepResp cfg r m = (.done (respResumeFinish cx m), []) := by rw [hr]; simp [stepResp]
    rw [hstep, List.append_nil]
    left
    refine ⟨hc.wire_ok, hc.i_ok, ?_, ?_⟩
    · rcases respResumeFinish_cases cx m with h | h
      · rw [h]; exact Or.inr (Or.inr (Or.inl rfl))
      · rw [h]; exact Or.inr (Or.inr (Or.inr ⟨cx, hcx, rfl⟩))
    · intro h; cases h
  · left
    have hstep : stepResp cfg r m = (r, []) := by rw [hr]; simp [stepResp]
    rw [hstep, List.append_nil]; exact hc
  · left
    have hstep : stepResp cfg r m = (r, []) := by rw [hr]; simp [stepResp]
    rw [hstep, List.append_nil]; exact hc

theorem cleanRes_init {A : Attacker} {cfg : HsCfg} (hs : ResumeSetting A cfg) {i : IState} {r : RState}
    {wire : List Msg} (hc : CleanRes hs i r wire) (m : Msg)
    (hg : G A.H A.S A.C (wireE wire) m.toTerm) :
    CleanRes hs (stepInit cfg i m).1 r (wire ++ (stepInit cfg i m).2) := by
  obtain ⟨rec0, hrec0, _, hsec0, _, _, hs2r⟩ := cx0_shape hs
  rcases hc.i_ok with hi | hi | ⟨m', p, hsame, hp, hi⟩
  · cases hrr : initSigma2Resume cfg.init0 m with
    | some p =>
      have hstep : stepInit cfg i m = (.done (some p), [.status true]) := by
        rw [hi]; simp [stepInit, hrr]
      rw [hstep]
      have hcc : ∀ r, cfg.init0.cached = some r → ∃ x y, r.secret = .shared x y ∧ x ∈ A.H ∧ y ∈ A.H := by
        intro r hr
        rw [hs.hcached] at hr; cases hr
        exact ⟨hs.x, hs.y, hs.hsecI, hs.hx, hs.hy⟩
      obtain ⟨rec, newRid, rSid, hcd, hm, hmem⟩ := initSigma2Resume_G cfg.init0 m p hcc hrr hg
      rw [hs.hcached] at hcd; cases hcd
      obtain ⟨w, hww, hwe⟩ := List.mem_flatMap.1 hmem
      have hsb : sameButSid m hs.cx0.s2r := by
        rcases hc.wire_ok w hww with h | h | h | h
        · rw [h, s1r_shape hs] at hwe
          simp [encOf, mic1, nonceR1, nonceR2] at hwe
        · rw [h] at hwe; simp [encOf] at hwe
        · rw [h] at hwe; simp [encOf] at hwe
        · rw [h, hs2r] at hwe
          simp only [encOf, List.mem_cons, List.not_mem_nil, or_false] at hwe
          have hwe' := hwe
          simp only [Term.mic.injEq, resumeKey, Term.kdf.injEq, Term.pair.injEq] at hwe'
          obtain ⟨⟨_, ⟨_, hnr⟩, _⟩, _⟩ := hwe'
          refine ⟨_, _, rSid, cfg.sidR, ?_, hs2r⟩
          rw [hm, hwe, hnr]
      have hnotidle : r ≠ .idle := by
        intro hr
        obtain ⟨a, b, s, s', h1, h2⟩ := hsb
        rcases hc.wire_ok w hww with h | h | h | h
        · rw [h, s1r_shape hs] at hwe; simp [encOf, mic1, nonceR1, nonceR2] at hwe
        · rw [h] at hwe; simp [encOf] at hwe
        · rw [h] at hwe; simp [encOf] at hwe
        · rcases (hc.idle hr).1 w hww with h' | h'
          · rw [h, h2, s1r_shape hs] at h'; cases h'
          · rw [h, h2] at h'; cases h'
      refine ⟨?_, Or.inr (Or.inr ⟨m, p, hsb, hrr, rfl⟩), hc.r_ok, fun hr => absurd hr hnotidle⟩
      intro w hw
      rcases List.mem_append.1 hw with h | h
      · exact hc.wire_ok w h
      · simp only [List.mem_cons, List.not_mem_nil, or_false] at h
        exact Or.inr (Or.inr (Or.inl h))
    | none =>
      have h2 : initSigma2 cfg.t cfg.init0 m = none := by
        cases h2 : initSigma2 cfg.t cfg.init0 m with
        | none => rfl
        | some c3 =>
          exfalso
          obtain ⟨_, _, _, _, _, hmem⟩ := initSigma2_G cfg.t cfg.init0 m c3 hs.hcert h2 hg
          obtain ⟨w, hww, hwe⟩ := List.mem_flatMap.1 hmem
          rcases hc.wire_ok w hww with h | h | h | h
          · rw [h, s1r_shape hs] at hwe; simp [encOf, mic1] at hwe
          · rw [h] at hwe; simp [encOf] at hwe
          · rw [h] at hwe; simp [encOf] at hwe
          · rw [h, hs2r] at hwe; simp [encOf] at hwe
      have hstep : stepInit cfg i m = (.done none, [.status false]) := by
        rw [hi]; simp [stepInit, hrr, h2]
      rw [hstep]
      refine ⟨?_, Or.inr (Or.inl rfl), hc.r_ok, ?_⟩
      · intro w hw
        rcases List.mem_append.1 hw with h | h
        · exact hc.wire_ok w h
        · simp only [List.mem_cons, List.not_mem_nil, or_false] at h
          exact Or.inr (Or.inl h)
      · intro hr
        refine ⟨?_, Or.inr rfl⟩
        intro w hw
        rcases List.mem_append.1 hw with h | h
        · exact (hc.idle hr).1 w h
        · simp only [List.mem_cons, List.not_mem_nil, or_false] at h
          exact Or.inr h
  · have hstep : stepInit cfg i m = (i, []) := by rw [hi]; simp [stepInit]
    rw [hstep, List.append_nil]; exact hc
  · have hstep : stepInit cfg i m = (i, []) := by rw [hi]; simp [stepInit]
    rw [hstep, List.append_nil]; exact hc

def InvRes {A : Attacker} {cfg : HsCfg} (hs : ResumeSetting A cfg) (n : Net) (k : Nat) : Prop :=
  CleanRes hs n.i n.r n.wire ∨ (k = 0 ∧ DevS1 cfg n.i n.r n.wire)

theorem invRes_step {A : Attacker} {cfg : HsCfg} (hs : ResumeSetting A cfg) (n : Net) (k : Nat)
    (op : NetOp) (hinv : InvRes hs n k) :
    (op.msg ∈ n.wire → InvRes hs (n.step cfg op) k) ∧
    (Forgeable A cfg n op.msg → k = 1 → InvRes hs (n.step cfg op) 0) := by
  rcases hinv with hc | ⟨hk, hd⟩
  · have hG : ∀ m, Forgeable A cfg n m → G A.H A.S A.C (wireE n.wire) m.toTerm :=
      fun m hf => forgeable_G A cfg n hs.ipk hs.hipk (clean_wire_G_resume hs n.wire hc.wire_ok) m hf
    have key : ∀ m, Forgeable A cfg n m →
        (m ∈ n.wire → ∀ op, op.msg = m → CleanRes hs (n.step cfg op).i (n.step cfg op).r (n.step cfg op).wire) ∧
        (∀ op, op.msg = m → InvRes hs (n.step cfg op) 0) := by
      intro m hf
      have hg := hG m hf
      have hR := cleanRes_resp hs hc m hg
      have hI := cleanRes_init hs hc m hg
      refine ⟨?_, ?_⟩
      · intro hw op hop
        cases op with
        | toResp m' =>
          cases hop
          rcases step_toResp cfg n m' with h | ⟨h1, h2, h3⟩
          · rw [h]; exact hc
          · rw [h1, h2, h3]
            rcases hR with h | h
            · exact h
            · exact absurd hw h.1
        | toInit m' =>
          cases hop
          rcases step_toInit cfg n m' with h | ⟨h1, h2, h3⟩
          · rw [h]; exact hc
          · rw [h1, h2, h3]; exact hI
      · intro op hop
        cases op with
        | toResp m' =>
          cases hop
          rcases step_toResp cfg n m' with h | ⟨h1, h2, h3⟩
          · rw [h]; exact Or.inl hc
          · unfold InvRes
            rw [h1, h2, h3]
            rcases hR with h | h
            · exact Or.inl h
            · exact Or.inr ⟨rfl, h.2⟩
        | toInit m' =>
          cases hop
          rcases step_toInit cfg n m' with h | ⟨h1, h2, h3⟩
          · rw [h]; exact Or.inl hc
          · unfold InvRes
            rw [h1, h2, h3]; exact Or.inl hI
    refine ⟨?_, ?_⟩
    · intro hw
      exact Or.inl ((key op.msg (relay_forgeable A cfg n _ hw)).1 hw op rfl)
    · intro hf _
      exact (key op.msg hf).2 op rfl
  · refine ⟨?_, ?_⟩
    · intro hw
      subst hk
      cases op with
      | toResp m =>
        rcases step_toResp cfg n m with h | ⟨h1, h2, h3⟩
        · rw [h]; exact Or.inr ⟨rfl, hd⟩
        · unfold InvRes
          rw [h1, h2, h3]
          exact Or.inr ⟨rfl, devS1_resp hd m hw⟩
      | toInit m =>
        rcases step_toInit cfg n m with h | ⟨h1, h2, h3⟩
        · rw [h]; exact Or.inr ⟨rfl, hd⟩
        · unfold InvRes
          rw [h1, h2, h3]
          exact Or.inr ⟨rfl, devS1_init hd m hw⟩
    · intro _ hk1; rw [hk] at hk1; cases hk1

/-- the results of the untouched resumed run -/
def hResIr {A : Attacker} {cfg : HsCfg} (hs : ResumeSetting A cfg) : Result :=
  initSigma2Resume cfg.init0 hs.cx0.s2r

def hResRr {A : Attacker} {cfg : HsCfg} (hs : ResumeSetting A cfg) : Result :=
  respResumeFinish hs.cx0 (.status true)

/-- (against the defined terms; `OutcomeRes` below is the statement against the run function) -/
def OutcomeRes0 {A : Attacker} {cfg : HsCfg} (hs : ResumeSetting A cfg) (n : Net) : Prop :=
  (n.i.result = none ∨ Result.modSid n.i.result = Result.modSid (hResIr hs)) ∧
  (n.r.result = none ∨ Result.modSid n.r.result = Result.modSid (hResRr hs))

theorem initResume_modSid (c : InitCtx) (a b s s' : Term) (p : Session × ResRec)
    (h : initSigma2Resume c (.sigma2Resume a b s) = some p) :
    Result.modSid (initSigma2Resume c (.sigma2Resume a b s')) = Result.modSid (some p) := by
  unfold initSigma2Resume at h ⊢
  cases hc : c.cached with
  | none => rw [hc] at h; simp at h
  | some r =>
    rw [hc] at h
    simp only at h ⊢
    split at h
    · cases h
    · rename_i hmic
      simp only [Option.some.injEq] at h
      subst h
      simp [hmic, Result.modSid, modSid]

theorem invRes_outcome {A : Attacker} {cfg : HsCfg} (hs : ResumeSetting A cfg) {n : Net} {k : Nat}
    (h : InvRes hs n k) : OutcomeRes0 hs n := by
  rcases h with hc | ⟨_, hd⟩
  · constructor
    · rcases hc.i_ok with h | h | ⟨m', p, ⟨a, b, s, s', h1, h2⟩, hp, h⟩
      · rw [h]; left; rfl
      · rw [h]; left; rfl
      · rw [h]; right
        show Result.modSid (some p) = _
        unfold hResIr
        rw [h2]
        rw [h1] at hp
        exact (initResume_modSid _ _ _ _ _ _ hp).symm
    · rcases hc.r_ok with h | ⟨_, _, h⟩ | h | ⟨cx, ⟨_, e2, e3, e4⟩, h⟩
      · rw [h]; left; rfl
      · rw [h]; left; rfl
      · rw [h]; left; rfl
      · rw [h]; right
        simp [RState.result, hResRr, respResumeFinish, Result.modSid, e2, e3, e4]
  · obtain ⟨_, _, _, _, hr, hi, _⟩ := hd
    constructor
    · rcases hi with h | h <;> rw [h] <;> simp [IState.result]
    · rcases hr with h | h <;> rw [h] <;> simp [RState.result]

theorem invRes_run {A : Attacker} {cfg : HsCfg} (hs : ResumeSetting A cfg) :
    ∀ (n : Net) (k : Nat) (ops : List NetOp), Sched A cfg n k ops → k ≤ 1 → InvRes hs n k →
      OutcomeRes0 hs (n.run cfg ops) := by
  intro n k ops hsched
  induction hsched with
  | nil n k => intro _ hinv; exact invRes_outcome hs hinv
  | relay n k op ops hw _ ih =>
    intro hk hinv
    exact ih hk ((invRes_step hs n k op hinv).1 hw)
  | forge n k op ops hf _ ih =>
    intro hk hinv
    have hk0 : k = 0 := by omega
    subst hk0
    exact ih (by omega) ((invRes_step hs n 1 op hinv).2 hf rfl)

theorem net_resume_inv0 {A : Attacker} {cfg : HsCfg} (hs : ResumeSetting A cfg)
    (ops : List NetOp) (hsched : Sched A cfg (Net.start cfg) 1 ops) :
    OutcomeRes0 hs ((Net.start cfg).run cfg ops) := by
  apply invRes_run hs _ 1 ops hsched (Nat.le_refl 1)
  left
  refine ⟨?_, Or.inl rfl, Or.inl rfl, ?_⟩
  · intro w hw
    simp only [Net.start, List.mem_cons, List.not_mem_nil, or_false] at hw
    exact Or.inl hw
  · intro _
    refine ⟨?_, Or.inl rfl⟩
    intro w hw
    simp only [Net.start, List.mem_cons, List.not_mem_nil, or_false] at hw
    exact Or.inl hw

/-- **the untouched resumed run, in general**: in every configuration of `ResumeSetting` the run
function on the in-order schedule completes on both ends, with `hResIr` / `hResRr` -/
theorem honest_run_resume {A : Attacker} {cfg : HsCfg} (hs : ResumeSetting A cfg) :
    refI cfg = hResIr hs ∧ refR cfg = hResRr hs ∧ (hResIr hs).isSome = true ∧
      (hResRr hs).isSome = true := by
  have hs1 := s1r_shape hs
  obtain ⟨rec, _, _, hsec, _, _, hs2r⟩ := cx0_shape hs
  have hne : ∀ b, Msg.status b ≠ cfg.init0.s1 := by intro b; rw [hs1]; simp
  have hne2 : ∀ b, Msg.status b ≠ hs.cx0.s2r := by intro b; rw [hs2r]; simp
  have hI : (initSigma2Resume cfg.init0 hs.cx0.s2r).isSome = true := by
    rw [hs2r]
    unfold initSigma2Resume
    rw [hs.hcached]
    simp only [hsec, (init0_fields cfg).2.2.2]
    simp
  have hstep := (respResumeStep_sent_iff _ _ _ _ _ _).2 hs.hcx0
  unfold refI refR hResIr hResRr
  cases hp : initSigma2Resume cfg.init0 hs.cx0.s2r with
  | none => rw [hp] at hI; cases hI
  | some p =>
    simp [honestOps, Net.run, Net.step, Net.start, stepResp, stepInit, hstep, hp,
      IState.result, RState.result, hne, hne2, respResumeFinish]

/-- each end: no session, or the session of the untouched run — `Net.run` on `honestOps` — up to
the unauthenticated peer session id, with the same rotated cache record -/
def OutcomeRes (cfg : HsCfg) (n : Net) : Prop :=
  (n.i.result = none ∨ Result.modSid n.i.result = Result.modSid (refI cfg)) ∧
  (n.r.result = none ∨ Result.modSid n.r.result = Result.modSid (refR cfg))

/-- **C01, network form (resumed handshake)**: the same statement for a handshake in which the
initiator offers resumption and the responder accepts it — every schedule, at most one message
of the attacker's own making (which covers every mutation of the resumption id, either MIC, any
other field of Sigma1 / Sigma2_Resume, and the final status report; NOT covered: MICs of EARLIER
handshakes under the same long-lived resumption secret, which are not derivable from this exchange's
wire — `Forgeable`): each end finishes with no session or the session of the untouched run
(which always completes on both ends here, `honest_run_resume`) — identity (fabric, node id, CATs)
and keys taken from the cached record whose shared secret made the MIC — up to the peer session
id, and the same rotated cache record.  No half-open case: the initiator completes on the
authenticated `Sigma2_Resume`, the responder on the (unauthenticated) success report, and a forged
success report gives the responder exactly its session of the untouched run. -/
theorem net_single_mutation_resume {A : Attacker} {cfg : HsCfg} (hs : ResumeSetting A cfg)
    (ops : List NetOp) (hsched : Sched A cfg (Net.start cfg) 1 ops) :
    OutcomeRes cfg ((Net.start cfg).run cfg ops) := by
  obtain ⟨h1, h2⟩ := net_resume_inv0 hs ops hsched
  obtain ⟨eI, eR, _, _⟩ := honest_run_resume hs
  exact ⟨by rw [eI]; exact h1, by rw [eR]; exact h2⟩

/-- … and whenever both hold a session, the same directional keys and the same new resumption id -/
theorem net_resume_keys_agree {A : Attacker} {cfg : HsCfg} (hs : ResumeSetting A cfg)
    (ops : List NetOp) (hsched : Sched A cfg (Net.start cfg) 1 ops) (sI sR : Session) (rI rR : ResRec)
    (hI : ((Net.start cfg).run cfg ops).i.result = some (sI, rI))
    (hR : ((Net.start cfg).run cfg ops).r.result = some (sR, rR)) :
    sR.i2r = sI.i2r ∧ sR.r2i = sI.r2i ∧ rR.rid = rI.rid := by
  obtain ⟨h1, h2⟩ := net_resume_inv0 hs ops hsched
  rw [hI] at h1; rw [hR] at h2
  have hi : Result.modSid (some (sI, rI)) = Result.modSid (hResIr hs) := by
    rcases h1 with h | h; cases h; exact h
  have hr : Result.modSid (some (sR, rR)) = Result.modSid (hResRr hs) := by
    rcases h2 with h | h; cases h; exact h
  unfold hResIr at hi
  unfold hResRr at hr
  cases hi0 : initSigma2Resume cfg.init0 hs.cx0.s2r with
  | none => rw [hi0] at hi; simp [Result.modSid] at hi
  | some pI =>
    obtain ⟨sI0, rI0⟩ := pI
    have hr0 : respResumeFinish hs.cx0 (.status true) =
        some (hs.cx0.session, { hs.cx0.record with rid := hs.cx0.newRid }) := rfl
    have hagree := resume_keys_agree cfg.fI cfg.cacheI cfg.cacheR cfg.peer cfg.ephI cfg.rndI cfg.sidI
      cfg.fabricsR cfg.ridR cfg.sidR hs.cx0 _ sI0 _ rI0 hs.hcx0 hr0 hi0
    rw [hi0] at hi
    rw [hr0] at hr
    simp only [Result.modSid, Option.map_some, Option.some.injEq, Prod.mk.injEq, modSid] at hi hr
    obtain ⟨hi1, hi2⟩ := hi
    obtain ⟨hr1, hr2⟩ := hr
    simp only [Session.mk.injEq] at hi1 hr1
    have e1 : sI.i2r = sI0.i2r := hi1.2.2.2.2.1
    have e2 : sI.r2i = sI0.r2i := hi1.2.2.2.2.2.1
    have e3 : sR.i2r = hs.cx0.session.i2r := hr1.2.2.2.2.1
    have e4 : sR.r2i = hs.cx0.session.r2i := hr1.2.2.2.2.2.1
    rw [e1, e2, e3, e4, hi2, hr2]
    exact hagree

/-- **C01, tamper clause, as one statement**: in either setting (full or resumed handshake), for
every schedule with at most one attacker-made message, each end ends with no session or the
session of the untouched run = `Net.run` on the in-order schedule (for a resumed handshake: up to the
unauthenticated peer session id; for a full handshake whose untouched run fails at the responder:
or, initiator only, the half-open session `HalfOpen`), and whenever both ends hold a session they
hold the same directional keys. -/
theorem C01_network {A : Attacker} {cfg : HsCfg} (hs : FullSetting A cfg ⊕' ResumeSetting A cfg)
    (ops : List NetOp) (hsched : Sched A cfg (Net.start cfg) 1 ops) :
    (match hs with
      | .inl _ => OutcomeFull cfg ((Net.start cfg).run cfg ops) ∧
          ((refR cfg).isSome = true → OutcomeStrict cfg ((Net.start cfg).run cfg ops))
      | .inr _ => OutcomeRes cfg ((Net.start cfg).run cfg ops)) ∧
    ∀ sI sR rI rR, ((Net.start cfg).run cfg ops).i.result = some (sI, rI) →
      ((Net.start cfg).run cfg ops).r.result = some (sR, rR) → sR.i2r = sI.i2r ∧ sR.r2i = sI.r2i := by
  cases hs with
  | inl h =>
    refine ⟨⟨net_single_mutation_full h ops hsched,
      fun hok => net_single_mutation_full_strict h hok ops hsched⟩, ?_⟩
    intro sI sR rI rR hI hR
    have := net_full_keys_agree h ops hsched sI sR rI rR hI hR
    exact ⟨this.1, this.2.1⟩
  | inr h =>
    refine ⟨net_single_mutation_resume h ops hsched, ?_⟩
    intro sI sR rI rR hI hR
    have := net_resume_keys_agree h ops hsched sI sR rI rR hI hR
    exact ⟨this.1, this.2.1⟩

/-! ## Non-vacuity of the network theorems -/

def exCfg : HsCfg :=
  { t := C19.exT, fabricsR := [devFabric], cacheR := [], fI := ctlFabric, cacheI := [], peer := 200,
    ephI := 11, ephR := 12, rndI := .atom 501, sidI := .atom 601, rndR := .atom 502,
    ridR := .atom 702, sidR := .atom 602 }

/-- knows neither ephemeral secret; an insider of the fabric (genuine NOC `insiderNoc` for node 300
on its key 66), signs with key 66, presents every honest certificate and EVERY record of its own
making (self-issued NOCs for the addressed node id, self-issued intermediates, …): `exS`, `exC` of
`Props/C01.lean` -/
def exAttacker : Attacker := { H := [11, 12], S := exS, C := exC }

def exFullSetting : FullSetting exAttacker exCfg :=
  { rI := 501, sI := 601, rR := 502, idR := 702, sR := 602, ipk := 77,
    hrndI := rfl, hsidI := rfl, hrndR := rfl, hridR := rfl, hsidR := rfl, hipk := rfl,
    hephI := by decide, hephR := by decide, hcacheR := (by intro r hr; cases hr),
    hfull := rfl,
    hcert := exHcert }

/-- the untouched run (`Net.run` on `honestOps`) completes on both ends … -/
example : (refI exCfg).isSome = true ∧ (refR exCfg).isSome = true := by decide
/-- … so here the tamper clause holds as the property states it, for every schedule -/
example (ops : List NetOp) (h : Sched exAttacker exCfg (Net.start exCfg) 1 ops) :
    OutcomeStrict exCfg ((Net.start exCfg).run exCfg ops) :=
  net_single_mutation_full_strict exFullSetting (by decide) ops h
/-- … and the in-order schedule is admissible without any forgery -/
example : Sched exAttacker exCfg (Net.start exCfg) 0 (honestOps exCfg) :=
  .relay _ _ _ _ (by decide) (.relay _ _ _ _ (by decide) (.relay _ _ _ _ (by decide)
    (.relay _ _ _ _ (by decide) (.nil _ _))))

/-- duplicated and reordered deliveries are admissible and harmless (de-duplication) -/
example :
    let s1 := exCfg.init0.s1
    let s2 := exResp.s2
    ((Net.start exCfg).run exCfg [.toResp s1, .toResp s1, .toInit s1, .toInit s2]).i.result = none := by
  decide

/-- a forged first message (truncated Sigma1 = junk) is an admissible single mutation; nobody
ends with a session -/
example : Sched exAttacker exCfg (Net.start exCfg) 1 [.toResp (.junk 5), .toInit (.status false)] :=
  .forge _ _ _ _ (.pair (.atom _) (.atom _)) (.relay _ _ _ _ (by decide) (.nil _ _))
example : ((Net.start exCfg).run exCfg [.toResp (.junk 5), .toInit (.status false)]).r.result = none ∧
    ((Net.start exCfg).run exCfg [.toResp (.junk 5), .toInit (.status false)]).i.result = none := by
  decide

/-- the attacker USES its certificates: a Sigma2 of its own making, under its own ephemeral secret 99,
carrying the self-issued chain `selfNoc ← selfIcac` for the addressed node id and a signature with
its key 66, handed to the initiator instead of the responder's — an admissible single forgery
(derivation spelled out); the initiator refuses it -/
def selfSigma2 : Msg :=
  .sigma2 (.atom 1) (.atom 2) (.epk 99)
    (.enc (s2k (ecdh 99 (.epk 11)) (.atom 77) (.atom 1) (.epk 99) exCfg.init0.s1) nonceS2
      (tbe2 selfNoc (some selfIcac) (Term.sign 66 (tbs selfNoc (some selfIcac) (.epk 99) (.epk 11))) (.atom 3)))

example : Sched exAttacker exCfg (Net.start exCfg) 1 [.toResp exCfg.init0.s1, .toInit selfSigma2] := by
  refine .relay _ _ _ _ (by decide) (.forge _ _ _ _ ?_ (.nil _ _))
  have hk : Derivable exAttacker.H exAttacker.S exAttacker.C
      ((((Net.start exCfg).step exCfg (.toResp exCfg.init0.s1)).wire.map Msg.toTerm) ++ [exCfg.fI.ipk])
      exCfg.init0.s1.toTerm := .known (by decide)
  have hn : Derivable exAttacker.H exAttacker.S exAttacker.C
      ((((Net.start exCfg).step exCfg (.toResp exCfg.init0.s1)).wire.map Msg.toTerm) ++ [exCfg.fI.ipk])
      (.cert selfNoc) := .cert (Or.inr (by intro k h; cases h; rfl))
  have hi : Derivable exAttacker.H exAttacker.S exAttacker.C
      ((((Net.start exCfg).step exCfg (.toResp exCfg.init0.s1)).wire.map Msg.toTerm) ++ [exCfg.fI.ipk])
      (.cert selfIcac) := .cert (Or.inr (by intro k h; cases h; rfl))
  show Derivable _ _ _ _ selfSigma2.toTerm
  unfold selfSigma2 Msg.toTerm
  refine .pair (.atom _) (.pair (.atom _) (.pair (.atom _) (.pair (.epk _) (.enc ?_ (.atom _) ?_))))
  · exact .kdf (.ownEcdh (by decide) (.epk 11))
      (.pair (.atom _) (.pair (.atom _) (.pair (.epk _) (.hash hk)))) (.atom _)
  · exact .pair hn (.pair hi (.pair (.sign rfl (.pair hn (.pair hi (.pair (.epk _) (.epk _))))) (.atom _)))
example : ((Net.start exCfg).run exCfg [.toResp exCfg.init0.s1, .toInit selfSigma2]).i.result = none := by
  decide

/-- the theorem applied -/
example : OutcomeFull exCfg ((Net.start exCfg).run exCfg (honestOps exCfg)) :=
  net_single_mutation_full exFullSetting _
    (.relay _ _ _ _ (by decide) (.relay _ _ _ _ (by decide) (.relay _ _ _ _ (by decide)
      (.relay _ _ _ _ (by decide) (.nil _ _)))))

/-! ### the half-open initiator session is real: the exception in `OutcomeFull` is necessary

The controller's own chain lacks its intermediate, so the responder refuses Sigma3 in the untouched
run; the attacker relays Sigma1 and Sigma2, swallows Sigma3 (or lets it through — the responder
refuses it either way) and forges the success report. -/

def cfgBad : HsCfg := { exCfg with fI := { ctlFabric with icac := none } }

def badSetting : FullSetting exAttacker cfgBad :=
  { rI := 501, sI := 601, rR := 502, idR := 702, sR := 602, ipk := 77,
    hrndI := rfl, hsidI := rfl, hrndR := rfl, hridR := rfl, hsidR := rfl, hipk := rfl,
    hephI := by decide, hephR := by decide, hcacheR := (by intro r hr; cases hr),
    hfull := rfl, hcert := exHcert }

def s2bad : Msg := ((hCtx cfgBad).map (·.s2)).getD (.junk 0)
def halfOpenAttack : List NetOp := [.toResp cfgBad.init0.s1, .toInit s2bad, .toInit (.status true)]

/-- the untouched run leaves both ends without a session -/
example : refI cfgBad = none ∧ refR cfgBad = none := by decide
/-- the attack is an admissible schedule with one attacker-made message (a status report needs no
secret at all) … -/
example : Sched exAttacker cfgBad (Net.start cfgBad) 1 halfOpenAttack :=
  .relay _ _ _ _ (by decide) (.relay _ _ _ _ (by decide)
    (.forge _ _ _ _ (.pair (.atom _) (.atom _)) (.nil _ _)))
/-- … after which the initiator holds a session and the responder none: the clause "no session or
the session of the untouched run" is false here, the third case of `OutcomeFull` is the one that holds -/
example : ((Net.start cfgBad).run cfgBad halfOpenAttack).i.result.isSome = true ∧
    ((Net.start cfgBad).run cfgBad halfOpenAttack).r.result = none ∧
    ¬ OutcomeStrict cfgBad ((Net.start cfgBad).run cfgBad halfOpenAttack) ∧
    HalfOpen cfgBad ((Net.start cfgBad).run cfgBad halfOpenAttack).i.result := by
  refine ⟨by decide, by decide, ?_, by decide, by decide, by decide, by decide⟩
  rintro ⟨h | h, _⟩
  · revert h; decide
  · revert h; decide

/-! resumed handshake: both ends hold the record of an earlier handshake (secret `shared 3 4`) -/

def exRecI : ResRec := { fabIdx := 1, peerNode := 200, cats := [], rid := .atom 700, secret := .shared 3 4 }
def exRecR : ResRec := { fabIdx := 2, peerNode := 5, cats := [65537], rid := .atom 700, secret := .shared 3 4 }

def exCfgR : HsCfg := { exCfg with cacheI := [exRecI], cacheR := [exRecR] }

def exAttackerR : Attacker := { H := [3, 4, 11, 12], S := exS, C := exC }

def exCx0 : RespResumeCtx :=
  (respResume exCfgR.fabricsR exCfgR.cacheR exCfgR.init0.s1 exCfgR.ridR exCfgR.sidR).getD default

def exResumeSetting : ResumeSetting exAttackerR exCfgR :=
  { rI := 501, sI := 601, rR := 502, idR := 702, sR := 602, ipk := 77, ridOld := 700,
    hrndI := rfl, hsidI := rfl, hrndR := rfl, hridR := rfl, hsidR := rfl, hipk := rfl,
    hephI := by decide, hephR := by decide,
    recI := exRecI, hcached := by decide, hrid := rfl, x := 3, y := 4, hsecI := rfl,
    hx := by decide, hy := by decide,
    hcacheR := (by
      intro r hr
      have : r = exRecR := by simpa [exCfgR] using hr
      subst this
      exact ⟨3, 4, rfl, by decide, by decide⟩),
    hcert := exHcert,
    cx0 := exCx0,
    hcx0 := (by
      have h : (respResume exCfgR.fabricsR exCfgR.cacheR exCfgR.init0.s1 exCfgR.ridR exCfgR.sidR).isSome = true := by
        decide
      unfold exCx0
      cases hh : respResume exCfgR.fabricsR exCfgR.cacheR exCfgR.init0.s1 exCfgR.ridR exCfgR.sidR with
      | none => rw [hh] at h; cases h
      | some v => rfl) }

/-- the untouched resumed run completes on both ends with the record's identity … -/
example : ((hResRr exResumeSetting).map fun p => (p.1.fabIdx, p.1.peerNode, p.1.cats)) =
    some (2, 5, [65537]) := by decide
example : (hResIr exResumeSetting).isSome = true := by decide
/-- … computed by the run function on the in-order schedule (`honest_run_resume`, instantiated) -/
example : refI exCfgR = hResIr exResumeSetting ∧ refR exCfgR = hResRr exResumeSetting :=
  ⟨(honest_run_resume exResumeSetting).1, (honest_run_resume exResumeSetting).2.1⟩

end C01
