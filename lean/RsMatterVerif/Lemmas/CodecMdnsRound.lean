import RsMatterVerif.Lemmas.CodecMdns
/-!
# mDNS round trips (`Model/Codec/Mdns.lean`): record framing, TXT strings, the `Host::broadcast` message
-/
namespace Codec.Mdns

/-! ## 1. record framing: owner, TYPE, CLASS, TTL, RDLENGTH, RDATA -/

/-- the field ranges of a resource record (`u16`, `u16`, `u32`, `u16` length) and a well-formed owner name -/
structure RecSpec.WF (r : RecSpec) : Prop where
  owner : NameWF r.owner
  rtype : r.rtype < 65536
  cls : r.cls < 65536
  ttl : r.ttl < 4294967296
  rdata : r.rdata.length < 65536

/-- octets in front of the record data -/
def RecSpec.hdrLen (r : RecSpec) : Nat := (encName r.owner).length + 10

theorem RecSpec.bytes_eq (r : RecSpec) :
    r.bytes = encName r.owner ++ (u16be r.rtype ++ (u16be r.cls ++ (u32be r.ttl ++ (u16be r.rdata.length ++ r.rdata)))) := by
  simp [RecSpec.bytes, encRecord]

theorem RecSpec.bytes_length (r : RecSpec) : r.bytes.length = r.hdrLen + r.rdata.length := by
  rw [RecSpec.bytes_eq]; simp [RecSpec.hdrLen, u16be, u32be]; omega

/-- what `ParsedRecord::parse` answers for the record `r` found at `pos` under the limit `len` -/
def RecSpec.parsed (r : RecSpec) (pos len : Nat) : Rec :=
  { owner := { labels := r.owner, nameLen := (encName r.owner).length, compressed := false }
    rtype := r.rtype, cls := r.cls, ttl := r.ttl, rdlen := r.rdata.length, data := ⟨pos + r.hdrLen, len⟩ }

/-- **record framing round trip**: the encoded record at the cursor is parsed back field by field; the
record's data parser points at the record data and the cursor ends behind the record -/
theorem parseRecord_at (d : List Nat) (pos len : Nat) (r : RecSpec) (B : List Nat) (hwf : r.WF)
    (h : d.drop pos = r.bytes ++ B) (hfit : pos + r.bytes.length ≤ len) (hd : len ≤ d.length) :
    parseRecord d ⟨pos, len⟩ = .ok (r.parsed pos len, ⟨pos + r.bytes.length, len⟩) ∧
    d.drop (pos + r.hdrLen) = r.rdata ++ B ∧ d.drop (pos + r.bytes.length) = B := by
  rw [RecSpec.bytes_length] at hfit
  unfold RecSpec.hdrLen at hfit
  rw [RecSpec.bytes_eq] at h
  simp only [List.append_assoc] at h
  have h0 := parseName_flat d ⟨pos, len⟩ r.owner _ hwf.owner h (by simp only; omega) hd
  have hd0 : d.drop (pos + (encName r.owner).length) =
      u16be r.rtype ++ (u16be r.cls ++ (u32be r.ttl ++ (u16be r.rdata.length ++ (r.rdata ++ B)))) := by
    rw [← List.drop_drop, h, List.drop_left' rfl]
  have h1 := parseU16_at d (pos + (encName r.owner).length) len r.rtype _ hwf.rtype hd0 (by omega) hd
  have h2 := parseU16_at d (pos + (encName r.owner).length + 2) len r.cls _ hwf.cls h1.2 (by omega) hd
  have h3 := parseU32_at d (pos + (encName r.owner).length + 2 + 2) len r.ttl _ hwf.ttl h2.2 (by omega) hd
  have h4 := parseU16_at d (pos + (encName r.owner).length + 2 + 2 + 4) len r.rdata.length _ hwf.rdata h3.2 (by omega) hd
  have h5 : advance ⟨pos + (encName r.owner).length + 2 + 2 + 4 + 2, len⟩ r.rdata.length
      = .ok ⟨pos + (encName r.owner).length + 2 + 2 + 4 + 2 + r.rdata.length, len⟩ := by
    unfold advance
    simp only
    rw [if_neg (by omega), if_neg (by omega)]
  refine ⟨?_, ?_, ?_⟩
  · unfold parseRecord
    simp only at h0
    rw [h0]; simp only [bind, Except.bind]
    rw [h1.1]; simp only
    rw [h2.1]; simp only
    rw [h3.1]; simp only
    rw [h4.1]; simp only
    rw [h5]
    simp only [pure, Except.pure, RecSpec.parsed, RecSpec.hdrLen, RecSpec.bytes_length]
    congr 3 <;> omega
  · have := h4.2
    rw [show pos + r.hdrLen = pos + (encName r.owner).length + 2 + 2 + 4 + 2 by unfold RecSpec.hdrLen; omega]
    exact this
  · have := h4.2
    rw [RecSpec.bytes_length, show pos + (r.hdrLen + r.rdata.length) = (pos + (encName r.owner).length + 2 + 2 + 4 + 2) + r.rdata.length by
      unfold RecSpec.hdrLen; omega]
    rw [← List.drop_drop, this, List.drop_left' rfl]

/-! ## 2. a sequence of records -/

def specsBytes (rs : List RecSpec) : List Nat := rs.flatMap RecSpec.bytes

theorem specsBytes_cons (r : RecSpec) (rs : List RecSpec) : specsBytes (r :: rs) = r.bytes ++ specsBytes rs := by
  simp [specsBytes]

theorem specsBytes_append (xs ys : List RecSpec) : specsBytes (xs ++ ys) = specsBytes xs ++ specsBytes ys := by
  simp [specsBytes]

/-- the parsed records of a sequence of records that starts at `pos` -/
def parsedAll : List RecSpec → Nat → Nat → List Rec
  | [], _, _ => []
  | r :: rs, pos, len => r.parsed pos len :: parsedAll rs (pos + r.bytes.length) len

/-- the record data of every record of the sequence sit where its parsed form points, inside the limit -/
def Located (d : List Nat) (len : Nat) : List RecSpec → Nat → Prop
  | [], _ => True
  | r :: rs, pos => (∃ B, d.drop (pos + r.hdrLen) = r.rdata ++ B) ∧ pos + r.bytes.length ≤ len ∧ Located d len rs (pos + r.bytes.length)

theorem parsedAll_append (xs ys : List RecSpec) (pos len : Nat) :
    parsedAll (xs ++ ys) pos len = parsedAll xs pos len ++ parsedAll ys (pos + (specsBytes xs).length) len := by
  induction xs generalizing pos with
  | nil => simp [parsedAll, specsBytes]
  | cons x xs ih =>
    simp only [List.cons_append, parsedAll, ih, specsBytes_cons, List.length_append]
    rw [Nat.add_assoc]

theorem located_append (d : List Nat) (len : Nat) (xs ys : List RecSpec) (pos : Nat) :
    Located d len (xs ++ ys) pos ↔ Located d len xs pos ∧ Located d len ys (pos + (specsBytes xs).length) := by
  induction xs generalizing pos with
  | nil => simp [Located, specsBytes]
  | cons x xs ih =>
    simp only [List.cons_append, Located, ih, specsBytes_cons, List.length_append, Nat.add_assoc]
    constructor
    · rintro ⟨a, b, c, e⟩; exact ⟨⟨a, b, c⟩, e⟩
    · rintro ⟨⟨a, b, c⟩, e⟩; exact ⟨a, b, c, e⟩

/-- **a run of records round-trips through the section iterator** -/
theorem records_at (d : List Nat) (len : Nat) (hd : len ≤ d.length) : ∀ (rs : List RecSpec) (pos : Nat) (B : List Nat),
    (∀ r ∈ rs, r.WF) → d.drop pos = specsBytes rs ++ B → pos + (specsBytes rs).length ≤ len →
    records rs.length d ⟨pos, len⟩ = .ok (parsedAll rs pos len) ∧ Located d len rs pos := by
  intro rs
  induction rs with
  | nil => intro pos B _ _ _; exact ⟨rfl, trivial⟩
  | cons r rs ih =>
    intro pos B hwf h hfit
    rw [specsBytes_cons, List.append_assoc] at h
    rw [specsBytes_cons, List.length_append] at hfit
    obtain ⟨h1, h2, h3⟩ := parseRecord_at d pos len r (specsBytes rs ++ B) (hwf r (by simp)) h (by omega) hd
    obtain ⟨h4, h5⟩ := ih (pos + r.bytes.length) B (fun x hx => hwf x (by simp [hx])) h3 (by omega)
    refine ⟨?_, ⟨_, h2⟩, by omega, h5⟩
    simp only [List.length_cons, records, h1, h4, bind, Except.bind, pure, Except.pure, parsedAll]


/-! ## 3. typed record data of a located record -/

/-- hypotheses shared by the conversions: the record `r` was parsed at `pos`, its data follow its header -/
structure At (d : List Nat) (len : Nat) (r : RecSpec) (pos : Nat) : Prop where
  data : ∃ B, d.drop (pos + r.hdrLen) = r.rdata ++ B
  fit : pos + r.bytes.length ≤ len
  lim : len ≤ d.length

theorem At.sub {d : List Nat} {len : Nat} {r : RecSpec} {pos : Nat} (h : At d len r pos) :
    subParser (r.parsed pos len).data (r.parsed pos len).rdlen = .ok ⟨pos + r.hdrLen, pos + r.hdrLen + r.rdata.length⟩ := by
  have := h.fit; have := h.lim
  rw [RecSpec.bytes_length] at *
  unfold subParser
  have e1 : ¬ ((r.parsed pos len).data.len < (r.parsed pos len).data.pos) := by
    show ¬ (len < pos + r.hdrLen); omega
  have e2 : ¬ ((r.parsed pos len).data.len - (r.parsed pos len).data.pos < (r.parsed pos len).rdlen) := by
    show ¬ (len - (pos + r.hdrLen) < r.rdata.length); omega
  rw [if_neg e1, if_neg e2]; rfl

theorem At.recOk {d : List Nat} {len : Nat} {r : RecSpec} {pos : Nat} (h : At d len r pos) : RecOk d len (r.parsed pos len) := by
  have := h.fit; have := h.lim
  rw [RecSpec.bytes_length] at *
  exact ⟨⟨by show pos + r.hdrLen ≤ len; omega, h.lim⟩, rfl, by show pos + r.hdrLen + r.rdata.length ≤ len; omega⟩

theorem toSrv_other {d : List Nat} {len : Nat} {r : RecSpec} {pos : Nat} (h : At d len r pos) (ht : r.rtype ≠ RT_SRV) :
    toSrv d (r.parsed pos len) = .ok none := by
  unfold toSrv
  rw [h.sub]
  simp only [bind, Except.bind]
  rw [if_pos (by simpa [RecSpec.parsed] using ht)]; rfl

theorem toPtr_other {d : List Nat} {len : Nat} {r : RecSpec} {pos : Nat} (h : At d len r pos) (ht : r.rtype ≠ RT_PTR) :
    toPtr d (r.parsed pos len) = .ok none := by
  unfold toPtr
  rw [h.sub]
  simp only [bind, Except.bind]
  rw [if_pos (by simpa [RecSpec.parsed] using ht)]; rfl

theorem toAddr_other {d : List Nat} {len : Nat} {r : RecSpec} {pos : Nat} (rt n : Nat) (h : At d len r pos) (ht : r.rtype ≠ rt) :
    toAddr rt n d (r.parsed pos len) = .ok none := by
  unfold toAddr
  rw [h.sub]
  simp only [bind, Except.bind]
  rw [if_pos (by simpa [RecSpec.parsed] using ht)]; rfl

theorem finish_exact {α : Type} (pos : Nat) (x : α) : finish ⟨pos, pos⟩ x = .ok (some x) := by
  simp [finish]

/-- **SRV record data round trip**: priority, weight, port, target name -/
theorem toSrv_at {d : List Nat} {len : Nat} {r : RecSpec} {pos : Nat} (h : At d len r pos) (prio weight port : Nat)
    (target : List (List Nat)) (ht : r.rtype = RT_SRV)
    (hdata : r.rdata = u16be prio ++ (u16be weight ++ (u16be port ++ encName target)))
    (h1 : prio < 65536) (h2 : weight < 65536) (h3 : port < 65536) (hwf : NameWF target) :
    toSrv d (r.parsed pos len) = .ok (some (port, { labels := target, nameLen := (encName target).length, compressed := false })) := by
  obtain ⟨B, hB⟩ := h.data
  have hfit := h.fit; have hlim := h.lim
  rw [RecSpec.bytes_length] at hfit
  have hlen : r.rdata.length = 6 + (encName target).length := by rw [hdata]; simp [u16be]; omega
  rw [hdata] at hB
  simp only [List.append_assoc] at hB
  have hL : pos + r.hdrLen + r.rdata.length ≤ d.length := by omega
  have a := parseU16_at d (pos + r.hdrLen) (pos + r.hdrLen + r.rdata.length) prio _ h1 hB (by omega) hL
  have b := parseU16_at d (pos + r.hdrLen + 2) (pos + r.hdrLen + r.rdata.length) weight _ h2 a.2 (by omega) hL
  have c := parseU16_at d (pos + r.hdrLen + 2 + 2) (pos + r.hdrLen + r.rdata.length) port _ h3 b.2 (by omega) hL
  have e := parseName_flat d ⟨pos + r.hdrLen + 2 + 2 + 2, pos + r.hdrLen + r.rdata.length⟩ target B hwf c.2 (by simp only; omega) hL
  unfold toSrv
  rw [h.sub]
  simp only [bind, Except.bind]
  rw [if_neg (by simp [RecSpec.parsed, ht])]
  rw [a.1]; simp only
  rw [b.1]; simp only
  rw [c.1]; simp only
  rw [e]; simp only
  rw [show pos + r.hdrLen + 2 + 2 + 2 + (encName target).length = pos + r.hdrLen + r.rdata.length by omega]
  exact finish_exact _ _

/-- **A / AAAA record data round trip**: exactly 4 / 16 octets -/
theorem toAddr_at {d : List Nat} {len : Nat} {r : RecSpec} {pos : Nat} (rt n : Nat) (h : At d len r pos)
    (ht : r.rtype = rt) (hn : r.rdata.length = n) : toAddr rt n d (r.parsed pos len) = .ok (some r.rdata) := by
  obtain ⟨B, hB⟩ := h.data
  have hfit := h.fit; have hlim := h.lim
  rw [RecSpec.bytes_length] at hfit
  have a := take_at d (pos + r.hdrLen) (pos + r.hdrLen + r.rdata.length) r.rdata B hB (by omega) (by omega)
  unfold toAddr
  rw [h.sub]
  simp only [bind, Except.bind]
  rw [if_neg (by simp [RecSpec.parsed, ht])]
  rw [← hn, a.1]
  exact finish_exact _ _

/-- the raw data of a located record (what the TXT pass keeps) -/
theorem toUnknown_at {d : List Nat} {len : Nat} {r : RecSpec} {pos : Nat} (h : At d len r pos) :
    toUnknown d (r.parsed pos len) = .ok (some r.rdata) := by
  obtain ⟨B, hB⟩ := h.data
  rw [toUnknown_eq d len _ h.recOk]
  simp only [RecSpec.parsed]
  rw [hB, List.take_left' rfl]


/-! ## 4. TXT record data: length-prefixed `key=value` strings -/

/-- one TXT character string -/
def txtEntry (kv : List Nat × List Nat) : List Nat := ((kv.1.length + kv.2.length + 1) % 256) :: (kv.1 ++ [0x3D] ++ kv.2)

theorem encTxt_eq (kvs : List (List Nat × List Nat)) (h : kvs ≠ []) : encTxt kvs = kvs.flatMap txtEntry := by
  unfold encTxt
  cases kvs with
  | nil => exact absurd rfl h
  | cons a as => simp only [List.isEmpty_cons, Bool.false_eq_true, if_false]; rfl

/-- what a TXT pair must satisfy to survive the trip: the string fits its length octet, the key has no `=`,
and the string is UTF-8 (always the case for Rust `&str` keys and values) -/
def TxtWF (kv : List Nat × List Nat) : Prop :=
  kv.1.length + kv.2.length + 1 ≤ 255 ∧ 0x3D ∉ kv.1 ∧ validUtf8 (kv.1 ++ 0x3D :: kv.2) = true

theorem findEq_key (k v : List Nat) (h : 0x3D ∉ k) : findEq (k ++ 0x3D :: v) = some k.length := by
  induction k with
  | nil => simp [findEq]
  | cons b k ih =>
    have hb : b ≠ 0x3D := by intro e; exact h (by simp [e])
    have hk : 0x3D ∉ k := by intro e; exact h (by simp [e])
    simp [findEq, hb, ih hk]

theorem index_at (l : List Nat) (i x : Nat) (B : List Nat) (h : l.drop i = x :: B) : index l i = .ok x := by
  unfold index
  have := congrArg List.head? h
  rw [List.head?_drop] at this
  simp only [List.head?_cons] at this
  rw [this]

theorem slice_at (l : List Nat) (a : Nat) (S B : List Nat) (h : l.drop a = S ++ B) (hfit : a + S.length ≤ l.length) :
    slice l a (a + S.length) = .ok S := by
  unfold slice
  rw [if_pos ⟨by omega, hfit⟩, h, show a + S.length - a = S.length by omega, List.take_left' rfl]

/-- `MdnsTxt::next` positioned at a well-formed string answers its pair at once -/
theorem txtNext_entry (data : List Nat) (pos : Nat) (kv : List Nat × List Nat) (B : List Nat) (hwf : TxtWF kv)
    (h : data.drop pos = txtEntry kv ++ B) (f : Nat) :
    txtNext data (f + 1) pos = .ok (some (kv, pos + (txtEntry kv).length)) ∧ data.drop (pos + (txtEntry kv).length) = B := by
  obtain ⟨k, v⟩ := kv
  obtain ⟨h1, h2, h3⟩ := hwf
  simp only at h1 h2 h3
  have hlen : (txtEntry (k, v)).length = k.length + v.length + 2 := by simp [txtEntry]; omega
  have hdl : (data.drop pos).length = (txtEntry (k, v)).length + B.length := by rw [h]; simp
  rw [List.length_drop, hlen] at hdl
  have hmod : (k.length + v.length + 1) % 256 = k.length + v.length + 1 := by omega
  have h' : data.drop pos = (k.length + v.length + 1) :: ((k ++ 0x3D :: v) ++ B) := by
    rw [h]; simp [txtEntry, hmod]
  have hd1 : data.drop (pos + 1) = (k ++ 0x3D :: v) ++ B := by
    rw [← List.drop_drop, h']; rfl
  have hsl : (k ++ 0x3D :: v).length = k.length + v.length + 1 := by simp; omega
  refine ⟨?_, ?_⟩
  · unfold txtNext
    rw [if_pos (by omega), index_at data pos _ _ h']
    simp only [bind, Except.bind]
    rw [show min (pos + 1 + (k.length + v.length + 1)) data.length = (pos + 1) + (k ++ 0x3D :: v).length by rw [hsl]; omega]
    rw [slice_at data (pos + 1) _ B hd1 (by rw [hsl]; omega)]
    simp only
    rw [if_pos h3, findEq_key k v h2]
    simp only
    have s1 : slice (k ++ 0x3D :: v) 0 k.length = .ok k := by
      have := slice_at (k ++ 0x3D :: v) 0 k (0x3D :: v) rfl (by simp)
      simpa using this
    have s2 : slice (k ++ 0x3D :: v) (k.length + 1) (k ++ 0x3D :: v).length = .ok v := by
      have := slice_at (k ++ 0x3D :: v) (k.length + 1) v [] (by simp) (by simp; omega)
      rw [show k.length + 1 + v.length = (k ++ 0x3D :: v).length by simp; omega] at this
      exact this
    rw [s1, s2]
    simp only [pure, Except.pure, hlen]
    rw [hsl, show pos + 1 + (k.length + v.length + 1) = pos + (k.length + v.length + 2) by omega]
  · rw [hlen, show pos + (k.length + v.length + 2) = (pos + 1) + (k ++ 0x3D :: v).length by rw [hsl]; omega,
      ← List.drop_drop, hd1, List.drop_left' rfl]

theorem txtAll_entries (data : List Nat) : ∀ (kvs : List (List Nat × List Nat)) (g pos : Nat), (∀ kv ∈ kvs, TxtWF kv) →
    data.drop pos = kvs.flatMap txtEntry → pos ≤ data.length → kvs.length < g → txtAll data g pos = .ok kvs := by
  intro kvs
  induction kvs with
  | nil =>
    intro g pos _ h hp hg
    obtain ⟨g, rfl⟩ : ∃ k, g = k + 1 := ⟨g - 1, by omega⟩
    have : data.length ≤ pos := by
      have := congrArg List.length h
      simp [List.length_drop] at this; omega
    unfold txtAll
    have hn : txtNext data (data.length + 1) pos = .ok none := by
      unfold txtNext; rw [if_neg (by omega)]; rfl
    rw [hn]; rfl
  | cons kv kvs ih =>
    intro g pos hwf h hp hg
    obtain ⟨g, rfl⟩ : ∃ k, g = k + 1 := ⟨g - 1, by omega⟩
    rw [List.flatMap_cons] at h
    obtain ⟨h1, h2⟩ := txtNext_entry data pos kv _ (hwf kv (by simp)) h data.length
    have hp' : pos + (txtEntry kv).length ≤ data.length := by
      have := congrArg List.length h
      simp [List.length_drop] at this; omega
    unfold txtAll
    rw [h1]
    simp only [bind, Except.bind]
    rw [ih g _ (fun x hx => hwf x (by simp [hx])) h2 hp' (by simp at hg; omega)]
    rfl

/-- **TXT round trip**: the strings written by `Txt::compose_rdata` are split back into the same
`key=value` pairs, in order (an empty list is written as one empty string and read back as no pair) -/
theorem txtPairs_encTxt (kvs : List (List Nat × List Nat)) (hwf : ∀ kv ∈ kvs, TxtWF kv) :
    txtPairs (encTxt kvs) = .ok kvs := by
  by_cases h : kvs = []
  · subst h; rfl
  · unfold txtPairs
    have hl : kvs.length ≤ (encTxt kvs).length := by
      rw [encTxt_eq kvs h]
      clear hwf h
      induction kvs with
      | nil => simp
      | cons a as ih => simp [txtEntry] at ih ⊢; omega
    exact txtAll_entries (encTxt kvs) kvs _ 0 hwf (by rw [encTxt_eq kvs h]; rfl) (by omega) (by omega)


/-- a valid UTF-8 string followed by anything is valid exactly when the rest is (strings concatenate) -/
theorem validUtf8_append : ∀ (a b : List Nat), validUtf8 a = true → validUtf8 (a ++ b) = validUtf8 b
  | [], b, _ => by simp
  | b0 :: r, b, h => by
    rw [validUtf8.eq_def] at h
    simp only at h
    rw [List.cons_append, validUtf8.eq_def]
    simp only
    by_cases h0 : b0 < 0x80
    · simp only [h0, if_true] at h ⊢
      exact validUtf8_append r b h
    · simp only [h0, if_false] at h ⊢
      by_cases h1 : 0xC2 ≤ b0 ∧ b0 ≤ 0xDF
      · simp only [h1, and_self, if_true] at h ⊢
        match r, h with
        | b1 :: r', h =>
          simp only [Bool.and_eq_true] at h
          simp only [List.cons_append, h.1, Bool.true_and]
          exact validUtf8_append r' b h.2
      · simp only [h1, if_false] at h ⊢
        by_cases h2 : 0xE0 ≤ b0 ∧ b0 ≤ 0xEF
        · simp only [h2, and_self, if_true] at h ⊢
          match r, h with
          | b1 :: b2 :: r', h =>
            simp only [Bool.and_eq_true] at h
            simp only [List.cons_append, h.1.1, h.1.2, Bool.true_and]
            exact validUtf8_append r' b h.2
        · simp only [h2, if_false] at h ⊢
          by_cases h3 : 0xF0 ≤ b0 ∧ b0 ≤ 0xF4
          · simp only [h3, and_self, if_true] at h ⊢
            match r, h with
            | b1 :: b2 :: b3 :: r', h =>
              simp only [Bool.and_eq_true] at h
              simp only [List.cons_append, h.1.1.1, h.1.1.2, h.1.2, Bool.true_and]
              exact validUtf8_append r' b h.2
          · simp only [h3, if_false] at h
            cases h

end Codec.Mdns
