import RsMatterVerif.Model.Codec.CdContent
import RsMatterVerif.Lemmas.TlvSchema
/-!
# Lemmas about `CertificationElements::decode` / `validate` (`Model/Codec/CdContent.lean`)

* `decode_safe`: no panic on arbitrary content (built from the never-panic lemmas of the TLV reader, C16);
* `decode_sound`: what an accepted content satisfies (format version 1, 1..100 product ids, 19-octet certificate id,
  certification type ≤ 2, ≤ 10 PAA key ids of 20 octets);
* `validate_ok_iff`: `validate` answers `Ok` exactly when the rules of the specification hold;
* `decode_encode`: the content the model encoder writes for legal elements decodes to exactly these elements.
-/
namespace Codec.Cd
open Tlv

/-- not "the Rust code panics" -/
def CSafe {α : Type} (x : Except CdErr α) : Prop := ∀ k, x ≠ .error (.panic k)

namespace CSafe
variable {α β : Type}
theorem ok (a : α) : CSafe (.ok a : Except CdErr α) := fun _ h => by cases h
theorem pure (a : α) : CSafe (Pure.pure a : Except CdErr α) := fun _ h => by cases h
theorem err {e : CdErr} (h : ∀ k, e ≠ .panic k) : CSafe (.error e : Except CdErr α) :=
  fun k he => by injection he with he; exact h k he
theorem bind {x : Except CdErr α} {f : α → Except CdErr β} (hx : CSafe x) (hf : ∀ a, x = .ok a → CSafe (f a)) :
    CSafe (x >>= f) := by
  cases x with
  | ok a => exact hf a rfl
  | error e => intro k he; exact hx k (by simpa [Bind.bind, Except.bind] using he)
end CSafe

theorem ofRes_safe {α : Type} {r : Res α} (h : NP r) : CSafe (ofRes r) := by
  cases r with
  | ok a => exact CSafe.ok a
  | err e => exact CSafe.err (fun _ he => by cases he)
  | panic p => exact absurd rfl (h p)

theorem ofRes_ok {α : Type} {r : Res α} {a : α} (h : ofRes r = .ok a) : r = .ok a := by
  cases r <;> simp [ofRes] at h; rw [h]

/-! ## sizes: what `find_ctx`, `structure`, `array` return is not longer than what they were given -/

theorem findCtxGo_mem (ctx : Nat) : ∀ (l : List (Res Bytes)) (e : Bytes), findCtxGo ctx l = .ok e → e = [] ∨ Res.ok e ∈ l
  | [], e, h => by simp [findCtxGo] at h; exact Or.inl h
  | r :: rest, e, h => by
    cases r with
    | err x => simp [findCtxGo, Bind.bind, Res.bind] at h
    | panic x => simp [findCtxGo, Bind.bind, Res.bind] at h
    | ok el =>
      simp only [findCtxGo, Bind.bind, Res.bind] at h
      cases ht : tryCtx el with
      | err x => simp [ht] at h
      | panic x => simp [ht] at h
      | ok o =>
        simp only [ht] at h
        split at h
        · simp only [Pure.pure] at h
          injection h with h
          exact Or.inr (by simp [h])
        · rcases findCtxGo_mem ctx rest e h with h1 | h1
          · exact Or.inl h1
          · exact Or.inr (List.mem_cons_of_mem _ h1)

theorem findCtx_len {seq e : Bytes} {ctx : Nat} (h : findCtx seq ctx = .ok e) : e.length ≤ seq.length := by
  rcases findCtxGo_mem ctx _ e h with h1 | h1
  · simp [h1]
  · exact (elementsF_suffix _ _ _ h1).length_le

theorem enter_len {bs r : Bytes} (h : nextEnter bs = .ok r) : r.length ≤ bs.length := (nextEnter_suffix h).length_le

theorem structOf_len {bs r : Bytes} (h : structOf bs = .ok r) : r.length ≤ bs.length := by
  unfold structOf at h
  cases hc : control bs with
  | err x => simp [hc, Bind.bind, Res.bind] at h
  | panic x => simp [hc, Bind.bind, Res.bind] at h
  | ok c =>
    simp only [hc, Bind.bind, Res.bind] at h
    split at h
    · exact enter_len h
    · simp at h

theorem arrayOf_len {bs r : Bytes} (h : arrayOf bs = .ok r) : r.length ≤ bs.length := by
  unfold arrayOf at h
  cases hc : control bs with
  | err x => simp [hc, Bind.bind, Res.bind] at h
  | panic x => simp [hc, Bind.bind, Res.bind] at h
  | ok c =>
    simp only [hc, Bind.bind, Res.bind] at h
    split at h
    · exact enter_len h
    · simp at h

/-! ## totality -/

theorem pidLoop_safe : ∀ (l : List (Res Bytes)) (acc : List Nat), (∀ r ∈ l, NP r) → CSafe (pidLoop l acc)
  | [], _, _ => CSafe.ok _
  | r :: rest, acc, h => by
    unfold pidLoop
    have hr := ofRes_safe (h r (by simp))
    split
    · rename_i e heq; intro k hk; injection hk with hk; exact hr k (by rw [heq, hk])
    · split
      · exact CSafe.err (fun _ he => by cases he)
      · rename_i e _ _
        have hu := ofRes_safe (u16_np e)
        split
        · rename_i e' heq; intro k hk; injection hk with hk; exact hu k (by rw [heq, hk])
        · exact pidLoop_safe rest _ (fun r' hr' => h r' (by simp [hr']))

theorem paaLoop_safe : ∀ (l : List (Res Bytes)) (acc : List Bytes), (∀ r ∈ l, NP r) → CSafe (paaLoop l acc)
  | [], _, _ => CSafe.ok _
  | r :: rest, acc, h => by
    unfold paaLoop
    have hr := ofRes_safe (h r (by simp))
    split
    · rename_i e heq; intro k hk; injection hk with hk; exact hr k (by rw [heq, hk])
    · split
      · exact CSafe.err (fun _ he => by cases he)
      · rename_i e _ _
        have hu := ofRes_safe (strOf_np e)
        split
        · rename_i e' heq; intro k hk; injection hk with hk; exact hu k (by rw [heq, hk])
        · split
          · exact CSafe.err (fun _ he => by cases he)
          · exact paaLoop_safe rest _ (fun r' hr' => h r' (by simp [hr']))

theorem parseProductIds_safe (s : Bytes) (hs : s.length < I32LIM) : CSafe (parseProductIds s) := by
  unfold parseProductIds
  refine CSafe.bind (ofRes_safe (findCtx_np s 2 hs)) (fun e he => ?_)
  have hel := findCtx_len (ofRes_ok he)
  refine CSafe.bind (ofRes_safe (arrayOf_np e)) (fun seq hseq => ?_)
  have hsl := arrayOf_len (ofRes_ok hseq)
  refine CSafe.bind (pidLoop_safe _ _ (elements_item_np seq (by omega))) (fun pids _ => ?_)
  split
  · exact CSafe.err (fun _ he => by cases he)
  · exact CSafe.pure _

theorem parseCertificateId_safe (s : Bytes) (hs : s.length < I32LIM) : CSafe (parseCertificateId s) := by
  unfold parseCertificateId
  refine CSafe.bind (ofRes_safe (findCtx_np s 4 hs)) (fun e _ => ?_)
  refine CSafe.bind (ofRes_safe (utf8Of_np e)) (fun str _ => ?_)
  split
  · exact CSafe.err (fun _ he => by cases he)
  · exact CSafe.pure _

theorem parseDacOrigin_safe (s : Bytes) (hs : s.length < I32LIM) : CSafe (parseDacOrigin s) := by
  unfold parseDacOrigin
  refine CSafe.bind (ofRes_safe (findCtx_np s 9 hs)) (fun v _ => ?_)
  refine CSafe.bind (ofRes_safe (findCtx_np s 10 hs)) (fun p _ => ?_)
  split
  · exact CSafe.err (fun _ he => by cases he)
  · split
    · refine CSafe.bind (ofRes_safe (u16_np v)) (fun _ _ => ?_)
      refine CSafe.bind (ofRes_safe (u16_np p)) (fun _ _ => ?_)
      exact CSafe.pure _
    · exact CSafe.pure _

theorem parseAuthorizedPaa_safe (s : Bytes) (hs : s.length < I32LIM) : CSafe (parseAuthorizedPaa s) := by
  unfold parseAuthorizedPaa
  refine CSafe.bind (ofRes_safe (findCtx_np s 11 hs)) (fun e he => ?_)
  have hel := findCtx_len (ofRes_ok he)
  split
  · refine CSafe.bind (ofRes_safe (arrayOf_np e)) (fun seq hseq => ?_)
    have hsl := arrayOf_len (ofRes_ok hseq)
    exact paaLoop_safe _ _ (elements_item_np seq (by omega))
  · exact CSafe.pure _

theorem uintAt_safe {rd : Bytes → Res Nat} (hrd : ∀ e, NP (rd e)) (s : Bytes) (tag : Nat) (hs : s.length < I32LIM) :
    CSafe (uintAt rd s tag) := by
  unfold uintAt
  refine CSafe.bind (ofRes_safe (findCtx_np s tag hs)) (fun e _ => ?_)
  exact ofRes_safe (hrd e)

/-- **`CertificationElements::decode` never panics**, whatever the content below 2 GiB (`length < 2^31`: the TLV container
walk counts nesting in an `i32`, see C16 `levelStep`; a CD is a few hundred bytes) -/
theorem decode_safe (content : Bytes) (h : content.length < I32LIM) : CSafe (decode content) := by
  unfold decode
  refine CSafe.bind (ofRes_safe (structOf_np content)) (fun s hs => ?_)
  have hsl := structOf_len (ofRes_ok hs)
  have hs' : s.length < I32LIM := by omega
  refine CSafe.bind (uintAt_safe u16_np s 0 hs') (fun fv _ => ?_)
  split
  · exact CSafe.err (fun _ he => by cases he)
  · refine CSafe.bind (parseProductIds_safe s hs') (fun _ _ => ?_)
    refine CSafe.bind (parseCertificateId_safe s hs') (fun _ _ => ?_)
    refine CSafe.bind (parseDacOrigin_safe s hs') (fun _ _ => ?_)
    refine CSafe.bind (parseAuthorizedPaa_safe s hs') (fun _ _ => ?_)
    refine CSafe.bind (uintAt_safe u16_np s 1 hs') (fun _ _ => ?_)
    refine CSafe.bind (uintAt_safe u32_np s 3 hs') (fun _ _ => ?_)
    refine CSafe.bind (uintAt_safe u8_np s 5 hs') (fun _ _ => ?_)
    refine CSafe.bind (uintAt_safe u16_np s 6 hs') (fun _ _ => ?_)
    refine CSafe.bind (uintAt_safe u16_np s 7 hs') (fun _ _ => ?_)
    refine CSafe.bind (uintAt_safe u8_np s 8 hs') (fun _ _ => ?_)
    split
    · exact CSafe.err (fun _ he => by cases he)
    · exact CSafe.pure _

/-! ## `validate` against the rules of the specification -/

theorem validate_ok_iff (c : Elements) (d : DeviceInfo) : validate c d = .ok () ↔ validSpec c d := by
  unfold validate validSpec
  by_cases h1 : c.formatVersion = 1
  · by_cases h2 : c.vendorId = d.vendorId
    · by_cases h3 : d.productId ∈ c.productIds
      · simp only [h1, ne_eq, not_true_eq_false, if_false, h2, List.contains_eq_mem, h3, decide_true, Bool.not_true,
          Bool.false_eq_true, true_and]
        cases hd : c.dacOrigin with
        | none =>
          simp only
          by_cases a1 : d.dacVendorId = d.vendorId
          · by_cases a2 : d.paiVendorId = d.vendorId
            · by_cases a3 : d.dacProductId ∈ c.productIds
              · by_cases a4 : d.paiProductId = 0
                · by_cases a5 : c.authorizedPaa = []
                  · simp [a1, a2, a3, a4, a5]
                  · by_cases a6 : d.paaSkid ∈ c.authorizedPaa
                    · simp [a1, a2, a3, a4, a5, a6]
                    · simp [a1, a2, a3, a4, a5, a6, List.length_pos_iff]
                · by_cases a4' : d.paiProductId ∈ c.productIds
                  · by_cases a5 : c.authorizedPaa = []
                    · simp [a1, a2, a3, a4, a4', a5]
                    · by_cases a6 : d.paaSkid ∈ c.authorizedPaa
                      · simp [a1, a2, a3, a4, a4', a5, a6]
                      · simp [a1, a2, a3, a4, a4', a5, a6, List.length_pos_iff]
                  · simp [a1, a2, a3, a4, a4']
              · simp [a1, a2, a3]
            · simp [a1, a2]
          · simp [a1]
        | some x =>
          obtain ⟨ovid, opid⟩ := x
          simp only
          by_cases a1 : d.dacVendorId = ovid
          · by_cases a2 : d.paiVendorId = ovid
            · by_cases a3 : d.dacProductId = opid
              · by_cases a4 : d.paiProductId = 0
                · by_cases a5 : c.authorizedPaa = []
                  · simp [a1, a2, a3, a4, a5]
                  · by_cases a6 : d.paaSkid ∈ c.authorizedPaa
                    · simp [a1, a2, a3, a4, a5, a6]
                    · simp [a1, a2, a3, a4, a5, a6, List.length_pos_iff]
                · by_cases a4' : d.paiProductId = opid
                  · by_cases a5 : c.authorizedPaa = []
                    · simp [a1, a2, a3, a4, a4', a5]
                    · by_cases a6 : d.paaSkid ∈ c.authorizedPaa
                      · simp [a1, a2, a3, a4, a4', a5, a6]
                      · simp [a1, a2, a3, a4, a4', a5, a6, List.length_pos_iff]
                  · simp [a1, a2, a3, a4, a4']
              · simp [a1, a2, a3]
            · simp [a1, a2]
          · simp [a1]
      · simp [h1, h2, h3]
    · simp [h1, h2]
  · simp [h1]

/-! ## what an accepted content satisfies -/

theorem pidLoop_len : ∀ (l : List (Res Bytes)) (acc res : List Nat), pidLoop l acc = .ok res → acc.length ≤ MAX_PRODUCT_IDS →
    res.length ≤ MAX_PRODUCT_IDS ∧ acc.length ≤ res.length
  | [], acc, res, h, ha => by
    simp only [pidLoop, Except.ok.injEq] at h
    subst h
    simp [ha]
  | r :: rest, acc, res, h, ha => by
    unfold pidLoop at h
    split at h
    · simp at h
    · split at h
      · simp at h
      · split at h
        · simp at h
        · rename_i hlt _ v _
          have := pidLoop_len rest (v :: acc) res h (by simp only [List.length_cons]; omega)
          simp only [List.length_cons] at this
          omega

theorem paaLoop_len : ∀ (l : List (Res Bytes)) (acc res : List Bytes), paaLoop l acc = .ok res →
    acc.length ≤ MAX_AUTHORIZED_PAA_LIST → (∀ k ∈ acc, k.length = KEY_IDENTIFIER_LEN) →
    res.length ≤ MAX_AUTHORIZED_PAA_LIST ∧ ∀ k ∈ res, k.length = KEY_IDENTIFIER_LEN
  | [], acc, res, h, ha, hk => by
    simp only [paaLoop, Except.ok.injEq] at h
    subst h
    exact ⟨by simpa using ha, fun k hk' => hk k (by simpa using hk')⟩
  | r :: rest, acc, res, h, ha, hk => by
    unfold paaLoop at h
    split at h
    · simp at h
    · split at h
      · simp at h
      · split at h
        · simp at h
        · split at h
          · simp at h
          · rename_i hlt _ b _ hb
            refine paaLoop_len rest (b :: acc) res h (by simp only [List.length_cons]; omega) (fun k hk' => ?_)
            rcases List.mem_cons.mp hk' with rfl | hk'
            · simpa using hb
            · exact hk k hk'

theorem bind_ok {α β : Type} {x : Except CdErr α} {f : α → Except CdErr β} {b : β} (h : x >>= f = .ok b) :
    ∃ a, x = .ok a ∧ f a = .ok b := by
  cases x with
  | error e => simp [Bind.bind, Except.bind] at h
  | ok a => exact ⟨a, rfl, h⟩

/-- **whatever `decode` accepts is a certification declaration of format version 1** with 1..100 product ids, a
19-octet certificate id, a defined certification type and at most 10 authorized PAA key ids of 20 octets -/
theorem decode_sound {content : Bytes} {c : Elements} (h : decode content = .ok c) :
    c.formatVersion = 1 ∧ 1 ≤ c.productIds.length ∧ c.productIds.length ≤ MAX_PRODUCT_IDS ∧
    c.certificateId.length = CERTIFICATE_ID_LEN ∧ c.certificationType ≤ 2 ∧
    c.authorizedPaa.length ≤ MAX_AUTHORIZED_PAA_LIST ∧ ∀ k ∈ c.authorizedPaa, k.length = KEY_IDENTIFIER_LEN := by
  unfold decode at h
  obtain ⟨s, _, h⟩ := bind_ok h
  obtain ⟨fv, _, h⟩ := bind_ok h
  split at h
  · simp at h
  · rename_i hne
    obtain ⟨pids, hp, h⟩ := bind_ok h
    obtain ⟨cid, hc, h⟩ := bind_ok h
    obtain ⟨dac, _, h⟩ := bind_ok h
    obtain ⟨paa, hpa, h⟩ := bind_ok h
    obtain ⟨vid, _, h⟩ := bind_ok h
    obtain ⟨dt, _, h⟩ := bind_ok h
    obtain ⟨sl, _, h⟩ := bind_ok h
    obtain ⟨si, _, h⟩ := bind_ok h
    obtain ⟨vn, _, h⟩ := bind_ok h
    obtain ⟨ct, _, h⟩ := bind_ok h
    split at h
    · simp at h
    · rename_i hct
      simp only [Pure.pure, Except.pure, Except.ok.injEq] at h
      subst h
      simp only
      have hpl : 1 ≤ pids.length ∧ pids.length ≤ MAX_PRODUCT_IDS := by
        unfold parseProductIds at hp
        obtain ⟨e, _, hp⟩ := bind_ok hp
        obtain ⟨seq, _, hp⟩ := bind_ok hp
        obtain ⟨res, hres, hp⟩ := bind_ok hp
        split at hp
        · simp at hp
        · simp only [Pure.pure, Except.pure, Except.ok.injEq] at hp
          subst hp
          have := pidLoop_len _ _ _ hres (by simp [MAX_PRODUCT_IDS])
          omega
      have hcl : cid.length = CERTIFICATE_ID_LEN := by
        unfold parseCertificateId at hc
        obtain ⟨e, _, hc⟩ := bind_ok hc
        obtain ⟨str, _, hc⟩ := bind_ok hc
        split at hc
        · simp at hc
        · rename_i hl
          simp only [Pure.pure, Except.pure, Except.ok.injEq] at hc
          subst hc
          simpa using hl
      have hpaa : paa.length ≤ MAX_AUTHORIZED_PAA_LIST ∧ ∀ k ∈ paa, k.length = KEY_IDENTIFIER_LEN := by
        unfold parseAuthorizedPaa at hpa
        obtain ⟨e, _, hpa⟩ := bind_ok hpa
        split at hpa
        · obtain ⟨seq, _, hpa⟩ := bind_ok hpa
          exact paaLoop_len _ _ _ hpa (by simp) (fun k hk => by simp at hk)
        · simp only [Pure.pure, Except.pure, Except.ok.injEq] at hpa
          subst hpa
          exact ⟨by simp, fun k hk => by simp at hk⟩
      exact ⟨by simpa using hne, hpl.1, hpl.2, hcl, by omega, hpaa.1, hpaa.2⟩

/-! ## round trip -/

theorem suffixAt_at (pre post : List Value) (v : Value) (tag : Nat) (more : Bytes)
    (hpre : ∀ x ∈ pre, ctxTagOf x ≠ some tag) (hv : v.tag = .ctx tag) :
    suffixAt (pre ++ v :: post) tag more = encode v ++ (encodes (Values.ofList post) ++ endByte :: more) := by
  rw [suffixAt_skip pre _ tag more hpre, suffixAt_head v post tag more hv]

theorem mkUint_u16 (t : Tag) (n : Nat) (X : Bytes) (hn : n < 2 ^ 16) :
    Tlv.u16 (encode (.leaf t (Prim.mkUint n)) ++ X) = .ok n := by
  have hwf := mkUint_wf n (by omega)
  rcases (mkUint_width n).2.1 (by omega) with hw | hw <;> rw [hw] at hwf ⊢
  · exact u16_uint t _ n X (Or.inl rfl) hwf
  · exact u16_uint t _ n X (Or.inr rfl) hwf

theorem mkUint_u8 (t : Tag) (n : Nat) (X : Bytes) (hn : n < 2 ^ 8) :
    Tlv.u8 (encode (.leaf t (Prim.mkUint n)) ++ X) = .ok n := by
  have hw := (mkUint_width n).1 (by omega)
  have hwf := mkUint_wf n (by omega)
  rw [hw] at hwf ⊢
  exact u8_uint t n X hwf

theorem mkUint_u32 (t : Tag) (n : Nat) (X : Bytes) (hn : n < 2 ^ 32) :
    Tlv.u32 (encode (.leaf t (Prim.mkUint n)) ++ X) = .ok n := by
  obtain ⟨w, hw8, hw⟩ := (mkUint_width n).2.2 (by omega)
  have hwf := mkUint_wf n (by omega)
  rw [hw] at hwf ⊢
  exact u32_uint t w n X hw8 hwf

theorem pidLoop_children : ∀ (pids acc : List Nat) (X : Bytes), (∀ p ∈ pids, p < 2 ^ 16) →
    acc.length + pids.length ≤ MAX_PRODUCT_IDS →
    pidLoop ((childSuffixes (Values.ofList (pidValues pids)) X).map .ok) acc = .ok (acc.reverse ++ pids)
  | [], acc, X, _, _ => by simp [pidValues, Values.ofList, childSuffixes, pidLoop]
  | p :: rest, acc, X, hp, hl => by
    simp only [pidValues, List.map_cons, Values.ofList, childSuffixes, pidLoop, ofRes]
    simp only [List.length_cons] at hl
    rw [if_neg (by omega), mkUint_u16 _ p _ (hp p (by simp))]
    simp only
    have := pidLoop_children rest (p :: acc) X (fun q hq => hp q (by simp [hq])) (by simp only [List.length_cons]; omega)
    simp only [pidValues] at this
    rw [this]
    simp

theorem paaLoop_children : ∀ (paa acc : List Bytes) (X : Bytes), (∀ k ∈ paa, k.length = KEY_IDENTIFIER_LEN) →
    acc.length + paa.length ≤ MAX_AUTHORIZED_PAA_LIST →
    paaLoop ((childSuffixes (Values.ofList (paaValues paa)) X).map .ok) acc = .ok (acc.reverse ++ paa)
  | [], acc, X, _, _ => by simp [paaValues, Values.ofList, childSuffixes, paaLoop]
  | k :: rest, acc, X, hk, hl => by
    simp only [paaValues, List.map_cons, Values.ofList, childSuffixes, paaLoop, ofRes]
    simp only [List.length_cons] at hl
    have hkl := hk k (by simp)
    have hwf : (Prim.mkStr k).wf := mkStr_wf k (by rw [hkl]; decide)
    have h2 : ∀ Y, strOf (encode (.leaf .anon (Prim.mkStr k)) ++ Y) = .ok k := fun Y => (str_roundtrip .anon _ k Y hwf).1
    rw [if_neg (by omega), h2]
    simp only
    rw [if_neg (by simp [hkl])]
    have := paaLoop_children rest (k :: acc) X (fun q hq => hk q (by simp [hq])) (by simp only [List.length_cons]; omega)
    simp only [paaValues] at this
    rw [this]
    simp

theorem ofList_depth_bound : ∀ (l : List Value) (d : Nat), (∀ v ∈ l, v.depth ≤ d) → (Values.ofList l).depth ≤ d
  | [], _, _ => by simp [Values.ofList, Values.depth]
  | v :: rest, d, h => by
    simp only [Values.ofList, Values.depth]
    have h1 := h v (by simp)
    have h2 := ofList_depth_bound rest d (fun x hx => h x (by simp [hx]))
    omega

theorem uintLeaf_ctx (t n : Nat) (ht : t < 256) (hn : n < 2 ^ 64) : CtxVal (uintLeaf t n) :=
  ⟨t, rfl, ht, ⟨ht, mkUint_wf n hn⟩⟩

theorem pidValues_wf (pids : List Nat) (h : ∀ p ∈ pids, p < 2 ^ 16) : (Values.ofList (pidValues pids)).wf := by
  refine ofList_wf _ (fun v hv => ?_)
  simp only [pidValues, List.mem_map] at hv
  obtain ⟨p, hp, rfl⟩ := hv
  exact ⟨trivial, mkUint_wf p (by have := h p hp; omega)⟩

theorem paaValues_wf (paa : List Bytes) (h : ∀ k ∈ paa, k.length = KEY_IDENTIFIER_LEN) :
    (Values.ofList (paaValues paa)).wf := by
  refine ofList_wf _ (fun v hv => ?_)
  simp only [paaValues, List.mem_map] at hv
  obtain ⟨k, hk, rfl⟩ := hv
  exact ⟨trivial, mkStr_wf k (by rw [h k hk]; decide)⟩

theorem leaves_depth (l : List Value) (h : ∀ v ∈ l, ∃ t p, v = .leaf t p) : (Values.ofList l).depth ≤ 1 :=
  ofList_depth_bound l 1 (fun v hv => by obtain ⟨t, p, rfl⟩ := h v hv; simp [Value.depth])

theorem three_lt_usize : 3 < USIZE := by decide
/-- the container walk counts nesting in an `i32` (C16): depth bounds are stated against `i32::MAX + 1` -/
theorem three_lt_i32lim : 3 < I32LIM := by unfold I32LIM; omega

/-- the nine mandatory fields -/
def fixedFields (c : Elements) : List Value :=
  [uintLeaf 0 c.formatVersion, uintLeaf 1 c.vendorId,
   .cont (.ctx 2) .array (Values.ofList (pidValues c.productIds)),
   uintLeaf 3 c.deviceTypeId, .leaf (.ctx 4) (Prim.mkUtf8 c.certificateId),
   uintLeaf 5 c.securityLevel, uintLeaf 6 c.securityInformation, uintLeaf 7 c.versionNumber,
   uintLeaf 8 c.certificationType]

theorem fieldList_eq (c : Elements) : fieldList c = fixedFields c ++ optFields c := rfl

theorem pidValues_depth (pids : List Nat) : (Values.ofList (pidValues pids)).depth ≤ 1 :=
  leaves_depth _ (fun v hv => by
    simp only [pidValues, List.mem_map] at hv
    obtain ⟨p, _, rfl⟩ := hv
    exact ⟨_, _, rfl⟩)

theorem paaValues_depth (paa : List Bytes) : (Values.ofList (paaValues paa)).depth ≤ 1 :=
  leaves_depth _ (fun v hv => by
    simp only [paaValues, List.mem_map] at hv
    obtain ⟨p, _, rfl⟩ := hv
    exact ⟨_, _, rfl⟩)

theorem fixedFields_ok (c : Elements) (h : c.Legal) : ∀ v ∈ fixedFields c, CtxVal v ∧ v.depth ≤ 2 := by
  obtain ⟨hfv, hvid, hp1, hp2, hpr, hdt, hcl, hcu, hsl, hsi, hvn, hct, hdac, hpa1, hpa2⟩ := h
  have hd := pidValues_depth c.productIds
  simp only [fixedFields, List.forall_mem_cons, List.not_mem_nil, false_imp_iff, implies_true, and_true]
  refine ⟨⟨uintLeaf_ctx 0 _ (by omega) (by omega), by simp [uintLeaf, Value.depth]⟩,
    ⟨uintLeaf_ctx 1 _ (by omega) (by omega), by simp [uintLeaf, Value.depth]⟩,
    ⟨⟨2, rfl, by omega, ⟨by simp [Tag.wf], pidValues_wf _ hpr⟩⟩, by simp only [Value.depth]; omega⟩,
    ⟨uintLeaf_ctx 3 _ (by omega) (by omega), by simp [uintLeaf, Value.depth]⟩,
    ⟨⟨4, rfl, by omega, ⟨by simp [Tag.wf], mkUtf8_wf _ (by rw [hcl]; decide) hcu⟩⟩, by simp [Value.depth]⟩,
    ⟨uintLeaf_ctx 5 _ (by omega) (by omega), by simp [uintLeaf, Value.depth]⟩,
    ⟨uintLeaf_ctx 6 _ (by omega) (by omega), by simp [uintLeaf, Value.depth]⟩,
    ⟨uintLeaf_ctx 7 _ (by omega) (by omega), by simp [uintLeaf, Value.depth]⟩,
    ⟨uintLeaf_ctx 8 _ (by omega) (by omega), by simp [uintLeaf, Value.depth]⟩⟩

theorem optFields_ok (c : Elements) (h : c.Legal) : ∀ v ∈ optFields c, CtxVal v ∧ v.depth ≤ 2 := by
  obtain ⟨hfv, hvid, hp1, hp2, hpr, hdt, hcl, hcu, hsl, hsi, hvn, hct, hdac, hpa1, hpa2⟩ := h
  have hd := paaValues_depth c.authorizedPaa
  intro v hv
  simp only [optFields, List.mem_append] at hv
  rcases hv with hv | hv
  · cases hd' : c.dacOrigin with
    | none => simp [hd'] at hv
    | some x =>
      obtain ⟨a, b⟩ := x
      have := hdac _ hd'
      simp only [hd', List.mem_cons, List.not_mem_nil, or_false] at hv
      rcases hv with rfl | rfl
      · exact ⟨uintLeaf_ctx 9 _ (by omega) (by omega), by simp [uintLeaf, Value.depth]⟩
      · exact ⟨uintLeaf_ctx 10 _ (by omega) (by omega), by simp [uintLeaf, Value.depth]⟩
  · split at hv
    · simp at hv
    · simp only [List.mem_cons, List.not_mem_nil, or_false] at hv
      subst hv
      exact ⟨⟨11, rfl, by omega, ⟨by simp [Tag.wf], paaValues_wf _ hpa2⟩⟩, by simp only [Value.depth]; omega⟩

theorem optFields_tags (c : Elements) (tag : Nat) (ht : tag ≤ 8) : ∀ v ∈ optFields c, ctxTagOf v ≠ some tag := by
  intro v hv
  simp only [optFields, List.mem_append] at hv
  rcases hv with hv | hv
  · cases hd' : c.dacOrigin with
    | none => simp [hd'] at hv
    | some x =>
      obtain ⟨a, b⟩ := x
      simp only [hd', List.mem_cons, List.not_mem_nil, or_false] at hv
      rcases hv with rfl | rfl <;> simp [ctxTagOf, uintLeaf, Value.tag] <;> omega
  · split at hv
    · simp at hv
    · simp only [List.mem_cons, List.not_mem_nil, or_false] at hv
      subst hv
      simp [ctxTagOf, Value.tag]; omega

theorem structOf_encode (c : Elements) :
    structOf (encodeElements c) = .ok (encodes (Values.ofList (fieldList c)) ++ [endByte]) := by
  have := enter_cont .struct .anon (Values.ofList (fieldList c)) []
  simpa [TlvSchema.enter, encodeElements, toValue] using this

/-- **CD content round trip**: the TLV structure the model encoder writes for legal elements (Matter 6.3.1 layout,
shortest-form integers, optional DAC-origin pair and PAA list) decodes to exactly these elements -/
theorem decode_encode (c : Elements) (h : c.Legal) : decode (encodeElements c) = .ok c := by
  have hfo := fixedFields_ok c h
  have hoo := optFields_ok c h
  obtain ⟨hfv, hvid, hp1, hp2, hpr, hdt, hcl, hcu, hsl, hsi, hvn, hct, hdac, hpa1, hpa2⟩ := h
  have hall : ∀ v ∈ fieldList c, CtxVal v ∧ v.depth ≤ 2 := by
    intro v hv
    rw [fieldList_eq, List.mem_append] at hv
    rcases hv with hv | hv
    · exact hfo v hv
    · exact hoo v hv
  have hdep : (Values.ofList (fieldList c)).depth + 1 < I32LIM := by
    have := ofList_depth_bound (fieldList c) 2 (fun v hv => (hall v hv).2)
    have := three_lt_i32lim
    omega
  have hfind : ∀ tag, findCtx (encodes (Values.ofList (fieldList c)) ++ [endByte]) tag
      = .ok (suffixAt (fieldList c) tag []) := fun tag => findCtx_fields _ tag [] (fun v hv => (hall v hv).1) hdep
  have hfix : ∀ (pre post : List Value) (v : Value) (tag : Nat), fixedFields c = pre ++ v :: post →
      (∀ x ∈ pre, ctxTagOf x ≠ some tag) → v.tag = .ctx tag →
      findCtx (encodes (Values.ofList (fieldList c)) ++ [endByte]) tag
        = .ok (encode v ++ (encodes (Values.ofList (post ++ optFields c)) ++ [endByte])) := by
    intro pre post v tag hsplit hpre hv
    rw [hfind, fieldList_eq, hsplit, List.append_assoc, List.cons_append]
    exact congrArg Res.ok (suffixAt_at pre (post ++ optFields c) v tag [] hpre hv)
  have hopt : ∀ tag, 9 ≤ tag → findCtx (encodes (Values.ofList (fieldList c)) ++ [endByte]) tag
      = .ok (suffixAt (optFields c) tag []) := by
    intro tag ht
    rw [hfind, fieldList_eq]
    refine congrArg Res.ok (suffixAt_skip _ _ tag [] (fun x hx => ?_))
    simp only [fixedFields, List.mem_cons, List.not_mem_nil, or_false] at hx
    rcases hx with rfl | rfl | rfl | rfl | rfl | rfl | rfl | rfl | rfl <;>
      simp [ctxTagOf, uintLeaf, Value.tag] <;> omega
  -- the individual lookups
  have h0 : uintAt Tlv.u16 (encodes (Values.ofList (fieldList c)) ++ [endByte]) 0 = .ok c.formatVersion := by
    unfold uintAt
    rw [hfix [] _ (uintLeaf 0 c.formatVersion) 0 rfl (by simp) rfl]
    simp only [ofRes, Bind.bind, Except.bind, uintLeaf]
    rw [mkUint_u16 _ _ _ (by omega)]
  have h1 : uintAt Tlv.u16 (encodes (Values.ofList (fieldList c)) ++ [endByte]) 1 = .ok c.vendorId := by
    unfold uintAt
    rw [hfix [uintLeaf 0 c.formatVersion] _ (uintLeaf 1 c.vendorId) 1 rfl (by simp [ctxTagOf, uintLeaf, Value.tag]) rfl]
    simp only [ofRes, Bind.bind, Except.bind, uintLeaf]
    rw [mkUint_u16 _ _ _ hvid]
  have h3 : uintAt Tlv.u32 (encodes (Values.ofList (fieldList c)) ++ [endByte]) 3 = .ok c.deviceTypeId := by
    unfold uintAt
    rw [hfix [uintLeaf 0 c.formatVersion, uintLeaf 1 c.vendorId,
        .cont (.ctx 2) .array (Values.ofList (pidValues c.productIds))] _ (uintLeaf 3 c.deviceTypeId) 3 rfl
      (by simp [ctxTagOf, uintLeaf, Value.tag]) rfl]
    simp only [ofRes, Bind.bind, Except.bind, uintLeaf]
    rw [mkUint_u32 _ _ _ hdt]
  have h5 : uintAt Tlv.u8 (encodes (Values.ofList (fieldList c)) ++ [endByte]) 5 = .ok c.securityLevel := by
    unfold uintAt
    rw [hfix [uintLeaf 0 c.formatVersion, uintLeaf 1 c.vendorId,
        .cont (.ctx 2) .array (Values.ofList (pidValues c.productIds)), uintLeaf 3 c.deviceTypeId,
        .leaf (.ctx 4) (Prim.mkUtf8 c.certificateId)] _ (uintLeaf 5 c.securityLevel) 5 rfl
      (by simp [ctxTagOf, uintLeaf, Value.tag]) rfl]
    simp only [ofRes, Bind.bind, Except.bind, uintLeaf]
    rw [mkUint_u8 _ _ _ hsl]
  have h6 : uintAt Tlv.u16 (encodes (Values.ofList (fieldList c)) ++ [endByte]) 6 = .ok c.securityInformation := by
    unfold uintAt
    rw [hfix [uintLeaf 0 c.formatVersion, uintLeaf 1 c.vendorId,
        .cont (.ctx 2) .array (Values.ofList (pidValues c.productIds)), uintLeaf 3 c.deviceTypeId,
        .leaf (.ctx 4) (Prim.mkUtf8 c.certificateId), uintLeaf 5 c.securityLevel] _
      (uintLeaf 6 c.securityInformation) 6 rfl (by simp [ctxTagOf, uintLeaf, Value.tag]) rfl]
    simp only [ofRes, Bind.bind, Except.bind, uintLeaf]
    rw [mkUint_u16 _ _ _ hsi]
  have h7 : uintAt Tlv.u16 (encodes (Values.ofList (fieldList c)) ++ [endByte]) 7 = .ok c.versionNumber := by
    unfold uintAt
    rw [hfix [uintLeaf 0 c.formatVersion, uintLeaf 1 c.vendorId,
        .cont (.ctx 2) .array (Values.ofList (pidValues c.productIds)), uintLeaf 3 c.deviceTypeId,
        .leaf (.ctx 4) (Prim.mkUtf8 c.certificateId), uintLeaf 5 c.securityLevel, uintLeaf 6 c.securityInformation] _
      (uintLeaf 7 c.versionNumber) 7 rfl (by simp [ctxTagOf, uintLeaf, Value.tag]) rfl]
    simp only [ofRes, Bind.bind, Except.bind, uintLeaf]
    rw [mkUint_u16 _ _ _ hvn]
  have h8 : uintAt Tlv.u8 (encodes (Values.ofList (fieldList c)) ++ [endByte]) 8 = .ok c.certificationType := by
    unfold uintAt
    rw [hfix [uintLeaf 0 c.formatVersion, uintLeaf 1 c.vendorId,
        .cont (.ctx 2) .array (Values.ofList (pidValues c.productIds)), uintLeaf 3 c.deviceTypeId,
        .leaf (.ctx 4) (Prim.mkUtf8 c.certificateId), uintLeaf 5 c.securityLevel, uintLeaf 6 c.securityInformation,
        uintLeaf 7 c.versionNumber] [] (uintLeaf 8 c.certificationType) 8 rfl
      (by simp [ctxTagOf, uintLeaf, Value.tag]) rfl]
    simp only [ofRes, Bind.bind, Except.bind, uintLeaf]
    rw [mkUint_u8 _ _ _ (by omega)]
  have hpid : parseProductIds (encodes (Values.ofList (fieldList c)) ++ [endByte]) = .ok c.productIds := by
    unfold parseProductIds
    rw [hfix [uintLeaf 0 c.formatVersion, uintLeaf 1 c.vendorId] _
      (.cont (.ctx 2) .array (Values.ofList (pidValues c.productIds))) 2 rfl (by simp [ctxTagOf, uintLeaf, Value.tag]) rfl]
    have he := enter_cont .array (.ctx 2) (Values.ofList (pidValues c.productIds))
    simp only [TlvSchema.enter] at he
    simp only [ofRes, Bind.bind, Except.bind, he]
    rw [elements_encodes _ _ (pidValues_wf _ hpr) (by have := pidValues_depth c.productIds; have := three_lt_i32lim; omega),
      show pidLoop _ [] = .ok c.productIds from by simpa using pidLoop_children c.productIds [] _ hpr (by simpa using hp2)]
    simp only
    split
    · omega
    · rfl
  have hcid : parseCertificateId (encodes (Values.ofList (fieldList c)) ++ [endByte]) = .ok c.certificateId := by
    unfold parseCertificateId
    rw [hfix [uintLeaf 0 c.formatVersion, uintLeaf 1 c.vendorId,
        .cont (.ctx 2) .array (Values.ofList (pidValues c.productIds)), uintLeaf 3 c.deviceTypeId] _
      (.leaf (.ctx 4) (Prim.mkUtf8 c.certificateId)) 4 rfl (by simp [ctxTagOf, uintLeaf, Value.tag]) rfl]
    have hu : ∀ Y, utf8Of (encode (.leaf (.ctx 4) (Prim.mkUtf8 c.certificateId)) ++ Y) = .ok c.certificateId :=
      fun Y => utf8_roundtrip _ _ _ Y (mkUtf8_wf _ (by rw [hcl]; decide) hcu)
    simp only [ofRes, Bind.bind, Except.bind, hu]
    rw [if_neg (by simp [hcl])]
    rfl
  have hdacv : parseDacOrigin (encodes (Values.ofList (fieldList c)) ++ [endByte]) = .ok c.dacOrigin := by
    unfold parseDacOrigin
    rw [hopt 9 (by omega), hopt 10 (by omega)]
    cases hd' : c.dacOrigin with
    | none =>
      have e9 : suffixAt (optFields c) 9 [] = [] := by
        simp only [optFields, hd', List.nil_append]
        split <;> simp [suffixAt, ctxTagOf, Value.tag]
      have e10 : suffixAt (optFields c) 10 [] = [] := by
        simp only [optFields, hd', List.nil_append]
        split <;> simp [suffixAt, ctxTagOf, Value.tag]
      simp [ofRes, Bind.bind, Except.bind, e9, e10, Pure.pure, Except.pure]
    | some x =>
      obtain ⟨a, b⟩ := x
      have hab := hdac _ hd'
      have e9 : ∃ Y, suffixAt (optFields c) 9 [] = encode (.leaf (.ctx 9) (Prim.mkUint a)) ++ Y := by
        simp only [optFields, hd', List.cons_append, List.nil_append, suffixAt, ctxTagOf, uintLeaf, Value.tag, if_true]
        exact ⟨_, rfl⟩
      have e10 : ∃ Y, suffixAt (optFields c) 10 [] = encode (.leaf (.ctx 10) (Prim.mkUint b)) ++ Y := by
        simp only [optFields, hd', List.cons_append, List.nil_append, suffixAt, ctxTagOf, uintLeaf, Value.tag]
        simp only [Option.some.injEq, show (9 : Nat) ≠ 10 by decide, if_false, if_true]
        exact ⟨_, rfl⟩
      obtain ⟨Y9, e9⟩ := e9
      obtain ⟨Y10, e10⟩ := e10
      have hne9 : (encode (.leaf (.ctx 9) (Prim.mkUint a)) ++ Y9).isEmpty = false := by
        simp [encode, header]
      have hne10 : (encode (.leaf (.ctx 10) (Prim.mkUint b)) ++ Y10).isEmpty = false := by
        simp [encode, header]
      simp only [ofRes, Bind.bind, Except.bind, e9, e10, hne9, hne10, ne_eq, not_true_eq_false, if_false,
        Bool.not_false, if_true, mkUint_u16 _ a _ hab.1, mkUint_u16 _ b _ hab.2, Pure.pure, Except.pure]
  have hpaa : parseAuthorizedPaa (encodes (Values.ofList (fieldList c)) ++ [endByte]) = .ok c.authorizedPaa := by
    unfold parseAuthorizedPaa
    rw [hopt 11 (by omega)]
    by_cases hem : c.authorizedPaa = []
    · have e11 : suffixAt (optFields c) 11 [] = [] := by
        simp only [optFields, hem, if_true, List.append_nil]
        cases c.dacOrigin with
        | none => rfl
        | some x => simp [suffixAt, ctxTagOf, uintLeaf, Value.tag]
      simp [ofRes, Bind.bind, Except.bind, e11, hem, Pure.pure, Except.pure]
    · have e11 : suffixAt (optFields c) 11 [] =
          encode (.cont (.ctx 11) .array (Values.ofList (paaValues c.authorizedPaa))) ++ (encodes .nil ++ [endByte]) := by
        simp only [optFields, hem, if_false]
        cases c.dacOrigin with
        | none => simp [suffixAt, ctxTagOf, Value.tag, Values.ofList]
        | some x => simp [suffixAt, ctxTagOf, uintLeaf, Value.tag, Values.ofList]
      have he := enter_cont .array (.ctx 11) (Values.ofList (paaValues c.authorizedPaa))
      simp only [TlvSchema.enter] at he
      have hne : (encode (.cont (.ctx 11) .array (Values.ofList (paaValues c.authorizedPaa))) ++ (encodes .nil ++ [endByte])).isEmpty = false := by
        simp [encode, header]
      simp only [ofRes, Bind.bind, Except.bind, e11, hne, Bool.not_false, if_true, he]
      rw [elements_encodes _ _ (paaValues_wf _ hpa2) (by have := paaValues_depth c.authorizedPaa; have := three_lt_i32lim; omega),
        show paaLoop _ [] = .ok c.authorizedPaa from by simpa using paaLoop_children c.authorizedPaa [] _ hpa2 (by simpa using hpa1)]
  unfold decode
  rw [structOf_encode]
  simp only [ofRes, Bind.bind, Except.bind, h0, h1, h3, h5, h6, h7, h8, hpid, hcid, hdacv, hpaa]
  rw [if_neg (by simp [hfv]), if_neg (by omega)]
  rfl


end Codec.Cd
