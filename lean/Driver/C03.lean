import RsMatterVerif.Model.SecureMsg
import Driver.Util
/-! Driver for C03: replays the harness' session set-up, encodings and deliveries on
`Model/SecureMsg` (ideal AEAD table filled with the cipher texts the real code produced) and
evaluates the specification — *handed on only if authentic for that session; otherwise that
session's state is untouched; what was encoded is what is decoded* — on the implementation's own
answers. -/
namespace Driver.C03
open SecureMsg

def hexDigit (c : Char) : Nat :=
  if '0' ≤ c ∧ c ≤ '9' then c.toNat - '0'.toNat
  else if 'a' ≤ c ∧ c ≤ 'f' then c.toNat - 'a'.toNat + 10
  else if 'A' ≤ c ∧ c ≤ 'F' then c.toNat - 'A'.toNat + 10
  else 0

def hexNat (s : String) : Nat := s.foldl (fun a c => a * 16 + hexDigit c) 0

def unhex (s : String) : Bytes :=
  if s = "-" then [] else
  let rec go : List Char → Bytes
    | a :: b :: r => (hexDigit a * 16 + hexDigit b) :: go r
    | _ => []
  go s.toList

def hexChar (n : Nat) : Char := if n < 10 then Char.ofNat (48 + n) else Char.ofNat (87 + n)

def toHexNat (n : Nat) : String :=
  if n = 0 then "0" else
  let rec go (fuel n : Nat) (acc : List Char) : List Char :=
    match fuel with
    | 0 => acc
    | f + 1 => if n = 0 then acc else go f (n / 16) (hexChar (n % 16) :: acc)
  String.ofList (go 20 n [])

def hexBytes (b : Bytes) : String :=
  if b.isEmpty then "-" else String.ofList (b.flatMap fun x => [hexChar (x / 16), hexChar (x % 16)])

abbrev KV := List (String × String)

def kvOf (ws : List String) : KV :=
  ws.filterMap fun w =>
    match w.splitOn "=" with
    | k :: v :: rest => some (k, "=".intercalate (v :: rest))
    | _ => none

def KV.get (m : KV) (k : String) : Option String := (m.find? (·.1 = k)).map (·.2)
def KV.num (m : KV) (k : String) : Nat := ((m.get k).bind String.toNat?).getD 0
def KV.hexOpt (m : KV) (k : String) : Option Nat :=
  match m.get k with
  | none => none
  | some "-" => none
  | some v => some (hexNat v)

def modeOf (s : String) : Mode :=
  match s.toList with
  | 'P' :: _ => .pase
  | 'C' :: _ => .case
  | 'G' :: r => .group ((String.ofList r).toNat?.getD 0)
  | _ => .plain

def exchsOf (s : String) : List Exch :=
  (s.splitOn ",").filterMap fun e =>
    let cs := e.toList
    if cs.length < 2 then none else
    let id := (String.ofList cs.dropLast).toNat?.getD 0
    some { id := id, responder := cs.getLast? != some 'I' }

def sessOf (m : KV) : Session :=
  { addr := m.num "a", localNode := (m.hexOpt "ln").getD 0, peerNode := m.hexOpt "pn",
    decKey := m.num "dk", encKey := m.num "ek", localSid := m.num "ls", peerSid := m.num "ps",
    txCtr := m.num "tx" % 268435456, mode := modeOf ((m.get "m").getD "N"),
    exchs := (match m.get "ex" with | some e => exchsOf e | none => []),
    expired := m.num "expired" = 1 }

def optStr : Option Nat → String
  | some n => toString n
  | none => "-"

def exSum (e : Exch) : String :=
  s!"{e.id}/{if e.responder then "R" else "I"}/{optStr e.retrans}/{optStr e.ack}"

def sessSummary (s : Session) (hideTx : Bool) : String :=
  let tx := if hideTx then "?" else toString s.txCtr
  s!"rx={s.rx.max}:{s.rx.bitmap}:{if s.rx.synced then 1 else 0};tx={tx};ex=[{",".intercalate (s.exchs.map exSum)}]"

def payloadOf (len seed : Nat) : Bytes :=
  (List.range len).map fun i => (seed * 31 + i * 7 + (i / 256) * 13) % 256

def hdrStr (h : PacketHdr) : String :=
  let p := h.plain
  let x := h.proto
  s!"{p.flags}:{p.sessId}:{p.secFlags}:{p.ctr}:{toHexNat p.src}:{toHexNat p.dst}/{x.exchFlags}:{x.opcode}:{x.exchId}:{x.protoId}:{x.vendor}:{x.ack}"

structure Dg where
  name : String
  bytes : Bytes
  hdrLen : Nat

structure St where
  node : Node := []
  /-- the sessions as installed (specification side: keys / peer ids never change) -/
  decl : List Session := []
  senders : List (String × Session) := []
  dgs : List Dg := []
  tbl : Aead := []
  hashes : List String := []
  sums : List String := []

def modelSums (st : St) (n : Node) : List String :=
  (List.range n.length).map fun i =>
    match n[i]? with
    | some s => sessSummary s (i ≥ st.decl.length)
    | none => ""

def flipBit (d : Bytes) (bit : Nat) : Option Bytes :=
  if bit / 8 < d.length then
    some (d.modify (bit / 8) (fun b => b ^^^ (1 <<< (bit % 8))))
  else none

def xorAt (d : Bytes) (off : Nat) (x : Bytes) : Bytes :=
  (List.range d.length).zipWith (fun i b => if off ≤ i ∧ i < off + x.length then b ^^^ (x.getD (i - off) 0) else b) d

def mutate (st : St) (d : Dg) (m : String) : Option Bytes :=
  match m.splitOn ":" with
  | ["none"] => some d.bytes
  | ["flip", b] => b.toNat?.bind (flipBit d.bytes)
  | ["trunc", n] => n.toNat?.map (d.bytes.take ·)
  | ["ext", h] => some (d.bytes ++ unhex h)
  | ["xor", off, h] => off.toNat?.map (xorAt d.bytes · (unhex h))
  | ["hdr", other] =>
    (st.dgs.find? (·.name = other)).map fun o => o.bytes.take o.hdrLen ++ d.bytes.drop d.hdrLen
  | _ => none

/-- the impl's answer split into (result + decoded part, hashes, changed summaries) -/
def splitOut (out : String) : String × List String × List (Nat × String) :=
  let ws := words out
  let head := ws.filter fun w => !(w.startsWith "S=") && !(w.startsWith "C")
  let hs := match ws.find? (·.startsWith "S=") with
    | some w => let v := (w.drop 2).toString; if v = "-" then [] else v.splitOn ","
    | none => []
  let cs := ws.filterMap fun w =>
    if w.startsWith "C" then
      match ((w.drop 1).toString).splitOn "=" with
      | i :: rest => i.toNat?.map (·, "=".intercalate rest)
      | _ => none
    else none
  (" ".intercalate head, hs, cs)

def applyChanges (sums : List String) (cs : List (Nat × String)) : List String :=
  cs.foldl (fun acc (i, s) => if i < acc.length then acc.set i s else acc ++ [s]) sums

/-- parse the decoded part `h=<plain>/<proto> p=<hex>` of an accepted delivery -/
def parseAccepted (head : String) : Option (PlainHdr × ProtoHdr × Bytes) :=
  let m := kvOf (words head)
  match m.get "h", m.get "p" with
  | some h, some p =>
    match h.splitOn "/" with
    | [a, b] =>
      match a.splitOn ":", b.splitOn ":" with
      | [pf, sid, sf, ctr, src, dst], [xf, op, xid, pid, vid, ack] =>
        let n (s : String) := s.toNat?.getD 0
        some ({ flags := n pf, sessId := n sid, secFlags := n sf, ctr := n ctr, src := hexNat src, dst := hexNat dst },
              { exchFlags := n xf, opcode := n op, exchId := n xid, protoId := n pid, vendor := n vid, ack := n ack },
              unhex p)
      | _, _ => none
    | _ => none
  | _, _ => none

def outcomeStr : Outcome → String
  | .err e => s!"err:{e.name}"
  | .ok _ nw h p => s!"ok:{if nw then "new" else "old"} h={hdrStr h} p={hexBytes p}"

/-- The property's specification evaluated on the implementation's answer to one delivery.
`dg` = the bytes delivered, `old/new` = state hashes before / after, `head` = result (+ decoded part). -/
def oracle (st : St) (dg : Bytes) (head : String) (old new : List String) : Option String :=
  let changed := (List.range new.length).filter fun i => old[i]? != new[i]?
  let isSecure (i : Nat) : Bool := match st.decl[i]? with | some s => s.isEncrypted | none => false
  let authentic (i : Nat) : Bool := match st.decl[i]? with | some s => authenticForB st.tbl s dg | none => false
  if head.startsWith "panic" then some "panic while decoding a datagram" else
  -- (1) a session for which the datagram is not authentic keeps its counters, exchanges and keys
  match (List.range st.decl.length).find? (fun i => isSecure i && !authentic i && changed.contains i) with
  | some i => some s!"state of secure session {i} changed by a datagram that is not authentic for it"
  | none =>
    if new.length < old.length then some "a session disappeared" else
    if !head.startsWith "ok" then none else
    -- (2) handed on: to exactly one session; if that is a secure one the datagram is authentic for it
    --     and the decoded header fields and payload are the encoded ones
    match changed with
    | [i] =>
      if !isSecure i then none else
      if !authentic i then some s!"handed to secure session {i} although not authentic for it" else
      match parseAccepted head, st.decl[i]? with
      | some (pl, px, payload), some s =>
        let okRec := st.tbl.any fun rec =>
          rec.key == s.decKey && dg == rec.aad ++ rec.ct && rec.aad == pl.encode
            && rec.pt == px.encode ++ payload
        if okRec then none else some s!"decoded header/payload differ from what was encoded (session {i})"
      | _, _ => some "accepted delivery without decoded header"
    | [] => some "handed on but no session state moved (receive window not updated)"
    | _ => some s!"handed on but several sessions changed: {changed}"

def step (st : St) (line : String) : St × String :=
  let (op, out) := splitArrow line
  if out = "skip" then (st, "ok") else
  match words op with
  | "case" :: _ => ({}, "case")
  | "s" :: rest =>
    let s := sessOf (kvOf rest)
    let st' := { st with node := st.node ++ [s], decl := st.decl ++ [s] }
    match words out with
    | ["ok", sum, h] =>
      let st' := { st' with hashes := st.hashes ++ [(h.drop 1).toString], sums := st.sums ++ [sum] }
      if sum = sessSummary s false then (st', "ok") else (st', s!"DIS {sessSummary s false}")
    | _ => (st', s!"DIS ok {sessSummary s false}")
  | "t" :: name :: rest =>
    ({ st with senders := (name, sessOf (kvOf rest)) :: st.senders.filter (·.1 ≠ name) }, if out = "ok" then "ok" else "DIS ok")
  | "x" :: name :: rest =>
    let m := kvOf rest
    match st.senders.find? (·.1 = (m.get "t").getD "") with
    | none => (st, "DIS skip")
    | some (tn, s) =>
      let h0 : PacketHdr :=
        { plain := { flags := m.num "pf", sessId := m.num "sid", secFlags := m.num "sf", ctr := m.num "ctr",
                     src := (m.hexOpt "src").getD 0, dst := (m.hexOpt "dst").getD 0 },
          proto := { exchFlags := m.num "xf", opcode := m.num "op", exchId := m.num "xid", protoId := m.num "pid",
                     vendor := m.num "vid", ack := m.num "ack" } }
      if !fromBits MSGFLAGS_ALL h0.plain.flags || !fromBits SECFLAGS_ALL h0.plain.secFlags
          || !fromBits EXCHFLAGS_ALL h0.proto.exchFlags then
        (st, if out = "err BadFlags" then "ok" else "DIS err BadFlags")
      else
      let pre : Except Err (PacketHdr × Session) :=
        if m.get "k" = some "pre" then s.preSend h0 else .ok (h0, s)
      match pre with
      | .error e => (st, if out = s!"err {e.name}" then "ok" else s!"DIS err {e.name}")
      | .ok (h, s') =>
        let payload := payloadOf (m.num "pl") (m.num "ps")
        let st := { st with senders := (tn, s') :: st.senders.filter (·.1 ≠ tn) }
        match words out with
        | ["dg", hx] =>
          let d := unhex hx
          let plainBytes := h.plain.encode
          let ct := d.drop plainBytes.length
          let (mdg, rec) := s'.encode h payload ct
          let lenOk := match rec with
            | some r => d.length = plainBytes.length + r.pt.length + TAG_LEN
            | none => true
          if mdg != d || !lenOk then
            (st, s!"DIS dg {hexBytes plainBytes}.. len={plainBytes.length + (h.proto.encode ++ payload).length + (if rec.isSome then TAG_LEN else 0)}")
          else
            let dgRec : Dg := { name := name, bytes := d, hdrLen := plainBytes.length }
            let st := { st with dgs := dgRec :: st.dgs.filter (·.name ≠ name) }
            match rec with
            | some r =>
              -- ideal-AEAD assumption made explicit: cipher texts of distinct encryptions are distinct
              if st.tbl.any (fun q => q.ct == r.ct && q != r) then (st, "BAD cipher text collision (ideal-AEAD assumption)")
              else ({ st with tbl := r :: st.tbl }, "ok")
            | none => (st, "ok")
        | _ => (st, s!"DIS dg {hexBytes h.plain.encode}..")
  | "r" :: name :: rest =>
    let m := kvOf rest
    match st.dgs.find? (·.name = name) with
    | none => (st, "DIS skip")
    | some d =>
      match mutate st d ((m.get "m").getD "none") with
      | none => (st, "DIS skip")
      | some bytes =>
        let (head, newHashes, cs) := splitOut out
        let sums' := applyChanges st.sums cs
        let (o, node') := receive st.tbl st.node (m.num "a") bytes
        let ora := oracle st bytes head st.hashes newHashes
        let msums := modelSums st node'
        let st' := { st with node := node', hashes := newHashes, sums := sums' }
        match ora with
        | some why => (st', s!"ORA {why}")
        | none =>
          if outcomeStr o != head then (st', s!"DIS {outcomeStr o}")
          else if msums != sums' then (st', s!"DIS state {msums}")
          else (st', "ok")
  | _ => (st, "BAD op")

def run : IO UInt32 := Driver.runLoop ({} : St) step

end Driver.C03
