import RsMatterVerif.Lemmas.Chunk
import RsMatterVerif.Model.ChunkCursor
/-!
# The cursor-level model of the attribute section refines the size-level model (C14)

`Sim`: the bytes in the transmit buffer are header + array start + the bytes of the COMPLETE reports of
the open chunk of the size-level state, the messages sent are those of its finished chunks.
`cputAttrs_sim`: erasing the cursor / rewind bookkeeping from a run of `Model/ChunkCursor.lean`
(`stale := false`) gives the run of `Model/Chunk.lean` — for every partial-write function, every
garbage in the buffer; the fuel of the loops is never exhausted.
`stale_rewind_breaks_reassembly`: for the seeded variant C14-a the statement fails.
-/
namespace Chunk

/-! ## bytes -/

theorem cellsOf_length (src : Src) (n : Nat) : (cellsOf src n).length = n := by simp [cellsOf]

theorem Piece.cells_length (p : Piece) : p.cells.length = p.size := cellsOf_length _ _

theorem frame_length (c : Cfg) : (frame c).length = c.hdr + c.arrOpen := by
  simp [frame, cellsOf_length]

/-- the bytes of a message that carries exactly the reports `ps`, up to the trailer -/
def body (c : Cfg) (ps : List Piece) : List Cell := frame c ++ ps.flatMap Piece.cells

theorem body_snoc (c : Cfg) (ps : List Piece) (p : Piece) : body c (ps ++ [p]) = body c ps ++ p.cells := by
  simp [body, List.flatMap_append]

theorem flatMap_cells_length (ps : List Piece) : (ps.flatMap Piece.cells).length = sumSizes ps := by
  induction ps with
  | nil => rfl
  | cons p ps ih =>
    rw [List.flatMap_cons, List.length_append, Piece.cells_length, sumSizes_cons, ih]

theorem body_length (c : Cfg) (ps : List Piece) : (body c ps).length = c.hdr + c.arrOpen + sumSizes ps := by
  rw [body, List.length_append, frame_length, flatMap_cells_length]

/-! ## the write buffer -/

theorem WB.push_live (w : WB) (cs : List Cell) : (w.push cs).live = w.live ++ cs := rfl

/-- **a rewind to a position remembered before a write drops exactly what the write left**, however
much of it reached the buffer -/
theorem WB.rewind_push_live (w : WB) (cs : List Cell) : ((w.push cs).rewindTo w.tail).live = w.live := by
  simp [WB.push, WB.rewindTo, WB.tail, List.append_assoc]

theorem WB.put_fit {w : WB} {lim n : Nat} (pw : PW) (src : Src) (h : w.tail + n ≤ lim) :
    w.put lim pw src n = (w.push (cellsOf src n), true) := by
  simp [WB.put, h]

theorem WB.put_nofit {w : WB} {lim n : Nat} (pw : PW) (src : Src) (h : ¬ w.tail + n ≤ lim) :
    ∃ cs, w.put lim pw src n = (w.push cs, false) := by
  simp only [WB.put, h, if_false]
  exact ⟨_, rfl⟩

/-! ## the simulation relation -/

/-- the cursor-level state `x` and the size-level state `s` describe the same situation: the bytes
that would be sent now are exactly header, array start and the bytes of the complete reports of the
open chunk — no partial report, nothing left over from an earlier message —, and the messages sent
so far are those of the finished chunks -/
structure Sim (c : Cfg) (x : CSt) (s : St) : Prop where
  live : x.wb.live = body c s.cur.reverse
  sent : x.sent = s.done.map fun ch => body c ch.pieces

theorem Sim.tail {c : Cfg} {x : CSt} {s : St} (h : Sim c x s) (hi : Inv c s) : x.wb.tail = s.used := by
  rw [WB.tail, h.live, body_length, sumSizes_reverse, hi.usedEq]

theorem sim_init (c : Cfg) (g : List Cell) : Sim c (CSt.init c g) (St.init c) := by
  refine ⟨?_, rfl⟩
  simp [CSt.init, WB.push, St.init, body]

theorem Sim.flush {c : Cfg} {x : CSt} {s : St} (h : Sim c x s) : Sim c (x.flush c) (s.flush c) := by
  refine ⟨?_, ?_⟩
  · simp [CSt.flush, WB.push, WB.rewindTo, St.flush, body]
  · simp [CSt.flush, St.flush, h.live, h.sent]

theorem flush_inv {c : Cfg} {s : St} (hw : c.WF) (hi : Inv c s) (hfr : s.fresh c = false) :
    Inv c (s.flush c) ∧ (s.flush c).fresh c = true := by
  have h := next_ok hw hi
  simp only [St.next, hfr, Bool.false_eq_true, if_false] at h
  exact ⟨h.1, by simp [St.fresh, h.2.2]⟩

theorem Sim.fresh {c : Cfg} {x : CSt} {s : St} (h : Sim c x s) (hi : Inv c s) :
    (x.wb.tail == c.hdr + c.arrOpen) = s.fresh c := by
  rw [h.tail hi]; rfl

/-- how results correspond -/
def RelS (c : Cfg) : Except Err CSt → Except Err St → Prop
  | .ok x, .ok s => Sim c x s
  | .error e, .error e2 => e = e2
  | _, _ => False

def RelB (c : Cfg) : Except Err (CSt × Bool) → Except Err (St × Bool) → Prop
  | .ok r, .ok r2 => r.2 = r2.2 ∧ Sim c r.1 r2.1
  | .error e, .error e2 => e = e2
  | _, _ => False

/-! ## `process_read` -/

theorem processRead_fit {c : Cfg} {x : CSt} {s : St} (pw : PW) (p : Piece) (h : Sim c x s) (hi : Inv c s)
    (hf : s.used + p.size ≤ c.limit) :
    (x.processRead c pw p).2 = true ∧ Sim c (x.processRead c pw p).1 (s.write p) := by
  have ht := h.tail hi
  have hp := WB.put_fit pw (.rep p) (w := x.wb) (lim := c.limit) (n := p.size) (by omega)
  simp only [CSt.processRead, hp, if_true]
  refine ⟨trivial, ?_, h.sent⟩
  simp only [WB.push_live, h.live, St.write, List.reverse_cons, body_snoc]
  rfl

/-- a report that does not fit leaves the buffer as it was: the rewind to the remembered tail drops
the part that was written -/
theorem processRead_nofit {c : Cfg} {x : CSt} {s : St} (pw : PW) (p : Piece) (h : Sim c x s) (hi : Inv c s)
    (hf : ¬ s.used + p.size ≤ c.limit) :
    (x.processRead c pw p).2 = false ∧ Sim c (x.processRead c pw p).1 s := by
  have ht := h.tail hi
  obtain ⟨cs, hp⟩ := WB.put_nofit pw (.rep p) (w := x.wb) (lim := c.limit) (n := p.size) (by omega)
  simp only [CSt.processRead, hp, Bool.false_eq_true, if_false]
  refine ⟨trivial, ?_, h.sent⟩
  simp only [WB.rewind_push_live, h.live]

/-! ## size-level case analysis of `put` / `endProbe` -/

theorem put_of_fit {c : Cfg} {s : St} (p st : Piece) (hf : s.used + p.size ≤ c.limit) :
    put c s p st = .ok (s.write p, false) := by
  simp [put, room, hf]

theorem next_of_fresh {c : Cfg} {s : St} (hfr : s.fresh c = true) : s.next c = s := by
  simp [St.next, hfr]

theorem next_of_not_fresh {c : Cfg} {s : St} (hfr : s.fresh c = false) : s.next c = s.flush c := by
  simp [St.next, hfr]

theorem put_of_fresh {c : Cfg} {s : St} (p st : Piece) (hf : ¬ s.used + p.size ≤ c.limit)
    (hfr : s.fresh c = true) :
    put c s p st = if s.used + st.size ≤ c.limit then .ok (s.write st, true) else .error .noSpace := by
  simp only [put, room, hf, if_false, next_of_fresh hfr, fallback]
  by_cases h2 : s.used + st.size ≤ c.limit
  · simp [h2]
  · simp [h2]

/-- when the report does not fit behind the reports of the open chunk, the chunk is sent and all
goes on as from the empty chunk -/
theorem put_flush_eq {c : Cfg} {s : St} (p st : Piece) (hf : ¬ s.used + p.size ≤ c.limit)
    (hfr : s.fresh c = false) (hfr2 : (s.flush c).fresh c = true) :
    put c s p st = put c (s.flush c) p st := by
  simp only [put, room, hf, if_false, next_of_not_fresh hfr, fallback, next_of_fresh hfr2]
  by_cases h2 : (s.flush c).used + p.size ≤ c.limit
  · simp [h2]
  · simp [h2]

theorem endProbe_of_fit {c : Cfg} {s : St} (id probe st : Nat) (hf : s.used + probe ≤ c.limit) :
    endProbe c s id probe st = .ok s := by
  simp [endProbe, room, hf]

theorem endProbe_of_fresh {c : Cfg} {s : St} (id probe st : Nat) (hf : ¬ s.used + probe ≤ c.limit)
    (hfr : s.fresh c = true) :
    endProbe c s id probe st =
      if s.used + (Piece.status id st).size ≤ c.limit then .ok (s.write (.status id st)) else .error .noSpace := by
  simp only [endProbe, room, hf, if_false, next_of_fresh hfr, fallback]

theorem endProbe_flush_eq {c : Cfg} {s : St} (id probe st : Nat) (hf : ¬ s.used + probe ≤ c.limit)
    (hfr : s.fresh c = false) (hfr2 : (s.flush c).fresh c = true) :
    endProbe c s id probe st = endProbe c (s.flush c) id probe st := by
  simp only [endProbe, room, hf, if_false, next_of_not_fresh hfr, fallback, next_of_fresh hfr2]
  by_cases h2 : (s.flush c).used + probe ≤ c.limit
  · simp [h2]
  · simp [h2]

/-! ## the item loop of `report_attributes` -/

theorem itemStep_fit {c : Cfg} {x : CSt} {s : St} (pw : PW) (rs : Nat) (p st : Piece) (isSt : Bool)
    (h : Sim c x s) (hi : Inv c s) (hf : s.used + (if isSt then st else p).size ≤ c.limit) :
    ∃ x1, itemStep c pw rs p st isSt x = .inr (.ok (x1, isSt)) ∧ Sim c x1 (s.write (if isSt then st else p)) := by
  obtain ⟨h1, h2⟩ := processRead_fit pw (if isSt then st else p) h hi hf
  exact ⟨_, by simp only [itemStep, h1, if_true], h2⟩

theorem itemStep_nofit {c : Cfg} {x : CSt} {s : St} (pw : PW) (p st : Piece) (isSt : Bool)
    (h : Sim c x s) (hi : Inv c s) (hf : ¬ s.used + (if isSt then st else p).size ≤ c.limit) :
    ∃ x1, Sim c x1 s ∧ itemStep c pw (c.hdr + c.arrOpen) p st isSt x =
      if s.fresh c then (if isSt then .inr (.error .noSpace) else .inl (true, x1)) else .inl (isSt, x1.flush c) := by
  obtain ⟨h1, h2⟩ := processRead_nofit pw (if isSt then st else p) h hi hf
  refine ⟨_, h2, ?_⟩
  simp only [itemStep, h1, Bool.false_eq_true, if_false, h2.fresh hi]

/-- the item was replaced by its error status and the message is empty: the status is written, or
the interaction fails -/
theorem itemLoop_status {c : Cfg} {x : CSt} {s : St} (pw : PW) (p st : Piece) (fuel : Nat)
    (h : Sim c x s) (hi : Inv c s) (hfr : s.fresh c = true) :
    RelB c (itemLoop c pw (c.hdr + c.arrOpen) p st (fuel + 1) true x)
      (if s.used + st.size ≤ c.limit then .ok (s.write st, true) else .error .noSpace) := by
  by_cases hf : s.used + st.size ≤ c.limit
  · obtain ⟨x1, e1, s1⟩ := itemStep_fit pw (c.hdr + c.arrOpen) p st true h hi (by simpa using hf)
    simp only [itemLoop, e1, hf, if_true]
    exact ⟨rfl, by simpa using s1⟩
  · obtain ⟨x1, s1, e1⟩ := itemStep_nofit pw p st true h hi (by simpa using hf)
    simp only [itemLoop, e1, hfr, hf, if_true, if_false]
    rfl

/-- from an empty message: the report, or its error status, or failure -/
theorem itemLoop_fresh {c : Cfg} {x : CSt} {s : St} (pw : PW) (p st : Piece) (fuel : Nat)
    (h : Sim c x s) (hi : Inv c s) (hfr : s.fresh c = true) :
    RelB c (itemLoop c pw (c.hdr + c.arrOpen) p st (fuel + 2) false x) (put c s p st) := by
  by_cases hf : s.used + p.size ≤ c.limit
  · obtain ⟨x1, e1, s1⟩ := itemStep_fit pw (c.hdr + c.arrOpen) p st false h hi (by simpa using hf)
    simp only [itemLoop, e1, put_of_fit p st hf]
    exact ⟨rfl, by simpa using s1⟩
  · obtain ⟨x1, s1, e1⟩ := itemStep_nofit pw p st false h hi (by simpa using hf)
    rw [put_of_fresh p st hf hfr]
    simp only [itemLoop, e1, hfr, if_true, Bool.false_eq_true, if_false]
    exact itemLoop_status pw p st fuel s1 hi hfr

/-- **the write / `NoSpace` / rewind / send / retry loop of `report_attributes` is `put`**, and four
rounds are enough: the fuel is never exhausted -/
theorem itemLoop_sim {c : Cfg} {x : CSt} {s : St} (hw : c.WF) (pw : PW) (p st : Piece) (fuel : Nat)
    (h : Sim c x s) (hi : Inv c s) :
    RelB c (itemLoop c pw (c.hdr + c.arrOpen) p st (fuel + 3) false x) (put c s p st) := by
  by_cases hf : s.used + p.size ≤ c.limit
  · obtain ⟨x1, e1, s1⟩ := itemStep_fit pw (c.hdr + c.arrOpen) p st false h hi (by simpa using hf)
    simp only [itemLoop, e1, put_of_fit p st hf]
    exact ⟨rfl, by simpa using s1⟩
  · cases hfr : s.fresh c with
    | true => exact itemLoop_fresh pw p st (fuel + 1) h hi hfr
    | false =>
      obtain ⟨x1, s1, e1⟩ := itemStep_nofit pw p st false h hi (by simpa using hf)
      obtain ⟨hi2, hfr2⟩ := flush_inv hw hi hfr
      rw [put_flush_eq p st hf hfr hfr2]
      simp only [itemLoop, e1, hfr, Bool.false_eq_true, if_false]
      exact itemLoop_fresh pw p st fuel s1.flush hi2 hfr2

/-- **the loop that the repair removed** (audit concern 4): without the test for an empty message a
report that fits no message makes the loop of `report_attributes` go round for ever — every round
sends one more message that carries no report; no amount of fuel is enough -/
theorem oversize_item_loops_before_fix (c : Cfg) (pw : PW) (p : Piece)
    (hbig : c.limit < c.hdr + c.arrOpen + p.size) : ∀ (fuel : Nat) (x : CSt), x.wb.live = frame c →
    itemLoopOld c pw p fuel x = .error .loops := by
  intro fuel
  induction fuel with
  | zero => intro x _; rfl
  | succ fuel ih =>
    intro x hx
    have ht : x.wb.tail = c.hdr + c.arrOpen := by rw [WB.tail, hx, frame_length]
    obtain ⟨cs, hp⟩ := WB.put_nofit pw (.rep p) (w := x.wb) (lim := c.limit) (n := p.size) (by omega)
    simp only [itemLoopOld, itemStepOld, CSt.processRead, hp, Bool.false_eq_true, if_false]
    apply ih
    simp [CSt.flush, WB.push, WB.rewindTo]

/-! ## `send_array_items` -/

/-- size level: the streamed elements from index `k` on, then the end-of-list read -/
def elemsThenProbe (c : Cfg) (L : ListAttr) (k : Nat) (es : List Nat) (s : St) : Except Err St :=
  match putElems c L.id L.stE k es s with
  | .ok (s1, true) => .ok s1
  | .ok (s1, false) => endProbe c s1 L.id L.probe L.stE
  | .error e => .error e

/-- size level: the streamed form of a list -/
def streamList (c : Cfg) (L : ListAttr) (s : St) : Except Err St :=
  match put c s (.listStart L.id L.empty) (.status L.id L.st) with
  | .ok (s1, true) => .ok s1
  | .ok (s1, false) => elemsThenProbe c L 0 L.elems s1
  | .error e => .error e

theorem putItem_list (c : Cfg) (s : St) (id whole empty : Nat) (elems : List Nat) (probe st stE : Nat) :
    putItem c s (.list id whole empty elems probe st stE) =
      if s.used + whole ≤ c.limit then .ok (s.write (.wholeList id whole elems))
      else streamList c { id := id, empty := empty, elems := elems, probe := probe, st := st, stE := stE } s := by
  simp only [putItem, streamList, elemsThenProbe]
  split
  · rfl
  · cases hput : put c s (.listStart id empty) (.status id st) with
    | error e => rfl
    | ok r =>
      obtain ⟨s1, b1⟩ := r
      cases b1 with
      | true => rfl
      | false =>
        simp only
        cases hel : putElems c id stE 0 elems s1 with
        | error e => rfl
        | ok r2 =>
          obtain ⟨s2, b2⟩ := r2
          cases b2 <;> rfl

theorem elemsThenProbe_nil (c : Cfg) (L : ListAttr) (k : Nat) (s : St) :
    elemsThenProbe c L k [] s = endProbe c s L.id L.probe L.stE := rfl

theorem elemsThenProbe_cons (c : Cfg) (L : ListAttr) (k e : Nat) (es : List Nat) (s : St) :
    elemsThenProbe c L k (e :: es) s =
      match put c s (.listElem L.id k e) (.status L.id L.stE) with
      | .ok (s1, true) => .ok s1
      | .ok (s1, false) => elemsThenProbe c L (k + 1) es s1
      | .error err => .error err := by
  simp only [elemsThenProbe, putElems]
  cases hput : put c s (.listElem L.id k e) (.status L.id L.stE) with
  | error err => rfl
  | ok r =>
    obtain ⟨s1, b1⟩ := r
    cases b1 <;> rfl

/-- the bytes the read of list index `li` writes (past the end: the report header) -/
def ListAttr.need (L : ListAttr) : Option Nat → Nat
  | none => L.empty
  | some i => (L.elems[i]?).getD L.probe

/-- the report the read of list index `li` produces -/
def ListAttr.piece (L : ListAttr) : Option Nat → Option Piece
  | none => some (.listStart L.id L.empty)
  | some i => (L.elems[i]?).map fun e => .listElem L.id i e

theorem readIdx_nofit {c : Cfg} (pw : PW) (L : ListAttr) (li : Option Nat) {w : WB}
    (hf : ¬ w.tail + L.need li ≤ c.limit) : ∃ cs, readIdx c pw L li w = (w.push cs, .noSpace) := by
  cases li with
  | none =>
    have hf2 : ¬ w.tail + L.empty ≤ c.limit := hf
    obtain ⟨cs, h⟩ := WB.put_nofit pw (.rep (.listStart L.id L.empty)) hf2
    exact ⟨cs, by simp [readIdx, putRd, h]⟩
  | some i =>
    simp only [ListAttr.need] at hf
    cases he : L.elems[i]? with
    | some e =>
      rw [he] at hf
      have hf2 : ¬ w.tail + e ≤ c.limit := hf
      obtain ⟨cs, h⟩ := WB.put_nofit pw (.rep (.listElem L.id i e)) hf2
      exact ⟨cs, by simp [readIdx, he, putRd, h]⟩
    | none =>
      rw [he] at hf
      have hf2 : ¬ w.tail + L.probe ≤ c.limit := hf
      obtain ⟨cs, h⟩ := WB.put_nofit pw (.probe L.id i) hf2
      exact ⟨cs, by simp [readIdx, he, putRd, h]⟩

theorem readIdx_fit_piece {c : Cfg} (pw : PW) (L : ListAttr) (li : Option Nat) {w : WB} {p : Piece}
    (hp : L.piece li = some p) (hf : w.tail + p.size ≤ c.limit) :
    readIdx c pw L li w = (w.push p.cells, .ok) ∧ L.need li = p.size := by
  cases li with
  | none =>
    simp only [ListAttr.piece, Option.some.injEq] at hp
    subst hp
    have h := WB.put_fit pw (.rep (.listStart L.id L.empty)) (w := w) (lim := c.limit) (n := L.empty) hf
    exact ⟨by simp [readIdx, putRd, h, Piece.cells, Piece.size], rfl⟩
  | some i =>
    cases he : L.elems[i]? with
    | none => simp [ListAttr.piece, he] at hp
    | some e =>
      simp only [ListAttr.piece, he, Option.map_some, Option.some.injEq] at hp
      subst hp
      have h := WB.put_fit pw (.rep (.listElem L.id i e)) (w := w) (lim := c.limit) (n := e) hf
      exact ⟨by simp [readIdx, he, putRd, h, Piece.cells, Piece.size], by simp [ListAttr.need, he, Piece.size]⟩

theorem readIdx_fit_probe {c : Cfg} (pw : PW) (L : ListAttr) (i : Nat) {w : WB}
    (he : L.elems[i]? = none) (hf : w.tail + L.probe ≤ c.limit) :
    readIdx c pw L (some i) w = (w.push (cellsOf (.probe L.id i) L.probe), .constraint) := by
  have h := WB.put_fit pw (.probe L.id i) (w := w) (lim := c.limit) (n := L.probe) hf
  simp [readIdx, he, putRd, h]

theorem arrStatus_sim {c : Cfg} {x : CSt} {s : St} (pw : PW) (L : ListAttr) (li : Option Nat)
    (h : Sim c x s) (hi : Inv c s) :
    RelS c (arrStatus c pw L li x)
      (if s.used + (L.status li).size ≤ c.limit then .ok (s.write (L.status li)) else .error .noSpace) := by
  have ht := h.tail hi
  by_cases hf : s.used + (L.status li).size ≤ c.limit
  · have hp := WB.put_fit pw (.rep (L.status li)) (w := x.wb) (lim := c.limit) (n := (L.status li).size) (by omega)
    simp only [arrStatus, hp, hf, if_true]
    refine ⟨?_, h.sent⟩
    simp only [WB.push_live, h.live, St.write, List.reverse_cons, body_snoc]
    rfl
  · obtain ⟨cs, hp⟩ := WB.put_nofit pw (.rep (L.status li)) (w := x.wb) (lim := c.limit)
      (n := (L.status li).size) (by omega)
    simp only [arrStatus, hp, hf, Bool.false_eq_true, if_false]
    rfl

/-- the read does not fit: the rewind to `pos = get_tail()` of this iteration restores the buffer;
on an empty message the error status ends the list, otherwise the chunk is sent and THE SAME index
is read again -/
theorem arrStep_nofit {c : Cfg} {x : CSt} {s : St} (pw : PW) (L : ListAttr) (li : Option Nat) (pos : Nat)
    (h : Sim c x s) (hi : Inv c s) (hf : ¬ s.used + L.need li ≤ c.limit) :
    ∃ x1, Sim c x1 s ∧ arrStep c pw (c.hdr + c.arrOpen) false L li pos x =
      if s.fresh c then .inr (arrStatus c pw L li x1) else .inl (li, x.wb.tail, x1.flush c) := by
  have ht := h.tail hi
  obtain ⟨cs, hr⟩ := readIdx_nofit pw L li (w := x.wb) (c := c) (by omega)
  have hs1 : Sim c { x with wb := (x.wb.push cs).rewindTo x.wb.tail } s :=
    ⟨by simp only [WB.rewind_push_live, h.live], h.sent⟩
  refine ⟨_, hs1, ?_⟩
  simp only [arrStep, hr, Bool.false_eq_true, if_false]
  rw [hs1.fresh hi]

theorem arrStep_fit_piece {c : Cfg} {x : CSt} {s : St} (pw : PW) (L : ListAttr) (li : Option Nat) (pos : Nat)
    {p : Piece} {j : Nat} (hp : L.piece li = some p) (hn : nextIdx li = some j) (h : Sim c x s) (hi : Inv c s)
    (hf : s.used + p.size ≤ c.limit) :
    ∃ x1, Sim c x1 (s.write p) ∧
      arrStep c pw (c.hdr + c.arrOpen) false L li pos x = .inl (some j, x1.wb.tail, x1) := by
  have ht := h.tail hi
  obtain ⟨hr, _⟩ := readIdx_fit_piece pw L li (w := x.wb) (c := c) hp (by omega)
  refine ⟨{ x with wb := x.wb.push p.cells }, ⟨?_, h.sent⟩, ?_⟩
  · simp only [WB.push_live, h.live, St.write, List.reverse_cons, body_snoc]
  · simp only [arrStep, hr, hn]

/-- **the bound on the list length is needed**: after the successful read of element 65535 =
`u16::MAX` the step `list_index + 1` overflows — a list of 65536 or more elements is not streamed to
its end (a panic with overflow checks; without them the index wraps to 0 and the list starts again) -/
theorem arrStep_overflow {c : Cfg} {x : CSt} {s : St} (pw : PW) (L : ListAttr) (pos : Nat) {e : Nat}
    (he : L.elems[idxMax]? = some e) (h : Sim c x s) (hi : Inv c s) (hf : s.used + e ≤ c.limit) :
    arrStep c pw (c.hdr + c.arrOpen) false L (some idxMax) pos x = .inr (.error .overflow) := by
  have ht := h.tail hi
  have hp : L.piece (some idxMax) = some (.listElem L.id idxMax e) := by simp [ListAttr.piece, he]
  obtain ⟨hr, _⟩ := readIdx_fit_piece pw L (some idxMax) (w := x.wb) (c := c) hp (by
    show x.wb.tail + e ≤ c.limit; omega)
  simp [arrStep, hr, nextIdx]

/-- the read past the end: the header is written, the handler answers `ConstraintError`, the rewind
drops the header; the list is complete -/
theorem arrStep_fit_probe {c : Cfg} {x : CSt} {s : St} (pw : PW) (L : ListAttr) (i : Nat) (pos : Nat)
    (he : L.elems[i]? = none) (h : Sim c x s) (hi : Inv c s) (hf : s.used + L.probe ≤ c.limit) :
    ∃ x1, Sim c x1 s ∧ arrStep c pw (c.hdr + c.arrOpen) false L (some i) pos x = .inr (.ok x1) := by
  have ht := h.tail hi
  have hr := readIdx_fit_probe pw L i (w := x.wb) (c := c) he (by omega)
  refine ⟨{ x with wb := (x.wb.push (cellsOf (.probe L.id i) L.probe)).rewindTo x.wb.tail }, ⟨?_, h.sent⟩, ?_⟩
  · simp only [WB.rewind_push_live, h.live]
  · simp only [arrStep, hr, Bool.false_eq_true, if_false]

theorem drop_cons_get {l : List Nat} {k e : Nat} {es : List Nat} (h : l.drop k = e :: es) :
    l[k]? = some e ∧ l.drop (k + 1) = es := by
  constructor
  · have := congrArg (fun t => t[0]?) h
    simpa [List.getElem?_drop] using this
  · have := congrArg (fun t => t.drop 1) h
    simpa [List.drop_drop] using this

theorem drop_nil_get {l : List Nat} {k : Nat} (h : l.drop k = []) : l[k]? = none := by
  rw [List.drop_eq_nil_iff] at h
  exact List.getElem?_eq_none h

/-- **the element loop of `send_array_items` is `putElems` + `endProbe`**: started with list index `k`
it delivers the elements `k, k+1, …` (each read by its index, each once: the index advances only
after a successful read, the same index is read again after a chunk was sent), and `2·(rest) + 2`
rounds are enough -/
theorem arrLoop_elems {c : Cfg} (hw : c.WF) (pw : PW) (L : ListAttr) (hlen : L.elems.length ≤ idxMax) :
    ∀ (es : List Nat) (k : Nat), L.elems.drop k = es → ∀ (x : CSt) (s : St) (fuel pos : Nat), Sim c x s → Inv c s →
    2 * es.length + 2 ≤ fuel →
    RelS c (arrLoop c pw (c.hdr + c.arrOpen) false L fuel (some k) pos x) (elemsThenProbe c L k es s) := by
  intro es
  induction es with
  | nil =>
    intro k hd
    have he := drop_nil_get hd
    have hneed : L.need (some k) = L.probe := by simp [ListAttr.need, he]
    -- the read fits, or the message is empty
    have H : ∀ (x : CSt) (s : St) (fuel pos : Nat), Sim c x s → Inv c s →
        (s.used + L.probe ≤ c.limit ∨ s.fresh c = true) →
        RelS c (arrLoop c pw (c.hdr + c.arrOpen) false L (fuel + 1) (some k) pos x) (elemsThenProbe c L k [] s) := by
      intro x s fuel pos h hi hor
      rw [elemsThenProbe_nil]
      by_cases hf : s.used + L.probe ≤ c.limit
      · obtain ⟨x1, s1, e1⟩ := arrStep_fit_probe pw L k pos he h hi hf
        simp only [arrLoop, e1, endProbe_of_fit _ _ _ hf]
        exact s1
      · have hfr : s.fresh c = true := by rcases hor with h1 | h1; exact absurd h1 hf; exact h1
        obtain ⟨x1, s1, e1⟩ := arrStep_nofit pw L (some k) pos h hi (by rw [hneed]; exact hf)
        simp only [arrLoop, e1, hfr, if_true, endProbe_of_fresh _ _ _ hf hfr]
        exact arrStatus_sim pw L (some k) s1 hi
    intro x s fuel pos h hi hfu
    obtain ⟨f, rfl⟩ : ∃ f, fuel = f + 2 := ⟨fuel - 2, by omega⟩
    by_cases hf : s.used + L.probe ≤ c.limit
    · exact H x s (f + 1) pos h hi (.inl hf)
    · cases hfr : s.fresh c with
      | true => exact H x s (f + 1) pos h hi (.inr hfr)
      | false =>
        obtain ⟨x1, s1, e1⟩ := arrStep_nofit pw L (some k) pos h hi (by rw [hneed]; exact hf)
        obtain ⟨hi2, hfr2⟩ := flush_inv hw hi hfr
        rw [elemsThenProbe_nil, endProbe_flush_eq _ _ _ hf hfr hfr2, ← elemsThenProbe_nil]
        simp only [arrLoop, e1, hfr, Bool.false_eq_true, if_false]
        exact H _ _ f _ s1.flush hi2 (.inr hfr2)
  | cons e es ih =>
    intro k hd
    obtain ⟨he, hd2⟩ := drop_cons_get hd
    have hp : L.piece (some k) = some (.listElem L.id k e) := by simp [ListAttr.piece, he]
    have hneed : L.need (some k) = e := by simp [ListAttr.need, he]
    have hsz : (Piece.listElem L.id k e).size = e := rfl
    have H : ∀ (x : CSt) (s : St) (fuel pos : Nat), Sim c x s → Inv c s →
        (s.used + e ≤ c.limit ∨ s.fresh c = true) → 2 * es.length + 2 ≤ fuel →
        RelS c (arrLoop c pw (c.hdr + c.arrOpen) false L (fuel + 1) (some k) pos x)
          (elemsThenProbe c L k (e :: es) s) := by
      intro x s fuel pos h hi hor hfu
      rw [elemsThenProbe_cons]
      by_cases hf : s.used + e ≤ c.limit
      · have hk : k < idxMax := by
          have : k < L.elems.length := by
            apply Nat.lt_of_not_le
            intro hle
            rw [List.getElem?_eq_none hle] at he
            cases he
          omega
        have hn : nextIdx (some k) = some (k + 1) := by simp [nextIdx, hk]
        obtain ⟨x1, s1, e1⟩ := arrStep_fit_piece pw L (some k) pos hp hn h hi (by rw [hsz]; exact hf)
        rw [put_of_fit _ _ (by rw [hsz]; exact hf)]
        simp only [arrLoop, e1]
        exact ih (k + 1) hd2 x1 _ fuel _ s1 (write_ok _ hi (by rw [hsz]; exact hf)).1 hfu
      · have hfr : s.fresh c = true := by rcases hor with h1 | h1; exact absurd h1 hf; exact h1
        obtain ⟨x1, s1, e1⟩ := arrStep_nofit pw L (some k) pos h hi (by rw [hneed]; exact hf)
        rw [put_of_fresh _ _ (by rw [hsz]; exact hf) hfr]
        simp only [arrLoop, e1, hfr, if_true]
        have hst := arrStatus_sim pw L (some k) s1 hi
        have hstE : L.status (some k) = .status L.id L.stE := rfl
        rw [hstE] at hst
        by_cases hf2 : s.used + (Piece.status L.id L.stE).size ≤ c.limit
        · simp only [hf2, if_true] at hst ⊢; exact hst
        · simp only [hf2, if_false] at hst ⊢; exact hst
    intro x s fuel pos h hi hfu
    simp only [List.length_cons] at hfu
    obtain ⟨f, rfl⟩ : ∃ f, fuel = f + 2 := ⟨fuel - 2, by omega⟩
    by_cases hf : s.used + e ≤ c.limit
    · exact H x s (f + 1) pos h hi (.inl hf) (by omega)
    · cases hfr : s.fresh c with
      | true => exact H x s (f + 1) pos h hi (.inr hfr) (by omega)
      | false =>
        obtain ⟨x1, s1, e1⟩ := arrStep_nofit pw L (some k) pos h hi (by rw [hneed]; exact hf)
        obtain ⟨hi2, hfr2⟩ := flush_inv hw hi hfr
        rw [elemsThenProbe_cons, put_flush_eq _ _ (by rw [hsz]; exact hf) hfr hfr2, ← elemsThenProbe_cons]
        simp only [arrLoop, e1, hfr, Bool.false_eq_true, if_false]
        exact H _ _ f _ s1.flush hi2 (.inr hfr2) (by omega)

/-- **`send_array_items` is the streamed form of the size-level model**: the empty list, the elements
`0, 1, …` by index, the end-of-list read; its fuel `2·n + 6` is never exhausted -/
theorem sendArrayItems_sim {c : Cfg} {x : CSt} {s : St} (hw : c.WF) (pw : PW) (L : ListAttr)
    (hlen : L.elems.length ≤ idxMax) (h : Sim c x s) (hi : Inv c s) :
    RelS c (sendArrayItems c pw (c.hdr + c.arrOpen) false L x) (streamList c L s) := by
  have hp : L.piece none = some (.listStart L.id L.empty) := rfl
  have hneed : L.need none = L.empty := rfl
  have hsz : (Piece.listStart L.id L.empty).size = L.empty := rfl
  have H : ∀ (x : CSt) (s : St) (fuel pos : Nat), Sim c x s → Inv c s →
      (s.used + L.empty ≤ c.limit ∨ s.fresh c = true) → 2 * L.elems.length + 2 ≤ fuel →
      RelS c (arrLoop c pw (c.hdr + c.arrOpen) false L (fuel + 1) none pos x) (streamList c L s) := by
    intro x s fuel pos h hi hor hfu
    unfold streamList
    by_cases hf : s.used + L.empty ≤ c.limit
    · obtain ⟨x1, s1, e1⟩ := arrStep_fit_piece pw L none pos hp (j := 0) rfl h hi (by rw [hsz]; exact hf)
      rw [put_of_fit _ _ (by rw [hsz]; exact hf)]
      simp only [arrLoop, e1]
      exact arrLoop_elems hw pw L hlen L.elems 0 rfl x1 _ fuel _ s1 (write_ok _ hi (by rw [hsz]; exact hf)).1 hfu
    · have hfr : s.fresh c = true := by rcases hor with h1 | h1; exact absurd h1 hf; exact h1
      obtain ⟨x1, s1, e1⟩ := arrStep_nofit pw L none pos h hi (by rw [hneed]; exact hf)
      rw [put_of_fresh _ _ (by rw [hsz]; exact hf) hfr]
      simp only [arrLoop, e1, hfr, if_true]
      have hst := arrStatus_sim pw L none s1 hi
      have hstE : L.status none = .status L.id L.st := rfl
      rw [hstE] at hst
      by_cases hf2 : s.used + (Piece.status L.id L.st).size ≤ c.limit
      · simp only [hf2, if_true] at hst ⊢; exact hst
      · simp only [hf2, if_false] at hst ⊢; exact hst
  unfold sendArrayItems
  have hfuel1 : 2 * L.elems.length + 6 = (2 * L.elems.length + 5) + 1 := by omega
  by_cases hf : s.used + L.empty ≤ c.limit
  · rw [hfuel1]; exact H x s (2 * L.elems.length + 5) _ h hi (.inl hf) (by omega)
  · cases hfr : s.fresh c with
    | true => rw [hfuel1]; exact H x s (2 * L.elems.length + 5) _ h hi (.inr hfr) (by omega)
    | false =>
      obtain ⟨x1, s1, e1⟩ := arrStep_nofit pw L none x.wb.tail h hi (by rw [hneed]; exact hf)
      obtain ⟨hi2, hfr2⟩ := flush_inv hw hi hfr
      have hsl : streamList c L s = streamList c L (s.flush c) := by
        unfold streamList
        rw [put_flush_eq _ _ (by rw [hsz]; exact hf) hfr hfr2]
      rw [hsl]
      have hfuel : 2 * L.elems.length + 6 = (2 * L.elems.length + 4) + 1 + 1 := by omega
      rw [hfuel]
      simp only [arrLoop, e1, hfr, Bool.false_eq_true, if_false]
      exact H _ _ (2 * L.elems.length + 4) _ s1.flush hi2 (.inr hfr2) (by omega)

/-- **one item of the request: the cursor-level run is the size-level run** (no fuel is exhausted) -/
theorem cputItem_sim {c : Cfg} {x : CSt} {s : St} (hw : c.WF) (pw : PW) (it : Item) (hlen : it.idxOk)
    (h : Sim c x s) (hi : Inv c s) :
    RelS c (cputItem c pw (c.hdr + c.arrOpen) false x it) (putItem c s it) := by
  cases it with
  | scalar id sz st =>
    have hl := itemLoop_sim hw pw (.scalar id sz) (.status id st) 1 h hi
    simp only [cputItem, scalarItem, putItem]
    revert hl
    cases itemLoop c pw (c.hdr + c.arrOpen) (.scalar id sz) (.status id st) (1 + 3) false x with
    | error e =>
      cases put c s (.scalar id sz) (.status id st) with
      | error e2 => exact fun hl => hl
      | ok r2 => exact fun hl => hl
    | ok r =>
      cases put c s (.scalar id sz) (.status id st) with
      | error e2 => exact fun hl => hl
      | ok r2 => exact fun hl => hl.2
  | list id whole empty elems probe st stE =>
    rw [putItem_list]
    simp only [cputItem]
    by_cases hf : s.used + whole ≤ c.limit
    · obtain ⟨h1, h2⟩ := processRead_fit pw (.wholeList id whole elems) h hi (by simpa [Piece.size] using hf)
      simp only [h1, if_true, hf]
      exact h2
    · obtain ⟨h1, h2⟩ := processRead_nofit pw (.wholeList id whole elems) h hi (by simpa [Piece.size] using hf)
      simp only [h1, Bool.false_eq_true, if_false, hf]
      exact sendArrayItems_sim hw pw _ hlen h2 hi

theorem relS_inv {c : Cfg} (hw : c.WF) {s : St} {it : Item} {r : Except Err CSt} (hi : Inv c s)
    (h : RelS c r (putItem c s it)) :
    (∃ x1 s1, r = .ok x1 ∧ putItem c s it = .ok s1 ∧ Sim c x1 s1 ∧ Inv c s1) ∨
    (∃ e, r = .error e ∧ putItem c s it = .error e) := by
  cases r with
  | error e =>
    cases hp : putItem c s it with
    | error e2 => rw [hp] at h; right; exact ⟨e, rfl, by rw [show e = e2 from h]⟩
    | ok s1 => rw [hp] at h; exact h.elim
  | ok x1 =>
    cases hp : putItem c s it with
    | error e2 => rw [hp] at h; exact h.elim
    | ok s1 => rw [hp] at h; left; exact ⟨x1, s1, rfl, rfl, h, (putItem_ok hw hi hp).1⟩

/-- **the attribute section: erasing cursor, rewind positions and partial writes from the
cursor-level run gives the size-level run** — for every partial-write function, whatever the buffer
held before -/
theorem cputAttrs_sim {c : Cfg} (hw : c.WF) (pw : PW) : ∀ (as : List AttrReq) (x : CSt) (s : St),
    IdxOk as → Sim c x s → Inv c s →
    RelS c (cputAttrs c pw (c.hdr + c.arrOpen) false as x) (putAttrs c as s) := by
  intro as
  induction as with
  | nil => intro x s _ h _; exact h
  | cons a as ih =>
    intro x s hok h hi
    have hok2 : IdxOk as := fun b hb => hok b (List.mem_cons_of_mem _ hb)
    simp only [cputAttrs, cputAttr, putAttrs, putAttr]
    cases hu : a.unchanged with
    | true => simp only [if_true]; exact ih x s hok2 h hi
    | false =>
      simp only [Bool.false_eq_true, if_false]
      rcases relS_inv hw hi (cputItem_sim hw pw a.item (hok a (by simp)) h hi) with ⟨x1, s1, e1, e2, h1, hi1⟩ | ⟨e, e1, e2⟩
      · rw [e1, e2]; exact ih x1 s1 hok2 h1 hi1
      · rw [e1, e2]; rfl

theorem init_tail (c : Cfg) (g : List Cell) : (CSt.init c g).wb.tail = c.hdr + c.arrOpen := by
  simp [CSt.init, WB.push, WB.tail, frame_length]

/-- the cursor-level attribute section of a request against the size-level one -/
theorem cattrs_sim {c : Cfg} (hw : c.WF) (pw : PW) (g : List Cell) (as : List AttrReq) (hok : IdxOk as) :
    RelS c (cattrs c pw false g as) (putAttrs c (yielded as) (St.init c)) := by
  simp only [cattrs, init_tail]
  exact cputAttrs_sim hw pw _ _ _ (fun a ha => hok a (List.mem_filter.mp ha).1) (sim_init c g) (inv_init c hw)

end Chunk
