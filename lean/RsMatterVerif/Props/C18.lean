import RsMatterVerif.Lemmas.Btp
/-!
# C18 — BTP delivers each message intact, once and in order, or fails cleanly

Property theorems over `Model/Btp.lean` / `Model/BtpLink.lean`.
-/
namespace C18
open Btp

/-- **Hostile peer, clause "can not crash the node"**: for every session state satisfying the
invariant, every GATT MTU, every byte string and every instant, `Session::process_rx` returns
either a new state satisfying the invariant or a clean error (`Fail.isPanic = false`); on an error
the state is unchanged (the model returns `Except`, the caller keeps the old state). -/
theorem process_rx_total (s : Session) (hs : SInv s) (g : Option Nat) (data : List Nat)
    (hd : Bytes data) (now : Nat) :
    (∃ s', s.processRx g data now = .ok s' ∧ SInv s') ∨
    (∃ e, s.processRx g data now = .error e ∧ e.isPanic = false) := by
  have c := processRx_clean s hs g data hd now
  cases h : s.processRx g data now with
  | ok s' => rw [h] at c; exact .inl ⟨s', rfl, c⟩
  | error e => rw [h] at c; exact .inr ⟨e, rfl, c⟩

/-- the invariant holds initially (`Session::new` + `set_initiator` + `set_relaxed_mtu_nego`) -/
theorem inv_init (initiator relaxed : Bool) : SInv (Session.fresh initiator relaxed) :=
  sinv_fresh initiator relaxed

/-- Non-vacuity: an established responder state satisfying the invariant exists (handshake request
with MTU 23 and window 5 processed by a fresh responder). -/
example : ∃ s, (Session.fresh false false).processRx none [0x65, 0x6c, 4, 0, 0, 0, 23, 0, 5] 0 = .ok s ∧
    s.established = true ∧ s.windowSize = 5 ∧ s.mtu = 20 := by
  exact ⟨_, rfl, rfl, rfl, rfl⟩

end C18
