//! C06: Interaction-Model path expansion is mediated by the access check.
//!
//! One case = an access-control configuration (the ops of C05: `fab`, `rmfab`, `acl`, `grp`, `gaux`)
//! followed by node metadata and requests run through the real `expand_read` / `expand_write` /
//! `expand_invoke` (the public entry points used by `im.rs`) with real request TLVs.
//!
//!   node <spec>                                        => ok <endpoints>
//!      spec: endpoints joined by `;`, each `id@devtypes@clusters`, devtypes `-` or `d+d`,
//!            clusters joined by `|`, each `id^featuremap^attrs^cmds`, attrs `-` or `id.access.array,..`,
//!            cmds `-` or `id.access,..`.  A leaf is enabled iff bit (id % 32) of the feature map is set
//!            (that is the `with_attrs` / `with_cmds` predicate the harness installs).
//!   x <r|w|i> <fab> <p|c|g|n> <aux> <id> <cats|-> <timed> <excluded|-> <paths>
//!                                                      => outputs joined by ` | `
//!      excluded: triples `ep.cl.leaf,..` rejected by the caller's filter (reads only)
//!      paths: `ep/cl/leaf;..` with `*` for a wildcard component
//!      output element: `ok ep cl leaf w<0|1> a<0|1>` or `st <path> <Status>`; `-` for no output
use crate::proto::{parse_cases, Case, Out};
use crate::rng::Rng;
use crate::Args;

use super::c05;

use rs_matter::acl::{Accessor, AccessorSubjects};
use rs_matter::dm::{Access, Attribute, Cluster, Command, DeviceType, Endpoint, Node, Quality};
use rs_matter::im::{expand_invoke, expand_read, expand_write, IMStatusCode, InvReq, ReadReq, ReportDataReq, WriteReq};
use rs_matter::tlv::TLVElement;
use rs_matter::Matter;

fn leak<T>(v: Vec<T>) -> &'static [T] {
    Box::leak(v.into_boxed_slice())
}

fn with_leaf_attr(a: &Attribute, _rev: u16, fm: u32) -> bool {
    fm & (1u32 << (a.id % 32)) != 0
}
fn with_leaf_cmd(c: &Command, _rev: u16, fm: u32) -> bool {
    fm & (1u32 << (c.id % 32)) != 0
}
fn with_no_event(_e: &rs_matter::dm::Event, _rev: u16, _fm: u32) -> bool {
    false
}

fn parse_node(spec: &str) -> Option<&'static Node<'static>> {
    let mut eps: Vec<Endpoint<'static>> = Vec::new();
    if spec != "-" {
        for e in spec.split(';') {
            let mut it = e.split('@');
            let id: u16 = it.next()?.parse().ok()?;
            let dts = it.next()?;
            let cls = it.next()?;
            let dts: Vec<DeviceType> = if dts == "-" { Vec::new() } else { dts.split('+').map(|d| DeviceType { dtype: d.parse().unwrap_or(0), drev: 1 }).collect() };
            let mut clusters: Vec<Cluster<'static>> = Vec::new();
            if cls != "-" {
                for c in cls.split('|') {
                    let mut ci = c.split('^');
                    let cid: u32 = ci.next()?.parse().ok()?;
                    let fm: u32 = ci.next()?.parse().ok()?;
                    let attrs = ci.next()?;
                    let cmds = ci.next()?;
                    let mut av: Vec<Attribute> = Vec::new();
                    if attrs != "-" {
                        for a in attrs.split(',') {
                            let mut ai = a.split('.');
                            let aid: u32 = ai.next()?.parse().ok()?;
                            let acc: u16 = ai.next()?.parse().ok()?;
                            let arr = ai.next()? == "1";
                            av.push(Attribute::new(aid, Access::from_bits_retain(acc), if arr { Quality::ARRAY } else { Quality::NONE }));
                        }
                    }
                    let mut cv: Vec<Command> = Vec::new();
                    if cmds != "-" {
                        for a in cmds.split(',') {
                            let mut ai = a.split('.');
                            let aid: u32 = ai.next()?.parse().ok()?;
                            let acc: u16 = ai.next()?.parse().ok()?;
                            cv.push(Command::new(aid, None, Access::from_bits_retain(acc)));
                        }
                    }
                    clusters.push(Cluster::new(cid, 1, fm, leak(av), leak(cv), &[], with_leaf_attr, with_leaf_cmd, with_no_event));
                }
            }
            eps.push(Endpoint::new(id, leak(dts), leak(clusters)));
        }
    }
    Some(Box::leak(Box::new(Node::new(leak(eps)))))
}

// ------------------------------------------------------------------ request TLVs (hand-encoded)
fn put_path(b: &mut Vec<u8>, tags: [u8; 3], p: &(Option<u16>, Option<u32>, Option<u32>)) {
    if let Some(e) = p.0 {
        b.extend_from_slice(&[0x25, tags[0]]);
        b.extend_from_slice(&e.to_le_bytes());
    }
    if let Some(c) = p.1 {
        b.extend_from_slice(&[0x26, tags[1]]);
        b.extend_from_slice(&c.to_le_bytes());
    }
    if let Some(l) = p.2 {
        b.extend_from_slice(&[0x26, tags[2]]);
        b.extend_from_slice(&l.to_le_bytes());
    }
}

type P = (Option<u16>, Option<u32>, Option<u32>);

fn read_req(paths: &[P]) -> Vec<u8> {
    let mut b = vec![0x15, 0x36, 0x00];
    for p in paths {
        b.push(0x17);
        put_path(&mut b, [2, 3, 4], p);
        b.push(0x18);
    }
    b.push(0x18);
    b.extend_from_slice(&[0x29, 0x03]); // fabric filtered = true
    b.push(0x18);
    b
}

fn write_req(paths: &[P], timed: bool) -> Vec<u8> {
    let mut b = vec![0x15, 0x28, 0x00, if timed { 0x29 } else { 0x28 }, 0x01, 0x36, 0x02];
    for p in paths {
        b.push(0x15);
        b.extend_from_slice(&[0x37, 0x01]);
        put_path(&mut b, [2, 3, 4], p);
        b.push(0x18);
        b.extend_from_slice(&[0x24, 0x02, 0x01]); // data: u8 1
        b.push(0x18);
    }
    b.push(0x18);
    b.push(0x18);
    b
}

fn inv_req(paths: &[P], timed: bool) -> Vec<u8> {
    let mut b = vec![0x15, 0x28, 0x00, if timed { 0x29 } else { 0x28 }, 0x01, 0x36, 0x02];
    for p in paths {
        b.push(0x15);
        b.extend_from_slice(&[0x37, 0x00]);
        put_path(&mut b, [0, 1, 2], p);
        b.push(0x18);
        b.extend_from_slice(&[0x35, 0x01, 0x18]); // data: empty struct
        b.push(0x18);
    }
    b.push(0x18);
    b.push(0x18);
    b
}

fn fmt_o<T: ToString>(o: Option<T>) -> String {
    o.map(|x| x.to_string()).unwrap_or_else(|| "*".into())
}

fn status_name(s: IMStatusCode) -> String {
    format!("{:?}", s)
}

const STEP_CAP: usize = 20000;

fn run_x(matter: &Matter<'_>, node: &'static Node<'static>, w: &[&str], out: &mut Out) -> String {
    let kind = w[1];
    let fab: u8 = w[2].parse().unwrap_or(0);
    let mode = c05::mode_of(w[3]);
    let aux = w[4] == "1";
    let mut subj = AccessorSubjects::new(w[5].parse().unwrap_or(0));
    if w[6] != "-" {
        for c in w[6].split(',') {
            let _ = subj.add_catid(c.parse().unwrap_or(0));
        }
    }
    let timed = w[7] == "1";
    let excluded: Vec<(u16, u32, u32)> = if w[8] == "-" {
        Vec::new()
    } else {
        w[8].split(',')
            .filter_map(|t| {
                let mut it = t.split('.');
                Some((it.next()?.parse().ok()?, it.next()?.parse().ok()?, it.next()?.parse().ok()?))
            })
            .collect()
    };
    let paths: Vec<P> = w[9]
        .split(';')
        .filter(|s| !s.is_empty() && *s != "-")
        .map(|p| {
            let mut it = p.split('/');
            (
                c05::opt_num(it.next().unwrap_or("*")),
                c05::opt_num(it.next().unwrap_or("*")),
                c05::opt_num(it.next().unwrap_or("*")),
            )
        })
        .collect();
    let accessor = Accessor::new(fab, aux, subj, mode, matter);
    let mut outs: Vec<String> = Vec::new();
    let r = std::panic::catch_unwind(std::panic::AssertUnwindSafe(|| {
        let mut outs: Vec<String> = Vec::new();
        match kind {
            "r" => {
                let bytes = read_req(&paths);
                let rr = ReadReq::new(TLVElement::new(&bytes));
                let req = ReportDataReq::Read(&rr);
                let it = match expand_read(node, &req, &accessor, |e, c, l| !excluded.contains(&(e, c, l))) {
                    Ok(it) => it,
                    Err(_) => return vec!["err".to_string()],
                };
                for (n, item) in it.enumerate() {
                    if n >= STEP_CAP {
                        outs.push("HANG".into());
                        break;
                    }
                    outs.push(match item {
                        Ok(Ok(a)) => format!("ok {} {} {} w{} a{}", a.endpoint_id, a.cluster_id, a.attr_id, a.wildcard as u8, a.array as u8),
                        Ok(Err(s)) => format!("st {}/{}/{} {}", fmt_o(s.path.endpoint), fmt_o(s.path.cluster), fmt_o(s.path.attr), status_name(s.status.status)),
                        Err(_) => "err".into(),
                    });
                }
            }
            "w" => {
                let bytes = write_req(&paths, timed);
                let req = WriteReq::new(TLVElement::new(&bytes));
                let it = match expand_write(node, &req, &accessor) {
                    Ok(it) => it,
                    Err(_) => return vec!["err".to_string()],
                };
                for (n, item) in it.enumerate() {
                    if n >= STEP_CAP {
                        outs.push("HANG".into());
                        break;
                    }
                    outs.push(match item {
                        Ok(Ok((a, _))) => format!("ok {} {} {} w{} a{}", a.endpoint_id, a.cluster_id, a.attr_id, a.wildcard as u8, a.array as u8),
                        Ok(Err(s)) => format!("st {}/{}/{} {}", fmt_o(s.path.endpoint), fmt_o(s.path.cluster), fmt_o(s.path.attr), status_name(s.status.status)),
                        Err(_) => "err".into(),
                    });
                }
            }
            _ => {
                let bytes = inv_req(&paths, timed);
                let req = InvReq::new(TLVElement::new(&bytes));
                let it = match expand_invoke(node, &req, &accessor) {
                    Ok(it) => it,
                    Err(_) => return vec!["err".to_string()],
                };
                for (n, item) in it.enumerate() {
                    if n >= STEP_CAP {
                        outs.push("HANG".into());
                        break;
                    }
                    outs.push(match item {
                        // `CmdDetails` carries no wildcard information from the path (always `false`): not compared
                        Ok(Ok((c, _))) => format!("ok {} {} {} w- a0", c.endpoint_id, c.cluster_id, c.cmd_id),
                        Ok(Err(s)) => format!("st {}/{}/{} {}", fmt_o(s.path.endpoint), fmt_o(s.path.cluster), fmt_o(s.path.cmd), status_name(s.status.status)),
                        Err(_) => "err".into(),
                    });
                }
            }
        }
        outs
    }));
    match r {
        Ok(o) => outs = o,
        Err(_) => outs.push("panic".into()),
    }
    for o in &outs {
        if o.starts_with("ok") {
            out.stat(&format!("out_{}_item", kind), 1);
        } else if o.starts_with("st") {
            out.stat(&format!("out_{}_status_{}", kind, o.rsplit(' ').next().unwrap_or("?")), 1);
        } else {
            out.stat(&format!("out_{}_{}", kind, o), 1);
        }
    }
    if outs.is_empty() {
        out.stat(&format!("out_{}_nothing", kind), 1);
        "-".into()
    } else {
        outs.join(" | ")
    }
}

fn run_case(matter: &Matter<'_>, out: &mut Out, case: &Case) {
    c05::reset(matter);
    out.case(case.id, &case.kind);
    let mut node: &'static Node<'static> = Box::leak(Box::new(Node::new(&[])));
    let mut kinds = std::collections::BTreeSet::new();
    for op in &case.ops {
        let w: Vec<&str> = op.split_whitespace().collect();
        match w.first().copied() {
            Some("node") if w.len() == 2 => match parse_node(w[1]) {
                Some(n) => {
                    node = n;
                    out.op(op, &format!("ok {}", n.endpoints.len()));
                }
                None => out.op(op, "badnode"),
            },
            Some("x") if w.len() == 10 => {
                let o = run_x(matter, node, &w, out);
                if o.contains("ok ") {
                    kinds.insert("item");
                }
                if o.contains("Unsupported") || o.contains("NeedsTimed") {
                    kinds.insert("status");
                }
                out.op(op, &o);
            }
            _ => {
                let (o, _) = c05::run_op(matter, op, out);
                out.op(op, &o);
            }
        }
    }
    if kinds.len() == 2 {
        out.buf.push_str("#nt\n");
    }
}

// ---------------------------------------------------------------------------------- generator
const ENDPOINTS: [u16; 5] = [0, 1, 2, 3, 7];
const CLUSTERS: [u32; 4] = [6, 8, 29, 31];
const DEV_TYPES: [u32; 3] = [22, 256, 257];
const GROUP_IDS: [u64; 3] = [1, 2, 3];

struct GLeaf { id: u32, access: u16, array: bool }
struct GCluster { id: u32, fm: u32, attrs: Vec<GLeaf>, cmds: Vec<GLeaf> }
struct GEndpoint { id: u16, dts: Vec<u32>, clusters: Vec<GCluster> }

fn attr_access_pool() -> Vec<u16> {
    vec![
        Access::RV.bits(), Access::RV.bits(), Access::RA.bits(), Access::RWVA.bits(), Access::RWVM.bits(), Access::RWFA.bits(),
        Access::RWFVM.bits(), (Access::RWVM | Access::TIMED_ONLY).bits(), (Access::RWVA | Access::TIMED_ONLY).bits(),
        Access::WO.bits(), (Access::READ | Access::NEED_OPERATE).bits(), Access::RF.bits(),
    ]
}
fn cmd_access_pool() -> Vec<u16> {
    vec![
        Access::WO.bits(), Access::WO.bits(), Access::WM.bits(), Access::WA.bits(), (Access::WO | Access::TIMED_ONLY).bits(),
        (Access::WA | Access::FAB_SCOPED).bits(), (Access::WO | Access::FAB_SCOPED).bits(), (Access::WM | Access::TIMED_ONLY | Access::FAB_SCOPED).bits(),
        Access::RV.bits(),
    ]
}

fn gen_node(r: &mut Rng, out: &mut Out, wf: bool) -> Vec<GEndpoint> {
    let mut eps: Vec<GEndpoint> = Vec::new();
    let ne = *r.pick(&[0usize, 1, 2, 2, 3, 3, 4]);
    let mut ids: Vec<u16> = ENDPOINTS.to_vec();
    // choose `ne` ids, sorted
    while ids.len() > ne {
        let k = r.below(ids.len() as u64) as usize;
        ids.remove(k);
    }
    let ap = attr_access_pool();
    let cp = cmd_access_pool();
    for id in ids {
        let mut dts = Vec::new();
        if r.chance(1, 2) { dts.push(*r.pick(&DEV_TYPES)); }
        if r.chance(1, 5) { dts.push(*r.pick(&DEV_TYPES)); }
        let nc = *r.pick(&[0usize, 1, 2, 2, 3]);
        let mut cids: Vec<u32> = CLUSTERS.to_vec();
        while cids.len() > nc {
            let k = r.below(cids.len() as u64) as usize;
            cids.remove(k);
        }
        let mut clusters = Vec::new();
        for cid in cids {
            let na = *r.pick(&[0usize, 1, 2, 3, 4]);
            let ncm = *r.pick(&[0usize, 0, 1, 2, 3]);
            let mut attrs: Vec<GLeaf> = (0..na as u32).map(|i| GLeaf { id: i, access: if r.chance(1, 8) { r.below(512) as u16 } else { *r.pick(&ap) }, array: r.chance(1, 4) }).collect();
            let mut cmds: Vec<GLeaf> = (0..ncm as u32).map(|i| GLeaf { id: i, access: if r.chance(1, 8) { r.below(512) as u16 } else { *r.pick(&cp) }, array: false }).collect();
            if !wf {
                // duplicate ids (first-match semantics are compared model-vs-code only)
                if !attrs.is_empty() && r.chance(1, 2) { let a = GLeaf { id: attrs[0].id, access: *r.pick(&ap), array: false }; attrs.push(a); }
                if !cmds.is_empty() && r.chance(1, 2) { let a = GLeaf { id: cmds[0].id, access: *r.pick(&cp), array: false }; cmds.push(a); }
            }
            // feature map = enabled mask; mostly everything enabled
            let fm: u32 = if r.chance(3, 4) { 0xFFFF_FFFF } else { r.next() as u32 | 1 };
            out.stat("node_clusters", 1);
            clusters.push(GCluster { id: cid, fm, attrs, cmds });
        }
        if !wf && !clusters.is_empty() && r.chance(1, 3) {
            let c = GCluster { id: clusters[0].id, fm: 0xFFFF_FFFF, attrs: vec![GLeaf { id: 0, access: Access::RV.bits(), array: false }], cmds: vec![] };
            clusters.push(c);
        }
        eps.push(GEndpoint { id, dts, clusters });
    }
    out.stat(&format!("node_endpoints_{}", eps.len()), 1);
    eps
}

fn node_spec(eps: &[GEndpoint]) -> String {
    if eps.is_empty() {
        return "-".into();
    }
    eps.iter()
        .map(|e| {
            let dts = if e.dts.is_empty() { "-".to_string() } else { e.dts.iter().map(|d| d.to_string()).collect::<Vec<_>>().join("+") };
            let cls = if e.clusters.is_empty() {
                "-".to_string()
            } else {
                e.clusters
                    .iter()
                    .map(|c| {
                        let a = if c.attrs.is_empty() { "-".to_string() } else { c.attrs.iter().map(|l| format!("{}.{}.{}", l.id, l.access, l.array as u8)).collect::<Vec<_>>().join(",") };
                        let m = if c.cmds.is_empty() { "-".to_string() } else { c.cmds.iter().map(|l| format!("{}.{}", l.id, l.access)).collect::<Vec<_>>().join(",") };
                        format!("{}^{}^{}^{}", c.id, c.fm, a, m)
                    })
                    .collect::<Vec<_>>()
                    .join("|")
            };
            format!("{}@{}@{}", e.id, dts, cls)
        })
        .collect::<Vec<_>>()
        .join(";")
}

fn gen_case(r: &mut Rng, out: &mut Out, nx: usize) -> Vec<String> {
    let mut ops: Vec<String> = Vec::new();
    // access control: 1-2 fabrics, a few entries of decreasing generosity
    let nf = r.range(1, 2);
    for _ in 0..nf {
        ops.push("fab".into());
    }
    let privs = [1u8, 3, 7, 15, 16];
    for f in 1..=nf {
        if r.chance(1, 2) {
            // one generous entry so that permitted elements are common
            ops.push(format!("acl {} {} c {} null", f, r.pick(&[15u8, 15, 7, 3]), r.pick(&["null", "1", "1,2"])));
        }
        let ne = r.range(0, 3);
        for _ in 0..ne {
            let mode = *r.pick(&["c", "c", "g"]);
            let subj = match r.below(4) {
                0 => "null".to_string(),
                1 => "e".to_string(),
                _ => if mode == "g" { r.pick(&GROUP_IDS).to_string() } else { r.pick(&[1u64, 2, 112233]).to_string() },
            };
            let tgt = match r.below(5) {
                0 => "null".to_string(),
                1 => "e".to_string(),
                _ => {
                    let n = r.range(1, 3);
                    (0..n)
                        .map(|_| {
                            let shape = r.range(1, 7);
                            format!(
                                "{}/{}/{}",
                                if shape & 1 != 0 { r.pick(&ENDPOINTS).to_string() } else { "-".into() },
                                if shape & 2 != 0 { r.pick(&CLUSTERS).to_string() } else { "-".into() },
                                if shape & 4 != 0 { r.pick(&DEV_TYPES).to_string() } else { "-".into() }
                            )
                        })
                        .collect::<Vec<_>>()
                        .join(";")
                }
            };
            ops.push(format!("acl {} {} {} {} {}", f, r.pick(&privs), mode, subj, tgt));
        }
        if r.chance(1, 2) {
            let ng = r.range(1, 4);
            for _ in 0..ng {
                let gid = *r.pick(&GROUP_IDS);
                ops.push(format!("grp {} {} {}", f, gid, r.pick(&ENDPOINTS)));
                if r.chance(1, 3) {
                    ops.push(format!("gaux {} {} 1", f, gid));
                }
            }
        }
    }
    let wf = !r.chance(1, 8);
    out.stat(if wf { "node_wellformed" } else { "node_with_duplicate_ids" }, 1);
    let eps = gen_node(r, out, wf);
    ops.push(format!("node {}", node_spec(&eps)));
    for _ in 0..nx {
        let kind = *r.pick(&["r", "r", "w", "w", "i", "i"]);
        let (fab, mode, id): (u64, &str, u64) = match r.below(12) {
            0 => (0, "p", 1),
            1 => (r.range(1, nf), "p", 1),
            2 => (0, "c", 1),
            3 => (3, "c", 1),
            4..=5 => (r.range(1, nf), "g", *r.pick(&GROUP_IDS)),
            _ => (r.range(1, nf), "c", *r.pick(&[1u64, 1, 2, 112233])),
        };
        let aux = if r.chance(1, 6) { 1 } else { 0 };
        let timed = if r.chance(1, 2) { 1 } else { 0 };
        let np = *r.pick(&[1usize, 1, 2, 3, 4]);
        let mut paths: Vec<String> = Vec::new();
        for _ in 0..np {
            if !paths.is_empty() && r.chance(1, 5) {
                // repeat an earlier path (exercises the last-authorised cache)
                let p = r.pick(&paths).clone();
                paths.push(p);
                out.stat("path_repeat", 1);
                continue;
            }
            // aim at an existing element, then wildcard / perturb components
            let mut ep: Option<u64> = Some(*r.pick(&ENDPOINTS) as u64);
            let mut cl: Option<u64> = Some(*r.pick(&CLUSTERS) as u64);
            let mut lf: Option<u64> = Some(r.below(5));
            if !eps.is_empty() && r.chance(4, 5) {
                let e = &eps[r.below(eps.len() as u64) as usize];
                ep = Some(e.id as u64);
                if !e.clusters.is_empty() && r.chance(4, 5) {
                    let c = &e.clusters[r.below(e.clusters.len() as u64) as usize];
                    cl = Some(c.id as u64);
                    let leaves = if kind == "i" { &c.cmds } else { &c.attrs };
                    if !leaves.is_empty() && r.chance(4, 5) {
                        lf = Some(leaves[r.below(leaves.len() as u64) as usize].id as u64);
                    }
                }
            }
            let shape = if kind == "r" {
                match r.below(10) {
                    0..=4 => 0, // concrete
                    5 => 1,     // endpoint wildcard
                    6 => 2,     // cluster wildcard
                    7 => 4,     // leaf wildcard
                    8 => 7,     // everything
                    _ => r.below(8),
                }
            } else {
                // writes / invokes support the endpoint wildcard only
                match r.below(10) {
                    0..=5 => 0,
                    6..=8 => 1,
                    _ => r.below(8),
                }
            };
            if shape & 1 != 0 { ep = None; }
            if shape & 2 != 0 { cl = None; }
            if shape & 4 != 0 { lf = None; }
            out.stat(&format!("path_{}_{}{}{}", kind, if ep.is_some() { "E" } else { "*" }, if cl.is_some() { "C" } else { "*" }, if lf.is_some() { "L" } else { "*" }), 1);
            paths.push(format!("{}/{}/{}", fmt_o(ep), fmt_o(cl), fmt_o(lf)));
        }
        // caller's filter (reads): exclude a few existing triples
        let mut excl: Vec<String> = Vec::new();
        if kind == "r" && r.chance(1, 4) {
            for e in &eps {
                for c in &e.clusters {
                    for l in &c.attrs {
                        if r.chance(1, 4) {
                            excl.push(format!("{}.{}.{}", e.id, c.id, l.id));
                        }
                    }
                }
            }
        }
        ops.push(format!(
            "x {} {} {} {} {} - {} {} {}",
            kind,
            fab,
            mode,
            aux,
            id,
            timed,
            if excl.is_empty() { "-".to_string() } else { excl.join(",") },
            paths.join(";")
        ));
    }
    ops
}

pub fn gen(a: &Args) -> String {
    let seed = a.seed;
    let thorough = a.thorough;
    c05::with_matter(move |matter| {
        let mut r = Rng::new(seed);
        let mut out = Out::default();
        out.buf.push_str("#rule one case = an access-control configuration (fabrics, entries, group tables, built through the real API) + generated node metadata (0..4 endpoints x 0..3 clusters x 0..4 attributes / 0..3 commands with declared and random access bits, timed-only / fabric-scoped marks, partially disabled by the feature map; 1 in 8 nodes has duplicate ids) + requests run through the real expand_read / expand_write / expand_invoke with real request TLVs: 1..4 paths (concrete, each wildcard shape, absent ids, repeats), requester in {PASE with/without fabric, CASE, Group, missing fabric}, timed flag, read filter; non-trivial = the case produced both items and statuses\n");
        let n_cases: u64 = if thorough { 100000 } else { 10000 };
        for id in 1..=n_cases {
            let mut cr = r.fork();
            let nx = if thorough { cr.range(4, 24) } else { cr.range(4, 14) } as usize;
            let ops = gen_case(&mut cr, &mut out, nx);
            run_case(matter, &mut out, &Case { id, kind: "expand".into(), ops });
        }
        out.finish()
    })
}

pub fn replay(a: &Args) -> String {
    let text = std::fs::read_to_string(a.input.as_ref().expect("--in")).expect("read input");
    c05::with_matter(move |matter| {
        let mut out = Out::default();
        for c in parse_cases(&text) {
            run_case(matter, &mut out, &c);
        }
        out.finish()
    })
}
