import RsMatterVerif.Lemmas.Subs
/-!
# Identity of live subscriptions and tracking one subscription along a schedule (C13 eventuality)
-/
namespace Subs

theorem swapRemove_perm {α} {es : List α} {i : Nat} {y : α} (h : es[i]? = some y) :
    (y :: swapRemove es i).Perm es := by
  have hi : i < es.length := (List.getElem?_eq_some_iff.mp h).1
  have hy : es[i] = y := (List.getElem?_eq_some_iff.mp h).2
  unfold swapRemove
  cases hl : es.getLast? with
  | none =>
    have : es = [] := List.getLast?_eq_none_iff.mp hl
    subst this; simp at hi
  | some l =>
    obtain ⟨d, rfl⟩ := List.getLast?_eq_some_iff.mp hl
    simp only
    split
    · rename_i h1
      have hid : i = d.length := by simp at h1; omega
      subst hid
      have : y = l := by rw [← hy]; simp
      subst this
      simp only [List.dropLast_concat]
      exact List.perm_append_singleton _ _ |>.symm
    · rename_i h1
      have hid : i < d.length := by simp at hi h1; omega
      rw [List.set_append_left _ _ hid]
      simp only [List.dropLast_concat]
      have hyd : d[i] = y := by rw [← hy]; simp [List.getElem_append_left hid]
      have hd : d = d.take i ++ y :: d.drop (i + 1) := by
        rw [← hyd]; simp
      have hs : d.set i l = d.take i ++ l :: d.drop (i + 1) := by
        rw [List.set_eq_take_append_cons_drop]; simp [hid]
      rw [hs]
      generalize d.take i = t at hd ⊢
      generalize d.drop (i + 1) = u at hd ⊢
      subst hd
      have h1 : (t ++ l :: u).Perm (l :: (t ++ u)) := List.perm_middle
      have h2 : (t ++ y :: u ++ [l]).Perm (y :: (t ++ u ++ [l])) := by
        have : t ++ y :: u ++ [l] = t ++ y :: (u ++ [l]) := by simp
        rw [this]
        simp
      have h3 : (t ++ u ++ [l]).Perm (l :: (t ++ u)) := List.perm_append_singleton _ _
      exact ((List.Perm.cons y (h1.trans h3.symm))).trans h2.symm

/-- the context `find?` returns is the one `eraseP` removes -/
theorem eraseP_perm {α} {l : List α} {p : α → Bool} {c : α} (h : l.find? p = some c) :
    (c :: l.eraseP p).Perm l := by
  induction l with
  | nil => simp at h
  | cons a l ih =>
    simp only [List.find?_cons] at h
    by_cases hp : p a = true
    · simp only [hp] at h
      have : a = c := by simpa using h
      subst this
      simp [hp]
    · have hp' : p a = false := by simpa using hp
      simp only [hp'] at h
      rw [List.eraseP_cons]
      simp only [hp']
      exact (List.Perm.swap a c _).trans (List.Perm.cons a (ih h))

/-- **Identity invariant.** The ids of the live subscriptions (table and in flight) are distinct and
below `next_subscription_id`. -/
structure UID (s : State) : Prop where
  nodup : (s.live.map (·.id)).Nodup
  below : ∀ x ∈ s.live, x.id < s.nextSubId

theorem uid_of_perm {s t : State} (h : UID s) (hp : t.live.Perm s.live) (hn : s.nextSubId ≤ t.nextSubId) :
    UID t :=
  ⟨(List.Perm.nodup_iff (hp.map _)).mpr h.nodup, fun x hx => Nat.lt_of_lt_of_le (h.below x (hp.mem_iff.mp hx)) hn⟩

theorem uid_of_sub {s t : State} (h : UID s) (y : Sub) (hp : (y :: t.live).Perm s.live)
    (hn : s.nextSubId ≤ t.nextSubId) : UID t := by
  have h1 : ((y :: t.live).map (·.id)).Nodup := (List.Perm.nodup_iff (hp.map _)).mpr h.nodup
  refine ⟨(List.nodup_cons.mp h1).2, fun x hx => ?_⟩
  exact Nat.lt_of_lt_of_le (h.below x (hp.mem_iff.mp (List.mem_cons_of_mem _ hx))) hn

theorem uid_init (hz n : Nat) : UID (State.new hz n) := by
  constructor <;> simp [State.new, State.live]


/-! ### the identity invariant is preserved by every operation -/

theorem live_change (s : State) (p : Entry) : (s.change p).live = s.live := rfl

theorem uid_change {s : State} (p : Entry) (h : UID s) : UID (s.change p) := ⟨h.nodup, h.below⟩

theorem uid_add {s : State} (now fab peer mn mx ev : Nat) (h : UID s) :
    UID (s.add now fab peer mn mx ev).1 := by
  unfold State.add
  split
  · exact h
  · constructor
    · simp only [State.live, List.map_append, List.map_cons, List.map_nil]
      rw [← List.append_assoc]
      rw [List.nodup_append]
      refine ⟨by simpa [State.live] using h.nodup, by simp, ?_⟩
      intro a ha b hb
      simp only [List.mem_singleton] at hb
      subst hb
      have : a ∈ s.live.map (·.id) := by simpa [State.live] using ha
      obtain ⟨x, hx, rfl⟩ := List.mem_map.mp this
      have := h.below x hx
      omega
    · intro x hx
      simp only [State.live, List.map_append, List.mem_append, List.mem_map, List.mem_singleton] at hx
      simp only
      rcases hx with hx | ⟨c, hc, rfl⟩ | ⟨c, rfl, rfl⟩
      · have := h.below x (by simp [State.live, hx]); omega
      · have := h.below c.sub (by simp only [State.live, List.mem_append, List.mem_map]; right; exact ⟨c, hc, rfl⟩); omega
      · simp

theorem live_reportTo {s : State} {i : Nat} {sub : Sub} (now ev : Nat) (hs : s.subs[i]? = some sub) :
    (reportTo s i sub now ev).live.Perm s.live := by
  simp only [reportTo, State.live, List.map_append, List.map_cons, List.map_nil]
  have h1 := swapRemove_perm hs
  -- swapRemove ++ (ctxs ++ [sub]) ~ sub :: swapRemove ++ ctxs ~ subs ++ ctxs
  have h2 : (swapRemove s.subs i ++ (s.ctxs.map (·.sub) ++ [sub])).Perm
      (sub :: swapRemove s.subs i ++ s.ctxs.map (·.sub)) := by
    rw [← List.append_assoc]
    exact (List.perm_append_singleton _ _).trans (by simp)
  exact h2.trans (List.Perm.append_right _ h1)

theorem uid_report {s : State} (now ev : Nat) (h : UID s) : UID (s.report now ev).1 := by
  rcases report_shape (s := s) (now := now) (ev := ev) with h1 | ⟨i, sub, hs, h1⟩
  · rw [h1]; exact h
  · rw [h1]; exact uid_of_perm h (live_reportTo now ev hs) (by simp [reportTo])


theorem uid_of_sublive {s t : State} (h : UID s) (rem : List Sub) (hp : (rem ++ t.live).Perm s.live)
    (hn : s.nextSubId ≤ t.nextSubId) : UID t := by
  have h1 : ((rem ++ t.live).map (·.id)).Nodup := (List.Perm.nodup_iff (hp.map _)).mpr h.nodup
  rw [List.map_append] at h1
  refine ⟨(List.nodup_append.mp h1).2.1, fun x hx => ?_⟩
  exact Nat.lt_of_lt_of_le (h.below x (hp.mem_iff.mp (List.mem_append_right _ hx))) hn

/-- the subscription a context commits for the given ending -/
def finSub (hz : Nat) (c : Ctx) : Fin → Sub
  | .retry => (c.setKeepRetry hz).commit
  | .unsent => c.setKeepUnsent.commit
  | .keep => c.commit
  | .drop => c.commit

def finKeep : Fin → Bool
  | .drop => false
  | _ => true

theorem finSub_id (hz : Nat) (c : Ctx) (f : Fin) : (finSub hz c f).id = c.sub.id := by
  cases f <;> simp [finSub, Ctx.commit, Ctx.setKeepRetry, Ctx.setKeepUnsent]

theorem fin_none {s : State} {id : Nat} {f : Fin}
    (h : s.ctxs.find? (fun c => c.sub.id == id) = none) : (s.fin id f).1 = s := by
  unfold State.fin; rw [h]

theorem fin_eq {s : State} {id : Nat} {f : Fin} {c : Ctx}
    (h : s.ctxs.find? (fun c => c.sub.id == id) = some c) :
    (s.fin id f).1 = ({ s with ctxs := s.ctxs.eraseP (fun c => c.sub.id == id) }).reportComplete
      (finSub s.hz c f) (finKeep f) := by
  unfold State.fin; rw [h]; cases f <;> rfl

theorem live_erase {s : State} {id : Nat} {c : Ctx}
    (h : s.ctxs.find? (fun c => c.sub.id == id) = some c) :
    (c.sub :: ({ s with ctxs := s.ctxs.eraseP (fun c => c.sub.id == id) } : State).live).Perm s.live := by
  simp only [State.live]
  have h1 := (eraseP_perm h).map (·.sub)
  simp only [List.map_cons] at h1
  exact (List.perm_middle.symm).trans (List.Perm.append_left _ h1)

theorem reportComplete_live (s : State) (sub : Sub) (keep : Bool) :
    (s.reportComplete sub keep).live = s.live ∨ (s.reportComplete sub keep).live.Perm (sub :: s.live) := by
  rcases reportComplete_shape s sub keep with ⟨r, cx, h⟩ | ⟨r, cx, h⟩
  · right; rw [h]; simp only [rcKeep, State.live]
    have : s.subs ++ [sub] ++ s.ctxs.map (·.sub) = s.subs ++ sub :: s.ctxs.map (·.sub) := by simp
    rw [this]; exact List.perm_middle
  · left; rw [h]; rfl

theorem reportComplete_nextSubId (s : State) (sub : Sub) (keep : Bool) :
    (s.reportComplete sub keep).nextSubId = s.nextSubId := by
  rcases reportComplete_shape s sub keep with ⟨r, cx, h⟩ | ⟨r, cx, h⟩ <;> rw [h] <;> rfl

theorem uid_fin {s : State} (id : Nat) (f : Fin) (h : UID s) : UID (s.fin id f).1 := by
  cases hf : s.ctxs.find? (fun c => c.sub.id == id) with
  | none => rw [fin_none hf]; exact h
  | some c =>
    rw [fin_eq hf]
    have he := live_erase hf
    have hn := reportComplete_nextSubId ({ s with ctxs := s.ctxs.eraseP (fun c => c.sub.id == id) })
      (finSub s.hz c f) (finKeep f)
    rcases reportComplete_live ({ s with ctxs := s.ctxs.eraseP (fun c => c.sub.id == id) })
      (finSub s.hz c f) (finKeep f) with hl | hl
    · refine uid_of_sublive h [c.sub] ?_ (by rw [hn]; exact Nat.le_refl _)
      rw [hl]; exact he
    · -- the committed subscription has the id of the context's subscription
      have h1 : ((s.fin id f).1.live.map (·.id)).Perm (s.live.map (·.id)) := by
        rw [fin_eq hf]
        refine (hl.map _).trans ?_
        simp only [List.map_cons, finSub_id]
        exact he.map (·.id)
      rw [← fin_eq hf]
      refine ⟨(List.Perm.nodup_iff h1).mpr h.nodup, fun x hx => ?_⟩
      have : x.id ∈ s.live.map (·.id) := h1.mem_iff.mp (List.mem_map_of_mem hx)
      obtain ⟨y, hy, hyx⟩ := List.mem_map.mp this
      have := h.below y hy
      rw [fin_eq hf, hn]
      simp only at hyx ⊢
      omega

theorem removeLoop_perm (p : Sub → Bool) : ∀ (fuel : Nat) (subs : List Sub) (count : Nat),
    ∃ rem, (rem ++ (removeLoop p fuel subs count).1).Perm subs := by
  intro fuel
  induction fuel with
  | zero => intro subs count; exact ⟨[], by simp [removeLoop]⟩
  | succ fuel ih =>
    intro subs count
    simp only [removeLoop]
    cases hf : subs.findIdx? p with
    | none => exact ⟨[], by simp⟩
    | some i =>
      simp only
      have hi : i < subs.length := (List.findIdx?_eq_some_iff_findIdx_eq.mp hf).1
      obtain ⟨rem, hr⟩ := ih (swapRemove subs i) (count - 1)
      refine ⟨subs[i] :: rem, ?_⟩
      have h1 := swapRemove_perm (es := subs) (i := i) (y := subs[i]) (by simp [hi])
      exact (List.Perm.cons _ hr).trans h1

theorem uid_remove {s : State} (p : Sub → Bool) (h : UID s) : UID (s.remove p).1 := by
  obtain ⟨cx, h1⟩ := remove_shape s p
  rw [h1]
  obtain ⟨rem, hr⟩ := removeLoop_perm p (s.subs.length + 1) s.subs s.count
  refine uid_of_sublive h rem ?_ (by simp [rmTo])
  simp only [rmTo, State.live]
  rw [← List.append_assoc]
  exact List.Perm.append_right _ hr

theorem uid_purge {s : State} (h : UID s) : UID s.purge := by
  unfold State.purge
  repeat' split
  all_goals exact ⟨h.nodup, h.below⟩

theorem uid_push {s : State} (sub : Sub) (cnt next : Nat) (hfresh : ∀ x ∈ s.live, x.id ≠ sub.id)
    (hlt : sub.id < next) (hge : s.nextSubId ≤ next) (h : UID s) :
    UID { s with count := cnt, nextSubId := next, subs := s.subs ++ [sub] } := by
  have hp : ((s.subs ++ [sub]) ++ s.ctxs.map (·.sub)).Perm (sub :: s.live) := by
    simp only [State.live]
    have : s.subs ++ [sub] ++ s.ctxs.map (·.sub) = s.subs ++ sub :: s.ctxs.map (·.sub) := by simp
    rw [this]; exact List.perm_middle
  constructor
  · simp only [State.live]
    refine (List.Perm.nodup_iff (hp.map _)).mpr ?_
    simp only [List.map_cons]
    refine List.nodup_cons.mpr ⟨?_, h.nodup⟩
    intro hm
    obtain ⟨x, hx, hxe⟩ := List.mem_map.mp hm
    exact hfresh x hx hxe
  · intro x hx
    have hx' : x ∈ sub :: s.live := hp.mem_iff.mp (by simpa [State.live] using hx)
    simp only
    rcases List.mem_cons.mp hx' with rfl | hx'
    · exact hlt
    · have := h.below x hx'; omega

/-- the id a resumed subscription gets is not held by a subscription of the table and lies below the
next id to assign -/
theorem resumeId_spec (s : State) (r : Rec) (hb : ∀ x ∈ s.subs, x.id < s.nextSubId) :
    (∀ x ∈ s.subs, x.id ≠ (s.resumeId r).1) ∧ (s.resumeId r).1 < (s.resumeId r).2 ∧
    s.nextSubId < (s.resumeId r).2 := by
  unfold State.resumeId
  cases hr : r.id with
  | none =>
    simp only
    exact ⟨fun x hx => Nat.ne_of_lt (hb x hx), by omega, by omega⟩
  | some j =>
    simp only
    by_cases ht : s.subs.any (fun x => x.id == j) = true
    · simp only [ht, if_true]
      exact ⟨fun x hx => Nat.ne_of_lt (hb x hx), by omega, by omega⟩
    · simp only [ht]
      refine ⟨?_, by simp only [Bool.false_eq_true, if_false]; omega, by simp only [Bool.false_eq_true, if_false]; omega⟩
      intro x hx he
      simp only [Bool.false_eq_true, if_false] at he
      apply ht
      rw [List.any_eq_true]
      exact ⟨x, hx, by simpa using he⟩

theorem uid_resumeOne {s : State} (r : Rec) (now ev : Nat) (hc : s.ctxs = []) (h : UID s) :
    UID (s.resumeOne r now ev) := by
  unfold State.resumeOne
  split
  · exact h
  · have hb : ∀ x ∈ s.subs, x.id < s.nextSubId := fun x hx => h.below x (by simp [State.live, hx])
    obtain ⟨a1, a2, a3⟩ := resumeId_spec s r hb
    refine uid_push _ _ _ ?_ a2 (by omega) h
    intro x hx
    have : x ∈ s.subs := by simpa [State.live, hc] using hx
    exact a1 x this

theorem resumeOne_ctxs (s : State) (r : Rec) (now ev : Nat) : (s.resumeOne r now ev).ctxs = s.ctxs := by
  unfold State.resumeOne; split <;> rfl

theorem uid_resumeAll (now ev : Nat) : ∀ (rs : List Rec) (s : State), s.ctxs = [] → UID s →
    UID (rs.foldl (fun st r => st.resumeOne r now ev) s) := by
  intro rs
  induction rs with
  | nil => intro s _ h; exact h
  | cons r rs ih =>
    intro s hc h
    simp only [List.foldl_cons]
    exact ih _ (by rw [resumeOne_ctxs]; exact hc) (uid_resumeOne r now ev hc h)

theorem uid_restart (s : State) (now ev : Nat) : UID (s.restart now ev) := by
  rw [restart_eq]
  refine uid_resumeAll now ev _ _ rfl ?_
  constructor <;> simp [State.fresh, State.new, State.live]

theorem uid_step {s : State} (op : Op) (h : UID s) : UID (s.step op) := by
  cases op with
  | change p => exact uid_change p h
  | add now fab peer mn mx ev => exact uid_add now fab peer mn mx ev h
  | report now ev => exact uid_report now ev h
  | fin id f => exact uid_fin id f h
  | remove p => exact uid_remove p h
  | purge => exact uid_purge h
  | persist => exact ⟨h.nodup, h.below⟩
  | restart now ev => exact uid_restart s now ev


/-! ## Tracking one owing subscription -/

theorem nodup_map_inj {α β} {f : α → β} : ∀ {l : List α}, (l.map f).Nodup → ∀ x ∈ l, ∀ y ∈ l, f x = f y → x = y := by
  intro l
  induction l with
  | nil => intro _ x hx; simp at hx
  | cons a l ih =>
    intro h x hx y hy hf
    simp only [List.map_cons, List.nodup_cons] at h
    rcases List.mem_cons.mp hx with hxa | hxl
    · rcases List.mem_cons.mp hy with hya | hyl
      · rw [hxa, hya]
      · subst hxa; exact absurd (hf ▸ List.mem_map_of_mem hyl) h.1
    · rcases List.mem_cons.mp hy with hya | hyl
      · subst hya; exact absurd (hf ▸ List.mem_map_of_mem hxl) h.1
      · exact ih h.2 x hxl y hyl hf

theorem uid_eq {s : State} (h : UID s) {x y : Sub} (hx : x ∈ s.live) (hy : y ∈ s.live)
    (hid : x.id = y.id) : x = y := nodup_map_inj h.nodup x hx y hy hid

/-- a subscription that was taken out of the live set has no namesake left -/
theorem uid_excl {s t : State} (h : UID s) {rem : List Sub} (hp : (rem ++ t.live).Perm s.live)
    {x : Sub} (hx : x ∈ rem) : ∀ y ∈ t.live, y.id ≠ x.id := by
  have h1 : ((rem ++ t.live).map (·.id)).Nodup := (List.Perm.nodup_iff (hp.map _)).mpr h.nodup
  rw [List.map_append] at h1
  intro y hy he
  exact (List.nodup_append.mp h1).2.2 x.id (List.mem_map_of_mem hx) y.id (List.mem_map_of_mem hy) he.symm

/-- subscription `id` of boot `ep` is live in `s` and has not seen change `i` -/
def Owes (s : State) (ep id i : Nat) : Prop :=
  s.epoch = ep ∧ ∃ x ∈ s.live, x.id = id ∧ x.seenAttr < i

/-- the owing subscription has been in the table since change `i` was recorded: it is in the table,
or in the reporter's context whose snapshot already covers `i`; its last-success instant `R`, its
maximum interval `M` and its resume instant `Z` are fixed -/
def Track (s : State) (ep id i R M Z : Nat) : Prop :=
  s.epoch = ep ∧ ∃ x : Sub, x.id = id ∧ x.seenAttr < i ∧ x.reportedAt = R ∧ x.maxInt = M ∧
    x.resumedAt = Z ∧
    (x ∈ s.subs ∨ (∃ c ∈ s.ctxs, c.sub = x ∧ i ≤ c.nextAttr ∧
        ∃ r, s.reporting = some r ∧ r.id = id ∧ r.reportedAt = R ∧ r.maxInt = M ∧ r.resumedAt = Z))

/-! ### what `report_complete` does to the fields -/
theorem reportComplete_fields (s : State) (sub : Sub) (keep : Bool) :
    (s.reportComplete sub keep).ctxs = s.ctxs ∧ (s.reportComplete sub keep).epoch = s.epoch ∧
    (s.reportComplete sub keep).log = s.log ∧ (s.reportComplete sub keep).changed = s.changed ∧
    (s.reportComplete sub keep).hz = s.hz ∧
    ((s.reportComplete sub keep).subs = s.subs ∨ (s.reportComplete sub keep).subs = s.subs ++ [sub]) := by
  rcases reportComplete_shape s sub keep with ⟨r, cx, h⟩ | ⟨r, cx, h⟩ <;> rw [h] <;>
    simp [rcKeep, rcDrop]

theorem reportComplete_reporting_ne {s : State} {sub r : Sub} (keep : Bool)
    (hr : s.reporting = some r) (hne : r.id ≠ sub.id) :
    (s.reportComplete sub keep).reporting = some r := by
  unfold State.reportComplete
  have : (r.id == sub.id) = false := by simpa using hne
  simp only [hr, this, Bool.false_and]
  split
  · rename_i h; simp at h
  · split <;> simp


theorem resumeAll_epoch (now ev : Nat) : ∀ (rs : List Rec) (s : State),
    (rs.foldl (fun st r => st.resumeOne r now ev) s).epoch = s.epoch := by
  intro rs
  induction rs with
  | nil => intro s; rfl
  | cons r rs ih =>
    intro s
    simp only [List.foldl_cons]
    rw [ih]
    unfold State.resumeOne
    split <;> rfl

theorem restart_epoch (s : State) (now ev : Nat) : (s.restart now ev).epoch = s.epoch + 1 := by
  rw [restart_eq, resumeAll_epoch]; rfl

theorem uid_ctx_inj {s : State} (h : UID s) {c c' : Ctx} (hc : c ∈ s.ctxs) (hc' : c' ∈ s.ctxs)
    (hid : c.sub.id = c'.sub.id) : c = c' := by
  have h1 := h.nodup
  simp only [State.live, List.map_append, List.map_map] at h1
  exact nodup_map_inj (f := (fun x : Sub => x.id) ∘ (fun c : Ctx => c.sub)) (List.nodup_append.mp h1).2.1 c hc c' hc' hid

theorem track_step {s : State} {ep id i R M Z : Nat} (op : Op) (hwf : WF s) (hu : UID s)
    (hlog : ∃ p, (i, p) ∈ s.log) (ht : Track s ep id i R M Z)
    (hseq : ∀ now ev, op = .report now ev → s.reporting = none)
    (ho : Owes (s.step op) ep id i) : Track (s.step op) ep id i R M Z := by
  obtain ⟨hep, x, hid, hseen, hR, hM, hZ, hpos⟩ := ht
  cases op with
  | change p => exact ⟨hep, x, hid, hseen, hR, hM, hZ, hpos⟩
  | add now fab peer mn mx ev =>
    simp only [State.step, State.add]
    split
    · exact ⟨hep, x, hid, hseen, hR, hM, hZ, hpos⟩
    · refine ⟨hep, x, hid, hseen, hR, hM, hZ, ?_⟩
      rcases hpos with hx | ⟨c, hc, hcx, hci, r, hr, h1, h2, h3, h4⟩
      · left; exact hx
      · right; exact ⟨c, List.mem_append_left _ hc, hcx, hci, r, hr, h1, h2, h3, h4⟩
  | report now ev =>
    rcases hpos with hx | ⟨c, hc, hcx, hci, r, hr, h1, h2, h3, h4⟩
    · simp only [State.step]
      rcases report_shape (s := s) (now := now) (ev := ev) with h1 | ⟨j, sub, hs, h1⟩
      · rw [h1]; exact ⟨hep, x, hid, hseen, hR, hM, hZ, Or.inl hx⟩
      · rw [h1]
        refine ⟨hep, x, hid, hseen, hR, hM, hZ, ?_⟩
        have hp := swapRemove_perm hs
        rcases List.mem_cons.mp (hp.mem_iff.mpr hx) with rfl | hx'
        · right
          obtain ⟨p, hp'⟩ := hlog
          have h3 := watermark_eq hwf.nextPos hwf.nextLt
          have h4 := hwf.logBelow (i, p) hp'
          simp only at h4
          refine ⟨_, List.mem_append_right _ (List.mem_singleton.mpr rfl), rfl, ?_, x, rfl, hid, hR, hM, hZ⟩
          simp only; omega
        · left; exact hx'
    · have := hseq now ev rfl
      rw [this] at hr; cases hr
  | fin id' f =>
    simp only [State.step] at ho ⊢
    cases hf : s.ctxs.find? (fun c => c.sub.id == id') with
    | none => rw [fin_none hf]; exact ⟨hep, x, hid, hseen, hR, hM, hZ, hpos⟩
    | some c' =>
      rw [fin_eq hf] at ho ⊢
      have hc'm : c' ∈ s.ctxs := List.mem_of_find?_eq_some hf
      have hc'p : c'.sub.id = id' := by simpa using List.find?_some hf
      obtain ⟨f1, f2, f3, f4, f5, f6⟩ := reportComplete_fields
        ({ s with ctxs := s.ctxs.eraseP (fun c => c.sub.id == id') }) (finSub s.hz c' f) (finKeep f)
      rcases hpos with hx | ⟨c, hc, hcx, hci, r, hr, h1, h2, h3, h4⟩
      · refine ⟨by rw [f2]; exact hep, x, hid, hseen, hR, hM, hZ, Or.inl ?_⟩
        rcases f6 with f6 | f6 <;> rw [f6]
        · exact hx
        · exact List.mem_append_left _ hx
      · by_cases hcc : c' = c
        · subst hcc
          -- the reporter's context of `x` ends
          have he := live_erase hf
          have hex := uid_excl hu (rem := [c'.sub]) (t := { s with ctxs := s.ctxs.eraseP (fun c => c.sub.id == id') })
            (by simpa using he) (List.mem_singleton.mpr rfl)
          obtain ⟨_, y, hy, hyid, hyseen⟩ := ho
          have hidc : c'.sub.id = id := by rw [hcx]; exact hid
          have hy' : y ∈ ({ s with ctxs := s.ctxs.eraseP (fun c => c.sub.id == id') } : State).live ∨
              (y = finSub s.hz c' f ∧ y ∈ (({ s with ctxs := s.ctxs.eraseP (fun c => c.sub.id == id') } : State).reportComplete (finSub s.hz c' f) (finKeep f)).subs) := by
            simp only [State.live, List.mem_append] at hy ⊢
            rw [f1] at hy
            rcases hy with hy | hy
            · rcases f6 with f6 | f6
              · rw [f6] at hy; left; left; exact hy
              · rw [f6] at hy
                rcases List.mem_append.mp hy with hy | hy
                · left; left; exact hy
                · right; refine ⟨List.mem_singleton.mp hy, ?_⟩
                  rw [f6]; exact List.mem_append_right _ hy
            · left; right; exact hy
          rcases hy' with hy' | ⟨rfl, hys⟩
          · exact absurd (hyid.trans hidc.symm) (hex y hy')
          · cases f with
            | keep => simp only [finSub, Ctx.commit] at hyseen; omega
            | drop => simp only [finSub, Ctx.commit] at hyseen; omega
            | unsent => simp only [finSub, Ctx.commit, Ctx.setKeepUnsent] at hyseen; omega
            | retry =>
              refine ⟨by rw [f2]; exact hep, _, hyid, hyseen, ?_, ?_, ?_, Or.inl hys⟩
              · simp only [finSub, Ctx.commit, Ctx.setKeepRetry]; rw [hcx]; exact hR
              · simp only [finSub, Ctx.commit, Ctx.setKeepRetry]; rw [hcx]; exact hM
              · simp only [finSub, Ctx.commit, Ctx.setKeepRetry]; rw [hcx]; exact hZ
        · -- another context ends
          have hne : c'.sub.id ≠ c.sub.id := fun h => hcc (uid_ctx_inj hu hc'm hc h)
          have hpc : ¬ ((fun c : Ctx => c.sub.id == id') c = true) := by
            simp only [beq_iff_eq]
            intro h; exact hne (hc'p.trans h.symm)
          refine ⟨by rw [f2]; exact hep, x, hid, hseen, hR, hM, hZ, Or.inr ⟨c, ?_, hcx, hci, r, ?_, h1, h2, h3, h4⟩⟩
          · rw [f1]; exact (List.mem_eraseP_of_neg (p := fun c : Ctx => c.sub.id == id') (a := c) hpc).mpr hc
          · refine reportComplete_reporting_ne _ hr ?_
            rw [finSub_id, h1, ← hid, ← hcx]
            exact fun h => hne h.symm
  | remove p =>
    simp only [State.step] at ho ⊢
    obtain ⟨cx, h1⟩ := remove_shape s p
    rw [h1] at ho ⊢
    rcases hpos with hx | hpos
    · obtain ⟨rem, hr⟩ := removeLoop_perm p (s.subs.length + 1) s.subs s.count
      rcases List.mem_append.mp (hr.mem_iff.mpr hx) with hxr | hxs
      · exfalso
        have hp : (rem ++ (rmTo s (removeLoop p (s.subs.length + 1) s.subs s.count).1
            (removeLoop p (s.subs.length + 1) s.subs s.count).2.1 cx).live).Perm s.live := by
          simp only [rmTo, State.live]
          rw [← List.append_assoc]
          exact List.Perm.append_right _ hr
        obtain ⟨_, y, hy, hyid, _⟩ := ho
        exact uid_excl hu hp hxr y hy (hyid.trans hid.symm)
      · exact ⟨hep, x, hid, hseen, hR, hM, hZ, Or.inl hxs⟩
    · exact ⟨hep, x, hid, hseen, hR, hM, hZ, Or.inr hpos⟩
  | purge =>
    simp only [State.step, State.purge]
    repeat' split
    all_goals exact ⟨hep, x, hid, hseen, hR, hM, hZ, hpos⟩
  | persist => exact ⟨hep, x, hid, hseen, hR, hM, hZ, hpos⟩
  | restart now ev =>
    have := ho.1
    simp only [State.step] at this
    rw [restart_epoch] at this
    omega



/-! ## Schedules -/

theorem exists_first {P : Nat → Prop} (k : Nat) (h : ∃ n, k ≤ n ∧ P n) :
    ∃ n, k ≤ n ∧ P n ∧ ∀ m, k ≤ m → m < n → ¬ P m := by
  obtain ⟨n, hn, hp⟩ := h
  induction n using Nat.strongRecOn with
  | _ n ih =>
    by_cases hex : ∃ m, k ≤ m ∧ m < n ∧ P m
    · obtain ⟨m, hm1, hm2, hm3⟩ := hex
      exact ih m hm2 hm1 hm3
    · exact ⟨n, hn, hp, fun m h1 h2 h3 => hex ⟨m, h1, h2, h3⟩⟩

/-- the state after the first `k` operations of an infinite schedule -/
def stateAt (hz n : Nat) (sched : Nat → Op) : Nat → State
  | 0 => State.new hz n
  | k + 1 => (stateAt hz n sched k).step (sched k)

/-- the ghost log only grows within one boot -/
theorem log_mono_step {s : State} (op : Op) (he : (s.step op).epoch = s.epoch) {ip : Nat × Entry}
    (h : ip ∈ s.log) : ip ∈ (s.step op).log := by
  cases op with
  | change p => simp only [State.step, State.change]; exact List.mem_cons_of_mem _ h
  | add now fab peer mn mx ev => simp only [State.step, State.add]; split <;> exact h
  | report now ev =>
    simp only [State.step]
    rcases report_shape (s := s) (now := now) (ev := ev) with h1 | ⟨j, sub, _, h1⟩ <;> rw [h1] <;> exact h
  | fin id f =>
    simp only [State.step]
    cases hf : s.ctxs.find? (fun c => c.sub.id == id) with
    | none => rw [fin_none hf]; exact h
    | some c =>
      rw [fin_eq hf]
      rw [(reportComplete_fields _ _ _).2.2.1]; exact h
  | remove p =>
    simp only [State.step]
    obtain ⟨cx, h1⟩ := remove_shape s p
    rw [h1]; exact h
  | purge =>
    simp only [State.step, State.purge]
    repeat' split
    all_goals exact h
  | persist => exact h
  | restart now ev =>
    simp only [State.step] at he
    rw [restart_epoch] at he
    omega

/-- a report context stays alive until its own `fin` -/
theorem ctx_persist_step {s : State} (op : Op) (he : (s.step op).epoch = s.epoch) {c : Ctx}
    (hc : c ∈ s.ctxs) (hop : ∀ f, op ≠ .fin c.sub.id f) : c ∈ (s.step op).ctxs := by
  cases op with
  | change p => exact hc
  | add now fab peer mn mx ev =>
    simp only [State.step, State.add]; split
    · exact hc
    · exact List.mem_append_left _ hc
  | report now ev =>
    simp only [State.step]
    rcases report_shape (s := s) (now := now) (ev := ev) with h1 | ⟨j, sub, _, h1⟩ <;> rw [h1]
    · exact hc
    · exact List.mem_append_left _ hc
  | fin id f =>
    simp only [State.step]
    cases hf : s.ctxs.find? (fun c => c.sub.id == id) with
    | none => rw [fin_none hf]; exact hc
    | some c' =>
      rw [fin_eq hf, (reportComplete_fields _ _ _).1]
      have hne : c.sub.id ≠ id := fun h => hop f (by rw [h])
      have hpc : ¬ ((fun c : Ctx => c.sub.id == id) c = true) := by simpa using hne
      exact (List.mem_eraseP_of_neg (p := fun c : Ctx => c.sub.id == id) (a := c) hpc).mpr hc
  | remove p =>
    simp only [State.step]
    obtain ⟨cx, h1⟩ := remove_shape s p
    rw [h1]; exact hc
  | purge =>
    simp only [State.step, State.purge]
    repeat' split
    all_goals exact hc
  | persist => exact hc
  | restart now ev =>
    simp only [State.step] at he
    rw [restart_epoch] at he
    omega

/-- when the context of subscription `id` ends and the subscription still owes afterwards, it is
back in the table (as what the context committed) -/
theorem fin_own {s : State} {ep id i : Nat} {f : Fin} {c : Ctx} (hu : UID s) (hc : c ∈ s.ctxs)
    (hid : c.sub.id = id) (ho : Owes (s.fin id f).1 ep id i) :
    finSub s.hz c f ∈ (s.fin id f).1.subs ∧ (finSub s.hz c f).seenAttr < i := by
  cases hf : s.ctxs.find? (fun c => c.sub.id == id) with
  | none =>
    have := List.find?_eq_none.mp hf c hc
    simp [hid] at this
  | some c' =>
    have hc'm : c' ∈ s.ctxs := List.mem_of_find?_eq_some hf
    have hc'p : c'.sub.id = id := by simpa using List.find?_some hf
    have : c' = c := uid_ctx_inj hu hc'm hc (hc'p.trans hid.symm)
    subst this
    rw [fin_eq hf] at ho ⊢
    obtain ⟨f1, f2, f3, f4, f5, f6⟩ := reportComplete_fields
      ({ s with ctxs := s.ctxs.eraseP (fun c => c.sub.id == id) }) (finSub s.hz c' f) (finKeep f)
    have he := live_erase hf
    have hex := uid_excl hu (rem := [c'.sub]) (t := { s with ctxs := s.ctxs.eraseP (fun c => c.sub.id == id) })
      (by simpa using he) (List.mem_singleton.mpr rfl)
    obtain ⟨_, y, hy, hyid, hyseen⟩ := ho
    simp only [State.live, List.mem_append] at hy
    rw [f1] at hy
    have hnot : y ∉ ({ s with ctxs := s.ctxs.eraseP (fun c => c.sub.id == id) } : State).live :=
      fun h => hex y h (hyid.trans hid.symm)
    rcases hy with hy | hy
    · rcases f6 with f6 | f6
      · rw [f6] at hy; exact absurd (by simp only [State.live, List.mem_append]; left; exact hy) hnot
      · rw [f6] at hy ⊢
        rcases List.mem_append.mp hy with hy | hy
        · exact absurd (by simp only [State.live, List.mem_append]; left; exact hy) hnot
        · have : y = finSub s.hz c' f := List.mem_singleton.mp hy
          subst this
          exact ⟨List.mem_append_right _ (List.mem_singleton.mpr rfl), hyseen⟩
    · exact absurd (by simp only [State.live, List.mem_append]; right; exact hy) hnot



/-! ## Fair schedules and eventual delivery -/

/-- what `is_expired` measures from: the last success, or the resume instant while not primed -/
def Sub.expiryBase (x : Sub) : Nat := if x.reportedAt = IMAX then x.resumedAt else x.reportedAt

/-- **Fairness** of a schedule (hypotheses about the tasks around the table and about the transport;
none of them says that a report is delivered to a primed subscriber):
* `seq`: there is one reporter task — it begins a report only after its previous report context was
  dropped (`debug_assert!(self.reporting.is_none())` in `SubscriptionsInner::report`);
* `sweeps`: the reporter pass runs again and again while time advances: for every instant `T` there
  is a later pass whose expiry sweep (`remove(|sub| sub.is_expired(now) || …)`, done between two
  reports) uses a `now ≥ T`;
* `completes`: every begun priming / report eventually completes — its context is dropped after
  `set_keep`, `set_keep_retry` or plainly;
* `primes`: a priming completes: a subscription that has neither a last success nor a resume instant
  (`expiryBase = Instant::MAX`: it was just added and its priming report is in progress — `subscribe()`
  ends a priming context with `set_keep` or a plain drop, never with `set_keep_retry`) does not stay so
  for ever.  A subscription resumed after a restart is *not* covered by this clause: it expires one
  maximum interval after the resume instant like any other;
* `horizon`: the clock does not reach `Instant::MAX` within a maximum interval of a live
  subscription. -/
structure Fair (hz n : Nat) (sched : Nat → Op) : Prop where
  seq : ∀ k now ev, sched k = .report now ev → (stateAt hz n sched k).reporting = none
  sweeps : ∀ k T, T < IMAX → ∃ k' now p, k ≤ k' ∧ T ≤ now ∧ sched k' = .remove p ∧
    (∀ x : Sub, x.isExpired hz now = true → p x = true) ∧ (stateAt hz n sched k').reporting = none
  completes : ∀ k, ∀ c ∈ (stateAt hz n sched k).ctxs, ∃ k' f, k ≤ k' ∧ sched k' = .fin c.sub.id f
  primes : ∀ k, ∀ x ∈ (stateAt hz n sched k).live, x.expiryBase = IMAX →
    ∃ k', k ≤ k' ∧ ((stateAt hz n sched k').epoch ≠ (stateAt hz n sched k).epoch ∨
      ∀ y ∈ (stateAt hz n sched k').live, y.id = x.id → y.expiryBase ≠ IMAX)
  horizon : ∀ k, ∀ x ∈ (stateAt hz n sched k).live, x.expiryBase ≠ IMAX →
    x.expiryBase + x.maxInt * hz < IMAX

theorem inv_stateAt (hz n : Nat) (sched : Nat → Op)
    (hw : ∀ k, (stateAt hz n sched k).changed.nextId + 1 < U64) :
    ∀ k, WF (stateAt hz n sched k) ∧ Cov (stateAt hz n sched k) ∧ UID (stateAt hz n sched k) := by
  intro k
  induction k with
  | zero => exact ⟨wf_init hz n, cov_init hz n, uid_init hz n⟩
  | succ k ih =>
    have := inv_step (sched k) ih.1 ih.2.1 (hw k)
    exact ⟨this.1, this.2, uid_step (sched k) ih.2.2⟩

theorem expired_of {x : Sub} {hz now B M : Nat} (hB : x.expiryBase = B) (hM : x.maxInt = M)
    (hh : B + M * hz < IMAX) (hn : B + M * hz ≤ now) : x.isExpired hz now = true := by
  have h2 : B + M * hz ≤ IMAX := by omega
  unfold Sub.expiryBase at hB
  simp only [Sub.isExpired, checkedAdd, hB, hM, h2, if_true, hn, decide_true]

/-- **Eventual delivery.** Along a fair schedule without change-id wrap, a subscription that owes a
recorded change does not owe it forever: a report whose snapshot covers the change is acknowledged
(`fin … keep` commits a watermark ≥ `i`), or the subscription ends (dropped, removed, expired), or
the device restarts. -/
theorem eventually_not_owes {hz n : Nat} {sched : Nat → Op} (hf : Fair hz n sched)
    (hw : ∀ k, (stateAt hz n sched k).changed.nextId + 1 < U64)
    (k id i : Nat) (p : Entry) (hlog : (i, p) ∈ (stateAt hz n sched k).log) :
    ∃ k', k ≤ k' ∧ ¬ Owes (stateAt hz n sched k') (stateAt hz n sched k).epoch id i := by
  apply Classical.byContradiction
  intro hne
  generalize hep0 : (stateAt hz n sched k).epoch = ep at *
  have H : ∀ k', k ≤ k' → Owes (stateAt hz n sched k') ep id i :=
    fun k' hk => Classical.byContradiction (fun h => hne ⟨k', hk, h⟩)
  have hinv := inv_stateAt hz n sched hw
  have hep : ∀ k', k ≤ k' → (stateAt hz n sched k').epoch = ep := fun k' hk => (H k' hk).1
  have hstep : ∀ k', k ≤ k' →
      ((stateAt hz n sched k').step (sched k')).epoch = (stateAt hz n sched k').epoch := by
    intro k' hk
    have h1 := hep (k' + 1) (by omega)
    have h2 := hep k' hk
    simp only [stateAt] at h1
    rw [h1, h2]
  have hlg : ∀ d, (i, p) ∈ (stateAt hz n sched (k + d)).log := by
    intro d
    induction d with
    | zero => exact hlog
    | succ d ih => exact log_mono_step (sched (k + d)) (hstep (k + d) (by omega)) ih
  -- a tracked subscription stays tracked
  have L2 : ∀ k1, k ≤ k1 → ∀ R M Z, Track (stateAt hz n sched k1) ep id i R M Z →
      ∀ d, Track (stateAt hz n sched (k1 + d)) ep id i R M Z := by
    intro k1 hk1 R M Z ht d
    induction d with
    | zero => exact ht
    | succ d ih =>
      have hl : ∃ p, (i, p) ∈ (stateAt hz n sched (k1 + d)).log := by
        have := hlg (k1 + d - k)
        rw [show k + (k1 + d - k) = k1 + d by omega] at this
        exact ⟨p, this⟩
      exact track_step (sched (k1 + d)) (hinv (k1 + d)).1 (hinv (k1 + d)).2.2 hl ih
        (fun now ev h => hf.seq (k1 + d) now ev h) (H (k1 + d + 1) (by omega))
  -- the subscription gets into the table (or is tracked in the reporter's context)
  have L3 : ∃ k1, k ≤ k1 ∧ ∃ R M Z, Track (stateAt hz n sched k1) ep id i R M Z := by
    obtain ⟨_, x, hx, hxid, hxseen⟩ := H k (Nat.le_refl k)
    rcases mem_live.mp hx with hxs | ⟨c, hc, hcx⟩
    · exact ⟨k, Nat.le_refl k, x.reportedAt, x.maxInt, x.resumedAt, hep k (Nat.le_refl k), x, hxid, hxseen,
        rfl, rfl, rfl, Or.inl hxs⟩
    · obtain ⟨k', f, hk', hs⟩ := hf.completes k c hc
      obtain ⟨k1, hk1, ⟨f1, hs1⟩, hmin⟩ :=
        exists_first (P := fun m => ∃ f, sched m = .fin c.sub.id f) k ⟨k', hk', f, hs⟩
      have hper : ∀ d, k + d ≤ k1 → c ∈ (stateAt hz n sched (k + d)).ctxs := by
        intro d
        induction d with
        | zero => intro _; exact hc
        | succ d ih =>
          intro hd
          have hc' := ih (by omega)
          exact ctx_persist_step (sched (k + d)) (hstep (k + d) (by omega)) hc'
            (fun f hf' => hmin (k + d) (by omega) (by omega) ⟨f, hf'⟩)
      have hck1 : c ∈ (stateAt hz n sched k1).ctxs := by
        have := hper (k1 - k) (by omega)
        rwa [show k + (k1 - k) = k1 by omega] at this
      have hidc : c.sub.id = id := by rw [hcx]; exact hxid
      have ho1 := H (k1 + 1) (by omega)
      simp only [stateAt, hs1, State.step] at ho1
      rw [hidc] at ho1
      obtain ⟨hm, hlt⟩ := fin_own (hinv k1).2.2 hck1 hidc ho1
      refine ⟨k1 + 1, by omega, _, _, _, hep (k1 + 1) (by omega), finSub (stateAt hz n sched k1).hz c f1, ?_, hlt,
        rfl, rfl, rfl, Or.inl ?_⟩
      · rw [finSub_id]; exact hidc
      · simp only [stateAt, hs1, State.step]; rw [hidc]; exact hm
  obtain ⟨k1, hk1, R, M, Z, ht⟩ := L3
  obtain ⟨_, x, hxid, hxseen, hxR, hxM, hxZ, hxpos⟩ := ht
  have hxlive : x ∈ (stateAt hz n sched k1).live := by
    rcases hxpos with h | ⟨c, hc, hcx, _⟩
    · exact mem_live.mpr (Or.inl h)
    · exact mem_live.mpr (Or.inr ⟨c, hc, hcx⟩)
  have ht : Track (stateAt hz n sched k1) ep id i R M Z :=
    ⟨hep k1 hk1, x, hxid, hxseen, hxR, hxM, hxZ, hxpos⟩
  have hbase : ∀ y : Sub, y.reportedAt = R → y.resumedAt = Z → y.expiryBase = x.expiryBase := by
    intro y h1 h2
    simp only [Sub.expiryBase, h1, h2, hxR, hxZ]
  by_cases hB : x.expiryBase = IMAX
  · -- neither a last success nor a resume instant: the priming is in progress; it completes
    -- (fairness), but a tracked subscription keeps `R` and `Z`
    obtain ⟨k', hk', h⟩ := hf.primes k1 x hxlive hB
    rcases h with h | h
    · exact h ((hep k' (by omega)).trans (hep k1 hk1).symm)
    · have := L2 k1 hk1 R M Z ht (k' - k1)
      rw [show k1 + (k' - k1) = k' by omega] at this
      obtain ⟨_, x', hx'id, _, hx'R, _, hx'Z, hx'pos⟩ := this
      have hx'live : x' ∈ (stateAt hz n sched k').live := by
        rcases hx'pos with h | ⟨c, hc, hcx, _⟩
        · exact mem_live.mpr (Or.inl h)
        · exact mem_live.mpr (Or.inr ⟨c, hc, hcx⟩)
      exact h x' hx'live (hx'id.trans hxid.symm) ((hbase x' hx'R hx'Z).trans hB)
  · -- one maximum interval after its last success (its resume instant) the expiry sweep removes it
    have hh : x.expiryBase + M * hz < IMAX := by
      have := hf.horizon k1 x hxlive hB
      rwa [hxM] at this
    obtain ⟨k', now, pr, hk', hnow, hs, hp, hrep⟩ := hf.sweeps k1 (x.expiryBase + M * hz) hh
    have t1 := L2 k1 hk1 R M Z ht (k' - k1 + 1)
    rw [show k1 + (k' - k1 + 1) = k' + 1 by omega] at t1
    obtain ⟨_, x'', _, _, hR'', hM'', hZ'', hpos''⟩ := t1
    simp only [stateAt, hs, State.step] at hpos''
    obtain ⟨cx, hsh⟩ := remove_shape (stateAt hz n sched k') pr
    rw [hsh] at hpos''
    rcases hpos'' with h | ⟨c, _, _, _, r, hr, _⟩
    · have h1 := removeLoop_all pr ((stateAt hz n sched k').subs.length + 1) (stateAt hz n sched k').subs
        (stateAt hz n sched k').count (by omega) x'' h
      have h2 := hp x'' (expired_of (hbase x'' hR'' hZ'') hM'' hh hnow)
      rw [h1] at h2; cases h2
    · simp only [rmTo] at hr
      rw [hrep] at hr; cases hr

/-! ## Restart: what `load_persist` builds -/

theorem resumeAll_changed (now ev : Nat) : ∀ (rs : List Rec) (s : State),
    (rs.foldl (fun st r => st.resumeOne r now ev) s).changed = s.changed ∧
    (rs.foldl (fun st r => st.resumeOne r now ev) s).ctxs = s.ctxs ∧
    (rs.foldl (fun st r => st.resumeOne r now ev) s).log = s.log ∧
    (rs.foldl (fun st r => st.resumeOne r now ev) s).kv = s.kv := by
  intro rs
  induction rs with
  | nil => intro s; exact ⟨rfl, rfl, rfl, rfl⟩
  | cons r rs ih =>
    intro s
    simp only [List.foldl_cons]
    obtain ⟨a, b, c, d⟩ := ih (s.resumeOne r now ev)
    rw [a, b, c, d]
    unfold State.resumeOne
    split <;> exact ⟨rfl, rfl, rfl, rfl⟩

theorem restart_changed (s : State) (now ev : Nat) : (s.restart now ev).changed = Changed.new := by
  rw [restart_eq, (resumeAll_changed now ev _ _).1]; rfl

theorem resumeAll_capacity (now ev : Nat) : ∀ (rs : List Rec) (s : State), s.count ≤ s.n →
    (rs.foldl (fun st r => st.resumeOne r now ev) s).count ≤
      (rs.foldl (fun st r => st.resumeOne r now ev) s).n := by
  intro rs
  induction rs with
  | nil => intro s h; exact h
  | cons r rs ih =>
    intro s h
    simp only [List.foldl_cons]
    apply ih
    unfold State.resumeOne
    split
    · exact h
    · simp only; omega

/-- every subscription of the table built by `load_persist` is not primed (its next report is a full
priming report), carries the intervals of a persisted record and a fresh watermark -/
theorem resumeAll_subs (now ev : Nat) : ∀ (rs : List Rec) (s : State),
    (∀ x ∈ s.subs, x.reportedAt = IMAX ∧ x.retryAt = 0 ∧ x.seenAttr = s.changed.watermark ∧ x.resumedAt = now) →
    ∀ x ∈ (rs.foldl (fun st r => st.resumeOne r now ev) s).subs,
      x.reportedAt = IMAX ∧ x.retryAt = 0 ∧ x.seenAttr = s.changed.watermark ∧ x.resumedAt = now := by
  intro rs
  induction rs with
  | nil => intro s h; exact h
  | cons r rs ih =>
    intro s h
    simp only [List.foldl_cons]
    have hc : (s.resumeOne r now ev).changed = s.changed := by
      unfold State.resumeOne; split <;> rfl
    have := ih (s.resumeOne r now ev) (by
      rw [hc]
      unfold State.resumeOne
      split
      · exact h
      · intro x hx
        simp only [List.mem_append, List.mem_singleton] at hx
        rcases hx with hx | rfl
        · exact h x hx
        · exact ⟨rfl, rfl, rfl, rfl⟩)
    rw [hc] at this
    exact this

/-- while the table has room, `load_persist` resumes the records in slot order, each under the id of
its record — provided the records carry distinct ids that no subscription of the table holds (what
`persist_all` writes: `persist_recs_distinct`) -/
theorem resumeAll_map (now ev : Nat) : ∀ (rs : List Rec) (s : State), s.count + rs.length ≤ s.n →
    (rs.map (·.id)).Nodup → (∀ r ∈ rs, ∃ j, r.id = some j ∧ ∀ x ∈ s.subs, x.id ≠ j) →
    (rs.foldl (fun st r => st.resumeOne r now ev) s).subs.map Sub.toRec = s.subs.map Sub.toRec ++ rs := by
  intro rs
  induction rs with
  | nil => intro s _ _ _; simp
  | cons r rs ih =>
    intro s h hnd hids
    simp only [List.foldl_cons, List.length_cons, List.map_cons, List.nodup_cons] at h hnd ⊢
    have hlt : ¬ s.count ≥ s.n := by omega
    obtain ⟨j, hj, hfree⟩ := hids r (List.mem_cons_self)
    have hid : (s.resumeId r).1 = j := by
      unfold State.resumeId
      rw [hj]
      simp only
      have : s.subs.any (fun x => x.id == j) = false := by
        rw [Bool.eq_false_iff]
        intro ht
        rw [List.any_eq_true] at ht
        obtain ⟨x, hx, he⟩ := ht
        exact hfree x hx (by simpa using he)
      simp [this]
    have hs : (s.resumeOne r now ev).subs.map Sub.toRec = s.subs.map Sub.toRec ++ [r] ∧
        (s.resumeOne r now ev).count = s.count + 1 ∧ (s.resumeOne r now ev).n = s.n ∧
        (∀ x ∈ (s.resumeOne r now ev).subs, x ∈ s.subs ∨ x.id = j) := by
      unfold State.resumeOne
      simp only [hlt, if_false]
      refine ⟨?_, trivial, trivial, ?_⟩
      · simp only [List.map_append, List.map_cons, List.map_nil, Sub.toRec, hid]
        congr 2
        cases r
        simp only at hj
        simp [hj]
      · intro x hx
        simp only [List.mem_append, List.mem_singleton] at hx
        rcases hx with hx | rfl
        · left; exact hx
        · right; exact hid
    rw [ih _ (by rw [hs.2.1, hs.2.2.1]; omega) hnd.2 ?_, hs.1]
    · simp
    · intro r' hr'
      obtain ⟨j', hj', hfree'⟩ := hids r' (List.mem_cons_of_mem _ hr')
      refine ⟨j', hj', ?_⟩
      intro x hx
      rcases hs.2.2.2 x hx with hx | hx
      · exact hfree' x hx
      · rw [hx]
        intro he
        apply hnd.1
        rw [hj, he, ← hj']
        exact List.mem_map_of_mem hr'

/-! ## The reporter picks an owing subscription up -/

theorem removeLoop_perm_all (p : Sub → Bool) : ∀ (fuel : Nat) (subs : List Sub) (count : Nat),
    ∃ rem, (rem ++ (removeLoop p fuel subs count).1).Perm subs ∧ ∀ y ∈ rem, p y = true := by
  intro fuel
  induction fuel with
  | zero => intro subs count; exact ⟨[], by simp [removeLoop], by simp⟩
  | succ fuel ih =>
    intro subs count
    simp only [removeLoop]
    cases hf : subs.findIdx? p with
    | none => exact ⟨[], by simp, by simp⟩
    | some i =>
      simp only
      have hi : i < subs.length := (List.findIdx?_eq_some_iff_findIdx_eq.mp hf).1
      have hpi : p subs[i] = true := (List.findIdx?_eq_some_iff_getElem.mp hf).2.1
      obtain ⟨rem, hr, hall⟩ := ih (swapRemove subs i) (count - 1)
      refine ⟨subs[i] :: rem, ?_, ?_⟩
      · have h1 := swapRemove_perm (es := subs) (i := i) (y := subs[i]) (by simp [hi])
        exact (List.Perm.cons _ hr).trans h1
      · intro y hy
        rcases List.mem_cons.mp hy with rfl | hy
        · exact hpi
        · exact hall y hy

/-- how a subscription can leave the table: the reporter begins a report for it (its context
snapshots the current watermark), a removal matches it, or the device restarts -/
theorem leaves_table {s : State} (op : Op) {x : Sub} (hx : x ∈ s.subs) (hn : x ∉ (s.step op).subs) :
    (∃ now ev, op = .report now ev ∧ ∃ c ∈ (s.step op).ctxs, c.sub = x ∧ c.nextAttr = s.changed.watermark) ∨
    (∃ pr, op = .remove pr ∧ pr x = true) ∨ (∃ now ev, op = .restart now ev) := by
  cases op with
  | change p => exact absurd hx hn
  | add now fab peer mn mx ev =>
    simp only [State.step, State.add] at hn
    split at hn <;> exact absurd hx hn
  | report now ev =>
    left
    refine ⟨now, ev, rfl, ?_⟩
    simp only [State.step] at hn ⊢
    rcases report_shape (s := s) (now := now) (ev := ev) with h1 | ⟨j, sub, hs, h1⟩
    · rw [h1] at hn; exact absurd hx hn
    · rw [h1] at hn ⊢
      have hp := swapRemove_perm hs
      rcases List.mem_cons.mp (hp.mem_iff.mpr hx) with rfl | hx'
      · exact ⟨_, List.mem_append_right _ (List.mem_singleton.mpr rfl), rfl, rfl⟩
      · exact absurd hx' hn
  | fin id f =>
    exfalso
    simp only [State.step] at hn
    cases hf : s.ctxs.find? (fun c => c.sub.id == id) with
    | none => rw [fin_none hf] at hn; exact hn hx
    | some c =>
      rw [fin_eq hf] at hn
      rcases (reportComplete_fields ({ s with ctxs := s.ctxs.eraseP (fun c => c.sub.id == id) })
        (finSub s.hz c f) (finKeep f)).2.2.2.2.2 with h | h <;> rw [h] at hn
      · exact hn hx
      · exact hn (List.mem_append_left _ hx)
  | remove p =>
    right; left
    refine ⟨p, rfl, ?_⟩
    simp only [State.step] at hn
    obtain ⟨cx, h1⟩ := remove_shape s p
    rw [h1] at hn
    obtain ⟨rem, hr, hall⟩ := removeLoop_perm_all p (s.subs.length + 1) s.subs s.count
    rcases List.mem_append.mp (hr.mem_iff.mpr hx) with h | h
    · exact hall x h
    · exact absurd h hn
  | purge =>
    exfalso
    simp only [State.step, State.purge] at hn
    repeat' split at hn
    all_goals exact hn hx
  | persist => exact absurd hx hn
  | restart now ev => right; right; exact ⟨now, ev, rfl⟩

theorem hz_step (s : State) (op : Op) : (s.step op).hz = s.hz := by
  cases op with
  | change p => rfl
  | add now fab peer mn mx ev => simp only [State.step, State.add]; split <;> rfl
  | report now ev =>
    simp only [State.step]
    rcases report_shape (s := s) (now := now) (ev := ev) with h1 | ⟨j, sub, _, h1⟩ <;> rw [h1] <;> rfl
  | fin id f =>
    simp only [State.step]
    cases hf : s.ctxs.find? (fun c => c.sub.id == id) with
    | none => rw [fin_none hf]
    | some c => rw [fin_eq hf, (reportComplete_fields _ _ _).2.2.2.2.1]
  | remove p =>
    simp only [State.step]
    obtain ⟨cx, h1⟩ := remove_shape s p
    rw [h1]; rfl
  | purge =>
    simp only [State.step, State.purge]
    repeat' split
    all_goals rfl
  | persist => rfl
  | restart now ev =>
    simp only [State.step]
    rw [restart_eq]
    have : ∀ (rs : List Rec) (t : State), (rs.foldl (fun st r => st.resumeOne r now ev) t).hz = t.hz := by
      intro rs
      induction rs with
      | nil => intro t; rfl
      | cons r rs ih =>
        intro t; simp only [List.foldl_cons]; rw [ih]
        unfold State.resumeOne; split <;> rfl
    rw [this]; rfl

theorem hz_stateAt (hz n : Nat) (sched : Nat → Op) : ∀ k, (stateAt hz n sched k).hz = hz := by
  intro k
  induction k with
  | zero => rfl
  | succ k ih => simp only [stateAt]; rw [hz_step, ih]


theorem epoch_step (s : State) (op : Op) (h : ∀ now ev, op ≠ .restart now ev) :
    (s.step op).epoch = s.epoch := by
  cases op with
  | change p => rfl
  | add now fab peer mn mx ev => simp only [State.step, State.add]; split <;> rfl
  | report now ev =>
    simp only [State.step]
    rcases report_shape (s := s) (now := now) (ev := ev) with h1 | ⟨j, sub, _, h1⟩ <;> rw [h1] <;> rfl
  | fin id f =>
    simp only [State.step]
    cases hf : s.ctxs.find? (fun c => c.sub.id == id) with
    | none => rw [fin_none hf]
    | some c => rw [fin_eq hf, (reportComplete_fields _ _ _).2.1]
  | remove p =>
    simp only [State.step]
    obtain ⟨cx, h1⟩ := remove_shape s p
    rw [h1]; rfl
  | purge =>
    simp only [State.step, State.purge]
    repeat' split
    all_goals rfl
  | persist => rfl
  | restart now ev => exact absurd rfl (h now ev)

/-- the reporter's passes complete: again and again, at later and later instants, a `report` call
finds nothing reportable (this is how every pass of the reporter loop of `im.rs` ends) -/
def Idle (hz n : Nat) (sched : Nat → Op) : Prop :=
  ∀ k T, T < IMAX → ∃ k' now ev, k ≤ k' ∧ T ≤ now ∧ sched k' = .report now ev ∧
    ((stateAt hz n sched k').report now ev).2 = none

end Subs
