//! C14: a chunked answer carries the complete result exactly once.
//!
//! The REAL `InteractionModel` (device side: `Matter` transport + `Responder` + IM over a harness
//! cluster) answers read requests issued by a raw client exchange over an in-process pipe.  The
//! harness cluster has 16 octet-string attributes and 6 list-of-octet-string attributes whose
//! value lengths the generator picks per read (just fit / just do not fit / lists longer than a
//! message).  Every `ReportData` chunk is captured raw, decoded with the real TLV reader (step
//! capped), and rendered as: total size, MoreChunks / SuppressResponse flags, well-formedness, and
//! per attribute report its kind, attribute, encoded size, value length(s) and whether the value
//! bytes are the configured ones.
//!
//! op:   `rd <item>…`, item = `s<attr>:<len>` | `l<attr>:<len>,<len>…` | `l<attr>:-`
//! out:  `<status> | <chunk>;<chunk>…`, chunk = `<size>/<more><suppress><wf>/<piece>,<piece>…`
//!       piece = `S<attr>:<enc>:<len>:<ok>` | `W<attr>:<enc>:<lens|->:<ok>` | `E<attr>:<enc>` |
//!               `I<attr>:<enc>:<len>:<ok>` | `X<attr>:<enc>` | `?`
#[path = "c14_e2e.rs"]
mod e2e;

use core::future::Future;
use core::pin::pin;
use core::task::{Context, Poll, RawWaker, RawWakerVTable, Waker};

use embassy_futures::select::{select, Either};

use crate::proto::{parse_cases, Case, Out};
use crate::rng::Rng;
use crate::Args;

use e2e::{pattern, Runner, CLUSTER_ID, ENDPOINT, N_LIST, N_SCALAR, SIZES};
use rs_matter::crypto::Crypto;
use rs_matter::error::Error;
use rs_matter::im::{IMStatusCode, OpCode, StatusResp};
use rs_matter::tlv::{TLVElement, TLVTag, TLVWrite};
use rs_matter::transport::exchange::MAX_EXCHANGE_TX_BUF_SIZE;

fn noop_waker() -> Waker {
    fn clone(_: *const ()) -> RawWaker {
        RawWaker::new(core::ptr::null(), &VTABLE)
    }
    fn noop(_: *const ()) {}
    static VTABLE: RawWakerVTable = RawWakerVTable::new(clone, noop, noop, noop);
    unsafe { Waker::from_raw(RawWaker::new(core::ptr::null(), &VTABLE)) }
}

/// poll a future at most `max` times (no wall clock involved: the mock time driver never advances)
fn run_bounded<F: Future>(f: F, max: u64) -> Option<F::Output> {
    let mut f = pin!(f);
    let w = noop_waker();
    let mut cx = Context::from_waker(&w);
    for _ in 0..max {
        if let Poll::Ready(v) = f.as_mut().poll(&mut cx) {
            return Some(v);
        }
    }
    None
}

#[derive(Clone, Debug)]
enum Item {
    Scalar(u32, usize),
    List(u32, Vec<usize>),
}

fn parse_items(op: &str) -> Vec<Item> {
    let mut v = Vec::new();
    for w in op.split_whitespace().skip(1) {
        let (kind, rest) = w.split_at(1);
        let mut it = rest.splitn(2, ':');
        let attr: u32 = it.next().and_then(|x| x.parse().ok()).unwrap_or(0);
        let val = it.next().unwrap_or("0");
        match kind {
            "s" => v.push(Item::Scalar(attr % N_SCALAR, val.parse().unwrap_or(0))),
            _ => {
                let lens = if val == "-" { Vec::new() } else { val.split(',').filter_map(|x| x.parse().ok()).collect() };
                v.push(Item::List(N_SCALAR + attr % N_LIST, lens))
            }
        }
    }
    v
}

fn configure(items: &[Item]) {
    let mut s = SIZES.lock().unwrap();
    for it in items {
        match it {
            Item::Scalar(a, len) => s.scalars[*a as usize] = *len,
            Item::List(a, lens) => s.lists[(*a - N_SCALAR) as usize] = lens.clone(),
        }
    }
}

/// decode one `AttributeReportIB` (an anonymous struct) with the real TLV reader
fn render_piece(e: &TLVElement<'_>, raw_len: usize, next_idx: &mut [usize; N_LIST as usize]) -> String {
    let mut inner = || -> Result<String, Error> {
        let s = e.structure()?;
        if let Some(data) = s.find_ctx(1).ok().filter(|e| !e.is_empty()) {
            let d = data.structure()?;
            let path = d.find_ctx(1)?.list()?;
            let attr = path.find_ctx(4)?.u32()?;
            let ep = path.find_ctx(2)?.u16()?;
            let cl = path.find_ctx(3)?.u32()?;
            if ep != ENDPOINT || cl != CLUSTER_ID {
                return Ok("?".into());
            }
            let li = path.find_ctx(5).ok().filter(|e| !e.is_empty());
            let val = d.find_ctx(2)?;
            if attr < N_SCALAR {
                let v = val.str()?;
                let ok = v == pattern(attr, 0, v.len()).as_slice();
                Ok(format!("S{}:{}:{}:{}", attr, raw_len, v.len(), ok as u8))
            } else if let Some(li) = li {
                // list index null = append one element
                if li.null().is_ok() {
                    let v = val.str()?;
                    let slot = &mut next_idx[(attr - N_SCALAR) as usize % N_LIST as usize];
                    let ok = v == pattern(attr, *slot, v.len()).as_slice();
                    *slot += 1;
                    Ok(format!("I{}:{}:{}:{}", attr - N_SCALAR, raw_len, v.len(), ok as u8))
                } else {
                    Ok("?".into())
                }
            } else {
                let arr = val.array()?;
                let mut lens = Vec::new();
                let mut ok = true;
                let mut steps = 0usize;
                for (k, el) in arr.iter().enumerate() {
                    steps += 1;
                    if steps > 4096 {
                        return Ok("?".into());
                    }
                    let v = el?.str()?;
                    ok &= v == pattern(attr, k, v.len()).as_slice();
                    lens.push(v.len().to_string());
                }
                if lens.is_empty() {
                    next_idx[(attr - N_SCALAR) as usize % N_LIST as usize] = 0;
                    Ok(format!("E{}:{}", attr - N_SCALAR, raw_len))
                } else {
                    Ok(format!("W{}:{}:{}:{}", attr - N_SCALAR, raw_len, lens.join("+"), ok as u8))
                }
            }
        } else if let Some(st) = s.find_ctx(0).ok().filter(|e| !e.is_empty()) {
            let d = st.structure()?;
            let path = d.find_ctx(0)?.list()?;
            let attr = path.find_ctx(4)?.u32()?;
            Ok(format!("X{}:{}", attr, raw_len))
        } else {
            Ok("?".into())
        }
    };
    inner().unwrap_or_else(|e| format!("?{:?}", e.code()))
}

struct ChunkInfo {
    more: bool,
    text: String,
}

fn render_chunk(payload: &[u8], next_idx: &mut [usize; N_LIST as usize]) -> ChunkInfo {
    let mut more = false;
    let mut suppress = false;
    let mut wf = true;
    let mut pieces: Vec<String> = Vec::new();
    let root = TLVElement::new(payload);
    let parsed = (|| -> Result<(), Error> {
        let s = root.structure()?;
        // top-level fields, in order (step capped: the iterator repeats errors on malformed input)
        let mut fields: Vec<TLVElement<'_>> = Vec::new();
        for (n, el) in s.iter().enumerate() {
            if n > payload.len() + 2 {
                wf = false;
                break;
            }
            fields.push(el?);
        }
        // the struct must span the whole payload: after the last field only its end-of-container
        let mut seen_rev = false;
        for (i, f) in fields.iter().enumerate() {
            // what follows this field: the next field, or the closing byte of the message
            let after = fields.get(i + 1).map(|n| n.raw_data().len()).unwrap_or(1);
            match f.ctx()? {
                3 => more = f.bool()?,
                4 => suppress = f.bool()?,
                0xff => {
                    seen_rev = true;
                    if i + 1 != fields.len() || f.raw_data().len() != 3 + 1 {
                        wf = false;
                    }
                }
                1 => {
                    let arr = f.array()?;
                    let mut items: Vec<TLVElement<'_>> = Vec::new();
                    for (n, el) in arr.iter().enumerate() {
                        if n > payload.len() + 2 {
                            wf = false;
                            break;
                        }
                        items.push(el?);
                    }
                    for (j, it) in items.iter().enumerate() {
                        let start = it.raw_data().len();
                        // the last report is followed by the array's end-of-container
                        let end = items.get(j + 1).map(|n| n.raw_data().len()).unwrap_or(after + 1);
                        let len = start.saturating_sub(end);
                        pieces.push(render_piece(it, len, next_idx));
                    }
                }
                _ => {}
            }
        }
        if !seen_rev {
            wf = false;
        }
        Ok(())
    })();
    if parsed.is_err() {
        wf = false;
    }
    ChunkInfo {
        more,
        text: format!(
            "{}/{}{}{}/{}",
            payload.len(),
            more as u8,
            suppress as u8,
            wf as u8,
            if pieces.is_empty() { "-".to_string() } else { pieces.join(",") }
        ),
    }
}

/// one read interaction against the real IM; returns the rendered output
async fn read_once<C: Crypto>(runner: &Runner<C>, items: &[Item]) -> String {
    let mut chunks: Vec<String> = Vec::new();
    let mut next_idx = [0usize; N_LIST as usize];
    let status = async {
        let mut ex = runner.initiate_exchange().await?;
        ex.send_with(|_, wb| {
            wb.start_struct(&TLVTag::Anonymous)?;
            wb.start_array(&TLVTag::Context(0))?;
            for it in items {
                let attr = match it {
                    Item::Scalar(a, _) => *a,
                    Item::List(a, _) => *a,
                };
                wb.start_list(&TLVTag::Anonymous)?;
                wb.u16(&TLVTag::Context(2), ENDPOINT)?;
                wb.u32(&TLVTag::Context(3), CLUSTER_ID)?;
                wb.u32(&TLVTag::Context(4), attr)?;
                wb.end_container()?;
            }
            wb.end_container()?;
            wb.bool(&TLVTag::Context(3), false)?;
            wb.u8(&TLVTag::Context(0xff), 13)?;
            wb.end_container()?;
            Ok(Some(OpCode::ReadRequest.into()))
        })
        .await?;
        loop {
            ex.recv_fetch().await?;
            let (opcode, info) = {
                let rx = ex.rx()?;
                (rx.meta().proto_opcode, render_chunk(rx.payload(), &mut next_idx))
            };
            if opcode != OpCode::ReportData as u8 {
                let rx = ex.rx()?;
                let st = StatusResp::from_tlv_payload(rx.payload());
                ex.rx_done()?;
                let _ = ex.acknowledge().await;
                return Ok::<String, Error>(format!("status:{}", st));
            }
            ex.rx_done()?;
            let more = info.more;
            chunks.push(info.text);
            if chunks.len() > 200 {
                return Ok("toomany".into());
            }
            if more {
                ex.send_with(|_, wb| {
                    StatusResp::write(wb, IMStatusCode::Success)?;
                    Ok(Some(OpCode::StatusResponse.into()))
                })
                .await?;
            } else {
                // reads are sent with SuppressResponse; acknowledge and finish
                let _ = ex.acknowledge().await;
                return Ok("ok".into());
            }
        }
    }
    .await;
    let st = match status {
        Ok(s) => s,
        Err(e) => format!("err:{:?}", e.code()),
    };
    format!("{} | {}", st, if chunks.is_empty() { "-".to_string() } else { chunks.join(";") })
}

trait StatusPayload {
    fn from_tlv_payload(p: &[u8]) -> String;
}
impl StatusPayload for StatusResp {
    fn from_tlv_payload(p: &[u8]) -> String {
        let e = TLVElement::new(p);
        match e.structure().and_then(|s| s.find_ctx(0)).and_then(|c| c.u8()) {
            Ok(v) => v.to_string(),
            Err(_) => "?".into(),
        }
    }
}

/// a future that gives up (`None`) after `left` polls
struct Budget<F> {
    f: core::pin::Pin<Box<F>>,
    left: u64,
}

impl<F: Future> Future for Budget<F> {
    type Output = Option<F::Output>;
    fn poll(mut self: core::pin::Pin<&mut Self>, cx: &mut Context<'_>) -> Poll<Self::Output> {
        if self.left == 0 {
            return Poll::Ready(None);
        }
        self.left -= 1;
        match self.f.as_mut().poll(cx) {
            Poll::Ready(v) => Poll::Ready(Some(v)),
            Poll::Pending => Poll::Pending,
        }
    }
}

const OP_POLLS: u64 = 300_000;

/// run the ops of all cases against the real device; a read that gets no answer within the poll
/// budget is reported as `hang` and the remaining ops continue on a fresh device
fn drive(cases: &[Case], out: &mut Out) {
    let flat: Vec<(usize, usize)> = cases.iter().enumerate().flat_map(|(ci, c)| (0..c.ops.len()).map(move |oi| (ci, oi))).collect();
    let mut pos = 0usize;
    let mut k = String::new();
    let mut started: Vec<bool> = vec![false; cases.len()];
    let mut multi: Vec<bool> = vec![false; cases.len()];
    let mut devices = 0;
    while pos < flat.len() || (flat.is_empty() && devices == 0) {
        devices += 1;
        let runner = e2e::new_runner();
        runner.add_default_acl();
        let res = run_bounded(
            async {
                let device = runner.run();
                let client = async {
                    if k.is_empty() {
                        // calibration of the encoded-size constants on the real encoder
                        k = calibrate(&runner).await;
                    }
                    while pos < flat.len() {
                        let (ci, oi) = flat[pos];
                        let c = &cases[ci];
                        if !started[ci] {
                            started[ci] = true;
                            out.case(c.id, &format!("rd {} {}", MAX_EXCHANGE_TX_BUF_SIZE, k));
                        }
                        let op = &c.ops[oi];
                        let items = parse_items(op);
                        configure(&items);
                        let o = Budget { f: Box::pin(read_once(&runner, &items)), left: OP_POLLS }.await;
                        pos += 1;
                        match o {
                            Some(o) => {
                                tally(&o, out);
                                out.op(op, &o);
                                if o.split(" | ").nth(1).map(|c| c.contains(';')).unwrap_or(false) && !multi[ci] {
                                    multi[ci] = true;
                                    out.buf.push_str("#nt\n");
                                }
                            }
                            None => {
                                out.stat("reads_without_answer", 1);
                                out.op(op, "hang | -");
                                return;
                            }
                        }
                    }
                };
                match select(device, client).await {
                    Either::First(r) => Some(format!("device ended: {:?}", r.map_err(|e| e.code()))),
                    Either::Second(()) => None,
                }
            },
            u64::MAX,
        );
        if let Some(Some(why)) = res {
            out.buf.push_str(&format!("# {}\n", why));
            if pos < flat.len() {
                let (ci, oi) = flat[pos];
                out.op(&cases[ci].ops[oi], &format!("devend | -"));
                pos += 1;
            }
        }
        if flat.is_empty() {
            break;
        }
    }
    out.stat("devices", devices);
}

fn tally(o: &str, out: &mut Out) {
    let n = o.split(" | ").nth(1).map(|c| if c == "-" { 0 } else { c.split(';').count() }).unwrap_or(0);
    out.stat(&format!("chunks_{}", if n >= 6 { "6plus".to_string() } else { n.to_string() }), 1);
    if o.contains("/E") || o.contains(",E") {
        out.stat("reads_with_split_list", 1);
    }
    if !o.starts_with("ok") {
        out.stat("reads_not_ok", 1);
    }
}

/// measure the constant parts of the encodings: `KS KW KE KI`
async fn calibrate<C: Crypto>(runner: &Runner<C>) -> String {
    let enc_of = |o: &str, kind: char| -> Option<usize> {
        o.split(" | ").nth(1)?.split(';').flat_map(|c| c.splitn(3, '/').nth(2).unwrap_or("").split(',')).find_map(|p| {
            if p.starts_with(kind) {
                p.split(':').nth(1)?.parse().ok()
            } else {
                None
            }
        })
    };
    let i1 = vec![Item::Scalar(0, 0)];
    configure(&i1);
    let o1 = read_once(runner, &i1).await;
    let ks = enc_of(&o1, 'S').map(|e| e as i64 - 1).unwrap_or(-1);
    let i2 = vec![Item::List(N_SCALAR, vec![3, 3])];
    configure(&i2);
    let o2 = read_once(runner, &i2).await;
    let kw = enc_of(&o2, 'W').map(|e| e as i64 - 2 * (1 + 1 + 3)).unwrap_or(-1);
    let i3 = vec![Item::List(N_SCALAR, vec![100; 40])];
    configure(&i3);
    let o3 = read_once(runner, &i3).await;
    let ke = enc_of(&o3, 'E').map(|e| e as i64).unwrap_or(-1);
    let ki = enc_of(&o3, 'I').map(|e| e as i64 - 1 - 100).unwrap_or(-1);
    format!("{} {} {} {}", ks, kw, ke, ki)
}

// ---------------------------------------------------------------- generator

fn gen_read(r: &mut Rng, k: (usize, usize, usize, usize), force_multi: bool, out: &mut Out) -> String {
    let (ks, _kw, ke, ki) = k;
    let limit = MAX_EXCHANGE_TX_BUF_SIZE - 24;
    let mut items: Vec<String> = Vec::new();
    let mut used = 3usize; // struct start + attribute array start
    let mut scalars: Vec<u32> = (0..N_SCALAR).collect();
    let mut lists: Vec<u32> = (0..N_LIST).collect();
    let n = r.range(1, 14) as usize;
    let enc = |k0: usize, len: usize| k0 + if len < 256 { 1 } else { 2 } + len;
    if force_multi {
        // two values that cannot share a message: the answer has at least two chunks
        for _ in 0..2 {
            let a = scalars.remove(r.below(scalars.len() as u64) as usize);
            let len = r.range(600, 900) as usize;
            let e = enc(ks, len);
            used = if used + e > limit { 3 + e } else { used + e };
            items.push(format!("s{}:{}", a, len));
        }
    }
    for _ in 0..n {
        let want_list = r.chance(1, 4) && !lists.is_empty();
        if !want_list && scalars.is_empty() {
            break;
        }
        if want_list {
            let a = lists.remove(r.below(lists.len() as u64) as usize);
            let cnt = match r.below(6) {
                0 => 0,
                1 => r.range(1, 3),
                2 | 3 => r.range(3, 12),
                _ => r.range(10, 60),
            } as usize;
            let mut lens = Vec::new();
            for _ in 0..cnt {
                let len = match r.below(8) {
                    0 => 0,
                    1..=4 => r.range(1, 40),
                    5 | 6 => r.range(40, 300),
                    _ => {
                        // element that exactly fills what is left of the current chunk
                        let room = limit.saturating_sub(used);
                        out.stat("gen_elem_boundary", 1);
                        let target = room as i64 + [-2i64, -1, 0, 1, 2][r.below(5) as usize];
                        (target - ki as i64 - 2).clamp(0, 900) as u64
                    }
                } as usize;
                lens.push(len);
            }
            // generator's rough idea of the fill level (exact boundaries are the model's business)
            for l in &lens {
                let e = enc(ki, *l);
                used = if used + e > limit { 3 + e } else { used + e };
            }
            let _ = ke;
            items.push(format!("l{}:{}", a, if lens.is_empty() { "-".to_string() } else { lens.iter().map(|x| x.to_string()).collect::<Vec<_>>().join(",") }));
        } else {
            let a = scalars.remove(r.below(scalars.len() as u64) as usize);
            let len = match r.below(10) {
                0 => 0,
                1..=3 => r.range(1, 60),
                4 | 5 => r.range(60, 500),
                6 => r.range(500, limit as u64 - 60),
                _ => {
                    // a value that just fits / exactly fills / just does not fit the current chunk
                    let room = limit.saturating_sub(used);
                    out.stat("gen_scalar_boundary", 1);
                    let target = room as i64 + [-3i64, -2, -1, 0, 0, 1, 2][r.below(7) as usize];
                    let lb = if target - ks as i64 - 1 < 256 { 1 } else { 2 };
                    (target - ks as i64 - lb).clamp(0, (limit - 60) as i64) as u64
                }
            } as usize;
            let e = enc(ks, len);
            used = if used + e > limit { 3 + e } else { used + e };
            items.push(format!("s{}:{}", a, len));
        }
    }
    format!("rd {}", items.join(" "))
}

pub fn gen(a: &Args) -> String {
    let mut r = Rng::new(a.seed);
    let mut out = Out::default();
    out.buf.push_str("#rule a case is a sequence of read requests against the real InteractionModel over a harness cluster (16 octet-string attributes, 6 list attributes) with generator-chosen value lengths: empty, small, hundreds of bytes, nearly a whole message, and lengths computed to end 3..0 bytes before / exactly at / 1..2 bytes past the space left in the current chunk, lists from empty to 60 elements; non-trivial = at least one read of the case was answered in more than one chunk (the first read of every generated case is built that way); distinct = by operation list\n");
    // constants first (one throw-away device), so that the generator can aim at the boundaries
    let k = {
        let runner = e2e::new_runner();
        runner.add_default_acl();
        run_bounded(
            async {
                match select(runner.run(), calibrate(&runner)).await {
                    Either::First(_) => "0 0 0 0".to_string(),
                    Either::Second(k) => k,
                }
            },
            50_000_000,
        )
        .unwrap_or_else(|| "0 0 0 0".to_string())
    };
    let kv: Vec<usize> = k.split_whitespace().map(|x| x.parse::<i64>().unwrap_or(0).max(0) as usize).collect();
    let kt = (kv[0], kv[1], kv[2], kv[3]);
    let n_cases = if a.thorough { 6000 } else { 500 };
    let mut cases = Vec::new();
    for id in 0..n_cases {
        let mut cr = r.fork();
        let n_ops = cr.range(3, 10);
        let ops = (0..n_ops).map(|i| gen_read(&mut cr, kt, i == 0, &mut out)).collect();
        cases.push(Case { id, kind: "rd".into(), ops });
    }
    drive(&cases, &mut out);
    out.finish()
}

pub fn replay(a: &Args) -> String {
    let text = std::fs::read_to_string(a.input.as_ref().expect("--in")).expect("read input");
    let mut out = Out::default();
    let cases = parse_cases(&text);
    drive(&cases, &mut out);
    out.finish()
}
