import RsMatterVerif.Lemmas.ExpandEvents
/-!
# The last-authorised cache while the ACL is rewritten inside one request

`PathExpander::last_authorized` exists for a WriteRequest that replaces the ACL (`DeleteAll` + N×`Add`
on the same concrete attribute path, the handler of each item running between two calls of `next`):
the items after the first hit the cache and are **not** re-checked against the ACL the earlier items
have just written. What holds then is stated here, on `Expand.runCtx` (call `i` of `next` sees
`ctxs[i]`).
-/
namespace C06
open Acl Expand

/-- everything `next_for_path` establishes for a yielded leaf **except** the outcome of the access
check: it is an enabled leaf of the node, the endpoint is reachable for the requester, the caller's
filter accepts it (all under the context of this call) -/
def ExistsFor (ctx : Ctx) (op : Operation) (node : Node) (t : Nat × Nat × Nat) : Prop :=
  ∃ e ∈ node, e.id = t.1 ∧ ∃ c ∈ e.clusters, c.id = t.2.1 ∧ ∃ l ∈ c.leaves (op == .invoke), l.id = t.2.2 ∧
    isEndpointAccessible ctx.fabrics ctx.accessor t.1 = true ∧ ctx.filter t.1 t.2.1 t.2.2 = true

theorem YieldOk.split {ctx : Ctx} {op : Operation} {node : Node} {path : Path}
    {la : Option (Nat × Nat × Nat)} {ep cl lf : Nat} (h : YieldOk ctx op node path la ep cl lf) :
    ExistsFor ctx op node (ep, cl, lf) ∧ (Authorised ctx op node (ep, cl, lf) ∨ la = some (ep, cl, lf)) := by
  obtain ⟨e, he, hi, c, hc, hci, l, hl, hli, _, _, _, acc, fil, chk⟩ := h
  refine ⟨⟨e, he, hi, c, hc, hci, l, hl, hli, acc, fil⟩, ?_⟩
  rcases chk with h | h
  · right; exact h
  · left; exact ⟨e, he, hi, c, hc, hci, l, hl, hli, acc, fil, h⟩

/-- what one output of `next` says about the cache -/
def CacheStep (ctx : Ctx) (op : Operation) (node : Node) (la : Option (Nat × Nat × Nat)) (st' : St) : Out → Prop
  | .item ep cl lf _ _ =>
    ExistsFor ctx op node (ep, cl, lf) ∧ (Authorised ctx op node (ep, cl, lf) ∨ la = some (ep, cl, lf)) ∧
      st'.lastAuthorized = some (ep, cl, lf)
  | .status _ _ => st'.lastAuthorized = la

theorem nextFrom_cache {ctx : Ctx} {op : Operation} {node : Node}
    (items : List Path) (path : Path) (cur : Cursor) (la : Option (Nat × Nat × Nat)) {o : Out} {st' : St}
    (h : nextFrom ctx op node path cur la items = some (o, st')) : CacheStep ctx op node la st' o := by
  induction items generalizing path cur with
  | nil =>
    unfold nextFrom at h
    cases hn : nextForPath ctx op node path cur la with
    | yield ep cl lf arr cur' =>
      simp only [hn, Option.some.injEq, Prod.mk.injEq] at h
      obtain ⟨rfl, rfl⟩ := h
      obtain ⟨h1, h2⟩ := YieldOk.split (nextForPath_yield hn)
      exact ⟨h1, h2, rfl⟩
    | done => simp [hn] at h
    | err s =>
      simp only [hn, Option.some.injEq, Prod.mk.injEq] at h
      obtain ⟨rfl, rfl⟩ := h
      exact rfl
  | cons q rest ih =>
    unfold nextFrom at h
    cases hn : nextForPath ctx op node path cur la with
    | yield ep cl lf arr cur' =>
      simp only [hn, Option.some.injEq, Prod.mk.injEq] at h
      obtain ⟨rfl, rfl⟩ := h
      obtain ⟨h1, h2⟩ := YieldOk.split (nextForPath_yield hn)
      exact ⟨h1, h2, rfl⟩
    | done =>
      simp only [hn] at h
      exact ih q {} h
    | err s =>
      simp only [hn, Option.some.injEq, Prod.mk.injEq] at h
      obtain ⟨rfl, rfl⟩ := h
      exact rfl

theorem next_cache {ctx : Ctx} {op : Operation} {node : Node} {st st' : St} {o : Out}
    (h : next ctx op node st = some (o, st')) : CacheStep ctx op node st.lastAuthorized st' o := by
  unfold next at h
  cases hi : st.item with
  | some path =>
    simp only [hi] at h
    exact nextFrom_cache st.items path st.cur st.lastAuthorized h
  | none =>
    simp only [hi] at h
    cases hs : st.items with
    | nil => simp [hs] at h
    | cons p rest =>
      simp only [hs] at h
      exact nextFrom_cache rest p {} st.lastAuthorized h

theorem lastItemOf_append_item (la : Option (Nat × Nat × Nat)) (pre : List Out) (ep cl lf : Nat) (w a : Bool) :
    lastItemOf la (pre ++ [Out.item ep cl lf w a]) = some (ep, cl, lf) := by
  induction pre generalizing la with
  | nil => rfl
  | cons o rest ih => cases o <;> simp only [List.cons_append, lastItemOf] <;> exact ih _

theorem lastItemOf_append_status (la : Option (Nat × Nat × Nat)) (pre : List Out) (p : Path) (s : Status) :
    lastItemOf la (pre ++ [Out.status p s]) = lastItemOf la pre := by
  induction pre generalizing la with
  | nil => rfl
  | cons o rest ih => cases o <;> simp only [List.cons_append, lastItemOf] <;> exact ih _

/-- **The cache under an ACL that changes inside the request.** Call `i` of `next` sees `ctxs[i]`
(the ACL may have been rewritten by the handlers of the earlier items). For the `i`-th answer, if it is
an item `(ep, cl, leaf)`:
* it is an enabled leaf of the node, reachable and accepted by the filter — checked at call `i`;
* its access was granted by `check_*_access` **under the ACL of call `i`**, or it is the same
  `(ep, cl, leaf)` as the item answered immediately before it (statuses in between do not count) — then
  the check is skipped and the earlier decision stands, whatever the ACL has become. -/
theorem runCtx_cache (op : Operation) (node : Node) (ctxs : List Ctx) (st : St) :
    ∀ (i : Nat) (ep cl lf : Nat) (w a : Bool), (runCtx op node ctxs st)[i]? = some (Out.item ep cl lf w a) →
      ∃ ctx, ctxs[i]? = some ctx ∧ ExistsFor ctx op node (ep, cl, lf) ∧
        (Authorised ctx op node (ep, cl, lf) ∨
          lastItemOf st.lastAuthorized ((runCtx op node ctxs st).take i) = some (ep, cl, lf)) := by
  induction ctxs generalizing st with
  | nil => intro i ep cl lf w a h; simp [runCtx] at h
  | cons ctx rest ih =>
    intro i ep cl lf w a h
    unfold runCtx at h ⊢
    cases hn : next ctx op node st with
    | none => simp [hn] at h
    | some r =>
      obtain ⟨o, st'⟩ := r
      simp only [hn] at h ⊢
      have hc := next_cache hn
      cases i with
      | zero =>
        simp only [List.getElem?_cons_zero, Option.some.injEq] at h
        subst h
        obtain ⟨h1, h2, _⟩ := hc
        exact ⟨ctx, rfl, h1, by simpa [lastItemOf] using h2⟩
      | succ j =>
        simp only [List.getElem?_cons_succ] at h
        obtain ⟨c2, hc2, h1, h2⟩ := ih st' j ep cl lf w a h
        refine ⟨c2, by simpa using hc2, h1, ?_⟩
        rcases h2 with h2 | h2
        · left; exact h2
        · right
          simp only [List.take_succ_cons]
          cases o with
          | item e2 c3 l2 w2 a2 =>
            simp only [lastItemOf]
            rw [hc.2.2] at h2; exact h2
          | status p s =>
            simp only [lastItemOf]
            have : st'.lastAuthorized = st.lastAuthorized := hc
            rw [this] at h2; exact h2

/-- with the ACL fixed this is the old statement: every item is authorised under that ACL -/
theorem runCtx_fixed_eq_run (ctx : Ctx) (op : Operation) (node : Node) :
    ∀ (fuel : Nat) (st : St), runCtx op node (List.replicate fuel ctx) st = run ctx op node fuel st
  | 0, _ => rfl
  | fuel + 1, st => by
    simp only [List.replicate_succ, runCtx, run]
    cases next ctx op node st with
    | none => rfl
    | some r => simp only; rw [runCtx_fixed_eq_run ctx op node fuel]

end C06
