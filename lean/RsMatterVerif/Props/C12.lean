import RsMatterVerif.Model.Counters
/-! # C12 — durable counters never hand out the same value twice (theorems under construction) -/
namespace C12
open Counters

/-- `advance_group_data_ctr` never yields 0 (the "uninitialised" marker). -/
theorem gAdvance_ne_zero (v d : Nat) : gAdvance v d ≠ 0 := by
  unfold gAdvance
  simp only
  split <;> omega

end C12
