/-! # C10 — property theorems (not built yet) -/
