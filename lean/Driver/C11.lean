import Driver.Util
/-! Driver for C11: not built yet. -/
namespace Driver.C11

def run : IO UInt32 := do
  IO.eprintln "C11: driver not built yet"
  return 2

end Driver.C11
