import RsMatterVerif.Lemmas.SecureMsg
/-!
# C03 — secured messages are accepted only if authentic for that session and direction

Theorems over `Model/SecureMsg` (ideal AEAD: the table `Aead` of `Enc key nonce aad pt` terms with
their wire bytes; `dec` opens a cipher text only as the term it stands for). **Authentic** is, here
and in `Props/C03Ext.lean`, the ideal-AEAD notion (`AuthenticFor`, `GroupAuthentic`): bit-identical to
the wire form of an encryption that was really made under the key in question, with the complete
header as associated data — no computational claim.

* `roundtrip` — what `s.encode` produces, the mirrored session decodes to the identical header
  (every field) and payload, for every well-formed header shape and every payload (over TCP / BTP
  the R and A flags are lowered on receipt, `adjust_reliability`; `roundtrip_udp`, `roundtrip_reliable`;
  unsecured sessions and first group messages: `C03Ext`).
* `accept_only_authentic`, `handed_on_only_if_authentic` — a datagram reaches `post_recv` / an
  exchange of a secure session only if it is `AuthenticFor` that session (the converse:
  `C03Ext.authentic_is_decoded`, `decoded_iff_authentic`, `authentic_is_handed_on`).
* `accepted_was_encoded_for_me`, `aad_covers_header`.
* Group receive (`get_or_create_for_group_rx`): `group_accept_only_authentic` (and the third
  alternative of `handed_on_only_if_authentic`) — a group message for which no session exists is
  handed on only if it is `GroupAuthentic` under a key that is `GroupKeyFor` the addressed group of a
  fabric, with the header's source node id in the nonce; `group_transplant_rejected` — another key,
  another header, another source node ⇒ not accepted; `opKey_injective` — another group's / fabric's
  key is another key; `group_session_bound`; `gstore_only_if_group_authentic`.
* `reject_preserves_state` — restates the model's factoring (`decode_packet` returns before
  `post_recv` on every early error): a datagram rejected *before* `post_recv` touches neither the
  counter store nor any session. What an *authentic* message that `post_recv` refuses leaves behind
  (the receive window has moved) is `C03Ext.postRecv_error_state` / `rejected_session_effect`.
* `handle_rx_packet`: `handleRx_rejected` — after a datagram that `decode_packet` rejected before
  `post_recv`, table and counter store are unchanged, nothing is handed on, and at most one unsecured
  `SessionNotFound` report is sent; `inauthentic_is_rejected` — a secured datagram that is authentic
  for no session and no group key is such a datagram; `C03_rx_full_holds` — per session, whole step.
* `inauthentic_preserves_session`, `receive_keeps_keys`; `duplicate_preserves_state` (an unfolding of
  the `Duplicate` branch of `post_recv`).
-/
namespace C03
open SecureMsg

theorem take_len_append (a b : Bytes) : (a ++ b).take ((a ++ b).length - b.length) = a := by
  simp

/-- the `Enc` term an encoding produces -/
def mkRec (s : Session) (h : PacketHdr) (payload ct : Bytes) : EncRec :=
  { key := s.encKey, nonce := nonce h.plain.secFlags h.plain.ctr s.localNode, aad := h.plain.encode,
    pt := h.proto.encode ++ payload, ct := ct }

theorem encode_secure (s : Session) (h : PacketHdr) (payload ct : Bytes) (hs : s.isEncrypted = true) :
    s.encode h payload ct = (h.plain.encode ++ ct, some (mkRec s h payload ct)) := by
  simp [Session.encode, Session.getEncKey, hs, mkRec]

theorem encode_plain (s : Session) (h : PacketHdr) (payload ct : Bytes) (hs : s.isEncrypted = false) :
    s.encode h payload ct = (h.plain.encode ++ (h.proto.encode ++ payload), none) := by
  simp [Session.encode, Session.getEncKey, hs]

/-- the receiver's knowledge with one more encryption in the table -/
def Env.withRec (E : Env) (r : EncRec) : Env := { E with t := r :: E.t }

/-- **Round trip.** The decoded protocol header is the encoded one with `adjust_reliability` of the
receiving session's transport applied (the identity for UDP peers, see `roundtrip_udp`). -/
theorem roundtrip (E : Env) (n : Node) (from_ : Addr) (idx : Nat) (s r : Session) (h : PacketHdr)
    (payload ct : Bytes)
    (hs : s.isEncrypted = true) (hr : r.isEncrypted = true)
    (hkey : r.decKey = s.encKey) (hnode : r.peerNode.getD 0 = s.localNode)
    (hpl : h.plain.WF) (hpr : h.proto.WF)
    (hfind : findRx n from_ h.plain = some idx) (hidx : n[idx]? = some r) :
    decodeStage (Env.withRec E (mkRec s h payload ct)) n from_ (s.encode h payload ct).1
      = .decoded idx { plain := h.plain, proto := h.proto.adjustReliability r.addr } payload := by
  rw [encode_secure s h payload ct hs]
  simp only
  unfold decodeStage
  rw [PlainHdr.decode_encode _ hpl]
  simp only [take_len_append, hfind, hidx]
  unfold Session.decodeRemaining SecureMsg.decodeRemaining Session.getDecKey
  simp only [hr, if_true]
  have hd : Aead.dec (mkRec s h payload ct :: E.t) r.decKey
      (nonce h.plain.secFlags h.plain.ctr (r.peerNode.getD 0)) h.plain.encode ct
      = some (h.proto.encode ++ payload) := by
    have := Aead.dec_head (mkRec s h payload ct) E.t
    rw [hkey, hnode]
    exact this
  simp only [Env.withRec]
  rw [hd]
  simp only [ProtoHdr.decode_encode _ hpr, Except.map]

theorem adjust_udp (p : ProtoHdr) (ip : Ip) (port : Nat) : p.adjustReliability (.udp ip port) = p := by
  simp [ProtoHdr.adjustReliability, Addr.isReliable]

/-- **Round trip, UDP peer**: identical header fields and payload. -/
theorem roundtrip_udp (E : Env) (n : Node) (from_ : Addr) (idx : Nat) (s r : Session) (h : PacketHdr)
    (payload ct : Bytes) (ip : Ip) (port : Nat) (hudp : r.addr = .udp ip port)
    (hs : s.isEncrypted = true) (hr : r.isEncrypted = true)
    (hkey : r.decKey = s.encKey) (hnode : r.peerNode.getD 0 = s.localNode)
    (hpl : h.plain.WF) (hpr : h.proto.WF)
    (hfind : findRx n from_ h.plain = some idx) (hidx : n[idx]? = some r) :
    decodeStage (Env.withRec E (mkRec s h payload ct)) n from_ (s.encode h payload ct).1
      = .decoded idx h payload := by
  rw [roundtrip E n from_ idx s r h payload ct hs hr hkey hnode hpl hpr hfind hidx, hudp, adjust_udp]

/-- `adjust_reliability` is idempotent: what a sender on a reliable transport stamps (`pre_send`
lowers R and A) arrives unchanged -/
theorem adjust_idem (p : ProtoHdr) (a : Addr) :
    (p.adjustReliability a).adjustReliability a = p.adjustReliability a := by
  unfold ProtoHdr.adjustReliability
  cases h : a.isReliable
  · simp
  · simp only [if_true, clearBits]
    congr 1
    simp only [Nat.and_assoc]
    have : ∀ x y z : Nat, x &&& y &&& z &&& y &&& z = x &&& y &&& z := by
      intro x y z
      apply Nat.eq_of_testBit_eq
      intro i
      simp only [Nat.testBit_and]
      cases x.testBit i <;> cases y.testBit i <;> cases z.testBit i <;> rfl
    simpa [Nat.and_assoc] using this p.exchFlags (255 ^^^ X_RELIABLE) (255 ^^^ X_ACK)

/-- **Round trip, reliable transport**: a header as `pre_send` leaves it for a TCP / BTP peer
(R and A lowered) is decoded to the identical fields. -/
theorem roundtrip_reliable (E : Env) (n : Node) (from_ : Addr) (idx : Nat) (s r : Session) (h : PacketHdr)
    (payload ct : Bytes) (p0 : ProtoHdr) (hadj : h.proto = p0.adjustReliability r.addr)
    (hs : s.isEncrypted = true) (hr : r.isEncrypted = true)
    (hkey : r.decKey = s.encKey) (hnode : r.peerNode.getD 0 = s.localNode)
    (hpl : h.plain.WF) (hpr : h.proto.WF)
    (hfind : findRx n from_ h.plain = some idx) (hidx : n[idx]? = some r) :
    decodeStage (Env.withRec E (mkRec s h payload ct)) n from_ (s.encode h payload ct).1
      = .decoded idx h payload := by
  rw [roundtrip E n from_ idx s r h payload ct hs hr hkey hnode hpl hpr hfind hidx, hadj, adjust_idem, ← hadj]

/-! ## What `decodeStage` establishes -/

/-- the group branch never answers `decoded` / `newPlain` -/
theorem groupStage_cases (E : Env) (from_ : Addr) (h : PlainHdr) (aad rest : Bytes) :
    (∃ e hh, groupStage E from_ h aad rest = .rej e hh) ∨
    (∃ c p pay src, groupStage E from_ h aad rest = .groupNew c { plain := h, proto := p } pay ∧
      h.srcNode = some src ∧ (candidates E h).findSome? (tryGroup E.t from_ h src aad rest) = some (c, p, pay)) := by
  unfold groupStage
  cases hs : h.srcNode with
  | none => left; exact ⟨_, _, rfl⟩
  | some src =>
    simp only
    split
    · left; exact ⟨_, _, rfl⟩
    · split
      · left; exact ⟨_, _, rfl⟩
      · cases hf : (candidates E h).findSome? (tryGroup E.t from_ h src aad rest) with
        | none =>
          left
          simp only
          split <;> exact ⟨_, _, rfl⟩
        | some v =>
          obtain ⟨c, p, pay⟩ := v
          right
          exact ⟨c, p, pay, src, rfl, rfl, hf⟩

/-- what `decodeStage` did when it answered `decoded` -/
theorem decoded_inv {E : Env} {n : Node} {from_ : Addr} {idx : Nat} {dg p : Bytes} {h : PacketHdr}
    (hb : BytesOK dg) (hd : decodeStage E n from_ dg = .decoded idx h p) :
    ∃ rest r, dg = h.plain.encode ++ rest ∧ h.plain.WF ∧ findRx n from_ h.plain = some idx ∧
      n[idx]? = some r ∧ r.decodeRemaining E.t h.plain h.plain.encode rest = .ok (h.proto, p) := by
  unfold decodeStage at hd
  cases e : PlainHdr.decode dg with
  | error x => rw [e] at hd; cases hd
  | ok v =>
    obtain ⟨hp, rest⟩ := v
    rw [e] at hd
    obtain ⟨hdg, hwf, _⟩ := PlainHdr.decode_sound hb e
    simp only at hd
    cases ef : findRx n from_ hp with
    | none =>
      rw [ef] at hd
      simp only at hd
      split at hd
      · split at hd
        · cases hd
        · split at hd <;> cases hd
      · split at hd
        · rcases groupStage_cases E from_ hp (dg.take (dg.length - rest.length)) rest with ⟨e', hh, hg⟩ | ⟨c, p', pay, src, hg, _⟩
          · rw [hg] at hd; cases hd
          · rw [hg] at hd; cases hd
        · cases hd
    | some i =>
      rw [ef] at hd
      simp only at hd
      cases ei : n[i]? with
      | none => rw [ei] at hd; cases hd
      | some s =>
        rw [ei] at hd
        simp only at hd
        cases er : s.decodeRemaining E.t hp (dg.take (dg.length - rest.length)) rest with
        | error x => rw [er] at hd; cases hd
        | ok v =>
          obtain ⟨pp, pay⟩ := v
          rw [er] at hd
          simp only [Stage.decoded.injEq] at hd
          obtain ⟨h1, h2, h3⟩ := hd
          subst h1 h2 h3
          rw [hdg, take_len_append] at er
          exact ⟨rest, s, hdg, hwf, ef, ei, er⟩

/-- a successful `decodeRemaining` under a key exhibits the encryption -/
theorem decodeRemaining_key_inv {t : Aead} {k node : Nat} {a : Addr} {h : PlainHdr} {aad rest pay : Bytes}
    {p : ProtoHdr} (hd : SecureMsg.decodeRemaining t (some k) node a h aad rest = .ok (p, pay)) :
    ∃ rec ∈ t, rec.key = k ∧ rec.nonce = nonce h.secFlags h.ctr node ∧ rec.aad = aad ∧ rec.ct = rest ∧
      ∃ p0, ProtoHdr.decode rec.pt = .ok (p0, pay) ∧ p = p0.adjustReliability a := by
  unfold SecureMsg.decodeRemaining at hd
  simp only at hd
  cases e : Aead.dec t k (nonce h.secFlags h.ctr node) aad rest with
  | none => rw [e] at hd; cases hd
  | some pt =>
    rw [e] at hd
    simp only at hd
    obtain ⟨rec, hm, hk, hn, ha, hc, hpt⟩ := Aead.dec_some e
    cases ep : ProtoHdr.decode pt with
    | error x => rw [ep] at hd; cases hd
    | ok v =>
      obtain ⟨p0, pay0⟩ := v
      rw [ep] at hd
      simp only [Except.map, Except.ok.injEq, Prod.mk.injEq] at hd
      obtain ⟨h1, h2⟩ := hd
      subst h2
      exact ⟨rec, hm, hk, hn, ha, hc, p0, by rw [hpt]; exact ep, h1.symm⟩

theorem accept_only_authentic {E : Env} {n : Node} {from_ : Addr} {idx : Nat} {dg p : Bytes} {h : PacketHdr}
    {r : Session} (hb : BytesOK dg) (hd : decodeStage E n from_ dg = .decoded idx h p)
    (hidx : n[idx]? = some r) (hr : r.isEncrypted = true) : AuthenticFor E.t r dg := by
  obtain ⟨rest, r', hdg, hwf, _, hi, hrem⟩ := decoded_inv hb hd
  rw [hidx] at hi
  injection hi with hi
  subst hi
  unfold Session.decodeRemaining Session.getDecKey at hrem
  simp only [hr, if_true] at hrem
  obtain ⟨rec, hm, hk, hn, ha, hc, _⟩ := decodeRemaining_key_inv hrem
  exact ⟨rec, hm, h.plain, hwf, hk, ha, by rw [ha, hc]; exact hdg, hn⟩

/-- a table filled by `Session.encode` calls of the sessions `S` only -/
def ProducedBy (t : Aead) (S : List Session) : Prop :=
  ∀ rec ∈ t, ∃ s ∈ S, ∃ (h : PacketHdr) (payload : Bytes),
    s.isEncrypted = true ∧ s.localNode < 256 ^ 8 ∧ h.plain.WF ∧ h.proto.WF ∧ rec = mkRec s h payload rec.ct

/-- **Accepted ⇒ encoded for me.** With only honest encryptions in the table, a datagram that reaches
`post_recv` of the secure session `r` is the output of `s.encode h0 p` for a session `s` whose send key
is `r`'s receive key and whose node id is the peer node id `r` expects — and the header and payload
the receiver decoded are exactly `h0` (protocol header after `adjust_reliability`) and `p`. -/
theorem accepted_was_encoded_for_me {E : Env} {S : List Session} {n : Node} {from_ : Addr} {idx : Nat}
    {dg p : Bytes} {h : PacketHdr} {r : Session} (hprod : ProducedBy E.t S) (hb : BytesOK dg)
    (hd : decodeStage E n from_ dg = .decoded idx h p) (hidx : n[idx]? = some r)
    (hr : r.isEncrypted = true) (hnode : r.peerNode.getD 0 < 256 ^ 8) :
    ∃ s ∈ S, ∃ ct h0, s.encKey = r.decKey ∧ s.localNode = r.peerNode.getD 0 ∧
      dg = (s.encode h0 p ct).1 ∧ h = { plain := h0.plain, proto := h0.proto.adjustReliability r.addr } ∧
      mkRec s h0 p ct ∈ E.t := by
  obtain ⟨rest, r', hdg, hwf, _, hi, hrem⟩ := decoded_inv hb hd
  rw [hidx] at hi
  injection hi with hi
  subst hi
  unfold Session.decodeRemaining Session.getDecKey at hrem
  simp only [hr, if_true] at hrem
  obtain ⟨rec, hm, hk, hn, ha, hc, p0, hp0, hadj⟩ := decodeRemaining_key_inv hrem
  obtain ⟨s, hs, h', payload, hse, hsn, hw', hpw', hrec⟩ := hprod rec hm
  have hkey : s.encKey = r.decKey := by rw [← hk, hrec]; rfl
  have haad : h'.plain.encode = h.plain.encode := by rw [← ha, hrec]; rfl
  have hpl : h'.plain = h.plain := PlainHdr.encode_injective hw' hwf haad
  have hnonce : nonce h'.plain.secFlags h'.plain.ctr s.localNode
      = nonce h.plain.secFlags h.plain.ctr (r.peerNode.getD 0) := by rw [← hn, hrec]; rfl
  have hsn' : s.localNode = r.peerNode.getD 0 :=
    (nonce_injective (secflags_lt hw'.secFlags) hw'.ctr hsn (secflags_lt hwf.secFlags) hwf.ctr hnode hnonce).2.2
  have hpt' : rec.pt = h'.proto.encode ++ payload := by rw [hrec]; rfl
  rw [hpt', ProtoHdr.decode_encode _ hpw'] at hp0
  simp only [Except.ok.injEq, Prod.mk.injEq] at hp0
  obtain ⟨hpr, hpay⟩ := hp0
  subst hpay hpr
  refine ⟨s, hs, rec.ct, h', hkey, hsn', ?_, ?_, ?_⟩
  · rw [encode_secure s h' payload rec.ct hse, hdg, hc, hpl]
  · cases h; simp only [PacketHdr.mk.injEq] at *; exact ⟨hpl.symm, hadj⟩
  · rw [← hrec]; exact hm

/-- ideal AEAD, second half: distinct encryptions have distinct cipher texts (the tag binds key,
nonce and associated data); checked on the real AES-CCM outputs by the driver on every run -/
def CtInjective (t : Aead) : Prop := ∀ r ∈ t, ∀ r' ∈ t, r.ct = r'.ct → r = r'

/-- **The associated data cover the whole header.** Take a datagram that was really encoded
(`mkRec s h payload ct ∈ t`) and put its cipher text behind *any* other well-formed header `h'`
— a change of any field: flags, session id, security flags, counter, source, destination. The
result is never decoded for a secure session, on any node, from any address. -/
theorem aad_covers_header {E : Env} {n : Node} {from_ : Addr} {s : Session} {h : PacketHdr}
    {payload ct : Bytes} (hin : mkRec s h payload ct ∈ E.t) (hinj : CtInjective E.t)
    (hw : h.plain.WF) (hct : BytesOK ct) (h' : PlainHdr) (hw' : h'.WF) (hne : h' ≠ h.plain)
    {idx : Nat} {hh : PacketHdr} {p : Bytes} {r : Session}
    (hd : decodeStage E n from_ (h'.encode ++ ct) = .decoded idx hh p) (hidx : n[idx]? = some r) :
    r.isEncrypted = false := by
  cases hr : r.isEncrypted with
  | false => rfl
  | true =>
    exfalso
    have hb : BytesOK (h'.encode ++ ct) := (PlainHdr.encode_bytesOK h').append hct
    obtain ⟨rest, r', hdg, hwf, _, hi, hrem⟩ := decoded_inv hb hd
    rw [hidx] at hi
    injection hi with hi
    subst hi
    -- parsing is deterministic: the decoded header is `h'`, the rest is `ct`
    have e1 := PlainHdr.decode_encode h' hw' ct
    rw [hdg, PlainHdr.decode_encode _ hwf] at e1
    simp only [Except.ok.injEq, Prod.mk.injEq] at e1
    obtain ⟨e1, e2⟩ := e1
    unfold Session.decodeRemaining Session.getDecKey at hrem
    simp only [hr, if_true] at hrem
    obtain ⟨rec, hm, _, _, ha, hc, _⟩ := decodeRemaining_key_inv hrem
    have : rec = mkRec s h payload ct := hinj rec hm _ hin (by rw [hc, e2]; rfl)
    rw [this] at ha
    have : h.plain.encode = h'.encode := by rw [← e1]; exact ha
    exact hne (PlainHdr.encode_injective hw' hw this.symm)

/-! ## Group receive: the key-derivation branch -/

/-- the operational key determines epoch key and fabric: another group's epoch key or another
fabric's compressed fabric id give another key (epoch keys are 128-bit) -/
theorem opKey_injective {e c e' c' : Nat} (he : e < 2 ^ 128) (he' : e' < 2 ^ 128)
    (h : opKey e c = opKey e' c') : e = e' ∧ c = c' := by
  unfold opKey at h
  have h2 : (340282366920938463463374607431768211456 : Nat) = 2 ^ 128 := by decide
  rw [h2] at h
  generalize (2 : Nat) ^ 128 = M at *
  have h3 : c * M + e = c' * M + e' := by omega
  have hc : c = c' := by
    rcases Nat.lt_trichotomy c c' with hlt | heq | hgt
    · exfalso
      have : (c + 1) * M ≤ c' * M := Nat.mul_le_mul_right M hlt
      rw [Nat.add_mul] at this
      omega
    · exact heq
    · exfalso
      have : (c' + 1) * M ≤ c * M := Nat.mul_le_mul_right M hgt
      rw [Nat.add_mul] at this
      omega
  subst hc
  exact ⟨by omega, rfl⟩

/-- an operational group key never equals a directly installed (even) key -/
theorem opKey_odd (e c : Nat) : opKey e c % 2 = 1 := by
  unfold opKey; omega

/-- **Every key the loop tries is a key the node holds for the addressed group**: derived from an
epoch key of a key set mapped to the addressed group in that fabric (for a unicast-addressed message:
of the fabric in which the node has the addressed node id), and its group session id is the header's -/
theorem cand_spec {E : Env} {h : PlainHdr} {c : Cand} (hc : c ∈ candidates E h) :
    ∃ f, GroupKeyFor E.fabs h f c.gid c.key ∧ c.fabIdx = f.fabIdx ∧ c.nodeId = f.nodeId ∧
      E.gsid c.key = h.sessId := by
  unfold candidates at hc
  obtain ⟨f, hf, hc⟩ := List.mem_flatMap.mp hc
  unfold candsOfFabric at hc
  by_cases hu : skipFabric h f = true
  · rw [if_pos hu] at hc; exact absurd hc List.not_mem_nil
  · rw [if_neg hu] at hc
    obtain ⟨m, hm, hc⟩ := List.mem_flatMap.mp hc
    unfold candsOfMap at hc
    by_cases hg : skipMap h m = true
    · rw [if_pos hg] at hc; exact absurd hc List.not_mem_nil
    · rw [if_neg hg] at hc
      cases hks : f.keySets.find? (fun ks => ks.id == m.2) with
      | none => rw [hks] at hc; exact absurd hc List.not_mem_nil
      | some ks =>
        rw [hks] at hc
        obtain ⟨e, he, hce⟩ := List.mem_filterMap.mp hc
        simp only at hce
        by_cases hsid : (E.gsid (opKey e f.cfid) == h.sessId) = true
        · rw [if_pos hsid] at hce
          injection hce with hce
          subst hce
          have hksm := List.mem_of_find?_eq_some hks
          have hksid : ks.id = m.2 := by
            have := List.find?_some hks
            simpa using this
          have hgid : ∀ g, h.dstGroup = some g → m.1 = g := by
            intro g hg'
            unfold skipMap at hg
            rw [hg'] at hg
            simpa using hg
          have hnode : ∀ d, h.dstUnicast = some d → f.nodeId = d := by
            intro d hd
            unfold skipFabric at hu
            rw [hd] at hu
            simpa using hu
          have hgid' : h.dstGroup.getD m.1 = m.1 := by
            cases hd : h.dstGroup with
            | none => rfl
            | some g => simp [(hgid g hd)]
          refine ⟨f, ⟨hf, m.2, ?_, ks, hksm, hksid, e, he, rfl, ?_, hnode⟩, rfl, rfl, by simpa using hsid⟩
          · simp only [hgid']; exact hm
          · intro g hg'; simp only [hgid']; exact hgid g hg'
        · rw [if_neg hsid] at hce; cases hce

theorem findSome?_mem {α β : Type} {f : α → Option β} {l : List α} {b : β}
    (h : l.findSome? f = some b) : ∃ a ∈ l, f a = some b := by
  induction l with
  | nil => cases h
  | cons x xs ih =>
    simp only [List.findSome?_cons] at h
    cases hx : f x with
    | some v =>
      rw [hx] at h
      injection h with h
      subst h
      exact ⟨x, by simp, hx⟩
    | none =>
      rw [hx] at h
      obtain ⟨a, ha, hfa⟩ := ih h
      exact ⟨a, by simp [ha], hfa⟩

/-- what `decodeStage` did when it answered `groupNew` -/
theorem groupNew_inv {E : Env} {n : Node} {from_ : Addr} {c : Cand} {dg p : Bytes} {h : PacketHdr}
    (hb : BytesOK dg) (hd : decodeStage E n from_ dg = .groupNew c h p) :
    ∃ rest src, dg = h.plain.encode ++ rest ∧ h.plain.WF ∧ findRx n from_ h.plain = none ∧
      h.plain.isGroup = true ∧ h.plain.srcNode = some src ∧ c ∈ candidates E h.plain ∧
      SecureMsg.decodeRemaining E.t (some c.key) src from_ h.plain h.plain.encode rest = .ok (h.proto, p) := by
  unfold decodeStage at hd
  cases e : PlainHdr.decode dg with
  | error x => rw [e] at hd; cases hd
  | ok v =>
    obtain ⟨hp, rest⟩ := v
    rw [e] at hd
    obtain ⟨hdg, hwf, _⟩ := PlainHdr.decode_sound hb e
    simp only at hd
    cases ef : findRx n from_ hp with
    | some i =>
      rw [ef] at hd
      simp only at hd
      split at hd
      · cases hd
      · split at hd <;> cases hd
    | none =>
      rw [ef] at hd
      simp only at hd
      split at hd
      · split at hd
        · cases hd
        · split at hd <;> cases hd
      · split at hd
        · rename_i hgrp
          rcases groupStage_cases E from_ hp (dg.take (dg.length - rest.length)) rest with ⟨e', hh, hg⟩ | ⟨c', p', pay, src, hg, hsrc, hfs⟩
          · rw [hg] at hd; cases hd
          · rw [hg] at hd
            simp only [Stage.groupNew.injEq] at hd
            obtain ⟨h1, h2, h3⟩ := hd
            subst h1 h2 h3
            obtain ⟨a, ha, hta⟩ := findSome?_mem hfs
            unfold tryGroup at hta
            split at hta
            · rename_i p2 pay2 heq
              simp only [Option.some.injEq, Prod.mk.injEq] at hta
              obtain ⟨h1, h2, h3⟩ := hta
              subst h1 h2 h3
              rw [hdg, take_len_append] at heq
              exact ⟨rest, src, hdg, hwf, ef, hgrp, hsrc, ha, heq⟩
            · cases hta
        · cases hd

/-- **A group message is accepted only if it is authentic under a key mapped to the addressed
group**: some fabric `f` of the node maps the addressed group to a key set one of whose epoch keys
yields `c.key`, the datagram is bit-identical to `aad ++ ct` of an encryption under exactly that
key with the complete header as associated data and the *header's source node id* in the nonce. -/
theorem group_accept_only_authentic {E : Env} {n : Node} {from_ : Addr} {c : Cand} {dg p : Bytes}
    {h : PacketHdr} (hb : BytesOK dg) (hd : decodeStage E n from_ dg = .groupNew c h p) :
    ∃ f src, GroupKeyFor E.fabs h.plain f c.gid c.key ∧ c.fabIdx = f.fabIdx ∧ c.nodeId = f.nodeId ∧
      E.gsid c.key = h.plain.sessId ∧ GroupAuthentic E.t c.key dg h.plain src := by
  obtain ⟨rest, src, hdg, hwf, _, hgrp, hsrc, hc, hrem⟩ := groupNew_inv hb hd
  obtain ⟨f, hk, h1, h2, h3⟩ := cand_spec hc
  obtain ⟨rec, hm, hkey, hn, ha, hct, _⟩ := decodeRemaining_key_inv hrem
  exact ⟨f, src, hk, h1, h2, h3, hwf, hsrc, hgrp, rec, hm, hkey, ha, by rw [ha, hct]; exact hdg, hn⟩

/-- **Transplants are rejected.** Take any encryption `rec0` that was really made and deliver its
cipher text behind any header bytes. If the key of `rec0` is none of the keys the node holds for
the group the (parsed) header addresses — another group's key, another fabric's key, a key the node
does not have —, or the header differs in any bit from the one that was authenticated, or the
header's source node id is not the one in the nonce: the datagram does not pass the group branch. -/
theorem group_transplant_rejected {E : Env} {n : Node} {from_ : Addr} {rec0 : EncRec} {dg : Bytes}
    (hinj : CtInjective E.t) (hin : rec0 ∈ E.t) (hb : BytesOK dg)
    {c : Cand} {h : PacketHdr} {p : Bytes} (hd : decodeStage E n from_ dg = .groupNew c h p)
    (hct : dg = h.plain.encode ++ rec0.ct) :
    rec0.key = c.key ∧ c ∈ candidates E h.plain ∧ rec0.aad = h.plain.encode ∧
      ∃ src, h.plain.srcNode = some src ∧ rec0.nonce = nonce h.plain.secFlags h.plain.ctr src := by
  obtain ⟨rest, src, hdg, _, _, _, hsrc, hc, hrem⟩ := groupNew_inv hb hd
  obtain ⟨rec, hm, hkey, hn, ha, hrest, _⟩ := decodeRemaining_key_inv hrem
  have : rest = rec0.ct := by
    rw [hct] at hdg
    exact (List.append_cancel_left hdg).symm
  have hrr : rec = rec0 := hinj rec hm rec0 hin (by rw [hrest, this])
  subst hrr
  exact ⟨hkey, hc, ha, src, hsrc, hn⟩

/-! ## `decode_packet` as a whole -/

@[simp] theorem touch_node (w : World) (now : Nat) (from_ : Addr) (dg : Bytes) :
    (w.touch now from_ dg).node = w.node := by
  unfold World.touch
  split
  · rfl
  · split <;> rfl

@[simp] theorem touch_gstore (w : World) (now : Nat) (from_ : Addr) (dg : Bytes) :
    (w.touch now from_ dg).gstore = w.gstore := by
  unfold World.touch
  split
  · rfl
  · split <;> rfl

/-- **Rejected before `post_recv` ⇒ neither a session nor the group counter store is touched**
(only `last_use` of the session the header addressed was refreshed by the lookup). -/
theorem reject_preserves_state {E : Env} {now : Nat} {w : World} {from_ : Addr} {dg : Bytes} {e : Err}
    {hh : PacketHdr} (h : decodeStage E w.node from_ dg = .rej e hh) :
    (receive E now w from_ dg).1 = .err e ∧ (receive E now w from_ dg).2.node = w.node ∧
      (receive E now w from_ dg).2.gstore = w.gstore := by
  unfold receive
  simp only [touch_node, h]
  simp

/-- everything of a session that receiving must never touch -/
def fixedPart (s : Session) :=
  (s.addr, s.localNode, s.peerNode, s.decKey, s.encKey, s.localSid, s.peerSid, s.txCtr, s.mode, s.expired, s.reserved)

theorem postRecv_fixed (s : Session) (h : PacketHdr) : fixedPart (s.postRecv h).2 = fixedPart s := by
  unfold Session.postRecv
  simp only
  split
  · rfl
  · split
    · split
      · rfl
      · split <;> rfl
    · split
      · rfl
      · split
        · rfl
        · split
          · split <;> rfl
          · rfl

theorem add_node {w w' : World} {now : Nat} {s : Session} (h : w.add now s = some w') :
    w'.node = w.node ++ [s] ∧ w'.gstore = w.gstore := by
  unfold World.add at h
  split at h
  · injection h with h; subst h; exact ⟨rfl, rfl⟩
  · cases h

theorem add_none_full {w : World} {now : Nat} {s : Session} (h : w.add now s = none) :
    w.node.length ≥ MAX_SESSIONS := by
  unfold World.add at h
  split at h
  · cases h
  · rename_i hlt; omega

@[simp] theorem groupCtr_node (w : World) (c : Cand) (h : PlainHdr) : (w.groupCtr c h).1.node = w.node := by
  unfold World.groupCtr
  split <;> rfl

@[simp] theorem groupCtr_lru (w : World) (c : Cand) (h : PlainHdr) : (w.groupCtr c h).1.lru = w.lru := by
  unfold World.groupCtr
  split <;> rfl

/-- `makeRoom`: the session is appended; a session was evicted first only if the table was full -/
theorem makeRoom_node {w w' : World} {now : Nat} {s : Session} (h : w.makeRoom now s = some w') :
    w'.node = w.node ++ [s] ∨
    (w.node.length ≥ MAX_SESSIONS ∧ ∃ i, w.evictIdx now = some i ∧ w'.node = swapRemove w.node i ++ [s]) := by
  unfold World.makeRoom at h
  cases ha : w.add now s with
  | some w1 =>
    rw [ha] at h
    injection h with h
    subst h
    left; exact (add_node ha).1
  | none =>
    rw [ha] at h
    simp only at h
    cases he : w.evictIdx now with
    | none => rw [he] at h; cases h
    | some i =>
      rw [he] at h
      simp only at h
      right
      exact ⟨add_none_full ha, i, rfl, (add_node h).1⟩

theorem deliverLast_node (w : World) (s : Session) (h : PacketHdr) (p : Bytes) (xs : List Session)
    (hn : w.node = xs ++ [s]) : (w.deliverLast s h p).2.node = xs ++ [(s.postRecv h).2] := by
  unfold World.deliverLast
  simp only [hn]
  simp

@[simp] theorem groupDataCheck_node (w : World) (s : Session) (h : PlainHdr) :
    (w.groupDataCheck s h).2.node = w.node := by
  unfold World.groupDataCheck
  split
  · split
    · split <;> rfl
    · rfl
  · rfl

theorem deliverAt_node (w : World) (idx : Nat) (s : Session) (h : PacketHdr) (p : Bytes) :
    (w.deliverAt idx s h p).2.node = w.node.set idx (s.postRecv h).2 := rfl

theorem deliverAt_gstore (w : World) (idx : Nat) (s : Session) (h : PacketHdr) (p : Bytes) :
    (w.deliverAt idx s h p).2.gstore = w.gstore := rfl

theorem deliverAt_ok {w w' : World} {s : Session} {h h' : PacketHdr} {p p' : Bytes} {i idx : Nat} {nw : Bool}
    (hd : w.deliverAt i s h p = (.ok idx nw h' p', w')) : h' = h ∧ p' = p ∧ idx = i := by
  unfold World.deliverAt at hd
  simp only [Prod.mk.injEq] at hd
  obtain ⟨h1, _⟩ := hd
  split at h1
  · cases h1
  · simp only [Outcome.ok.injEq] at h1
    exact ⟨h1.2.2.1.symm, h1.2.2.2.symm, h1.1.symm⟩

/-- the table after the group branch accepted a message: unchanged (duplicate counter / no room),
or the new session appended — after the LRU idle session was evicted if the table was full -/
theorem groupAccept_node (w : World) (now : Nat) (from_ : Addr) (c : Cand) (h : PacketHdr) (p : Bytes) :
    (w.groupAccept now from_ c h p).2.node = w.node ∨
    (w.groupAccept now from_ c h p).2.node = w.node ++ [((groupSession from_ c h.plain).postRecv h).2] ∨
    (w.node.length ≥ MAX_SESSIONS ∧ ∃ i, w.evictIdx now = some i ∧
        (w.groupAccept now from_ c h p).2.node
          = swapRemove w.node i ++ [((groupSession from_ c h.plain).postRecv h).2]) := by
  unfold World.groupAccept
  simp only
  split
  · left; exact groupCtr_node _ _ _
  · cases hm : (w.groupCtr c h.plain).1.makeRoom now (groupSession from_ c h.plain) with
    | none => left; exact groupCtr_node _ _ _
    | some w1 =>
      simp only
      rcases makeRoom_node hm with h1 | ⟨hfull, i, he, h1⟩
      · right; left
        rw [groupCtr_node] at h1
        exact deliverLast_node w1 _ h p _ h1
      · right; right
        rw [groupCtr_node] at h1 hfull
        refine ⟨hfull, i, ?_, deliverLast_node w1 _ h p _ h1⟩
        unfold World.evictIdx at he ⊢
        simpa using he

/-- the table after a delivery: unchanged, one session replaced by its `postRecv`, one appended,
or — only for an authenticated group message on a full table — one evicted and one appended -/
theorem receive_shape (E : Env) (now : Nat) (w : World) (from_ : Addr) (dg : Bytes) :
    (receive E now w from_ dg).2.node = w.node ∨
    (∃ idx h p s, decodeStage E w.node from_ dg = .decoded idx h p ∧ w.node[idx]? = some s ∧
        (receive E now w from_ dg).2.node = w.node.set idx (s.postRecv h).2) ∨
    (∃ s', (receive E now w from_ dg).2.node = w.node ++ [s']) ∨
    (w.node.length ≥ MAX_SESSIONS ∧ ∃ c h p i s', decodeStage E w.node from_ dg = .groupNew c h p ∧
        (receive E now w from_ dg).2.node = swapRemove w.node i ++ [s']) := by
  unfold receive
  simp only [touch_node]
  cases e : decodeStage E w.node from_ dg with
  | rej x hh => left; exact touch_node _ _ _ _
  | decoded idx h p =>
    simp only
    cases ei : w.node[idx]? with
    | none => left; exact touch_node _ _ _ _
    | some s =>
      simp only
      cases hc : ((w.touch now from_ dg).groupDataCheck s h.plain).1 with
      | some x =>
        left
        simp only
        rw [groupDataCheck_node, touch_node]
      | none =>
        right; left
        refine ⟨idx, h, p, s, rfl, ei, ?_⟩
        simp only
        rw [deliverAt_node, groupDataCheck_node, touch_node]
  | newPlain h p =>
    simp only
    cases ha : (w.touch now from_ dg).add now { addr := from_, peerNode := h.plain.srcNode } with
    | some w1 =>
      right; right; left
      have := (add_node ha).1
      rw [touch_node] at this
      exact ⟨_, deliverLast_node w1 _ h p _ this⟩
    | none => left; exact touch_node _ _ _ _
  | groupNew c h p =>
    simp only
    rcases groupAccept_node (w.touch now from_ dg) now from_ c h p with h1 | h1 | ⟨hfull, i, _, h1⟩
    · left; rw [h1]; exact touch_node _ _ _ _
    · right; right; left; exact ⟨_, by rw [h1, touch_node]⟩
    · right; right; right
      rw [touch_node] at hfull h1
      exact ⟨hfull, c, h, p, i, _, rfl, h1⟩


theorem deliverLast_gstore (w : World) (s : Session) (h : PacketHdr) (p : Bytes) :
    (w.deliverLast s h p).2.gstore = w.gstore := rfl

theorem groupDataCheck_gstore {w : World} {s : Session} {h : PlainHdr}
    (hne : (w.groupDataCheck s h).2.gstore ≠ w.gstore) :
    ∃ fab gid, s.mode = .group fab gid ∧ h.isGroup = true ∧ h.isControl = false ∧ otherGroup h gid = false := by
  unfold World.groupDataCheck at hne
  split at hne
  · rename_i hc
    simp only [Bool.and_eq_true, Bool.not_eq_true'] at hc
    cases hm : s.mode with
    | group fab gid =>
      rw [hm] at hne
      simp only at hne
      cases ho : otherGroup h gid with
      | true => rw [ho] at hne; exact absurd rfl hne
      | false => exact ⟨fab, gid, rfl, hc.1, hc.2, ho⟩
    | plain => rw [hm] at hne; exact absurd rfl hne
    | pase => rw [hm] at hne; exact absurd rfl hne
    | case => rw [hm] at hne; exact absurd rfl hne
  · exact absurd rfl hne

/-- **The group counter store is consulted only after a group message authenticated**: if a
delivery changes the store, the datagram either passed the group branch — it is authentic under a
key the node holds for the addressed group — or it is a group data message that is authentic for
a live group session of its sender and addresses that session's group. -/
theorem gstore_only_if_group_authentic {E : Env} {now : Nat} {w : World} {from_ : Addr} {dg : Bytes}
    (hb : BytesOK dg) (hne : (receive E now w from_ dg).2.gstore ≠ w.gstore) :
    (∃ c h p f src, decodeStage E w.node from_ dg = .groupNew c h p ∧
      GroupKeyFor E.fabs h.plain f c.gid c.key ∧ GroupAuthentic E.t c.key dg h.plain src) ∨
    (∃ idx h p r fab gid, decodeStage E w.node from_ dg = .decoded idx h p ∧ w.node[idx]? = some r ∧
      r.mode = .group fab gid ∧ h.plain.isGroup = true ∧ h.plain.isControl = false ∧
      otherGroup h.plain gid = false ∧ AuthenticFor E.t r dg) := by
  cases e : decodeStage E w.node from_ dg with
  | groupNew c h p =>
    obtain ⟨f, src, hk, _, _, _, ha⟩ := group_accept_only_authentic hb e
    exact Or.inl ⟨c, h, p, f, src, rfl, hk, ha⟩
  | rej x hh => exact absurd (reject_preserves_state e).2.2 hne
  | decoded idx h p =>
    right
    unfold receive at hne
    simp only [touch_node, e] at hne
    cases ei : w.node[idx]? with
    | none => rw [ei] at hne; exact absurd (touch_gstore _ _ _ _) hne
    | some s =>
      rw [ei] at hne
      simp only at hne
      have hg : ((w.touch now from_ dg).groupDataCheck s h.plain).2.gstore ≠ (w.touch now from_ dg).gstore := by
        intro hx
        apply hne
        split
        · simp only; rw [hx]; exact touch_gstore _ _ _ _
        · rw [deliverAt_gstore, hx]; exact touch_gstore _ _ _ _
      obtain ⟨fab, gid, hm, h1, h2, h3⟩ := groupDataCheck_gstore hg
      have hr : s.isEncrypted = true := by simp [Session.isEncrypted, hm]
      exact ⟨idx, h, p, s, fab, gid, rfl, ei, hm, h1, h2, h3, accept_only_authentic hb e ei hr⟩
  | newPlain h p =>
    exfalso; apply hne
    unfold receive
    simp only [touch_node, e]
    cases ha : (w.touch now from_ dg).add now { addr := from_, peerNode := h.plain.srcNode } with
    | some w1 =>
      simp only
      rw [deliverLast_gstore, (add_node ha).2]
      exact touch_gstore _ _ _ _
    | none => exact touch_gstore _ _ _ _

theorem newPlain_unencrypted {E : Env} {n : Node} {from_ : Addr} {dg p : Bytes} {h : PacketHdr}
    (e : decodeStage E n from_ dg = .newPlain h p) : h.plain.isEncrypted = false := by
  unfold decodeStage at e
  cases ed : PlainHdr.decode dg with
  | error x => rw [ed] at e; cases e
  | ok v =>
    obtain ⟨hp, rest⟩ := v
    rw [ed] at e
    simp only at e
    split at e
    · split at e
      · cases e
      · split at e <;> cases e
    · split at e
      · rename_i hne
        split at e
        · cases e
        · split at e
          · simp only [Stage.newPlain.injEq] at e
            obtain ⟨e1, _⟩ := e
            subst e1
            simpa using hne
          · cases e
      · split at e
        · rcases groupStage_cases E from_ hp (dg.take (dg.length - rest.length)) rest with ⟨e', h', hg⟩ | ⟨c, p', pay, src, hg, _⟩
          · rw [hg] at e; cases e
          · rw [hg] at e; cases e
        · cases e

theorem deliverLast_ok {w w' : World} {s : Session} {h h' : PacketHdr} {p p' : Bytes} {idx : Nat} {nw : Bool}
    (hd : w.deliverLast s h p = (.ok idx nw h' p', w')) : h' = h ∧ p' = p ∧ idx = w.node.length - 1 := by
  unfold World.deliverLast at hd
  simp only [Prod.mk.injEq] at hd
  obtain ⟨h1, _⟩ := hd
  split at h1
  · cases h1
  · simp only [Outcome.ok.injEq] at h1
    exact ⟨h1.2.2.1.symm, h1.2.2.2.symm, h1.1.symm⟩

/-- **Handed on only if authentic** — the statement at the level of `decode_packet`, for every way a
message can reach an exchange: through an existing secure session (authentic for that session's
receive key, complete header as associated data, the peer node id the session was established
with), as the first message of a new *unsecured* session, or as a group message for which the node
holds a key mapped to the addressed group, with the header's source node id in the nonce. -/
theorem handed_on_only_if_authentic {E : Env} {now : Nat} {w w' : World} {from_ : Addr} {idx : Nat}
    {dg p : Bytes} {h : PacketHdr} {nw : Bool} (hb : BytesOK dg)
    (hrecv : receive E now w from_ dg = (.ok idx nw h p, w')) :
    (∃ r, decodeStage E w.node from_ dg = .decoded idx h p ∧ w.node[idx]? = some r ∧
        (r.isEncrypted = true → AuthenticFor E.t r dg)) ∨
    (decodeStage E w.node from_ dg = .newPlain h p ∧ h.plain.isEncrypted = false) ∨
    (∃ c f src, decodeStage E w.node from_ dg = .groupNew c h p ∧
        GroupKeyFor E.fabs h.plain f c.gid c.key ∧ GroupAuthentic E.t c.key dg h.plain src) := by
  unfold receive at hrecv
  simp only [touch_node] at hrecv
  cases e : decodeStage E w.node from_ dg with
  | rej x hh => rw [e] at hrecv; simp at hrecv
  | decoded i hh pp =>
    rw [e] at hrecv
    simp only at hrecv
    cases ei : w.node[i]? with
    | none => rw [ei] at hrecv; simp at hrecv
    | some s =>
      rw [ei] at hrecv
      simp only at hrecv
      split at hrecv
      · simp at hrecv
      · obtain ⟨h1, h2, h3⟩ := deliverAt_ok hrecv
        subst h1 h2 h3
        left
        exact ⟨s, rfl, ei, fun hr => accept_only_authentic hb e ei hr⟩
  | newPlain hh pp =>
    rw [e] at hrecv
    simp only at hrecv
    right; left
    have henc := newPlain_unencrypted e
    cases ha : (w.touch now from_ dg).add now { addr := from_, peerNode := hh.plain.srcNode } with
    | none => rw [ha] at hrecv; simp at hrecv
    | some w1 =>
      rw [ha] at hrecv
      simp only at hrecv
      obtain ⟨h1, h2, _⟩ := deliverLast_ok hrecv
      subst h1 h2
      exact ⟨rfl, henc⟩
  | groupNew c hh pp =>
    rw [e] at hrecv
    simp only at hrecv
    right; right
    obtain ⟨f, src, hk, _, _, _, ha⟩ := group_accept_only_authentic hb e
    have : h = hh ∧ p = pp := by
      unfold World.groupAccept at hrecv
      simp only at hrecv
      split at hrecv
      · simp at hrecv
      · split at hrecv
        · simp at hrecv
        · obtain ⟨h1, h2, _⟩ := deliverLast_ok hrecv
          exact ⟨h1, h2⟩
    obtain ⟨h1, h2⟩ := this
    subst h1 h2
    exact ⟨c, f, src, rfl, hk, ha⟩

/-- **A group data message matched to a live group session passes the same checks as one that
creates a session**: it is handed on only if it addresses the session's group and its counter is
new to the per-sender group counter store (no replay through the fresh window of an ephemeral
session). -/
theorem group_data_on_session_checked {E : Env} {now : Nat} {w w' : World} {from_ : Addr} {idx fab gid : Nat}
    {dg p : Bytes} {h : PacketHdr} {nw : Bool} {s : Session}
    (hst : decodeStage E w.node from_ dg = .decoded idx h p) (hs : w.node[idx]? = some s)
    (hm : s.mode = .group fab gid) (hg : h.plain.isGroup = true) (hc : h.plain.isControl = false)
    (hrecv : receive E now w from_ dg = (.ok idx nw h p, w')) :
    otherGroup h.plain gid = false ∧ (w.gstore.postRecv fab (s.peerNode.getD 0) h.plain.ctr).2 = true := by
  unfold receive at hrecv
  simp only [touch_node, hst, hs] at hrecv
  cases hcheck : ((w.touch now from_ dg).groupDataCheck s h.plain).1 with
  | some x => rw [hcheck] at hrecv; simp at hrecv
  | none =>
    unfold World.groupDataCheck at hcheck
    simp only [hg, hc, hm, Bool.not_false, Bool.and_self, if_true, touch_gstore] at hcheck
    cases ho : otherGroup h.plain gid with
    | true => rw [ho] at hcheck; simp at hcheck
    | false =>
      rw [ho] at hcheck
      simp only [Bool.false_eq_true, if_false] at hcheck
      refine ⟨rfl, ?_⟩
      cases hf : (w.gstore.postRecv fab (s.peerNode.getD 0) h.plain.ctr).2 with
      | true => rfl
      | false => rw [hf] at hcheck; simp at hcheck

/-- **The ephemeral group session is bound to (fabric, group id, source node)**: the session an
accepted group message creates carries the fabric index and group id of the key that authenticated
it, the header's source node id as peer, that operational key in both directions, the group
session id, this node's id in that fabric, and the sender's address. -/
theorem group_session_bound {E : Env} {now : Nat} {w w' : World} {from_ : Addr} {idx : Nat}
    {dg p : Bytes} {h : PacketHdr} {nw : Bool} {c : Cand}
    (hst : decodeStage E w.node from_ dg = .groupNew c h p)
    (hrecv : receive E now w from_ dg = (.ok idx nw h p, w')) :
    ∃ s', w'.node[idx]? = some s' ∧ s'.mode = .group c.fabIdx c.gid ∧ s'.peerNode = h.plain.srcNode ∧
      s'.decKey = c.key ∧ s'.encKey = c.key ∧ s'.localSid = h.plain.sessId ∧ s'.localNode = c.nodeId ∧
      s'.addr = from_ := by
  have hfx := postRecv_fixed (groupSession from_ c h.plain) h
  have hnode : (receive E now w from_ dg).2.node = w'.node := by rw [hrecv]
  have hidx : idx + 1 = w'.node.length ∧ w'.node[idx]? = some ((groupSession from_ c h.plain).postRecv h).2 := by
    unfold receive at hrecv
    simp only [touch_node, hst] at hrecv
    unfold World.groupAccept at hrecv
    simp only at hrecv
    split at hrecv
    · simp at hrecv
    · cases hm : ((w.touch now from_ dg).groupCtr c h.plain).1.makeRoom now (groupSession from_ c h.plain) with
      | none => rw [hm] at hrecv; simp at hrecv
      | some w1 =>
        rw [hm] at hrecv
        simp only at hrecv
        obtain ⟨_, _, hi⟩ := deliverLast_ok hrecv
        have hw' : w' = (w1.deliverLast (groupSession from_ c h.plain) h p).2 := by rw [hrecv]
        have hx : ∃ xs, w1.node = xs ++ [groupSession from_ c h.plain] := by
          rcases makeRoom_node hm with h1 | ⟨_, i, _, h1⟩
          · exact ⟨_, h1⟩
          · exact ⟨_, h1⟩
        obtain ⟨xs, hx⟩ := hx
        have hn := deliverLast_node w1 _ h p xs hx
        rw [← hw'] at hn
        rw [hn, hi, hx]
        simp
  obtain ⟨_, hi⟩ := hidx
  refine ⟨_, hi, ?_⟩
  simp only [fixedPart, Prod.mk.injEq] at hfx
  obtain ⟨h1, h2, h3, h4, h5, h6, _, _, h9, _, _⟩ := hfx
  refine ⟨by rw [h9]; rfl, by rw [h3]; rfl, by rw [h4]; rfl, by rw [h5]; rfl, by rw [h6]; rfl, by rw [h2]; rfl, by rw [h1]; rfl⟩

theorem getElem?_swapRemove_append {α : Type} (l : List α) (i : Nat) (x : α) (j : Nat) (hj : j < (swapRemove l i).length) :
    (swapRemove l i ++ [x])[j]? = (swapRemove l i)[j]? := by
  rw [List.getElem?_append_left hj]

/-- **A datagram that is not authentic for a secure session leaves that session untouched** —
receive window, send counter, exchanges and keys — whatever else the datagram causes (rejection,
delivery to another session, a new session), as long as nothing is evicted: the only eviction
`decode_packet` performs is for an *authenticated* group message on a full table. -/
theorem inauthentic_preserves_session {E : Env} {now : Nat} {w : World} {from_ : Addr} {i : Nat}
    {dg : Bytes} {r : Session} (hb : BytesOK dg) (hi : w.node[i]? = some r) (hr : r.isEncrypted = true)
    (hna : ¬ AuthenticFor E.t r dg)
    (hroom : w.node.length < MAX_SESSIONS ∨ ∀ c h p, decodeStage E w.node from_ dg ≠ .groupNew c h p) :
    (receive E now w from_ dg).2.node[i]? = some r := by
  rcases receive_shape E now w from_ dg with h | ⟨idx, h, p, s, hd, hs, hn⟩ | ⟨s', hn⟩ | ⟨hfull, c, h, p, j, s', hst, _⟩
  · rw [h]; exact hi
  · rw [hn]
    by_cases hii : idx = i
    · subst hii
      rw [hs] at hi
      injection hi with hi
      subst hi
      exact absurd (accept_only_authentic hb hd hs hr) hna
    · rw [List.getElem?_set_ne hii]; exact hi
  · rw [hn, List.getElem?_append_left (by
      have := List.getElem?_eq_some_iff.mp hi
      exact this.1)]
    exact hi
  · rcases hroom with hlt | hng
    · omega
    · exact absurd hst (hng c h p)

/-- **No delivery changes keys, identifiers, mode or the send counter of any session** (same proviso). -/
theorem receive_keeps_keys {E : Env} {now : Nat} {w : World} {from_ : Addr} {i : Nat} {dg : Bytes}
    {r : Session} (hi : w.node[i]? = some r)
    (hroom : w.node.length < MAX_SESSIONS ∨ ∀ c h p, decodeStage E w.node from_ dg ≠ .groupNew c h p) :
    ∃ r', (receive E now w from_ dg).2.node[i]? = some r' ∧ fixedPart r' = fixedPart r := by
  rcases receive_shape E now w from_ dg with h | ⟨idx, h, p, s, _, hs, hn⟩ | ⟨s', hn⟩ | ⟨hfull, c, h, p, j, s', hst, _⟩
  · exact ⟨r, by rw [h]; exact hi, rfl⟩
  · rw [hn]
    have hlt := (List.getElem?_eq_some_iff.mp hi).1
    by_cases hii : idx = i
    · subst hii
      rw [hs] at hi
      injection hi with hi
      subst hi
      exact ⟨_, by rw [List.getElem?_set_self hlt], postRecv_fixed _ _⟩
    · exact ⟨r, by rw [List.getElem?_set_ne hii]; exact hi, rfl⟩
  · have hlt := (List.getElem?_eq_some_iff.mp hi).1
    exact ⟨r, by rw [hn, List.getElem?_append_left hlt]; exact hi, rfl⟩
  · rcases hroom with hlt | hng
    · omega
    · exact absurd hst (hng c h p)

/-- a duplicate (an authentic datagram whose counter was already received) changes nothing either;
for a group data message on a group session the per-session window is not consulted at all — its
authority is the group counter store (`group_data_skips_window`) -/
theorem duplicate_preserves_state {s : Session} {h : PacketHdr} (hsc : s.storeChecked h.plain = false)
    (hd : (Dedup.postRecvPlain s.rx h.plain.ctr s.isEncrypted).2 = false) :
    s.postRecv h = (.error .Duplicate, s) := by
  unfold Session.postRecv Session.windowStep
  simp [hsc, hd]

/-- **The per-session window is skipped for group data messages** (repo fix `efefeee`): `post_recv`
of a group session leaves the receive window as it is for them and never answers `Duplicate` on
account of it; control messages go through the window as before. -/
theorem group_data_skips_window {s : Session} {h : PacketHdr} (hsc : s.storeChecked h.plain = true) :
    (s.postRecv h).2.rx = s.rx := by
  unfold Session.postRecv Session.windowStep
  simp only [hsc, if_true, Bool.not_true, Bool.false_eq_true, if_false]
  split
  · split
    · rfl
    · split <;> rfl
  · split
    · rfl
    · split
      · rfl
      · split
        · split <;> rfl
        · rfl

/-! ## `handle_rx_packet`: the whole receive step -/

def ParseErr (e : Err) : Prop := e = .Invalid ∨ e = .TruncatedPacket

theorem takeLe_err {n : Nat} {bs : Bytes} {e : Err} (h : takeLe n bs = .error e) : e = .TruncatedPacket := by
  unfold takeLe at h
  split at h
  · cases h
  · injection h with h; exact h.symm

theorem takeLe_bind_err {α : Type} {n : Nat} {bs : Bytes} {k : Nat × Bytes → Except Err α} {e : Err}
    (h : (takeLe n bs >>= k) = .error e) : e = .TruncatedPacket ∨ ∃ v, k v = .error e := by
  cases ht : takeLe n bs with
  | error x =>
    rw [ht] at h
    left
    have : x = e := by injection h
    rw [← this]; exact takeLe_err ht
  | ok v =>
    rw [ht] at h
    right; exact ⟨v, h⟩

theorem PlainHdr.decode_err {bs : Bytes} {e : Err} (h : PlainHdr.decode bs = .error e) : ParseErr e := by
  unfold PlainHdr.decode at h
  rcases takeLe_bind_err h with h | ⟨⟨v, r1⟩, h⟩
  · right; exact h
  · simp only at h
    by_cases hf : fromBits MSGFLAGS_ALL v = true
    · simp only [hf, Bool.not_true, Bool.false_eq_true, if_false] at h
      rcases takeLe_bind_err h with h | ⟨⟨v2, r2⟩, h⟩
      · right; exact h
      · simp only at h
        rcases takeLe_bind_err h with h | ⟨⟨v3, r3⟩, h⟩
        · right; exact h
        · simp only at h
          by_cases hsf : fromBits SECFLAGS_ALL v3 = true
          · simp only [hsf, Bool.not_true, Bool.false_eq_true, if_false] at h
            rcases takeLe_bind_err h with h | ⟨⟨v4, r4⟩, h⟩
            · right; exact h
            · simp only at h
              rcases takeLe_bind_err h with h | ⟨⟨v5, r5⟩, h⟩
              · right; exact h
              · simp only at h
                rcases takeLe_bind_err h with h | ⟨⟨v6, r6⟩, h⟩
                · right; exact h
                · cases h
          · simp only [Bool.not_eq_true] at hsf
            simp only [hsf, Bool.not_false, if_true] at h
            left
            injection h with h; exact h.symm
    · simp only [Bool.not_eq_true] at hf
      simp only [hf, Bool.not_false, if_true] at h
      left
      injection h with h; exact h.symm

theorem ProtoHdr.decode_err {bs : Bytes} {e : Err} (h : ProtoHdr.decode bs = .error e) : ParseErr e := by
  unfold ProtoHdr.decode at h
  rcases takeLe_bind_err h with h | ⟨⟨v, r1⟩, h⟩
  · right; exact h
  · simp only at h
    by_cases hf : fromBits EXCHFLAGS_ALL v = true
    · simp only [hf, Bool.not_true, Bool.false_eq_true, if_false] at h
      rcases takeLe_bind_err h with h | ⟨⟨v2, r2⟩, h⟩
      · right; exact h
      · simp only at h
        rcases takeLe_bind_err h with h | ⟨⟨v3, r3⟩, h⟩
        · right; exact h
        · simp only at h
          rcases takeLe_bind_err h with h | ⟨⟨v4, r4⟩, h⟩
          · right; exact h
          · simp only at h
            rcases takeLe_bind_err h with h | ⟨⟨v5, r5⟩, h⟩
            · right; exact h
            · simp only at h
              rcases takeLe_bind_err h with h | ⟨⟨v6, r6⟩, h⟩
              · right; exact h
              · cases h
    · simp only [Bool.not_eq_true] at hf
      simp only [hf, Bool.not_false, if_true] at h
      left
      injection h with h; exact h.symm

/-- the error codes with which `decode_packet` can fail before `post_recv` -/
def EarlyErr (e : Err) : Prop :=
  e = .Invalid ∨ e = .TruncatedPacket ∨ e = .InvalidData ∨ e = .NoSession ∨ e = .BufferTooSmall ∨ e = .InvalidSignature

theorem decodeRemaining_err {t : Aead} {key : Option Nat} {node : Nat} {a : Addr} {h : PlainHdr}
    {aad rest : Bytes} {e : Err} (hd : SecureMsg.decodeRemaining t key node a h aad rest = .error e) :
    e = .Invalid ∨ e = .TruncatedPacket ∨ e = .InvalidData := by
  unfold SecureMsg.decodeRemaining at hd
  split at hd
  · split at hd
    · rename_i pt _
      cases hp : ProtoHdr.decode pt with
      | ok v => rw [hp] at hd; cases hd
      | error x =>
        rw [hp] at hd
        simp only [Except.map] at hd
        injection hd with hd
        subst hd
        rcases ProtoHdr.decode_err hp with h | h
        · left; exact h
        · right; left; exact h
    · injection hd with hd; right; right; exact hd.symm
  · cases hp : ProtoHdr.decode rest with
    | ok v => rw [hp] at hd; cases hd
    | error x =>
      rw [hp] at hd
      simp only [Except.map] at hd
      injection hd with hd
      subst hd
      rcases ProtoHdr.decode_err hp with h | h
      · left; exact h
      · right; left; exact h

theorem groupStage_rej {E : Env} {from_ : Addr} {h : PlainHdr} {aad rest : Bytes} {e : Err} {hh : PacketHdr}
    (hg : groupStage E from_ h aad rest = .rej e hh) : EarlyErr e ∧ hh.plain = h := by
  unfold groupStage at hg
  split at hg
  · simp only [Stage.rej.injEq] at hg
    obtain ⟨h1, h2⟩ := hg; subst h1 h2
    exact ⟨Or.inr (Or.inr (Or.inl rfl)), rfl⟩
  · split at hg
    · simp only [Stage.rej.injEq] at hg
      obtain ⟨h1, h2⟩ := hg; subst h1 h2
      exact ⟨Or.inr (Or.inr (Or.inl rfl)), rfl⟩
    · split at hg
      · simp only [Stage.rej.injEq] at hg
        obtain ⟨h1, h2⟩ := hg; subst h1 h2
        exact ⟨Or.inr (Or.inr (Or.inr (Or.inr (Or.inl rfl)))), rfl⟩
      · simp only at hg
        split at hg
        · cases hg
        · split at hg
          · simp only [Stage.rej.injEq] at hg
            obtain ⟨h1, h2⟩ := hg; subst h1 h2
            exact ⟨Or.inr (Or.inr (Or.inr (Or.inl rfl))), rfl⟩
          · simp only [Stage.rej.injEq] at hg
            obtain ⟨h1, h2⟩ := hg; subst h1 h2
            exact ⟨Or.inr (Or.inr (Or.inr (Or.inr (Or.inr rfl)))), rfl⟩

/-- a rejection before `post_recv` carries one of the early error codes; `NoSession` is only
answered for a header that was parsed (and is the one left in the packet) -/
theorem decodeStage_rej {E : Env} {n : Node} {from_ : Addr} {dg : Bytes} {e : Err} {hh : PacketHdr}
    (hd : decodeStage E n from_ dg = .rej e hh) :
    EarlyErr e ∧ (e = .NoSession → ∃ rest, PlainHdr.decode dg = .ok (hh.plain, rest)) := by
  unfold decodeStage at hd
  cases ed : PlainHdr.decode dg with
  | error x =>
    rw [ed] at hd
    simp only [Stage.rej.injEq] at hd
    obtain ⟨h1, _⟩ := hd
    subst h1
    rcases PlainHdr.decode_err ed with h | h
    · exact ⟨Or.inl h, fun hx => by rw [h] at hx; cases hx⟩
    · exact ⟨Or.inr (Or.inl h), fun hx => by rw [h] at hx; cases hx⟩
  | ok v =>
    obtain ⟨hp, rest⟩ := v
    rw [ed] at hd
    simp only at hd
    split at hd
    · split at hd
      · simp only [Stage.rej.injEq] at hd
        obtain ⟨h1, h2⟩ := hd; subst h1 h2
        exact ⟨Or.inr (Or.inr (Or.inr (Or.inl rfl))), fun _ => ⟨rest, rfl⟩⟩
      · split at hd
        · rename_i er
          simp only [Stage.rej.injEq] at hd
          obtain ⟨h1, h2⟩ := hd; subst h1 h2
          unfold Session.decodeRemaining at er
          rcases decodeRemaining_err er with h | h | h
          · exact ⟨Or.inl h, fun _ => ⟨rest, rfl⟩⟩
          · exact ⟨Or.inr (Or.inl h), fun _ => ⟨rest, rfl⟩⟩
          · exact ⟨Or.inr (Or.inr (Or.inl h)), fun _ => ⟨rest, rfl⟩⟩
        · cases hd
    · split at hd
      · split at hd
        · rename_i er
          simp only [Stage.rej.injEq] at hd
          obtain ⟨h1, h2⟩ := hd; subst h1 h2
          rcases decodeRemaining_err er with h | h | h
          · exact ⟨Or.inl h, fun _ => ⟨rest, rfl⟩⟩
          · exact ⟨Or.inr (Or.inl h), fun _ => ⟨rest, rfl⟩⟩
          · exact ⟨Or.inr (Or.inr (Or.inl h)), fun _ => ⟨rest, rfl⟩⟩
        · split at hd
          · cases hd
          · simp only [Stage.rej.injEq] at hd
            obtain ⟨h1, h2⟩ := hd; subst h1 h2
            exact ⟨Or.inr (Or.inr (Or.inr (Or.inl rfl))), fun _ => ⟨rest, rfl⟩⟩
      · split at hd
        · obtain ⟨h1, h2⟩ := groupStage_rej hd
          exact ⟨h1, fun _ => ⟨rest, by rw [h2]⟩⟩
        · simp only [Stage.rej.injEq] at hd
          obtain ⟨h1, h2⟩ := hd; subst h1 h2
          exact ⟨Or.inr (Or.inr (Or.inr (Or.inl rfl))), fun _ => ⟨rest, rfl⟩⟩

theorem writeUnsecured_ok {f : Addr} {h : PacketHdr} {p : Bytes} {r : Reply}
    (hw : writeUnsecured f h p = .ok r) :
    r.key = none ∧ r.to = f ∧ r.payload = p ∧ h.plain.isEncrypted = false := by
  unfold writeUnsecured at hw
  split at hw
  · cases hw
  · rename_i hc
    injection hw with hw
    subst hw
    refine ⟨rfl, rfl, rfl, ?_⟩
    simp only [Bool.or_eq_true, not_or, Bool.not_eq_true] at hc
    exact hc.1.1

/-- what `handle_rx_packet` does with an early rejection: nothing, or — `NoSession` for a secured
unicast header — one unsecured `SessionNotFound` report to the sender's address -/
theorem react_early {now x : Nat} {from_ : Addr} {hh : PacketHdr} {e : Err} {w : World} (he : EarlyErr e) :
    (react now x from_ hh (.err e) w).2 = w ∧ (react now x from_ hh (.err e) w).1.deliver = false ∧
    ((react now x from_ hh (.err e) w).1.replies = [] ∨
      ∃ r, (react now x from_ hh (.err e) w).1.replies = [r] ∧ r.key = none ∧ r.to = from_ ∧
        r.payload = statusReport GC_FAILURE SC_SESSION_NOT_FOUND [] ∧ e = .NoSession ∧
        hh.plain.isEncrypted = true ∧ hh.plain.isGroup = false) := by
  rcases he with h | h | h | h | h | h <;> subst h
  · exact ⟨rfl, rfl, Or.inl rfl⟩
  · exact ⟨rfl, rfl, Or.inl rfl⟩
  · exact ⟨rfl, rfl, Or.inl rfl⟩
  · unfold react
    simp only
    split
    · exact ⟨rfl, rfl, Or.inl rfl⟩
    · rename_i henc
      cases hw : writeUnsecured from_
          { plain := { hh.plain with sessId := 0, flags := hh.plain.flags ||| F_SRC, src := 0 },
            proto := ((hh.proto.unsetReliable).clearAck).setMeta Consts.protoIdSecureChannel Consts.opStatusReport false }
          (statusReport GC_FAILURE SC_SESSION_NOT_FOUND []) with
      | error x => exact ⟨rfl, rfl, Or.inl rfl⟩
      | ok r =>
        obtain ⟨h1, h2, h3, h4⟩ := writeUnsecured_ok hw
        refine ⟨rfl, rfl, Or.inr ⟨r, rfl, h1, h2, h3, trivial, by simpa using henc, ?_⟩⟩
        simpa [PlainHdr.isEncrypted, PlainHdr.isGroup] using h4
  · exact ⟨rfl, rfl, Or.inl rfl⟩
  · exact ⟨rfl, rfl, Or.inl rfl⟩

/-- **After a datagram that `decode_packet` rejects before `post_recv`, the whole receive step
(`handle_rx_packet`) leaves the session table and the group counter store unchanged, hands nothing
on, and sends at most one datagram: an unsecured `SessionNotFound` report to the sender's address
(for a secured unicast header that matches no session).** -/
theorem handleRx_rejected {E : Env} {now x : Nat} {w : World} {from_ : Addr} {dg : Bytes} {e : Err}
    {hh : PacketHdr} (hd : decodeStage E w.node from_ dg = .rej e hh) :
    (handleRx E now x w from_ dg).2.node = w.node ∧ (handleRx E now x w from_ dg).2.gstore = w.gstore ∧
    (handleRx E now x w from_ dg).1.deliver = false ∧
    ((handleRx E now x w from_ dg).1.replies = [] ∨
      ∃ r, (handleRx E now x w from_ dg).1.replies = [r] ∧ r.key = none ∧ r.to = from_ ∧
        r.payload = statusReport GC_FAILURE SC_SESSION_NOT_FOUND [] ∧ e = .NoSession ∧
        hh.plain.isEncrypted = true ∧ hh.plain.isGroup = false) := by
  obtain ⟨he, _⟩ := decodeStage_rej hd
  have hr : receive E now w from_ dg = (.err e, w.touch now from_ dg) := by
    unfold receive
    simp only [touch_node, hd]
  unfold handleRx
  simp only [touch_node, hd, hr, Stage.hdr]
  obtain ⟨h1, h2, h3⟩ := react_early (now := now) (x := x) (from_ := from_) (hh := hh) (w := w.touch now from_ dg) he
  rw [h1]
  exact ⟨touch_node _ _ _ _, touch_gstore _ _ _ _, h2, h3⟩

theorem findRx_isForRx {n : Node} {from_ : Addr} {h : PlainHdr} {i : Nat} (hf : findRx n from_ h = some i) :
    ∃ s, n[i]? = some s ∧ s.isForRx from_ h = true := by
  unfold findRx at hf
  have := List.findIdx?_eq_some_iff_getElem.mp hf
  obtain ⟨hlt, hp, _⟩ := this
  exact ⟨n[i], by simp [hlt], hp⟩

/-- **A secured datagram that is authentic for nothing is rejected early**: if the header claims a
secure session or a group (`is_encrypted`), the datagram is `AuthenticFor` no secure session of the
table and `GroupAuthentic` under no key — then `decode_packet` rejects it before `post_recv`, so by
`handleRx_rejected` nothing at all changes and at most `SessionNotFound` is sent. -/
theorem inauthentic_is_rejected {E : Env} {n : Node} {from_ : Addr} {dg : Bytes} (hb : BytesOK dg)
    (hsec : ∀ h rest, PlainHdr.decode dg = .ok (h, rest) → h.isEncrypted = true)
    (hna : ∀ r ∈ n, r.isEncrypted = true → ¬ AuthenticFor E.t r dg)
    (hng : ∀ key h src, ¬ GroupAuthentic E.t key dg h src) :
    ∃ e hh, decodeStage E n from_ dg = .rej e hh := by
  cases hd : decodeStage E n from_ dg with
  | rej e hh => exact ⟨e, hh, rfl⟩
  | decoded idx h p =>
    exfalso
    obtain ⟨rest, r, hdg, hwf, hf, hi, _⟩ := decoded_inv hb hd
    obtain ⟨s, hs, hfor⟩ := findRx_isForRx hf
    rw [hi] at hs
    injection hs with hs
    subst hs
    have hdec : PlainHdr.decode dg = .ok (h.plain, rest) := by
      rw [hdg]; exact PlainHdr.decode_encode _ hwf _
    have henc := hsec _ _ hdec
    have hre : r.isEncrypted = true := by
      unfold Session.isForRx at hfor
      simp only [Bool.and_eq_true, beq_iff_eq] at hfor
      rw [hfor.1.2, henc]
    exact hna r (List.mem_of_getElem? hi) hre (accept_only_authentic hb hd hi hre)
  | newPlain h p =>
    exfalso
    have h0 := newPlain_unencrypted hd
    unfold decodeStage at hd
    cases ed : PlainHdr.decode dg with
    | error x => rw [ed] at hd; cases hd
    | ok v =>
      obtain ⟨hp, rest⟩ := v
      have henc := hsec _ _ ed
      rw [ed] at hd
      simp only at hd
      split at hd
      · split at hd
        · cases hd
        · split at hd <;> cases hd
      · rw [henc] at hd
        simp only [Bool.not_true, Bool.false_eq_true, if_false] at hd
        split at hd
        · rcases groupStage_cases E from_ hp (dg.take (dg.length - rest.length)) rest with ⟨e', h', hg⟩ | ⟨c, p', pay, src, hg, _⟩
          · rw [hg] at hd; cases hd
          · rw [hg] at hd; cases hd
        · cases hd
  | groupNew c h p =>
    exfalso
    obtain ⟨f, src, _, _, _, _, ha⟩ := group_accept_only_authentic hb hd
    exact hng _ _ _ ha

/-- The per-session statement for the whole receive step (proved below: `C03_rx_full_holds`): whatever a datagram
causes in `handle_rx_packet` (ACK, `CloseSession`, removal of the session it *is* authentic for,
a new session), a secure session for which it is not authentic is still in the table, unchanged —
unless the table is full and the datagram is an authentic group message or an unsecured session
request (the two cases in which the least recently used idle session is evicted). -/
def C03_rx_full : Prop :=
  ∀ (E : Env) (now x : Nat) (w : World) (from_ : Addr) (dg : Bytes) (r : Session),
    BytesOK dg → r ∈ w.node → r.isEncrypted = true → ¬ AuthenticFor E.t r dg →
    (w.node.length < MAX_SESSIONS ∨
      ((∀ c h p, decodeStage E w.node from_ dg ≠ .groupNew c h p) ∧
       (∀ h p, decodeStage E w.node from_ dg ≠ .newPlain h p))) →
    r ∈ (handleRx E now x w from_ dg).2.node

/-! ### proof of `C03_rx_full` -/

theorem isForRx_fixed {a b : Session} (h : fixedPart a = fixedPart b) (f : Addr) (hd : PlainHdr) :
    a.isForRx f hd = b.isForRx f hd := by
  simp only [fixedPart, Prod.mk.injEq] at h
  obtain ⟨h1, h2, h3, _, _, h6, _, _, h9, _, h11⟩ := h
  unfold Session.isForRx Session.isEncrypted
  rw [h1, h2, h3, h6, h9, h11]

theorem findIdx?_set_congr {α : Type} (p : α → Bool) (l : List α) (i : Nat) (x y : α)
    (hi : l[i]? = some x) (hp : p y = p x) : (l.set i y).findIdx? p = l.findIdx? p := by
  induction l generalizing i with
  | nil => rfl
  | cons a as ih =>
    cases i with
    | zero =>
      simp only [List.getElem?_cons_zero, Option.some.injEq] at hi
      subst hi
      simp only [List.set_cons_zero, List.findIdx?_cons, hp]
    | succ k =>
      simp only [List.getElem?_cons_succ] at hi
      simp only [List.set_cons_succ, List.findIdx?_cons, ih k hi]

theorem findRx_set {n : Node} {idx : Nat} {s s' : Session} (f : Addr) (hd : PlainHdr)
    (hi : n[idx]? = some s) (hf : fixedPart s' = fixedPart s) :
    findRx (n.set idx s') f hd = findRx n f hd := by
  unfold findRx
  exact findIdx?_set_congr _ n idx s s' hi (isForRx_fixed hf f hd)

theorem mem_swapRemove {α : Type} {l : List α} {i j : Nat} {x : α} (hi : l[i]? = some x) (hij : i ≠ j)
    (hj : j < l.length) : x ∈ swapRemove l j := by
  unfold swapRemove
  have hil : i < l.length := (List.getElem?_eq_some_iff.mp hi).1
  cases hl : l.getLast? with
  | none =>
    have : l = [] := List.getLast?_eq_none_iff.mp hl
    subst this
    simp at hil
  | some last =>
    simp only
    have hx : l[i] = x := (List.getElem?_eq_some_iff.mp hi).2
    split
    · rename_i hlast
      have hlt : i < l.length - 1 := by omega
      rw [List.mem_iff_getElem]
      exact ⟨i, by simp; omega, by simp [hx]⟩
    · rename_i hnl
      by_cases hilast : i = l.length - 1
      · -- x is the last element; it was moved to position j
        have hxl : x = last := by
          have := List.getLast?_eq_getElem? (l := l)
          rw [this] at hl
          rw [← hilast, hi] at hl
          injection hl
        rw [List.mem_iff_getElem]
        refine ⟨j, by simp; omega, ?_⟩
        simp [hxl]
      · rw [List.mem_iff_getElem]
        refine ⟨i, by simp; omega, ?_⟩
        simp [List.getElem_set, hx]
        intro h; exact absurd h.symm hij

theorem exchPostRecv_err {e : Exch} {c : Nat} {p : ProtoHdr} {x : Err} (h : e.postRecv c p = .error x) :
    x = .Duplicate := by
  unfold Exch.postRecv at h
  simp only at h
  split at h
  · rename_i y hy
    injection h with h
    subst h
    split at hy
    · split at hy
      · injection hy with hy; exact hy.symm
      · cases hy
    · cases hy
  · cases h

/-- `post_recv` fails only with these codes — never `NoSpaceSessions` -/
theorem postRecv_err {s : Session} {h : PacketHdr} {x : Err} (hx : (s.postRecv h).1 = .error x) :
    x = .Duplicate ∨ x = .NoExchange ∨ x = .NoSession ∨ x = .NoSpaceExchanges := by
  unfold Session.postRecv at hx
  simp only at hx
  split at hx
  · injection hx with hx; left; exact hx.symm
  · split at hx
    · split at hx
      · injection hx with hx; right; left; exact hx.symm
      · split at hx
        · rename_i y hy
          injection hx with hx
          subst hx
          left; exact exchPostRecv_err hy
        · cases hx
    · split at hx
      · injection hx with hx; right; left; exact hx.symm
      · split at hx
        · injection hx with hx; right; right; left; exact hx.symm
        · split at hx
          · split at hx
            · rename_i y hy
              injection hx with hx
              subst hx
              left; exact exchPostRecv_err hy
            · cases hx
          · injection hx with hx; right; right; right; exact hx.symm


/-- the reactions of `handle_rx_packet` keep a session in the table as long as the session they
address (found by the second lookup) is another one and nothing is evicted -/
theorem react_keeps {now x : Nat} {from_ : Addr} {h : PacketHdr} {o : Outcome} {w : World} {i : Nat} {r : Session}
    (hi : w.node[i]? = some r)
    (hj : ∀ j, findRx w.node from_ h.plain = some j → j ≠ i)
    (hoh : ∀ idx nw hh p, o = .ok idx nw hh p → hh = h)
    (hne : o = .err .NoSpaceSessions → h.plain.isEncrypted = true) :
    r ∈ (react now x from_ h o w).2.node := by
  have hmem : r ∈ w.node := List.mem_of_getElem? hi
  have hrem : ∀ j, findRx w.node from_ h.plain = some j → r ∈ (w.remove j).node := by
    intro j hf
    obtain ⟨sj, hsj, _⟩ := findRx_isForRx hf
    have hjl : j < w.node.length := (List.getElem?_eq_some_iff.mp hsj).1
    exact mem_swapRemove hi (fun hx => hj j hf hx.symm) hjl
  cases o with
  | err e =>
    cases e with
    | Duplicate =>
      unfold react
      simp only
      split
      · exact hmem
      · split
        · cases hf : findRx w.node from_ h.plain with
          | none => exact hmem
          | some j =>
            simp only
            cases hs : w.node[j]? with
            | none => exact hmem
            | some sj =>
              simp only
              split
              · exact hmem
              · rename_i rep sj' _
                simp only
                have : (w.node.set j sj')[i]? = some r := by
                  rw [List.getElem?_set_ne (hj j hf)]; exact hi
                exact List.mem_of_getElem? this
        · exact hmem
    | NoSpaceSessions =>
      unfold react
      simp only
      have := hne rfl
      simp only [this, Bool.not_true, Bool.false_and, Bool.false_eq_true, if_false]
      exact hmem
    | NoSpaceExchanges =>
      unfold react
      simp only
      cases hf : findRx w.node from_ h.plain with
      | none => exact hmem
      | some j =>
        simp only
        cases hs : w.node[j]? with
        | none => exact hmem
        | some sj =>
          simp only
          split <;> exact hrem j hf
    | NoSession =>
      unfold react
      simp only
      split
      · exact hmem
      · split <;> exact hmem
    | Invalid => exact hmem
    | TruncatedPacket => exact hmem
    | InvalidData => exact hmem
    | NoExchange => exact hmem
    | BufferTooSmall => exact hmem
    | InvalidState => exact hmem
    | InvalidSignature => exact hmem
  | ok idx nw hh p =>
    have := hoh idx nw hh p rfl
    subst this
    unfold react
    simp only
    split
    · exact hmem
    · split
      · cases hf : findRx w.node from_ hh.plain with
        | none => exact hmem
        | some j => exact hrem j hf
      · exact hmem


theorem receive_decoded {E : Env} {now : Nat} {w : World} {from_ : Addr} {dg p : Bytes} {idx : Nat}
    {hh : PacketHdr} {s : Session} (hst : decodeStage E w.node from_ dg = .decoded idx hh p)
    (hs : w.node[idx]? = some s) :
    ((receive E now w from_ dg).2.node = w.node ∨
      (receive E now w from_ dg).2.node = w.node.set idx (s.postRecv hh).2) ∧
    (∀ i nw h' p', (receive E now w from_ dg).1 = .ok i nw h' p' → h' = hh) ∧
    (receive E now w from_ dg).1 ≠ .err .NoSpaceSessions := by
  unfold receive
  simp only [touch_node, hst, hs]
  cases hc : ((w.touch now from_ dg).groupDataCheck s hh.plain).1 with
  | some e =>
    simp only
    refine ⟨Or.inl (by rw [groupDataCheck_node, touch_node]), ⟨(fun _ _ _ _ hx => by cases hx), ?_⟩⟩
    intro hx
    injection hx with hx
    subst hx
    unfold World.groupDataCheck at hc
    split at hc
    · split at hc
      · split at hc
        · cases hc
        · simp only at hc
          split at hc <;> cases hc
      · cases hc
    · cases hc
  | none =>
    simp only
    refine ⟨Or.inr (by rw [deliverAt_node, groupDataCheck_node, touch_node]), ⟨?_, ?_⟩⟩
    · intro i nw h' p' hx
      unfold World.deliverAt at hx
      simp only at hx
      split at hx
      · cases hx
      · injection hx with _ _ h3 _; exact h3.symm
    · intro hx
      unfold World.deliverAt at hx
      simp only at hx
      split at hx
      · rename_i e he
        injection hx with hx
        subst hx
        rcases postRecv_err he with h | h | h | h <;> cases h
      · cases hx

theorem deliverLast_out {w : World} {s : Session} {hh : PacketHdr} {p : Bytes} :
    (∀ i nw h' p', (w.deliverLast s hh p).1 = .ok i nw h' p' → h' = hh) ∧
    (w.deliverLast s hh p).1 ≠ .err .NoSpaceSessions := by
  unfold World.deliverLast
  simp only
  constructor
  · intro i nw h' p' hx
    split at hx
    · cases hx
    · injection hx with _ _ h3 _; exact h3.symm
  · intro hx
    split at hx
    · rename_i e he
      injection hx with hx
      subst hx
      rcases postRecv_err he with h | h | h | h <;> cases h
    · cases hx

theorem findRx_append_none {n : Node} {s' : Session} {f : Addr} {hd : PlainHdr} {j : Nat}
    (hn : findRx n f hd = none) (hj : findRx (n ++ [s']) f hd = some j) : n.length ≤ j := by
  unfold findRx at hn hj
  rw [List.findIdx?_append, hn] at hj
  simp only [Option.none_or, Option.map_eq_some_iff] at hj
  obtain ⟨k, _, hk⟩ := hj
  omega

/-- **The whole receive step leaves every secure session for which the datagram is not authentic in
the table, unchanged** — whatever `handle_rx_packet` does (stand-alone ACK, `CloseSession`, removal of
the session the datagram *is* authentic for, a new session, `SessionNotFound`) — unless the table is
full and the datagram is an authentic group message or an unsecured session request (eviction of
the least recently used idle session). -/
theorem handleRx_keeps_inauthentic_session {E : Env} {now x : Nat} {w : World} {from_ : Addr} {dg : Bytes}
    {i : Nat} {r : Session} (hb : BytesOK dg) (hi : w.node[i]? = some r) (hr : r.isEncrypted = true)
    (hna : ¬ AuthenticFor E.t r dg)
    (hroom : w.node.length < MAX_SESSIONS ∨
      ((∀ c h p, decodeStage E w.node from_ dg ≠ .groupNew c h p) ∧
       (∀ h p, decodeStage E w.node from_ dg ≠ .newPlain h p))) :
    r ∈ (handleRx E now x w from_ dg).2.node := by
  have hil : i < w.node.length := (List.getElem?_eq_some_iff.mp hi).1
  cases hst : decodeStage E w.node from_ dg with
  | rej e hh =>
    rw [(handleRx_rejected (now := now) (x := x) hst).1]
    exact List.mem_of_getElem? hi
  | decoded idx hh p =>
    obtain ⟨rest, s, _, _, hf, hs, _⟩ := decoded_inv hb hst
    have hne : idx ≠ i := by
      intro hx
      subst hx
      rw [hs] at hi
      injection hi with hi
      subst hi
      exact hna (accept_only_authentic hb hst hs hr)
    obtain ⟨hnode, hok, hnss⟩ := receive_decoded (now := now) hst hs
    unfold handleRx
    simp only [touch_node, hst, Stage.hdr]
    have hi1 : (receive E now w from_ dg).2.node[i]? = some r := by
      rcases hnode with h | h
      · rw [h]; exact hi
      · rw [h, List.getElem?_set_ne hne]; exact hi
    have hf1 : findRx (receive E now w from_ dg).2.node from_ hh.plain = some idx := by
      rcases hnode with h | h
      · rw [h]; exact hf
      · rw [h, findRx_set from_ hh.plain hs (postRecv_fixed s hh)]; exact hf
    exact react_keeps hi1 (fun j hj => by rw [hf1] at hj; injection hj with hj; omega)
      (fun a b c d hx => hok a b c d hx) (fun hx => absurd hx hnss)
  | newPlain hh p =>
    have hlt : w.node.length < MAX_SESSIONS := by
      rcases hroom with h | ⟨_, h⟩
      · exact h
      · exact absurd hst (h hh p)
    have henc := newPlain_unencrypted hst
    unfold handleRx
    simp only [touch_node, hst, Stage.hdr]
    have hrec : ∃ w1, (w.touch now from_ dg).add now { addr := from_, peerNode := hh.plain.srcNode } = some w1 ∧
        receive E now w from_ dg = w1.deliverLast { addr := from_, peerNode := hh.plain.srcNode } hh p := by
      unfold receive
      simp only [touch_node, hst]
      cases ha : (w.touch now from_ dg).add now { addr := from_, peerNode := hh.plain.srcNode } with
      | none => have := add_none_full ha; rw [touch_node] at this; omega
      | some w1 => exact ⟨w1, rfl, rfl⟩
    obtain ⟨w1, ha, hrec⟩ := hrec
    have hn1 := (add_node ha).1
    rw [touch_node] at hn1
    have hnode := deliverLast_node w1 _ hh p _ hn1
    obtain ⟨hok, hnss⟩ := deliverLast_out (w := w1) (s := { addr := from_, peerNode := hh.plain.srcNode }) (hh := hh) (p := p)
    rw [hrec]
    have hi1 : (w1.deliverLast { addr := from_, peerNode := hh.plain.srcNode } hh p).2.node[i]? = some r := by
      rw [hnode, List.getElem?_append_left hil]; exact hi
    refine react_keeps hi1 ?_ (fun a b c d hx => hok a b c d hx) (fun hx => absurd hx hnss)
    intro j hj hji
    subst hji
    obtain ⟨sj, hsj, hfor⟩ := findRx_isForRx hj
    rw [hi1] at hsj
    injection hsj with hsj
    subst hsj
    unfold Session.isForRx at hfor
    simp only [Bool.and_eq_true, beq_iff_eq] at hfor
    rw [hfor.1.2, henc] at hr
    cases hr
  | groupNew c hh p =>
    have hlt : w.node.length < MAX_SESSIONS := by
      rcases hroom with h | ⟨h, _⟩
      · exact h
      · exact absurd hst (h c hh p)
    obtain ⟨rest, src, _, _, hfn, hgrp, _, _, _⟩ := groupNew_inv hb hst
    have henc : hh.plain.isEncrypted = true := by simp [PlainHdr.isEncrypted, hgrp]
    unfold handleRx
    simp only [touch_node, hst, Stage.hdr]
    have hrec : receive E now w from_ dg = (w.touch now from_ dg).groupAccept now from_ c hh p := by
      unfold receive
      simp only [touch_node, hst]
    rw [hrec]
    have hok : ∀ a nw h' p', ((w.touch now from_ dg).groupAccept now from_ c hh p).1 = .ok a nw h' p' → h' = hh := by
      intro a nw h' p' hx
      unfold World.groupAccept at hx
      simp only at hx
      split at hx
      · cases hx
      · split at hx
        · cases hx
        · exact deliverLast_out.1 a nw h' p' hx
    rcases groupAccept_node (w.touch now from_ dg) now from_ c hh p with h1 | h1 | ⟨hfull, _⟩
    · rw [touch_node] at h1
      refine react_keeps (by rw [h1]; exact hi) ?_ hok (fun _ => henc)
      intro j hj
      rw [h1, hfn] at hj
      cases hj
    · rw [touch_node] at h1
      refine react_keeps (by rw [h1, List.getElem?_append_left hil]; exact hi) ?_ hok (fun _ => henc)
      intro j hj
      rw [h1] at hj
      have := findRx_append_none hfn hj
      omega
    · rw [touch_node] at hfull
      omega

/-- `C03_rx_full` holds. -/
theorem C03_rx_full_holds : C03_rx_full := by
  intro E now x w from_ dg r hb hm hr hna hroom
  obtain ⟨i, hi⟩ := List.getElem?_of_mem hm
  exact handleRx_keeps_inauthentic_session hb hi hr hna hroom


/-! ## Non-vacuity: concrete instances of every implication -/
namespace Ex
def a1 : Addr := .udp (.v6 1) 1001
def a9 : Addr := .udp (.v6 1) 1009
def s : Session := { addr := a9, localNode := 5, peerNode := some 7, encKey := 2, decKey := 4, localSid := 10, peerSid := 20, mode := .case }
def r : Session := { addr := a1, localNode := 7, peerNode := some 5, decKey := 2, encKey := 4, localSid := 20, peerSid := 10, mode := .case }
def u : Session := { addr := a1 }
def h : PacketHdr := { plain := { sessId := 20, ctr := 3 }, proto := { exchFlags := 5, opcode := 2, exchId := 77, protoId := 1 } }
def h' : PlainHdr := { sessId := 20, ctr := 4 }
def h0 : PlainHdr := { sessId := 0, ctr := 3 }
def pay : Bytes := [1, 2, 3]
def ct : Bytes := [5, 2, 77, 0, 1, 0, 200, 201, 202]
def t : Aead := [mkRec s h pay ct]
def E : Env := { t := t }

theorem hplain : h.plain.WF := ⟨by decide, by decide, by decide, by decide, by decide, by decide⟩
theorem hproto : h.proto.WF := ⟨by decide, by decide, by decide, by decide, by decide, by decide⟩

/-- the hypotheses of `roundtrip_udp` hold for the pair, and its conclusion computes -/
example : decodeStage E [r] a1 (s.encode h pay ct).1 = .decoded 0 h pay :=
  roundtrip_udp {} [r] a1 0 s r h pay ct (.v6 1) 1001 rfl (by decide) (by decide) (by decide) (by decide) hplain hproto (by decide) (by decide)

/-- over TCP the R and A flags are lowered on receipt (`roundtrip`), a header without them is unchanged (`roundtrip_reliable`) -/
example : decodeStage E [{ r with addr := .tcp (.v6 1) 1001 }] (.tcp (.v6 1) 1001) (s.encode h pay ct).1
    = .decoded 0 { h with proto := { h.proto with exchFlags := 1 } } pay := by decide

example : (receive E 0 { node := [r], lru := [0] } a1 (s.encode h pay ct).1).1 = .ok 0 true h pay := by decide

/-- `accept_only_authentic` / `handed_on_only_if_authentic`: their hypotheses are met by that delivery -/
example : AuthenticFor t r (s.encode h pay ct).1 :=
  accept_only_authentic (E := E) (n := [r]) (from_ := a1) (idx := 0) (h := h) (p := pay) (by decide) (by decide) (by decide) (by decide)

/-- the counter bumped in the header (`h'`), same cipher text: rejected at decryption -/
example : decodeStage E [r] a1 (h'.encode ++ ct) = .rej .InvalidData { plain := h' } := by decide
/-- `aad_covers_header`: its hypotheses are satisfiable (here the forged header addresses an unsecured
session, which does take the bytes — and the theorem's conclusion, *not a secure session*, holds) -/
example : ∃ idx hh p, decodeStage E [r, u] a1 (h0.encode ++ ct) = .decoded idx hh p ∧ [r, u][idx]? = some u :=
  ⟨1, { plain := h0, proto := { exchFlags := 5, opcode := 2, exchId := 77, protoId := 1 } }, [200, 201, 202],
    by decide, by decide⟩
/-- the reflected datagram (what `r` itself would send) is not accepted by `r` -/
example : decodeStage { t := [mkRec r h pay ct] } [r] a1 (r.encode h pay ct).1 = .rej .InvalidData { plain := h.plain } := by decide
/-- another source node id: rejected -/
example : decodeStage { t := [mkRec { s with localNode := 6 } h pay ct] } [r] a1 (s.encode h pay ct).1 = .rej .InvalidData { plain := h.plain } := by decide
/-- the same session reached over another transport (same IP and port): no session -/
example : decodeStage E [r] (.tcp (.v6 1) 1001) (s.encode h pay ct).1 = .rej .NoSession { plain := h.plain } := by decide
/-- IPv4 and IPv4-mapped IPv6 are the same peer (`Address::canonical`) -/
example : decodeStage E [{ r with addr := .udp (.v4 2130706433) 1000 }] (.udp (.v6 281472812449793) 1000) (s.encode h pay ct).1
    = .decoded 0 h pay := by decide
/-- `inauthentic_preserves_session` / `reject_preserves_state`: a datagram that is not authentic exists -/
example : ¬ AuthenticFor [] r (s.encode h pay ct).1 := by rintro ⟨_, hm, _⟩; cases hm
example : (receive {} 0 { node := [r], lru := [0] } a1 (s.encode h pay ct).1) = (.err .InvalidData, { node := [r], lru := [0] }) := by decide
/-- `ProducedBy` and `CtInjective` hold of the example table -/
example : ProducedBy t [s] := by
  intro rec hm
  simp only [t, List.mem_singleton] at hm
  exact ⟨s, by simp, h, pay, by decide, by decide, hplain, hproto, by rw [hm]; rfl⟩
example : CtInjective t := by
  intro a ha b hb _
  simp only [t, List.mem_singleton] at ha hb
  rw [ha, hb]

/-! ### group receive -/
/-- fabric 1 maps group 7 to key set 1 (epoch key 9) and group 8 to key set 2 (epoch key 11) -/
def f1 : FabricM := { fabIdx := 1, nodeId := 200, cfid := 5, keyMap := [(7, 1), (8, 2)], keySets := [{ id := 1, epochKeys := [9] }, { id := 2, epochKeys := [11] }] }
/-- fabric 2 maps group 7 to the *same epoch key* — another operational key -/
def f2 : FabricM := { fabIdx := 2, nodeId := 300, cfid := 6, keyMap := [(7, 1)], keySets := [{ id := 1, epochKeys := [9] }] }
def gh : PacketHdr := { plain := { flags := 6, sessId := 33, secFlags := 1, ctr := 10, src := 50, dst := 7 }, proto := { exchFlags := 1, opcode := 8, exchId := 3, protoId := 1 } }
def gs (key node : Nat) : Session := { addr := a9, localNode := node, encKey := key, decKey := key, mode := .group 1 7 }
def gE (key node : Nat) : Env := { t := [mkRec (gs key node) gh pay ct], fabs := [f1, f2], gsid := fun _ => 33 }
def gdg : Bytes := gh.plain.encode ++ ct

/-- accepted under the key derived from the epoch key mapped to group 7 in fabric 1 — the hypotheses of
`group_accept_only_authentic`, `handed_on_only_if_authentic` (third alternative), `group_session_bound` -/
example : decodeStage (gE (opKey 9 5) 50) [] a1 gdg = .groupNew { fabIdx := 1, nodeId := 200, gid := 7, key := opKey 9 5 } gh pay := by decide
example : (receive (gE (opKey 9 5) 50) 0 {} a1 gdg).1 = .ok 0 true gh pay := by decide
example : ((receive (gE (opKey 9 5) 50) 0 {} a1 gdg).2.node.map (·.mode)) = [.group 1 7] := by decide
/-- fabric 2's key for the same group id and epoch key is accepted *for fabric 2* -/
example : decodeStage (gE (opKey 9 6) 50) [] a1 gdg = .groupNew { fabIdx := 2, nodeId := 300, gid := 7, key := opKey 9 6 } gh pay := by decide
/-- another group's key (group 8's epoch key 11), a key the node does not hold, a directly installed key: rejected -/
example : decodeStage (gE (opKey 11 5) 50) [] a1 gdg = .rej .InvalidSignature { plain := gh.plain } := by decide
example : decodeStage (gE (opKey 12 5) 50) [] a1 gdg = .rej .InvalidSignature { plain := gh.plain } := by decide
example : decodeStage (gE 4 50) [] a1 gdg = .rej .InvalidSignature { plain := gh.plain } := by decide
/-- encrypted by another source node than the header names: rejected -/
example : decodeStage (gE (opKey 9 5) 51) [] a1 gdg = .rej .InvalidSignature { plain := gh.plain } := by decide
/-- the header re-addressed to group 8 (for which the key is not mapped), same cipher text: rejected -/
example : decodeStage (gE (opKey 9 5) 50) [] a1 ((({ gh.plain with dst := 8 } : PlainHdr)).encode ++ ct)
    = .rej .InvalidSignature { plain := { gh.plain with dst := 8 } } := by decide
/-- no key with that group session id: `NoSession`; and a rejected group message touches nothing -/
example : decodeStage { (gE (opKey 9 5) 50) with gsid := fun _ => 34 } [] a1 gdg = .rej .NoSession { plain := gh.plain } := by decide
example : (receive (gE (opKey 11 5) 50) 0 { node := [r], lru := [0] } a1 gdg).2 = { node := [r], lru := [0] } := by decide
/-- the counter store moves for the authentic message (`gstore_only_if_group_authentic` is not vacuous) -/
example : (receive (gE (opKey 9 5) 50) 0 {} a1 gdg).2.gstore ≠ ({} : World).gstore := by decide
/-- a replayed group message from another address: `Duplicate` by the counter store, no second session -/
example : (receive (gE (opKey 9 5) 50) 0 (receive (gE (opKey 9 5) 50) 0 {} a1 gdg).2 a9 gdg).1 = .err .Duplicate := by decide
/-- ... and from the same address, where it is matched to the ephemeral session the first copy created:
`Duplicate` as well (`group_data_on_session_checked`); re-addressed to group 8 through that session: refused -/
example : (receive (gE (opKey 9 5) 50) 0 (receive (gE (opKey 9 5) 50) 0 {} a1 gdg).2 a1 gdg).1 = .err .Duplicate := by decide
def gh8 : PacketHdr := { gh with plain := { gh.plain with dst := 8, ctr := 11 } }
example : (receive { (gE (opKey 9 5) 50) with t := [mkRec (gs (opKey 9 5) 50) gh8 pay [1, 2]] } 0
    (receive (gE (opKey 9 5) 50) 0 {} a1 gdg).2 a1 (gh8.plain.encode ++ [1, 2])).1 = .err .NoSession := by decide

/-! ### the whole receive step -/
/-- `handleRx_rejected`: a secured unicast datagram for which there is no session is answered by one
unsecured `SessionNotFound`; a forged one for an existing session by nothing; nothing changes -/
example : (handleRx {} 0 0 { node := [], lru := [] } a1 (s.encode h pay ct).1).1.replies.map (fun x => (x.key, x.payload))
    = [(none, statusReport GC_FAILURE SC_SESSION_NOT_FOUND [])] := by decide
example : handleRx {} 0 0 { node := [r], lru := [0] } a1 (s.encode h pay ct).1 = ({}, { node := [r], lru := [0] }) := by decide
/-- the clean datagram is handed on; replayed, it is answered by a stand-alone ACK on the session
(the send counter moves: it is authentic) -/
example : (handleRx E 0 0 { node := [r], lru := [0] } a1 (s.encode h pay ct).1).1.deliver = true := by decide
example : ((handleRx E 0 0 (handleRx E 0 0 { node := [r], lru := [0] } a1 (s.encode h pay ct).1).2 a1 (s.encode h pay ct).1).1.replies.map
    (fun x => (x.key, x.hdr.proto.opcode, x.hdr.proto.ack))) = [(some 4, Consts.opMrpStandaloneAck, 3)] := by decide
/-- `inauthentic_is_rejected`: its hypotheses hold for the forged datagram on a node with session `r` -/
example : ∃ e hh, decodeStage {} [r] a1 (s.encode h pay ct).1 = .rej e hh := ⟨.InvalidData, { plain := h.plain }, by decide⟩
end Ex

end C03
