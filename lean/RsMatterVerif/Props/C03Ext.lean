import RsMatterVerif.Props.C03
/-!
# C03, second part — the converse, alterations, direction separation, what a rejection preserves

Repairs after the audit of the theorem statements (docs/audit/C03.md). Everything is over the same
model (`Model/SecureMsg`, ideal AEAD); *authentic* always means the ideal-AEAD notion
`AuthenticFor` / `GroupAuthentic`: the datagram is, bit for bit, the wire form of an encryption that
was really made under the receive key, with the complete header as associated data.

* `authenticForB_iff`, `groupAuthenticB_iff` — the executable predicates the driver's oracle evaluates
  are the predicates of the theorems.
* `authentic_is_decoded`, `decoded_iff_authentic`, `authentic_is_handed_on` — the converse of
  `accept_only_authentic`: an authentic datagram that the lookup routes to the session IS decoded,
  and is handed on when the counter window / exchange table take it.
* `altered_is_rejected`, `altered_handed_on_only_unsecured`, `altered_keeps_secure_sessions` — any
  datagram that differs from an encoded one and is not itself another recorded encryption is never
  decoded for a secure session and never opens a group session; it can be taken by an *unsecured*
  session only (when its header says "unencrypted": session id 0, no group flag).
* `decoded_only_by_intended_receiver`, `opposite_direction_rejected`, `other_session_key_rejected`,
  `other_source_node_rejected`, `group_message_attributed_to_sender` — direction / session / source
  node separation, with the hypothesis `decKey ≠ encKey` made explicit.
* `postRecv_error_state`, `rejected_session_effect` — which rejection preserves what.
* `roundtrip_unsecured`, `roundtrip_unsecured_new`, `roundtrip_group_first`; `preSend_wf`, `presend_roundtrip`
  (`pre_send` + `encode` → `decode`).
-/
namespace C03
open SecureMsg

/-! ## The oracle's executable predicates are the theorems' predicates -/

/-- **`authenticForB` decides `AuthenticFor`** — no side condition. -/
theorem authenticForB_iff (t : Aead) (r : Session) (dg : Bytes) :
    authenticForB t r dg = true ↔ AuthenticFor t r dg := by
  unfold authenticForB AuthenticFor
  rw [List.any_eq_true]
  constructor
  · rintro ⟨rec, hm, hc⟩
    simp only [Bool.and_eq_true, beq_iff_eq] at hc
    obtain ⟨⟨hk, hdg⟩, hmatch⟩ := hc
    split at hmatch
    · rename_i h hdec
      simp only [Bool.and_eq_true, beq_iff_eq] at hmatch
      obtain ⟨henc, hn⟩ := hmatch
      have hb : BytesOK rec.aad := by rw [← henc]; exact PlainHdr.encode_bytesOK h
      obtain ⟨_, hwf, _⟩ := PlainHdr.decode_sound hb hdec
      exact ⟨rec, hm, h, hwf, hk, henc.symm, hdg, hn⟩
    · cases hmatch
  · rintro ⟨rec, hm, h, hwf, hk, ha, hdg, hn⟩
    refine ⟨rec, hm, ?_⟩
    have hdec : PlainHdr.decode rec.aad = .ok (h, []) := by
      have := PlainHdr.decode_encode h hwf []
      rw [List.append_nil] at this
      rw [ha]; exact this
    simp only [hdec, Bool.and_eq_true, beq_iff_eq]
    exact ⟨⟨hk, hdg⟩, ha.symm, hn⟩

/-- `dg` is an authentic group message under some key the node holds for the addressed group -/
def GroupAuthenticAny (E : Env) (dg : Bytes) : Prop :=
  ∃ key h src f gid, GroupKeyFor E.fabs h f gid key ∧ GroupAuthentic E.t key dg h src

/-- **`groupAuthenticB` decides "group-authentic under a key mapped to the addressed group"**. -/
theorem groupAuthenticB_iff (E : Env) (dg : Bytes) :
    groupAuthenticB E dg = true ↔ GroupAuthenticAny E dg := by
  unfold groupAuthenticB GroupAuthenticAny
  rw [List.any_eq_true]
  constructor
  · rintro ⟨rec, hm, hc⟩
    simp only [Bool.and_eq_true, beq_iff_eq] at hc
    obtain ⟨hdg, hmatch⟩ := hc
    split at hmatch
    · rename_i h hdec
      simp only [Bool.and_eq_true, beq_iff_eq, List.any_eq_true] at hmatch
      obtain ⟨⟨⟨henc, hgrp⟩, hsrc⟩, f, hf, hu, m, hmm, hg, ks, hks, hid, e, he, hkey⟩ := hmatch
      have hb : BytesOK rec.aad := by rw [← henc]; exact PlainHdr.encode_bytesOK h
      obtain ⟨_, hwf, _⟩ := PlainHdr.decode_sound hb hdec
      cases hsn : h.srcNode with
      | none => rw [hsn] at hsrc; cases hsrc
      | some src =>
        rw [hsn] at hsrc
        simp only [beq_iff_eq] at hsrc
        refine ⟨rec.key, h, src, f, m.1, ⟨hf, m.2, hmm, ks, hks, hid, e, he, hkey.symm, ?_, ?_⟩,
          hwf, hsn, hgrp, rec, hm, rfl, henc.symm, hdg, hsrc⟩
        · intro g hg'
          rw [hg'] at hg
          simpa using hg
        · intro d hd
          rw [hd] at hu
          simpa using hu
    · cases hmatch
  · rintro ⟨key, h, src, f, gid, ⟨hf, ksid, hmm, ks, hks, hid, e, he, hkey, hg, hu⟩,
      hwf, hsn, hgrp, rec, hm, hk, ha, hdg, hn⟩
    refine ⟨rec, hm, ?_⟩
    have hdec : PlainHdr.decode rec.aad = .ok (h, []) := by
      have := PlainHdr.decode_encode h hwf []
      rw [List.append_nil] at this
      rw [ha]; exact this
    simp only [hdec, hsn, Bool.and_eq_true, beq_iff_eq, List.any_eq_true]
    refine ⟨hdg, ⟨⟨ha.symm, hgrp⟩, hn⟩, f, hf, ?_, (gid, ksid), hmm, ?_, ks, hks, hid, e, he, ?_⟩
    · cases hd : h.dstUnicast with
      | none => rfl
      | some d => simp [hu d hd]
    · cases hd : h.dstGroup with
      | none => rfl
      | some g => simp [hg g hd]
    · rw [← hkey, hk]

/-! ## The converse: an authentic datagram IS accepted -/

/-- **Authentic ⇒ decoded.** Take any encryption `rec` that was really made, under the receive key
of the secure session `r`, with the (well-formed) header `h` as associated data and `r`'s expected
peer node id in the nonce. If the lookup routes `h` from `from_` to `r` (`findRx`: address, session
id, node ids — the part of acceptance that is not authenticity) and the plaintext starts with a
protocol header, then the datagram `aad ‖ ct` is decoded for `r`: headers and payload are handed to
`post_recv`. `Aead.Functional`: decryption is a function of (key, nonce, aad, cipher text) — true of
every cipher. -/
theorem authentic_is_decoded {E : Env} {n : Node} {from_ : Addr} {idx : Nat} {r : Session} {rec : EncRec}
    {h : PlainHdr} {p : ProtoHdr} {pay : Bytes}
    (hfun : E.t.Functional) (hm : rec ∈ E.t) (hw : h.WF) (hkey : rec.key = r.decKey)
    (haad : rec.aad = h.encode) (hn : rec.nonce = nonce h.secFlags h.ctr (r.peerNode.getD 0))
    (hfind : findRx n from_ h = some idx) (hidx : n[idx]? = some r) (hr : r.isEncrypted = true)
    (hpt : ProtoHdr.decode rec.pt = .ok (p, pay)) :
    decodeStage E n from_ (rec.aad ++ rec.ct)
      = .decoded idx { plain := h, proto := p.adjustReliability r.addr } pay := by
  have hd : Aead.dec E.t r.decKey (nonce h.secFlags h.ctr (r.peerNode.getD 0)) h.encode rec.ct
      = some rec.pt := by
    have := Aead.dec_mem hfun hm
    rw [hkey, hn, haad] at this
    exact this
  rw [haad]
  unfold decodeStage
  rw [PlainHdr.decode_encode _ hw]
  simp only [take_len_append, hfind, hidx]
  unfold Session.decodeRemaining SecureMsg.decodeRemaining Session.getDecKey
  simp only [hr, if_true, hd, hpt, Except.map]

/-- **Decoded ⇔ authentic (and routed, and parsable)**, for a secure session `r` at table index
`idx`: `decode_packet` passes a datagram to `post_recv` of `r` exactly when it is the wire form of a
recorded encryption under `r`'s receive key with the complete header as associated data and `r`'s
peer node id in the nonce (`AuthenticFor`), the header is one the lookup routes to `r`, and the
plaintext begins with a protocol header. -/
theorem decoded_iff_authentic {E : Env} {n : Node} {from_ : Addr} {idx : Nat} {r : Session} {dg : Bytes}
    (hb : BytesOK dg) (hfun : E.t.Functional) (hidx : n[idx]? = some r) (hr : r.isEncrypted = true) :
    (∃ hh pay, decodeStage E n from_ dg = .decoded idx hh pay) ↔
    (∃ rec ∈ E.t, ∃ h : PlainHdr, h.WF ∧ rec.key = r.decKey ∧ rec.aad = h.encode ∧ dg = rec.aad ++ rec.ct ∧
      rec.nonce = nonce h.secFlags h.ctr (r.peerNode.getD 0) ∧
      findRx n from_ h = some idx ∧ ∃ p pay, ProtoHdr.decode rec.pt = .ok (p, pay)) := by
  constructor
  · rintro ⟨hh, pay, hd⟩
    obtain ⟨rest, r', hdg, hwf, hfind, hi, hrem⟩ := decoded_inv hb hd
    rw [hidx] at hi
    injection hi with hi
    subst hi
    unfold Session.decodeRemaining Session.getDecKey at hrem
    simp only [hr, if_true] at hrem
    obtain ⟨rec, hm, hk, hn, ha, hc, p0, hp0, _⟩ := decodeRemaining_key_inv hrem
    exact ⟨rec, hm, hh.plain, hwf, hk, ha, by rw [ha, hc]; exact hdg, hn, hfind, p0, pay, hp0⟩
  · rintro ⟨rec, hm, h, hwf, hk, ha, hdg, hn, hfind, p, pay, hpt⟩
    exact ⟨_, _, by rw [hdg]; exact authentic_is_decoded hfun hm hwf hk ha hn hfind hidx hr hpt⟩

theorem groupDataCheck_touch (w : World) (now : Nat) (from_ : Addr) (dg : Bytes) (s : Session) (h : PlainHdr) :
    ((w.touch now from_ dg).groupDataCheck s h).1 = (w.groupDataCheck s h).1 := by
  unfold World.groupDataCheck
  simp only [touch_gstore]
  repeat' split
  all_goals rfl

/-- **Authentic ⇒ handed on** (the ⇐ direction of the property's first sentence, at the level of
`decode_packet`): an authentic datagram for the secure session `r`, routed to it, whose plaintext
starts with a protocol header, is handed to an exchange of `r` whenever `post_recv` takes it (the
counter is new to the receive window and the exchange exists or may be created) and — for a group
data message on a group session — the group check and the per-sender counter store pass. -/
theorem authentic_is_handed_on {E : Env} {now : Nat} {w : World} {from_ : Addr} {idx : Nat} {r : Session}
    {rec : EncRec} {h : PlainHdr} {p : ProtoHdr} {pay : Bytes} {nw : Bool}
    (hfun : E.t.Functional) (hm : rec ∈ E.t) (hw : h.WF) (hkey : rec.key = r.decKey)
    (haad : rec.aad = h.encode) (hn : rec.nonce = nonce h.secFlags h.ctr (r.peerNode.getD 0))
    (hfind : findRx w.node from_ h = some idx) (hidx : w.node[idx]? = some r) (hr : r.isEncrypted = true)
    (hpt : ProtoHdr.decode rec.pt = .ok (p, pay))
    (hgrp : (w.groupDataCheck r h).1 = none)
    (hpost : (r.postRecv { plain := h, proto := p.adjustReliability r.addr }).1 = .ok nw) :
    (receive E now w from_ (rec.aad ++ rec.ct)).1
      = .ok idx nw { plain := h, proto := p.adjustReliability r.addr } pay := by
  have hd := authentic_is_decoded (from_ := from_) hfun hm hw hkey haad hn hfind hidx hr hpt
  unfold receive
  simp only [touch_node, hd, hidx, groupDataCheck_touch, hgrp]
  unfold World.deliverAt
  simp only [hpost]

/-! ## Alterations: header, cipher text or tag -/

/-- `dg` is not the wire form `aad ‖ ct` of any recorded encryption — under the ideal AEAD this is
what "forged" means: the table lists every cipher text that was ever produced under any key -/
def NotRecorded (t : Aead) (dg : Bytes) : Prop := ∀ rec ∈ t, dg ≠ rec.aad ++ rec.ct

theorem notRecorded_not_authentic {t : Aead} {r : Session} {dg : Bytes} (h : NotRecorded t dg) :
    ¬ AuthenticFor t r dg := by
  rintro ⟨rec, hm, _, _, _, _, hdg, _⟩
  exact h rec hm hdg

theorem notRecorded_not_groupAuthentic {t : Aead} {key : Nat} {dg : Bytes} {h : PlainHdr} {src : Nat}
    (hn : NotRecorded t dg) : ¬ GroupAuthentic t key dg h src := by
  rintro ⟨_, _, _, rec, hm, _, _, hdg, _⟩
  exact hn rec hm hdg

/-- a datagram that differs from the one `s.encode` produced — in any bit of the header bytes, the
cipher text or the tag, by truncation or extension — and is not the wire form of *another* recorded
encryption, is the wire form of no recorded encryption -/
theorem altered_notRecorded {t : Aead} {s : Session} {h : PacketHdr} {payload ct dg : Bytes}
    (hs : s.isEncrypted = true) (hne : dg ≠ (s.encode h payload ct).1)
    (hother : ∀ rec ∈ t, dg = rec.aad ++ rec.ct → rec = mkRec s h payload ct) : NotRecorded t dg := by
  intro rec hm hdg
  apply hne
  rw [encode_secure s h payload ct hs, hdg, hother rec hm hdg]
  rfl

theorem decoded_hdr_kind {E : Env} {n : Node} {from_ : Addr} {idx : Nat} {dg p : Bytes} {h : PacketHdr}
    {r : Session} (hb : BytesOK dg) (hd : decodeStage E n from_ dg = .decoded idx h p)
    (hidx : n[idx]? = some r) : h.plain.isEncrypted = r.isEncrypted := by
  obtain ⟨_, _, _, _, hf, hi, _⟩ := decoded_inv hb hd
  obtain ⟨s, hs, hfor⟩ := findRx_isForRx hf
  rw [hidx] at hs
  injection hs with hs
  subst hs
  unfold Session.isForRx at hfor
  simp only [Bool.and_eq_true, beq_iff_eq] at hfor
  exact hfor.1.2.symm

/-- **An altered datagram is rejected by every secure session and by the group branch.** Let `dg0`
be what the secure session `s` encoded (`Session.encode`, header `h`, any payload). Any other
datagram `dg` — one or more bits of the header bytes, of the cipher text or of the tag changed,
bytes cut off or appended — that is not itself *another* recorded encryption (ideal AEAD: the
adversary cannot produce a cipher text that was never made) is, on every node and from every
address,

* never decoded for a **secure** session: if `decode_packet` passes it to `post_recv` of a session
  at all, that session is an *unsecured* one and the (altered) header says "unencrypted" — session
  id 0 and no group flag (this happens: `Ex`, the forged header `h0`); and
* never authenticated by the group branch (no ephemeral group session, no counter-store entry). -/
theorem altered_is_rejected {E : Env} {n : Node} {from_ : Addr} {s : Session} {h : PacketHdr}
    {payload ct dg : Bytes} (hs : s.isEncrypted = true) (hb : BytesOK dg)
    (hne : dg ≠ (s.encode h payload ct).1)
    (hother : ∀ rec ∈ E.t, dg = rec.aad ++ rec.ct → rec = mkRec s h payload ct) :
    (∀ idx hh p r, decodeStage E n from_ dg = .decoded idx hh p → n[idx]? = some r →
        r.isEncrypted = false ∧ hh.plain.isEncrypted = false) ∧
    (∀ c hh p, decodeStage E n from_ dg ≠ .groupNew c hh p) := by
  have hnr := altered_notRecorded hs hne hother
  constructor
  · intro idx hh p r hd hidx
    have hk := decoded_hdr_kind hb hd hidx
    cases hr : r.isEncrypted with
    | false => exact ⟨rfl, by rw [hk, hr]⟩
    | true => exact absurd (accept_only_authentic hb hd hidx hr) (notRecorded_not_authentic hnr)
  · intro c hh p hd
    obtain ⟨f, src, _, _, _, _, ha⟩ := group_accept_only_authentic hb hd
    exact notRecorded_not_groupAuthentic hnr ha

/-- … at the level of `decode_packet`: if an altered datagram is handed on at all, then to an
exchange of an unsecured session (an existing one, or the new one its unencrypted header opens) -/
theorem altered_handed_on_only_unsecured {E : Env} {now : Nat} {w w' : World} {from_ : Addr} {s : Session}
    {h : PacketHdr} {payload ct dg : Bytes} {idx : Nat} {nw : Bool} {hh : PacketHdr} {p : Bytes}
    (hs : s.isEncrypted = true) (hb : BytesOK dg) (hne : dg ≠ (s.encode h payload ct).1)
    (hother : ∀ rec ∈ E.t, dg = rec.aad ++ rec.ct → rec = mkRec s h payload ct)
    (hrecv : receive E now w from_ dg = (.ok idx nw hh p, w')) :
    hh.plain.isEncrypted = false ∧
    ((∃ u, decodeStage E w.node from_ dg = .decoded idx hh p ∧ w.node[idx]? = some u ∧ u.isEncrypted = false) ∨
      decodeStage E w.node from_ dg = .newPlain hh p) := by
  obtain ⟨h1, h2⟩ := altered_is_rejected (n := w.node) (from_ := from_) hs hb hne hother
  rcases handed_on_only_if_authentic hb hrecv with ⟨r, hd, hi, _⟩ | ⟨hd, he⟩ | ⟨c, _, _, hd, _⟩
  · obtain ⟨hr, hk⟩ := h1 idx hh p r hd hi
    exact ⟨hk, Or.inl ⟨r, hd, hi, hr⟩⟩
  · exact ⟨he, Or.inr hd⟩
  · exact absurd hd (h2 c hh p)

/-- … and for the whole receive step: every secure session of the node is still in the table,
unchanged (window, counters, exchanges, keys), whatever `handle_rx_packet` does with the altered
datagram — under the no-eviction proviso of `C03_rx_full`. -/
theorem altered_keeps_secure_sessions {E : Env} {now x : Nat} {w : World} {from_ : Addr} {s : Session}
    {h : PacketHdr} {payload ct dg : Bytes} {r : Session}
    (hs : s.isEncrypted = true) (hb : BytesOK dg) (hne : dg ≠ (s.encode h payload ct).1)
    (hother : ∀ rec ∈ E.t, dg = rec.aad ++ rec.ct → rec = mkRec s h payload ct)
    (hm : r ∈ w.node) (hr : r.isEncrypted = true)
    (hroom : w.node.length < MAX_SESSIONS ∨
      ((∀ c h p, decodeStage E w.node from_ dg ≠ .groupNew c h p) ∧
       (∀ h p, decodeStage E w.node from_ dg ≠ .newPlain h p))) :
    r ∈ (handleRx E now x w from_ dg).2.node :=
  C03_rx_full_holds E now x w from_ dg r hb hm hr
    (notRecorded_not_authentic (altered_notRecorded hs hne hother)) hroom

/-! ## Direction, session and source-node separation -/

/-- **Who can decode what `s` encoded.** With distinct encryptions having distinct cipher texts
(`CtInjective`, the second half of the ideal AEAD), the datagram the secure session `s` encoded is
decoded for a secure session `r` only if `r`'s *receive* key is `s`'s *send* key and the nonce `r`
builds from its expected peer node id is the one `s` built from its own node id; the header `r`
sees is the one `s` wrote. -/
theorem decoded_only_by_intended_key {E : Env} {n : Node} {from_ : Addr} {s : Session} {h : PacketHdr}
    {payload ct : Bytes} (hs : s.isEncrypted = true) (hin : mkRec s h payload ct ∈ E.t)
    (hinj : CtInjective E.t) (hw : h.plain.WF) (hct : BytesOK ct)
    {idx : Nat} {hh : PacketHdr} {p : Bytes} {r : Session}
    (hd : decodeStage E n from_ (s.encode h payload ct).1 = .decoded idx hh p)
    (hidx : n[idx]? = some r) (hr : r.isEncrypted = true) :
    r.decKey = s.encKey ∧ hh.plain = h.plain ∧
      nonce h.plain.secFlags h.plain.ctr (r.peerNode.getD 0) = nonce h.plain.secFlags h.plain.ctr s.localNode := by
  rw [encode_secure s h payload ct hs] at hd
  simp only at hd
  have hb : BytesOK (h.plain.encode ++ ct) := (PlainHdr.encode_bytesOK h.plain).append hct
  obtain ⟨rest, r', hdg, hwf, _, hi, hrem⟩ := decoded_inv hb hd
  rw [hidx] at hi
  injection hi with hi
  subst hi
  have e1 := PlainHdr.decode_encode h.plain hw ct
  rw [hdg, PlainHdr.decode_encode _ hwf] at e1
  simp only [Except.ok.injEq, Prod.mk.injEq] at e1
  obtain ⟨e1, e2⟩ := e1
  unfold Session.decodeRemaining Session.getDecKey at hrem
  simp only [hr, if_true] at hrem
  obtain ⟨rec, hm, hk, hn, _, hc, _⟩ := decodeRemaining_key_inv hrem
  have hrec : rec = mkRec s h payload ct := hinj rec hm _ hin (by rw [hc, e2]; rfl)
  rw [hrec] at hk hn
  refine ⟨hk.symm, e1, ?_⟩
  rw [e1] at hn
  exact hn.symm

theorem srcNode_lt {h : PlainHdr} {src : Nat} (hw : h.WF) (hs : h.srcNode = some src) : src < 256 ^ 8 := by
  unfold PlainHdr.srcNode at hs
  split at hs
  · rename_i hf
    injection hs with hs
    have := hw.src
    simp only [srcLen, hf, if_true] at this
    rw [← hs]; exact this
  · cases hs

/-- … hence (node ids are 64-bit) `r` expects exactly `s`'s node id as its peer -/
theorem decoded_only_by_intended_receiver {E : Env} {n : Node} {from_ : Addr} {s : Session} {h : PacketHdr}
    {payload ct : Bytes} (hs : s.isEncrypted = true) (hin : mkRec s h payload ct ∈ E.t)
    (hinj : CtInjective E.t) (hw : h.plain.WF) (hct : BytesOK ct) (hsn : s.localNode < 256 ^ 8)
    {idx : Nat} {hh : PacketHdr} {p : Bytes} {r : Session}
    (hd : decodeStage E n from_ (s.encode h payload ct).1 = .decoded idx hh p)
    (hidx : n[idx]? = some r) (hr : r.isEncrypted = true) (hrn : r.peerNode.getD 0 < 256 ^ 8) :
    r.decKey = s.encKey ∧ r.peerNode.getD 0 = s.localNode ∧ hh.plain = h.plain := by
  obtain ⟨h1, h2, h3⟩ := decoded_only_by_intended_key hs hin hinj hw hct hd hidx hr
  exact ⟨h1, (nonce_injective (secflags_lt hw.secFlags) hw.ctr hrn (secflags_lt hw.secFlags) hw.ctr hsn h3).2.2, h2⟩

/-- **Encrypted for another session ⇒ rejected**: a session whose receive key is not the sender's
send key never decodes the datagram. -/
theorem other_session_key_rejected {E : Env} {n : Node} {from_ : Addr} {s : Session} {h : PacketHdr}
    {payload ct : Bytes} (hs : s.isEncrypted = true) (hin : mkRec s h payload ct ∈ E.t)
    (hinj : CtInjective E.t) (hw : h.plain.WF) (hct : BytesOK ct)
    {idx : Nat} {r : Session} (hidx : n[idx]? = some r) (hr : r.isEncrypted = true)
    (hkey : r.decKey ≠ s.encKey) (hh : PacketHdr) (p : Bytes) :
    decodeStage E n from_ (s.encode h payload ct).1 ≠ .decoded idx hh p :=
  fun hd => hkey (decoded_only_by_intended_key hs hin hinj hw hct hd hidx hr).1

/-- **The opposite direction is rejected.** A session whose two directional keys differ
(`decKey ≠ encKey`: PASE and CASE sessions take them from different parts of one KDF output —
I2R / R2I, C01 `keys_agree`, `Model/Case` `i2r := part 0`, `r2i := part 1`; `handle_pasepake3`
splits `Ke`-derived material into `dec_key ‖ enc_key ‖ att_challenge`) never decodes a datagram it
encoded itself: a reflected datagram is refused. The hypothesis is necessary:
`Ex2.reflected_accepted_with_equal_keys`. -/
theorem opposite_direction_rejected {E : Env} {n : Node} {from_ : Addr} {r : Session} {h : PacketHdr}
    {payload ct : Bytes} (hr : r.isEncrypted = true) (hdir : r.decKey ≠ r.encKey)
    (hin : mkRec r h payload ct ∈ E.t) (hinj : CtInjective E.t) (hw : h.plain.WF) (hct : BytesOK ct)
    {idx : Nat} (hidx : n[idx]? = some r) (hh : PacketHdr) (p : Bytes) :
    decodeStage E n from_ (r.encode h payload ct).1 ≠ .decoded idx hh p :=
  other_session_key_rejected hr hin hinj hw hct hidx hr hdir hh p

/-- **Another source node ⇒ rejected**: a session that expects another peer node id than the
sender's never decodes the datagram, even with the right key. -/
theorem other_source_node_rejected {E : Env} {n : Node} {from_ : Addr} {s : Session} {h : PacketHdr}
    {payload ct : Bytes} (hs : s.isEncrypted = true) (hin : mkRec s h payload ct ∈ E.t)
    (hinj : CtInjective E.t) (hw : h.plain.WF) (hct : BytesOK ct) (hsn : s.localNode < 256 ^ 8)
    {idx : Nat} {r : Session} (hidx : n[idx]? = some r) (hr : r.isEncrypted = true)
    (hrn : r.peerNode.getD 0 < 256 ^ 8) (hnode : r.peerNode.getD 0 ≠ s.localNode) (hh : PacketHdr) (p : Bytes) :
    decodeStage E n from_ (s.encode h payload ct).1 ≠ .decoded idx hh p :=
  fun hd => hnode (decoded_only_by_intended_receiver hs hin hinj hw hct hsn hd hidx hr hrn).2.1

/-- **Group sessions: one key for both directions — the source node id in the nonce separates.**
A group message `s` encoded (its node id in the nonce) passes the group branch of any node only
with `s`'s key and with the header `s` wrote, whose source node id is `s`'s own: the ephemeral
session it creates has `s`'s node id as peer (`group_session_bound`). A reflected or re-addressed
copy can therefore never be attributed to another member of the group than its real sender (for an
existing group session: `decoded_only_by_intended_receiver`, the session's peer node id is `s`'s);
it is a *replay* of the sender's own message, and as such subject to the per-sender counter store
(C04). -/
theorem group_message_attributed_to_sender {E : Env} {n : Node} {from_ : Addr} {s : Session} {h : PacketHdr}
    {payload ct : Bytes} (hs : s.isEncrypted = true) (hin : mkRec s h payload ct ∈ E.t)
    (hinj : CtInjective E.t) (hw : h.plain.WF) (hct : BytesOK ct) (hsn : s.localNode < 256 ^ 8)
    {c : Cand} {hh : PacketHdr} {p : Bytes}
    (hd : decodeStage E n from_ (s.encode h payload ct).1 = .groupNew c hh p) :
    c.key = s.encKey ∧ hh.plain = h.plain ∧ hh.plain.srcNode = some s.localNode := by
  rw [encode_secure s h payload ct hs] at hd
  simp only at hd
  have hb : BytesOK (h.plain.encode ++ ct) := (PlainHdr.encode_bytesOK h.plain).append hct
  obtain ⟨rest, src, hdg, hwf, _, _, hsrc, _, hrem⟩ := groupNew_inv hb hd
  have e1 := PlainHdr.decode_encode h.plain hw ct
  rw [hdg, PlainHdr.decode_encode _ hwf] at e1
  simp only [Except.ok.injEq, Prod.mk.injEq] at e1
  obtain ⟨e1, e2⟩ := e1
  obtain ⟨rec, hm, hk, hn, _, hc, _⟩ := decodeRemaining_key_inv hrem
  have hrec : rec = mkRec s h payload ct := hinj rec hm _ hin (by rw [hc, e2]; rfl)
  rw [hrec] at hk hn
  have hn2 : nonce h.plain.secFlags h.plain.ctr s.localNode = nonce h.plain.secFlags h.plain.ctr src := by
    rw [e1] at hn
    exact hn
  have := (nonce_injective (secflags_lt hw.secFlags) hw.ctr hsn (secflags_lt hw.secFlags) hw.ctr
    (srcNode_lt hwf hsrc) hn2).2.2
  exact ⟨hk.symm, e1, by rw [hsrc, this]⟩

/-! ## Which rejection preserves what

* a datagram rejected **before** `post_recv` (`decodeStage = .rej`: unparsable, no session, failed
  decryption = *inauthentic*, group branch refused) changes no session and not the group counter
  store — `reject_preserves_state`, `handleRx_rejected`;
* a datagram that is **not authentic** for a secure session leaves *that session* unchanged whatever
  else it causes — `inauthentic_preserves_session`, `C03_rx_full_holds`;
* an **authentic** datagram that `post_recv` refuses is a different case: a counter the window has
  already seen (`Duplicate`) leaves the session as it is (`duplicate_preserves_state`) — the
  stand-alone ACK `handle_rx_packet` then writes on the session advances its *send* counter;
  every other refusal (`NoExchange`, `NoSession` on an expired session, `NoSpaceExchanges`, an ACK for
  another counter) happens **after the receive window has taken the counter**: the session is left
  with the window moved and nothing else changed — `postRecv_error_state`,
  `rejected_session_effect`. That is intended (an authenticated counter is consumed once), and it is
  outside the property's clause, which speaks about altered / misdirected = inauthentic messages. -/

/-- a fresh responder exchange cannot fail `post_recv` (the error arm of `add_exch` + `post_recv` in
`Session::post_recv` is unreachable) -/
theorem Exch.postRecv_fresh_ok (id ctr : Nat) (p : ProtoHdr) :
    ∃ e', ({ id := id, responder := true } : Exch).postRecv ctr p = .ok e' := by
  unfold Exch.postRecv
  simp only
  split
  · rename_i x hx
    split at hx
    · rename_i hr; cases hr
    · cases hx
  · exact ⟨_, rfl⟩

/-- **What `post_recv` leaves behind when it refuses a message**: either the counter was already in
the receive window — `Duplicate`, the session is untouched; or the window took the counter and the
refusal came afterwards — then the session is exactly the old one with the window moved (exchanges,
keys, send counter, identifiers unchanged). -/
theorem postRecv_error_state (s : Session) (h : PacketHdr) (e : Err) (he : (s.postRecv h).1 = .error e) :
    ((s.windowStep h.plain).2 = false ∧ e = .Duplicate ∧ (s.postRecv h).2 = s) ∨
    ((s.windowStep h.plain).2 = true ∧ (s.postRecv h).2 = { s with rx := (s.windowStep h.plain).1 }) := by
  revert he
  unfold Session.postRecv
  cases hf : (s.windowStep h.plain).2 with
  | false =>
    have hw : s.windowStep h.plain = ((s.windowStep h.plain).1, false) := by rw [← hf]
    rw [hw]
    simp only [Bool.not_false, if_true]
    intro he
    injection he with he
    exact Or.inl ⟨by first | trivial | rfl, he.symm, by first | trivial | rfl⟩
  | true =>
    have hw : s.windowStep h.plain = ((s.windowStep h.plain).1, true) := by rw [← hf]
    rw [hw]
    simp only [Bool.not_true, Bool.false_eq_true, if_false]
    split
    · split
      · intro _; exact Or.inr ⟨by first | trivial | rfl, by first | trivial | rfl⟩
      · split
        · intro _; exact Or.inr ⟨by first | trivial | rfl, by first | trivial | rfl⟩
        · intro he; cases he
    · split
      · intro _; exact Or.inr ⟨by first | trivial | rfl, by first | trivial | rfl⟩
      · split
        · intro _; exact Or.inr ⟨by first | trivial | rfl, by first | trivial | rfl⟩
        · split
          · split
            · rename_i x hx
              obtain ⟨e', he'⟩ := Exch.postRecv_fresh_ok h.proto.exchId h.plain.ctr h.proto
              rw [he'] at hx; cases hx
            · intro he; cases he
          · intro _; exact Or.inr ⟨by first | trivial | rfl, by first | trivial | rfl⟩

/-- **What a refused datagram does to a session** (`decode_packet` answers an error; no-eviction
proviso as everywhere): the session at index `i` is unchanged — or the datagram was decoded *for that
session* (so, if the session is secure, it is authentic for it), the session's receive window took
the counter, `post_recv` refused it afterwards, and the session is the old one with exactly the
window moved. Nothing else of any session ever changes on a refusal. -/
theorem rejected_session_effect {E : Env} {now : Nat} {w w' : World} {from_ : Addr} {dg : Bytes} {e : Err}
    {i : Nat} {r : Session} (hb : BytesOK dg) (hrecv : receive E now w from_ dg = (.err e, w'))
    (hi : w.node[i]? = some r)
    (hroom : w.node.length < MAX_SESSIONS ∨ ∀ c h p, decodeStage E w.node from_ dg ≠ .groupNew c h p) :
    w'.node[i]? = some r ∨
    (∃ hh p, decodeStage E w.node from_ dg = .decoded i hh p ∧
      (r.isEncrypted = true → AuthenticFor E.t r dg) ∧
      (r.windowStep hh.plain).2 = true ∧
      w'.node[i]? = some { r with rx := (r.windowStep hh.plain).1 }) := by
  have hlt := (List.getElem?_eq_some_iff.mp hi).1
  have hw' : (receive E now w from_ dg).2.node = w'.node := by rw [hrecv]
  cases hd : decodeStage E w.node from_ dg with
  | decoded idx hh p =>
    unfold receive at hrecv
    simp only [touch_node, hd] at hrecv
    cases ei : w.node[idx]? with
    | none =>
      rw [ei] at hrecv
      simp only [Prod.mk.injEq] at hrecv
      left; rw [← hrecv.2, touch_node]; exact hi
    | some s =>
      rw [ei] at hrecv
      simp only at hrecv
      cases hc : ((w.touch now from_ dg).groupDataCheck s hh.plain).1 with
      | some x =>
        rw [hc] at hrecv
        simp only [Prod.mk.injEq] at hrecv
        left; rw [← hrecv.2, groupDataCheck_node, touch_node]; exact hi
      | none =>
        rw [hc] at hrecv
        simp only at hrecv
        have hn : w'.node = w.node.set idx (s.postRecv hh).2 := by
          have : w' = (((w.touch now from_ dg).groupDataCheck s hh.plain).2.deliverAt idx s hh p).2 := by rw [hrecv]
          rw [this, deliverAt_node, groupDataCheck_node, touch_node]
        by_cases hii : idx = i
        · subst hii
          rw [ei] at hi
          injection hi with hi
          subst hi
          have hpe : (s.postRecv hh).1 = .error e := by
            unfold World.deliverAt at hrecv
            simp only [Prod.mk.injEq] at hrecv
            obtain ⟨h1, _⟩ := hrecv
            split at h1
            · rename_i e' he'
              injection h1 with h1
              rw [he', h1]
            · cases h1
          rcases postRecv_error_state s hh e hpe with ⟨_, _, hst⟩ | ⟨hfresh, hst⟩
          · left; rw [hn, hst, List.getElem?_set_self hlt]
          · right
            refine ⟨hh, p, rfl, fun hr => accept_only_authentic hb hd ei hr, hfresh, ?_⟩
            rw [hn, hst, List.getElem?_set_self hlt]
        · left; rw [hn, List.getElem?_set_ne hii]; exact hi
  | rej x hh =>
    left; rw [← hw', (reject_preserves_state (now := now) hd).2.1]; exact hi
  | newPlain hh p =>
    left
    rcases receive_shape E now w from_ dg with h | ⟨idx, h, p', s, hd', _⟩ | ⟨s', hn⟩ | ⟨_, c, h, p', j, s', hst, _⟩
    · rw [← hw', h]; exact hi
    · rw [hd] at hd'; cases hd'
    · rw [← hw', hn, List.getElem?_append_left hlt]; exact hi
    · rw [hd] at hst; cases hst
  | groupNew c hh p =>
    left
    rcases receive_shape E now w from_ dg with h | ⟨idx, h, p', s, hd', _⟩ | ⟨s', hn⟩ | ⟨hfull, c', h, p', j, s', hst, _⟩
    · rw [← hw', h]; exact hi
    · rw [hd] at hd'; cases hd'
    · rw [← hw', hn, List.getElem?_append_left hlt]; exact hi
    · rcases hroom with hl | hng
      · omega
      · exact absurd hd (hng c hh p)

/-! ## Round trips for the other session modes -/

theorem adjust_isNewSession (p : ProtoHdr) (a : Addr) : (p.adjustReliability a).isNewSession = p.isNewSession := by
  unfold ProtoHdr.adjustReliability ProtoHdr.isNewSession
  split <;> rfl

/-- **Round trip, unsecured session** (the PASE / CASE handshake messages themselves): what an
unsecured session encodes — plain header, protocol header and payload in the clear — the peer's
unsecured session decodes to the identical header fields and payload (R / A lowered over TCP / BTP). -/
theorem roundtrip_unsecured (E : Env) (n : Node) (from_ : Addr) (idx : Nat) (s r : Session) (h : PacketHdr)
    (payload ct : Bytes) (hs : s.isEncrypted = false) (hr : r.isEncrypted = false)
    (hpl : h.plain.WF) (hpr : h.proto.WF)
    (hfind : findRx n from_ h.plain = some idx) (hidx : n[idx]? = some r) :
    decodeStage E n from_ (s.encode h payload ct).1
      = .decoded idx { plain := h.plain, proto := h.proto.adjustReliability r.addr } payload := by
  rw [encode_plain s h payload ct hs]
  simp only
  unfold decodeStage
  rw [PlainHdr.decode_encode _ hpl]
  simp only [take_len_append, hfind, hidx]
  unfold Session.decodeRemaining SecureMsg.decodeRemaining Session.getDecKey
  simp only [hr, Bool.false_eq_true, if_false, ProtoHdr.decode_encode _ hpr, Except.map]

/-- **Round trip, first message to a node that has no session yet**: an unsecured
PBKDFParamRequest / Sigma1 (`is_new_session`) from an unknown peer is decoded to the identical
header fields and payload and opens a new unsecured session. -/
theorem roundtrip_unsecured_new (E : Env) (n : Node) (from_ : Addr) (s : Session) (h : PacketHdr)
    (payload ct : Bytes) (hs : s.isEncrypted = false) (hpl : h.plain.WF) (hpr : h.proto.WF)
    (hfind : findRx n from_ h.plain = none) (hplain : h.plain.isEncrypted = false)
    (hnew : h.proto.isNewSession = true) :
    decodeStage E n from_ (s.encode h payload ct).1
      = .newPlain { plain := h.plain, proto := h.proto.adjustReliability from_ } payload := by
  rw [encode_plain s h payload ct hs]
  simp only
  unfold decodeStage
  rw [PlainHdr.decode_encode _ hpl]
  simp only [take_len_append, hfind, hplain, Bool.not_false, if_true]
  unfold SecureMsg.decodeRemaining
  simp only [ProtoHdr.decode_encode _ hpr, Except.map, adjust_isNewSession, hnew, if_true]

theorem findSome?_of_mem {α β : Type} {f : α → Option β} {l : List α} {a : α} {b : β}
    (ha : a ∈ l) (hf : f a = some b) : ∃ b', l.findSome? f = some b' := by
  induction l with
  | nil => cases ha
  | cons x xs ih =>
    simp only [List.findSome?_cons]
    cases hx : f x with
    | some v => exact ⟨v, rfl⟩
    | none =>
      simp only
      rcases List.mem_cons.mp ha with h | h
      · subst h; rw [hf] at hx; cases hx
      · exact ih h

/-- **Round trip, first group message** (no session yet — the key-derivation branch of
`get_or_create_for_group_rx`): what a group session of node `s.localNode` encodes under an
operational key that the receiving node holds for the addressed group (`c ∈ candidates`), with its
own node id as header source, the receiver authenticates under a candidate with that key and
decodes to the identical header fields and payload. (`CtInjective`: no other recorded encryption has
this cipher text, so no *other* key of the loop opens it first.) -/
theorem roundtrip_group_first (E : Env) (n : Node) (from_ : Addr) (s : Session) (h : PacketHdr)
    (payload ct : Bytes) (c : Cand) (hs : s.isEncrypted = true)
    (hpl : h.plain.WF) (hpr : h.proto.WF)
    (hfind : findRx n from_ h.plain = none) (hgrp : h.plain.isGroup = true)
    (hsrc : h.plain.srcNode = some s.localNode)
    (hdst : (h.plain.dstGroup.isNone && h.plain.dstUnicast.isNone) = false)
    (hlen : ct.length ≤ MAX_GROUP_SAVE)
    (hc : c ∈ candidates E h.plain) (hck : c.key = s.encKey)
    (hinj : CtInjective (mkRec s h payload ct :: E.t)) :
    ∃ c' ∈ candidates E h.plain, c'.key = s.encKey ∧
      decodeStage (Env.withRec E (mkRec s h payload ct)) n from_ (s.encode h payload ct).1
        = .groupNew c' { plain := h.plain, proto := h.proto.adjustReliability from_ } payload := by
  have henc : h.plain.isEncrypted = true := by simp [PlainHdr.isEncrypted, hgrp]
  -- the candidate `c` opens the message
  have hopen : tryGroup (mkRec s h payload ct :: E.t) from_ h.plain s.localNode h.plain.encode ct c
      = some (c, h.proto.adjustReliability from_, payload) := by
    unfold tryGroup SecureMsg.decodeRemaining
    have := Aead.dec_head (mkRec s h payload ct) E.t
    simp only [mkRec] at this
    simp only [hck, mkRec, this, ProtoHdr.decode_encode _ hpr, Except.map]
  obtain ⟨v, hv⟩ := findSome?_of_mem (f := tryGroup (mkRec s h payload ct :: E.t) from_ h.plain s.localNode h.plain.encode ct) hc hopen
  obtain ⟨c', p', pay'⟩ := v
  obtain ⟨a, ha, hta⟩ := findSome?_mem hv
  -- whichever candidate opened it first has the same key and yields the same plaintext
  have hsame : a = c' ∧ c'.key = s.encKey ∧ p' = h.proto.adjustReliability from_ ∧ pay' = payload := by
    unfold tryGroup at hta
    split at hta
    · rename_i p2 pay2 heq
      simp only [Option.some.injEq, Prod.mk.injEq] at hta
      obtain ⟨h1, h2, h3⟩ := hta
      subst h1 h2 h3
      obtain ⟨rec, hm, hk, _, _, hct, p0, hp0, hadj⟩ := decodeRemaining_key_inv heq
      have hrec : rec = mkRec s h payload ct := hinj rec hm _ (by simp) (by rw [hct]; rfl)
      rw [hrec] at hk hp0
      have hp0' : ProtoHdr.decode (h.proto.encode ++ payload) = .ok (p0, pay2) := hp0
      rw [ProtoHdr.decode_encode _ hpr] at hp0'
      simp only [Except.ok.injEq, Prod.mk.injEq] at hp0'
      refine ⟨rfl, hk.symm, ?_, hp0'.2.symm⟩
      rw [hadj, ← hp0'.1]
    · cases hta
  obtain ⟨h1, h2, h3, h4⟩ := hsame
  subst h1 h3
  rw [h4] at hv
  refine ⟨a, ha, h2, ?_⟩
  rw [encode_secure s h payload ct hs]
  simp only
  unfold decodeStage
  rw [PlainHdr.decode_encode _ hpl]
  simp only [take_len_append, hfind, henc, hgrp, Bool.not_true, Bool.false_eq_true, if_false, if_true]
  unfold groupStage
  have hl : ¬ (ct.length > MAX_GROUP_SAVE) := by omega
  simp only [hsrc, hdst, Bool.false_eq_true, if_false, hl]
  have hcand : candidates (Env.withRec E (mkRec s h payload ct)) h.plain = candidates E h.plain := rfl
  rw [hcand]
  have ht : (Env.withRec E (mkRec s h payload ct)).t = mkRec s h payload ct :: E.t := rfl
  rw [ht, hv]

/-! ## `pre_send` stamps a well-formed header: the round trip composed with the sender's stamping -/

theorem or_and_self_right (o m : Nat) : (o ||| m) &&& m = m := by
  apply Nat.eq_of_testBit_eq
  intro i
  simp only [Nat.testBit_and, Nat.testBit_or]
  cases o.testBit i <;> cases m.testBit i <;> rfl

theorem and3_and4 (o : Nat) : (o &&& (F_DSIZ_UNICAST ||| F_DSIZ_GROUP)) &&& F_SRC = 0 := by
  rw [Nat.and_assoc]
  have : (F_DSIZ_UNICAST ||| F_DSIZ_GROUP) &&& F_SRC = 0 := by decide
  rw [this, Nat.and_zero]

theorem fromBits_or {all a b : Nat} (ha : fromBits all a = true) (hb : fromBits all b = true) :
    fromBits all (a ||| b) = true := by
  unfold fromBits at *
  simp only [beq_iff_eq] at *
  rw [Nat.and_or_distrib_right, ha, hb]

/-- the plain header `pre_send` stamps, as a function of the four decisions it takes -/
def stamped (s : Session) (h : PacketHdr) : PlainHdr :=
  let isGroup := s.isGroup
  let isControl := isGroup && h.proto.isControlMsg
  let withSrc := (!s.isEncrypted || isGroup) && s.localNode != 0
  let withDst := (s.mode = .plain || isControl) && s.peerNode.isSome
  { flags := (if withSrc then F_SRC else 0) ||| (if withDst then F_DSIZ_UNICAST else 0),
    sessId := s.peerSid,
    secFlags := if isGroup then h.plain.secFlags ||| S_GROUP ||| S_CONTROL else h.plain.secFlags,
    ctr := s.txCtr,
    src := if withSrc then s.localNode else 0,
    dst := if withDst then s.peerNode.getD 0 else 0 }

theorem preSend_eq {s : Session} {h h' : PacketHdr} {s' : Session} (hp : s.preSend h = .ok (h', s')) :
    h' = { plain := stamped s h, proto := h.proto.adjustReliability s.addr } := by
  unfold Session.preSend at hp
  unfold stamped
  cases hm : s.mode <;> by_cases hl : s.localNode = 0 <;> cases hc : h.proto.isControlMsg <;> cases hn : s.peerNode <;>
    simp [Session.isEncrypted, Session.isGroup, hm, hl, hc, hn, or_and_self_right, and3_and4] at hp ⊢ <;>
    (obtain ⟨hp, _⟩ := hp; rw [← hp])

theorem stamped_srcLen (a b : Bool) :
    srcLen ((if a = true then F_SRC else 0) ||| (if b = true then F_DSIZ_UNICAST else 0)) = if a = true then 8 else 0 := by
  cases a <;> cases b <;> decide
theorem stamped_dstLen (a b : Bool) :
    dstLen ((if a = true then F_SRC else 0) ||| (if b = true then F_DSIZ_UNICAST else 0)) = if b = true then 8 else 0 := by
  cases a <;> cases b <;> decide
theorem stamped_flags (a b : Bool) :
    fromBits MSGFLAGS_ALL ((if a = true then F_SRC else 0) ||| (if b = true then F_DSIZ_UNICAST else 0)) = true := by
  cases a <;> cases b <;> decide

theorem stamped_wf (s : Session) (h : PacketHdr) (hsid : s.peerSid < 256 ^ 2) (hctr : s.txCtr < 256 ^ 4)
    (hln : s.localNode < 256 ^ 8) (hpn : s.peerNode.getD 0 < 256 ^ 8)
    (hsf : fromBits SECFLAGS_ALL h.plain.secFlags = true) : (stamped s h).WF := by
  unfold stamped
  simp only
  generalize ((!s.isEncrypted || s.isGroup) && s.localNode != 0) = ws
  generalize ((decide (s.mode = .plain) || (s.isGroup && h.proto.isControlMsg)) && s.peerNode.isSome) = wd
  refine ⟨stamped_flags ws wd, hsid, ?_, hctr, ?_, ?_⟩
  · show fromBits SECFLAGS_ALL (if s.isGroup = true then h.plain.secFlags ||| S_GROUP ||| S_CONTROL else h.plain.secFlags) = true
    split
    · exact fromBits_or (fromBits_or hsf (by decide)) (by decide)
    · exact hsf
  · show (if ws = true then s.localNode else 0) < 256 ^ srcLen _
    rw [stamped_srcLen]
    cases ws
    · exact (by decide : (0 : Nat) < 256 ^ 0)
    · exact hln
  · show (if wd = true then s.peerNode.getD 0 else 0) < 256 ^ dstLen _
    rw [stamped_dstLen]
    cases wd
    · exact (by decide : (0 : Nat) < 256 ^ 0)
    · exact hpn

/-- **`pre_send` stamps a well-formed header**: for a session whose identifiers are in the ranges of
their Rust types, what `Session::pre_send` leaves in the packet is a well-formed plain header — so
`Session.encode` writes it without truncation — with the session's peer session id and send counter,
and the protocol header with `adjust_reliability` applied. -/
theorem preSend_wf {s : Session} {h h' : PacketHdr} {s' : Session} (hp : s.preSend h = .ok (h', s'))
    (hsid : s.peerSid < 256 ^ 2) (hctr : s.txCtr < 256 ^ 4) (hln : s.localNode < 256 ^ 8)
    (hpn : s.peerNode.getD 0 < 256 ^ 8) (hsf : fromBits SECFLAGS_ALL h.plain.secFlags = true) :
    h'.plain.WF ∧ h'.proto = h.proto.adjustReliability s.addr ∧ h'.plain.sessId = s.peerSid ∧ h'.plain.ctr = s.txCtr := by
  rw [preSend_eq hp]
  exact ⟨stamped_wf s h hsid hctr hln hpn hsf, rfl, rfl, rfl⟩

theorem adjust_flags_facts : ∀ f < 32, fromBits EXCHFLAGS_ALL f = true →
    fromBits EXCHFLAGS_ALL (clearBits (clearBits f X_RELIABLE) X_ACK) = true ∧
    vendorLen (clearBits (clearBits f X_RELIABLE) X_ACK) = vendorLen f ∧
    ackLen (clearBits (clearBits f X_RELIABLE) X_ACK) = 0 := by decide

theorem adjust_wf {p : ProtoHdr} (hw : p.WF) (a : Addr) : (p.adjustReliability a).WF := by
  unfold ProtoHdr.adjustReliability
  split
  · have hlt : p.exchFlags < 32 := by
      have := fromBits_lt hw.exchFlags
      have h31 : EXCHFLAGS_ALL = 31 := by decide
      omega
    obtain ⟨h1, h2, h3⟩ := adjust_flags_facts p.exchFlags hlt hw.exchFlags
    refine ⟨h1, hw.opcode, hw.exchId, hw.protoId, ?_, ?_⟩
    · show p.vendor < 256 ^ vendorLen _
      rw [h2]; exact hw.vendor
    · show (0 : Nat) < 256 ^ ackLen _
      rw [h3]; decide
  · exact hw

theorem adjust_congr (p : ProtoHdr) {a b : Addr} (h : a.isReliable = b.isReliable) :
    p.adjustReliability a = p.adjustReliability b := by
  unfold ProtoHdr.adjustReliability
  rw [h]

/-- **Round trip, composed with `pre_send`**: what `Session::pre_send` stamps and `Session::encode`
writes for a secure session whose identifiers are in the ranges of their Rust types, the mirrored
session (same transport kind) decodes to exactly the header `pre_send` left in the packet and the
payload — every field, for every input header shape and payload. -/
theorem presend_roundtrip (E : Env) (n : Node) (from_ : Addr) (idx : Nat) (s s' r : Session) (h h' : PacketHdr)
    (payload ct : Bytes) (hp : s.preSend h = .ok (h', s'))
    (hsid : s.peerSid < 256 ^ 2) (hctr : s.txCtr < 256 ^ 4) (hln : s.localNode < 256 ^ 8)
    (hpn : s.peerNode.getD 0 < 256 ^ 8) (hsf : fromBits SECFLAGS_ALL h.plain.secFlags = true)
    (hpw : h.proto.WF)
    (hs : s.isEncrypted = true) (hr : r.isEncrypted = true)
    (hkey : r.decKey = s.encKey) (hnode : r.peerNode.getD 0 = s.localNode)
    (hrel : r.addr.isReliable = s.addr.isReliable)
    (hfind : findRx n from_ h'.plain = some idx) (hidx : n[idx]? = some r) :
    decodeStage (Env.withRec E (mkRec s h' payload ct)) n from_ (s.encode h' payload ct).1
      = .decoded idx h' payload := by
  obtain ⟨hwf, hproto, _, _⟩ := preSend_wf hp hsid hctr hln hpn hsf
  have hadj : h'.proto = h.proto.adjustReliability r.addr := by rw [hproto]; exact adjust_congr _ hrel.symm
  exact roundtrip_reliable E n from_ idx s r h' payload ct h.proto hadj hs hr hkey hnode hwf
    (by rw [hadj]; exact adjust_wf hpw _) hfind hidx

/-! ## Non-vacuity: the hypotheses of every implication above (and of the earlier per-session
theorems, now on a **non-empty** table) are satisfiable on realistic states -/
namespace Ex2
open Ex

theorem functional_singleton (x : EncRec) : Aead.Functional [x] := by
  intro a ha b hb _ _ _ _
  simp only [List.mem_singleton] at ha hb
  rw [ha, hb]

theorem ctInjective_singleton (x : EncRec) : CtInjective [x] := by
  intro a ha b hb _
  simp only [List.mem_singleton] at ha hb
  rw [ha, hb]

/-- the clean datagram of `Ex` with the last tag byte changed (202 → 203), with one header bit
flipped (counter 3 → 2, same cipher text), truncated by one byte, extended by one byte -/
def tagFlip : Bytes := h.plain.encode ++ [5, 2, 77, 0, 1, 0, 200, 201, 203]
def hdrFlip : Bytes := ({ h.plain with ctr := 2 } : PlainHdr).encode ++ ct
def cut : Bytes := h.plain.encode ++ [5, 2, 77, 0, 1, 0, 200, 201]
def ext : Bytes := h.plain.encode ++ ct ++ [0]

theorem notAuth (dg : Bytes) (hd : authenticForB t r dg = false) : ¬ AuthenticFor t r dg :=
  fun ha => by rw [(authenticForB_iff t r dg).mpr ha] at hd; cases hd

/-- `authenticForB_iff` both ways on the table of the real encryption -/
example : AuthenticFor t r (s.encode h pay ct).1 := (authenticForB_iff _ _ _).mp (by decide)
example : ¬ AuthenticFor t r tagFlip := notAuth _ (by decide)
example : ¬ AuthenticFor t r hdrFlip := notAuth _ (by decide)

/-- `inauthentic_preserves_session` on the **non-empty** table `Ex.t`: all hypotheses hold for each of
the four alterations, and the session — window, counters, exchanges, keys — is the same afterwards -/
example : (receive E 0 { node := [r], lru := [0] } a1 tagFlip).2.node[0]? = some r :=
  inauthentic_preserves_session (by decide) (by decide) (by decide) (notAuth _ (by decide)) (Or.inl (by decide))
example : (receive E 0 { node := [r], lru := [0] } a1 hdrFlip).2.node[0]? = some r :=
  inauthentic_preserves_session (by decide) (by decide) (by decide) (notAuth _ (by decide)) (Or.inl (by decide))
example : (receive E 0 { node := [r], lru := [0] } a1 cut).2.node[0]? = some r :=
  inauthentic_preserves_session (by decide) (by decide) (by decide) (notAuth _ (by decide)) (Or.inl (by decide))
example : (receive E 0 { node := [r], lru := [0] } a1 ext).2.node[0]? = some r :=
  inauthentic_preserves_session (by decide) (by decide) (by decide) (notAuth _ (by decide)) (Or.inl (by decide))

/-- `inauthentic_is_rejected`: **all three hypotheses instantiated** on the node `[r]` with the real
encryption in the table, for the datagram with the flipped tag byte -/
example : ∃ e hh, decodeStage E [r] a1 tagFlip = .rej e hh := by
  refine inauthentic_is_rejected (by decide) ?_ ?_ ?_
  · intro h' rest hd
    have h0 : PlainHdr.decode tagFlip = .ok (h.plain, [5, 2, 77, 0, 1, 0, 200, 201, 203]) := by decide
    rw [h0] at hd
    injection hd with hd
    injection hd with hd _
    rw [← hd]; decide
  · intro r' hr' _
    simp only [List.mem_singleton] at hr'
    rw [hr']
    exact notAuth _ (by decide)
  · rintro key h' src ⟨_, _, _, rec, hm, _, _, hdg, _⟩
    have hm' : rec ∈ [mkRec s h pay ct] := hm
    simp only [List.mem_singleton] at hm'
    rw [hm'] at hdg
    revert hdg
    decide

/-- `authentic_is_decoded` / `authentic_is_handed_on` / `decoded_iff_authentic`: the converse on the
mirrored pair of `Ex` -/
example : decodeStage E [r] a1 ((mkRec s h pay ct).aad ++ (mkRec s h pay ct).ct) = .decoded 0 h pay :=
  authentic_is_decoded (E := E) (r := r) (functional_singleton _) (by simp [E, t]) hplain rfl rfl rfl (by decide) (by decide)
    (by decide) (by decide)
example : (receive E 0 { node := [r], lru := [0] } a1 ((mkRec s h pay ct).aad ++ (mkRec s h pay ct).ct)).1
    = .ok 0 true h pay :=
  authentic_is_handed_on (E := E) (r := r) (functional_singleton _) (by simp [E, t]) hplain rfl rfl rfl (by decide) (by decide)
    (by decide) (by decide) (by decide) (by decide)

/-- `altered_is_rejected` / `altered_keeps_secure_sessions`: hypotheses instantiated for the four
alterations (none of them is another recorded encryption) -/
theorem onlyRec (dg : Bytes) : ∀ rec ∈ E.t, dg = rec.aad ++ rec.ct → rec = mkRec s h pay ct := by
  intro rec hm _
  have hm' : rec ∈ [mkRec s h pay ct] := hm
  simpa using hm'
example : ∀ idx hh p r', decodeStage E [r, u] a1 tagFlip = .decoded idx hh p → [r, u][idx]? = some r' →
    r'.isEncrypted = false ∧ hh.plain.isEncrypted = false :=
  (altered_is_rejected (s := s) (h := h) (payload := pay) (ct := ct) (by decide) (by decide) (by decide)
    (onlyRec _)).1
example : r ∈ (handleRx E 0 0 { node := [r, u], lru := [0, 0] } a1 hdrFlip).2.node :=
  altered_keeps_secure_sessions (s := s) (h := h) (payload := pay) (ct := ct) (by decide) (by decide) (by decide)
    (onlyRec _) (by decide) (by decide) (Or.inl (by decide))
/-- the unsecured-session escape is real: the header forged to "unencrypted" (`Ex.h0`) in front of the
same cipher text is taken by the unsecured session `u` — and by no secure one -/
example : (receive E 0 { node := [r, u], lru := [0, 0] } a1 (h0.encode ++ ct)).1 =
    .ok 1 true { plain := h0, proto := { exchFlags := 5, opcode := 2, exchId := 77, protoId := 1 } } [200, 201, 202] := by decide

/-- `opposite_direction_rejected`: hypotheses instantiated — `r`'s own datagram, reflected to `r` -/
example : ∀ hh p, decodeStage { t := [mkRec r h pay ct] } [r] a1 (r.encode h pay ct).1 ≠ .decoded 0 hh p :=
  fun hh p => opposite_direction_rejected (E := { t := [mkRec r h pay ct] }) (by decide) (by decide) (by simp)
    (ctInjective_singleton _) hplain (by decide) (by decide) hh p
/-- … and the hypothesis `decKey ≠ encKey` is necessary: a session with one key for both directions
(and no peer node id, like a PASE session) decodes its own reflected datagram -/
def rr : Session := { addr := a1, localNode := 0, peerNode := none, decKey := 2, encKey := 2, localSid := 20, peerSid := 20, mode := .pase }
theorem reflected_accepted_with_equal_keys :
    decodeStage { t := [mkRec rr h pay ct] } [rr] a1 (rr.encode h pay ct).1 = .decoded 0 h pay := by decide
/-- `other_session_key_rejected` / `other_source_node_rejected`: another session of the table (other
key), the right key but another expected peer node -/
example : ∀ hh p, decodeStage E [{ r with decKey := 6 }] a1 (s.encode h pay ct).1 ≠ .decoded 0 hh p :=
  fun hh p => other_session_key_rejected (E := E) (r := { r with decKey := 6 }) (by decide) (by simp [E, t]) (ctInjective_singleton _) hplain (by decide)
    (by decide) (by decide) (by decide) hh p
example : ∀ hh p, decodeStage E [{ r with peerNode := some 6 }] a1 (s.encode h pay ct).1 ≠ .decoded 0 hh p :=
  fun hh p => other_source_node_rejected (E := E) (r := { r with peerNode := some 6 }) (by decide) (by simp [E, t]) (ctInjective_singleton _) hplain (by decide)
    (by decide) (by decide) (by decide) (by decide) (by decide) hh p

/-- `group_message_attributed_to_sender`: hypotheses instantiated by the accepted group message of `Ex` -/
example : ({ fabIdx := 1, nodeId := 200, gid := 7, key := opKey 9 5 } : Cand).key = (gs (opKey 9 5) 50).encKey ∧
    gh.plain = gh.plain ∧ gh.plain.srcNode = some (gs (opKey 9 5) 50).localNode :=
  group_message_attributed_to_sender (E := gE (opKey 9 5) 50) (n := []) (from_ := a1) (payload := pay) (ct := ct)
    (p := pay) (by decide) (by simp [gE])
    (ctInjective_singleton _) ⟨by decide, by decide, by decide, by decide, by decide, by decide⟩ (by decide) (by decide)
    (by decide)

/-- `postRecv_error_state`, second alternative: an authentic message that finds no exchange (not an
initiator's message) is refused with `NoExchange` **after** the window took its counter -/
def hNoInit : PacketHdr := { h with proto := { h.proto with exchFlags := 4 } }
example : (r.postRecv hNoInit).1 = .error .NoExchange ∧ (r.postRecv hNoInit).2.rx ≠ r.rx ∧
    (r.postRecv hNoInit).2 = { r with rx := (r.windowStep hNoInit.plain).1 } := by decide
/-- … and at `decode_packet`: `rejected_session_effect`, second alternative, is inhabited -/
example : (receive { t := [mkRec s hNoInit pay ct] } 0 { node := [r], lru := [0] } a1 (s.encode hNoInit pay ct).1).1
      = .err .NoExchange ∧
    (receive { t := [mkRec s hNoInit pay ct] } 0 { node := [r], lru := [0] } a1 (s.encode hNoInit pay ct).1).2.node
      = [{ r with rx := (r.windowStep hNoInit.plain).1 }] := by decide

/-- `roundtrip_unsecured`, `roundtrip_unsecured_new` -/
def us : Session := { addr := a9, localNode := 0 }
def hu : PacketHdr := { plain := { flags := 4, sessId := 0, ctr := 9, src := 77 }, proto := { exchFlags := 5, opcode := Consts.opPbkdfParamRequest, exchId := 3, protoId := Consts.protoIdSecureChannel } }
theorem huPlain : hu.plain.WF := ⟨by decide, by decide, by decide, by decide, by decide, by decide⟩
theorem huProto : hu.proto.WF := ⟨by decide, by decide, by decide, by decide, by decide, by decide⟩
example : decodeStage {} [r, u] a1 (us.encode hu pay []).1 = .decoded 1 hu pay :=
  roundtrip_unsecured {} [r, u] a1 1 us u hu pay [] (by decide) (by decide) huPlain huProto (by decide) (by decide)
example : decodeStage {} [r] a1 (us.encode hu pay []).1 = .newPlain hu pay :=
  roundtrip_unsecured_new {} [r] a1 us hu pay [] (by decide) huPlain huProto (by decide) (by decide) (by decide)

/-- `roundtrip_group_first`: the first group message of `Ex` -/
example : ∃ c' ∈ candidates { fabs := [f1, f2], gsid := fun _ => 33 } gh.plain, c'.key = (gs (opKey 9 5) 50).encKey ∧
    decodeStage (Env.withRec { fabs := [f1, f2], gsid := fun _ => 33 } (mkRec (gs (opKey 9 5) 50) gh pay ct)) [] a1
      ((gs (opKey 9 5) 50).encode gh pay ct).1 = .groupNew c' { plain := gh.plain, proto := gh.proto.adjustReliability a1 } pay :=
  roundtrip_group_first { fabs := [f1, f2], gsid := fun _ => 33 } [] a1 (gs (opKey 9 5) 50) gh pay ct
    { fabIdx := 1, nodeId := 200, gid := 7, key := opKey 9 5 } (by decide)
    ⟨by decide, by decide, by decide, by decide, by decide, by decide⟩
    ⟨by decide, by decide, by decide, by decide, by decide, by decide⟩ (by decide) (by decide) (by decide) (by decide)
    (by decide) (by decide) rfl (ctInjective_singleton _)
/-! ### `C03_rx_full_holds` in its non-trivial arms, and the proviso is necessary -/
/-- session `sA` (the `r` of `Ex` with an open exchange) receives an authentic `CloseSession`: it is
removed by `swap_remove` (the last session takes its slot) — the other secure sessions, for which the
datagram is not authentic, are still there, unchanged (`C03_rx_full_holds`, all hypotheses instantiated) -/
def sA : Session := { r with exchs := [{ id := 77, responder := true }] }
def sB : Session := { addr := a1, localNode := 7, peerNode := some 9, decKey := 12, encKey := 14, localSid := 21, peerSid := 11, mode := .pase }
def sC : Session := { addr := a9, localNode := 7, peerNode := some 3, decKey := 22, encKey := 24, localSid := 22, peerSid := 12, mode := .case }
def hClose : PacketHdr := { plain := { sessId := 20, ctr := 3 }, proto := { exchFlags := 1, opcode := Consts.opStatusReport, exchId := 77, protoId := Consts.protoIdSecureChannel } }
def payClose : Bytes := statusReport GC_SUCCESS SC_CLOSE_SESSION []
def EClose : Env := { t := [mkRec s hClose payClose ct] }
def wABC : World := { node := [sA, sB, sC], lru := [0, 0, 0] }
example : (handleRx EClose 5 0 wABC a1 (s.encode hClose payClose ct).1).2.node = [sC, sB] := by decide
example : sB ∈ (handleRx EClose 5 0 wABC a1 (s.encode hClose payClose ct).1).2.node :=
  C03_rx_full_holds EClose 5 0 wABC a1 _ sB (by decide) (by decide) (by decide)
    (fun ha => by
      have hb : authenticForB EClose.t sB (s.encode hClose payClose ct).1 = false := by decide
      rw [(authenticForB_iff _ _ _).mpr ha] at hb; cases hb)
    (Or.inl (by decide))

/-- **the proviso of `C03_rx_full` is necessary**: on a full table (16 idle CASE sessions) one
unauthenticated, unsecured PBKDFParamRequest makes `handle_rx_packet` answer `Busy` and evict the
least recently used session — a secure session is gone although the datagram is authentic for nothing -/
def mk16 (i : Nat) : Session := { addr := .udp (.v6 1) (2000 + i), localNode := 7, peerNode := some 5, decKey := 2 * i, encKey := 2 * i + 100, localSid := 20 + i, peerSid := 10, mode := .case }
def w16 : World := { node := (List.range 16).map mk16, lru := (List.range 16).map (fun i => i + 1) }
def dgReq : Bytes := hu.plain.encode ++ hu.proto.encode ++ [1, 2, 3]
example : mk16 0 ∈ w16.node ∧ mk16 0 ∉ (handleRx {} 100 55 w16 (.udp (.v6 9) 9) dgReq).2.node ∧
    (handleRx {} 100 55 w16 (.udp (.v6 9) 9) dgReq).2.node.length = 15 := by decide
/-- `presend_roundtrip`: the pair of `Ex`, the header as `pre_send` really stamps it (peer session id 20,
the session's send counter, no source / destination node id on a CASE session) -/
example : ∀ h' s', s.preSend h = .ok (h', s') →
    decodeStage (Env.withRec {} (mkRec s h' pay ct)) [r] a1 (s.encode h' pay ct).1 = .decoded 0 h' pay := by
  intro h' s' hp
  have e : s.preSend h = .ok ({ plain := { sessId := 20, ctr := 0 }, proto := h.proto }, { s with txCtr := 1 }) := by decide
  have hh : h' = { plain := { sessId := 20, ctr := 0 }, proto := h.proto } := by
    rw [e] at hp; injection hp with hp; injection hp with h1 _; exact h1.symm
  subst hh
  exact presend_roundtrip {} [r] a1 0 s s' r h _ pay ct hp (by decide) (by decide) (by decide) (by decide) (by decide)
    hproto (by decide) (by decide) (by decide) (by decide) (by decide) (by decide) (by decide)
end Ex2

end C03
