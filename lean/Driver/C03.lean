import Driver.Util
/-! Driver for C03: not built yet. -/
namespace Driver.C03

def run : IO UInt32 := do
  IO.eprintln "C03: driver not built yet"
  return 2

end Driver.C03
