import RsMatterVerif.Model.Pase
/-!
# C02 — PASE admits only a peer that knows the passcode, only while a window is open

Theorems over `Model/Pase` (symbolic SPAKE2+: the expected confirmation value is the free term
`Conf pw ctx pA pB`).
-/
namespace C02
open Pase

/-- close goals of the form `(nested if/match …).field = …` by splitting every branch -/
macro "splits" : tactic => `(tactic| repeat (first | rfl | split))

@[simp] theorem checkWindowTimeout_sessions (s : St) : (checkWindowTimeout s).sessions = s.sessions := by
  unfold checkWindowTimeout; splits
@[simp] theorem recordFailure_sessions (s : St) : (recordFailure s).sessions = s.sessions := by
  unfold recordFailure; simp only; splits
@[simp] theorem removeTask_sessions (s : St) (x : Nat) : (removeTask s x).sessions = s.sessions := rfl
@[simp] theorem setTask_sessions (s : St) (t : Task) : (setTask s t).sessions = s.sessions := rfl
@[simp] theorem failTask_sessions (s : St) (x : Nat) : (failTask s x).sessions = s.sessions := by
  simp [failTask]
@[simp] theorem updateSessionTimeout_sessions (s : St) (x : Nat) (n : Bool) :
    (updateSessionTimeout s x n).1.sessions = s.sessions := by
  unfold updateSessionTimeout
  simp only
  splits

@[simp] theorem checkWindowTimeout_tasks (s : St) : (checkWindowTimeout s).tasks = s.tasks := by
  unfold checkWindowTimeout; splits
@[simp] theorem recordFailure_tasks (s : St) : (recordFailure s).tasks = s.tasks := by
  unfold recordFailure; simp only; splits
@[simp] theorem updateSessionTimeout_tasks (s : St) (x : Nat) (n : Bool) :
    (updateSessionTimeout s x n).1.tasks = s.tasks := by
  unfold updateSessionTimeout; simp only; splits
theorem mem_removeTask {s : St} {x : Nat} {t : Task} (h : t ∈ (removeTask s x).tasks) : t ∈ s.tasks := by
  simp only [removeTask, List.mem_filter] at h; exact h.1
theorem mem_failTask {s : St} {x : Nat} {t : Task} (h : t ∈ (failTask s x).tasks) : t ∈ s.tasks := by
  simp only [failTask, recordFailure_tasks] at h; exact mem_removeTask h
theorem mem_setTask {s : St} {n t : Task} (h : t ∈ (setTask s n).tasks) : t = n ∨ t ∈ s.tasks := by
  simp only [setTask, List.mem_cons, List.mem_filter] at h
  rcases h with h | h
  · exact .inl h
  · exact .inr h.1

@[simp] theorem updateSessionTimeout_window (s : St) (x : Nat) (n : Bool) :
    (updateSessionTimeout s x n).1.window = s.window := by
  unfold updateSessionTimeout; simp only; splits

@[simp] theorem checkWindowTimeout_fresh (s : St) : (checkWindowTimeout s).fresh = s.fresh := by
  unfold checkWindowTimeout; splits
@[simp] theorem checkWindowTimeout_now (s : St) : (checkWindowTimeout s).now = s.now := by
  unfold checkWindowTimeout; splits
@[simp] theorem updateSessionTimeout_now (s : St) (x : Nat) (n : Bool) :
    (updateSessionTimeout s x n).1.now = s.now := by
  unfold updateSessionTimeout; simp only; splits

theorem checkWindowTimeout_open {s : St} {w : Window} (h : (checkWindowTimeout s).window = some w) :
    s.window = some w ∧ s.now ≤ w.expiry := by
  unfold checkWindowTimeout at h
  split at h
  · rename_i w' hw
    split at h
    · simp at h
    · rw [hw] at h; injection h with h; subst h; exact ⟨hw, by omega⟩
  · rename_i hw; rw [hw] at h; cases h

@[simp] theorem removeTask_window (s : St) (x : Nat) : (removeTask s x).window = s.window := rfl
@[simp] theorem setTask_window (s : St) (t : Task) : (setTask s t).window = s.window := rfl

/-! ### the session table does not touch what the property speaks about -/
@[simp] theorem removeSlot_sessions (s : St) (i : Slot) : (removeSlot s i).sessions = s.sessions := rfl
@[simp] theorem removeSlot_window (s : St) (i : Slot) : (removeSlot s i).window = s.window := rfl
@[simp] theorem removeSlot_tasks (s : St) (i : Slot) : (removeSlot s i).tasks = s.tasks := rfl
@[simp] theorem removeSlot_now (s : St) (i : Slot) : (removeSlot s i).now = s.now := rfl
@[simp] theorem removeSlot_marker (s : St) (i : Slot) : (removeSlot s i).marker = s.marker := rfl
@[simp] theorem removeSlot_fresh (s : St) (i : Slot) : (removeSlot s i).fresh = s.fresh := rfl

@[simp] theorem evictOne_sessions (s : St) (v : Option VClass) : (evictOne s v).sessions = s.sessions := by
  unfold evictOne; split <;> rfl
@[simp] theorem evictOne_window (s : St) (v : Option VClass) : (evictOne s v).window = s.window := by
  unfold evictOne; split <;> rfl
@[simp] theorem evictOne_tasks (s : St) (v : Option VClass) : (evictOne s v).tasks = s.tasks := by
  unfold evictOne; split <;> rfl
@[simp] theorem evictOne_now (s : St) (v : Option VClass) : (evictOne s v).now = s.now := by
  unfold evictOne; split <;> rfl
@[simp] theorem evictOne_marker (s : St) (v : Option VClass) : (evictOne s v).marker = s.marker := by
  unfold evictOne; split <;> rfl

@[simp] theorem recordFailure_fresh (s : St) : (recordFailure s).fresh = s.fresh := by
  unfold recordFailure; simp only; splits
@[simp] theorem removeTask_fresh (s : St) (x : Nat) : (removeTask s x).fresh = s.fresh := rfl
@[simp] theorem setTask_fresh (s : St) (t : Task) : (setTask s t).fresh = s.fresh := rfl
@[simp] theorem failTask_fresh (s : St) (x : Nat) : (failTask s x).fresh = s.fresh := by simp [failTask]
@[simp] theorem updateSessionTimeout_fresh (s : St) (x : Nat) (n : Bool) :
    (updateSessionTimeout s x n).1.fresh = s.fresh := by
  unfold updateSessionTimeout; simp only; splits
@[simp] theorem evictOne_fresh (s : St) (v : Option VClass) : (evictOne s v).fresh = s.fresh := by
  unfold evictOne; split <;> rfl

/-- everything but the table -/
def SameCore (a b : St) : Prop :=
  a.sessions = b.sessions ∧ a.window = b.window ∧ a.tasks = b.tasks ∧ a.now = b.now ∧ a.marker = b.marker ∧
    a.fresh = b.fresh

theorem addSlot_core {s s' : St} {sl : Slot} (h : addSlot s sl = some s') : SameCore s' s := by
  unfold addSlot at h
  split at h
  · injection h with h; subst h; exact ⟨rfl, rfl, rfl, rfl, rfl, rfl⟩
  · cases h

theorem reserve_core {s s' : St} {x : Nat} {v : Option VClass} (h : reserve s x v = some s') : SameCore s' s := by
  unfold reserve at h
  split at h
  · rename_i s1 h1; injection h with h; subst h; exact addSlot_core h1
  · split at h
    · obtain ⟨a, b, c, d, e, f⟩ := addSlot_core h
      exact ⟨a, b, c, d, e, f⟩
    · cases h

/-- the failure counter of an open window stays below the revocation threshold -/
def WinInv (o : Option Window) : Prop := ∀ w, o = some w → w.failures < maxFailures

theorem winInv_none : WinInv none := fun _ h => by cases h

theorem winInv_check {s : St} (h : WinInv s.window) : WinInv (checkWindowTimeout s).window := by
  unfold checkWindowTimeout
  split
  · split
    · exact winInv_none
    · exact h
  · exact h

theorem recordFailure_window (s : St) :
    (recordFailure s).window =
      match s.window with
      | some w => if w.failures + 1 ≥ maxFailures then none else some { w with failures := w.failures + 1 }
      | none => none := by
  unfold recordFailure
  simp only
  split
  · rename_i w hw
    split
    · simp_all
    · simp_all
  · rename_i hw; simp_all

theorem winInv_record {s : St} : WinInv (recordFailure s).window := by
  rw [recordFailure_window]
  split
  · split
    · exact winInv_none
    · intro w hw; injection hw with hw; subst hw; simp only; omega
  · exact winInv_none

theorem winInv_fail {s : St} {x : Nat} : WinInv (failTask s x).window := winInv_record


/-! ### the responder's first step on a fresh exchange -/
theorem pbkdfNew_sessions (s : St) (x : Nat) (r : Req) (v : Option VClass) :
    (pbkdfNew s x r v).1.sessions = s.sessions := by
  unfold pbkdfNew
  split
  · simp
  · rename_i s1 h1
    have hc := (reserve_core h1).1
    simp only
    repeat' split
    all_goals simp [hc]

theorem mem_pbkdfNew {s : St} {x : Nat} {r : Req} {v : Option VClass} {t : Task}
    (h : t ∈ (pbkdfNew s x r v).1.tasks) : t ∈ s.tasks ∨ ∃ ctx, t.stage = .waitPake1 ctx := by
  unfold pbkdfNew at h
  split at h
  · left; simpa using h
  · rename_i s1 h1
    have hc := (reserve_core h1).2.2.1
    simp only at h
    split at h
    · left; simpa [hc] using h
    · split at h
      · left; simpa [hc] using h
      · split at h
        · rcases mem_setTask h with h | h
          · right; exact ⟨_, by rw [h]⟩
          · left; simpa [hc] using h
        · left; simpa [hc] using h

theorem pbkdfNew_winInv {s : St} (x : Nat) (r : Req) (v : Option VClass) (h : WinInv s.window) :
    WinInv (pbkdfNew s x r v).1.window := by
  unfold pbkdfNew
  split
  · exact h
  · rename_i s1 h1
    have hc := (reserve_core h1).2.1
    have h1w : WinInv s1.window := by rw [hc]; exact h
    simp only
    split
    · simp only [updateSessionTimeout_window]; exact h1w
    · split
      · rename_i hw; intro w hw2; simp only at hw2; rw [hw] at hw2; cases hw2
      · split
        · simp only [setTask_window]; apply winInv_check; simp only [updateSessionTimeout_window]; exact h1w
        · exact winInv_record

/-- the only way a session comes into existence: a Pake3 on a live handshake that holds the
in-progress marker, carrying exactly the confirmation value that handshake expects, while the
window whose verifier answered its Pake1 is still present and unexpired -/
theorem session_implies_proof (s : St) (op : Op) :
    (step s op).1.sessions = s.sessions ∨
    ∃ x exp wid t w, op = .pake3 x (.mac exp) ∧ findTask s x = some t ∧ t.stage = .waitPake3 exp wid ∧
      (updateSessionTimeout s x false).2 = none ∧
      s.window = some w ∧ w.id = wid ∧ s.now ≤ w.expiry ∧
      (step s op).1.sessions = s.sessions ++
        [{ exch := x, conf := exp, windowOpenAtCreation := true, sameWindowAtCreation := true }] := by
  cases op with
  | openWin pw secs => left; simp only [step, openWinCore]; splits
  | openEnh pw secs sl it d => left; simp only [step, openEnhCore]; splits
  | cmdOpenEnh pw secs sl it d vl => left; simp only [step, openEnhCore]; repeat' (first | (simp; done) | split)
  | cmdOpenBasic pw secs => left; simp only [step, openWinCore]; repeat' (first | (simp; done) | split)
  | revoke => left; rfl
  | tick ms => left; rfl
  | poll => left; simp [step]
  | pbkdf x r v =>
    left; simp only [step]
    split
    · repeat' (first | (simp; done) | split)
    · split
      · simp
      · rename_i s1 h1
        rw [pbkdfNew_sessions]; exact (addSlot_core h1).1
  | rxTimeout x => left; simp only [step]; repeat' (first | (simp; done) | split)
  | fill n p => left; rfl
  | unfill => left; rfl
  | pake1 x p => left; simp only [step]; repeat' (first | (simp; done) | split)
  | pake3 x c =>
    simp only [step]
    split
    · left; rfl
    · rename_i t ht
      split
      · left; simp
      · rename_i hnone
        split
        · left; simp
        · rename_i exp wid hstage
          by_cases hm : c = .malformed
          · left; simp [hm]
          · simp only [hm, if_false]
            cases hw : (checkWindowTimeout (updateSessionTimeout s x false).fst).window with
            | none => left; simp
            | some w =>
              simp only
              by_cases hid : w.id = wid
              · by_cases hc : c = .mac exp
                · right
                  obtain ⟨hw1, hw2⟩ := checkWindowTimeout_open hw
                  simp only [updateSessionTimeout_window, updateSessionTimeout_now] at hw1 hw2
                  have hopen : windowOpenNow (checkWindowTimeout (updateSessionTimeout s x false).fst) = true := by
                    simp [windowOpenNow, hw, hw2]
                  refine ⟨x, exp, wid, t, w, by rw [hc], ht, hstage, hnone, hw1, hid, hw2, ?_⟩
                  simp [hopen, hid, hc]
                · left; simp [hid, hc]
              · left; simp [hid]
  | other x => left; simp only [step]; repeat' (first | (simp; done) | split)
  | dead x => left; simp only [step]; repeat' (first | (simp; done) | split)

/-- **Full statement, first sentence of the property**: a session that a step adds was created while
a commissioning window was present and unexpired, and that window is the one the proof is for. -/
theorem session_only_in_open_window (s : St) (op : Op) (sess : Sess)
    (hnew : sess ∈ (step s op).1.sessions) (hold : sess ∉ s.sessions) :
    sess.windowOpenAtCreation = true ∧ sess.sameWindowAtCreation = true ∧
      ∃ w, s.window = some w ∧ s.now ≤ w.expiry := by
  rcases session_implies_proof s op with h | ⟨x, exp, wid, t, w, _, _, _, _, hw, _, hexp, h⟩
  · rw [h] at hnew; exact absurd hnew hold
  · rw [h] at hnew
    rcases List.mem_append.mp hnew with h' | h'
    · exact absurd h' hold
    · simp only [List.mem_singleton] at h'
      subst h'
      exact ⟨rfl, rfl, w, hw, hexp⟩

/-- wrong passcode, another transcript, another share, or bytes that are no confirmation value at
all: no session. In the symbolic model this is the responder's equality test `c = mac exp` read
contrapositively; `wrong_passcode_never`, `replayed_never`, `mutated_never` are its instances and
*assume* that the received value differs from the expected one in the named component. That a value
taken from **another handshake** does differ - without assuming it - is
`C02Hist.replay_across_handshakes_refused`, `replay_of_completed_handshake_refused`,
`replay_from_earlier_handshake_refused` (freshness of the responder share). -/
theorem wrong_proof_never (s : St) (x : Nat) (c : CA)
    (h : ∀ t exp wid, findTask s x = some t → t.stage = .waitPake3 exp wid → c ≠ .mac exp) :
    (step s (.pake3 x c)).1.sessions = s.sessions := by
  rcases session_implies_proof s (.pake3 x c) with h1 | ⟨x', exp, wid, t, w, hop, ht, hst, _⟩
  · exact h1
  · injection hop with hx hc
    subst hx hc
    exact absurd rfl (h t exp wid ht hst)

theorem wrong_passcode_never (s : St) (x : Nat) (c : Conf)
    (h : ∀ t exp wid, findTask s x = some t → t.stage = .waitPake3 exp wid → c.pw ≠ exp.pw) :
    (step s (.pake3 x (.mac c))).1.sessions = s.sessions :=
  wrong_proof_never s x _ (fun t exp wid ht hs hc => h t exp wid ht hs (by injection hc with hc; rw [hc]))

/-- a confirmation value of another transcript (a replay from another handshake) is refused -/
theorem replayed_never (s : St) (x : Nat) (c : Conf)
    (h : ∀ t exp wid, findTask s x = some t → t.stage = .waitPake3 exp wid → c.ctx ≠ exp.ctx ∨ c.pB ≠ exp.pB) :
    (step s (.pake3 x (.mac c))).1.sessions = s.sessions :=
  wrong_proof_never s x _ (fun t exp wid ht hs hc => by
    injection hc with hc
    rcases h t exp wid ht hs with h' | h' <;> exact h' (by rw [hc]))

theorem mutated_never (s : St) (x n : Nat) : (step s (.pake3 x (.junk n))).1.sessions = s.sessions :=
  wrong_proof_never s x _ (fun _ _ _ _ _ hc => by cases hc)

/-- only Pake3 creates sessions; in particular a failure (any other outcome) leaves none behind -/
theorem failure_leaves_no_session (s : St) (op : Op) (h : (step s op).2 ≠ .statusSuccess) :
    (step s op).1.sessions = s.sessions := by
  rcases session_implies_proof s op with h1 | ⟨x, exp, wid, t, w, hop, ht, hst, hnone, hw, hid, hexp, _⟩
  · exact h1
  · exfalso
    apply h
    subst hop
    have hcw : (checkWindowTimeout (updateSessionTimeout s x false).fst).window = some w := by
      unfold checkWindowTimeout
      simp only [updateSessionTimeout_window, updateSessionTimeout_now, hw]
      split
      · omega
      · simp [hw]
    simp only [step, ht, hnone, hst, hcw, hid]
    simp
/-- what a Pake1 with a valid prover share does on a live handshake that holds the marker while a
window is open: the responder draws a fresh share `pB` and from now on expects exactly
`Conf (window's passcode class) (its transcript) (the received share) pB` -/
theorem pake1_valid_step (s : St) (x a ctx : Nat) (t0 : Task) (w : Window)
    (ht0 : findTask s x = some t0) (hnone : (updateSessionTimeout s x false).2 = none)
    (hctx : t0.stage = .waitPake1 ctx)
    (hw : (checkWindowTimeout (updateSessionTimeout s x false).1).window = some w) :
    (step s (.pake1 x (.valid a))).2 = .pake2 s.fresh ∧ (step s (.pake1 x (.valid a))).1.fresh = s.fresh + 1 := by
  simp only [step, ht0, hnone, hctx, hw]
  simp

/-- **A handshake gets as far as expecting Pake3 only through a Pake1 carrying a valid prover share,
received while a window is present and unexpired; the value it will then accept is bound to that
window's passcode class (`exp.pw`), the handshake's own transcript (`exp.ctx`), the received share
(`exp.pA`) and a responder share that is drawn at that very step and has never been used before
(`exp.pB = s.fresh`, after the step `fresh = s.fresh + 1`).** -/
theorem waitPake3_only_by_valid_pake1 (s : St) (op : Op) (t : Task) (exp : Conf) (wid : Nat)
    (ht : t ∈ (step s op).1.tasks) (hst : t.stage = .waitPake3 exp wid) :
    t ∈ s.tasks ∨
    ∃ a ctx w t0, op = .pake1 t.exch (.valid a) ∧ findTask s t.exch = some t0 ∧ t0.stage = .waitPake1 ctx ∧
      s.window = some w ∧ s.now ≤ w.expiry ∧ exp.pw = w.pw ∧ exp.ctx = ctx ∧ exp.pA = a ∧ wid = w.id ∧
      exp.pB = s.fresh ∧ (step s op).1.fresh = s.fresh + 1 := by
  cases op with
  | openWin pw secs =>
    left; simp only [step, openWinCore] at ht
    split at ht
    · exact ht
    · split at ht <;> exact ht
  | cmdOpenEnh pw secs sl it d vl =>
    left; simp only [step, openEnhCore] at ht
    repeat' split at ht
    all_goals first
      | exact ht
      | (simpa using ht)
  | cmdOpenBasic pw secs =>
    left; simp only [step, openWinCore] at ht
    repeat' split at ht
    all_goals first
      | exact ht
      | (simpa using ht)
  | revoke => left; exact ht
  | tick ms => left; exact ht
  | poll => left; simpa [step] using ht
  | openEnh pw secs sl it d =>
    left; simp only [step, openEnhCore] at ht
    repeat' split at ht
    all_goals exact ht
  | pbkdf x r v =>
    left
    simp only [step] at ht
    split at ht
    · split at ht
      · simpa using mem_removeTask ht
      · simpa using mem_failTask ht
    · split at ht
      · simpa using ht
      · rename_i s1 h1
        rcases mem_pbkdfNew ht with h | ⟨ctx, h⟩
        · rw [(addSlot_core h1).2.2.1] at h; exact h
        · rw [h] at hst; cases hst
  | rxTimeout x =>
    left
    simp only [step] at ht
    split at ht
    · exact ht
    · split at ht
      · simpa using mem_failTask ht
      · exact ht
  | fill n p => left; exact ht
  | unfill => left; exact ht
  | pake1 x p =>
    simp only [step] at ht
    split at ht
    · left; exact ht
    · rename_i t0 ht0
      split at ht
      · left; simpa using mem_removeTask ht
      · rename_i hnone
        split at ht
        · left; simpa using mem_failTask ht
        · rename_i ctx hctx
          split at ht
          · left; simpa using mem_failTask ht
          · split at ht
            · left; simpa using mem_removeTask ht
            · rename_i w hw
              split at ht
              · rename_i a _
                rcases mem_setTask ht with h | h
                · right
                  subst h
                  simp only at hst
                  injection hst with hst hwid
                  obtain ⟨hw1, hw2⟩ := checkWindowTimeout_open hw
                  refine ⟨a, ctx, w, t0, rfl, ht0, hctx, ?_, ?_, ?_, ?_, ?_, hwid.symm, ?_,
                    (pake1_valid_step s x a ctx t0 w ht0 hnone hctx hw).2⟩
                  · simpa using hw1
                  · simpa using hw2
                  · rw [← hst]
                  · rw [← hst]
                  · rw [← hst]
                  · rw [← hst]; simp
                · left; simpa using h
              · left; simpa using mem_failTask ht
  | pake3 x c =>
    left
    simp only [step] at ht
    repeat' split at ht
    all_goals first
      | exact ht
      | (simpa using mem_removeTask ht)
      | (simpa using mem_failTask ht)
  | other x =>
    left
    simp only [step] at ht
    split at ht
    · exact ht
    · split at ht
      · simpa using mem_removeTask ht
      · simpa using mem_failTask ht
  | dead x =>
    left
    simp only [step] at ht
    split at ht
    · split at ht
      · simpa using ht
      · exact ht
    · simpa using mem_failTask ht
theorem step_winInv (s : St) (op : Op) (h : WinInv s.window) : WinInv (step s op).1.window := by
  have h0 : (0 : Nat) < maxFailures := by decide
  cases op with
  | openWin pw secs =>
    simp only [step, openWinCore]
    split
    · exact h
    · split
      · exact h
      · intro w hw; simp only at hw; injection hw with hw; subst hw; exact h0
  | openEnh pw secs sl it d =>
    simp only [step, openEnhCore]
    split
    · exact h
    · split
      · exact h
      · split
        · exact h
        · intro w hw; simp only at hw; injection hw with hw; subst hw; exact h0
  | cmdOpenEnh pw secs sl it d vl =>
    simp only [step, openEnhCore]
    repeat' split
    all_goals first
      | exact h
      | exact winInv_check h
      | (intro w hw; simp only at hw; injection hw with hw; subst hw; exact h0)
  | cmdOpenBasic pw secs =>
    simp only [step, openWinCore]
    repeat' split
    all_goals first
      | exact h
      | exact winInv_check h
      | (intro w hw; simp only at hw; injection hw with hw; subst hw; exact h0)
  | revoke => exact winInv_none
  | tick ms => exact h
  | poll => exact winInv_check h
  | pbkdf x r v =>
    simp only [step]
    split
    · repeat' split
      all_goals first
        | exact winInv_fail
        | (simp only [removeTask_window, updateSessionTimeout_window]; exact h)
    · split
      · simp only [evictOne_window]; exact h
      · rename_i s1 h1
        apply pbkdfNew_winInv
        rw [(addSlot_core h1).2.1]; exact h
  | rxTimeout x =>
    simp only [step]
    repeat' split
    all_goals first
      | exact h
      | exact winInv_fail
  | fill n p => exact h
  | unfill => exact h
  | pake1 x p =>
    simp only [step]
    repeat' split
    all_goals first
      | exact h
      | exact winInv_fail
      | exact winInv_record
      | (simp only [removeTask_window, setTask_window, updateSessionTimeout_window]; exact h)
      | (simp only [removeTask_window, setTask_window]; apply winInv_check; simp only [updateSessionTimeout_window]; exact h)
  | pake3 x c =>
    simp only [step]
    repeat' split
    all_goals first
      | exact h
      | exact winInv_fail
      | exact winInv_record
      | (simp only [removeTask_window, setTask_window, updateSessionTimeout_window]; exact h)
      | (simp only [removeTask_window, setTask_window]; apply winInv_check; simp only [updateSessionTimeout_window]; exact h)
  | other x =>
    simp only [step]
    repeat' split
    all_goals first
      | exact h
      | exact winInv_fail
      | exact winInv_record
      | (simp only [removeTask_window, setTask_window, updateSessionTimeout_window]; exact h)
      | (simp only [removeTask_window, setTask_window]; apply winInv_check; simp only [updateSessionTimeout_window]; exact h)
  | dead x =>
    simp only [step]
    repeat' split
    all_goals first
      | exact h
      | exact winInv_fail
      | exact winInv_record
      | (simp only [removeTask_window, setTask_window, updateSessionTimeout_window]; exact h)
      | (simp only [removeTask_window, setTask_window]; apply winInv_check; simp only [updateSessionTimeout_window]; exact h)

/-! ## whole histories -/

theorem run_winInv (s : St) (ops : List Op) (h : WinInv s.window) : WinInv (run s ops).window := by
  induction ops generalizing s with
  | nil => exact h
  | cons o os ih => exact ih _ (step_winInv s o h)

/-- **Revoked after `maxPakeFailures`**: in every reachable state an open window has counted fewer
failures than the threshold — the step that would reach it closes the window instead. -/
theorem revoked_after_max (ops : List Op) (w : Window) (h : (run {} ops).window = some w) :
    w.failures < maxFailures :=
  run_winInv {} ops winInv_none w h

/-- **Every failed proof is counted**: a Pake3 whose confirmation value is not the expected one (on
a live handshake that holds the in-progress marker) increments the window's counter, or revokes the
window when that reaches the threshold. -/
theorem failed_proof_counted (s : St) (x : Nat) (c : CA) (t : Task) (exp : Conf) (wid : Nat) (w : Window)
    (ht : findTask s x = some t) (hst : t.stage = .waitPake3 exp wid)
    (hm : (updateSessionTimeout s x false).2 = none) (hc : c ≠ .mac exp)
    (hw : s.window = some w) (hid : w.id = wid) (hexp : s.now ≤ w.expiry) :
    (step s (.pake3 x c)).1.window =
      if w.failures + 1 ≥ maxFailures then none else some { w with failures := w.failures + 1 } := by
  subst hid
  have hcw : checkWindowTimeout (updateSessionTimeout s x false).fst = (updateSessionTimeout s x false).fst := by
    unfold checkWindowTimeout
    simp only [updateSessionTimeout_window, updateSessionTimeout_now, hw]
    split
    · omega
    · rfl
  simp only [step, ht, hm, hst, hcw, updateSessionTimeout_window, hw]
  split
  · simp only [failTask, recordFailure_window, removeTask_window, updateSessionTimeout_window, hw]
  · simp only [hc, if_false, failTask, recordFailure_window, removeTask_window,
      updateSessionTimeout_window, hw, beq_self_eq_true, Bool.not_true, Bool.false_eq_true]

/-- **Advertised ⇔ window present**: this is the *definition* of `advertised` (`Iff.rfl`), a
transliteration of `Matter::mdns_services`, which publishes the commissionable record exactly when
`Pase::comm_window()` is `Some`; it is tied to the code by the differential harness, not proved.
The content is in `poll_closes_expired` (one poll after the expiry the record is gone) and in
`C02Hist.advertised_at_most_one_poll_after_expiry` (with the 1 s poll: an advertised node's window
expired less than one polling period ago). -/
theorem advertised_iff_open (s : St) : advertised s = true ↔ s.window.isSome = true := Iff.rfl

theorem poll_closes_expired (s : St) (w : Window) (h : (step s .poll).1.window = some w) :
    (step s .poll).1.now ≤ w.expiry := by
  simp only [step] at h ⊢
  obtain ⟨_, h2⟩ := checkWindowTimeout_open h
  simpa using h2

/-- what the property demands of every PASE session that exists -/
def SessOK (x : Sess) : Prop := x.windowOpenAtCreation = true ∧ x.sameWindowAtCreation = true

theorem step_sessOK (s : St) (op : Op) (h : ∀ x ∈ s.sessions, SessOK x) :
    ∀ x ∈ (step s op).1.sessions, SessOK x := by
  intro x hx
  by_cases hold : x ∈ s.sessions
  · exact h x hold
  · obtain ⟨h1, h2, _⟩ := session_only_in_open_window s op x hx hold
    exact ⟨h1, h2⟩

/-- **For every history**: each PASE session that exists was created while the commissioning
window of its own proof was open and unexpired. -/
theorem every_session_in_open_window (ops : List Op) :
    ∀ x ∈ (run {} ops).sessions, SessOK x := by
  suffices h : ∀ (s : St), (∀ x ∈ s.sessions, SessOK x) → ∀ x ∈ (run s ops).sessions, SessOK x from
    h {} (fun _ hx => by cases hx)
  induction ops with
  | nil => intro s h; exact h
  | cons o os ih => intro s h; exact ih _ (step_sessOK s o h)

/-- sessions are never removed or altered by the responder: the list only grows -/
theorem sessions_prefix (s : St) (op : Op) : ∃ l, (step s op).1.sessions = s.sessions ++ l := by
  rcases session_implies_proof s op with h | ⟨_, _, _, _, _, _, _, _, _, _, _, _, h⟩
  · exact ⟨[], by simp [h]⟩
  · exact ⟨_, h⟩
/-! ## One window at a time; the enhanced window (`Pase::open_comm_window`) -/

/-- **Single-window rule**: while a window is present - basic or enhanced, expired or not - opening a
basic one is refused with `Busy` and changes nothing -/
theorem single_window_basic (s : St) (w : Window) (pw secs : Nat) (h : s.window = some w) :
    step s (.openWin pw secs) = (s, .errBusy) := by
  simp [step, openWinCore, h]

/-- … and so is opening an enhanced one (enhanced over basic, enhanced over enhanced) -/
theorem single_window_enhanced (s : St) (w : Window) (pw secs sl it d : Nat) (h : s.window = some w) :
    step s (.openEnh pw secs sl it d) = (s, .errBusy) := by
  simp [step, openEnhCore, h]

/-- **When `open_comm_window` succeeds**: no window is present, the commissioning timeout lies in
`MIN..=MAX_COMM_WINDOW_TIMEOUT_SECS` and the salt has 16..=32 bytes. The iteration count is not
looked at here (that is the cluster handler's check). -/
theorem openEnh_ok_iff (s : St) (pw secs sl it d : Nat) :
    (step s (.openEnh pw secs sl it d)).2 = .ok ↔
      s.window = none ∧ minWindowSecs ≤ secs ∧ secs ≤ maxWindowSecs ∧ minSaltLen ≤ sl ∧ sl ≤ maxSaltLen := by
  simp only [step, openEnhCore]
  cases hw : s.window with
  | some w => simp
  | none =>
    simp only [Option.isSome_none, Bool.false_eq_true, if_false, Bool.or_eq_true, decide_eq_true_eq, true_and]
    by_cases h1 : secs < minWindowSecs ∨ secs > maxWindowSecs
    · simp only [h1, if_true]
      constructor
      · intro h; cases h
      · intro ⟨a, b, _⟩; omega
    · simp only [h1, if_false]
      by_cases h2 : sl < minSaltLen ∨ sl > maxSaltLen
      · simp only [h2, if_true]
        constructor
        · intro h; cases h
        · intro ⟨_, _, a, b⟩; omega
      · simp only [h2, if_false, true_iff]
        omega

/-- the window it then opens: the supplied verifier's passcode class, salt length, iteration count
and discriminator, its own expiry, no failures, advertised as *enhanced* -/
theorem openEnh_window (s : St) (pw secs sl it d : Nat) (h : (step s (.openEnh pw secs sl it d)).2 = .ok) :
    (step s (.openEnh pw secs sl it d)).1.window =
      some { id := s.fresh, pw := pw, expiry := s.now + secs * 1000, failures := 0, enhanced := true,
             iterations := it, saltLen := sl, discriminator := d } ∧
    advertisedAs (step s (.openEnh pw secs sl it d)).1 = some (d, true) := by
  simp only [step, openEnhCore] at h ⊢
  split at h
  · cases h
  · split at h
    · cases h
    · split at h
      · cases h
      · rename_i h1 h2 h3
        simp [h1, h2, h3, advertisedAs]

/-- a refused `open_comm_window` changes nothing -/
theorem openEnh_refused_unchanged (s : St) (pw secs sl it d : Nat)
    (h : (step s (.openEnh pw secs sl it d)).2 ≠ .ok) : (step s (.openEnh pw secs sl it d)).1 = s := by
  simp only [step, openEnhCore] at h ⊢
  repeat' split
  all_goals first
    | rfl
    | (exfalso; apply h; simp_all)

/-- a basic window announces the built-in iteration count and a 32-byte salt and is not advertised as enhanced -/
theorem openWin_window (s : St) (pw secs : Nat) (h : (step s (.openWin pw secs)).2 = .ok) :
    ∃ w, (step s (.openWin pw secs)).1.window = some w ∧ w.pw = pw ∧ w.enhanced = false ∧
      w.iterations = builtinIterations ∧ w.saltLen = maxSaltLen ∧ w.expiry = s.now + secs * 1000 ∧ w.failures = 0 := by
  simp only [step, openWinCore] at h ⊢
  split at h
  · cases h
  · split at h
    · cases h
    · rename_i h1 h2
      simp [h1, h2]

/-! ## The cluster commands `OpenCommissioningWindow` / `OpenBasicCommissioningWindow` (`adm_comm.rs`) -/

/-- the handler's salt bounds are those of `Pase::validate_salt_len`: a command that passed the handler's
check is never refused with `ConstraintError` below -/
theorem adm_salt_bounds_agree : admMinSaltLen = minSaltLen ∧ admMaxSaltLen = maxSaltLen := by decide

/-- the legal PBKDF range of the specification: 1000..=100000 iterations, 16..=32 bytes of salt, a 97-byte verifier -/
theorem adm_bounds : admMinIterations = 1000 ∧ admMaxIterations = 100000 ∧ admMinSaltLen = 16 ∧ admMaxSaltLen = 32 ∧
    admVerifierLen = 97 := by decide

/-- illegal PBKDF parameters: `PAKEParameterError`, and nothing changes (an expired window is not even looked at) -/
theorem cmdOpenEnh_param_error (s : St) (pw secs sl it d vl : Nat)
    (h : it < admMinIterations ∨ it > admMaxIterations ∨ sl < admMinSaltLen ∨ sl > admMaxSaltLen ∨ vl ≠ admVerifierLen) :
    step s (.cmdOpenEnh pw secs sl it d vl) = (s, .errPakeParam) := by
  simp only [step]
  by_cases h1 : it < admMinIterations ∨ it > admMaxIterations
  · simp [h1]
  · by_cases h2 : sl < admMinSaltLen ∨ sl > admMaxSaltLen
    · simp [h1, h2]
    · have h3 : vl ≠ admVerifierLen := by
        rcases h with h | h | h | h | h
        · exact absurd (Or.inl h) h1
        · exact absurd (Or.inr h) h1
        · exact absurd (Or.inl h) h2
        · exact absurd (Or.inr h) h2
        · exact h
      simp [h1, h2, h3]

/-- with legal parameters the command is: expiry check, then `Pase::open_comm_window` -/
theorem cmdOpenEnh_valid (s : St) (pw secs sl it d vl : Nat)
    (hp : ¬ (it < admMinIterations ∨ it > admMaxIterations)) (hs : ¬ (sl < admMinSaltLen ∨ sl > admMaxSaltLen))
    (hv : vl = admVerifierLen) :
    step s (.cmdOpenEnh pw secs sl it d vl) =
      ((step (checkWindowTimeout s) (.openEnh pw secs sl it d)).1,
        if (step (checkWindowTimeout s) (.openEnh pw secs sl it d)).2 = .errBusy then .errClusterBusy
        else (step (checkWindowTimeout s) (.openEnh pw secs sl it d)).2) := by
  have h1 : (decide (it < admMinIterations) || decide (it > admMaxIterations)) = false := by simpa using hp
  have h2 : (decide (sl < admMinSaltLen) || decide (sl > admMaxSaltLen)) = false := by simpa using hs
  have h3 : (vl != admVerifierLen) = false := by simp [hv]
  simp only [step, h1, h2, h3, Bool.false_eq_true, if_false]
  rfl

/-- **An accepted `OpenCommissioningWindow` has legal PBKDF parameters** and the window then announces
exactly these (so what the responder sends in PBKDFParamResponse is in the legal range), with the
supplied discriminator, its own expiry and no failures -/
theorem cmdOpenEnh_ok (s : St) (pw secs sl it d vl : Nat) (h : (step s (.cmdOpenEnh pw secs sl it d vl)).2 = .ok) :
    admMinIterations ≤ it ∧ it ≤ admMaxIterations ∧ admMinSaltLen ≤ sl ∧ sl ≤ admMaxSaltLen ∧ vl = admVerifierLen ∧
    minWindowSecs ≤ secs ∧ secs ≤ maxWindowSecs ∧
    (step s (.cmdOpenEnh pw secs sl it d vl)).1.window =
      some { id := s.fresh, pw := pw, expiry := s.now + secs * 1000, failures := 0, enhanced := true,
             iterations := it, saltLen := sl, discriminator := d } := by
  by_cases hbad : it < admMinIterations ∨ it > admMaxIterations ∨ sl < admMinSaltLen ∨ sl > admMaxSaltLen ∨ vl ≠ admVerifierLen
  · rw [cmdOpenEnh_param_error s pw secs sl it d vl hbad] at h
    cases h
  · have hp : ¬ (it < admMinIterations ∨ it > admMaxIterations) := fun hh => hbad (by omega)
    have hs : ¬ (sl < admMinSaltLen ∨ sl > admMaxSaltLen) := fun hh => hbad (by omega)
    have hv : vl = admVerifierLen := Decidable.byContradiction (fun hh => hbad (Or.inr (Or.inr (Or.inr (Or.inr hh)))))
    rw [cmdOpenEnh_valid s pw secs sl it d vl hp hs hv] at h ⊢
    simp only at h ⊢
    have hok : (step (checkWindowTimeout s) (.openEnh pw secs sl it d)).2 = .ok := by
      split at h
      · cases h
      · exact h
    obtain ⟨_, h1, h2, _, _⟩ := (openEnh_ok_iff _ pw secs sl it d).mp hok
    have hw := (openEnh_window _ pw secs sl it d hok).1
    simp only [checkWindowTimeout_fresh, checkWindowTimeout_now] at hw
    exact ⟨by omega, by omega, by omega, by omega, hv, h1, h2, hw⟩

/-- **Single-window rule of the commands**: while an *unexpired* window is present both commands answer the
cluster status `Busy` and change nothing -/
theorem cmd_single_window (s : St) (w : Window) (hw : s.window = some w) (hlive : s.now ≤ w.expiry)
    (pw secs : Nat) : step s (.cmdOpenBasic pw secs) = (s, .errClusterBusy) := by
  have hc : checkWindowTimeout s = s := by
    unfold checkWindowTimeout; simp only [hw]; split
    · omega
    · rfl
  simp [step, openWinCore, hc, hw]

theorem cmd_single_window_enh (s : St) (w : Window) (hw : s.window = some w) (hlive : s.now ≤ w.expiry)
    (pw secs sl it d vl : Nat) (hp : ¬ (it < admMinIterations ∨ it > admMaxIterations)) (hs : ¬ (sl < admMinSaltLen ∨ sl > admMaxSaltLen))
    (hv : vl = admVerifierLen) : step s (.cmdOpenEnh pw secs sl it d vl) = (s, .errClusterBusy) := by
  have hc : checkWindowTimeout s = s := by
    unfold checkWindowTimeout; simp only [hw]; split
    · omega
    · rfl
  simp [step, openEnhCore, hc, hw, hp, hs, hv]

/-- … whereas an *expired* window that nobody polled does not block the commands (they run the expiry
check first) - it does block `Matter::open_basic_comm_window` / `Pase::open_comm_window` (`single_window_*`) -/
theorem cmd_replaces_expired_window (s : St) (w : Window) (hw : s.window = some w) (hexp : s.now > w.expiry)
    (pw secs : Nat) (h1 : minWindowSecs ≤ secs) (h2 : secs ≤ maxWindowSecs) :
    (step s (.cmdOpenBasic pw secs)).2 = .ok := by
  have hc : (checkWindowTimeout s).window = none := by
    unfold checkWindowTimeout; simp only [hw, hexp, if_true]
  have hr : ¬ (secs < minWindowSecs ∨ secs > maxWindowSecs) := by omega
  simp [step, openWinCore, hc, hr]

/-! ## The proof a session rests on is a proof for the verifier of the window that is open -/


/-- `b` is the window `a`, possibly closed meanwhile or with more failures counted: never another one -/
def WinKeep (a b : Option Window) : Prop :=
  ∀ w', b = some w' → ∃ w, a = some w ∧ w'.id = w.id ∧ w'.pw = w.pw ∧ w'.expiry = w.expiry ∧
    w.failures ≤ w'.failures

theorem winKeep_refl (a : Option Window) : WinKeep a a := fun w' h => ⟨w', h, rfl, rfl, rfl, Nat.le_refl _⟩
theorem winKeep_none (a : Option Window) : WinKeep a none := fun _ h => by cases h

theorem winKeep_check {a : Option Window} {s : St} (h : WinKeep a s.window) :
    WinKeep a (checkWindowTimeout s).window := by
  unfold checkWindowTimeout
  split
  · split
    · exact winKeep_none a
    · exact h
  · exact h

theorem winKeep_record {a : Option Window} {s : St} (h : WinKeep a s.window) :
    WinKeep a (recordFailure s).window := by
  rw [recordFailure_window]
  split
  · rename_i w hw
    split
    · exact winKeep_none a
    · intro w' hw'
      injection hw' with hw'
      obtain ⟨w0, h0, h1, h2, h3, h4⟩ := h w hw
      subst hw'
      exact ⟨w0, h0, h1, h2, h3, Nat.le_succ_of_le h4⟩
  · exact winKeep_none a

theorem winKeep_fail {a : Option Window} {s : St} {x : Nat} (h : WinKeep a s.window) :
    WinKeep a (failTask s x).window := winKeep_record h

theorem pbkdfNew_fresh_le (s : St) (x : Nat) (r : Req) (v : Option VClass) :
    s.fresh ≤ (pbkdfNew s x r v).1.fresh := by
  unfold pbkdfNew
  split
  · simp
  · rename_i s1 h1
    have hc := (reserve_core h1).2.2.2.2.2
    simp only
    repeat' split
    all_goals simp [hc]

theorem pbkdfNew_winKeep (s : St) (x : Nat) (r : Req) (v : Option VClass) :
    WinKeep s.window (pbkdfNew s x r v).1.window := by
  unfold pbkdfNew
  split
  · exact winKeep_refl _
  · rename_i s1 h1
    have hc := (reserve_core h1).2.1
    have h1w : WinKeep s.window s1.window := by rw [hc]; exact winKeep_refl _
    simp only
    split
    · simp only [updateSessionTimeout_window]; exact h1w
    · split
      · rename_i hw; intro w hw2; simp only at hw2; rw [hw] at hw2; cases hw2
      · split
        · simp only [setTask_window]; apply winKeep_check; simp only [updateSessionTimeout_window]; exact h1w
        · apply winKeep_record; simp only; apply winKeep_check; simp only [updateSessionTimeout_window]; exact h1w

/-- no step makes the source of fresh identities go back -/
theorem step_fresh_le (s : St) (op : Op) : s.fresh ≤ (step s op).1.fresh := by
  cases op with
  | pbkdf x r v =>
    simp only [step]
    split
    · repeat' split
      all_goals simp
    · split
      · simp
      · rename_i s1 h1
        have := pbkdfNew_fresh_le s1 x r v
        rw [(addSlot_core h1).2.2.2.2.2] at this
        exact this
  | _ =>
    simp only [step, openWinCore, openEnhCore]
    repeat' split
    all_goals simp

/-- what a step can do to the window: keep it (perhaps closed, perhaps with one more failure), or -
(when none is present, or - the cluster commands - when the present one has expired) open a new one
whose identity is fresh -/
theorem step_window_frame (s : St) (op : Op) :
    WinKeep s.window (step s op).1.window ∨
    (∃ w', (step s op).1.window = some w' ∧ w'.id = s.fresh ∧
      (step s op).1.fresh = s.fresh + 1 ∧ (step s op).1.tasks = s.tasks ∧
      s.now ≤ w'.expiry ∧ w'.failures = 0) := by
  cases op with
  | openWin pw secs =>
    simp only [step, openWinCore]
    split
    · left; exact winKeep_refl _
    · split
      · left; exact winKeep_refl _
      · right
        exact ⟨_, rfl, rfl, rfl, rfl, Nat.le_add_right _ _, rfl⟩
  | openEnh pw secs sl it d =>
    simp only [step, openEnhCore]
    split
    · left; exact winKeep_refl _
    · split
      · left; exact winKeep_refl _
      · split
        · left; exact winKeep_refl _
        · right
          exact ⟨_, rfl, rfl, rfl, rfl, Nat.le_add_right _ _, rfl⟩
  | cmdOpenEnh pw secs sl it d vl =>
    simp only [step, openEnhCore]
    repeat' split
    all_goals first
      | (left; exact winKeep_refl _)
      | (left; exact winKeep_check (winKeep_refl _))
      | (right; exact ⟨_, rfl, by simp, by simp, by simp, by simp, rfl⟩)
  | cmdOpenBasic pw secs =>
    simp only [step, openWinCore]
    repeat' split
    all_goals first
      | (left; exact winKeep_refl _)
      | (left; exact winKeep_check (winKeep_refl _))
      | (right; exact ⟨_, rfl, by simp, by simp, by simp, by simp, rfl⟩)
  | revoke => left; exact winKeep_none _
  | tick ms => left; exact winKeep_refl _
  | poll => left; exact winKeep_check (winKeep_refl _)
  | pbkdf x r v =>
    left
    simp only [step]
    split
    · repeat' split
      all_goals first
        | (apply winKeep_fail; simp only [updateSessionTimeout_window]; exact winKeep_refl _)
        | (simp only [removeTask_window, updateSessionTimeout_window]; exact winKeep_refl _)
    · split
      · simp only [evictOne_window]; exact winKeep_refl _
      · rename_i s1 h1
        have := pbkdfNew_winKeep s1 x r v
        rw [(addSlot_core h1).2.1] at this
        exact this
  | pake1 x p =>
    left
    simp only [step]
    repeat' split
    all_goals first
      | exact winKeep_refl _
      | (apply winKeep_fail; simp only [updateSessionTimeout_window]; exact winKeep_refl _)
      | (simp only [removeTask_window, setTask_window, updateSessionTimeout_window]; exact winKeep_refl _)
      | (apply winKeep_fail; apply winKeep_check; simp only [updateSessionTimeout_window]; exact winKeep_refl _)
      | (simp only [removeTask_window, setTask_window]; apply winKeep_check; simp only [updateSessionTimeout_window]; exact winKeep_refl _)
  | pake3 x c =>
    left
    simp only [step]
    repeat' split
    all_goals first
      | exact winKeep_refl _
      | (apply winKeep_fail; simp only [updateSessionTimeout_window]; exact winKeep_refl _)
      | (simp only [removeTask_window, setTask_window, updateSessionTimeout_window]; exact winKeep_refl _)
      | (apply winKeep_fail; simp only; apply winKeep_check; simp only [updateSessionTimeout_window]; exact winKeep_refl _)
      | (simp only [removeTask_window, setTask_window]; apply winKeep_check; simp only [updateSessionTimeout_window]; exact winKeep_refl _)
  | other x =>
    left
    simp only [step]
    repeat' split
    all_goals first
      | exact winKeep_refl _
      | (apply winKeep_fail; simp only [updateSessionTimeout_window]; exact winKeep_refl _)
      | (simp only [removeTask_window, updateSessionTimeout_window]; exact winKeep_refl _)
  | dead x =>
    left
    simp only [step]
    repeat' split
    all_goals first
      | exact winKeep_refl _
      | (apply winKeep_fail; exact winKeep_refl _)
      | (apply winKeep_record; exact winKeep_refl _)
  | rxTimeout x =>
    left
    simp only [step]
    repeat' split
    all_goals first
      | exact winKeep_refl _
      | (apply winKeep_fail; exact winKeep_refl _)
  | fill n p => left; exact winKeep_refl _
  | unfill => left; exact winKeep_refl _

theorem findTask_mem {s : St} {x : Nat} {t : Task} (h : findTask s x = some t) : t ∈ s.tasks ∧ t.exch = x := by
  unfold findTask at h
  exact ⟨List.mem_of_find?_eq_some h, by simpa using List.find?_some h⟩

/-- window identities are fresh, and what a handshake that expects Pake3 will accept is a proof for
the verifier of the window whose identity it remembered. `task_lt` / `win_lt` hold of reachable
states **because the model draws window ids from the counter `fresh`** - the idealisation "window ids
never repeat" (in the code: `mdns_id`, a random u64 or a caller-supplied value; Pake3 compares only
this id). Without it `bound` fails: `C02Hist.widInv_necessary`. -/
structure WidInv (s : St) : Prop where
  task_lt : ∀ t ∈ s.tasks, ∀ exp wid, t.stage = .waitPake3 exp wid → wid < s.fresh
  win_lt : ∀ w, s.window = some w → w.id < s.fresh
  bound : ∀ t ∈ s.tasks, ∀ exp wid w, t.stage = .waitPake3 exp wid → s.window = some w → w.id = wid → exp.pw = w.pw

theorem widInv_init : WidInv {} where
  task_lt := fun _ h => by cases h
  win_lt := fun _ h => by cases h
  bound := fun _ h => by cases h

theorem step_widInv (s : St) (op : Op) (h : WidInv s) : WidInv (step s op).1 := by
  have hf := step_fresh_le s op
  have hw := step_window_frame s op
  have ht := fun t exp wid (h1 : t ∈ (step s op).1.tasks) (h2 : t.stage = .waitPake3 exp wid) =>
    waitPake3_only_by_valid_pake1 s op t exp wid h1 h2
  refine ⟨?_, ?_, ?_⟩
  · intro t h1 exp wid h2
    rcases ht t exp wid h1 h2 with hold | ⟨a, ctx, w, t0, _, _, _, hwin, _, _, _, _, hwid, _, _⟩
    · exact Nat.lt_of_lt_of_le (h.task_lt t hold exp wid h2) hf
    · rw [hwid]; exact Nat.lt_of_lt_of_le (h.win_lt w hwin) hf
  · intro w' hw'
    rcases hw with hk | ⟨w2, hw2, hid, hfr, _, _, _⟩
    · obtain ⟨w, h0, h1, _, _⟩ := hk w' hw'
      rw [h1]; exact Nat.lt_of_lt_of_le (h.win_lt w h0) hf
    · rw [hw2] at hw'; injection hw' with hw'; subst hw'
      rw [hid, hfr]; exact Nat.lt_succ_self _
  · intro t h1 exp wid w' h2 hw' hid'
    rcases hw with hk | ⟨w2, hw2, hid, _, htasks, _, _⟩
    · obtain ⟨w, h0, hi, hp, _⟩ := hk w' hw'
      rcases ht t exp wid h1 h2 with hold | ⟨a, ctx, w1, t0, _, _, _, hwin, _, hpw, _, _, hwid, _, _⟩
      · rw [hp]; exact h.bound t hold exp wid w h2 h0 (by rw [← hi]; exact hid')
      · rw [hwin] at h0; injection h0 with h0; subst h0
        rw [hp]; exact hpw
    · -- a new window: no handshake can have remembered its identity
      rw [hw2] at hw'; injection hw' with hw'; subst hw'
      rw [htasks] at h1
      have := h.task_lt t h1 exp wid h2
      omega

/-- **The proof is for the verifier of the window that is open** (basic or enhanced alike): a session
that a step adds carries the confirmation value of the passcode class of the window that is
present and unexpired at that moment - under an enhanced window that is the class of the supplied
verifier, whatever the device's own passcode is. -/
theorem proof_is_for_the_open_window (s : St) (op : Op) (sess : Sess) (hinv : WidInv s)
    (hnew : sess ∈ (step s op).1.sessions) (hold : sess ∉ s.sessions) :
    ∃ w, s.window = some w ∧ s.now ≤ w.expiry ∧ sess.conf.pw = w.pw := by
  rcases session_implies_proof s op with h | ⟨x, exp, wid, t, w, _, hft, hst, _, hw, hid, hexp, h⟩
  · rw [h] at hnew; exact absurd hnew hold
  · rw [h] at hnew
    rcases List.mem_append.mp hnew with h' | h'
    · exact absurd h' hold
    · simp only [List.mem_singleton] at h'
      subst h'
      exact ⟨w, hw, hexp, hinv.bound t (findTask_mem hft).1 exp wid w hst hw hid⟩

theorem run_widInv (s : St) (ops : List Op) (h : WidInv s) : WidInv (run s ops) := by
  induction ops generalizing s with
  | nil => exact h
  | cons o os ih => exact ih _ (step_widInv s o h)

/-- … in every history of operations from the initial state (histories with duplicated / re-sent
datagrams: `C02Hist.proof_is_for_the_open_window_ev`) -/
theorem proof_is_for_the_open_window_hist (ops : List Op) (op : Op) (sess : Sess)
    (hnew : sess ∈ (step (run {} ops) op).1.sessions) (hold : sess ∉ (run {} ops).sessions) :
    ∃ w, (run {} ops).window = some w ∧ (run {} ops).now ≤ w.expiry ∧ sess.conf.pw = w.pw :=
  proof_is_for_the_open_window _ op sess (run_widInv {} ops widInv_init) hnew hold

/-! ## Retransmitted / duplicated handshake datagrams never reach the responder -/

/-- the part of the state the property speaks about (everything but the table and the receive counters) -/
def core (s : St) : Nat × Option Window × Option Marker × List Task × List Sess × Nat :=
  (s.now, s.window, s.marker, s.tasks, s.sessions, s.fresh)

/-- **a duplicate is only acknowledged**: a datagram whose counter the unsecured session has seen
changes nothing - window, failure counter, marker, tasks, sessions, table all stay -/
theorem dup_is_noop (s : St) (ctr x : Nat) (op : Op) (hx : opExch op = some x)
    (hs : hasUnsec s x = true) (hseen : s.seen.contains (x, ctr) = true) :
    deliver s ctr op = (s, .ackOnly) := by
  unfold deliver
  simp only [hx, hs, hseen, if_true]

/-- after a datagram was delivered, its counter is known to the unsecured session it came on
(if that session exists: the transport may have had no slot for it) -/
theorem delivered_is_seen (s : St) (ctr x : Nat) (op : Op) (hx : opExch op = some x)
    (hs : hasUnsec (deliver s ctr op).1 x = true) : (deliver s ctr op).1.seen.contains (x, ctr) = true := by
  unfold deliver at hs ⊢
  simp only [hx] at hs ⊢
  by_cases h1 : hasUnsec s x = true
  · simp only [h1, if_true] at hs ⊢
    by_cases h2 : s.seen.contains (x, ctr) = true
    · simp only [h2, if_true]
    · simp only [h2]
      simp
  · simp only [h1] at hs ⊢
    by_cases h3 : isPbkdf op = true
    · simp only [h3, if_true] at hs ⊢
      by_cases h4 : hasUnsec (step s op).1 x = true
      · simp only [h4, if_true]
        simp
      · simp only [h4] at hs
        simp only [hasUnsec] at h4 hs
        exact absurd hs h4
    · simp only [h3] at hs
      exact absurd hs h1

/-- **Delivering the same datagram a second time is a no-op** (for every handshake message, whatever
the first delivery did - answered, refused and charged, or created the session): it is acknowledged
and nothing else happens. In particular a retransmitted Pake3 is not charged a second time and
creates no second session, a retransmitted PBKDFParamRequest starts no second handshake. -/
theorem redelivery_is_noop (s : St) (ctr x : Nat) (op : Op) (hx : opExch op = some x)
    (hs : hasUnsec (deliver s ctr op).1 x = true) :
    deliver (deliver s ctr op).1 ctr op = ((deliver s ctr op).1, .ackOnly) :=
  dup_is_noop _ ctr x op hx hs (delivered_is_seen s ctr x op hx hs)

/-- what a delivery does to the part of the state the property speaks about: nothing, or what the
responder's step does -/
theorem deliver_core (s : St) (ctr : Nat) (op : Op) :
    core (deliver s ctr op).1 = core s ∨ core (deliver s ctr op).1 = core (step s op).1 := by
  unfold deliver
  split
  · right; rfl
  · split
    · split
      · left; rfl
      · right; rfl
    · split
      · right
        simp only
        split <;> rfl
      · left; rfl

theorem core_sessions {a b : St} (h : core a = core b) : a.sessions = b.sessions := by
  simp only [core, Prod.mk.injEq] at h; exact h.2.2.2.2.1
theorem core_window {a b : St} (h : core a = core b) : a.window = b.window := by
  simp only [core, Prod.mk.injEq] at h; exact h.2.1

/-- the history theorems hold for histories that contain duplicated / re-sent datagrams as well -/
theorem runEv_sessOK (s : St) (evs : List Ev) (h : ∀ x ∈ s.sessions, SessOK x) :
    ∀ x ∈ (runEv s evs).sessions, SessOK x := by
  induction evs generalizing s with
  | nil => exact h
  | cons e es ih =>
    apply ih
    cases e with
    | op o => exact step_sessOK s o h
    | msg c o =>
      simp only [stepEv]
      rcases deliver_core s c o with hc | hc
      · rw [core_sessions hc]; exact h
      · rw [core_sessions hc]; exact step_sessOK s o h

/-- **For every history with duplicates**: each PASE session was created while the commissioning
window of its own proof was open and unexpired. -/
theorem every_session_in_open_window_ev (evs : List Ev) : ∀ x ∈ (runEv {} evs).sessions, SessOK x :=
  runEv_sessOK {} evs (fun _ hx => by cases hx)

theorem runEv_winInv (s : St) (evs : List Ev) (h : WinInv s.window) : WinInv (runEv s evs).window := by
  induction evs generalizing s with
  | nil => exact h
  | cons e es ih =>
    apply ih
    cases e with
    | op o => exact step_winInv s o h
    | msg c o =>
      simp only [stepEv]
      rcases deliver_core s c o with hc | hc
      · rw [core_window hc]; exact h
      · rw [core_window hc]; exact step_winInv s o h

/-- **Revoked after `maxPakeFailures`, duplicates included**: no history - however many datagrams are
delivered twice - shows an open window with the threshold reached. -/
theorem revoked_after_max_ev (evs : List Ev) (w : Window) (h : (runEv {} evs).window = some w) :
    w.failures < maxFailures :=
  runEv_winInv {} evs winInv_none w h

/-! ## The session table: no half-open handshake state -/

/-- a reserved slot for exchange `y` is in the table -/
def resv (tbl : List Slot) (y : Nat) : Prop := Slot.reserved y ∈ tbl
/-- a responder task for exchange `y` is alive -/
def tk (tasks : List Task) (y : Nat) : Prop := ∃ t ∈ tasks, t.exch = y

theorem resv_release (tbl : List Slot) (x y : Nat) : resv (release tbl x) y ↔ resv tbl y ∧ y ≠ x := by
  unfold resv release
  simp only [List.mem_filter, bne_iff_ne, ne_eq, Slot.reserved.injEq]

theorem resv_complete (tbl : List Slot) (x y : Nat) : resv (complete tbl x) y ↔ resv tbl y ∧ y ≠ x := by
  unfold resv complete
  simp only [List.mem_map]
  constructor
  · rintro ⟨sl, hsl, h⟩
    split at h
    · cases h
    · rename_i hne
      subst h
      refine ⟨hsl, ?_⟩
      intro hxy; subst hxy; simp at hne
  · rintro ⟨h, hne⟩
    refine ⟨.reserved y, h, ?_⟩
    have : (Slot.reserved y == Slot.reserved x) = false := by simpa using hne
    simp [this]

theorem resv_append_reserved (tbl : List Slot) (x y : Nat) : resv (tbl ++ [.reserved x]) y ↔ resv tbl y ∨ y = x := by
  unfold resv; simp
theorem resv_append_unsec (tbl : List Slot) (x y : Nat) : resv (tbl ++ [.unsec x]) y ↔ resv tbl y := by
  unfold resv; simp
theorem resv_erase (tbl : List Slot) (sl : Slot) (y : Nat) (h : ∀ x, sl ≠ .reserved x) :
    resv (tbl.erase sl) y ↔ resv tbl y := by
  unfold resv
  exact List.mem_erase_of_ne (fun e => h y e.symm)
theorem resv_fill (tbl : List Slot) (k : Nat) (p : Bool) (y : Nat) :
    resv (tbl ++ List.replicate k (.filler p)) y ↔ resv tbl y := by
  unfold resv; simp [List.mem_replicate]
theorem resv_unfill (tbl : List Slot) (y : Nat) :
    resv (tbl.filter notFiller) y ↔ resv tbl y := by
  unfold resv; simp [List.mem_filter, notFiller]

theorem tk_filter (tasks : List Task) (x y : Nat) : tk (tasks.filter (·.exch != x)) y ↔ tk tasks y ∧ y ≠ x := by
  unfold tk
  simp only [List.mem_filter, bne_iff_ne, ne_eq]
  constructor
  · rintro ⟨t, ⟨ht, hne⟩, rfl⟩; exact ⟨⟨t, ht, rfl⟩, hne⟩
  · rintro ⟨⟨t, ht, rfl⟩, hne⟩; exact ⟨t, ⟨ht, hne⟩, rfl⟩
theorem tk_cons (t : Task) (tasks : List Task) (y : Nat) : tk (t :: tasks) y ↔ t.exch = y ∨ tk tasks y := by
  unfold tk; simp

theorem tk_of_find {s : St} {x : Nat} {t : Task} (h : findTask s x = some t) : tk s.tasks x :=
  ⟨t, (findTask_mem h).1, (findTask_mem h).2⟩
theorem not_tk_of_find_none {s : St} {x : Nat} (h : findTask s x = none) : ¬ tk s.tasks x := by
  rintro ⟨t, ht, hx⟩
  unfold findTask at h
  have := List.find?_eq_none.mp h t ht
  simp [hx] at this

@[simp] theorem checkWindowTimeout_table (s : St) : (checkWindowTimeout s).table = s.table := by
  unfold checkWindowTimeout; splits
@[simp] theorem recordFailure_table (s : St) : (recordFailure s).table = s.table := by
  unfold recordFailure; simp only; splits
@[simp] theorem updateSessionTimeout_table (s : St) (x : Nat) (n : Bool) :
    (updateSessionTimeout s x n).1.table = s.table := by
  unfold updateSessionTimeout; simp only; splits
@[simp] theorem checkWindowTimeout_marker (s : St) : (checkWindowTimeout s).marker = s.marker := by
  unfold checkWindowTimeout; splits
@[simp] theorem recordFailure_marker (s : St) : (recordFailure s).marker = none := by
  unfold recordFailure; simp only; splits
@[simp] theorem failTask_table (s : St) (x : Nat) : (failTask s x).table = release s.table x := by
  simp [failTask, removeTask]
@[simp] theorem failTask_tasks (s : St) (x : Nat) : (failTask s x).tasks = s.tasks.filter (·.exch != x) := by
  simp [failTask, removeTask]
@[simp] theorem failTask_marker (s : St) (x : Nat) : (failTask s x).marker = none := by
  simp [failTask]

/-- `update_session_timeout` lets the handshake go on: it now holds the marker -/
theorem ust_none {s : St} {x : Nat} {n : Bool} (h : (updateSessionTimeout s x n).2 = none) :
    (updateSessionTimeout s x n).1.marker = some { exch := x, deadline := s.now + estTimeoutMs } := by
  unfold updateSessionTimeout at h ⊢
  cases hm : s.marker with
  | none =>
    simp only [hm] at h ⊢
    cases n <;> simp_all
  | some m =>
    simp only [hm] at h ⊢
    by_cases he : s.now > m.deadline
    · simp only [he, if_true] at h ⊢
      cases n <;> simp_all
    · simp only [he, if_false, hm] at h ⊢
      by_cases hx : (m.exch != x) = true
      · simp [hx] at h
      · simp [hx]

/-- `update_session_timeout` answers `Busy` / `SessionNotFound`: the marker, if any, is another exchange's and untouched -/
theorem ust_some {s : St} {x : Nat} {n : Bool} {o : Out} (h : (updateSessionTimeout s x n).2 = some o) :
    ∀ m, (updateSessionTimeout s x n).1.marker = some m → s.marker = some m ∧ m.exch ≠ x := by
  unfold updateSessionTimeout at h ⊢
  intro m' hm'
  cases hm : s.marker with
  | none =>
    simp only [hm] at h hm'
    cases n <;> simp_all
  | some m =>
    simp only [hm] at h hm'
    by_cases he : s.now > m.deadline
    · simp only [he, if_true] at h hm'
      cases n <;> simp_all
    · simp only [he, if_false, hm] at h hm'
      by_cases hx : (m.exch != x) = true
      · simp only [hx, if_true] at hm'
        simp only [hm] at hm'
        injection hm' with hm'
        subst hm'
        exact ⟨rfl, by simpa using hx⟩
      · simp [hx] at h

/-- **No half-open handshake state**: a reserved slot is in the session table exactly as long as the
responder task of its exchange is alive, the in-progress marker always belongs to a live task, and
the table never exceeds its capacity -/
structure TableInv (s : St) : Prop where
  reserved_iff : ∀ y, resv s.table y ↔ tk s.tasks y
  marker_task : ∀ m, s.marker = some m → tk s.tasks m.exch
  cap : s.table.length ≤ maxSessions

theorem tableInv_init : TableInv {} where
  reserved_iff := fun y => by simp [resv, tk]
  marker_task := fun _ h => by cases h
  cap := Nat.zero_le _

theorem release_length_le (tbl : List Slot) (x : Nat) : (release tbl x).length ≤ tbl.length :=
  List.length_filter_le _ _
theorem complete_length (tbl : List Slot) (x : Nat) : (complete tbl x).length = tbl.length := by
  simp [complete]

theorem evictPick_eligible {s : St} {cur : Option Nat} {v : Option VClass} {sl : Slot}
    (h : evictPick s cur v = some sl) : eligible s cur sl = true := by
  unfold evictPick at h
  simp only at h
  split at h
  · rename_i sl' hp
    injection h with h; subst h
    split at hp
    · have := List.find?_some hp
      simp only [Bool.and_eq_true] at this
      exact this.1
    · cases hp
  · exact List.find?_some h

theorem evictPick_not_reserved {s : St} {cur : Option Nat} {v : Option VClass} {sl : Slot}
    (h : evictPick s cur v = some sl) : ∀ x, sl ≠ .reserved x := by
  intro x hx
  have := evictPick_eligible h
  rw [hx] at this
  simp [eligible] at this

theorem removeSlot_resv (s : St) (sl : Slot) (y : Nat) (h : ∀ x, sl ≠ .reserved x) :
    resv (removeSlot s sl).table y ↔ resv s.table y := resv_erase s.table sl y h
theorem removeSlot_len (s : St) (sl : Slot) : (removeSlot s sl).table.length ≤ s.table.length :=
  List.length_erase_le

theorem evictOne_resv (s : St) (v : Option VClass) (y : Nat) : resv (evictOne s v).table y ↔ resv s.table y := by
  unfold evictOne
  split
  · rename_i sl h; exact removeSlot_resv s sl y (evictPick_not_reserved h)
  · exact Iff.rfl
theorem evictOne_len (s : St) (v : Option VClass) : (evictOne s v).table.length ≤ s.table.length := by
  unfold evictOne
  split
  · exact removeSlot_len _ _
  · exact Nat.le_refl _

theorem addSlot_table {s s' : St} {sl : Slot} (h : addSlot s sl = some s') :
    s'.table = s.table ++ [sl] ∧ s.table.length < maxSessions := by
  unfold addSlot at h
  split at h
  · rename_i hl; injection h with h; subst h; exact ⟨rfl, hl⟩
  · cases h

theorem reserve_table {s s' : St} {x : Nat} {v : Option VClass} (h : reserve s x v = some s') :
    (∀ y, resv s'.table y ↔ resv s.table y ∨ y = x) ∧ s'.table.length ≤ maxSessions := by
  unfold reserve at h
  split at h
  · rename_i s1 h1
    injection h with h; subst h
    obtain ⟨ht, hl⟩ := addSlot_table h1
    refine ⟨fun y => by rw [ht]; exact resv_append_reserved _ _ _, by rw [ht]; simp; omega⟩
  · split at h
    · rename_i sl hp
      obtain ⟨ht, hl⟩ := addSlot_table h
      refine ⟨fun y => ?_, by rw [ht]; simp; omega⟩
      rw [ht, resv_append_reserved, removeSlot_resv s sl y (evictPick_not_reserved hp)]
    · cases h

theorem pbkdfNew_tableInv {s : St} (x : Nat) (r : Req) (v : Option VClass) (h : TableInv s)
    (hx : ¬ tk s.tasks x) : TableInv (pbkdfNew s x r v).1 := by
  have hnr : ¬ resv s.table x := fun hr => hx ((h.reserved_iff x).mp hr)
  unfold pbkdfNew
  split
  · exact h
  · rename_i s1 h1
    obtain ⟨_, _, hct, _, hcm, _⟩ := reserve_core h1
    obtain ⟨hr, hl⟩ := reserve_table h1
    simp only
    split
    · -- `Busy`: the reservation is given back
      rename_i o ho
      refine ⟨fun y => ?_, fun m hm => ?_, ?_⟩
      · simp only [updateSessionTimeout_table, updateSessionTimeout_tasks, resv_release, hr, hct]
        have := h.reserved_iff y
        grind
      · simp only [updateSessionTimeout_tasks, hct]
        obtain ⟨h1m, _⟩ := ust_some ho m hm
        exact h.marker_task m (by rw [← hcm]; exact h1m)
      · simp only [updateSessionTimeout_table]
        exact Nat.le_trans (release_length_le _ _) hl
    · rename_i hnone
      split
      · -- no window: silently dropped
        refine ⟨fun y => ?_, (fun m hm => by cases hm), ?_⟩
        · simp only [checkWindowTimeout_table, checkWindowTimeout_tasks, updateSessionTimeout_table,
            updateSessionTimeout_tasks, resv_release, hr, hct]
          have := h.reserved_iff y
          grind
        · simp only [checkWindowTimeout_table, updateSessionTimeout_table]
          exact Nat.le_trans (release_length_le _ _) hl
      · split
        · -- PBKDFParamResponse: the task lives, holding its slot and the marker
          refine ⟨fun y => ?_, fun m hm => ?_, ?_⟩
          · simp only [setTask, checkWindowTimeout_table, checkWindowTimeout_tasks, updateSessionTimeout_table,
              updateSessionTimeout_tasks, hr, hct, tk_cons, tk_filter]
            have := h.reserved_iff y
            grind
          · simp only [setTask, checkWindowTimeout_marker, ust_none hnone] at hm
            injection hm with hm; subst hm
            simp only [setTask, tk_cons]
            left; trivial
          · simp only [setTask, checkWindowTimeout_table, updateSessionTimeout_table]
            exact hl
        · refine ⟨fun y => ?_, (fun m hm => by simp at hm), ?_⟩
          · simp only [recordFailure_table, recordFailure_tasks, checkWindowTimeout_table, checkWindowTimeout_tasks,
              updateSessionTimeout_table, updateSessionTimeout_tasks, resv_release, hr, hct]
            have := h.reserved_iff y
            grind
          · simp only [recordFailure_table, checkWindowTimeout_table, updateSessionTimeout_table]
            exact Nat.le_trans (release_length_le _ _) hl


theorem tableInv_congr {s u : St} (h : TableInv s) (ht : u.tasks = s.tasks) (htb : u.table = s.table)
    (hm : u.marker = s.marker) : TableInv u :=
  ⟨by rw [ht, htb]; exact h.reserved_iff, by rw [ht, hm]; exact h.marker_task, by rw [htb]; exact h.cap⟩

/-- a task returns (its reservation, if not completed, goes with it); the marker that remains is another exchange's -/
theorem tableInv_removeTask {s u : St} {x : Nat} (h : TableInv s) (ht : u.tasks = s.tasks)
    (htb : ∀ y, resv u.table y → resv s.table y) (htb2 : ∀ y, y ≠ x → resv s.table y → resv u.table y)
    (hl : u.table.length ≤ maxSessions)
    (hm : ∀ m, u.marker = some m → s.marker = some m ∧ m.exch ≠ x) : TableInv (removeTask u x) := by
  refine ⟨fun y => ?_, fun m hm' => ?_, Nat.le_trans (release_length_le _ _) hl⟩
  · simp only [removeTask, resv_release, tk_filter, ht]
    have := h.reserved_iff y
    have := htb y
    have := htb2 y
    grind
  · simp only [removeTask, tk_filter, ht]
    obtain ⟨h1, h2⟩ := hm m hm'
    exact ⟨h.marker_task m h1, h2⟩

theorem tableInv_failTask {s u : St} {x : Nat} (h : TableInv s) (ht : u.tasks = s.tasks) (htb : u.table = s.table) :
    TableInv (failTask u x) := by
  refine ⟨fun y => ?_, (fun m hm' => by simp at hm'), ?_⟩
  · simp only [failTask_table, failTask_tasks, resv_release, tk_filter, ht, htb]
    have := h.reserved_iff y
    grind
  · simp only [failTask_table, htb]
    exact Nat.le_trans (release_length_le _ _) h.cap

/-- **For every step**: no half-open state is created -/
theorem step_tableInv (s : St) (op : Op) (h : TableInv s) : TableInv (step s op).1 := by
  cases op with
  | openWin pw secs =>
    simp only [step, openWinCore]
    repeat' split
    all_goals exact tableInv_congr h rfl rfl rfl
  | openEnh pw secs sl it d =>
    simp only [step, openEnhCore]
    repeat' split
    all_goals exact tableInv_congr h rfl rfl rfl
  | cmdOpenEnh pw secs sl it d vl =>
    simp only [step, openEnhCore]
    repeat' split
    all_goals exact tableInv_congr h (by simp) (by simp) (by simp)
  | cmdOpenBasic pw secs =>
    simp only [step, openWinCore]
    repeat' split
    all_goals exact tableInv_congr h (by simp) (by simp) (by simp)
  | revoke => exact tableInv_congr h rfl rfl rfl
  | tick ms => exact tableInv_congr h rfl rfl rfl
  | poll => exact tableInv_congr h (by simp [step]) (by simp [step]) (by simp [step])
  | fill n p =>
    simp only [step]
    refine ⟨fun y => ?_, h.marker_task, ?_⟩
    · simp only [resv_fill]; exact h.reserved_iff y
    · have := h.cap
      simp only [List.length_append, List.length_replicate]
      omega
  | unfill =>
    simp only [step]
    refine ⟨fun y => ?_, h.marker_task, Nat.le_trans (List.length_filter_le _ _) h.cap⟩
    simp only [resv_unfill]; exact h.reserved_iff y
  | pbkdf x r v =>
    simp only [step]
    split
    · split
      · rename_i o ho
        exact tableInv_removeTask h (by simp) (by simp) (by simp) (by simpa using h.cap) (ust_some ho)
      · exact tableInv_failTask h (by simp) (by simp)
    · rename_i hnone
      split
      · refine ⟨fun y => ?_, ?_, Nat.le_trans (evictOne_len _ _) h.cap⟩
        · rw [evictOne_resv, evictOne_tasks]; exact h.reserved_iff y
        · rw [evictOne_marker, evictOne_tasks]; exact h.marker_task
      · rename_i s1 h1
        obtain ⟨_, _, hct, _, hcm, _⟩ := addSlot_core h1
        obtain ⟨htb, hlen⟩ := addSlot_table h1
        apply pbkdfNew_tableInv
        · refine ⟨fun y => ?_, ?_, ?_⟩
          · rw [htb, resv_append_unsec, hct]; exact h.reserved_iff y
          · rw [hcm, hct]; exact h.marker_task
          · rw [htb]; simp; omega
        · rw [hct]; exact not_tk_of_find_none hnone
  | pake1 x p =>
    simp only [step]
    split
    · exact h
    · rename_i t hft
      split
      · rename_i o ho
        exact tableInv_removeTask h (by simp) (by simp) (by simp) (by simpa using h.cap) (ust_some ho)
      · rename_i hnone
        split
        · exact tableInv_failTask h (by simp) (by simp)
        · split
          · exact tableInv_failTask h (by simp) (by simp)
          · split
            · exact tableInv_removeTask h (by simp) (by simp) (by simp) (by simpa using h.cap) (by simp)
            · split
              · -- Pake2: the task goes on, still holding slot and marker
                refine ⟨fun y => ?_, fun m hm => ?_, by simpa [setTask] using h.cap⟩
                · simp only [setTask, checkWindowTimeout_table, checkWindowTimeout_tasks, updateSessionTimeout_table,
                    updateSessionTimeout_tasks, tk_cons, tk_filter]
                  have := h.reserved_iff y
                  have := tk_of_find hft
                  grind
                · simp only [setTask, checkWindowTimeout_marker, ust_none hnone] at hm
                  injection hm with hm; subst hm
                  simp only [setTask, tk_cons]
                  left; trivial
              · exact tableInv_failTask h (by simp) (by simp)
  | pake3 x c =>
    simp only [step]
    split
    · exact h
    · rename_i t hft
      split
      · rename_i o ho
        exact tableInv_removeTask h (by simp) (by simp) (by simp) (by simpa using h.cap) (ust_some ho)
      · repeat' split
        all_goals first
          | exact tableInv_failTask h (by simp) (by simp)
          | exact tableInv_removeTask h (by simp) (by simp) (by simp) (by simpa using h.cap) (by simp)
          | -- the session is established: the reserved slot becomes the PASE session
            (refine tableInv_removeTask h (by simp) ?_ ?_ ?_ (by simp)
             · intro y hy
               simp only [checkWindowTimeout_table, updateSessionTimeout_table] at hy
               exact ((resv_complete _ _ _).mp hy).1
             · intro y hne hy
               simp only [checkWindowTimeout_table, updateSessionTimeout_table]
               exact (resv_complete _ _ _).mpr ⟨hy, hne⟩
             · simp only [checkWindowTimeout_table, updateSessionTimeout_table, complete_length]
               exact h.cap)
  | other x =>
    simp only [step]
    split
    · exact h
    · split
      · rename_i o ho
        exact tableInv_removeTask h (by simp) (by simp) (by simp) (by simpa using h.cap) (ust_some ho)
      · exact tableInv_failTask h (by simp) (by simp)
  | dead x =>
    simp only [step]
    split
    · split
      · exact ⟨by simpa using h.reserved_iff, by simp, by simpa using h.cap⟩
      · exact h
    · exact tableInv_failTask h rfl rfl
  | rxTimeout x =>
    simp only [step]
    split
    · exact h
    · split
      · exact tableInv_failTask h rfl rfl
      · exact h


theorem deliver_tableInv (s : St) (ctr : Nat) (op : Op) (h : TableInv s) : TableInv (deliver s ctr op).1 := by
  have hs := step_tableInv s op h
  unfold deliver
  split
  · exact hs
  · split
    · split
      · exact h
      · exact tableInv_congr hs rfl rfl rfl
    · split
      · simp only
        split
        · exact tableInv_congr hs rfl rfl rfl
        · exact hs
      · exact h

theorem runEv_tableInv (s : St) (evs : List Ev) (h : TableInv s) : TableInv (runEv s evs) := by
  induction evs generalizing s with
  | nil => exact h
  | cons e es ih =>
    apply ih
    cases e with
    | op o => exact step_tableInv s o h
    | msg c o => exact deliver_tableInv s c o h

/-- **No half-open state, in every history** (API calls, time, handshake messages in any order,
duplicated datagrams, other sessions filling the table, evictions): a reserved session slot exists
exactly while the responder task of its exchange is alive; the in-progress marker always belongs
to a live task; the table never holds more than `MAX_SESSIONS` entries. -/
theorem no_half_open (evs : List Ev) : TableInv (runEv {} evs) := runEv_tableInv {} evs tableInv_init

/-- **No slot for the unsecured session** (`decode_packet` ⇒ `NoSpaceSessions`): the initiator is told
`Busy`, at most one evictable session leaves the table, and nothing else happens - no task, no
reservation, the marker, the window and its failure counter are untouched -/
theorem transport_busy_is_noop (s : St) (x : Nat) (r : Req) (v : Option VClass)
    (hx : findTask s x = none) (hfull : addSlot s (.unsec x) = none) :
    (step s (.pbkdf x r v)).2 = .transportBusy ∧ core (step s (.pbkdf x r v)).1 = core s ∧
      ∀ y, resv (step s (.pbkdf x r v)).1.table y ↔ resv s.table y := by
  have hstep : step s (.pbkdf x r v) = (evictOne s v, .transportBusy) := by
    simp only [step, hx, hfull]
  rw [hstep]
  refine ⟨rfl, ?_, fun y => evictOne_resv s v y⟩
  simp [core]

/-- **The reservation fails** (the unsecured session got the last slot and no session can be
evicted): `reserve_session_or_busy` answers `Busy` and the responder returns `Ok(true)` before it
has looked at the message. No task and no reserved slot remain, and — a reservation failure is no
proof — **nothing is charged**: the window with its failure counter and the marker of whichever
handshake holds it are exactly as before (repo fix `bcb59b0`; before it the failure was charged
like a failed proof and cleared the marker, so that such requests alone could revoke the window). -/
theorem reservation_failure (s s1 : St) (x : Nat) (r : Req) (v : Option VClass)
    (hx : findTask s x = none) (hslot : addSlot s (.unsec x) = some s1) (hres : reserve s1 x v = none) :
    step s (.pbkdf x r v) = (s1, .statusBusy) ∧
    (step s (.pbkdf x r v)).1.marker = s.marker ∧
    (step s (.pbkdf x r v)).1.tasks = s.tasks ∧
    (step s (.pbkdf x r v)).1.sessions = s.sessions ∧
    (step s (.pbkdf x r v)).1.table = s.table ++ [.unsec x] ∧
    (step s (.pbkdf x r v)).1.window = s.window := by
  have hstep : step s (.pbkdf x r v) = (s1, .statusBusy) := by
    simp only [step, hx, hslot, pbkdfNew, hres]
  obtain ⟨hs, hw, ht, _, hm, _⟩ := addSlot_core hslot
  refine ⟨hstep, ?_, ?_, ?_, ?_, ?_⟩
  · rw [hstep]; exact hm
  · rw [hstep]; exact ht
  · rw [hstep]; exact hs
  · rw [hstep]; exact (addSlot_table hslot).1
  · rw [hstep]; exact hw

theorem evictPick_mem {s : St} {cur : Option Nat} {v : Option VClass} {sl : Slot}
    (h : evictPick s cur v = some sl) : sl ∈ s.table := by
  unfold evictPick at h
  simp only at h
  split at h
  · rename_i sl' hp
    injection h with h; subst h
    split at hp
    · exact List.mem_of_find?_eq_some hp
    · cases hp
  · exact List.mem_of_find?_eq_some h

theorem evictPick_none_iff (s : St) (cur : Option Nat) (v : Option VClass) :
    evictPick s cur v = none ↔ ∀ sl ∈ s.table, eligible s cur sl = false := by
  constructor
  · intro hp sl hsl
    unfold evictPick at hp
    simp only at hp
    split at hp
    · cases hp
    · have := List.find?_eq_none.mp hp sl hsl
      simpa using this
  · intro hall
    unfold evictPick
    simp only
    have h2 : s.table.find? (eligible s cur) = none := by
      apply List.find?_eq_none.mpr
      intro sl hsl; simp [hall sl hsl]
    split
    · rename_i sl' hp'
      split at hp'
      · have := List.find?_some hp'
        have hm := List.mem_of_find?_eq_some hp'
        simp [hall _ hm] at this
      · cases hp'
    · exact h2

/-- **when the reservation fails**: exactly when the table is full and every session in it is
reserved or has an active exchange (then nothing can be evicted) -/
theorem reserve_none_iff (s : St) (x : Nat) (v : Option VClass) (hcap : s.table.length ≤ maxSessions) :
    reserve s x v = none ↔ s.table.length = maxSessions ∧ ∀ sl ∈ s.table, eligible s (some x) sl = false := by
  unfold reserve addSlot
  by_cases hl : s.table.length < maxSessions
  · simp only [hl, if_true]
    constructor
    · intro h; cases h
    · intro ⟨h, _⟩; omega
  · simp only [hl, if_false]
    rw [← evictPick_none_iff]
    constructor
    · intro h
      refine ⟨by omega, ?_⟩
      split at h
      · rename_i sl hp
        exfalso
        have hmem := evictPick_mem hp
        have hlen : (removeSlot s sl).table.length < maxSessions := by
          simp only [removeSlot, List.length_erase_of_mem hmem]
          have : 0 < s.table.length := List.length_pos_of_mem hmem
          omega
        simp [hlen] at h
      · rename_i hp; exact hp
    · intro ⟨_, hp⟩
      simp [hp]

/-! ## The responder's receive timeout (`Session::rx_timeout_ms`) and the 60 s marker -/

/-- the receive timeout for a peer that advertises no session parameters, from the extracted MRP
constants: two retransmission ladders (4226 ms each) and the 30 s processing allowance -/
theorem rxTimeout_default : rxTimeoutMs defaultMrp localActiveMs = 38452 := by decide
theorem sendLadder_default : sendLadderMs defaultMrp = 4226 := by decide

/-- **the receive timeout lies inside the marker's 60 s**, even counted from the latest instant the
timer can have been armed (one whole ladder after the responder's answer) -/
theorem rx_timeout_before_marker :
    rxTimeoutMs defaultMrp localActiveMs + sendLadderMs defaultMrp < estTimeoutMs := by decide

/-- the timer cannot fire before `rx_timeout_ms` has passed since the responder's last answer -/
theorem rxTimeout_not_before (s : St) (x : Nat) (t : Task) (h : findTask s x = some t)
    (hearly : s.now < t.since + rxTimeoutMs t.mrp localActiveMs) : step s (.rxTimeout x) = (s, .none) := by
  have : ¬ (s.now ≥ t.since + rxTimeoutMs t.mrp localActiveMs) := by omega
  simp only [step, h, this, if_false]

/-- **an idle handshake is charged**: when the timer fires the task ends with an error - the marker
is cleared and the window's failure counter moves (or the window is revoked at the threshold) -/
theorem rxTimeout_charges (s : St) (x : Nat) (t : Task) (h : findTask s x = some t)
    (hlate : s.now ≥ t.since + rxTimeoutMs t.mrp localActiveMs) :
    step s (.rxTimeout x) = (failTask s x, .none) ∧ (step s (.rxTimeout x)).1.marker = none ∧
    (step s (.rxTimeout x)).1.window =
      match s.window with
      | some w => if w.failures + 1 ≥ maxFailures then none else some { w with failures := w.failures + 1 }
      | none => none := by
  have hstep : step s (.rxTimeout x) = (failTask s x, .none) := by simp only [step, h, hlate, if_true]
  rw [hstep]
  refine ⟨rfl, by simp, ?_⟩
  simp only [failTask, recordFailure_window, removeTask_window]

/-- the marker held by a live handshake runs for 60 s from the responder's last answer -/
def HolderInv (s : St) : Prop :=
  ∀ m, s.marker = some m → ∀ t ∈ s.tasks, t.exch = m.exch → m.deadline = t.since + estTimeoutMs

theorem holder_none {u : St} (h : u.marker = none) : HolderInv u := fun m hm => by rw [h] at hm; cases hm

theorem holder_congr {s u : St} (h : HolderInv s) (ht : u.tasks = s.tasks) (hm : u.marker = s.marker) : HolderInv u := by
  intro m hm' t ht'
  rw [hm] at hm'; rw [ht] at ht'
  exact h m hm' t ht'

theorem holder_removeTask {s u : St} {x : Nat} (h : HolderInv s) (ht : u.tasks = s.tasks)
    (hm : ∀ m, u.marker = some m → s.marker = some m ∧ m.exch ≠ x) : HolderInv (removeTask u x) := by
  intro m hm' t ht' hx
  simp only [removeTask, List.mem_filter, ht] at ht'
  exact h m (hm m hm').1 t ht'.1 hx

theorem holder_setTask {u : St} {t : Task} {n : Nat}
    (hm : u.marker = some { exch := t.exch, deadline := n + estTimeoutMs }) (hs : t.since = n) :
    HolderInv (setTask u t) := by
  intro m hm' t' ht' hx
  simp only [setTask] at hm' ht'
  rw [hm] at hm'
  injection hm' with hm'
  subst hm'
  simp only [List.mem_cons, List.mem_filter] at ht'
  rcases ht' with h1 | h1
  · subst h1; rw [hs]
  · exact absurd hx (by simpa using h1.2)

theorem pbkdfNew_holder {s : St} (x : Nat) (r : Req) (v : Option VClass) (h : HolderInv s)
    (hx : ¬ tk s.tasks x) : HolderInv (pbkdfNew s x r v).1 := by
  unfold pbkdfNew
  split
  · exact h
  · rename_i s1 h1
    obtain ⟨_, _, hct, hcn, hcm, _⟩ := reserve_core h1
    simp only
    split
    · rename_i o ho
      intro m hm t ht hxm
      simp only [updateSessionTimeout_tasks, hct] at ht
      have := (ust_some ho m hm).1
      rw [hcm] at this
      exact h m this t ht hxm
    · rename_i hnone
      split
      · exact holder_none rfl
      · split
        · apply holder_setTask (n := s1.now)
          · simp only [checkWindowTimeout_marker, ust_none hnone]
          · simp
        · exact holder_none (by simp)

theorem step_holder (s : St) (op : Op) (h : HolderInv s) : HolderInv (step s op).1 := by
  cases op with
  | openWin pw secs => simp only [step, openWinCore]; repeat' split
                       all_goals exact holder_congr h rfl rfl
  | openEnh pw secs sl it d => simp only [step, openEnhCore]; repeat' split
                               all_goals exact holder_congr h rfl rfl
  | cmdOpenEnh pw secs sl it d vl => simp only [step, openEnhCore]; repeat' split
                                     all_goals exact holder_congr h (by simp) (by simp)
  | cmdOpenBasic pw secs => simp only [step, openWinCore]; repeat' split
                            all_goals exact holder_congr h (by simp) (by simp)
  | revoke => exact holder_congr h rfl rfl
  | tick ms => exact holder_congr h rfl rfl
  | poll => exact holder_congr h (by simp [step]) (by simp [step])
  | fill n p => exact holder_congr h rfl rfl
  | unfill => exact holder_congr h rfl rfl
  | pbkdf x r v =>
    simp only [step]
    split
    · split
      · rename_i o ho; exact holder_removeTask h (by simp) (ust_some ho)
      · exact holder_none (by simp)
    · rename_i hnone
      split
      · exact holder_congr h (by simp) (by simp)
      · rename_i s1 h1
        obtain ⟨_, _, hct, _, hcm, _⟩ := addSlot_core h1
        apply pbkdfNew_holder
        · exact holder_congr h hct hcm
        · rw [hct]; exact not_tk_of_find_none hnone
  | pake1 x p =>
    simp only [step]
    split
    · exact h
    · rename_i t hft
      split
      · rename_i o ho; exact holder_removeTask h (by simp) (ust_some ho)
      · rename_i hnone
        repeat' split
        all_goals first
          | (apply holder_setTask (n := s.now)
             · simp [ust_none hnone]
             · simp)
          | exact holder_none rfl
          | exact holder_none (by simp)
  | pake3 x c =>
    simp only [step]
    split
    · exact h
    · split
      · rename_i o ho; exact holder_removeTask h (by simp) (ust_some ho)
      · repeat' split
        all_goals first
          | exact holder_none rfl
          | exact holder_none (by simp)
  | other x =>
    simp only [step]
    split
    · exact h
    · split
      · rename_i o ho; exact holder_removeTask h (by simp) (ust_some ho)
      · exact holder_none (by simp)
  | dead x =>
    simp only [step]
    split
    · split
      · exact holder_none (by simp)
      · exact h
    · exact holder_none (by simp)
  | rxTimeout x =>
    simp only [step]
    split
    · exact h
    · split
      · exact holder_none (by simp)
      · exact h

theorem run_holder (s : St) (ops : List Op) (h : HolderInv s) : HolderInv (run s ops) := by
  induction ops generalizing s with
  | nil => exact h
  | cons o os ih => exact ih _ (step_holder s o h)

/-- **The receive timer of a handshake whose peer advertised no session parameters comes before the
marker's expiry** (arithmetic on the extracted constants + `HolderInv`): in every history of
operations, from the responder's last answer the timer fires within `rx_timeout_ms` + one ladder =
42678 ms, the marker runs 60000 ms, so the marker is still valid at every instant at which that
timer can fire. What the theorem does *not* say: that the timer fires (that is the environment's
move `rxTimeout`; its effect - the failure is charged - is `rxTimeout_charges`), and anything about
peers that advertise slower MRP parameters: with SAI = 1000 ms the receive timeout is 84936 ms, the
marker expires first and the stalled handshake ends *uncharged* with `SessionNotFound` - no proof
was examined (`C02Hist.stale_marker_message_not_examined`, general form
`C02Hist.rx_timer_fires_before_marker_expires`). (Formerly `idle_handshake_charged_before_marker_expires`.) -/
theorem rx_timer_fires_before_marker_expires_default_mrp (ops : List Op) (x : Nat) (t : Task) (m : Marker)
    (ht : findTask (run {} ops) x = some t) (hm : (run {} ops).marker = some m) (hx : m.exch = x)
    (hmrp : t.mrp = defaultMrp)
    (hnow : (run {} ops).now ≤ t.since + rxTimeoutMs t.mrp localActiveMs + sendLadderMs t.mrp) :
    (run {} ops).now < m.deadline := by
  have hinv : HolderInv (run {} ops) := run_holder {} ops (holder_none rfl)
  have hd := hinv m hm t (findTask_mem ht).1 (by rw [(findTask_mem ht).2, hx])
  rw [hmrp] at hnow
  have := rx_timeout_before_marker
  omega


/-- the threshold of the code is the property's *twenty* (breaks if the constant is changed) -/
theorem threshold_is_twenty : maxFailures = 20 := by decide

/-! ## Non-vacuity and the finding's history on the (fixed) model -/
namespace Ex
/-- ids are drawn from `fresh`: window id 0, transcript 1, responder share 2 -/
def conf : Conf := { pw := 7, ctx := 1, pA := 5, pB := 2 }
def honest : List Op := [.openWin 7 180, .pbkdf 1 .good none, .pake1 1 (.valid 5), .pake3 1 (.mac conf)]

/-- the honest run ends with one session, created in the open window of its own proof -/
example : (run {} honest).sessions =
    [{ exch := 1, conf := conf, windowOpenAtCreation := true, sameWindowAtCreation := true }] := by decide

/-- hypotheses of `session_only_in_open_window` / `session_implies_proof` (right disjunct) are met by the
last step of the honest run -/
example : ∃ s sess, sess ∈ (step s (.pake3 1 (.mac conf))).1.sessions ∧ sess ∉ s.sessions :=
  ⟨run {} (honest.take 3), { exch := 1, conf := conf, windowOpenAtCreation := true, sameWindowAtCreation := true },
    by decide, by decide⟩

/-- **the finding's history**: window revoked between Pake1 and Pake3 — no session, the message is dropped -/
example : (run {} [.openWin 7 180, .pbkdf 1 .good none, .pake1 1 (.valid 5), .revoke, .pake3 1 (.mac conf)]).sessions = [] := by
  decide
/-- … window expired between Pake1 and Pake3 (no poll in between) -/
example : (run {} [.openWin 7 180, .tick 170000, .pbkdf 1 .good none, .pake1 1 (.valid 5), .tick 20000,
    .pake3 1 (.mac conf)]).sessions = [] := by decide
/-- … window replaced by another one between Pake1 and Pake3 -/
example : (run {} [.openWin 7 180, .pbkdf 1 .good none, .pake1 1 (.valid 5), .revoke, .openWin 8 180,
    .pake3 1 (.mac conf)]).sessions = [] := by decide

/-- `wrong_passcode_never`: its hypothesis is satisfiable (the handshake expects passcode class 7) -/
example : (step (run {} (honest.take 3)) (.pake3 1 (.mac { conf with pw := 8 }))).1.sessions = [] := by decide
/-- `failed_proof_counted`: hypotheses satisfiable, and the counter moves 0 → 1 -/
example : ((step (run {} (honest.take 3)) (.pake3 1 (.junk 0))).1.window.map (·.failures)) = some 1 := by decide
/-- `waitPake3_only_by_valid_pake1`: an invalid share ends the handshake (and is counted) -/
example : (run {} [.openWin 7 180, .pbkdf 1 .good none, .pake1 1 .identity]).tasks = [] := by decide
example : ((run {} [.openWin 7 180, .pbkdf 1 .good none, .pake1 1 .offCurve]).window.map (·.failures)) = some 1 := by decide
/-- a second initiator while one is in progress is told `Busy` and is not counted -/
example : (step (run {} (honest.take 2)) (.pbkdf 2 .good none)).2 = .statusBusy := by decide

/-! ### the enhanced window, the session table, duplicates, the receive timeout -/
/-- `single_window_*`: hypotheses satisfiable - basic over enhanced and enhanced over basic are both refused -/
example : (step (run {} [.openEnh 9 180 16 1000 5]) (.openWin 7 180)).2 = .errBusy := by decide
example : (step (run {} [.openWin 7 180]) (.openEnh 9 180 16 1000 5)).2 = .errBusy := by decide
/-- `openEnh_ok_iff` both ways: legal parameters are taken, a 15- or 33-byte salt and a 179 s timeout are not -/
example : (step {} (.openEnh 9 180 16 1000 5)).2 = .ok := by decide
example : (step {} (.openEnh 9 180 15 1000 5)).2 = .errConstraint := by decide
example : (step {} (.openEnh 9 180 33 1000 5)).2 = .errConstraint := by decide
example : (step {} (.openEnh 9 179 16 1000 5)).2 = .errInvalidCommand := by decide
/-- under an enhanced window (verifier class 9) the proof must be for class 9 … -/
def confEnh : Conf := { pw := 9, ctx := 1, pA := 5, pB := 2 }
example : (run {} [.openEnh 9 180 16 1000 5, .pbkdf 1 .good none, .pake1 1 (.valid 5), .pake3 1 (.mac confEnh)]).sessions =
    [{ exch := 1, conf := confEnh, windowOpenAtCreation := true, sameWindowAtCreation := true }] := by decide
/-- … the device's own passcode class (7) is refused and charged -/
example : (run {} [.openEnh 9 180 16 1000 5, .pbkdf 1 .good none, .pake1 1 (.valid 5), .pake3 1 (.mac conf)]).sessions = [] ∧
    ((run {} [.openEnh 9 180 16 1000 5, .pbkdf 1 .good none, .pake1 1 (.valid 5), .pake3 1 (.mac conf)]).window.map (·.failures)) = some 1 := by
  decide
/-- `proof_is_for_the_open_window`: hypotheses satisfiable (the last step of the run above adds a session) -/
example : ∃ s sess, sess ∈ (step s (.pake3 1 (.mac confEnh))).1.sessions ∧ sess ∉ s.sessions :=
  ⟨run {} [.openEnh 9 180 16 1000 5, .pbkdf 1 .good none, .pake1 1 (.valid 5)],
    { exch := 1, conf := confEnh, windowOpenAtCreation := true, sameWindowAtCreation := true }, by decide, by decide⟩

/-- `cmdOpenEnh_ok` / `cmdOpenEnh_param_error`: the bounds both ways -/
example : (step {} (.cmdOpenEnh 9 180 16 1000 5 97)).2 = .ok := by decide
example : (step {} (.cmdOpenEnh 9 180 32 100000 5 97)).2 = .ok := by decide
example : (step {} (.cmdOpenEnh 9 180 16 999 5 97)).2 = .errPakeParam := by decide
example : (step {} (.cmdOpenEnh 9 180 16 100001 5 97)).2 = .errPakeParam := by decide
example : (step {} (.cmdOpenEnh 9 180 15 1000 5 97)).2 = .errPakeParam := by decide
example : (step {} (.cmdOpenEnh 9 180 33 1000 5 97)).2 = .errPakeParam := by decide
example : (step {} (.cmdOpenEnh 9 180 16 1000 5 96)).2 = .errPakeParam := by decide
/-- `cmd_single_window` / `cmd_replaces_expired_window`: hypotheses satisfiable -/
example : (step (run {} [.openEnh 9 180 16 1000 5]) (.cmdOpenBasic 7 180)).2 = .errClusterBusy := by decide
example : (step (run {} [.openEnh 9 180 16 1000 5, .tick 180001]) (.cmdOpenBasic 7 180)).2 = .ok := by decide
example : (step (run {} [.openEnh 9 180 16 1000 5, .tick 180001]) (.openWin 7 180)).2 = .errBusy := by decide

/-- `redelivery_is_noop`: every message of the honest handshake delivered twice - one session, no failure -/
def honestTwice : List Ev :=
  [.op (.openWin 7 180), .msg 0 (.pbkdf 1 .good none), .msg 0 (.pbkdf 1 .good none), .msg 1 (.pake1 1 (.valid 5)),
   .msg 1 (.pake1 1 (.valid 5)), .msg 2 (.pake3 1 (.mac conf)), .msg 2 (.pake3 1 (.mac conf))]
example : (runEv {} honestTwice).sessions.length = 1 ∧ ((runEv {} honestTwice).window.map (·.failures)) = some 0 := by decide
/-- a refused Pake3 delivered three times is charged once -/
example : ((runEv {} [.op (.openWin 7 180), .msg 0 (.pbkdf 1 .good none), .msg 1 (.pake1 1 (.valid 5)),
    .msg 2 (.pake3 1 (.junk 0)), .msg 2 (.pake3 1 (.junk 0)), .msg 2 (.pake3 1 (.junk 0))]).window.map (·.failures)) = some 1 := by
  decide
/-- `dup_is_noop` / `redelivery_is_noop`: hypotheses satisfiable -/
example : hasUnsec (deliver (run {} [.openWin 7 180]) 0 (.pbkdf 1 .good none)).1 1 = true := by decide

/-- `transport_busy_is_noop`: a full table of sessions with active exchanges -/
example : (step (run {} [.openWin 7 180, .fill 16 true]) (.pbkdf 1 .good none)).2 = .transportBusy := by decide
/-- `reservation_failure`: one free slot - `Busy`, nothing charged, no task, no marker, no reserved slot -/
example : (step (run {} [.openWin 7 180, .fill 15 true]) (.pbkdf 1 .good none)).2 = .statusBusy ∧
    ((step (run {} [.openWin 7 180, .fill 15 true]) (.pbkdf 1 .good none)).1.window.map (·.failures)) = some 0 ∧
    (step (run {} [.openWin 7 180, .fill 15 true]) (.pbkdf 1 .good none)).1.tasks = [] ∧
    (step (run {} [.openWin 7 180, .fill 15 true]) (.pbkdf 1 .good none)).1.marker = none ∧
    (step (run {} [.openWin 7 180, .fill 15 true]) (.pbkdf 1 .good none)).1.table.contains (.reserved 1) = false := by decide
/-- … and with one evictable session the handshake proceeds -/
example : (step (run {} [.openWin 7 180, .fill 14 true, .fill 1 false]) (.pbkdf 1 .good (some .filler))).2 = .pbkdfResp 1 := by
  decide
/-- a handshake in progress is not disturbed when a second initiator's reservation fails: it keeps
the marker and its next message is answered (before `bcb59b0` it was told `SessionNotFound`); such
requests leave the failure counter alone (`reservation_failure`: the window is unchanged, each time) -/
example : (step (run {} [.openWin 7 180, .pbkdf 1 .good none, .fill 13 true, .pbkdf 2 .good none]) (.pake1 1 (.valid 5))).2 =
    .pake2 2 := by decide
example : ((run {} [.openWin 7 180, .fill 15 true, .pbkdf 1 .good (some .unsec), .pbkdf 2 .good (some .unsec),
    .pbkdf 3 .good (some .unsec)]).window.map (·.failures)) = some 0 := by decide

/-- `rxTimeout_not_before` / `rxTimeout_charges`: 38451 ms of silence are survived, 38452 ms are not -/
example : (run {} [.openWin 7 180, .pbkdf 1 .good none, .tick 38451, .rxTimeout 1]).tasks.length = 1 := by decide
example : (run {} [.openWin 7 180, .pbkdf 1 .good none, .tick 38452, .rxTimeout 1]).tasks = [] ∧
    ((run {} [.openWin 7 180, .pbkdf 1 .good none, .tick 38452, .rxTimeout 1]).window.map (·.failures)) = some 1 := by decide
/-- session parameters advertised by the initiator move the timeout (SAI 1000 ms: the outbound ladder leaves the 4 s active threshold and is then paced by the idle interval) -/
example : rxTimeoutMs (applyParams defaultMrp (some 1000) none none) localActiveMs = 84936 := by decide
/-- `rx_timer_fires_before_marker_expires_default_mrp`: hypotheses satisfiable -/
example : ∃ t m, findTask (run {} [.openWin 7 180, .pbkdf 1 .good none, .tick 40000]) 1 = some t ∧
    (run {} [.openWin 7 180, .pbkdf 1 .good none, .tick 40000]).marker = some m ∧ m.exch = 1 ∧ t.mrp = defaultMrp ∧
    (run {} [.openWin 7 180, .pbkdf 1 .good none, .tick 40000]).now ≤ t.since + rxTimeoutMs t.mrp localActiveMs + sendLadderMs t.mrp :=
  ⟨{ exch := 1, stage := .waitPake1 1, since := 0, mrp := defaultMrp }, { exch := 1, deadline := 60000 },
    by decide, by decide, rfl, rfl, by decide⟩
end Ex

end C02
